(* BufsReach.v -- C20: `b +` / `b -` reach the next / previous id (no wrap-around: failure at the ends),
   plain `:e path` / `:e #` with a clean current buffer, the summary theorem reaches_named over ex_command,
   and the frame of `b ~` (renumbering) with the history theorem that includes it.  Lemmas and proofs only. *)
From Coq Require Import List ZArith NArith Bool Lia Permutation Arith.
From NV Require Import GenConsts BufsDefs BufsProps BufsWf.
Import ListNotations.

Lemma first_idx_set_nth {A} (f : A -> bool) (l : list A) : forall i x y, nth_error l i = Some x -> f y = f x ->
  first_idx f (set_nth l i y) = first_idx f l.
Proof.
  induction l as [|z l IH]; intros [|i] x y H E; cbn in *; try discriminate.
  - inversion H; subst. rewrite E. reflexivity.
  - rewrite (IH i x y H E). reflexivity.
Qed.

Lemma first_idx_first {A} (f : A -> bool) (l : list A) : forall i x, nth_error l i = Some x -> f x = true ->
  (forall j y, (j < i)%nat -> nth_error l j = Some y -> f y = false) -> first_idx f l = Some i.
Proof.
  induction l as [|z l IH]; intros [|i] x H Fx Hlt; cbn in *; try discriminate.
  - inversion H; subst. rewrite Fx. reflexivity.
  - rewrite (Hlt 0%nat z ltac:(lia) eq_refl). rewrite (IH i x H Fx); [reflexivity|]. intros j y Hj Hy. apply (Hlt (S j) y); [lia|exact Hy].
Qed.

Lemma some_inj {A} (x y : A) : Some x = Some y -> x = y.
Proof. congruence. Qed.

Section Reach.
Context {L Op Out : Type}.
Variable Lo : lops L Op Out.
Notation buf := (buf L).
Notation slot := (slot L).
Notation st := (st L).
Notation bump := (bump Lo).
Implicit Types s : st.

(* ---------- scan_next / scan_prev ---------- *)
Lemma scan_next_spec : forall (l : list slot) i0 cur best,
  match scan_next l i0 cur best with
  | None => best = None /\ forall j b, nth_error l j = Some (Some b) -> (b_id b <= cur)%Z
  | Some (k, bid) =>
      (best = Some (k, bid) \/ exists j b, k = (i0 + j)%nat /\ nth_error l j = Some (Some b) /\ b_id b = bid /\ (cur < bid)%Z) /\
      (forall k' bid', best = Some (k', bid') -> (bid <= bid')%Z) /\
      (forall j b, nth_error l j = Some (Some b) -> (cur < b_id b)%Z -> (bid <= b_id b)%Z)
  end.
Proof.
  induction l as [|x r IH]; intros i0 cur best.
  - cbn [scan_next]. destruct best as [[k bid]|].
    + split; [left; reflexivity|]. split; [intros k' bid' E; inversion E; lia|]. intros [|j] b H; discriminate.
    + split; [reflexivity|]. intros [|j] b H; discriminate.
  - cbn [scan_next].
    set (best' := match x with
                  | Some b => if (b_id b >? cur)%Z then match best with None => Some (i0, b_id b) | Some (_, bid) => if (b_id b <? bid)%Z then Some (i0, b_id b) else best end else best
                  | None => best end).
    assert (A : best' = best \/ exists b, x = Some b /\ best' = Some (i0, b_id b) /\ (cur < b_id b)%Z /\ forall k' bid', best = Some (k', bid') -> (b_id b < bid')%Z).
    { unfold best'. destruct x as [b|]; [|left; reflexivity]. rewrite Z.gtb_ltb. destruct (Z.ltb_spec cur (b_id b)); [|left; reflexivity].
      destruct best as [[k0 bid0]|].
      - destruct (Z.ltb_spec (b_id b) bid0); [|left; reflexivity]. right. exists b. repeat split; auto. intros k' bid' E. inversion E; subst. lia.
      - right. exists b. repeat split; auto. intros; discriminate. }
    assert (B : forall b, x = Some b -> (cur < b_id b)%Z -> exists k1 bid1, best' = Some (k1, bid1) /\ (bid1 <= b_id b)%Z).
    { intros b -> Hb. unfold best'. rewrite Z.gtb_ltb. destruct (Z.ltb_spec cur (b_id b)); [|lia].
      destruct best as [[k0 bid0]|]; [|eexists; eexists; split; [reflexivity|lia]].
      destruct (Z.ltb_spec (b_id b) bid0); eexists; eexists; (split; [reflexivity|lia]). }
    assert (C : forall k' bid', best = Some (k', bid') -> exists k1 bid1, best' = Some (k1, bid1) /\ (bid1 <= bid')%Z).
    { intros k' bid' ->. unfold best'. destruct x as [b|]; [|eexists; eexists; split; [reflexivity|lia]].
      destruct (b_id b >? cur)%Z; [|eexists; eexists; split; [reflexivity|lia]].
      destruct (Z.ltb_spec (b_id b) bid'); eexists; eexists; (split; [reflexivity|lia]). }
    clearbody best'. specialize (IH (S i0) cur best'). destruct (scan_next r (S i0) cur best') as [[k bid]|].
    + destruct IH as (I1 & I2 & I3). split; [|split].
      * destruct I1 as [I1|(j & b & -> & Hj & Hb & Hc)].
        -- destruct A as [A|(b & -> & A & Hc & _)]; [left; congruence|]. right. exists 0%nat, b. rewrite I1 in A. inversion A; subst.
           repeat split; auto; lia.
        -- right. exists (S j), b. repeat split; auto; lia.
      * intros k' bid' E. destruct (C k' bid' E) as (k1 & bid1 & E1 & Hle). specialize (I2 k1 bid1 E1). lia.
      * intros [|j] b Hj Hc; cbn in Hj.
        -- inversion Hj; subst. destruct (B b eq_refl Hc) as (k1 & bid1 & E1 & Hle). specialize (I2 k1 bid1 E1). lia.
        -- eapply I3; eauto.
    + destruct IH as (I1 & I2). split.
      * destruct best as [[k' bid']|]; [|reflexivity]. destruct (C k' bid' eq_refl) as (k1 & bid1 & E1 & _). congruence.
      * intros [|j] b Hj; cbn in Hj; [|eapply I2; eauto]. inversion Hj; subst.
        destruct (Z.le_gt_cases (b_id b) cur) as [Hle|Hgt]; [exact Hle|]. destruct (B b eq_refl ltac:(lia)) as (k1 & bid1 & E1 & _). congruence.
Qed.

Lemma scan_prev_spec : forall (l : list slot) i0 cur best,
  match scan_prev l i0 cur best with
  | None => best = None /\ forall j b, nth_error l j = Some (Some b) -> (cur <= b_id b)%Z
  | Some (k, bid) =>
      (best = Some (k, bid) \/ exists j b, k = (i0 + j)%nat /\ nth_error l j = Some (Some b) /\ b_id b = bid /\ (bid < cur)%Z) /\
      (forall k' bid', best = Some (k', bid') -> (bid' <= bid)%Z) /\
      (forall j b, nth_error l j = Some (Some b) -> (b_id b < cur)%Z -> (b_id b <= bid)%Z)
  end.
Proof.
  induction l as [|x r IH]; intros i0 cur best.
  - cbn [scan_prev]. destruct best as [[k bid]|].
    + split; [left; reflexivity|]. split; [intros k' bid' E; inversion E; lia|]. intros [|j] b H; discriminate.
    + split; [reflexivity|]. intros [|j] b H; discriminate.
  - cbn [scan_prev].
    set (best' := match x with
                  | Some b => if (b_id b <? cur)%Z then match best with None => Some (i0, b_id b) | Some (_, bid) => if (b_id b >? bid)%Z then Some (i0, b_id b) else best end else best
                  | None => best end).
    assert (A : best' = best \/ exists b, x = Some b /\ best' = Some (i0, b_id b) /\ (b_id b < cur)%Z /\ forall k' bid', best = Some (k', bid') -> (bid' < b_id b)%Z).
    { unfold best'. destruct x as [b|]; [|left; reflexivity]. destruct (Z.ltb_spec (b_id b) cur); [|left; reflexivity].
      destruct best as [[k0 bid0]|].
      - rewrite Z.gtb_ltb. destruct (Z.ltb_spec bid0 (b_id b)); [|left; reflexivity]. right. exists b. repeat split; auto. intros k' bid' E. inversion E; subst. lia.
      - right. exists b. repeat split; auto. intros; discriminate. }
    assert (B : forall b, x = Some b -> (b_id b < cur)%Z -> exists k1 bid1, best' = Some (k1, bid1) /\ (b_id b <= bid1)%Z).
    { intros b -> Hb. unfold best'. destruct (Z.ltb_spec (b_id b) cur); [|lia].
      destruct best as [[k0 bid0]|]; [|eexists; eexists; split; [reflexivity|lia]].
      rewrite Z.gtb_ltb. destruct (Z.ltb_spec bid0 (b_id b)); eexists; eexists; (split; [reflexivity|lia]). }
    assert (C : forall k' bid', best = Some (k', bid') -> exists k1 bid1, best' = Some (k1, bid1) /\ (bid' <= bid1)%Z).
    { intros k' bid' ->. unfold best'. destruct x as [b|]; [|eexists; eexists; split; [reflexivity|lia]].
      destruct (b_id b <? cur)%Z; [|eexists; eexists; split; [reflexivity|lia]].
      rewrite Z.gtb_ltb. destruct (Z.ltb_spec bid' (b_id b)); eexists; eexists; (split; [reflexivity|lia]). }
    clearbody best'. specialize (IH (S i0) cur best'). destruct (scan_prev r (S i0) cur best') as [[k bid]|].
    + destruct IH as (I1 & I2 & I3). split; [|split].
      * destruct I1 as [I1|(j & b & -> & Hj & Hb & Hc)].
        -- destruct A as [A|(b & -> & A & Hc & _)]; [left; congruence|]. right. exists 0%nat, b. rewrite I1 in A. inversion A; subst.
           repeat split; auto; lia.
        -- right. exists (S j), b. repeat split; auto; lia.
      * intros k' bid' E. destruct (C k' bid' E) as (k1 & bid1 & E1 & Hle). specialize (I2 k1 bid1 E1). lia.
      * intros [|j] b Hj Hc; cbn in Hj.
        -- inversion Hj; subst. destruct (B b eq_refl Hc) as (k1 & bid1 & E1 & Hle). specialize (I2 k1 bid1 E1). lia.
        -- eapply I3; eauto.
    + destruct IH as (I1 & I2). split.
      * destruct best as [[k' bid']|]; [|reflexivity]. destruct (C k' bid' eq_refl) as (k1 & bid1 & E1 & _). congruence.
      * intros [|j] b Hj; cbn in Hj; [|eapply I2; eauto]. inversion Hj; subst.
        destruct (Z.le_gt_cases cur (b_id b)) as [Hle|Hgt]; [exact Hle|]. destruct (B b eq_refl ltac:(lia)) as (k1 & bid1 & E1 & _). congruence.
Qed.

Lemma cur_id_slot0 s b0 : slot0 s = Some b0 -> cur_id s = b_id b0.
Proof. unfold cur_id. intros ->. reflexivity. Qed.

(* `b +`: THE buffer with the least id above the current one; none above -> "no such buffer", nothing changes *)
Theorem reaches_next s b0 i b : wf s -> slot0 s = Some b0 -> nth_error (bufs s) i = Some (Some b) -> (b_id b0 < b_id b)%Z ->
  (forall j b', nth_error (bufs s) j = Some (Some b') -> (b_id b0 < b_id b')%Z -> (b_id b <= b_id b')%Z) ->
  (xwa s = true \/ dirty_at Lo s 0 = false) ->
  let s' := fst (ec_buffer_next Lo s) in slot0 s' = Some b /\ xv s' = b_view b /\ fs s' = fs s.
Proof.
  intros W H0 Hi Hlt Hmin Hok. cbn zeta. unfold ec_buffer_next. rewrite (cur_id_slot0 s b0 H0).
  pose proof (scan_next_spec (bufs s) 0 (b_id b0) None) as S. destruct (scan_next (bufs s) 0 (b_id b0) None) as [[k bid]|].
  - destruct S as ([S1|(j & bk & -> & Hj & Hb & Hc)] & _ & S3); [discriminate|]. cbn [option_map fst Nat.add].
    assert (j = i). { eapply (wf_unique s j i bk b W Hj Hi). specialize (S3 i b Hi Hlt). specialize (Hmin j bk Hj ltac:(lia)). lia. }
    subst j. apply goto_reaches; auto. destruct i; [|lia]. apply slot0_some in H0. rewrite H0 in Hi. inversion Hi; subst. lia.
  - destruct S as (_ & S2). specialize (S2 i b Hi). lia.
Qed.
Theorem next_none s : (forall j b, nth_error (bufs s) j = Some (Some b) -> (b_id b <= cur_id s)%Z) ->
  ec_buffer_next Lo s = (s, [EvMsg MNoSuch]).
Proof.
  intro H. unfold ec_buffer_next. pose proof (scan_next_spec (bufs s) 0 (cur_id s) None) as S.
  destruct (scan_next (bufs s) 0 (cur_id s) None) as [[k bid]|]; [|reflexivity].
  destruct S as ([S1|(j & bk & -> & Hj & Hb & Hc)] & _); [discriminate|]. specialize (H j bk Hj). lia.
Qed.
Theorem reaches_prev s b0 i b : wf s -> slot0 s = Some b0 -> nth_error (bufs s) i = Some (Some b) -> (b_id b < b_id b0)%Z ->
  (forall j b', nth_error (bufs s) j = Some (Some b') -> (b_id b' < b_id b0)%Z -> (b_id b' <= b_id b)%Z) ->
  (xwa s = true \/ dirty_at Lo s 0 = false) ->
  let s' := fst (ec_buffer_prev Lo s) in slot0 s' = Some b /\ xv s' = b_view b /\ fs s' = fs s.
Proof.
  intros W H0 Hi Hlt Hmin Hok. cbn zeta. unfold ec_buffer_prev. rewrite (cur_id_slot0 s b0 H0).
  pose proof (scan_prev_spec (bufs s) 0 (b_id b0) None) as S. destruct (scan_prev (bufs s) 0 (b_id b0) None) as [[k bid]|].
  - destruct S as ([S1|(j & bk & -> & Hj & Hb & Hc)] & _ & S3); [discriminate|]. cbn [option_map fst Nat.add].
    assert (j = i). { eapply (wf_unique s j i bk b W Hj Hi). specialize (S3 i b Hi Hlt). specialize (Hmin j bk Hj ltac:(lia)). lia. }
    subst j. apply goto_reaches; auto. destruct i; [|lia]. apply slot0_some in H0. rewrite H0 in Hi. inversion Hi; subst. lia.
  - destruct S as (_ & S2). specialize (S2 i b Hi). lia.
Qed.
Theorem prev_none s : (forall j b, nth_error (bufs s) j = Some (Some b) -> (cur_id s <= b_id b)%Z) ->
  ec_buffer_prev Lo s = (s, [EvMsg MNoSuch]).
Proof.
  intro H. unfold ec_buffer_prev. pose proof (scan_prev_spec (bufs s) 0 (cur_id s) None) as S.
  destruct (scan_prev (bufs s) 0 (cur_id s) None) as [[k bid]|]; [|reflexivity].
  destruct S as ([S1|(j & bk & -> & Hj & Hb & Hc)] & _); [discriminate|]. specialize (H j bk Hj). lia.
Qed.

(* ---------- :e path / :e # with the dirty test, current buffer clean ---------- *)
Lemma modified_find s p : bufs_find (fst (bufs_modified Lo s 0)) p = bufs_find s p.
Proof.
  unfold bufs_find, bufs_modified. destruct (nth_error (bufs s) 0) as [[b|]|] eqn:E; cbn [fst bufs set_bufs]; auto.
  eapply first_idx_set_nth; [exact E|]. reflexivity.
Qed.
Lemma modified_pathexpand s a : pathexpand (fst (bufs_modified Lo s 0)) a = pathexpand s a.
Proof.
  destruct a; cbn [pathexpand]; auto.
  - destruct (nth_error (bufs s) 0) as [[b|]|] eqn:E.
    + rewrite (modified_at Lo s 0 b E). reflexivity.
    + unfold bufs_modified. rewrite E. cbn [fst]. rewrite E. reflexivity.
    + unfold bufs_modified. rewrite E. cbn [fst]. rewrite E. reflexivity.
  - rewrite (modified_other Lo s 0 1) by lia. reflexivity.
Qed.
Lemma edit_clean s bang ew a : bang || xwa s = false -> dirty_at Lo s 0 = false ->
  ec_edit Lo s bang ew a = ec_edit Lo (fst (bufs_modified Lo s 0)) true ew a.
Proof.
  intros Hb Hd. unfold ec_edit at 1. rewrite Hb. pose proof (modified_snd Lo s 0) as D. rewrite Hd in D.
  destruct (bufs_modified Lo s 0) as [s0 d]. cbn [fst snd] in *. subst d. unfold ec_edit. cbn [orb]. reflexivity.
Qed.

Theorem reaches_path_gen s bang a p i b : (bang || xwa s = true \/ dirty_at Lo s 0 = false) ->
  pathexpand s a = Some p -> p <> [] -> bufs_find s p = Some i -> (1 <= i)%nat -> nth_error (bufs s) i = Some (Some b) ->
  let r := ec_edit Lo s bang false a in
  snd r = true /\ snd (fst r) = [] /\ slot0 (fst (fst r)) = Some b /\ xv (fst (fst r)) = b_view b /\ fs (fst (fst r)) = fs s /\ b_path b = canon p.
Proof.
  intros Hok Hp Hne Hf Hi Hn. cbn zeta. destruct (bang || xwa s) eqn:Hb.
  - destruct (reaches_path Lo s bang a p i b Hb Hp Hne Hf Hi Hn) as (E & A & B & C & D). rewrite E. cbn [fst snd]. repeat split; assumption || reflexivity.
  - destruct Hok as [?|Hd]; [discriminate|]. rewrite (edit_clean s bang false a Hb Hd).
    set (s0 := fst (bufs_modified Lo s 0)).
    assert (Hn0 : nth_error (bufs s0) i = Some (Some b)) by (unfold s0; rewrite (modified_other Lo s 0 i) by lia; exact Hn).
    assert (Hp0 : pathexpand s0 a = Some p) by (unfold s0; rewrite modified_pathexpand; exact Hp).
    assert (Hf0 : bufs_find s0 p = Some i) by (unfold s0; rewrite modified_find; exact Hf).
    destruct (reaches_path Lo s0 true a p i b eq_refl Hp0 Hne Hf0 Hi Hn0) as (E & A & B & C & D). rewrite E. cbn [fst snd].
    destruct (modified_fields Lo s 0) as (_ & _ & F & _). fold s0 in F. rewrite C, F. repeat split; assumption || reflexivity.
Qed.

Theorem reaches_alt_gen s bang b0 b1 : (bang || xwa s = true \/ dirty_at Lo s 0 = false) ->
  nth_error (bufs s) 0 = Some (Some b0) -> nth_error (bufs s) 1 = Some (Some b1) ->
  b_path b1 <> [47%N] -> b_path b0 <> b_path b1 ->
  let r := ec_edit Lo s bang false PAlt in
  snd r = true /\ snd (fst r) = [] /\ slot0 (fst (fst r)) = Some b1 /\ xv (fst (fst r)) = b_view b1 /\ fs (fst (fst r)) = fs s.
Proof.
  intros Hok H0 H1 Hs Hd. cbn zeta.
  set (p := match b_path b1 with [] => [47%N] | q => q end).
  assert (Hp : pathexpand s PAlt = Some p) by (unfold pathexpand; rewrite H1; reflexivity).
  assert (Hne : p <> []) by (unfold p; destruct (b_path b1); discriminate).
  assert (Hc : canon p = b_path b1).
  { unfold p, canon. destruct (b_path b1) as [|x r] eqn:E; [reflexivity|].
    destruct (path_eqb (x :: r) [47%N]) eqn:Q; [|reflexivity]. apply path_eqb_eq in Q. congruence. }
  assert (Hf : bufs_find s p = Some 1%nat).
  { unfold bufs_find. rewrite Hc. destruct (bufs s) as [|x0 [|x1 r]]; cbn in H0, H1; try discriminate.
    inversion H0; inversion H1; subst. cbn.
    destruct (path_eqb (b_path b0) (b_path b1)) eqn:Q; [apply path_eqb_eq in Q; congruence|].
    replace (path_eqb (b_path b1) (b_path b1)) with true by (symmetry; apply path_eqb_eq; reflexivity). reflexivity. }
  destruct (reaches_path_gen s bang PAlt p 1 b1 Hok Hp Hne Hf ltac:(lia) H1) as (A & B & C & D & E & _). auto.
Qed.

(* :ew path (vi's window switch issues ew! / ew): when the buffer is beyond slot 1 the alternate is made current first
   ("without changing #"), then the named buffer; the buffer reached is the same *)
Lemma saved_nth0 s x0 : nth_error (bufs s) 0 = Some x0 ->
  nth_error (saved Lo s) 0 = Some (upd_slot bump (upd_slot (fun b => set_view b (xv s)) x0)).
Proof. intro H. unfold saved. destruct (bufs s) as [|y r]; cbn in *; [discriminate|]. inversion H; subst. reflexivity. Qed.

Lemma reaches_ew_forced s bang a p i b : bang || xwa s = true -> pathexpand s a = Some p -> p <> [] ->
  bufs_find s p = Some i -> (1 <= i)%nat -> nth_error (bufs s) i = Some (Some b) ->
  let r := ec_edit Lo s bang true a in
  snd r = true /\ snd (fst r) = [] /\ slot0 (fst (fst r)) = Some b /\ xv (fst (fst r)) = b_view b /\ fs (fst (fst r)) = fs s.
Proof.
  intros Hb Hp Hne Hf Hi Hn. cbn zeta. unfold ec_edit. rewrite Hb, Hp. destruct p as [|c0 p0]; [congruence|]. cbn [andb].
  set (p := c0 :: p0) in *. rewrite Hf.
  assert (G : forall s0 k, nth_error (bufs s0) k = Some (Some b) -> (1 <= k)%nat ->
              slot0 (bufs_switch Lo s0 k) = Some b /\ xv (bufs_switch Lo s0 k) = b_view b /\ fs (bufs_switch Lo s0 k) = fs s0).
  { intros s0 k H0 Hk. assert (S0 : slot0 (bufs_switch Lo s0 k) = Some b) by (apply switch_slot0; rewrite saved_tail by exact Hk; exact H0).
    split; [exact S0|]. split; [rewrite switch_xv, S0; reflexivity|]. apply switch_fields. }
  destruct (1 <? i)%nat eqn:Hlt.
  - apply Nat.ltb_lt in Hlt. unfold bufs_find in Hf. destruct (first_idx_some _ _ _ Hf) as (x & Hx & Fx & Hmin).
    destruct (nth_error (bufs s) 1) as [x1|] eqn:E1; [|apply nth_error_None in E1; assert (i < length (bufs s))%nat by (apply nth_error_Some; congruence); lia].
    destruct (nth_error (bufs s) 0) as [x0|] eqn:E0; [|apply nth_error_None in E0; assert (i < length (bufs s))%nat by (apply nth_error_Some; congruence); lia].
    assert (L1 : nth_error (saved Lo s) 1 = Some x1) by (rewrite saved_tail by lia; exact E1).
    assert (Hn1 : nth_error (bufs (bufs_switch Lo s 1)) i = Some (Some b)).
    { rewrite switch_bufs, (switch_nth_gt _ 1 x1 i L1 Hlt), saved_tail by lia. exact Hn. }
    assert (Hf1 : bufs_find (bufs_switch Lo s 1) p = Some i).
    { unfold bufs_find. apply (first_idx_first _ _ i (Some b) Hn1).
      - rewrite Hx in Hn. inversion Hn; subst. exact Fx.
      - intros j y Hj Hy. rewrite switch_bufs in Hy. destruct j as [|[|j]].
        + pose proof (eq_trans (eq_sym (switch_nth0 _ 1 x1 L1)) Hy) as Q. apply some_inj in Q. subst y. apply (Hmin 1%nat); [lia|exact E1].
        + pose proof (eq_trans (eq_sym (eq_trans (switch_nth_lt _ 1 x1 0 L1 ltac:(lia)) (saved_nth0 s x0 E0))) Hy) as Q. apply some_inj in Q. subst y.
          rewrite has_path_bump, has_path_set_view. apply (Hmin 0%nat); [lia|exact E0].
        + pose proof (eq_trans (eq_sym (eq_trans (switch_nth_gt _ 1 x1 (S (S j)) L1 ltac:(lia)) (saved_tail Lo s (S (S j)) ltac:(lia)))) Hy) as Q.
          apply (Hmin (S (S j))); [lia|exact Q]. }
    rewrite Hf1. cbn [fst snd]. destruct (G (bufs_switch Lo s 1) i Hn1 Hi) as (A & B & C). destruct (switch_fields Lo s 1) as (_ & _ & F & _).
    rewrite C, F. auto.
  - rewrite Hf. cbn [fst snd]. destruct (G s i Hn Hi) as (A & B & C). auto.
Qed.

Theorem reaches_ew s bang a p i b : (bang || xwa s = true \/ dirty_at Lo s 0 = false) ->
  pathexpand s a = Some p -> p <> [] -> bufs_find s p = Some i -> (1 <= i)%nat -> nth_error (bufs s) i = Some (Some b) ->
  let r := ec_edit Lo s bang true a in
  snd r = true /\ snd (fst r) = [] /\ slot0 (fst (fst r)) = Some b /\ xv (fst (fst r)) = b_view b /\ fs (fst (fst r)) = fs s.
Proof.
  intros Hok Hp Hne Hf Hi Hn. cbn zeta. destruct (bang || xwa s) eqn:Hb.
  - apply (reaches_ew_forced s bang a p i b Hb Hp Hne Hf Hi Hn).
  - destruct Hok as [?|Hd]; [discriminate|]. rewrite (edit_clean s bang true a Hb Hd).
    set (s0 := fst (bufs_modified Lo s 0)).
    assert (Hn0 : nth_error (bufs s0) i = Some (Some b)) by (unfold s0; rewrite (modified_other Lo s 0 i) by lia; exact Hn).
    assert (Hp0 : pathexpand s0 a = Some p) by (unfold s0; rewrite modified_pathexpand; exact Hp).
    assert (Hf0 : bufs_find s0 p = Some i) by (unfold s0; rewrite modified_find; exact Hf).
    pose proof (reaches_ew_forced s0 true a p i b eq_refl Hp0 Hne Hf0 Hi Hn0) as R. cbn zeta in R.
    destruct (modified_fields Lo s 0) as (_ & _ & F & _). fold s0 in F. rewrite F in R. exact R.
Qed.

(* :next / :prev (vi: zJ / zK) when the argument is already open *)
Theorem reaches_arg s dis p i b : nth_path (args s) (next_pos s) <> None -> nth_path (args s) (next_pos s + dis) = Some p -> p <> [] ->
  bufs_find s p = Some i -> (1 <= i)%nat -> nth_error (bufs s) i = Some (Some b) -> (xwa s = true \/ dirty_at Lo s 0 = false) ->
  let s' := fst (ex_next Lo s dis) in slot0 s' = Some b /\ xv s' = b_view b /\ fs s' = fs s /\ next_pos s' = (next_pos s + dis)%Z.
Proof.
  intros Ha Hp Hne Hf Hi Hn Hok. cbn zeta. unfold ex_next. destruct (nth_path (args s) (next_pos s)); [|congruence]. rewrite Hp.
  assert (Hok' : false || xwa s = true \/ dirty_at Lo s 0 = false) by (destruct Hok; auto).
  pose proof (reaches_path_gen s false (PLit p) p i b Hok' eq_refl Hne Hf Hi Hn) as R. cbn zeta in R.
  destruct (ec_edit Lo s false false (PLit p)) as [[s1 evs] ok]. cbn [fst snd] in *. destruct R as (-> & _ & A & B & C & _). cbn. auto.
Qed.

(* ---------- the summary: the buffer reached is THE one named ---------- *)
(* slot i >= 1 holds the buffer b that command c names in state s *)
Definition names s (c : cmd Op) (i : nat) (b : buf) : Prop :=
  (1 <= i)%nat /\ nth_error (bufs s) i = Some (Some b) /\
  match c with
  | CBufId n => b_id b = n
  | CBufNext => (cur_id s < b_id b)%Z /\ forall j b', nth_error (bufs s) j = Some (Some b') -> (cur_id s < b_id b')%Z -> (b_id b <= b_id b')%Z
  | CBufPrev => (b_id b < cur_id s)%Z /\ forall j b', nth_error (bufs s) j = Some (Some b') -> (b_id b' < cur_id s)%Z -> (b_id b' <= b_id b)%Z
  | CBufAlias k => i = k /\ (k < 3)%nat
  | CEdit _ _ a => exists p, pathexpand s a = Some p /\ p <> [] /\ b_path b = canon p /\
                                  forall j b', (j < i)%nat -> nth_error (bufs s) j = Some (Some b') -> b_path b' <> canon p
  | CNext => exists p, nth_path (args s) (next_pos s) <> None /\ nth_path (args s) (next_pos s + 1) = Some p /\ p <> [] /\ b_path b = canon p /\
                       forall j b', (j < i)%nat -> nth_error (bufs s) j = Some (Some b') -> b_path b' <> canon p
  | CPrev => exists p, nth_path (args s) (next_pos s) <> None /\ nth_path (args s) (next_pos s + -1) = Some p /\ p <> [] /\ b_path b = canon p /\
                       forall j b', (j < i)%nat -> nth_error (bufs s) j = Some (Some b') -> b_path b' <> canon p
  | _ => False
  end.
Definition not_refused s (c : cmd Op) : Prop :=
  match c with
  | CEdit bang _ _ => bang || xwa s = true \/ dirty_at Lo s 0 = false
  | _ => xwa s = true \/ dirty_at Lo s 0 = false
  end.


Lemma command_of_exec s c s1 evs : ex_exec Lo s c = (s1, evs) ->
  let s' := fst (ex_command Lo s c) in
  slot0 s' = match slot0 s1 with Some b => Some (bump b) | None => None end /\ xv s' = xv s1 /\ fs s' = fs s1.
Proof. intro E. unfold ex_command. rewrite E. cbn. unfold slot0. cbn. destruct (bufs s1) as [|[b|] r]; cbn; auto. Qed.

Theorem reaches_named s c i b : wf s -> names s c i b -> not_refused s c ->
  let s' := fst (ex_command Lo s c) in slot0 s' = Some (bump b) /\ xv s' = b_view b /\ fs s' = fs s.
Proof.
  intros W (Hi & Hn & Hc) Hok. cbn zeta.
  assert (G : forall s1 evs, ex_exec Lo s c = (s1, evs) -> slot0 s1 = Some b /\ xv s1 = b_view b /\ fs s1 = fs s ->
              slot0 (fst (ex_command Lo s c)) = Some (bump b) /\ xv (fst (ex_command Lo s c)) = b_view b /\ fs (fst (ex_command Lo s c)) = fs s).
  { intros s1 evs E (A & B & C). destruct (command_of_exec s c s1 evs E) as (X & Y & Z). rewrite X, Y, Z, A. auto. }
  assert (S0 : exists b0, slot0 s = Some b0).
  { destruct (wf_prefix s i 0 b W Hn ltac:(lia)) as [b0 H0]. exists b0. rewrite slot0_nth, H0. reflexivity. }
  destruct S0 as [b0 S0]. pose proof (cur_id_slot0 s b0 S0) as Hcur.
  destruct c; try contradiction; cbn [ex_exec not_refused] in *.
  - (* :e, :ew *) destruct Hc as (p & Hp & Hne & Hpath & Hfirst).
    assert (Hf : bufs_find s p = Some i).
    { unfold bufs_find. apply (first_idx_first _ _ i (Some b) Hn).
      - cbn. apply path_eqb_eq. exact Hpath.
      - intros j [b'|] Hj Hy; [|reflexivity]. cbn. destruct (path_eqb (b_path b') (canon p)) eqn:Q; [|reflexivity].
        apply path_eqb_eq in Q. exfalso. exact (Hfirst j b' Hj Hy Q). }
    assert (R : let r := ec_edit Lo s bang ew a in slot0 (fst (fst r)) = Some b /\ xv (fst (fst r)) = b_view b /\ fs (fst (fst r)) = fs s).
    { destruct ew.
      - pose proof (reaches_ew s bang a p i b Hok Hp Hne Hf Hi Hn) as R. cbn zeta in *. destruct R as (_ & _ & A & B & C). auto.
      - pose proof (reaches_path_gen s bang a p i b Hok Hp Hne Hf Hi Hn) as R. cbn zeta in *. destruct R as (_ & _ & A & B & C & _). auto. }
    cbn zeta in R. destruct (ec_edit Lo s bang ew a) as [[s1 evs] ok] eqn:E. cbn [fst snd] in R.
    apply (G s1 evs eq_refl). exact R.
  - (* b n *) pose proof (reaches_id Lo s n) as R. unfold ec_buffer_id in *.
    assert (F : first_idx (has_id n) (bufs s) = Some i).
    { apply (first_idx_first _ _ i (Some b) Hn); [cbn; apply Z.eqb_eq; exact Hc|].
      intros j [b'|] Hj Hy; [|reflexivity]. cbn. destruct (Z.eqb_spec (b_id b') n) as [Q|]; [|reflexivity].
      exfalso. assert (j = i) by (eapply (wf_unique s j i b' b W Hy Hn); congruence). lia. }
    specialize (R i F Hi Hok). cbn zeta in R. destruct R as (b2 & Hb2 & _ & A & B & C). assert (b2 = b) by congruence. subst b2.
    destruct (buffer_goto Lo s (first_idx (has_id n) (bufs s))) as [s1 evs] eqn:E. apply (G s1 evs eq_refl). auto.
  - (* b + *) destruct Hc as [Hlt Hmin]. rewrite Hcur in *.
    pose proof (reaches_next s b0 i b W S0 Hn Hlt Hmin Hok) as R. cbn zeta in R.
    destruct (ec_buffer_next Lo s) as [s1 evs] eqn:E. apply (G s1 evs eq_refl). exact R.
  - (* b - *) destruct Hc as [Hlt Hmin]. rewrite Hcur in *.
    pose proof (reaches_prev s b0 i b W S0 Hn Hlt Hmin Hok) as R. cbn zeta in R.
    destruct (ec_buffer_prev Lo s) as [s1 evs] eqn:E. apply (G s1 evs eq_refl). exact R.
  - (* b # / b ^ *) destruct Hc as [<- Hk]. pose proof (reaches_alias Lo s i b ltac:(lia) Hn Hok) as R. cbn zeta in R.
    destruct (ec_buffer_alias Lo s i) as [s1 evs] eqn:E. apply (G s1 evs eq_refl). exact R.
  - (* next *) destruct Hc as (p & Ha & Hp & Hne & Hpath & Hfirst).
    assert (Hf : bufs_find s p = Some i).
    { unfold bufs_find. apply (first_idx_first _ _ i (Some b) Hn).
      - cbn. apply path_eqb_eq. exact Hpath.
      - intros j [b'|] Hj Hy; [|reflexivity]. cbn. destruct (path_eqb (b_path b') (canon p)) eqn:Q; [|reflexivity].
        apply path_eqb_eq in Q. exfalso. exact (Hfirst j b' Hj Hy Q). }
    pose proof (reaches_arg s 1 p i b Ha Hp Hne Hf Hi Hn Hok) as R. cbn zeta in R.
    destruct (ex_next Lo s 1) as [s1 evs] eqn:E. apply (G s1 evs eq_refl). cbn [fst] in R. destruct R as (A & B & C & _). auto.
  - (* prev *) destruct Hc as (p & Ha & Hp & Hne & Hpath & Hfirst).
    assert (Hf : bufs_find s p = Some i).
    { unfold bufs_find. apply (first_idx_first _ _ i (Some b) Hn).
      - cbn. apply path_eqb_eq. exact Hpath.
      - intros j [b'|] Hj Hy; [|reflexivity]. cbn. destruct (path_eqb (b_path b') (canon p)) eqn:Q; [|reflexivity].
        apply path_eqb_eq in Q. exfalso. exact (Hfirst j b' Hj Hy Q). }
    pose proof (reaches_arg s (-1) p i b Ha Hp Hne Hf Hi Hn Hok) as R. cbn zeta in R.
    destruct (ex_next Lo s (-1)) as [s1 evs] eqn:E. apply (G s1 evs eq_refl). cbn [fst] in R. destruct R as (A & B & C & _). auto.
Qed.

(* the named buffer is unique *)
Theorem names_unique s c i b i' b' : wf s -> names s c i b -> names s c i' b' -> i = i' /\ b = b'.
Proof.
  intros W (Hi & Hn & Hc) (Hi' & Hn' & Hc').
  assert (i = i'); [|subst i'; split; [reflexivity|congruence]].
  destruct c; try contradiction.
  - destruct Hc as (p & Hp & _ & Hpath & Hfirst). destruct Hc' as (p' & Hp' & _ & Hpath' & Hfirst').
    assert (p' = p) by congruence. subst p'.
    destruct (lt_eq_lt_dec i i') as [[Hlt|Heq]|Hgt]; [|exact Heq|].
    + exfalso. exact (Hfirst' i b Hlt Hn Hpath).
    + exfalso. exact (Hfirst i' b' Hgt Hn' Hpath').
  - eapply (wf_unique s i i' b b' W Hn Hn'). congruence.
  - destruct Hc as [Hlt Hmin]. destruct Hc' as [Hlt' Hmin']. eapply (wf_unique s i i' b b' W Hn Hn').
    specialize (Hmin i' b' Hn' Hlt'). specialize (Hmin' i b Hn Hlt). lia.
  - destruct Hc as [Hlt Hmin]. destruct Hc' as [Hlt' Hmin']. eapply (wf_unique s i i' b b' W Hn Hn').
    specialize (Hmin i' b' Hn' Hlt'). specialize (Hmin' i b Hn Hlt). lia.
  - destruct Hc as [-> _]. destruct Hc' as [-> _]. reflexivity.
  - destruct Hc as (p & _ & Hp & _ & Hpath & Hfirst). destruct Hc' as (p' & _ & Hp' & _ & Hpath' & Hfirst').
    assert (p' = p) by congruence. subst p'.
    destruct (lt_eq_lt_dec i i') as [[Hlt|Heq]|Hgt]; [|exact Heq|].
    + exfalso. exact (Hfirst' i b Hlt Hn Hpath).
    + exfalso. exact (Hfirst i' b' Hgt Hn' Hpath').
  - destruct Hc as (p & _ & Hp & _ & Hpath & Hfirst). destruct Hc' as (p' & _ & Hp' & _ & Hpath' & Hfirst').
    assert (p' = p) by congruence. subst p'.
    destruct (lt_eq_lt_dec i i') as [[Hlt|Heq]|Hgt]; [|exact Heq|].
    + exfalso. exact (Hfirst' i b Hlt Hn Hpath).
    + exfalso. exact (Hfirst i' b' Hgt Hn' Hpath').
Qed.

(* ---------- `b ~`: renumbering changes ids only; the history theorem including it ---------- *)
Definition same_mod_id (b b' : buf) : Prop :=
  b_path b' = b_path b /\ b_view b' = b_view b /\ b_mtime b' = b_mtime b /\ bumped Lo (b_lb b) (b_lb b').
Lemma same_weaken b b' : same_buf Lo b b' -> same_mod_id b b'.
Proof. intros (_ & A & B & C & D). repeat split; auto. Qed.
Lemma same_mod_trans a b c : same_mod_id a b -> same_mod_id b c -> same_mod_id a c.
Proof.
  intros (A2 & A3 & A4 & A5) (B2 & B3 & B4 & B5). repeat split; try congruence. eapply bumped_trans; eauto.
Qed.
Lemma same_mod_view b b' : same_mod_id b b' -> b_view b' = b_view b.
Proof. intros (_ & V & _). exact V. Qed.
Lemma same_mod_set_id b i : same_mod_id b (set_id b i).
Proof. repeat split; cbn; auto. apply bumped_refl. Qed.

Lemma renum_nth (l : list slot) : forall n j b, nth_error l j = Some (Some b) ->
  exists i, nth_error (fst (renum l n)) j = Some (Some (set_id b i)).
Proof.
  induction l as [|[b0|] r IH]; intros n j b H; [destruct j; discriminate| |].
  - cbn [renum]. destruct j as [|j]; cbn in H.
    + inversion H; subst. destruct (renum r (n + 1)). cbn. eauto.
    + destruct (IH (n + 1)%Z j b H) as [i Hi]. destruct (renum r (n + 1)). cbn in *. eauto.
  - cbn [renum]. destruct j as [|j]; cbn in H; [discriminate|].
    destruct (IH n j b H) as [i Hi]. destruct (renum r n). cbn in *. eauto.
Qed.

(* bufs_number: every buffer stays in its slot, only its id changes; in a well-formed table the new id is slot + 1
   and bufs_cnt becomes the number of buffers *)
Theorem number_spec s j b : wf s -> nth_error (bufs s) j = Some (Some b) ->
  nth_error (bufs (bufs_number s)) j = Some (Some (set_id b (Z.of_nat j + 1))) /\ xv (bufs_number s) = xv s /\ fs (bufs_number s) = fs s.
Proof.
  intros W H. destruct W as (_ & ks & E & Hl & _). unfold bufs_number.
  destruct (idl_renum (bufs s) ks _ 0 E) as [I1 _]. destruct (renum_nth (bufs s) 0 j b H) as [i Hi].
  destruct (renum (bufs s) 0) as [l n]. cbn [fst snd bufs xv fs set_bufs set_cnt] in *. split; [|auto].
  pose proof (idl_nth _ _ _ Hi) as X. rewrite I1 in X. apply PF_nth_some in X.
  assert (j < length ks)%nat. { apply idl_nth in H. rewrite E in H. apply PF_nth_some in H. apply nth_error_Some. congruence. }
  rewrite upfrom_nth in X by assumption. cbn [b_id set_id] in X. assert (X' : i = (Z.of_nat j + 1)%Z) by (apply some_inj in X; lia). rewrite Hi, X'. reflexivity.
Qed.

Definition K' (s s' : st) : Prop := forall j b, (1 <= j)%nat -> nth_error (bufs s) j = Some (Some b) ->
  exists j' b', nth_error (bufs s') j' = Some (Some b') /\ same_mod_id b b' /\ (j' = 0%nat -> xv s' = b_view b).
Lemma K_K' a b : K Lo a b -> K' a b.
Proof. intros H j x Hj Hx. destruct (H j x Hj Hx) as (j' & y & A & B & C). exists j', y. auto using same_weaken. Qed.
Lemma K'_Kp a b c : K' a b -> Kp Lo b c -> K' a c.
Proof.
  intros H1 [X2 H2] j x Hj Hx. destruct (H1 j x Hj Hx) as (j' & y & Hy & S1 & V).
  destruct (H2 j' y Hy) as (z & Hz & S2). exists j', z.
  split; [exact Hz|]. split; [eapply same_mod_trans; [exact S1|apply same_weaken; exact S2]|].
  intro E. rewrite X2. auto.
Qed.
Lemma K'_number s : K' s (bufs_number s).
Proof.
  intros j b Hj H. unfold bufs_number. destruct (renum_nth (bufs s) 0 j b H) as [i Hi]. destruct (renum (bufs s) 0) as [l n].
  cbn [fst bufs set_bufs set_cnt] in *. exists j, (set_id b i). split; [exact Hi|]. split; [apply same_mod_set_id|]. intro; lia.
Qed.

Theorem frame_step_all s c : length (bufs s) = NB ->
  no_alloc_or_room s (fst (ex_command Lo s c)) -> K' s (fst (ex_command Lo s c)).
Proof.
  intros Hl Hroom.
  assert (D : c = CBufRenum \/ c <> CBufRenum) by (destruct c; auto; right; discriminate).
  destruct D as [->|Hr]; [|apply K_K', frame_step; assumption].
  unfold ex_command. cbn [ex_exec ec_buffer_renum fst]. eapply K'_Kp; [apply K'_number|apply Kp_upd0_bump].
Qed.

Fixpoint safe_all (s : st) (cs : list (cmd Op)) : Prop :=
  match cs with
  | [] => True
  | c :: r => xquit s = true \/ (no_alloc_or_room s (fst (ex_command Lo s c)) /\ safe_all (fst (ex_command Lo s c)) r)
  end.

Theorem isolation_all : forall cs s j b, length (bufs s) = NB -> (1 <= j)%nat -> nth_error (bufs s) j = Some (Some b) -> safe_all s cs ->
  (exists j' b', (1 <= j')%nat /\ nth_error (bufs (run Lo s cs)) j' = Some (Some b') /\ same_mod_id b b')
  \/ (exists pre c post b', cs = pre ++ c :: post /\ slot0 (run Lo s (pre ++ [c])) = Some b' /\ same_mod_id b b' /\
                            xv (run Lo s (pre ++ [c])) = b_view b).
Proof.
  induction cs as [|c r IH]; intros s j b Hl Hj Hb Hs.
  - left. exists j, b. cbn. repeat split; auto. apply bumped_refl.
  - cbn [run]. destruct (xquit s) eqn:Q.
    + left. exists j, b. repeat split; auto. apply bumped_refl.
    + cbn [safe_all] in Hs. destruct Hs as [Hs|(Hroom & Hs)]; [congruence|].
      pose proof (frame_step_all s c Hl Hroom j b Hj Hb) as (j' & b' & A & B & C).
      destruct j' as [|j'].
      * right. exists [], c, r, b'. cbn [app run]. rewrite Q. split; [reflexivity|]. split; [rewrite slot0_nth, A; reflexivity|]. split; [exact B|].
        apply C. reflexivity.
      * destruct (IH (fst (ex_command Lo s c)) (S j') b' (step_length Lo s c Hl) ltac:(lia) A Hs) as [(j2 & b2 & X1 & X2 & X3)|(pre & c' & post & b2 & X1 & X2 & X3 & X4)].
        -- left. exists j2, b2. split; [exact X1|]. split; [exact X2|]. eapply same_mod_trans; eauto.
        -- right. exists (c :: pre), c', post, b2. cbn [app run]. rewrite Q. split; [rewrite X1; reflexivity|]. split; [exact X2|].
           split; [eapply same_mod_trans; eauto|]. rewrite X4. apply same_mod_view. exact B.
Qed.

(* ---------- command lines c1|c2|...: the frame at the granularity of single commands ---------- *)
Fixpoint run_lines (s : st) (ls : list (list (cmd Op))) : st :=
  match ls with
  | [] => s
  | l :: r => if xquit s then s else run_lines (fst (ex_line Lo s l)) r
  end.
Fixpoint lsafe (s : st) (cs : list (cmd Op)) : Prop :=
  match cs with
  | [] => True
  | c :: r => no_alloc_or_room s (fst (ex_exec Lo s c)) /\ lsafe (fst (ex_exec Lo s c)) r
  end.
Fixpoint safe_lines (s : st) (ls : list (list (cmd Op))) : Prop :=
  match ls with
  | [] => True
  | l :: r => xquit s = true \/ (lsafe s l /\ safe_lines (fst (ex_line Lo s l)) r)
  end.

Lemma exec_all_cons s c r : fst (exec_all Lo s (c :: r)) = fst (exec_all Lo (fst (ex_exec Lo s c)) r).
Proof. cbn [exec_all]. destruct (ex_exec Lo s c) as [s1 e1]. cbn [fst]. destruct (exec_all Lo s1 r). reflexivity. Qed.
Lemma line_of_exec_all s cs : fst (ex_line Lo s cs) = set_bufs (fst (exec_all Lo s cs)) (upd0 bump (bufs (fst (exec_all Lo s cs)))).
Proof. unfold ex_line. destruct (exec_all Lo s cs). reflexivity. Qed.
Lemma line_single s c : fst (ex_line Lo s [c]) = fst (ex_command Lo s c).
Proof. unfold ex_line, ex_command. cbn [exec_all]. destruct (ex_exec Lo s c). reflexivity. Qed.
Lemma run_lines_single : forall cs s, run_lines s (map (fun c => [c]) cs) = run Lo s cs.
Proof. induction cs as [|c r IH]; intro s; cbn [map run_lines run]; [reflexivity|]. destruct (xquit s); [reflexivity|]. rewrite line_single. apply IH. Qed.

Lemma exec_length s c : length (bufs s) = NB -> length (bufs (fst (ex_exec Lo s c))) = NB.
Proof.
  intro Hl. pose proof (step_length Lo s c Hl) as H. unfold ex_command in H. destruct (ex_exec Lo s c) as [s1 e]. cbn [fst bufs set_bufs] in *.
  rewrite upd0_length in H. exact H.
Qed.
Lemma exec_all_length : forall cs s, length (bufs s) = NB -> length (bufs (fst (exec_all Lo s cs))) = NB.
Proof. induction cs as [|c r IH]; intros s Hl; [exact Hl|]. rewrite exec_all_cons. apply IH, exec_length, Hl. Qed.
Lemma line_length s cs : length (bufs s) = NB -> length (bufs (fst (ex_line Lo s cs))) = NB.
Proof. intro Hl. rewrite line_of_exec_all. cbn [bufs set_bufs]. rewrite upd0_length. apply exec_all_length, Hl. Qed.

Lemma frame_exec_all s c : length (bufs s) = NB -> no_alloc_or_room s (fst (ex_exec Lo s c)) -> K' s (fst (ex_exec Lo s c)).
Proof.
  intros Hl Hroom.
  assert (D : c = CBufRenum \/ c <> CBufRenum) by (destruct c; auto; right; discriminate).
  destruct D as [->|Hr]; [|apply K_K', frame_exec; assumption].
  cbn [ex_exec ec_buffer_renum fst]. apply K'_number.
Qed.

Lemma line_frame : forall cs s j b, length (bufs s) = NB -> (1 <= j)%nat -> nth_error (bufs s) j = Some (Some b) -> lsafe s cs ->
  (exists j' b', (1 <= j')%nat /\ nth_error (bufs (fst (exec_all Lo s cs))) j' = Some (Some b') /\ same_mod_id b b')
  \/ (exists l1 c l2 b', cs = l1 ++ c :: l2 /\ slot0 (fst (ex_exec Lo (fst (exec_all Lo s l1)) c)) = Some b' /\ same_mod_id b b' /\
                         xv (fst (ex_exec Lo (fst (exec_all Lo s l1)) c)) = b_view b).
Proof.
  induction cs as [|c r IH]; intros s j b Hl Hj Hb Hs.
  - left. exists j, b. cbn. repeat split; auto. apply bumped_refl.
  - cbn [lsafe] in Hs. destruct Hs as [Hroom Hs].
    pose proof (frame_exec_all s c Hl Hroom j b Hj Hb) as (j' & b' & A & B & C). destruct j' as [|j'].
    + right. exists [], c, r, b'. cbn [app exec_all fst]. split; [reflexivity|]. split; [rewrite slot0_nth, A; reflexivity|]. split; [exact B|]. apply C. reflexivity.
    + destruct (IH (fst (ex_exec Lo s c)) (S j') b' (exec_length s c Hl) ltac:(lia) A Hs) as [(j2 & b2 & X1 & X2 & X3)|(l1 & c' & l2 & b2 & X1 & X2 & X3 & X4)].
      * left. exists j2, b2. rewrite exec_all_cons. split; [exact X1|]. split; [exact X2|]. eapply same_mod_trans; eauto.
      * right. exists (c :: l1), c', l2, b2. rewrite exec_all_cons. split; [rewrite X1; reflexivity|]. split; [exact X2|].
        split; [eapply same_mod_trans; eauto|]. rewrite X4. apply same_mod_view. exact B.
Qed.

Theorem isolation_lines : forall ls s j b, length (bufs s) = NB -> (1 <= j)%nat -> nth_error (bufs s) j = Some (Some b) -> safe_lines s ls ->
  (exists j' b', (1 <= j')%nat /\ nth_error (bufs (run_lines s ls)) j' = Some (Some b') /\ same_mod_id b b')
  \/ (exists pre l1 c l2 post b', ls = pre ++ (l1 ++ c :: l2) :: post /\
        slot0 (fst (ex_exec Lo (fst (exec_all Lo (run_lines s pre) l1)) c)) = Some b' /\ same_mod_id b b' /\
        xv (fst (ex_exec Lo (fst (exec_all Lo (run_lines s pre) l1)) c)) = b_view b).
Proof.
  induction ls as [|l r IH]; intros s j b Hl Hj Hb Hs.
  - left. exists j, b. cbn. repeat split; auto. apply bumped_refl.
  - cbn [run_lines]. destruct (xquit s) eqn:Q.
    + left. exists j, b. repeat split; auto. apply bumped_refl.
    + cbn [safe_lines] in Hs. destruct Hs as [Hs|(Hls & Hs)]; [congruence|].
      destruct (line_frame l s j b Hl Hj Hb Hls) as [(j1 & b1 & Y1 & Y2 & Y3)|(l1 & c & l2 & b1 & Y1 & Y2 & Y3 & Y4)].
      * assert (A : nth_error (bufs (fst (ex_line Lo s l))) j1 = Some (Some b1)).
        { rewrite line_of_exec_all. cbn [bufs set_bufs]. rewrite upd0_tail by exact Y1. exact Y2. }
        destruct (IH (fst (ex_line Lo s l)) j1 b1 (line_length s l Hl) Y1 A Hs) as [(j2 & b2 & X1 & X2 & X3)|(pre & l1 & c & l2 & post & b2 & X1 & X2 & X3 & X4)].
        -- left. exists j2, b2. split; [exact X1|]. split; [exact X2|]. eapply same_mod_trans; eauto.
        -- right. exists (l :: pre), l1, c, l2, post, b2. cbn [app run_lines]. rewrite Q. split; [rewrite X1; reflexivity|]. split; [exact X2|].
           split; [eapply same_mod_trans; eauto|]. rewrite X4. apply same_mod_view. exact Y3.
      * right. exists [], l1, c, l2, r, b1. cbn [app run_lines]. split; [rewrite Y1; reflexivity|]. auto.
Qed.

Theorem wf_line : forall cs s, wf s -> wf (fst (ex_line Lo s cs)).
Proof.
  intros cs s W. rewrite line_of_exec_all.
  assert (W2 : wf (fst (exec_all Lo s cs))).
  { revert s W. induction cs as [|c r IH]; intros s W; [exact W|]. rewrite exec_all_cons. apply IH, (wf_exec Lo), W. }
  unfold wf in *. cbn [bufs cnt set_bufs]. rewrite idl_upd0; auto.
Qed.

End Reach.
