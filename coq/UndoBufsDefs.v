(* UndoBufsDefs.v -- C04 over several buffers: the buffer table of ex.c (BufsDefs.v: bufs[], bufs_switch with the
   bump of the buffer being left, ec_edit, ec_buffer, ex_next, ec_quit, ex_command over a `|` list) with the CONCRETE
   edit log of lbuf.c (UndoDefs.lbuf: line table, hist[], hist_u, useq) as the payload of every slot.  A command on the
   current buffer is the list of lbuf calls it makes (Edit / Undo / Redo; Bump for the commands that ask lbuf_modified).
   Definitions only (this file is extracted: Extract_undobufs.v); proofs in ExUndoBufs.v. *)
From Coq Require Import List ZArith NArith Bool.
From NV Require Import GenConsts UndoDefs BufsDefs.
Import ListNotations.

Definition nl_join (c : content) : list N := concat (map (fun l => l ++ [NL]) c).
Definition Uop : Type := (list UndoDefs.op * view)%type.     (* the lbuf calls of one command, and the view it leaves *)

Definition uops : lops UndoDefs.lbuf Uop unit :=
  mklops UndoDefs.lbuf_make UndoDefs.lbuf_modified
    (fun c l => UndoDefs.lbuf_edit l (Some (nl_join c)) 0 (length (ln l)))      (* lbuf_rd(lb, fd, 0, lbuf_len(lb)) *)
    (fun clear l => UndoDefs.lbuf_saved l clear)
    (fun l => Z.of_nat (length (ln l)))
    (fun l => map (@removelast N) (ln l))
    (fun o l v => ((run_ops l (fst o), snd o), [])).

Notation ust := (st UndoDefs.lbuf).
Notation ubuf := (buf UndoDefs.lbuf).
Notation ucmd := (BufsDefs.cmd Uop).

Definition u_init := @ex_init UndoDefs.lbuf Uop unit uops.
Definition u_line := @ex_line UndoDefs.lbuf Uop unit uops.
Definition u_exec_all := @exec_all UndoDefs.lbuf Uop unit uops.

(* a script = a list of command lines, each a list of commands (nothing runs after a quit) *)
Fixpoint u_lines (s : ust) (ls : list (list ucmd)) : ust :=
  match ls with [] => s | l :: r => if xquit s then s else u_lines (fst (u_line s l)) r end.

(* the text of the current buffer (None: no current buffer) *)
Definition cur_text (s : ust) : option text :=
  match slot0 s with Some b => Some (ln (b_lb b)) | None => None end.
Definition cur_id_of (s : ust) : Z := match slot0 s with Some b => b_id b | None => 0%Z end.

(* the texts after every line of a script *)
Fixpoint u_trace (s : ust) (ls : list (list ucmd)) : list (Z * option text) :=
  match ls with
  | [] => []
  | l :: r => let s' := fst (u_line s l) in (cur_id_of s', cur_text s') :: u_trace s' r
  end.

Definition edits_cmd (l : list (option (list N) * nat * nat)) (v : view) : ucmd :=
  COp (map (fun x => match x with (buf, b, e) => Edit buf b e end) l, v).
Definition undo_cmd (v : view) : ucmd := COp ([Undo], v).
Definition redo_cmd (v : view) : ucmd := COp ([Redo], v).
Definition is_op (c : ucmd) : bool := match c with COp _ => true | _ => false end.
