(* TrSpliceMove.v -- lbuf_replace of /repo/lbuf.c on the translated C text, part 2: the loop that frees the deleted lines,
   the two memmoves that shift the tails of ln[] and ln_glob[], and the update of ln_n. *)
From Coq Require Import List ZArith NArith Bool Lia.
From NV Require Import Bytes CLite CLiteProps GenCFuncs CLiteTac TrLbufBase TrSplice.
Import ListNotations.
Local Open Scope Z_scope.

Definition rp_rest1 : stmt := match rp_body with SSeq _ (SSeq _ r) => r | _ => SSkip end.
Definition rp_free : stmt := match rp_rest1 with SSeq a _ => a | _ => SSkip end.
Definition rp_free_loop : stmt := match rp_free with SSeq _ l => l | _ => SSkip end.
Definition rp_rest2 : stmt := match rp_rest1 with SSeq _ r => r | _ => SSkip end.
Definition rp_move : stmt := match rp_rest2 with SSeq a _ => a | _ => SSkip end.
Definition rp_rest3 : stmt := match rp_rest2 with SSeq _ r => r | _ => SSkip end.
Definition rp_setn : stmt := match rp_rest3 with SSeq a _ => a | _ => SSkip end.
Definition rp_rest4 : stmt := match rp_rest3 with SSeq _ r => r | _ => SSkip end.

(* ---- freeing a list of blocks *)
Definition free_blocks (bs : list nat) (m : mem) : mem := fold_left (fun m b => upd m b []) bs m.
Lemma free_blocks_length bs : forall m, (forall b, In b bs -> (b < length m)%nat) -> length (free_blocks bs m) = length m.
Proof.
  induction bs as [|b bs IH]; intros m H; [reflexivity|]. cbn [free_blocks fold_left].
  assert (Hb : (b < length m)%nat) by (apply H; left; reflexivity).
  change (fold_left _ bs ?x) with (free_blocks bs x). rewrite IH; [apply upd_length; exact Hb|].
  intros c Hc. rewrite upd_length by exact Hb. apply H. right; exact Hc.
Qed.
Lemma free_blocks_other bs : forall m c, (forall b, In b bs -> (b < length m)%nat) -> ~ In c bs -> nth_error (free_blocks bs m) c = nth_error m c.
Proof.
  induction bs as [|b bs IH]; intros m c H Hc; [reflexivity|]. cbn [free_blocks fold_left].
  assert (Hb : (b < length m)%nat) by (apply H; left; reflexivity).
  change (fold_left _ bs ?x) with (free_blocks bs x). rewrite IH.
  - apply mem_upd_other; [exact Hb|]. intro E. apply Hc. left. congruence.
  - intros c' Hc'. rewrite upd_length by exact Hb. apply H. right; exact Hc'.
  - intro Hi. apply Hc. right; exact Hi.
Qed.
Lemma free_blocks_in bs : forall m c, (forall b, In b bs -> (b < length m)%nat) -> In c bs -> nth_error (free_blocks bs m) c = Some [].
Proof.
  induction bs as [|b bs IH]; intros m c H Hc; [destruct Hc|]. cbn [free_blocks fold_left].
  assert (Hb : (b < length m)%nat) by (apply H; left; reflexivity).
  change (fold_left _ bs ?x) with (free_blocks bs x).
  assert (H' : forall c', In c' bs -> (c' < length (upd m b []))%nat) by (intros c' Hc'; rewrite upd_length by exact Hb; apply H; right; exact Hc').
  destruct (in_dec Nat.eq_dec c bs) as [I|I]; [apply IH; assumption|].
  destruct Hc as [->|Hc]; [|contradiction]. rewrite free_blocks_other by assumption. apply mem_upd_same. exact Hb.
Qed.

(* ---- for (i = 0; i < n_del; i++) free(lb->ln[pos + i]);
   the cells pos .. pos + n_del of the array point to the blocks dels: pairwise distinct, live, none of them the struct or the array *)
Lemma free_loop_ok call lb blk bln lnblk sv pos nd vni v6 v7 v8 v9 v10 v11 :
  nth_error blk L_ln = Some (VPtr bln 0) -> Z.of_nat pos + Z.of_nat nd <= 2147483647 ->
  forall k i dels m fuel, (i + k = nd)%nat -> length dels = k ->
  (forall j, (j < k)%nat -> nth_error lnblk (pos + i + j) = Some (VPtr (nth j dels O) 0)) ->
  NoDup dels -> (forall b, In b dels -> b <> lb /\ b <> bln /\ exists blkb, nth_error m b = Some blkb /\ blkb <> []) ->
  nth_error m lb = Some blk -> nth_error m bln = Some lnblk -> (k < fuel)%nat ->
  exec call fuel rp_free_loop (mkst [VPtr lb 0; sv; VInt (Z.of_nat pos); VInt (Z.of_nat nd); vni; VInt (Z.of_nat i); v6; v7; v8; v9; v10; v11] m)
  = ONormal (mkst [VPtr lb 0; sv; VInt (Z.of_nat pos); VInt (Z.of_nat nd); vni; VInt (Z.of_nat nd); v6; v7; v8; v9; v10; v11] (free_blocks dels m)).
Proof.
  intros Hln Hmax. induction k as [|k IH]; intros i dels m fuel Hik Hlen Hcells Hnd Hlive Hb Hl Hf; (destruct fuel as [|fuel]; [lia|]);
    unfold rp_free_loop, rp_free, rp_rest1, rp_body; cbn [fn_body cf_lbuf_replace]; rewrite exec_for; xstep.
  - destruct dels; [|discriminate]. assert (i = nd) by lia. subst i. destruct (Z.ltb_spec (Z.of_nat nd) (Z.of_nat nd)); [lia|]. reflexivity.
  - destruct (Z.ltb_spec (Z.of_nat i) (Z.of_nat nd)); [|lia]. xstep.
    destruct dels as [|b dels]; [discriminate|]. cbn [length] in Hlen.
    xfld Hb Hln. rewrite chk_I32 by lia. xstep.
    pose proof (Hcells O ltac:(lia)) as C0. rewrite Nat.add_0_r in C0. cbn [nth] in C0.
    rewrite (fld_load m bln lnblk (pos + i) _ _ Hl C0) by lia. xstep.
    destruct (Hlive b (or_introl eq_refl)) as (B1 & B2 & blkb & B3 & B4).
    rewrite (free_ok m b blkb B3 B4). xstep. rewrite chk_I32 by lia. xstep.
    replace (Z.of_nat i + 1) with (Z.of_nat (S i)) by lia.
    destruct (upd_frame m b blkb [] B3) as (F1 & F2 & F3).
    inversion Hnd as [|? ? Hnotin Hnd']; subst.
    specialize (IH (S i) dels (upd m b []) fuel ltac:(lia) ltac:(lia)).
    unfold rp_free_loop, rp_free, rp_rest1, rp_body in IH; cbn [fn_body cf_lbuf_replace] in IH.
    cbn [free_blocks fold_left]. change (fold_left _ dels ?x) with (free_blocks dels x). apply IH.
    + intros j Hj. specialize (Hcells (S j) ltac:(lia)). cbn [nth] in Hcells. rewrite <- Hcells. f_equal. lia.
    + exact Hnd'.
    + intros c Hc. destruct (Hlive c (or_intror Hc)) as (C1 & C2 & blkc & C3 & C4). split; [exact C1|]. split; [exact C2|].
      exists blkc. split; [|exact C4]. rewrite F2; [exact C3|]. intro E. subst c. contradiction.
    + rewrite F2 by congruence. exact Hb.
    + rewrite F2 by congruence. exact Hl.
    + lia.
Qed.

(* ---- the two memmoves and lb->ln_n += n_ins - n_del *)
(* the array after memmove(a + pos + n_ins, a + pos + n_del, ln_n - pos - n_del) *)
Definition move_arr (a : block) (pos nd ni n : nat) : block :=
  put_cells a (pos + ni) (firstn (n - pos - nd) (skipn (pos + nd) a)).
Lemma move_arr_len a pos nd ni n : (pos + nd <= n)%nat -> (n <= length a)%nat -> (n + ni - nd <= length a)%nat ->
  length (move_arr a pos nd ni n) = length a.
Proof. intros H1 H2 H3. unfold move_arr. apply put_cells_length. rewrite firstn_length, skipn_length. lia. Qed.
Lemma move_arr_id a pos nd n : (pos + nd <= n)%nat -> (n <= length a)%nat -> move_arr a pos nd nd n = a.
Proof.
  intros H1 H2. unfold move_arr, put_cells. rewrite firstn_length, skipn_length.
  replace (pos + nd + Nat.min (n - pos - nd) (length a - (pos + nd)))%nat with n by lia.
  rewrite <- (firstn_skipn (pos + nd) a) at 4. f_equal.
  rewrite <- (firstn_skipn (n - pos - nd) (skipn (pos + nd) a)) at 2. f_equal. rewrite skipn_skipn. f_equal. lia.
Qed.
Definition setn_blk (blk : block) (n' : nat) : block := upd blk L_ln_n (VInt (Z.of_nat n')).

Lemma tbl_same m m' lb blk bln bgl lnblk glblk n cap : tbl m lb blk bln bgl lnblk glblk n cap ->
  nth_error m' lb = nth_error m lb -> nth_error m' bln = nth_error m bln -> nth_error m' bgl = nth_error m bgl ->
  tbl m' lb blk bln bgl lnblk glblk n cap.
Proof. intros [Tb Tl Tln Tgl Tn Tsz Tlnb Tglb Tlnl Tgll Tne] H1 H2 H3. constructor; try assumption; congruence. Qed.

Lemma move_ok call fuel m lb blk bln bgl lnblk glblk n cap sv pos nd ni vi v6 v7 v8 v9 v10 v11 :
  tbl m lb blk bln bgl lnblk glblk n cap -> (pos + nd <= n)%nat -> (n <= cap)%nat -> (n + ni - nd < cap)%nat ->
  Z.of_nat cap <= 2147483647 -> Z.of_nat ni <= 2147483647 ->
  let n' := (n + ni - nd)%nat in
  exists m', exec call fuel (SSeq rp_move rp_setn) (mkst [VPtr lb 0; sv; VInt (Z.of_nat pos); VInt (Z.of_nat nd); VInt (Z.of_nat ni); vi; v6; v7; v8; v9; v10; v11] m)
    = ONormal (mkst [VPtr lb 0; sv; VInt (Z.of_nat pos); VInt (Z.of_nat nd); VInt (Z.of_nat ni); vi; v6; v7; v8; v9; v10; v11] m')
  /\ tbl m' lb (setn_blk blk n') bln bgl (move_arr lnblk pos nd ni n) (move_arr glblk pos nd ni n) n' cap
  /\ length m' = length m
  /\ (forall c, c <> lb -> c <> bln -> c <> bgl -> nth_error m' c = nth_error m c).
Proof.
  intros T H1 H2 H3 Hcap Hni n'. pose proof T as [Tb Tl Tln Tgl Tn Tsz Tlnb Tglb Tlnl Tgll (N1 & N2 & N3)].
  assert (Hfin : forall ma, tbl ma lb blk bln bgl (move_arr lnblk pos nd ni n) (move_arr glblk pos nd ni n) n cap ->
            length ma = length m -> (forall c, c <> lb -> c <> bln -> c <> bgl -> nth_error ma c = nth_error m c) ->
            exists m', exec call fuel rp_setn (mkst [VPtr lb 0; sv; VInt (Z.of_nat pos); VInt (Z.of_nat nd); VInt (Z.of_nat ni); vi; v6; v7; v8; v9; v10; v11] ma)
              = ONormal (mkst [VPtr lb 0; sv; VInt (Z.of_nat pos); VInt (Z.of_nat nd); VInt (Z.of_nat ni); vi; v6; v7; v8; v9; v10; v11] m')
            /\ tbl m' lb (setn_blk blk n') bln bgl (move_arr lnblk pos nd ni n) (move_arr glblk pos nd ni n) n' cap
            /\ length m' = length m
            /\ (forall c, c <> lb -> c <> bln -> c <> bgl -> nth_error m' c = nth_error m c)).
  { intros ma Ta La Ka. destruct Ta as [Ub Ul Uln Ugl Un Usz Ulnb Uglb Ulnl Ugll _].
    unfold rp_setn, rp_rest3, rp_rest2, rp_rest1, rp_body; cbn [fn_body cf_lbuf_replace]. xstep.
    xfld Ub Un. rewrite wrap_I32_id by lia. rewrite chk_I32 by lia. xstep. rewrite chk_I32 by lia. xstep.
    rewrite wrap_I32_id by lia. rewrite (fld_store ma lb blk L_ln_n _ _ Ub) by (try reflexivity; fld_len). xstep.
    replace (Z.of_nat n + (Z.of_nat ni - Z.of_nat nd)) with (Z.of_nat n') by (unfold n'; lia). fold (setn_blk blk n').
    destruct (upd_frame ma lb blk (setn_blk blk n') Ub) as (F1 & F2 & F3).
    eexists. split; [reflexivity|]. split.
    - constructor; try assumption; try (unfold setn_blk; fld_after).
      + unfold setn_blk. rewrite upd_length by fld_len. exact Ul.
      + rewrite F2 by congruence. exact Ulnb.
      + rewrite F2 by congruence. exact Uglb.
      + repeat split; assumption.
    - split; [lia|]. intros c C1 C2 C3. rewrite F2 by exact C1. apply Ka; assumption. }
  rewrite exec_seq. unfold rp_move, rp_rest2, rp_rest1, rp_body; cbn [fn_body cf_lbuf_replace]. rewrite exec_if. xstep.
  destruct (Z.eqb_spec (Z.of_nat ni) (Z.of_nat nd)) as [E|E]; cbn [negb].
  - (* n_ins = n_del: nothing moves *)
    xstep. assert (ni = nd) by lia. subst ni. apply Hfin; [|reflexivity|intros; reflexivity].
    rewrite !move_arr_id by lia. exact T.
  - xstep. xfld Tb Tln. xfld Tb Tln. xfld Tb Tn. rewrite wrap_I32_id by lia. rewrite !chk_I32 by lia. xstep. rewrite !chk_I32 by lia. xstep.
    u64. cbn [memm locals].
    rewrite (memmove_ok m bln _ bln _ _ lnblk lnblk Tlnb Tlnb) by lia. xstep. cbn [memm locals].
    replace (Z.to_nat (0 + 1 * Z.of_nat pos + 1 * Z.of_nat ni)) with (pos + ni)%nat by lia.
    replace (Z.to_nat (0 + 1 * Z.of_nat pos + 1 * Z.of_nat nd)) with (pos + nd)%nat by lia.
    replace (Z.to_nat (Z.of_nat n - Z.of_nat pos - Z.of_nat nd)) with (n - pos - nd)%nat by lia.
    fold (move_arr lnblk pos nd ni n).
    destruct (upd_frame m bln lnblk (move_arr lnblk pos nd ni n) Tlnb) as (F1 & F2 & F3). set (m1 := upd m bln _) in *.
    assert (B1 : nth_error m1 lb = Some blk) by (rewrite F2 by congruence; exact Tb).
    assert (G1 : nth_error m1 bgl = Some glblk) by (rewrite F2 by congruence; exact Tglb).
    xfld B1 Tgl. xfld B1 Tgl. xfld B1 Tn. rewrite wrap_I32_id by lia. rewrite !chk_I32 by lia. xstep. rewrite !chk_I32 by lia. xstep.
    u64. cbn [memm locals].
    rewrite (memmove_ok m1 bgl _ bgl _ _ glblk glblk G1 G1) by lia. xstep. cbn [memm locals].
    replace (Z.to_nat (0 + 1 * Z.of_nat pos + 1 * Z.of_nat ni)) with (pos + ni)%nat by lia.
    replace (Z.to_nat (0 + 1 * Z.of_nat pos + 1 * Z.of_nat nd)) with (pos + nd)%nat by lia.
    replace (Z.to_nat (Z.of_nat n - Z.of_nat pos - Z.of_nat nd)) with (n - pos - nd)%nat by lia.
    fold (move_arr glblk pos nd ni n).
    destruct (upd_frame m1 bgl glblk (move_arr glblk pos nd ni n) G1) as (F4 & F5 & F6). set (m2 := upd m1 bgl _) in *.
    apply Hfin.
    + constructor; try assumption.
      * rewrite F5 by congruence. exact B1.
      * rewrite F5 by congruence. exact F1.
      * rewrite move_arr_len by lia. exact Tlnl.
      * rewrite move_arr_len by lia. exact Tgll.
      * repeat split; assumption.
    + lia.
    + intros c C1 C2 C3. rewrite F5, F2 by assumption. reflexivity.
Qed.
