(* DrawDefs.v -- executable model of the screen maintenance of vi.c over abstract rows:
   term_room, vi_drawrow, vi_drawagain, vi_drawupdate, vi_drawfix (preview = 0), vi_wfix, the xleft
   rule and the redraw decision at the tail of vi().  The screen is the list of the h text rows
   (the scroll region set by term_window excludes the message row); the terminal primitives are
   the list operations of TermEmu.v (del_lines / ins_lines / set_nth), so the emulator that
   interprets the real stream and this model share them.  A row's content is abstract: `f i` is
   what vi_drawrow(i) draws for absolute buffer row i in the current state (led_print of
   lbuf_get(i) at xleft, the filler past the end, the current-line highlight when `hll` is set).
   No proofs here (DrawProps.v). *)
From Coq Require Import List Arith ZArith Bool.
From NV Require Import TermEmu.
Import ListNotations.

Section Draw.
Variable R : Type.
Variable blank : R.

(* the full repaint: rows top .. top+h-1 *)
Definition win (f : nat -> R) (top h : nat) : list R := map (fun i => f (top + i)) (seq 0 h).

(* term_room(n) with the terminal cursor on text row r (term_pos(r, 0) precedes every call) *)
Definition term_room (h : nat) (n : Z) (r : nat) (rows : list R) : list R :=
  if (n <? 0)%Z then del_lines blank 0 h r (Z.to_nat (- n)) rows
  else if (0 <? n)%Z then ins_lines blank 0 h r (Z.to_nat n) rows
  else rows.

(* vi_drawrow(i): led_print on screen row i - xtop.  Every caller keeps i inside the window (loop
   bounds / explicit tests); outside it the model leaves the screen alone. *)
Definition drawrow (f : nat -> R) (xtop h i : nat) (rows : list R) : list R :=
  if (xtop <=? i) && (i <? xtop + h) then set_nth (i - xtop) (f i) rows else rows.

(* for (i = a; i < a + cnt; i++) vi_drawrow(i) *)
Definition draw_range (f : nat -> R) (xtop h a cnt : nat) (rows : list R) : list R :=
  fold_left (fun rs i => drawrow f xtop h i rs) (seq a cnt) rows.

(* vi_drawagain(xcol, row): row = None is the C -1 (all rows) *)
Definition drawagain (f : nat -> R) (xtop h : nat) (row : option nat) (rows : list R) : list R :=
  match row with
  | None => draw_range f xtop h xtop h rows
  | Some r => drawrow f xtop h r rows
  end.

(* vi_drawupdate(otop) *)
Definition drawupdate (f : nat -> R) (h otop xtop : nat) (rows : list R) : list R :=
  if otop =? xtop then rows
  else
    let rows := term_room h (Z.of_nat otop - Z.of_nat xtop) 0 rows in
    if otop <? xtop then
      let n := Nat.min (xtop - otop) h in draw_range f xtop h (xtop + h - n) n rows
    else
      let n := Nat.min (otop - xtop) h in draw_range f xtop h xtop n rows.

Definition clampZ (x lo hi : Z) : Z := Z.min (Z.max x lo) hi.

(* vi_drawfix(r1, r2, n, 0): lines r1..r2 were replaced by n lines.  Since fix 7ace771 the new lines above the window take no
   screen rows: n is reduced by xtop - r1 when the range starts above the window (dis keeps the full count) *)
Definition drawfix (f : nat -> R) (xtop h : nat) (r1 r2 n : Z) (rows : list R) : list R :=
  let top := Z.of_nat xtop in let hz := Z.of_nat h in
  let dis := (n - (r2 - r1 + 1))%Z in
  let n := if (r1 <? top)%Z then Z.max 0 (n - (top - r1)) else n in
  let r1c := clampZ r1 top (top + hz - 1) in
  let r2c := clampZ r2 top (top + hz - 1) in
  let rows := term_room h (r1c - r2c - 1 + n) (Z.to_nat (r1c - top)) rows in
  let rows := if (dis <? 0)%Z && (r1c + n <? top + hz)%Z
              then draw_range f xtop h (Z.to_nat (r1c + n)) (Z.to_nat (top + hz - (r1c + n))) rows
              else rows in
  draw_range f xtop h (Z.to_nat r1c) (Z.to_nat (Z.min n (top + hz - r1c))) rows.

(* vi_drawfix(r1, r2, n, 1): the preview vi_change draws before reading the replacement text.  Nothing has been edited
   yet: g is what vi_drawrow draws for the rows of the buffer as it is.  With preview a change that starts above the
   window moves xtop to r1; when lines disappear (dis < 0) the rows below the n kept rows are drawn from the rows -dis
   further down (the C code does this by shifting xtop around the loop).  Returns the new xtop and the screen. *)
Definition drawfix_preview (g : nat -> R) (xtop h : nat) (r1 r2 n : Z) (rows : list R) : nat * list R :=
  let dis := (n - (r2 - r1 + 1))%Z in
  let xtop := if (r1 <? Z.of_nat xtop)%Z then Z.to_nat r1 else xtop in
  let top := Z.of_nat xtop in let hz := Z.of_nat h in
  let r1c := clampZ r1 top (top + hz - 1) in
  let r2c := clampZ r2 top (top + hz - 1) in
  let rows := term_room h (r1c - r2c - 1 + n) (Z.to_nat (r1c - top)) rows in
  let rows := if (dis <? 0)%Z && (r1c + n <? top + hz)%Z
              then draw_range (fun i => g (i + Z.to_nat (- dis))) xtop h (Z.to_nat (r1c + n)) (Z.to_nat (top + hz - (r1c + n))) rows
              else rows in
  (xtop, draw_range g xtop h (Z.to_nat r1c) (Z.to_nat (Z.min n (top + hz - r1c))) rows).

(* vi_nextline (insert mode, after a typed newline, and first thing in `o`): on the last row of the window a line feed
   scrolls the region, otherwise a line is inserted below the cursor row.  State: (xtop, xrow, screen). *)
Definition nextline (h xtop xrow : nat) (rows : list R) : nat * nat * list R :=
  if xrow =? xtop + h - 1
  then (S xtop, S xrow, del_lines blank 0 h 0 1 rows)
  else (xtop, S xrow, term_room h 1 (S xrow - xtop) rows).

(* the redraw decision at the tail of vi() (single window): mod_row = mod & VC_ROW,
   mod_win = mod & VC_WIN, left_changed = (xleft != oleft) *)
Definition redraw_tail (f : nat -> R) (h : nat) (mod_row mod_win left_changed hll : bool)
    (otop xtop orow xrow : nat) (rows : list R) : list R :=
  if mod_row || mod_win || left_changed then
    let lineonly := mod_row && negb left_changed && (xtop =? otop) in
    if lineonly then
      let rows := drawagain f xtop h (Some xrow) rows in
      if negb (xrow =? orow) then drawagain f xtop h (Some orow) rows else rows
    else drawagain f xtop h None rows
  else
    let rows := if negb (xtop =? otop) then drawupdate f h otop xtop rows else rows in
    let rows := if hll && negb (xrow =? orow) && (xtop <=? orow) && (orow <? xtop + h)
                then drawrow f xtop h orow rows else rows in
    if hll && negb (xrow =? orow) then drawrow f xtop h xrow rows else rows.
End Draw.

(* ---------- the window follows the cursor ---------- *)
Local Open Scope Z_scope.

(* vi_wfix: (xtop, xrow) after the call; len = lbuf_len(xb), h = xrows *)
Definition wfix (xtop xrow h len : Z) : Z * Z :=
  let xrow := if (xrow <? 0) || (len <=? xrow) then (if 0 <? len then len - 1 else 0) else xrow in
  let xtop := if xrow <? xtop
              then (if xrow <? xtop - h / 2 then Z.max 0 (xrow - h / 2) else xrow) else xtop in
  let xtop := if xtop + h <=? xrow
              then (if xtop + h + h / 2 <=? xrow then xrow - h / 2 else xrow - h + 1) else xtop in
  (xtop, xrow).

(* the xleft rule at the tail of vi(): the steering column xcol is wcol = vi_off2col(xb, xrow, xoff), the cursor's own
   column (since fix 232fd9e; before, the column remembered by j/k) *)
Definition fix_left (xleft xcol cols : Z) : Z :=
  let xleft := if xleft + cols <=? xcol then xcol - cols / 2 else xleft in
  if xcol <? xleft then (if xcol <? cols then 0 else xcol - cols / 2) else xleft.

(* vi_pos for a left-to-right line and term_pos's clamping: the terminal column of buffer column p *)
Definition term_col (xleft cols p : Z) : Z :=
  let c := p - xleft in
  if c <? 0 then 0 else if cols <=? c then cols - 1 else c.
