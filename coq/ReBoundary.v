(* ReBoundary.v -- C11, the character-boundary clause: on a valid UTF-8 pattern string and a valid
   UTF-8 line every offset regexec reports is the byte offset of a character boundary of the line
   (or -1/-1).  Every string the parser looks at is some continuation bytes followed by whole
   characters (Suf, closed under any skipn, so no positional reasoning about the parser is needed);
   hence a literal atom either consists of whole characters of the pattern or starts with a
   continuation byte and then never matches at a boundary.  (Since the repetition suffix requires
   the closing brace -- repo fixes 66f245a / 3139e7f -- the parser no longer steps into the middle
   of a character of a valid pattern; the proof does not depend on that.)  Every other atom advances
   by the length of the character at a boundary or not at all. *)
From Coq Require Import List Arith Lia Bool ZArith NArith ZifyN ZifyBool ZifyNat.
From NV Require Import Bytes GenConsts UcDefs UcSpec UcProps UcSegProps ReSyntax ReParse ReEmit ReVM ReSem ReProps ReProps2 ReProps3 ReProps4 ReProps5 ReProps6 ReProps7 ReProps8.
Import ListNotations.

Notation is_cont := UcDefs.is_cont.

(* ---- one encoded scalar under regex.c's uc_len ------------------------------------------------- *)
Lemma re_uclen_encode c r : scalar c -> re_uclen (encode c ++ r) = length (encode c).
Proof.
  intro Hs. destruct (encode_shape c Hs) as [H | l t H El Et Hl Ht | l t1 t2 H El E1 E2 Hl H1 H2 | l t1 t2 t3 H El E1 E2 E3 Hl H1 H2 H3].
  - destruct (cls_ascii c ltac:(lia)) as (_ & _ & _ & B2).
    cbn [app re_uclen length]. rewrite B2. cbn [negb]. destruct (c =? 0)%N eqn:E; [lia | reflexivity].
  - destruct (cls_lead2 l ltac:(lia)) as (B1 & B2 & _).
    cbn [app re_uclen length]. unfold re_ucfull. rewrite B1, B2. cbn [negb Nat.sub ucl_scan].
    destruct (t =? 0)%N eqn:E; [lia | reflexivity].
  - destruct (cls_lead3 l ltac:(lia)) as (B1 & B2 & B3 & _).
    cbn [app re_uclen length]. unfold re_ucfull. rewrite B1, B2, B3. cbn [negb Nat.sub ucl_scan].
    destruct (t1 =? 0)%N eqn:E; [lia|]. destruct (t2 =? 0)%N eqn:E'; [lia | reflexivity].
  - destruct (cls_lead4 l ltac:(lia)) as (B1 & B2 & B3 & B4 & _).
    cbn [app re_uclen length]. unfold re_ucfull. rewrite B1, B2, B3, B4. cbn [negb Nat.sub ucl_scan].
    destruct (t1 =? 0)%N eqn:E; [lia|]. destruct (t2 =? 0)%N eqn:E'; [lia|]. destruct (t3 =? 0)%N eqn:E''; [lia | reflexivity].
Qed.

(* a continuation byte counts as one byte *)
Lemma cont_bits b : is_cont b = true -> (bit b 128 && bit b 64) = false /\ b <> 0%N.
Proof.
  unfold UcDefs.is_cont, bit. intro H. apply N.eqb_eq in H.
  assert (E : N.land b 64 = 0%N).
  { change 64%N with (N.land 192 64). rewrite N.land_assoc, H. reflexivity. }
  split; [rewrite E; cbn; apply andb_false_r | intros ->; cbn in H; discriminate].
Qed.
Lemma re_uclen_cont b r : is_cont b = true -> re_uclen (b :: r) = 1.
Proof.
  intro H. destruct (cont_bits b H) as [E N0]. cbn [re_uclen]. rewrite E. cbn [negb].
  destruct (b =? 0)%N eqn:Z; [apply N.eqb_eq in Z; contradiction | reflexivity].
Qed.

(* ---- offsets -------------------------------------------------------------------------------- *)
Lemma off_of_add cs : forall k j, off_of cs (k + j) = off_of cs k + off_of (skipn k cs) j.
Proof.
  induction cs as [|c cs IH]; intros k j.
  - unfold off_of. rewrite skipn_nil, !firstn_nil. reflexivity.
  - destruct k as [|k]; [reflexivity|]. cbn [plus skipn]. rewrite !off_of_S, IH. lia.
Qed.
Lemma off_of_all cs k : length cs <= k -> off_of cs k = length (chars cs).
Proof. intro H. unfold off_of. rewrite firstn_all2 by exact H. reflexivity. Qed.

Definition B (cs : list N) (i : nat) : Prop := exists k, k <= length cs /\ i = off_of cs k.

Lemma B_0 cs : B cs 0.
Proof. exists 0. split; [lia | reflexivity]. Qed.

Lemma B_next cs i : Forall scalar cs -> B cs i -> B cs (i + re_uclen_at (chars cs) i).
Proof.
  intros Hs (k & Hk & ->). unfold re_uclen_at. rewrite skipn_off_of.
  destruct (skipn k cs) as [|c r] eqn:E.
  - cbn. exists k. split; [exact Hk | lia].
  - assert (Hc : scalar c).
    { pose proof (Forall_skipn' scalar k cs Hs) as F. rewrite E in F. inversion F; assumption. }
    rewrite chars_cons, re_uclen_encode by exact Hc.
    assert (Hlen : k < length cs).
    { destruct (Nat.lt_ge_cases k (length cs)) as [L|L]; [exact L|]. rewrite skipn_all2 in E by exact L. discriminate. }
    exists (k + 1). split; [lia|]. rewrite off_of_add, E. rewrite (off_of_S c r 0), off_of_0. lia.
Qed.

(* ---- literals ------------------------------------------------------------------------------- *)
Lemma prefixb_app a : forall b, prefixb a b = true -> exists r, b = a ++ r.
Proof.
  induction a as [|x a IH]; intros b H; [exists b; reflexivity|].
  destruct b as [|y b]; [discriminate|]. cbn [prefixb] in H. apply andb_prop in H. destruct H as [E H].
  apply N.eqb_eq in E. subst y. destruct (IH _ H) as [r ->]. exists r. reflexivity.
Qed.
Lemma app_prefixb a : forall r, prefixb a (a ++ r) = true.
Proof. induction a as [|x a IH]; intro r; [reflexivity|]. cbn [app prefixb]. rewrite N.eqb_refl, IH. reflexivity. Qed.

Lemma app_inv_len {A} (a : list A) : forall a' b b', length a = length a' -> a ++ b = a' ++ b' -> a = a' /\ b = b'.
Proof.
  induction a as [|x a IH]; intros [|x' a'] b b' L E; cbn in L; try discriminate; [split; [reflexivity | exact E]|].
  cbn [app] in E. inversion E; subst. destruct (IH a' b b' ltac:(lia) H1) as [-> ->]. split; reflexivity.
Qed.

(* a literal that, whenever it is a prefix of a valid string, ends at a character boundary of it *)
Definition LitOK (l : bytes) : Prop :=
  forall cs, Forall scalar cs -> prefixb l (chars cs) = true -> exists j, j <= length cs /\ length l = off_of cs j.

Lemma LitOK_chars scs : Forall scalar scs -> LitOK (chars scs).
Proof.
  induction 1 as [|c scs Hc Hscs IH]; intros cs Hcs Hp.
  - exists 0. split; [lia | reflexivity].
  - rewrite chars_cons in Hp. apply prefixb_app in Hp. destruct Hp as [r E].
    destruct cs as [|c' cs'].
    { pose proof (encode_nonempty c Hc) as L. cbn in E. destruct (encode c); [cbn in L; lia | discriminate]. }
    inversion Hcs as [|? ? Hc' Hcs']; subst. rewrite chars_cons in E.
    assert (L : length (encode c') = length (encode c)).
    { rewrite <- (re_uclen_encode c' (chars cs') Hc'), E, <- app_assoc. apply re_uclen_encode, Hc. }
    rewrite <- app_assoc in E.
    assert (E1 : encode c' = encode c /\ chars cs' = chars scs ++ r).
    { apply app_inv_len in E; [exact E | exact L]. }
    destruct E1 as [E1 E2].
    assert (P : prefixb (chars scs) (chars cs') = true) by (rewrite E2; apply app_prefixb).
    destruct (IH cs' Hcs' P) as (j & Hj & Ej).
    exists (S j). split; [cbn; lia|]. rewrite chars_cons, app_length, off_of_S, Ej, E1. reflexivity.
Qed.

Lemma LitOK_cont b l : is_cont b = true -> LitOK (b :: l).
Proof.
  intros Hb cs Hcs Hp. exfalso. destruct cs as [|c cs]; [discriminate|].
  inversion Hcs as [|? ? Hc _]; subst. rewrite chars_cons in Hp.
  destruct (encode_decomp c Hc) as (l0 & t & E & Hl & _). rewrite E in Hp. cbn [app prefixb] in Hp.
  apply andb_prop in Hp. destruct Hp as [Hp _]. apply N.eqb_eq in Hp. subst. congruence.
Qed.

(* ---- the strings the parser looks at: continuation bytes, then whole characters ------------------ *)
Definition Suf (s : bytes) : Prop := exists t scs, all_cont t /\ Forall scalar scs /\ s = t ++ chars scs.

Lemma Suf_chars scs : Forall scalar scs -> Suf (chars scs).
Proof. intro H. exists [], scs. split; [constructor|]. split; [exact H | reflexivity]. Qed.
Lemma Suf_cont t s : all_cont t -> Suf s -> Suf (t ++ s).
Proof.
  intros Ht (t' & scs & Ht' & Hs & ->). exists (t ++ t'), scs. split; [apply Forall_app; split; assumption|].
  split; [exact Hs | apply app_assoc].
Qed.
Lemma Suf_skipn_chars scs : Forall scalar scs -> forall m, Suf (skipn m (chars scs)).
Proof.
  induction 1 as [|c scs Hc Hscs IH]; intro m.
  - cbn. rewrite skipn_nil. apply (Suf_chars []). constructor.
  - rewrite chars_cons, skipn_app.
    destruct m as [|m]. { cbn [skipn Nat.sub]. apply (Suf_chars (c :: scs)). constructor; assumption. }
    apply Suf_cont; [|apply IH].
    destruct (encode_decomp c Hc) as (l0 & t & E & _ & Ht & _). rewrite E. cbn [skipn]. apply Forall_skipn', Ht.
Qed.
Lemma Suf_skipn s n : Suf s -> Suf (skipn n s).
Proof.
  intros (t & scs & Ht & Hs & ->). rewrite skipn_app. apply Suf_cont; [apply Forall_skipn', Ht | apply Suf_skipn_chars, Hs].
Qed.
Lemma Suf_tl s : Suf s -> Suf (tl s).
Proof. intro H. replace (tl s) with (skipn 1 s) by (destruct s; reflexivity). apply Suf_skipn, H. Qed.

Lemma digits_skipn s : forall c, exists n, snd (digits s c) = skipn n s.
Proof.
  induction s as [|b r IH]; intro c; cbn [digits]; [exists 0; reflexivity|].
  destruct (isdigit b); [|exists 0; reflexivity].
  destruct (IH (if (NREPS <? c * 10 + Z.of_N b - 48)%Z then (NREPS + 1)%Z else (c * 10 + Z.of_N b - 48)%Z)) as [n E].
  exists (S n). exact E.
Qed.
Lemma Suf_digits s c : Suf s -> Suf (snd (digits s c)).
Proof. intro H. destruct (digits_skipn s c) as [n ->]. apply Suf_skipn, H. Qed.

(* ---- chr_lit: the literal is whole characters, or starts with a continuation byte ---------------- *)
Lemma chr_run_ge : forall k first s n m, chr_run k first s n = Ok m -> n <= m.
Proof.
  induction k as [|k IH]; intros first s n m H; cbn [chr_run] in H; [discriminate|].
  destruct (first || negb ((hd0 s =? 0)%N || memb (hd0 s) re_meta)); [|inversion H; lia].
  destruct first.
  - destruct (Nat.eqb (re_uclen s) 0); [discriminate|].
    destruct (adv SUcLen s (re_uclen s)) as [s1| |]; cbn [bind] in H; try discriminate. apply IH in H. lia.
  - destruct (rdk SUcLen s (re_uclen s)) as [d| |]; cbn [bind] in H; try discriminate.
    destruct (negb (d =? 0)%N && memb d re_rep); [inversion H; lia|].
    destruct (adv SUcLen s (re_uclen s)) as [s1| |]; cbn [bind] in H; try discriminate. apply IH in H. lia.
Qed.

Lemma chr_run_chars : forall k first scs n m, Forall scalar scs -> chr_run k first (chars scs) n = Ok m ->
  exists j, j <= length scs /\ m = n + off_of scs j.
Proof.
  induction k as [|k IH]; intros first scs n m Hs H; cbn [chr_run] in H; [discriminate|].
  assert (Z : exists j, j <= length scs /\ n = n + off_of scs j) by (exists 0; split; [lia | rewrite off_of_0; lia]).
  destruct scs as [|c r].
  - destruct first; cbn in H; [discriminate | inversion H; subst; exact Z].
  - inversion Hs as [|? ? Hc Hr]; subst. rewrite chars_cons in H. remember (encode c ++ chars r) as s eqn:Es.
    assert (L : re_uclen s = length (encode c)) by (subst s; apply re_uclen_encode, Hc).
    assert (A : adv SUcLen s (re_uclen s) = Ok (chars r)).
    { rewrite L. subst s. rewrite adv_in by (rewrite app_length; lia). rewrite skipn_app_exact. reflexivity. }
    destruct (first || negb ((hd0 s =? 0)%N || memb (hd0 s) re_meta)); [|inversion H; subst; exact Z].
    assert (R : forall m', chr_run k false (chars r) (n + re_uclen s) = Ok m' -> exists j, j <= length (c :: r) /\ m' = n + off_of (c :: r) j).
    { intros m' H'. apply IH in H'; [|exact Hr]. destruct H' as (j & Hj & ->). exists (S j). split; [cbn; lia|]. rewrite off_of_S, L. lia. }
    destruct first.
    + destruct (Nat.eqb (re_uclen s) 0); [discriminate|]. rewrite A in H. cbn [bind] in H. apply R, H.
    + destruct (rdk SUcLen s (re_uclen s)) as [d| |]; cbn [bind] in H; try discriminate.
      destruct (negb (d =? 0)%N && memb d re_rep); [inversion H; subst; exact Z|].
      rewrite A in H. cbn [bind] in H. apply R, H.
Qed.

Lemma chr_lit_litok s l s' : Suf s -> chr_lit s = Ok (AChr l, s') -> LitOK l /\ Suf s'.
Proof.
  intros HS H. unfold chr_lit in H.
  destruct (chr_run (S (length s)) true s 0) as [n| |] eqn:R; cbn [bind] in H; try discriminate.
  inversion H; subst; clear H. split; [|apply Suf_skipn, HS].
  destruct HS as (t & scs & Ht & Hs & ->). destruct t as [|b t].
  - cbn [app] in *. apply chr_run_chars in R; [|exact Hs]. destruct R as (j & Hj & ->). cbn [plus].
    rewrite firstn_off_of. apply LitOK_chars, Forall_firstn', Hs.
  - inversion Ht as [|? ? Hb Ht']; subst. cbn [app] in *. cbn [chr_run orb] in R.
    rewrite re_uclen_cont in R by exact Hb. cbn [Nat.eqb] in R. rewrite adv_in in R by (cbn; lia). cbn [bind] in R.
    apply chr_run_ge in R. destruct n as [|n]; [lia|]. cbn [firstn]. apply LitOK_cont, Hb.
Qed.

(* ---- the parser ------------------------------------------------------------------------------ *)
Definition AtomOK (a : atom) : Prop := match a with AChr l => LitOK l | _ => True end.
Fixpoint atoms_ok (t : node) : Prop :=
  match t with
  | NNil => True
  | NAtom a _ _ => AtomOK a
  | NGrp x _ _ _ => atoms_ok x
  | NCat x y | NAlt x y => atoms_ok x /\ atoms_ok y
  end.
Definition oatoms_ok (x : option node) : Prop := match x with Some t => atoms_ok t | None => True end.

Lemma chr_lit_ok' s a s' : Suf s -> chr_lit s = Ok (a, s') -> AtomOK a /\ Suf s'.
Proof.
  intros HS H. assert (exists l, a = AChr l) as [l ->].
  { unfold chr_lit in H. destruct (chr_run (S (length s)) true s 0); cbn [bind] in H; try discriminate. inversion H. eexists; reflexivity. }
  cbn [AtomOK]. eapply chr_lit_litok; eauto.
Qed.

Lemma ratom_read_ok' s a s' : Suf s -> ratom_read s = Ok (a, s') -> AtomOK a /\ Suf s'.
Proof.
  intros HS H. unfold ratom_read in H. destruct s as [|c r]; [exact (chr_lit_ok' _ _ _ HS H)|].
  pose proof (Suf_tl _ HS) as HT. cbn [tl] in HT.
  destruct (c =? 46)%N; [inversion H; subst; split; [exact I | exact HT]|].
  destruct (c =? 94)%N; [inversion H; subst; split; [exact I | exact HT]|].
  destruct (c =? 36)%N; [inversion H; subst; split; [exact I | exact HT]|].
  destruct (c =? 91)%N; [inversion H; subst; split; [exact I | apply Suf_skipn, HS]|].
  destruct (c =? 92)%N; [|exact (chr_lit_ok' _ _ _ HS H)].
  destruct r as [|d r']; [exact (chr_lit_ok' _ _ _ HT H)|].
  pose proof (Suf_tl _ HT) as HT2. cbn [tl] in HT2.
  destruct (d =? 60)%N; [inversion H; subst; split; [exact I | exact HT2]|].
  destruct (d =? 62)%N; [inversion H; subst; split; [exact I | exact HT2]|].
  exact (chr_lit_ok' _ _ _ HT H).
Qed.

Lemma rep_suffix_suf s r s' : Suf s -> rep_suffix s = Ok (r, s') -> Suf s'.
Proof.
  intros HS. unfold rep_suffix.
  assert (Tail : forall (mn mx : Z) b, Suf b ->
    (if (hd0 b =? 123)%N then
       let s0 := tl b in
       let '(mn0, s1) := digits s0 0%Z in
       let '(mx0, s2) := if (hd0 s1 =? 44)%N then let s2 := tl s1 in digits s2 (if (hd0 s2 =? 125)%N then (-1)%Z else 0%Z) else (mn0, s1) in
       if negb (hd0 s2 =? 125)%N || (NREPS <? mn0)%Z || (NREPS <? mx0)%Z || ((0 <=? mx0)%Z && (mx0 <? mn0)%Z) then Ok (None, s2) else Ok (Some (mn0, mx0), tl s2)
     else Ok (Some (mn, mx), b)) = Ok (r, s') -> Suf s').
  { intros mn mx b Hb. destruct (hd0 b =? 123)%N; [|intro H; inversion H; subst; exact Hb].
    cbv zeta. pose proof (Suf_digits (tl b) 0%Z (Suf_tl _ Hb)) as H1. destruct (digits (tl b) 0) as [mn1 s1]. cbn [snd] in H1.
    assert (H2 : forall mx1 s2, Suf s2 ->
              (if negb (hd0 s2 =? 125)%N || (NREPS <? mn1)%Z || (NREPS <? mx1)%Z || ((0 <=? mx1)%Z && (mx1 <? mn1)%Z) then Ok (None, s2) else Ok (Some (mn1, mx1), tl s2)) = Ok (r, s') -> Suf s').
    { intros mx1 s2 Hs2.
      destruct (negb (hd0 s2 =? 125)%N || (NREPS <? mn1)%Z || (NREPS <? mx1)%Z || ((0 <=? mx1)%Z && (mx1 <? mn1)%Z)); intro H; inversion H; subst;
        [exact Hs2 | exact (Suf_tl s2 Hs2)]. }
    destruct (hd0 s1 =? 44)%N.
    - pose proof (Suf_digits (tl s1) (if (hd0 (tl s1) =? 125)%N then (-1)%Z else 0%Z) (Suf_tl _ H1)) as H3.
      destruct (digits (tl s1) (if (hd0 (tl s1) =? 125)%N then (-1)%Z else 0%Z)) as [mx1 s2]. cbn [snd] in H3. apply H2, H3.
    - apply H2, H1. }
  destruct ((hd0 s =? 42)%N || (hd0 s =? 63)%N).
  - destruct (hd0 (tl s) =? 43)%N; apply Tail; auto using Suf_tl.
  - destruct (hd0 s =? 43)%N; apply Tail; auto using Suf_tl.
Qed.

Lemma set_rep_atoms n mn mx : atoms_ok n -> atoms_ok (set_rep n mn mx).
Proof. destruct n; cbn [set_rep atoms_ok]; tauto. Qed.

Definition parse_ok (parse : bytes -> res (option node * bytes)) : Prop :=
  forall s x s', Suf s -> parse s = Ok (x, s') -> Suf s' /\ oatoms_ok x.

Section PB.
  Variable parse : bytes -> res (option node * bytes).
  Hypothesis Hp : parse_ok parse.

  Lemma rnode_grp_pok : parse_ok (rnode_grp parse).
  Proof.
    intros s x s' HS. unfold rnode_grp.
    destruct (negb (hd0 s =? 40)%N); [intro H; inversion H; subst; split; [exact HS | exact I]|].
    pose proof (Suf_tl _ HS) as HT.
    destruct (negb (hd0 (tl s) =? 41)%N).
    - destruct (parse (tl s)) as [[[y|] s2]| |] eqn:E; cbn [bind]; try discriminate.
      + destruct (Hp _ _ _ HT E) as [S2 A2].
        destruct (negb (hd0 s2 =? 41)%N); intro H; inversion H; subst; (split; [auto using Suf_tl | try exact I]). exact A2.
      + destruct (Hp _ _ _ HT E) as [S2 A2]. intro H; inversion H; subst. split; [exact S2 | exact I].
    - cbn [bind]. destruct (negb (hd0 (tl s) =? 41)%N); intro H; inversion H; subst; (split; [auto using Suf_tl | exact I]).
  Qed.

  Lemma rnode_atom_pok : parse_ok (rnode_atom parse).
  Proof.
    intros s x s' HS. unfold rnode_atom.
    destruct ((hd0 s =? 0)%N || (hd0 s =? 124)%N || (hd0 s =? 41)%N); [intro H; inversion H; subst; split; [exact HS | exact I]|].
    assert (K : forall n s1, Suf s1 -> oatoms_ok n ->
      match n with
      | None => Ok (None, s1)
      | Some n0 => do rp <- rep_suffix s1;
                   match rp with (None, s2) => Ok (None, s2) | (Some (mn, mx), s2) => Ok (Some (set_rep n0 mn mx), s2) end
      end = Ok (x, s') -> Suf s' /\ oatoms_ok x).
    { intros [n0|] s1 S1 A1; [|intro H; inversion H; subst; split; [exact S1 | exact I]].
      destruct (rep_suffix s1) as [[[[mn mx]|] s2]| |] eqn:R; cbn [bind]; try discriminate;
        intro H; inversion H; subst; (split; [eapply rep_suffix_suf; eauto|]); [apply set_rep_atoms, A1 | exact I]. }
    destruct (hd0 s =? 40)%N.
    - destruct (rnode_grp parse s) as [[n s1]| |] eqn:G; cbn [bind]; try discriminate.
      destruct (rnode_grp_pok _ _ _ HS G) as [S1 A1]. apply K; assumption.
    - destruct (ratom_read s) as [[a s1]| |] eqn:G; cbn [bind fst snd]; try discriminate.
      destruct (ratom_read_ok' _ _ _ HS G) as [A1 S1]. apply (K (Some (NAtom a 1 1))); assumption.
  Qed.

  Lemma rnode_seq_pok f : parse_ok (rnode_seq parse f).
  Proof.
    induction f as [|f IH]; intros s x s' HS; cbn [rnode_seq]; [discriminate|].
    destruct (rnode_atom parse s) as [[[y|] s1]| |] eqn:A; cbn [bind]; try discriminate.
    - destruct (rnode_atom_pok _ _ _ HS A) as [S1 A1].
      destruct (rnode_seq parse f s1) as [[[z|] s2]| |] eqn:S2; cbn [bind]; try discriminate;
        destruct (IH _ _ _ S1 S2) as [S3 A3]; intro H; inversion H; subst; (split; [exact S3|]).
      + split; assumption.
      + exact A1.
    - destruct (rnode_atom_pok _ _ _ HS A) as [S1 A1]. intro H; inversion H; subst. split; [exact S1 | exact I].
  Qed.
End PB.

Lemma rnode_parse_pok f : parse_ok (rnode_parse f).
Proof.
  induction f as [|f IH]; intros s x s' HS; cbn [rnode_parse]; [discriminate|].
  destruct (rnode_seq (rnode_parse f) f s) as [[y s1]| |] eqn:S1; cbn [bind]; try discriminate.
  destruct (rnode_seq_pok _ IH f _ _ _ HS S1) as [HS1 A1].
  destruct (negb (hd0 s1 =? 124)%N); [intro H; inversion H; subst; split; assumption|].
  destruct (rnode_parse f (tl s1)) as [[[z|] s2]| |] eqn:P2; cbn [bind]; try discriminate;
    destruct (IH _ _ _ (Suf_tl _ HS1) P2) as [S2 A2]; intro H; inversion H; subst; (split; [exact S2|]).
  - cbn [oatoms_ok atoms_ok]. split; [destruct y; [exact A1 | exact I] | exact A2].
  - exact A1.
Qed.

Lemma grpnum_atoms t : forall num, atoms_ok t -> atoms_ok (fst (grpnum t num)).
Proof.
  induction t; intros num W; cbn [grpnum atoms_ok] in *.
  - exact I.
  - exact W.
  - specialize (IHt (num + 1) W). destruct (grpnum t (num + 1)) as [x' k]. cbn [fst atoms_ok] in *. exact IHt.
  - destruct W as [W1 W2]. specialize (IHt1 num W1). destruct (grpnum t1 num) as [x' k1]. specialize (IHt2 (num + k1) W2).
    destruct (grpnum t2 (num + k1)) as [y' k2]. cbn [fst atoms_ok] in *. tauto.
  - destruct W as [W1 W2]. specialize (IHt1 num W1). destruct (grpnum t1 num) as [x' k1]. specialize (IHt2 (num + k1) W2).
    destruct (grpnum t2 (num + k1)) as [y' k2]. cbn [fst atoms_ok] in *. tauto.
Qed.

(* ---- the regular expression of the tree ------------------------------------------------------- *)
Fixpoint re_ok (r : re) : Prop :=
  match r with
  | RAtom a => AtomOK a
  | RCat x y | RAlt x y => re_ok x /\ re_ok y
  | RStar x | RGrp _ x | RPow _ x | RPlus x | ROpt _ x => re_ok x
  end.

Lemma rep_re_ok x mn mx : re_ok x -> re_ok (rep_re x mn mx).
Proof.
  intro H. unfold rep_re. destruct ((mn =? 0)%Z && (mx =? 0)%Z); [exact H|].
  destruct ((mn =? 1)%Z && (mx =? 1)%Z); [exact H|].
  unfold normal. destruct (Z.to_nat mn), (mx <? 0)%Z; cbn [re_ok]; tauto.
Qed.
Lemma tr_ok t : atoms_ok t -> re_ok (tr t).
Proof.
  induction t; cbn [tr atoms_ok]; intro H.
  - exact I.
  - apply rep_re_ok. exact H.
  - apply rep_re_ok. cbn [re_ok]. auto.
  - cbn [re_ok]. tauto.
  - cbn [re_ok]. tauto.
Qed.

Lemma regcomp_atoms pat p pcs : Forall scalar pcs -> pat = chars pcs -> regcomp pat = Ok (Some p) -> re_ok (tr (tree p)).
Proof.
  intros Hs -> H. unfold regcomp, parse_pat in H.
  destruct (rnode_parse (parse_fuel (chars pcs)) (chars pcs)) as [[[t|] s']| |] eqn:E; cbn [bind fst snd] in H; try discriminate.
  destruct (parse_bad (chars pcs) || negb match s' with [] => true | _ :: _ => false end); [discriminate|].
  destruct ((0 <=? NINST)%Z && (NINST <=? count t + 3)%Z); [discriminate|].
  inversion H; subst; clear H. cbn [tree]. apply tr_ok, grpnum_atoms.
  destruct (rnode_parse_pok _ _ _ _ (Suf_chars _ Hs) E) as [_ A]. exact A.
Qed.

(* ---- the machine ------------------------------------------------------------------------------ *)
Definition Mk (cs : list N) (m : Z) : Prop := m = (-1)%Z \/ exists k, k <= length cs /\ m = Z.of_nat (off_of cs k).
Definition Inv (cs : list N) (s : st) : Prop := B cs (fst s) /\ Forall (Mk cs) (snd s).

Lemma Forall_upd (P : Z -> Prop) (l : list Z) : forall i v, Forall P l -> P v -> Forall P (upd l i v).
Proof.
  induction l as [|x l IH]; intros i v H Hv; [constructor|]. inversion H; subst.
  destruct i; cbn [upd]; constructor; auto.
Qed.
Lemma Forall_nth_d (P : Z -> Prop) (l : list Z) i d : Forall P l -> P d -> P (nth i l d).
Proof.
  intros H Hd. destruct (Nat.lt_ge_cases i (length l)) as [L|L].
  - rewrite Forall_forall in H. apply H, nth_In, L.
  - rewrite nth_overflow by exact L. exact Hd.
Qed.

Section Machine.
Variable flg : Z.
Variable cs : list N.
Hypothesis Hs : Forall scalar cs.
Notation line := (chars cs).
Notation M := (ReSem.M st (atom_step flg line) mark_step).

Lemma chr_icase_B a p0 : forall k pos q, B cs (p0 + pos) -> chr_icase flg line k a p0 pos = Ok (Some q) -> B cs q.
Proof.
  induction k as [|k IH]; intros pos q Hb H; cbn [chr_icase] in H; [discriminate|].
  destruct (nthb a pos =? 0)%N.
  - destruct (Nat.leb (p0 + pos) (length line)); [|discriminate]. inversion H; subst. exact Hb.
  - destruct (re_ucdec a pos); cbn [bind] in H; try discriminate. destruct (re_ucdec line (p0 + pos)); cbn [bind] in H; try discriminate.
    destruct ((fold (has flg REG_ICASE) a0 =? fold (has flg REG_ICASE) a1)%N && Nat.eqb (re_uclen_at a pos) (re_uclen_at line (p0 + pos))) eqn:C; [|discriminate].
    apply andb_prop in C. destruct C as [_ Q]. apply Nat.eqb_eq in Q.
    apply IH in H; [exact H|]. rewrite Q, Nat.add_assoc. apply B_next; assumption.
Qed.

Lemma ratom_match_B a p q : AtomOK a -> B cs p -> ratom_match flg line a p = Ok (Some q) -> B cs q.
Proof.
  intros Ha Hb H. pose proof (B_next cs p Hs Hb) as Hn. destruct a; cbn [ratom_match] in H.
  - destruct (negb (has flg REG_ICASE)).
    + destruct (prefixb s (skipn p line)) eqn:E; [|discriminate]. inversion H; subst.
      destruct Hb as (k & Hk & ->). rewrite skipn_off_of in E.
      destruct (Ha _ (Forall_skipn' _ k _ Hs) E) as (j & Hj & ->).
      exists (k + j). rewrite skipn_length in Hj. split; [lia | symmetry; apply off_of_add].
    + eapply chr_icase_B; [|exact H]. rewrite Nat.add_0_r. exact Hb.
  - destruct (rdk SOther line p); cbn [bind] in H; try discriminate.
    destruct ((a =? 0)%N || (a =? 10)%N && has flg REG_NEWLINE); [discriminate|].
    destruct (Nat.leb (p + re_uclen_at line p) (length line)); [|discriminate]. inversion H; subst. exact Hn.
  - destruct (re_ucdec line p); cbn [bind] in H; try discriminate.
    destruct ((a =? 0)%N || (a =? 10)%N && has flg REG_NEWLINE); [discriminate|].
    destruct (rdk SOther line p); cbn [bind] in H; try discriminate.
    destruct (negb (Nat.leb (p + re_uclen_at line p) (length line))); [discriminate|].
    destruct (brk_match 2 (has flg REG_ICASE) (tl s) a); cbn [bind] in H; try discriminate.
    destruct a1; inversion H; subst. exact Hn.
  - destruct (Nat.eqb p 0); [destruct (has flg REG_NOTBOL); inversion H; subst; exact Hb|].
    destruct (nthb line (p - 1) =? 10)%N; [|discriminate].
    destruct (rdk SOther line p); cbn [bind] in H; try discriminate.
    destruct (has flg REG_NEWLINE && negb (a =? 0)%N); inversion H; subst; exact Hb.
  - destruct (rdk SOther line p); cbn [bind] in H; try discriminate.
    destruct (a =? 0)%N; [destruct (has flg REG_NOTEOL); inversion H; subst; exact Hb|].
    destruct (a =? 10)%N; [destruct (has flg REG_NEWLINE); inversion H; subst; exact Hb | discriminate].
  - destruct (rdk SOther line p); cbn [bind] in H; try discriminate.
    destruct ((Nat.eqb p 0 || negb (prev_isword line p)) && isword a); inversion H; subst; exact Hb.
  - destruct (rdk SOther line p); cbn [bind] in H; try discriminate.
    destruct (negb (Nat.eqb p 0) && prev_isword line p && ((a =? 0)%N || negb (isword a))); inversion H; subst; exact Hb.
Qed.

Lemma atom_step_Inv a s s' : AtomOK a -> Inv cs s -> atom_step flg line a s = Ok (Some s') -> Inv cs s'.
Proof.
  intros Ha [J1 J2]. unfold atom_step. destruct (ratom_match flg line a (fst s)) as [[q|]| |] eqn:E; cbn [bind]; try discriminate.
  intro H; inversion H; subst; clear H. split; cbn [fst snd]; [eapply ratom_match_B; eauto | exact J2].
Qed.

Lemma mark_step_Inv m s : Inv cs s -> Inv cs (mark_step m s).
Proof.
  intros [J1 J2]. unfold mark_step. destruct (Z.of_nat m <? NGRPS)%Z; [|split; assumption].
  split; cbn [fst snd]; [exact J1|]. apply Forall_upd; [exact J2|].
  right. destruct J1 as (k & Hk & E). exists k. split; [exact Hk | rewrite E; reflexivity].
Qed.

Lemma M_Inv r s s' : M r s s' -> re_ok r -> Inv cs s -> Inv cs s'.
Proof.
  induction 1; intros R J; cbn [re_ok] in *; try exact J; try destruct R as [R1 R2];
    eauto using atom_step_Inv, mark_step_Inv.
Qed.

Theorem re_loop_Inv d P top : re_ok top -> code_at P 0 ([IMark 0] ++ emit top 1 ++ [IMark 1; IMatch]) ->
  forall k o s r c, B cs s -> re_loop d P flg line k o s = (Ok (Some r), c) -> Inv cs r.
Proof.
  intros Rt C. induction k as [|k IH]; intros o s r c Hb H; cbn [re_loop] in H; [discriminate|].
  destruct (rdk SUcLen line o) as [co| |]; try discriminate.
  destruct (co =? 0)%N; [discriminate|].
  destruct (rdk SUcLen line s) as [c1| |] eqn:Rs; try discriminate.
  unfold re_recmatch in H.
  destruct (rec st (atom_step flg line) mark_step P d 0 (s, repeat (-1)%Z nmarks)) as [[cs1 r1| | |w] c2] eqn:R; try discriminate.
  - inversion H; subst; clear H.
    destruct (recmatch_sound _ _ _ _ top C _ _ _ _ _ R) as (s1 & M1 & ->).
    apply mark_step_Inv. eapply M_Inv; [exact M1 | exact Rt|]. apply mark_step_Inv.
    split; cbn [fst snd]; [exact Hb|]. apply Forall_forall. intros x Hx. apply repeat_spec in Hx. left. exact Hx.
  - destruct (re_loop d P flg line k s (s + re_uclen_at line s)) as [x c'] eqn:L. inversion H; subst.
    eapply IH; [|exact L]. apply B_next; assumption.
Qed.
End Machine.

(* regexec on the program of any accepted valid UTF-8 pattern string and any valid UTF-8 line: every
   reported offset is the byte offset of a character boundary of the line *)
Theorem regexec_boundaries pat p cflg line nsub eflg d subs c pcs cs :
  Forall scalar pcs -> pat = chars pcs ->
  Forall scalar cs -> line = chars cs ->
  regcomp pat = Ok (Some p) -> regexec_d d p cflg line nsub eflg = (Ok (Some subs), c) ->
  Forall (fun se : Z * Z => se = ((-1)%Z, (-1)%Z) \/
            (exists k1 k2, k1 <= length cs /\ k2 <= length cs /\ fst se = Z.of_nat (off_of cs k1) /\ snd se = Z.of_nat (off_of cs k2))) subs.
Proof.
  intros Hp Ep Hs El Hc H.
  pose proof (regexec_bounds _ _ _ _ _ _ _ _ _ Hc H) as Bd. rewrite Forall_forall in Bd.
  subst line. unfold regexec_d in H.
  destruct (re_loop d (code p) (Z.lor cflg eflg) (chars cs) (length (chars cs) + 2) 0 0) as [[[r|]| |] c0] eqn:L; inversion H; subst subs c0; clear H.
  pose proof (regcomp_layout _ _ Hc) as Lay.
  assert (C : code_at (code p) 0 ([IMark 0] ++ emit (tr (tree p)) 1 ++ [IMark 1; IMatch])) by (rewrite <- Lay; apply code_at_self).
  pose proof (re_loop_Inv (Z.lor cflg eflg) cs Hs d (code p) (tr (tree p)) (regcomp_atoms _ _ _ Hp Ep Hc) C _ _ _ _ _ (B_0 cs) L) as [_ J].
  apply Forall_forall. intros se Hin. specialize (Bd se Hin).
  unfold psub_of in Hin. apply in_map_iff in Hin. destruct Hin as (i & E & _).
  destruct (Nat.ltb (i * 2) nmarks); [|left; symmetry; exact E].
  destruct Bd as [Bd|Bd]; [left; exact Bd | right].
  assert (M1 : Mk cs (fst se)) by (subst se; cbn [fst]; apply Forall_nth_d; [exact J | left; reflexivity]).
  assert (M2 : Mk cs (snd se)) by (subst se; cbn [snd]; apply Forall_nth_d; [exact J | left; reflexivity]).
  destruct M1 as [M1|(k1 & Hk1 & M1)]; [lia|]. destruct M2 as [M2|(k2 & Hk2 & M2)]; [lia|].
  exists k1, k2. repeat split; assumption.
Qed.
