(* ViInsProps.v -- C08: proofs about insert mode with the autoindent option as a variable (ViInsDefs.v):
   with the option on the functions are those of ViDefs.v; the cursor after an insert is on the last character
   of the last line of what was put in front of the text that is left of post (post_left); inserts that type
   lines of plain keys with newlines between them: replacement text, rows, cursor, and the buffer after i / a. *)
From Coq Require Import List NArith ZArith Lia Bool ZifyN ZifyBool ZifyNat.
From NV Require Import Bytes UcDefs UcSpec UcSegProps MotDefs MotProps RegDefs RegProps ViDefs ViProps ViExecProps ViTargetProps ViInsDefs.
Import ListNotations.
Local Open Scope Z_scope.

(* ====================================================================================== *)
(* autoindent on: the functions of ViDefs.v                                                 *)
(* ====================================================================================== *)
Lemma led_loop_x_true R segs : forall pref post ai acc nls,
  led_loop_x true R segs pref post ai acc nls = led_loop R segs pref post ai acc nls.
Proof.
  induction segs as [|seg rest IH]; intros pref post ai acc nls; cbn [led_loop_x led_loop]; [reflexivity|].
  destruct (led_line R (is_nil pref) seg ai) as [ln ai']. destruct (is_nil rest); [reflexivity|]. apply IH.
Qed.
Lemma led_input_x_true R pref post typed : led_input_x true R pref post typed = led_input R pref post typed.
Proof. unfold led_input_x, led_input. destruct (span_blank_n ai_max pref) as [ai pref']. apply led_loop_x_true. Qed.
Lemma vi_input_x_true R pref post typed : vi_input_x true R pref post typed = vi_input R pref post typed.
Proof. unfold vi_input_x, vi_input. rewrite led_input_x_true. reflexivity. Qed.
Lemma vi_change_x_true rows b R s y g typed : vi_change_x true rows b R s y g typed = vi_change rows b R s y g typed.
Proof. unfold vi_change_x, vi_change, vi_indents_x. rewrite vi_input_x_true. reflexivity. Qed.
Lemma exec_op_x_true rows e y a1 op a2 t typed : exec_op_x true rows e y a1 op a2 t typed = exec_op rows e y a1 op a2 t typed.
Proof.
  unfold exec_op_x. destruct op; try reflexivity. unfold exec_op.
  destruct (op_target _ _ _ _ _ _ _); try reflexivity. rewrite vi_change_x_true. reflexivity.
Qed.
Lemma exec_insert_x_true rows e k typed : exec_insert_x true rows e k typed = exec_insert rows e k typed.
Proof. unfold exec_insert_x, exec_insert, vi_indents_x. rewrite vi_input_x_true. reflexivity. Qed.
Lemma exec1_x_true rows c e : exec1_x rows (XC c) (e, true) = match exec1 rows c e with Some e' => Some (e', true) | None => None end.
Proof.
  destruct c; cbn [exec1_x exec1]; try reflexivity.
  - rewrite exec_op_x_true. reflexivity.
  - rewrite exec_insert_x_true. reflexivity.
Qed.
Lemma exec_x_true rows cs : forall e,
  exec_x rows (map XC cs) (e, true) = match exec rows cs e with Some e' => Some (e', true) | None => None end.
Proof.
  induction cs as [|c r IH]; intro e; cbn [map exec_x exec]; [reflexivity|].
  rewrite exec1_x_true. destruct (exec1 rows c e) as [e'|]; [apply IH|reflexivity].
Qed.
Lemma exec_prog_x_true b rows cs :
  exec_prog_x b rows (map XC cs) = match exec_prog b rows cs with Some e' => Some (e', true) | None => None end.
Proof. apply exec_x_true. Qed.

(* ====================================================================================== *)
(* the cursor rule of vi_input                                                              *)
(* ====================================================================================== *)
Definition cstep (n : Z) (c : chr) : Z := if is_nlb c then 0 else n + 1.
Lemma last_line_nonl t : existsb is_nlb t = false -> last_line t = t.
Proof.
  destruct t as [|c r]; [reflexivity|]. cbn [existsb last_line]. intro H. apply orb_false_iff in H. destruct H as [H1 H2].
  rewrite H1, H2. reflexivity.
Qed.
Lemma fold_last_line t : forall n0,
  fold_left cstep t n0 = if existsb is_nlb t then slen (last_line t) else n0 + slen t.
Proof.
  induction t as [|c r IH]; intro n0; cbn [fold_left existsb]; [unfold slen; cbn; lia|].
  rewrite IH. unfold cstep. cbn [last_line]. destruct (is_nlb c) eqn:Ec; cbn [orb].
  - destruct (existsb is_nlb r) eqn:Er; [reflexivity|]. lia.
  - destruct (existsb is_nlb r) eqn:Er; [reflexivity|]. unfold slen. cbn [length]. lia.
Qed.
Lemma charcount_head head post : charcount (head ++ post) post = slen (last_line head).
Proof.
  unfold charcount. unfold slen at 1 2. rewrite app_length.
  destruct (Z.ltb_spec (Z.of_nat (length head + length post)) (Z.of_nat (length post))); [lia|].
  replace (length head + length post - length post)%nat with (length head) by lia.
  rewrite firstn_app_exact. change (fun n c => if is_nlb c then 0 else n + 1) with cstep. rewrite fold_last_line.
  destruct (existsb is_nlb head) eqn:E; [reflexivity|]. rewrite last_line_nonl by exact E. lia.
Qed.

Lemma span_blank_idem p : span_blank (snd (span_blank p)) = ([], snd (span_blank p)).
Proof.
  induction p as [|c r IH]; cbn [span_blank]; [reflexivity|]. destruct (is_blankc c) eqn:E.
  - destruct (span_blank r) as [a z]. cbn [snd] in *. exact IH.
  - cbn [snd span_blank]. rewrite E. reflexivity.
Qed.
Definition strip (xai : bool) (post : list chr) : list chr := if xai then snd (span_blank post) else post.
Lemma strip_idem xai post : strip xai (strip xai post) = strip xai post.
Proof. destruct xai; cbn [strip]; [rewrite span_blank_idem|]; reflexivity. Qed.

(* the loop returns acc ++ mid ++ post', where post' is post, stripped iff a further input line follows under autoindent *)
Lemma led_loop_x_shape xai R segs : forall pref post ai acc nls,
  exists mid, fst (fst (led_loop_x xai R segs pref post ai acc nls)) = acc ++ mid ++ snd (fst (led_loop_x xai R segs pref post ai acc nls)) /\
              snd (fst (led_loop_x xai R segs pref post ai acc nls)) = (if (2 <=? length segs)%nat then strip xai post else post).
Proof.
  induction segs as [|seg rest IH]; intros pref post ai acc nls; cbn [led_loop_x].
  - exists []. cbn [fst snd length Nat.leb app]. split; reflexivity.
  - destruct (led_line R (is_nil pref) seg ai) as [ln ai']. destruct rest as [|seg2 rest'].
    + cbn [is_nil fst snd length Nat.leb].
      match goal with |- exists mid, (acc ++ ?X) ++ post = _ /\ _ => exists X end. split; [rewrite <- app_assoc; reflexivity|reflexivity].
    + cbn [is_nil andb]. fold (strip xai post).
      match goal with |- context [led_loop_x xai R (seg2 :: rest') [] (strip xai post) ?a ?c ?n] => destruct (IH [] (strip xai post) a c n) as (mid & E1 & E2) end.
      rewrite E1. rewrite E2.
      replace (if (2 <=? length (seg :: seg2 :: rest'))%nat then strip xai post else post) with (strip xai post) by reflexivity.
      replace (if (2 <=? length (seg2 :: rest'))%nat then strip xai (strip xai post) else strip xai post) with (strip xai post)
        by (rewrite strip_idem; destruct (2 <=? length (seg2 :: rest'))%nat; reflexivity).
      match goal with |- exists mid0, (acc ++ ?X) ++ mid ++ _ = _ /\ _ => exists (X ++ mid) end.
      split; [|reflexivity]. rewrite <- !app_assoc. reflexivity.
Qed.

Lemma split_typed_len t : length (split_typed t) = S (length (filter is_nlb t)).
Proof.
  induction t as [|k r IH]; cbn [split_typed filter]; [reflexivity|]. destruct (is_nlb k); cbn [length]; [rewrite IH; reflexivity|].
  destruct (split_typed r) as [|s ss]; cbn [length] in *; lia.
Qed.
Lemma has_nl_filter t : has_nl t = negb (is_nil (filter is_nlb t)).
Proof.
  unfold has_nl. induction t as [|k r IH]; cbn [existsb filter]; [reflexivity|]. destruct (is_nlb k); cbn [orb is_nil negb]; [reflexivity|exact IH].
Qed.
Lemma split_typed_two t : (2 <=? length (split_typed t))%nat = has_nl t.
Proof.
  rewrite split_typed_len, has_nl_filter. destruct (filter is_nlb t); reflexivity.
Qed.

Lemma count_nl_app x y : count_nl (x ++ y) = count_nl x + count_nl y.
Proof. unfold count_nl. rewrite filter_app, app_length. lia. Qed.

(* vi_input: the replacement ends with what is left of post; the cursor row / offset are those of the last
   character of the last line of the text in front of it (offset 0 if that line is empty) *)
Lemma vi_input_x_rule xai R pref post typed :
  exists head,
    fst (fst (fst (vi_input_x xai R pref post typed))) = head ++ post_left xai typed post /\
    snd (fst (fst (vi_input_x xai R pref post typed))) = count_nl head + count_nl (post_left xai typed post) /\
    snd (fst (vi_input_x xai R pref post typed)) = Z.max 0 (slen (last_line head) - 1).
Proof.
  unfold vi_input_x, led_input_x. destruct (span_blank_n ai_max pref) as [ai pref'].
  destruct (led_loop_x_shape xai R (split_typed typed) pref' post ai [] 0%nat) as (mid & E1 & E2).
  destruct (led_loop_x xai R (split_typed typed) pref' post ai [] 0%nat) as [[rep post'] nls]. cbn [fst snd app] in *.
  assert (EP : post' = post_left xai typed post).
  { rewrite E2, split_typed_two. unfold post_left, strip. destruct xai, (has_nl typed); reflexivity. }
  exists mid. rewrite <- EP. subst rep. repeat split.
  - apply count_nl_app.
  - rewrite charcount_head. reflexivity.
Qed.

(* ====================================================================================== *)
(* inserts that type lines of plain keys: s1 <Enter> s2 <Enter> ... sn                      *)
(* ====================================================================================== *)
Definition nonl (x : list chr) : Prop := Forall (fun c : chr => b0 c <> 10%N) x.
Definition plain (s : list chr) : Prop := forallb plain_key s = true.

Lemma led_line_plain' R pe s ai : plain s -> led_line R pe s ai = (s, ai).
Proof. intro H. unfold led_line. rewrite (led_line_plain R pe s H). reflexivity. Qed.
Lemma span_blank_app l : fst (span_blank l) ++ snd (span_blank l) = l.
Proof.
  induction l as [|c r IH]; cbn [span_blank]; [reflexivity|]. destruct (is_blankc c); [|reflexivity].
  destruct (span_blank r) as [a z]. cbn [fst snd app] in *. rewrite IH. reflexivity.
Qed.
Lemma span_blank_fst_blank l : all_blank (fst (span_blank l)) = true.
Proof.
  induction l as [|c r IH]; cbn [span_blank]; [reflexivity|]. destruct (is_blankc c) eqn:E; [|reflexivity].
  destruct (span_blank r) as [a z]. cbn [fst] in *. unfold all_blank. cbn [forallb]. rewrite E. exact IH.
Qed.
Lemma all_blank_span l : Nat.eqb (length l) (length (fst (span_blank l))) = all_blank l.
Proof.
  assert (G : forall l, (length (fst (span_blank l)) <= length l)%nat /\
              (all_blank l = true -> length (fst (span_blank l)) = length l) /\
              (all_blank l = false -> (length (fst (span_blank l)) < length l)%nat)).
  { clear l. induction l as [|c r (IH1 & IH2 & IH3)]; unfold all_blank in *; cbn [span_blank forallb].
    - cbn. split; [lia|split; [reflexivity|discriminate]].
    - destruct (is_blankc c); cbn [andb].
      + destruct (span_blank r) as [a z]. cbn [fst length] in *.
        split; [lia|split; [intro H; rewrite IH2 by exact H; reflexivity|intro H; specialize (IH3 H); lia]].
      + cbn [fst length]. split; [lia|split; [discriminate|lia]]. }
  destruct (G l) as (_ & G2 & G3). destruct (all_blank l) eqn:E.
  - apply Nat.eqb_eq. symmetry. apply G2. reflexivity.
  - apply Nat.eqb_neq. specialize (G3 eq_refl). lia.
Qed.
Lemma plain_count s : plain s -> filter is_nlb s = [].
Proof. intro H. apply count_nl_nonl, plain_nonl, H. Qed.

Lemma join_nl_cons2 x y r : join_nl (x :: y :: r) = x ++ nlc :: join_nl (y :: r).
Proof. reflexivity. Qed.

Lemma join_nl_cons_ne x r : r <> [] -> join_nl (x :: r) = x ++ nlc :: join_nl r.
Proof. destruct r; [congruence|reflexivity]. Qed.
Lemma ref_more_lines_one xai s ai post : ref_more_lines xai [s] ai post =
  [(if negb (all_blank s) || match post with c :: _ => negb (is_nlb c) | [] => false end then ai else []) ++ s].
Proof. reflexivity. Qed.
Lemma ref_more_lines_cons2 xai s s2 r ai post : ref_more_lines xai (s :: s2 :: r) ai post =
  ((if negb (all_blank s) then ai else []) ++ s) :: ref_more_lines xai (s2 :: r) (ref_next_ai xai true ai s) post.
Proof. reflexivity. Qed.
Lemma ref_more_lines_ne xai segs ai post : segs <> [] -> ref_more_lines xai segs ai post <> [].
Proof. destruct segs as [|s [|s2 r]]; [congruence| |]; intros _; [rewrite ref_more_lines_one|rewrite ref_more_lines_cons2]; discriminate. Qed.

(* the input lines after the first one: nothing stands left of them (pref = []), post is stable *)
Lemma led_loop_x_more xai R segs : segs <> [] -> Forall plain segs -> forall post ai acc nls, strip xai post = post ->
  led_loop_x xai R segs [] post ai acc nls =
    (acc ++ join_nl (ref_more_lines xai segs ai post) ++ post, post, (nls + length segs - 1)%nat).
Proof.
  induction segs as [|s rest IH]; [congruence|]. intros _ HP post ai acc nls HS. inversion HP as [|? ? Hs Hrest]; subst.
  cbn [led_loop_x]. rewrite (led_line_plain' R _ s ai Hs). cbn [is_nil]. rewrite all_blank_span, (plain_count s Hs).
  destruct rest as [|s2 rest'].
  - rewrite ref_more_lines_one. cbn [is_nil join_nl length andb negb orb app]. rewrite orb_false_r. rewrite !app_nil_r. rewrite <- !app_assoc.
    f_equal; lia.
  - cbn [is_nil andb negb orb app]. fold (strip xai post). rewrite HS.
    rewrite IH by (try congruence; assumption).
    rewrite ref_more_lines_cons2. rewrite join_nl_cons_ne by (apply ref_more_lines_ne; discriminate).
    unfold ref_next_ai, blanks_of. cbn [is_nil length].
    rewrite ?app_nil_r. rewrite <- ?app_assoc. cbn [app]. rewrite <- ?app_assoc. cbn [app]. rewrite ?orb_false_r. f_equal; lia.
Qed.

Lemma split_typed_nonl_app s t : plain s -> split_typed (s ++ nlc :: t) = s :: split_typed t.
Proof.
  intro H. induction s as [|k r IH]; cbn [app split_typed].
  - reflexivity.
  - unfold plain in H. cbn [forallb] in H. apply andb_true_iff in H. destruct H as [Hk Hr].
    destruct (plain_key_spec k Hk) as (_ & _ & _ & _ & _ & _ & _ & _ & _ & A). unfold is_nlb at 1. rewrite A. rewrite IH by exact Hr. reflexivity.
Qed.
Lemma split_typed_join segs : segs <> [] -> Forall plain segs -> split_typed (join_nl segs) = segs.
Proof.
  induction segs as [|s rest IH]; [congruence|]. intros _ HP. inversion HP as [|? ? Hs Hrest]; subst.
  destruct rest as [|s2 rest']; [cbn [join_nl]; apply split_typed_plain, Hs|].
  rewrite join_nl_cons2, split_typed_nonl_app by exact Hs. rewrite IH by (try congruence; assumption). reflexivity.
Qed.


Lemma led_loop_x_step xai R s s2 rest pref post ai acc nls : plain s ->
  led_loop_x xai R (s :: s2 :: rest) pref post ai acc nls =
  led_loop_x xai R (s2 :: rest) [] (strip xai post) (ref_next_ai xai (is_nil pref) ai s)
     (acc ++ (if negb (all_blank s) || negb (is_nil pref) then ai else []) ++ pref ++ s ++ [nlc]) (S nls).
Proof.
  intro Hs. remember (s2 :: rest) as tl eqn:Etl. cbn [led_loop_x]. rewrite (led_line_plain' R _ s ai Hs).
  rewrite all_blank_span, (plain_count s Hs). subst tl. cbn [is_nil andb length]. rewrite orb_false_r.
  unfold ref_next_ai, blanks_of, strip. replace (nls + 0 + 1)%nat with (S nls) by lia.
  destruct xai; reflexivity.
Qed.

(* led_input for s1 <Enter> more *)
Lemma led_input_x_split xai R pref post s1 more : more <> [] -> plain s1 -> Forall plain more ->
  led_input_x xai R pref post (join_nl (s1 :: more)) =
    (join_nl (fst (ref_split xai pref post s1 more)) ++ snd (ref_split xai pref post s1 more),
     snd (ref_split xai pref post s1 more), length more).
Proof.
  intros Hne H1 Hm. unfold led_input_x, ref_split. destruct (span_blank_n ai_max pref) as [ai pref'].
  rewrite split_typed_join by (try discriminate; constructor; assumption).
  destruct more as [|m ms]; [congruence|]. rewrite led_loop_x_step by exact H1.
  rewrite led_loop_x_more by (try discriminate; try assumption; apply strip_idem).
  fold (strip xai post). cbn [fst snd app].
  rewrite join_nl_cons_ne by (apply ref_more_lines_ne; discriminate).
  rewrite <- !app_assoc. cbn [app]. f_equal; f_equal; cbn [length]; lia.
Qed.

(* ---------- the lines of the reference contain no newline; the cursor ---------- *)
Lemma nonl_existsb x : nonl x -> existsb is_nlb x = false.
Proof.
  induction 1 as [|c x Hc _ IH]; cbn [existsb]; [reflexivity|]. rewrite IH. unfold is_nlb. destruct (N.eqb_spec (b0 c) 10); [contradiction|reflexivity].
Qed.
Lemma all_blank_nonl x : all_blank x = true -> nonl x.
Proof.
  unfold all_blank, nonl. induction x as [|c r IH]; cbn [forallb]; intro H; [constructor|]. apply andb_true_iff in H. destruct H as [Hc Hr].
  constructor; [|apply IH, Hr]. unfold is_blankc in Hc. intro E. rewrite E in Hc. discriminate.
Qed.
Lemma all_blank_app x y : all_blank (x ++ y) = all_blank x && all_blank y.
Proof. unfold all_blank. apply forallb_app. Qed.
Lemma all_blank_firstn n : forall x, all_blank x = true -> all_blank (firstn n x) = true.
Proof.
  unfold all_blank. induction n as [|n IH]; intros x H; [reflexivity|]. destruct x as [|c r]; [reflexivity|]. cbn [firstn forallb] in *.
  apply andb_true_iff in H. destruct H as [Hc Hr]. rewrite Hc, IH by exact Hr. reflexivity.
Qed.
Lemma span_blank_n_fst_blank n : forall x, all_blank (fst (span_blank_n n x)) = true.
Proof.
  induction n as [|n IH]; intro x; cbn [span_blank_n]; [reflexivity|]. destruct x as [|c r]; [reflexivity|].
  destruct (is_blankc c) eqn:E; [|reflexivity]. specialize (IH r). destruct (span_blank_n n r) as [a z]. cbn [fst] in *.
  unfold all_blank in *. cbn [forallb]. rewrite E. exact IH.
Qed.
Lemma firstn_blanks k s : (k <= length (fst (span_blank s)))%nat -> all_blank (firstn k s) = true.
Proof.
  intro H. rewrite <- (span_blank_app s). rewrite firstn_app. replace (k - length (fst (span_blank s)))%nat with 0%nat by lia.
  cbn [firstn]. rewrite app_nil_r. apply all_blank_firstn, span_blank_fst_blank.
Qed.
Lemma ref_next_ai_blank xai pe ai s : all_blank ai = true -> all_blank (ref_next_ai xai pe ai s) = true.
Proof.
  intro H. unfold ref_next_ai, blanks_of. destruct xai; [|reflexivity]. destruct pe; [|exact H].
  rewrite all_blank_app, H. cbn [andb]. apply firstn_blanks. lia.
Qed.
Lemma nonl_app x y : nonl x -> nonl y -> nonl (x ++ y).
Proof. intros. apply Forall_app. split; assumption. Qed.
Lemma nonl_if (c : bool) ai : nonl ai -> nonl (if c then ai else []).
Proof. destruct c; [trivial|constructor]. Qed.
Lemma ref_more_lines_nonl xai segs : Forall plain segs -> forall ai post, all_blank ai = true ->
  Forall nonl (ref_more_lines xai segs ai post).
Proof.
  induction segs as [|s rest IH]; intros HP ai post Ha; [constructor|]. inversion HP as [|? ? Hs Hrest]; subst.
  pose proof (plain_nonl s Hs) as Ns. pose proof (all_blank_nonl ai Ha) as Na.
  destruct rest as [|s2 rest'].
  - rewrite ref_more_lines_one. constructor; [|constructor]. apply nonl_app; [apply nonl_if, Na|exact Ns].
  - rewrite ref_more_lines_cons2. constructor; [apply nonl_app; [apply nonl_if, Na|exact Ns]|].
    apply IH; [exact Hrest|apply ref_next_ai_blank, Ha].
Qed.
Lemma ref_more_lines_len xai segs : forall ai post, length (ref_more_lines xai segs ai post) = length segs.
Proof.
  induction segs as [|s rest IH]; intros ai post; [reflexivity|]. destruct rest as [|s2 rest'].
  - reflexivity.
  - rewrite ref_more_lines_cons2. cbn [length]. rewrite IH. reflexivity.
Qed.
Lemma ref_split_nonl xai pref post s1 more : nonl pref -> plain s1 -> Forall plain more ->
  Forall nonl (fst (ref_split xai pref post s1 more)).
Proof.
  intros Np H1 Hm. unfold ref_split. pose proof (span_blank_n_app ai_max pref) as E. pose proof (span_blank_n_fst_blank ai_max pref) as Ba.
  destruct (span_blank_n ai_max pref) as [ai pref']. cbn [fst snd] in *.
  assert (Np' : nonl pref') by (rewrite <- E in Np; apply Forall_app in Np; apply Np).
  constructor.
  - apply nonl_app; [apply nonl_if, all_blank_nonl, Ba|]. apply nonl_app; [exact Np'|apply plain_nonl, H1].
  - apply ref_more_lines_nonl; [exact Hm|apply ref_next_ai_blank, Ba].
Qed.
Lemma ref_split_len xai pref post s1 more : length (fst (ref_split xai pref post s1 more)) = S (length more).
Proof. unfold ref_split. destruct (span_blank_n ai_max pref) as [ai pref']. cbn [fst length]. rewrite ref_more_lines_len. reflexivity. Qed.
Lemma ref_split_post xai pref post s1 more : snd (ref_split xai pref post s1 more) = strip xai post.
Proof. unfold ref_split. destruct (span_blank_n ai_max pref) as [ai pref']. reflexivity. Qed.

Lemma last_line_app_nl x t : last_line (x ++ nlc :: t) = last_line t.
Proof.
  induction x as [|c r IH]; cbn [app].
  - cbn [last_line]. change (is_nlb nlc) with true. cbn. destruct (existsb is_nlb t) eqn:E; [reflexivity|]. symmetry. apply last_line_nonl, E.
  - cbn [last_line]. rewrite existsb_app. cbn [existsb]. change (is_nlb nlc) with true. rewrite orb_true_r. exact IH.
Qed.
Lemma last_line_join ls : ls <> [] -> Forall nonl ls -> last_line (join_nl ls) = last ls [].
Proof.
  induction ls as [|l r IH]; [congruence|]. intros _ H. inversion H as [|? ? Hl Hr]; subst. destruct r as [|l2 r'].
  - cbn [join_nl last]. apply last_line_nonl, nonl_existsb, Hl.
  - rewrite join_nl_cons2, last_line_app_nl. rewrite IH by (try discriminate; assumption). reflexivity.
Qed.
Lemma count_nl_nonl' x : nonl x -> count_nl x = 0.
Proof. intro H. unfold count_nl. rewrite (count_nl_nonl x H). reflexivity. Qed.
Lemma count_nl_join ls : ls <> [] -> Forall nonl ls -> count_nl (join_nl ls) = Z.of_nat (length ls) - 1.
Proof.
  induction ls as [|l r IH]; [congruence|]. intros _ H. inversion H as [|? ? Hl Hr]; subst. destruct r as [|l2 r'].
  - cbn [join_nl length]. rewrite count_nl_nonl' by exact Hl. lia.
  - rewrite join_nl_cons2, count_nl_app. change (nlc :: join_nl (l2 :: r')) with ([nlc] ++ join_nl (l2 :: r')). rewrite count_nl_app.
    rewrite IH by (try discriminate; assumption). rewrite count_nl_nonl' by exact Hl. change (count_nl [nlc]) with 1. cbn [length]. lia.
Qed.

(* vi_input for s1 <Enter> more (lines of plain keys) between pref and post: the text is the lines of the reference
   followed by what is left of post; the cursor row is the number of newlines typed plus those of that rest, the cursor
   offset is that of the last character of the last typed line with its indentation (0 if that is empty) *)
Lemma vi_input_x_split xai R pref post s1 more : more <> [] -> plain s1 -> Forall plain more -> nonl pref ->
  vi_input_x xai R pref post (join_nl (s1 :: more)) =
    (join_nl (fst (ref_split xai pref post s1 more)) ++ strip xai post,
     Z.of_nat (length more) + count_nl (strip xai post),
     Z.max 0 (slen (last (fst (ref_split xai pref post s1 more)) []) - 1),
     length more).
Proof.
  intros Hne H1 Hm Np. unfold vi_input_x. rewrite led_input_x_split by assumption. rewrite ref_split_post.
  pose proof (ref_split_nonl xai pref post s1 more Np H1 Hm) as NL. pose proof (ref_split_len xai pref post s1 more) as LL.
  assert (NE : fst (ref_split xai pref post s1 more) <> []) by (intro E; rewrite E in LL; discriminate).
  rewrite charcount_head, last_line_join by assumption. rewrite count_nl_app, count_nl_join by assumption. rewrite LL.
  f_equal. f_equal. f_equal. lia.
Qed.

(* ====================================================================================== *)
(* the buffer after i / a typing s1 <Enter> more                                            *)
(* ====================================================================================== *)
Definition add_nl (l : list chr) : line := l ++ [nlc].
Lemma split_text_nonl_app x t : nonl x -> split_text (x ++ nlc :: t) = (x ++ [nlc]) :: split_text t.
Proof.
  induction 1 as [|c r Hc _ IH]; cbn [app split_text]; [reflexivity|].
  assert (E : is_nlb c = false) by (unfold is_nlb; apply N.eqb_neq; exact Hc). rewrite E, IH. reflexivity.
Qed.
Lemma split_text_join ls post : ls <> [] -> Forall nonl ls -> line_wf (last ls [] ++ post) ->
  split_text (join_nl ls ++ post) = map add_nl (removelast ls) ++ [last ls [] ++ post].
Proof.
  induction ls as [|l r IH]; [congruence|]. intros _ H W. inversion H as [|? ? Hl Hr]; subst. destruct r as [|l2 r'].
  - cbn [join_nl last removelast map app] in *. apply split_text_line, W.
  - rewrite join_nl_cons2, <- app_assoc. cbn [app]. rewrite split_text_nonl_app by exact Hl.
    change (last (l :: l2 :: r') []) with (last (l2 :: r') []) in *.
    change (removelast (l :: l2 :: r')) with (l :: removelast (l2 :: r')). cbn [map app].
    rewrite IH by (try discriminate; assumption). reflexivity.
Qed.
Lemma nextlines_fst rows n : forall r t, fst (nextlines rows n (r, t)) = r + Z.of_nat n.
Proof.
  induction n as [|n IH]; intros r t; cbn [nextlines]; [cbn; lia|].
  destruct (r =? t + rows - 1); rewrite IH; lia.
Qed.
Lemma span_blank_snd_wf body : nonl body -> line_wf (snd (span_blank (body ++ [nlc]))).
Proof.
  induction 1 as [|c r Hc Hr IH]; cbn [app span_blank].
  - change (is_blankc nlc) with false. cbn [snd]. exists []. split; [reflexivity|constructor].
  - destruct (is_blankc c).
    + destruct (span_blank (r ++ [nlc])) as [a z]. cbn [snd] in *. exact IH.
    + cbn [snd]. exists (c :: r). split; [reflexivity|constructor; assumption].
Qed.
Lemma strip_wf xai body : nonl body -> line_wf (strip xai (body ++ [nlc])).
Proof. intro H. destruct xai; cbn [strip]; [apply span_blank_snd_wf, H|apply body_wf, H]. Qed.
Lemma count_nl_wf l : line_wf l -> count_nl l = 1.
Proof. intros (pb & -> & Hpb). rewrite count_nl_app, count_nl_nonl' by exact Hpb. reflexivity. Qed.
Lemma getl_set_row_last (b : buf) r (L : list line) n : 0 <= r <= blen b -> L <> [] ->
  getl (set_row b r L n) (r + Z.of_nat (length L) - 1) = Some (last L []).
Proof.
  intros Hr HL. unfold getl, set_row, blen in *. destruct (Z.ltb_spec (r + Z.of_nat (length L) - 1) 0).
  - destruct L; [congruence|cbn [length] in *; lia].
  - rewrite nth_error_app2 by (rewrite firstn_length; destruct L; [congruence|cbn [length]; lia]).
    rewrite firstn_length, Nat.min_l by lia.
    replace (Z.to_nat (r + Z.of_nat (length L) - 1) - Z.to_nat r)%nat with (length L - 1)%nat by (destruct L; [congruence|cbn [length]; lia]).
    rewrite nth_error_app1 by (destruct L; [congruence|cbn [length]; lia]).
    clear -HL. induction L as [|x L' IH]; [congruence|]. destruct L' as [|y L'']; [reflexivity|].
    cbn [length]. replace (S (S (length L'')) - 1)%nat with (S (length (y :: L'') - 1)) by (cbn [length]; lia).
    cbn [nth_error]. rewrite IH by discriminate. reflexivity.
Qed.

Lemma insert_split_buffer xai rows e (append : bool) s1 more st1 body :
  let b := s_buf e in let s := s_vs e in
  buf_wf b -> cursor_ok b (v_row s) (v_off s) -> getl b (v_row s) = Some (body ++ [nlc]) ->
  more <> [] -> plain s1 -> Forall plain more ->
  exec1_x rows (XC (CIns (if append then Ia else Ii) (join_nl (s1 :: more)))) (e, xai) = Some st1 ->
  let off := ref_ins_off body (v_off s) append in
  let post := skipn (Z.to_nat off) body ++ [nlc] in
  let ls := fst (ref_split xai (firstn (Z.to_nat off) body) post s1 more) in
  s_buf (fst st1) = set_row b (v_row s) (map add_nl (removelast ls) ++ [last ls [] ++ strip xai post]) 1 /\
  s_regs (fst st1) = s_regs e /\ snd st1 = xai /\
  v_row (s_vs (fst st1)) = v_row s + Z.of_nat (length more) /\
  v_off (s_vs (fst st1)) = Z.max 0 (slen (last ls []) - 1).
Proof.
  intros b s HW Hc El Hne H1 Hm X off post ls.
  set (l := body ++ [nlc]) in *. pose proof (getl_wf _ _ _ HW El) as Wl. pose proof (wf_body body Wl) as Hb.
  assert (Hs : slen l = Z.of_nat (length body) + 1) by (unfold l, slen; rewrite app_length; cbn [length]; lia).
  assert (Hok : off_ok l (v_off s)) by (unfold cursor_ok in Hc; rewrite El in Hc; exact Hc).
  assert (RN' : ren_noeol (Some l) (v_off s) = v_off s) by (apply ren_noeol_id; assumption).
  destruct Hok as [H0 H1'].
  assert (Hr : 0 <= v_row s < blen b) by (apply getl_some in El; lia).
  assert (Hoff : v_off s <= off <= Z.of_nat (length body)).
  { unfold off, ref_ins_off. destruct body as [|c0 body']; cbn [is_nil negb andb length] in *; [rewrite andb_false_r; lia|destruct append; cbn [andb]; lia]. }
  cbn [exec1_x] in X. unfold exec_insert_x in X. fold b s in X. rewrite El in X.
  assert (EO : (match (if append then Ia else Ii) with II => lbuf_indents b (v_row s) | IA => lbuf_eol b (v_row s) | _ => v_off s end) = v_off s) by (destruct append; reflexivity).
  rewrite EO, RN' in X.
  assert (EF : (let off0 := match (if append then Ia else Ii) with Ii | II => v_off s | Ia | IA => v_off s + 1 | _ => 0 end in
                match Some l with Some (c :: _) => if is_nlb c then 0 else off0 | _ => off0 end) = off).
  { unfold off, ref_ins_off, l. destruct body as [|c0 body']; cbn [app is_nil negb andb].
    - unfold is_nlb, nlc. cbn. rewrite andb_false_r. cbn [length] in *. lia.
    - inversion Hb; subst. unfold is_nlb. destruct (N.eqb_spec (b0 c0) 10); [contradiction|]. destruct append; reflexivity. }
  cbv zeta in EF. cbv zeta in X. rewrite EF in X.
  assert (EI : is_oO (if append then Ia else Ii) = false) by (destruct append; reflexivity).
  rewrite EI in X. cbn [negb andb optl] in X.
  assert (E1 : sub_l l 0 off = firstn (Z.to_nat off) body) by (rewrite sub_l_firstn by lia; unfold l; apply firstn_body; lia).
  assert (E2 : sub_l l off (-1) = post) by (rewrite sub_l_skipn by lia; unfold l, post; apply skipn_body; lia).
  rewrite E1, E2 in X.
  assert (Npref : nonl (firstn (Z.to_nat off) body)) by (apply Forall_firstn', Hb).
  assert (Nrest : nonl (skipn (Z.to_nat off) body)) by (apply Forall_skipn', Hb).
  rewrite vi_input_x_split in X by assumption. fold ls in X.
  assert (EN : (match (if append then Ia else Ii) with Io => nextlines rows 1 (v_row s, v_top s) | _ => (v_row s, v_top s) end) = (v_row s, v_top s))
    by (destruct append; reflexivity).
  rewrite EN in X.
  pose proof (nextlines_fst rows (length more) (v_row s) (v_top s)) as NF.
  destruct (nextlines rows (length more) (v_row s, v_top s)) as [xrow top']. cbn [fst] in NF. subst xrow.
  pose proof (strip_wf xai _ Nrest) as Wp. fold post in Wp. rewrite (count_nl_wf _ Wp) in X.
  replace (v_row s + Z.of_nat (length more) - (Z.of_nat (length more) + 1) + 1) with (v_row s) in X by lia.
  pose proof (ref_split_nonl xai (firstn (Z.to_nat off) body) post s1 more Npref H1 Hm) as NL. fold ls in NL.
  pose proof (ref_split_len xai (firstn (Z.to_nat off) body) post s1 more) as LL. fold ls in LL.
  assert (NE : ls <> []) by (intro E; rewrite E in LL; discriminate).
  assert (Nz : nonl (last ls [])).
  { clear -NL NE. induction ls as [|x r IH]; [congruence|]. inversion NL; subst. destruct r; [assumption|]. apply IH; [assumption|discriminate]. }
  destruct Wp as (pb & Ep & Hpb).
  assert (Wn : line_wf (last ls [] ++ strip xai post)).
  { rewrite Ep, app_assoc. apply body_wf, nonl_app; assumption. }
  replace (v_row s + 1) with (v_row s + Z.of_nat 1) in X by lia.
  rewrite lbuf_edit_some in X by (cbn; lia). rewrite (split_text_join ls _ NE NL Wn) in X. change (Z.of_nat 1) with 1 in X.
  set (L := map add_nl (removelast ls) ++ [last ls [] ++ strip xai post]) in *.
  assert (LenL : length L = S (length more)).
  { unfold L. rewrite app_length, map_length. cbn [length]. pose proof (app_removelast_last [] NE) as EA.
    apply (f_equal (@length _)) in EA. rewrite app_length in EA. cbn [length] in EA. lia. }
  assert (LastL : last L [] = last ls [] ++ strip xai post) by (unfold L; apply last_last).
  assert (NEL : L <> []) by (intro E; rewrite E in LenL; discriminate).
  match type of X with context [finish rows ?bb _ _ _] => remember bb as b' eqn:Eb' end.
  assert (Hb' : blen b' = blen b + Z.of_nat (length more)).
  { rewrite Eb'. unfold set_row, blen in *. rewrite !app_length, firstn_length, skipn_length, LenL. lia. }
  assert (G : getl b' (v_row s + Z.of_nat (length more)) = Some (last ls [] ++ strip xai post)).
  { rewrite Eb', <- LastL. replace (v_row s + Z.of_nat (length more)) with (v_row s + Z.of_nat (length L) - 1) by (rewrite LenL; lia).
    apply getl_set_row_last; [lia|exact NEL]. }
  inversion X; subst st1. clear X. cbn [fst snd]. set (st := vs_top _ _).
  assert (Hrow : 0 <= v_row st < blen b') by (unfold st; cbn [vs_top vs_pos v_row]; lia).
  rewrite finish_buf, finish_regs, finish_row, finish_off by exact Hrow. unfold st. cbn [vs_top vs_pos v_row v_off]. rewrite G.
  split; [reflexivity|]. split; [reflexivity|]. split; [reflexivity|]. split; [reflexivity|].
  apply ren_noeol_id; [exact Wn|]. unfold off_ok, slen. rewrite Ep, !app_length. cbn [length].
  destruct (last ls []) as [|z0 zr]; cbn [length]; destruct pb; cbn [length]; lia.
Qed.

(* the leading blanks of the text right of the insertion point *)
Lemma strip_blanks xai bl rest : all_blank bl = true -> match rest with c :: _ => is_blankc c = false | [] => True end ->
  strip xai (bl ++ rest ++ [nlc]) = if xai then rest ++ [nlc] else bl ++ rest ++ [nlc].
Proof.
  intros Hb Hr. destruct xai; cbn [strip]; [|reflexivity]. unfold all_blank in Hb.
  induction bl as [|c r IH]; cbn [app].
  - destruct rest as [|c0 r0]; cbn [app span_blank]; [reflexivity|]. rewrite Hr. reflexivity.
  - cbn [forallb] in Hb. apply andb_true_iff in Hb. destruct Hb as [Hc Hb]. cbn [span_blank]. rewrite Hc.
    specialize (IH Hb). destruct (span_blank (r ++ rest ++ [nlc])) as [a z]. cbn [snd] in *. exact IH.
Qed.

(* ====================================================================================== *)
(* the invariants of the interpreter, for both settings of the option                       *)
(* ====================================================================================== *)
Lemma led_loop_x_valid xai R segs : regs_valid R -> forall pref post ai acc nls, Forall line_valid segs -> line_valid pref -> line_valid post -> line_valid ai -> line_valid acc ->
  line_valid (fst (fst (led_loop_x xai R segs pref post ai acc nls))).
Proof.
  intro HR. induction segs as [|seg rest IH]; intros pref post ai acc nls Hs Hp Hq Ha Hc; cbn [led_loop_x].
  - cbn [fst snd]. apply lv_app; assumption.
  - inversion Hs; subst. unfold led_line.
    match goal with |- context [fold_left ?f seg ?st] =>
      pose proof (led_line_valid R (is_nil pref) seg HR st ltac:(assumption) (conj lv_nil Ha)) as [L1 L2];
      destruct (fold_left f seg st) as [[ln ai'] pend] eqn:EF end. cbn [fst snd] in L1, L2.
    cbn [fst]. cbv beta iota zeta. match goal with |- context [if is_nil rest then (?a ++ post, post, _) else _] => set (acc' := a) end.
    assert (Hacc : line_valid acc').
    { assert (H_ai : forall c : bool, line_valid (if c then ai' else [])) by (intros []; [exact L2|apply lv_nil]).
      assert (H_nl : forall c : bool, line_valid (if c then [] else [nlc])) by (intros []; [apply lv_nil|apply nl_line_valid]).
      unfold acc'. apply lv_app; [exact Hc|]. apply lv_app; [apply H_ai|]. apply lv_app; [exact Hp|]. apply lv_app; [exact L1|apply H_nl]. }
    clearbody acc'. destruct rest as [|s1 rest']; cbn [is_nil].
    + cbn [fst snd]. apply lv_app; assumption.
    + apply IH; try assumption; [apply lv_nil|destruct xai; [apply span_blank_valid, Hq|exact Hq]|].
      destruct xai; [|apply lv_nil]. destruct (is_nil pref); [apply lv_app; [exact L2|apply lv_firstn, L1]|exact L2].
Qed.
Lemma vi_input_x_valid xai R pref post typed : regs_valid R -> line_valid pref -> line_valid post -> line_valid typed ->
  line_valid (fst (fst (fst (vi_input_x xai R pref post typed)))).
Proof.
  intros HR Hp Hq Ht. unfold vi_input_x, led_input_x. destruct (span_blank_n_valid ai_max pref Hp) as [A B].
  destruct (span_blank_n ai_max pref) as [ai pref']. cbn [fst snd] in A, B.
  pose proof (led_loop_x_valid xai R (split_typed typed) HR pref' post ai [] 0%nat (split_typed_valid typed Ht) B Hq A lv_nil) as V.
  destruct (led_loop_x xai R (split_typed typed) pref' post ai [] 0%nat) as [[rep post'] nls]. exact V.
Qed.
Lemma vi_indents_x_valid xai b r : buf_valid b -> line_valid (vi_indents_x xai (getl b r)).
Proof. intro H. unfold vi_indents_x. destruct xai; [apply vi_indents_valid, H|apply lv_nil]. Qed.
Lemma vi_change_x_valid xai rows b R s y g typed : buf_valid b -> regs_valid R -> line_valid typed -> est_valid (vi_change_x xai rows b R s y g typed).
Proof.
  intros Hb HR Ht. unfold vi_change_x.
  set (pref := if g_ln g then _ else _). set (post := if g_ln g || _ then _ else _).
  assert (Hp : line_valid pref) by (unfold pref; destruct (g_ln g); [apply vi_indents_x_valid, Hb|apply sub_l_valid, optl_valid, Hb]).
  assert (Hq : line_valid post) by (unfold post; destruct (_ || _); [apply nl_line_valid|apply sub_l_valid, optl_valid, Hb]).
  assert (HR' : regs_valid (reg_put R y (flat (region_text b g)) (g_ln g))) by (apply reg_put_valid; [exact HR|apply flat_valid, region_text_valid, Hb]).
  pose proof (vi_input_x_valid xai _ pref post typed HR' Hp Hq Ht) as V.
  destruct (vi_input_x xai _ pref post typed) as [[[rep row] off] nls]. cbn [fst] in V.
  apply finish_valid; [apply lbuf_edit_valid; assumption|exact HR'].
Qed.
Lemma exec_op_x_valid xai rows e y a1 op a2 t typed e' : est_valid e -> line_valid typed ->
  exec_op_x xai rows e y a1 op a2 t typed = Some e' -> est_valid e'.
Proof.
  intros He Ht X. unfold exec_op_x in X.
  destruct op; try (eapply exec_op_valid; eassumption).
  destruct He as [Hb HR]. destruct (op_target _ _ _ _ _ _ _); [discriminate| |]; inversion X; subst.
  - apply finish_valid; assumption.
  - apply vi_change_x_valid; assumption.
Qed.
Lemma exec_insert_x_valid xai rows e k typed : est_valid e -> line_valid typed -> est_valid (exec_insert_x xai rows e k typed).
Proof.
  intros [Hb HR] Ht. unfold exec_insert_x.
  set (oln := getl (s_buf e) (v_row (s_vs e))).
  set (line_ins := match oln with Some _ => negb (is_oO k) | None => false end).
  set (off := match oln with Some (c :: _) => if is_nlb c then 0 else _ | _ => _ end).
  set (pref := if line_ins then _ else _). set (post := if line_ins then _ else _).
  assert (Hp : line_valid pref) by (unfold pref; destruct line_ins; [apply sub_l_valid, optl_valid, Hb|apply vi_indents_x_valid, Hb]).
  assert (Hq : line_valid post) by (unfold post; destruct line_ins; [apply sub_l_valid, optl_valid, Hb|apply nl_line_valid]).
  pose proof (vi_input_x_valid xai (s_regs e) pref post typed HR Hp Hq Ht) as V.
  destruct (vi_input_x xai (s_regs e) pref post typed) as [[[rep row] off'] nls]. cbn [fst] in V.
  destruct (nextlines rows nls _) as [xrow top']. apply finish_valid; [|exact HR].
  apply lbuf_edit_valid; [|exact V]. destruct (_ && _); [|exact Hb]. apply lbuf_edit_valid; [exact Hb|apply nl_line_valid].
Qed.
Lemma exec1_x_valid rows c st st' : est_valid (fst st) -> xcmd_valid c -> exec1_x rows c st = Some st' -> est_valid (fst st').
Proof.
  destruct st as [e xai]. cbn [fst]. intros He Hc X. destruct c as [c|on]; cbn [exec1_x xcmd_valid] in *.
  - destruct c; cbn [cmd_valid] in Hc;
      try (match type of X with match exec1 rows ?c e with _ => _ end = _ => destruct (exec1 rows c e) as [e1|] eqn:E1; [|discriminate];
             inversion X; subst; cbn [fst]; eapply exec1_valid; [exact He| |exact E1]; exact Hc end).
    + destruct (exec_op_x _ _ _ _ _ _ _ _ _) as [e1|] eqn:E1; [|discriminate]. inversion X; subst. cbn [fst]. eapply exec_op_x_valid; eassumption.
    + inversion X; subst. cbn [fst]. apply exec_insert_x_valid; assumption.
  - inversion X; subst. cbn [fst]. destruct He. apply finish_valid; assumption.
Qed.

Lemma vi_input_x_off xai R pref post typed : 0 <= snd (fst (vi_input_x xai R pref post typed)).
Proof. unfold vi_input_x. destruct (led_input_x xai R pref post typed) as [[rep post'] nls]. cbn [fst snd]. lia. Qed.
Lemma exec_op_x_shape xai rows e y a1 op a2 t typed e' : buf_termd (s_buf e) -> 0 <= v_off (s_vs e) ->
  exec_op_x xai rows e y a1 op a2 t typed = Some e' -> fin_shape rows e'.
Proof.
  intros HT H0 X. unfold exec_op_x in X. destruct op; try (eapply exec_op_shape; eassumption).
  destruct (op_target _ _ _ _ _ _ _) as [|cl cc|k r2 o2 cl cc pc]; [discriminate| |]; inversion X; subst e'; clear X.
  - apply fin_intro; assumption.
  - unfold vi_change_x.
    match goal with |- context [vi_input_x xai ?R ?p ?q typed] => pose proof (vi_input_x_off xai R p q typed) as V; destruct (vi_input_x xai R p q typed) as [[[rep row] off] nls] end.
    cbn [fst snd] in V. apply fin_intro; [apply lbuf_edit_termd, HT|exact V].
Qed.
Lemma exec_insert_x_shape xai rows e k typed : buf_termd (s_buf e) -> fin_shape rows (exec_insert_x xai rows e k typed).
Proof.
  intros HT. unfold exec_insert_x.
  match goal with |- context [vi_input_x xai ?R ?p ?q typed] => pose proof (vi_input_x_off xai R p q typed) as V; destruct (vi_input_x xai R p q typed) as [[[rep row] off] nls] end.
  cbn [fst snd] in V. destruct (nextlines rows nls _) as [xrow top']. apply fin_intro; [|exact V].
  apply lbuf_edit_termd. destruct (_ && _); [apply lbuf_edit_termd, HT|exact HT].
Qed.
Lemma exec1_x_inv rows c st st' : est_inv (fst st) -> xcmd_valid c -> exec1_x rows c st = Some st' -> est_inv (fst st').
Proof.
  destruct st as [e xai]. cbn [fst]. intros HI Hc X. pose proof HI as (HV & HW & HC).
  pose proof (exec1_x_valid rows c (e, xai) st' HV Hc X) as HV'.
  pose proof (cursor_ok_off _ _ _ HC) as H0. pose proof (wf_buf_termd _ HW) as HT.
  assert (F : forall e', est_valid e' -> fin_shape rows e' -> est_inv e').
  { intros e' V' (b' & R' & st & md & -> & T' & O'). split; [exact V'|].
    assert (W' : buf_wf b') by (apply termd_valid_wf; [exact T'|destruct V' as [V'' _]; exact V'']).
    split; [exact W'|apply finish_cursor; assumption]. }
  destruct c as [c|on]; cbn [exec1_x xcmd_valid] in *.
  - destruct c;
      try (match type of X with match exec1 rows ?c e with _ => _ end = _ => destruct (exec1 rows c e) as [e1|] eqn:E1; [|discriminate];
             inversion X; subst; cbn [fst]; eapply exec1_inv; [exact HI| |exact E1]; exact Hc end).
    + destruct (exec_op_x _ _ _ _ _ _ _ _ _) as [e1|] eqn:E1; [|discriminate]. inversion X; subst. cbn [fst] in *.
      apply F; [exact HV'|]. eapply exec_op_x_shape; eassumption.
    + inversion X; subst. cbn [fst] in *. apply F; [exact HV'|]. apply exec_insert_x_shape; assumption.
  - inversion X; subst. cbn [fst] in *. apply F; [exact HV'|]. apply fin_intro; assumption.
Qed.
Lemma exec_op_x_none xai rows e y a1 op a2 t typed : exec_op_x xai rows e y a1 op a2 t typed = None -> exec_op rows e y a1 op a2 t typed = None.
Proof.
  unfold exec_op_x. destruct op; try (intro H; exact H). unfold exec_op. destruct (op_target _ _ _ _ _ _ _); try discriminate. reflexivity.
Qed.
Lemma exec1_x_total rows c st : est_inv (fst st) -> exec1_x rows c st <> None.
Proof.
  destruct st as [e xai]. cbn [fst]. intros HI X. destruct c as [c|on]; cbn [exec1_x] in X; [|discriminate].
  destruct c;
    try (match type of X with match exec1 rows ?c e with _ => _ end = _ => destruct (exec1 rows c e) as [e1|] eqn:E1; [discriminate|];
           exact (exec1_total_all rows c e HI E1) end).
  - destruct (exec_op_x _ _ _ _ _ _ _ _ _) as [e1|] eqn:E1; [discriminate|]. apply exec_op_x_none in E1.
    exact (exec1_total_all rows (COp reg a1 op a2 t typed) e HI E1).
  - discriminate.
Qed.
(* every program (with :se ai / :se noai anywhere) runs to the end from an invariant state and ends in one *)
Lemma exec_x_total rows cs : forall st, est_inv (fst st) -> Forall xcmd_valid cs -> exists st', exec_x rows cs st = Some st' /\ est_inv (fst st').
Proof.
  induction cs as [|c cs IH]; intros st He Hc; cbn [exec_x]; [exists st; split; [reflexivity|exact He]|].
  inversion Hc; subst. destruct (exec1_x rows c st) as [st1|] eqn:E1; [|exfalso; eapply exec1_x_total; eassumption].
  apply IH; [eapply exec1_x_inv; eassumption|assumption].
Qed.
