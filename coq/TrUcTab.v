(* TrUcTab.v -- find() and the width classes of uc.c: the model (RenDefs.v) is the translated C text. *)
From Coq Require Import List ZArith NArith Bool Lia.
From NV Require Import Bytes UcDefs GenUcTables RenDefs RenProps CLite CLiteProps GenCFuncs CLiteTac TrUcCode.
Import ListNotations.
Local Open Scope Z_scope.

Lemma load_tab m g tab i : nth_error m g = Some (tab_block tab) -> 0 <= i < Z.of_nat (length tab) ->
  load m g (2 * i) = Ok (VInt (fst (nthp tab i))) /\ load m g (2 * i + 1) = Ok (VInt (snd (nthp tab i))).
Proof.
  intros Hm Hi. unfold load. rewrite Hm. destruct (nth_error_tab_block tab (Z.to_nat i) ltac:(lia)) as [A B].
  destruct (Z.ltb_spec (2 * i) 0); [lia|]. destruct (Z.ltb_spec (2 * i + 1) 0); [lia|].
  replace (Z.to_nat (2 * i)) with (2 * Z.to_nat i)%nat by lia.
  replace (Z.to_nat (2 * i + 1)) with (2 * Z.to_nat i + 1)%nat by lia.
  rewrite A, B. split; reflexivity.
Qed.
Lemma nthp_ok tab i : tab_ok tab -> int_ok (fst (nthp tab i)) /\ int_ok (snd (nthp tab i)).
Proof.
  intro H. unfold nthp. destruct (Nat.lt_ge_cases (Z.to_nat i) (length tab)) as [L|L].
  - unfold tab_ok in H. rewrite Forall_forall in H. apply H. apply nth_In. exact L.
  - rewrite nth_overflow by exact L. cbn. unfold int_ok. lia.
Qed.

Definition find_loop : stmt := match fn_body cf_find with SSeq _ (SSeq _ (SSeq _ (SSeq w _))) => w | _ => SSkip end.
Definition find_ret : stmt := match fn_body cf_find with SSeq _ (SSeq _ (SSeq _ (SSeq _ r))) => r | _ => SSkip end.

Lemma find_loop_ok call m g tab c n fuel2 : nth_error m g = Some (tab_block tab) -> tab_ok tab -> int_ok c ->
  n = Z.of_nat (length tab) -> n <= 1073741823 ->
  forall f l h r fuel mm, bis f tab c l h = Some r -> 0 <= l <= n -> -1 <= h <= n - 1 -> (f <= fuel)%nat ->
  exists st',
  match exec call fuel find_loop (mkst [VInt c; VPtr g 0; VInt n; VInt l; VInt h; mm] m) with
  | ONormal st1 => exec call fuel2 find_ret st1
  | o => o
  end = OReturn (VInt (b2z r)) st' /\ memm st' = m.
Proof.
  intros Hm Hok Hc Hn Hmax. induction f as [|f IH]; intros l h r fuel mm Hb Hl Hh Hf; [discriminate|].
  destruct fuel as [|fuel]; [lia|]. cbn [bis] in Hb.
  unfold find_loop, find_ret; cbn [fn_body cf_find]; rewrite exec_while; xstep.
  destruct (Z.ltb_spec h l) as [Hhl|Hhl].
  - injection Hb as <-. destruct (Z.leb_spec l h); [lia|]. xstep. eexists; split; reflexivity.
  - destruct (Z.leb_spec l h); [|lia]. xstep.
    rewrite (chk_I32 (h + l)) by (unfold int_ok in *; lia). xstep.
    destruct (Z.eqb_spec 2 0); [lia|].
    assert (Hq : Z.quot (h + l) 2 = (h + l) / 2) by (apply Z.quot_div_nonneg; lia).
    rewrite Hq. rewrite (chk_I32 ((h + l) / 2)) by (unfold int_ok in *; assert (0 <= (h + l) / 2 <= h + l) by (split; [apply Z.div_pos; lia|apply Z.div_le_upper_bound; lia]); lia).
    xstep. set (mid := (h + l) / 2) in *.
    assert (Hmid : l <= mid <= h) by (unfold mid; split; [apply Z.div_le_lower_bound; lia|apply Z.div_le_upper_bound; lia]).
    destruct (load_tab m g tab mid Hm ltac:(lia)) as [LA LB].
    destruct (nthp_ok tab mid Hok) as [OA OB].
    norm_off. rewrite LA. xstep. rewrite (wrap_int_ok _ OA).
    destruct (nthp tab mid) as [a b'] eqn:En. cbn [fst snd] in *.
    destruct (a <=? c) eqn:E1; cbn [andb] in Hb; xstep.
    + norm_off. rewrite LB. xstep. rewrite (wrap_int_ok _ OB).
      destruct (c <=? b') eqn:E2; xstep.
      * injection Hb as <-. eexists; split; reflexivity.
      * norm_off. rewrite LA. xstep. rewrite (wrap_int_ok _ OA).
        destruct (Z.ltb_spec c a) as [Hca|Hca]; [apply Z.leb_le in E1; lia|]. xstep.
        rewrite (chk_I32 (mid + 1)) by (unfold int_ok in *; lia). xstep.
        destruct (IH (mid + 1) h r fuel (VInt mid) Hb ltac:(lia) ltac:(lia) ltac:(lia)) as [st' [X Y]].
        exists st'. split; [|exact Y]. rewrite <- X. reflexivity.
    + norm_off. rewrite LA. xstep. rewrite (wrap_int_ok _ OA).
      destruct (Z.ltb_spec c a) as [Hca|Hca]; [|apply Z.leb_gt in E1; lia]. xstep.
      rewrite (chk_I32 (mid - 1)) by (unfold int_ok in *; lia). xstep.
      destruct (IH l (mid - 1) r fuel (VInt mid) Hb ltac:(lia) ltac:(lia) ltac:(lia)) as [st' [X Y]].
      exists st'. split; [|exact Y]. rewrite <- X. reflexivity.
Qed.

Theorem tr_find m g tab c r d fuel : nth_error m g = Some (tab_block tab) -> tab_ok tab -> int_ok c ->
  (1 <= length tab)%nat -> Z.of_nat (length tab) <= 1073741823 -> (length tab < fuel)%nat ->
  tfind c tab = Some r ->
  callf cprog fuel (S d) F_find [VInt c; VPtr g 0; VInt (Z.of_nat (length tab))] m = Ok (VInt (b2z r), m).
Proof.
  intros Hm Hok Hc H1 Hmax Hf Ht. enter F_find cf_find. xstep.
  rewrite (chk_I32 (Z.of_nat (length tab) - 1)) by lia. xstep.
  destruct (load_tab m g tab 0 Hm ltac:(lia)) as [LA _]. destruct (nthp_ok tab 0 Hok) as [OA _].
  change (0 + 2 * 0 + 1 * 0) with (2 * 0). rewrite LA. xstep.
  rewrite (wrap_int_ok _ OA). unfold tfind in Ht.
  destruct (c <? fst (nthp tab 0)); xstep.
  - injection Ht as <-. reflexivity.
  - destruct (find_loop_ok (callf cprog fuel d) m g tab c (Z.of_nat (length tab)) fuel Hm Hok Hc eq_refl Hmax
                (S (length tab)) 0 (Z.of_nat (length tab) - 1) r fuel VUndef Ht ltac:(lia) ltac:(lia) ltac:(lia))
      as [st' [X Y]].
    unfold find_loop, find_ret in X; cbn [fn_body cf_find] in X. rewrite X, Y. reflexivity.
Qed.

(* ------------------------------------------------------------------ the tables and the width classes *)
(* the blocks c2clite.py read from the initializers in uc.c are the tables translate.py dumped *)
Lemma gb_dwchars_eq : gb_dwchars = tab_block dwchars. Proof. vm_compute. reflexivity. Qed.
Lemma gb_zwchars_eq : gb_zwchars = tab_block zwchars. Proof. vm_compute. reflexivity. Qed.
Lemma gb_bchars_eq : gb_bchars = tab_block bchars. Proof. vm_compute. reflexivity. Qed.

Theorem tr_uc_isdw m c d fuel : globals_at m -> int_ok c -> (length dwchars < fuel)%nat ->
  callf cprog fuel (S (S d)) F_uc_isdw [VInt c] m = Ok (VInt (b2z (uc_isdw c)), m).
Proof.
  intros Hg Hc Hf. enter F_uc_isdw cf_uc_isdw. xstep. unfold uc_isdw.
  unfold dw_min. match goal with |- context [?k <=? c] => destruct (k <=? c) end; xstep; [|reflexivity].
  eval_len dwchars.
  destruct tables_sorted as [S1 _].
  rewrite (tr_find m G_dwchars dwchars c (RenDefs.mem dwchars c) d fuel); try assumption.
  - xstep. unfold find_b. rewrite (tfind_is_membership _ _ S1). destruct (RenDefs.mem dwchars c); reflexivity.
  - rewrite <- gb_dwchars_eq. apply Hg. reflexivity.
  - apply tab_okb_sound. vm_compute. reflexivity.
  - vm_compute. lia.
  - vm_compute. discriminate.
  - apply tfind_is_membership. exact S1.
Qed.

Theorem tr_uc_iszw m c d fuel : globals_at m -> int_ok c -> (length zwchars < fuel)%nat ->
  callf cprog fuel (S (S d)) F_uc_iszw [VInt c] m = Ok (VInt (b2z (uc_iszw c)), m).
Proof.
  intros Hg Hc Hf. enter F_uc_iszw cf_uc_iszw. xstep. unfold uc_iszw.
  unfold zw_min. match goal with |- context [?k <=? c] => destruct (k <=? c) end; xstep; [|reflexivity].
  eval_len zwchars.
  destruct tables_sorted as [_ [S2 _]].
  rewrite (tr_find m G_zwchars zwchars c (RenDefs.mem zwchars c) d fuel); try assumption.
  - xstep. unfold find_b. rewrite (tfind_is_membership _ _ S2). destruct (RenDefs.mem zwchars c); reflexivity.
  - rewrite <- gb_zwchars_eq. apply Hg. reflexivity.
  - apply tab_okb_sound. vm_compute. reflexivity.
  - vm_compute. lia.
  - vm_compute. discriminate.
  - apply tfind_is_membership. exact S2.
Qed.

Theorem tr_uc_acomb m c d fuel : int_ok c ->
  callf cprog fuel (S d) F_uc_acomb [VInt c] m = Ok (VInt (b2z (uc_acomb c)), m).
Proof.
  intros Hc. enter F_uc_acomb cf_uc_acomb. xstep. unfold uc_acomb, RenDefs.mem, acomb_ranges. cbn [existsb].
  bool_cases.
Qed.

(* ------------------------------------------------------------------ uc_code fits an int *)
Lemma lor_lt_pow2 a b k : (0 < k)%N -> (a < 2 ^ k)%N -> (b < 2 ^ k)%N -> (N.lor a b < 2 ^ k)%N.
Proof.
  intros Hk Ha Hb. destruct (N.eq_dec (N.lor a b) 0) as [E|E]; [rewrite E; apply N.neq_0_lt_0, N.pow_nonzero; lia|].
  apply N.log2_lt_pow2; [lia|]. rewrite N.log2_lor. apply N.max_lub_lt.
  - destruct (N.eq_dec a 0) as [->|Na]; [cbn; lia|apply N.log2_lt_pow2; lia].
  - destruct (N.eq_dec b 0) as [->|Nb]; [cbn; lia|apply N.log2_lt_pow2; lia].
Qed.
Lemma land_mask_lt a k : (N.land a (N.ones k) < 2 ^ k)%N.
Proof. rewrite N.land_ones. apply N.mod_lt. apply N.pow_nonzero. lia. Qed.
Lemma shiftl_lt a j k : (a < 2 ^ j)%N -> (N.shiftl a k < 2 ^ (j + k))%N.
Proof. intro H. rewrite N.shiftl_mul_pow2, N.pow_add_r. apply N.mul_lt_mono_pos_r; [apply N.neq_0_lt_0, N.pow_nonzero; lia|exact H]. Qed.

Lemma uc_code_lt s : bytes_lt256 s -> (uc_code s < 2 ^ 21)%N.
Proof.
  intro H. unfold uc_code. pose proof (nthb_lt256 s 0 H) as H0.
  assert (forall a, (N.land a 63 < 2 ^ 6)%N) as M6 by (intro a; apply (land_mask_lt a 6)).
  destruct (negb (bit (nthb s 0) 128 && bit (nthb s 0) 64)); [change (2 ^ 21)%N with 2097152%N; lia|].
  destruct (negb (bit (nthb s 0) 32)).
  { apply lor_lt_pow2; [lia| |eapply N.lt_trans; [apply M6|reflexivity]].
    eapply N.lt_le_trans; [apply (shiftl_lt _ 5 6), (land_mask_lt _ 5)|]. apply N.pow_le_mono_r; lia. }
  destruct (negb (bit (nthb s 0) 16)).
  { apply lor_lt_pow2; [lia| |eapply N.lt_trans; [apply M6|reflexivity]].
    apply lor_lt_pow2; [lia| |].
    - eapply N.lt_le_trans; [apply (shiftl_lt _ 4 12), (land_mask_lt _ 4)|]. apply N.pow_le_mono_r; lia.
    - eapply N.lt_le_trans; [apply (shiftl_lt _ 6 6), M6|]. apply N.pow_le_mono_r; lia. }
  destruct (negb (bit (nthb s 0) 8)); [|change (2 ^ 21)%N with 2097152%N; lia].
  apply lor_lt_pow2; [lia| |eapply N.lt_trans; [apply M6|reflexivity]].
  apply lor_lt_pow2; [lia| |].
  - apply lor_lt_pow2; [lia| |].
    + apply (shiftl_lt _ 3 18), (land_mask_lt _ 3).
    + eapply N.lt_le_trans; [apply (shiftl_lt _ 6 12), M6|]. apply N.pow_le_mono_r; lia.
  - eapply N.lt_le_trans; [apply (shiftl_lt _ 6 6), M6|]. apply N.pow_le_mono_r; lia.
Qed.
Lemma uc_code_int_ok s : bytes_lt256 s -> int_ok (Z.of_N (uc_code s)).
Proof. intro H. pose proof (uc_code_lt s H) as L. change (2 ^ 21)%N with 2097152%N in L. unfold int_ok. lia. Qed.

(* ------------------------------------------------------------------ uc_wid, uc_isbell *)
Definition fuel_tabs : nat := S (Nat.max (length dwchars) (Nat.max (length zwchars) (length bchars))).

Theorem tr_uc_wid m b s o d fuel : globals_at m ->
  str_at m b s -> bytes_lt256 s -> (o + uc_len_b (nthb s o) - 1 <= length s)%nat -> (o <= length s)%nat ->
  (fuel_tabs <= fuel)%nat ->
  callf cprog fuel (S (S (S d))) F_uc_wid [VPtr b (Z.of_nat o)] m = Ok (VInt (uc_wid (skipn o s)), m).
Proof.
  intros Hg Hs H256 Hlen Ho Hf. unfold fuel_tabs in Hf. enter F_uc_wid cf_uc_wid. xstep.
  rewrite (tr_uc_code m b s o (S d) fuel Hs H256 Hlen Ho). xstep.
  pose proof (uc_code_int_ok (skipn o s) (Forall_skipn' _ o s H256)) as Hc.
  rewrite (tr_uc_iszw m _ d fuel Hg Hc) by lia. xstep. unfold uc_wid.
  destruct (uc_iszw (Z.of_N (uc_code (skipn o s)))); xstep; [reflexivity|].
  rewrite (tr_uc_isdw m _ d fuel Hg Hc) by lia. xstep.
  destruct (uc_isdw (Z.of_N (uc_code (skipn o s)))); xstep; reflexivity.
Qed.

Lemma hd0_skipn s o : hd0 (skipn o s) = nthb s o.
Proof. rewrite <- (Nat.add_0_r o) at 2. rewrite <- nthb_skipn. destruct (skipn o s); reflexivity. Qed.
Lemma plain_ascii_z : forall c, (c < 256)%N ->
  plain_ascii c = ((Z.of_N c =? 32) || (Z.of_N c =? 9) || (Z.of_N c =? 10) || ((32 <=? Z.of_N c) && (Z.of_N c <? 127))).
Proof. byte_fact. Qed.
Theorem tr_uc_isbell m b s o d fuel : globals_at m ->
  str_at m b s -> bytes_lt256 s -> (o + uc_len_b (nthb s o) - 1 <= length s)%nat -> (o <= length s)%nat ->
  (fuel_tabs <= fuel)%nat ->
  callf cprog fuel (S (S (S d))) F_uc_isbell [VPtr b (Z.of_nat o)] m = Ok (VInt (b2z (uc_isbell (skipn o s))), m).
Proof.
  intros Hg Hs H256 Hlen Ho Hf. unfold fuel_tabs in Hf. enter F_uc_isbell cf_uc_isbell. xstep.
  xload Hs H256 o. unfold uc_isbell. rewrite hd0_skipn, (plain_ascii_z _ (nthb_lt256 s o H256)).
  pose proof (uc_code_int_ok (skipn o s) (Forall_skipn' _ o s H256)) as Hc.
  destruct tables_sorted as [_ [_ [S3 _]]].
  xif; cbn [orb andb]; try reflexivity;
  (rewrite (tr_uc_code m b s o (S d) fuel Hs H256 Hlen Ho); xstep;
   rewrite (tr_uc_iszw m _ d fuel Hg Hc) by lia; xstep;
   destruct (uc_iszw (Z.of_N (uc_code (skipn o s)))); xstep; [reflexivity|];
   eval_len bchars;
   rewrite (tr_find m G_bchars bchars _ (RenDefs.mem bchars (Z.of_N (uc_code (skipn o s)))) (S d) fuel); try assumption;
   [ xstep; unfold find_b; rewrite (tfind_is_membership _ _ S3); cbn [orb];
     destruct (RenDefs.mem bchars (Z.of_N (uc_code (skipn o s)))); reflexivity
   | rewrite <- gb_bchars_eq; apply Hg; reflexivity
   | apply tab_okb_sound; vm_compute; reflexivity
   | vm_compute; lia
   | vm_compute; discriminate
   | apply tfind_is_membership; exact S3 ]).
Qed.

Theorem tr_width_class m c d fuel : globals_at m -> int_ok c -> (fuel_tabs <= fuel)%nat ->
  callf cprog fuel (S (S d)) F_uc_isdw [VInt c] m = Ok (VInt (b2z (uc_isdw c)), m) /\
  callf cprog fuel (S (S d)) F_uc_iszw [VInt c] m = Ok (VInt (b2z (uc_iszw c)), m) /\
  callf cprog fuel (S d) F_uc_acomb [VInt c] m = Ok (VInt (b2z (uc_acomb c)), m).
Proof.
  intros Hg Hc Hf. unfold fuel_tabs in Hf.
  split; [apply tr_uc_isdw; auto; lia|]. split; [apply tr_uc_iszw; auto; lia|]. apply tr_uc_acomb; auto.
Qed.
