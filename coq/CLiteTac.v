(* CLiteTac.v -- tactics and generic lemmas for proving that a hand-written model equals a translated
   C function (used by every Tr*.v file; depends on the generated program only through `cprog`, on no
   particular function's proof). *)
From Coq Require Import List ZArith NArith Bool Lia.
From NV Require Import Bytes CLite CLiteProps GenCFuncs.
Import ListNotations.
Local Open Scope Z_scope.

Ltac enter f cf :=
  rewrite callf_S; cbn [nth_error cprog f cf fn_nparams fn_nlocals fn_body length Nat.eqb Nat.sub repeat app].
(* the goal depends on a byte c < 256 only through closed computations: try all 256 values *)
Ltac sweep_byte c Hc :=
  pattern c; revert c Hc; apply byte_cases;
  let l := eval vm_compute in bytes256 in change bytes256 with l;
  repeat (apply Forall_cons; [try (match goal with |- context [exec _ ?f _ _] => is_var f; destruct f end); vm_compute; reflexivity|]);
  apply Forall_nil.


Definition sx (b : N) : Z := wrap I32 (wrap I8 (Z.of_N b)).     (* a char promoted to int *)
Definition resZ_eqb (a b : res Z) : bool :=
  match a, b with Ok x, Ok y => x =? y | _, _ => false end.
Lemma resZ_eqb_eq a b : resZ_eqb a b = true -> a = b.
Proof. destruct a, b; cbn; try discriminate. intro H. apply Z.eqb_eq in H. now subst. Qed.
(* a fact about one byte, decided by trying the 256 values *)
Ltac byte_fact := 
  match goal with
  | |- forall c, (c < 256)%N -> @eq (res Z) (@?L c) (@?R c) =>
      intros c Hc; apply resZ_eqb_eq; revert c Hc;
      apply (byte_sweep (fun c => resZ_eqb (L c) (R c))); vm_compute; reflexivity
  | |- forall c, (c < 256)%N -> @eq bool (@?L c) (@?R c) =>
      intros c Hc; apply eqb_prop; revert c Hc;
      apply (byte_sweep (fun c => Bool.eqb (L c) (R c))); vm_compute; reflexivity
  | |- forall c, (c < 256)%N -> @eq Z (@?L c) (@?R c) =>
      intros c Hc; apply Z.eqb_eq; revert c Hc;
      apply (byte_sweep (fun c => Z.eqb (L c) (R c))); vm_compute; reflexivity
  end.


(* what xstep leaves of a << k computed in int *)
Definition shl32 (a k : Z) : res Z := if a <? 0 then Err EOverflow else chk I32 (Z.shiftl a k).
Ltac fold_shl :=
  repeat match goal with
         | |- context [if ?a <? 0 then Err EOverflow else chk I32 (Z.shiftl ?a ?k)] =>
             change (if a <? 0 then Err EOverflow else chk I32 (Z.shiftl a k)) with (shl32 a k)
         end.

Ltac xload Hs H256 p :=
  rewrite (load_str _ _ _ _ p Hs) by lia; xstep;
  rewrite ?wrap_byte_chain by (apply nthb_lt256; exact H256); rewrite ?nb2z.


(* ---- int tables and flags in memory *)
Definition tab_block (tab : list (Z * Z)) : block := flat_map (fun ab => [VInt (fst ab); VInt (snd ab)]) tab.
Definition int_ok (z : Z) : Prop := -2147483648 <= z <= 2147483647.
Definition tab_ok (tab : list (Z * Z)) : Prop := Forall (fun ab => int_ok (fst ab) /\ int_ok (snd ab)) tab.

Lemma wrap_int_ok z : int_ok z -> wrap I32 z = z.
Proof.
  intro H. unfold int_ok in H. unfold wrap. cbn [ity_bits ity_signed andb].
  change (2 ^ 32) with 4294967296. change (2 ^ (32 - 1)) with 2147483648.
  destruct (Z.leb_spec 2147483648 (z mod 4294967296)) as [L|L].
  - assert (z < 0) by (destruct (Z.lt_ge_cases z 0); [assumption|rewrite Z.mod_small in L by lia; lia]).
    rewrite <- (Z.mod_add z 1 4294967296) by lia. rewrite Z.mod_small by lia. lia.
  - assert (0 <= z) by (destruct (Z.lt_ge_cases z 0); [|assumption]; exfalso;
      rewrite <- (Z.mod_add z 1 4294967296) in L by lia; rewrite Z.mod_small in L by lia; lia).
    apply Z.mod_small. lia.
Qed.

Lemma nth_error_tab_block tab : forall i, (i < length tab)%nat ->
  nth_error (tab_block tab) (2 * i) = Some (VInt (fst (nth i tab (0, 0)))) /\
  nth_error (tab_block tab) (2 * i + 1) = Some (VInt (snd (nth i tab (0, 0)))).
Proof.
  induction tab as [|ab tab IH]; intros i Hi; cbn [length] in Hi; [lia|].
  destruct i as [|i]; [split; reflexivity|].
  replace (2 * S i)%nat with (S (S (2 * i))) by lia. replace (S (S (2 * i)) + 1)%nat with (S (S (2 * i + 1))) by lia.
  cbn [tab_block flat_map app nth_error nth]. apply IH. lia.
Qed.

Ltac norm_off :=
  repeat match goal with
         | |- context [0 + 2 * ?x + 1 * 0] => replace (0 + 2 * x + 1 * 0) with (2 * x) by lia
         | |- context [0 + 2 * ?x + 1 * 1] => replace (0 + 2 * x + 1 * 1) with (2 * x + 1) by lia
         end.


Definition tab_okb (tab : list (Z * Z)) : bool :=
  forallb (fun ab => (-2147483648 <=? fst ab) && (fst ab <=? 2147483647) && (-2147483648 <=? snd ab) && (snd ab <=? 2147483647)) tab.
Lemma tab_okb_sound tab : tab_okb tab = true -> tab_ok tab.
Proof.
  unfold tab_okb, tab_ok. rewrite forallb_forall, Forall_forall. intros H ab Hin. specialize (H ab Hin).
  unfold int_ok. lia.
Qed.


(* LEN(tab) = sizeof(tab) / sizeof(tab[0]) is a closed computation *)
Ltac eval_len tab :=
  match goal with
  | |- context [if ?a =? 0 then Err EDivZero else chk U64 (?x ÷ ?a)] =>
      let v := eval vm_compute in (if a =? 0 then @Err Z EDivZero else chk U64 (x ÷ a)) in
      change (if a =? 0 then Err EDivZero else chk U64 (x ÷ a)) with v
  end; xstep;
  match goal with |- context [wrap I32 ?k] => change (wrap I32 k) with (Z.of_nat (length tab)) end.


(* the memory holds the program's global blocks at their indices *)
Definition globals_at (m : mem) : Prop := forall g blk, nth_error cglobals g = Some blk -> nth_error m g = Some blk.


Ltac bool_cases :=
  repeat match goal with
         | |- context [if ?b then _ else _] => destruct b eqn:?; xstep
         end;
  repeat match goal with
         | |- context [?a <=? ?b] => destruct (Z.leb_spec a b)
         | |- context [?a <? ?b] => destruct (Z.ltb_spec a b)
         | |- context [?a =? ?b] => destruct (Z.eqb_spec a b)
         end;
  repeat match goal with
         | H : (_ <=? _) = true |- _ => apply Z.leb_le in H
         | H : (_ <=? _) = false |- _ => apply Z.leb_gt in H
         | H : (_ <? _) = true |- _ => apply Z.ltb_lt in H
         | H : (_ <? _) = false |- _ => apply Z.ltb_ge in H
         | H : (_ =? _) = true |- _ => apply Z.eqb_eq in H
         | H : (_ =? _) = false |- _ => apply Z.eqb_neq in H
         end;
  cbn [andb orb b2z]; try reflexivity; exfalso; lia.


Ltac xif := repeat (match goal with |- context [if ?b then _ else _] => destruct b eqn:? end; xstep).

