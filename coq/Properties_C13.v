(* placeholder until SearchProps.v is written *)
From NV Require Import SearchDefs.
