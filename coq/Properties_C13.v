(* Properties_C13.v -- C13: search lands on the first match after / the last match before the cursor,
   no wrap.  Statements only; every proof is `exact <lemma>`.  Model and specification are the same
   scan (coq/SearchDefs.v lbuf_search_g / vi_search / run_cmds) over two row matchers: the code's
   (the matcher applied to the line SUFFIX with NOTBOL: fm_suffix rfind) and the whole-line one
   (wfind kw s k = leftmost match at or after byte k judged against the whole line s). *)
From Coq Require Import List NArith ZArith Bool Arith.
From NV Require Import Bytes UcDefs UcSpec SearchDefs SearchProps.
Import ListNotations.
Local Open Scope nat_scope.

(* for every text, cursor, and sequence of / ? n N ^A commands with counts and line offsets: if the
   matcher is suffix-invariant, the code's scan computes what the whole-line specification says *)
Theorem C13_spec_equiv : forall rfind wfind rcomp lb cmds st xrow xoff,
  Forall line_ok lb -> (forall kw, suffix_inv rfind wfind kw) ->
  run_cmds (fm_suffix rfind) rcomp st lb cmds xrow xoff = run_cmds wfind rcomp st lb cmds xrow xoff.
Proof. exact spec_equiv. Qed.
Print Assumptions C13_spec_equiv.

(* the same for one pattern and any count and direction (only that pattern needs to be invariant) *)
Theorem C13_spec_equiv_count : forall rfind wfind rcomp lb kw fwd cnt r0 o0,
  Forall line_ok lb -> suffix_inv rfind wfind kw ->
  search_iter (fm_suffix rfind) rcomp cnt kw lb fwd r0 o0 = search_iter wfind rcomp cnt kw lb fwd r0 o0.
Proof. exact spec_equiv_one. Qed.
Print Assumptions C13_spec_equiv_count.

(* the reference matcher (rstr.c fast path + engine subset) is suffix-invariant for every pattern
   without \< and \> : the left neighbour is consulted by word anchors only *)
Theorem C13_suffix_inv : forall ic kw, no_word_atoms kw = true -> suffix_inv (ref_rfind ic) (ref_wfind ic) kw.
Proof. exact ref_suffix_inv. Qed.
Print Assumptions C13_suffix_inv.

(* with \< the suffix hides the left neighbour: /\<foo from column 0 of "xfoo foo" lands on column 1
   in the model of the code, on column 5 in the whole-line specification (known finding KF-LCTX) *)
Theorem C13_word_boundary_refuted :
  let lb := [[120; 102; 111; 111; 32; 102; 111; 111; 10]%N] in
  let cmds := [(CSlash [92; 60; 102; 111; 111]%N, 1)] in
  run_cmds (fm_suffix (ref_rfind true)) ref_rcomp sstate0 lb cmds 0 0 = [(true, (0, 1))] /\
  run_cmds (ref_wfind true) ref_rcomp sstate0 lb cmds 0 0 = [(true, (0, 5))].
Proof. vm_compute. split; reflexivity. Qed.
Print Assumptions C13_word_boundary_refuted.

(* no wrap: a forward search never lands on an earlier row, a backward search never on a later one,
   and on the cursor row only strictly before the cursor; the found row exists *)
Theorem C13_no_wrap : forall fm lb fwd r0 o0 r o l, lbuf_search_g fm lb fwd r0 o0 = SFound r o l ->
  r < length lb /\ (if fwd then r0 <= r else r <= r0 /\ (r = r0 -> o < o0)).
Proof. exact no_wrap_rows. Qed.
Print Assumptions C13_no_wrap.

(* ... and forward on the cursor row of a valid UTF-8 line strictly after the cursor character *)
Theorem C13_forward_after_cursor : forall fm cs o0 off b e o l, Forall scalar cs -> o0 < length cs ->
  uc_chr (chars cs) (Z.of_nat o0 + 1) = Some off ->
  fm (chars cs) off = Some (b, e) -> fwd_row fm (chars cs) off = Some (o, l) -> o0 < o.
Proof. exact fwd_after_cursor. Qed.
Print Assumptions C13_forward_after_cursor.

(* a count is iteration and never wraps either *)
Theorem C13_no_wrap_count : forall fmk rcomp cnt kw lb fwd r0 o0 r o l,
  search_iter fmk rcomp cnt kw lb fwd r0 o0 = SFound r o l -> if fwd then r0 <= r else r <= r0.
Proof. exact iter_no_wrap. Qed.
Print Assumptions C13_no_wrap_count.

(* when a search command fails (nothing found, bad line offset, no word under the cursor, no
   previous pattern) the cursor stays where it was *)
Theorem C13_fail_in_place : forall fmk rcomp st lb cmd cnt xrow xoff st' pos,
  search_cmd fmk rcomp st lb cmd cnt xrow xoff = (st', false, pos) -> pos = (xrow, xoff).
Proof. exact fail_in_place. Qed.
Print Assumptions C13_fail_in_place.

(* forward, rows: the found row is the first row from the cursor row on whose scan finds a match;
   the cursor row is scanned from the byte after the cursor character, later rows from 0 *)
Theorem C13_forward_first_row : forall fm rows i first r o l, fwd_rows fm rows i first = SFound r o l ->
  i <= r < i + length rows /\
  fwd_row fm (nth (r - i) rows []) (if r =? i then first else 0) = Some (o, l) /\
  (i < r -> fwd_row fm (nth 0 rows []) first = None) /\
  (forall j, i < j < r -> fwd_row fm (nth (j - i) rows []) 0 = None).
Proof. exact fwd_rows_row. Qed.
Print Assumptions C13_forward_first_row.

(* forward, within a row, for a consistent whole-line matcher: the result is the LEAST position at or
   after the scan start at which a match begins; and if the row scan finds nothing, no match begins
   at any position of the line from the scan start on *)
Theorem C13_forward_least : forall fm s off o l, consistent fm s -> fwd_row fm s off = Some (o, l) ->
  exists p, off <= p /\ begins fm s p /\ phantom s p = false /\ o = uc_off s p /\
            forall q, off <= q < p -> ~ begins fm s q.
Proof. exact fwd_row_least. Qed.
Print Assumptions C13_forward_least.

Theorem C13_forward_none : forall fm s off, consistent fm s -> fwd_row fm s off = None ->
  forall q, off <= q -> begins fm s q -> exists p, p <= q /\ nthb s p = 0%N.
Proof. exact fwd_row_none. Qed.
Print Assumptions C13_forward_none.

(* backward, within a row: the enumeration terminates within its fuel and returns the last of the
   successive matches of the row (occ) that begins before the cursor (lim = Some o0 on the cursor
   row, None on earlier rows) *)
Theorem C13_backward_last : forall fm s lim, (forall k b e, fm s k = Some (b, e) -> b <= e) ->
  bwd_row fm (S (length s)) s 0 lim None = Some (pick lim (occ fm (S (length s)) s 0) None).
Proof. exact bwd_row_last. Qed.
Print Assumptions C13_backward_last.

(* non-vacuity: a pattern without word anchors, valid lines, and the model run on them *)
Example C13_nonvacuous :
  let lb := [[120; 97; 98; 97; 98; 10]; [97; 98; 10]]%N in
  no_word_atoms [97; 42; 98]%N = true /\ no_word_atoms [94; 97]%N = true /\
  ref_run true sstate0 lb [(CSlash [97; 98]%N, 2); (CPrev, 1); (CQuest [98; 36]%N, 1)] 0 0
    = [(true, (0, 3)); (true, (0, 1)); (false, (0, 1))] /\
  ref_spec_run true sstate0 lb [(CSlash [97; 98]%N, 2); (CPrev, 1); (CQuest [98; 36]%N, 1)] 0 0
    = [(true, (0, 3)); (true, (0, 1)); (false, (0, 1))].
Proof. vm_compute. repeat split; reflexivity. Qed.
