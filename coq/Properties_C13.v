(* Properties_C13.v -- C13: search lands on the first match after / the last match before the cursor,
   no wrap.  Statements only; every proof is `exact <lemma>`.  Model and specification are the same
   scan (coq/SearchDefs.v lbuf_search_g / vi_search / run_cmds) over two row matchers: the code's
   (the matcher applied to the line SUFFIX with NOTBOL: fm_suffix rfind) and the whole-line one
   (wfind kw s k = leftmost match at or after byte k judged against the whole line s). *)
From Coq Require Import List NArith ZArith Bool Arith.
From NV Require Import Bytes UcDefs UcSpec SearchDefs SearchProps Search2Defs Search2Props.
Import ListNotations.
Local Open Scope nat_scope.

(* for every text, cursor, and sequence of / ? n N ^A commands with counts and line offsets: if the
   matcher is suffix-invariant, the code's scan computes what the whole-line specification says *)
Theorem C13_spec_equiv : forall rfind wfind rcomp lb cmds st xrow xoff,
  Forall line_ok lb -> (forall kw, suffix_inv rfind wfind kw) ->
  run_cmds (fm_suffix rfind) rcomp st lb cmds xrow xoff = run_cmds wfind rcomp st lb cmds xrow xoff.
Proof. exact spec_equiv. Qed.
Print Assumptions C13_spec_equiv.

(* the same for one pattern and any count and direction (only that pattern needs to be invariant) *)
Theorem C13_spec_equiv_count : forall rfind wfind rcomp lb kw fwd cnt r0 o0,
  Forall line_ok lb -> suffix_inv rfind wfind kw ->
  search_iter (fm_suffix rfind) rcomp cnt kw lb fwd r0 o0 = search_iter wfind rcomp cnt kw lb fwd r0 o0.
Proof. exact spec_equiv_one. Qed.
Print Assumptions C13_spec_equiv_count.

(* the reference matcher (rstr.c fast path + engine subset) is suffix-invariant for every pattern
   without \< and \> : the left neighbour is consulted by word anchors only *)
Theorem C13_suffix_inv : forall ic kw, no_word_atoms kw = true -> suffix_inv (ref_rfind ic) (ref_wfind ic) kw.
Proof. exact ref_suffix_inv. Qed.
Print Assumptions C13_suffix_inv.

(* with \< the suffix hides the left neighbour: /\<foo from column 0 of "xfoo foo" lands on column 1
   in the model of the code, on column 5 in the whole-line specification (known finding KF-LCTX) *)
Theorem C13_word_boundary_refuted :
  let lb := [[120; 102; 111; 111; 32; 102; 111; 111; 10]%N] in
  let cmds := [(CSlash [92; 60; 102; 111; 111]%N, 1)] in
  run_cmds (fm_suffix (ref_rfind true)) ref_rcomp sstate0 lb cmds 0 0 = [(true, (0, 1))] /\
  run_cmds (ref_wfind true) ref_rcomp sstate0 lb cmds 0 0 = [(true, (0, 5))].
Proof. vm_compute. split; reflexivity. Qed.
Print Assumptions C13_word_boundary_refuted.

(* no wrap: a forward search never lands on an earlier row, a backward search never on a later one,
   and on the cursor row only strictly before the cursor; the found row exists *)
Theorem C13_no_wrap : forall fm lb fwd r0 o0 r o l, lbuf_search_g fm lb fwd r0 o0 = SFound r o l ->
  r < length lb /\ (if fwd then r0 <= r else r <= r0 /\ (r = r0 -> o < o0)).
Proof. exact no_wrap_rows. Qed.
Print Assumptions C13_no_wrap.

(* ... and forward on the cursor row of a valid UTF-8 line strictly after the cursor character *)
Theorem C13_forward_after_cursor : forall fm cs o0 off b e o l, Forall scalar cs -> o0 < length cs ->
  uc_chr (chars cs) (Z.of_nat o0 + 1) = Some off ->
  fm (chars cs) off = Some (b, e) -> fwd_row fm (chars cs) off = Some (o, l) -> o0 < o.
Proof. exact fwd_after_cursor. Qed.
Print Assumptions C13_forward_after_cursor.

(* a count is iteration and never wraps either *)
Theorem C13_no_wrap_count : forall fmk rcomp cnt kw lb fwd r0 o0 r o l,
  search_iter fmk rcomp cnt kw lb fwd r0 o0 = SFound r o l -> if fwd then r0 <= r else r <= r0.
Proof. exact iter_no_wrap. Qed.
Print Assumptions C13_no_wrap_count.

(* when a search command fails (nothing found, bad line offset, no word under the cursor, no
   previous pattern) the cursor stays where it was *)
Theorem C13_fail_in_place : forall fmk rcomp st lb cmd cnt xrow xoff st' pos,
  search_cmd fmk rcomp st lb cmd cnt xrow xoff = (st', false, pos) -> pos = (xrow, xoff).
Proof. exact fail_in_place. Qed.
Print Assumptions C13_fail_in_place.

(* forward, rows: the found row is the first row from the cursor row on whose scan finds a match;
   the cursor row is scanned from the byte after the cursor character, later rows from 0 *)
Theorem C13_forward_first_row : forall fm rows i first r o l, fwd_rows fm rows i first = SFound r o l ->
  i <= r < i + length rows /\
  fwd_row fm (nth (r - i) rows []) (if r =? i then first else 0) = Some (o, l) /\
  (i < r -> fwd_row fm (nth 0 rows []) first = None) /\
  (forall j, i < j < r -> fwd_row fm (nth (j - i) rows []) 0 = None).
Proof. exact fwd_rows_row. Qed.
Print Assumptions C13_forward_first_row.

(* forward, within a row, for a consistent whole-line matcher: the result is the LEAST position at or
   after the scan start at which a match begins; and if the row scan finds nothing, no match begins
   at any position of the line from the scan start on *)
Theorem C13_forward_least : forall fm s off o l, consistent fm s -> fwd_row fm s off = Some (o, l) ->
  exists p, off <= p /\ begins fm s p /\ phantom s p = false /\ o = uc_off s p /\
            forall q, off <= q < p -> ~ begins fm s q.
Proof. exact fwd_row_least. Qed.
Print Assumptions C13_forward_least.

Theorem C13_forward_none : forall fm s off, consistent fm s -> fwd_row fm s off = None ->
  forall q, off <= q -> begins fm s q -> exists p, p <= q /\ nthb s p = 0%N.
Proof. exact fwd_row_none. Qed.
Print Assumptions C13_forward_none.

(* backward, within a row: the enumeration terminates within its fuel and returns the last of the
   successive matches of the row (occ) that begins before the cursor (lim = Some o0 on the cursor
   row, None on earlier rows) *)
Theorem C13_backward_last : forall fm s lim, (forall k b e, fm s k = Some (b, e) -> b <= e) ->
  bwd_row fm (S (length s)) s 0 lim None = Some (pick lim (occ fm (S (length s)) s 0) None).
Proof. exact bwd_row_last. Qed.
Print Assumptions C13_backward_last.

(* non-vacuity: a pattern without word anchors, valid lines, and the model run on them *)
Example C13_nonvacuous :
  let lb := [[120; 97; 98; 97; 98; 10]; [97; 98; 10]]%N in
  no_word_atoms [97; 42; 98]%N = true /\ no_word_atoms [94; 97]%N = true /\
  ref_run true sstate0 lb [(CSlash [97; 98]%N, 2); (CPrev, 1); (CQuest [98; 36]%N, 1)] 0 0
    = [(true, (0, 3)); (true, (0, 1)); (false, (0, 1))] /\
  ref_spec_run true sstate0 lb [(CSlash [97; 98]%N, 2); (CPrev, 1); (CQuest [98; 36]%N, 1)] 0 0
    = [(true, (0, 3)); (true, (0, 1)); (false, (0, 1))].
Proof. vm_compute. repeat split; reflexivity. Qed.

(* ---------------------------------------------------------------------------------------------- *)
(* the remembered line offset (vi.c vi_soset, vi_so) as state between search commands *)

(* one command, any state before it, any matcher: / and ? set the offset from the text after their own closing
   delimiter, n and N keep it, ^A switches it off when there is a word under the cursor (off_next, loop-free) *)
Theorem C13_offset_step : forall fmk rcomp st lb cmd cnt xrow xoff,
  off_of (fst (fst (search_cmd fmk rcomp st lb cmd cnt xrow xoff))) = off_next lb cmd xrow xoff (off_of st).
Proof. exact search_cmd_off. Qed.
Print Assumptions C13_offset_step.

(* arbitrary command sequences: run_trace is run_cmds with the states shown, and the offsets along it are the
   fold of off_next over the commands and the cursor positions before them -- they never depend on what the
   searches find *)
Theorem C13_trace_is_run : forall fmk rcomp lb cmds st xrow xoff,
  map (fun x => (snd (fst x), snd x)) (run_trace fmk rcomp st lb cmds xrow xoff) = run_cmds fmk rcomp st lb cmds xrow xoff.
Proof. exact run_trace_cmds. Qed.
Print Assumptions C13_trace_is_run.

Theorem C13_offset_trace : forall fmk rcomp lb cmds st xrow xoff,
  let tr := run_trace fmk rcomp st lb cmds xrow xoff in
  map (fun x => off_of (fst (fst x))) tr = off_trace lb cmds ((xrow, xoff) :: map snd tr) (off_of st).
Proof. exact offset_trace. Qed.
Print Assumptions C13_offset_trace.

(* where a successful command lands: with no offset in force on the count-th match itself, with an offset on
   the first non-blank of the line `so` rows from the match, which exists *)
Theorem C13_landing : forall fmk rcomp st lb cmd cnt xrow xoff st' r o,
  search_cmd fmk rcomp st lb cmd cnt xrow xoff = (st', true, (r, o)) ->
  exists r1 o1 l,
    search_iter fmk rcomp cnt (kwd st') lb (cmd_fwd cmd st') xrow (ren_noeol (nth xrow lb []) xoff) = SFound r1 o1 l /\
    if soset st'
    then Z.of_nat r = (Z.of_nat r1 + so st')%Z /\ r < length lb /\
         o = ren_noeol (nth r lb []) (lbuf_indents (nth r lb []))
    else r = r1 /\ o = ren_noeol (nth r1 lb []) o1.
Proof. exact search_cmd_lands. Qed.
Print Assumptions C13_landing.

(* ^A after ANY history (st is arbitrary, in particular soset st = true): the cursor is on the count-th
   \<word\> forward from the cursor, not on a line offset from it, and the offset is off afterwards *)
Theorem C13_word_lands_on_match : forall fmk rcomp st lb cnt xrow xoff st' r o,
  search_cmd fmk rcomp st lb CWord cnt xrow xoff = (st', true, (r, o)) ->
  let ln := nth xrow lb [] in
  exists w o1 l, vi_curword ln (ren_noeol ln xoff) = Some w /\
    st' = word_state st w /\ soset st' = false /\
    search_iter fmk rcomp cnt (kwd st') lb true xrow (ren_noeol ln xoff) = SFound r o1 l /\
    o = ren_noeol (nth r lb []) o1.
Proof. exact word_lands_on_match. Qed.
Print Assumptions C13_word_lands_on_match.

(* from a state without an offset, any sequence of n N ^A keeps it off, and each of its commands that succeeds
   lands on the match found from the cursor the previous command left *)
Theorem C13_offset_stays_off : forall fmk rcomp lb cmds st xrow xoff,
  forallb (fun cn => prompt_free (fst cn)) cmds = true -> soset st = false ->
  Forall (fun x => soset (fst (fst x)) = false) (run_trace fmk rcomp st lb cmds xrow xoff).
Proof. exact offset_stays_off. Qed.
Print Assumptions C13_offset_stays_off.

Theorem C13_lands_on_match_until_prompt : forall fmk rcomp lb cmds st xrow xoff,
  forallb (fun cn => prompt_free (fst cn)) cmds = true -> soset st = false ->
  forall i c n st0 ok0 pos0 st' r o,
    nth_error cmds i = Some (c, n) ->
    nth_error ((st, true, (xrow, xoff)) :: run_trace fmk rcomp st lb cmds xrow xoff) i = Some (st0, ok0, pos0) ->
    nth_error (run_trace fmk rcomp st lb cmds xrow xoff) i = Some (st', true, (r, o)) ->
    exists o1 l, search_iter fmk rcomp n (kwd st') lb (cmd_fwd c st') (fst pos0)
                   (ren_noeol (nth (fst pos0) lb []) (snd pos0)) = SFound r o1 l /\
                 o = ren_noeol (nth r lb []) o1.
Proof. exact lands_on_match_until_prompt. Qed.
Print Assumptions C13_lands_on_match_until_prompt.

(* non-vacuity: /ef/1  ^A  N  ?ef?-1  n  on five lines -- the offset is set, switched off by ^A, kept by N,
   set again, kept by the failing n; the trace of offsets is the fold of off_next *)
Example C13_nonvacuous_offsets :
  let lb := [[97;98;32;99;100;10]; [99;100;32;101;102;10]; [32;32;99;100;10]; [105;106;32;99;100;10]; [107;108;10]]%N in
  let cmds := [(CSlash [101;102;47;49]%N, 1); (CWord, 1); (CPrev, 1); (CQuest [101;102;63;45;49]%N, 1); (CNext, 1)] in
  map (fun x => (off_of (fst (fst x)), snd (fst x), snd x)) (ref_trace true sstate0 lb cmds 0 0)
    = [(true, 1%Z, true, (2, 2)); (false, 1%Z, true, (3, 3)); (false, 1%Z, true, (2, 2));
       (true, (-1)%Z, true, (0, 0)); (true, (-1)%Z, false, (0, 0))] /\
  off_trace lb cmds [(0, 0); (2, 2); (3, 3); (2, 2); (0, 0)] (false, 0%Z)
    = [(true, 1%Z); (false, 1%Z); (false, 1%Z); (true, (-1)%Z); (true, (-1)%Z)].
Proof. vm_compute. split; reflexivity. Qed.

(* ---------------------------------------------------------------------------------------------- *)
(* purely literal patterns (the fast path of rstr.c): the match is an occurrence of the literal *)

(* ignorecase identifies A..Z with a..z and no other pair of bytes *)
Theorem C13_fold_ascii_letters_only : forall ic c x, fold ic c = fold ic x ->
  c = x \/ (ic = true /\ ((65 <= c <= 90 /\ x = c + 32) \/ (65 <= x <= 90 /\ c = x + 32)))%N.
Proof. exact fold_eq_cases. Qed.
Print Assumptions C13_fold_ascii_letters_only.

(* with or without anchors: what the literal scan returns is an occurrence of the literal (byte-wise equal
   up to that folding), never a near miss *)
Theorem C13_literal_sound : forall ic kw sp prev notbol s p e, rstr_simple kw = Some sp ->
  ref_find ic kw prev notbol s = Some (p, e) -> e = p + length (lit sp) /\ occurs_at ic (lit sp) s p.
Proof. exact ref_literal_sound. Qed.
Print Assumptions C13_literal_sound.

(* without anchors: the FIRST occurrence in the subject (the line suffix the scan stands at), and when the
   scan finds nothing there is no occurrence that ends before the last byte (the newline) *)
Theorem C13_literal_first_occurrence : forall ic kw sp prev notbol s, rstr_simple kw = Some sp -> plain sp ->
  match ref_find ic kw prev notbol s with
  | Some (p, e) => e = p + length (lit sp) /\ occurs_at ic (lit sp) s p /\
                   forall q, q < p -> ~ occurs_at ic (lit sp) s q
  | None => forall q, q + length (lit sp) < length s -> ~ occurs_at ic (lit sp) s q
  end.
Proof. exact ref_literal_first. Qed.
Print Assumptions C13_literal_first_occurrence.

(* non-vacuity: "a#b" is a plain literal; under ignorecase it is found at byte 4 of "A^Cb A#B", not at byte 0
   (# and ^C differ in bit 5 only), and U+0131 x is found at byte 4 of "U+0111 x U+0131 x" *)
Example C13_nonvacuous_literal :
  (exists sp, rstr_simple [97; 35; 98]%N = Some sp /\ plain sp) /\
  ref_find true [97; 35; 98]%N None false [65; 3; 98; 32; 65; 35; 66; 10]%N = Some (4, 7) /\
  occurs_atb true [97; 35; 98]%N [65; 3; 98; 32; 65; 35; 66; 10]%N 0 = false /\
  ref_find true [196; 177; 120]%N None false [196; 145; 120; 32; 196; 177; 120; 10]%N = Some (4, 7).
Proof. split; [eexists; split; [reflexivity|repeat split]|vm_compute; repeat split; reflexivity]. Qed.

(* ---------------------------------------------------------------------------------------------- *)
(* the delimiter parser of the prompt (rset.c re_read) on patterns that end in backslashes (round g/h; proofs in
   coq/Search3Props.v, vocabulary in coq/SubstArgDefs.v).  units d u: u is a sequence of units -- a byte that is neither
   the delimiter d nor a backslash, or a backslash TOGETHER WITH the byte after it; unesc d u: the same text with
   \<delimiter> reduced to the delimiter, everything else (also \\) copied. *)
From NV Require SubstDefs SubstArgDefs Search3Props.

(* the search prompt and :s read their patterns with one and the same function *)
Theorem C13_re_read_same : forall d s, re_read d s = SubstDefs.re_read_loop d s.
Proof. exact Search3Props.re_read_same. Qed.
Print Assumptions C13_re_read_same.

(* units, then the delimiter: the pattern is the unescaped units, the rest is what follows that delimiter *)
Theorem C13_re_read_units : forall d u rest, d <> 92%N -> SubstArgDefs.units d u ->
  re_read d (u ++ d :: rest) = (SubstArgDefs.unesc d u, rest).
Proof. exact Search3Props.re_read_units. Qed.
Print Assumptions C13_re_read_units.

(* an EVEN run of backslashes before the typed closing delimiter: they are escaped backslashes, the delimiter closes,
   the pattern ends in the run; /a\\/ looks for a\\ (the two characters a\), /a\\/1 has the line offset 1 *)
Theorem C13_even_backslashes_then_delimiter : forall d u k rest, d <> 92%N -> SubstArgDefs.units d u ->
  re_read d (u ++ SubstArgDefs.bs (2 * k) ++ d :: rest) = (SubstArgDefs.unesc d u ++ SubstArgDefs.bs (2 * k), rest).
Proof. exact Search3Props.re_read_even_run. Qed.
Print Assumptions C13_even_backslashes_then_delimiter.

(* an ODD run: the last backslash escapes the delimiter, which becomes a character of the pattern (without its
   backslash), and the pattern goes on behind it *)
Theorem C13_odd_backslashes_then_delimiter : forall d u k rest, d <> 92%N -> SubstArgDefs.units d u ->
  re_read d (u ++ SubstArgDefs.bs (2 * k + 1) ++ d :: rest) =
  (SubstArgDefs.unesc d u ++ SubstArgDefs.bs (2 * k) ++ d :: fst (re_read d rest), snd (re_read d rest)).
Proof. exact Search3Props.re_read_odd_run. Qed.
Print Assumptions C13_odd_backslashes_then_delimiter.

(* the remembered line offset comes from the text after the closing delimiter and only from there *)
Theorem C13_offset_after_closing_delimiter : forall d u rest, d <> 92%N -> SubstArgDefs.units d u ->
  prompt_off d (u ++ d :: rest) =
  (match skip_spaces rest with [] => false | _ => true end, c_atoi (skip_spaces rest)).
Proof. exact Search3Props.prompt_off_units. Qed.
Print Assumptions C13_offset_after_closing_delimiter.
Theorem C13_no_offset_without_closing_delimiter : forall d u, d <> 92%N -> SubstArgDefs.units d u ->
  prompt_off d u = (false, 0%Z) /\ prompt_off d (u ++ [92%N]) = (false, 0%Z).
Proof. exact Search3Props.prompt_off_open. Qed.
Print Assumptions C13_no_offset_without_closing_delimiter.

(* what the prompt leaves in the search state *)
Theorem C13_prompt_state : forall st d u rest, d <> 92%N -> SubstArgDefs.units d u -> SubstArgDefs.unesc d u <> [] ->
  length (SubstArgDefs.unesc d u) < Z.to_nat GenConsts.EXLEN ->
  let st' := prompt_search st d (u ++ d :: rest) in
  kwd st' = SubstArgDefs.unesc d u /\ kdir st' = (if (d =? 47)%N then 1%Z else (-1)%Z) /\
  off_of st' = (match skip_spaces rest with [] => false | _ => true end, c_atoi (skip_spaces rest)).
Proof. exact Search3Props.prompt_search_units. Qed.
Print Assumptions C13_prompt_state.

(* non-vacuity, through the reference matcher:  /a\\/  from the top of  start | a/ b | a\ b | end  lands on line 3
   (the a\), not on the a/ of line 2;  ?a\\?  from the last line of  start | a\ b | a? b | end  lands on line 2;
   /a\\/1  on  start | a/1 b | a\ b | next | end  lands on "next" with the offset 1 remembered;  /a\\/  finds nothing in
   start | a/ b | end  and the cursor stays;  /a\\\/  (odd run) looks for  a\/  = the three characters a \ / *)
Example C13_nonvacuous_backslashes :
  let a_sl := [97;47;32;98;10]%N in let a_bs := [97;92;32;98;10]%N in
  let start := [115;116;97;114;116;10]%N in let fin := [101;110;100;10]%N in
  map (fun x => (off_of (fst (fst x)), snd (fst x), snd x))
      (ref_trace true sstate0 [start; a_sl; a_bs; fin] [(CSlash [97;92;92;47]%N, 1)] 0 0) = [(false, 0%Z, true, (2, 0))] /\
  map (fun x => (off_of (fst (fst x)), snd (fst x), snd x))
      (ref_trace true sstate0 [start; a_bs; [97;63;32;98;10]%N; fin] [(CQuest [97;92;92;63]%N, 1)] 3 0) = [(false, 0%Z, true, (1, 0))] /\
  map (fun x => (off_of (fst (fst x)), snd (fst x), snd x))
      (ref_trace true sstate0 [start; [97;47;49;32;98;10]%N; a_bs; [110;101;120;116;10]%N; fin] [(CSlash [97;92;92;47;49]%N, 1)] 0 0)
    = [(true, 1%Z, true, (3, 0))] /\
  map (fun x => (off_of (fst (fst x)), snd (fst x), snd x))
      (ref_trace true sstate0 [start; a_sl; fin] [(CSlash [97;92;92;47]%N, 1)] 0 0) = [(false, 0%Z, false, (0, 0))] /\
  re_read 47%N [97;92;92;92;47]%N = ([97;92;92;47]%N, []) /\
  SubstArgDefs.units 47%N [97;92;92]%N.
Proof. vm_compute. repeat split; try reflexivity. apply SubstArgDefs.U_chr; [discriminate|discriminate|]. apply SubstArgDefs.U_esc. apply SubstArgDefs.U_nil. Qed.

(* ---------------------------------------------------------------------------------------------- *)
(* the scan on the C TEXT of mot.c lbuf_search (proofs in coq/TrSearch.v).  tools/c2clite.py turns the function into the CLite
   term GenCFuncs.cf_lbuf_search; CLiteExt.callx runs it with an oracle `ext` for the functions that are not translated
   (rstr_make, rstr_free, and rset_find behind the translated rstr_find).  The matcher enters exactly as in the model: a function
   find : suffix -> notbol -> option (b, e) that describes what rstr_find answers (TrSearch.find_ans: a value >= 0 and
   offs[] = {b, e}, or a value < 0; nothing else written), with b <= e <= length of the suffix (find_wf);
   fm_of find = fm_suffix rfind kw for find = rfind kw.  Memory: the struct lbuf line table of TrMot.lbuf_at, one-cell blocks
   for *r, *o, *len, the two-cell offs block; smem m1 boffs br bo bl m c r o vl = "m is m1 with offs = c, *r = r, *o = o,
   *len = vl".  lines_fit: no line ends inside a multi-byte character (see C13_tr_truncated_character below). *)
From Coq Require Import Lia.
From NV Require Import CLite CLiteProps GenCFuncs CLiteExt TrMot TrSearch.

Theorem C13_tr_matcher_is_suffix : forall rfind kw, fm_of (rfind kw) = fm_suffix rfind kw.
Proof. exact fm_of_suffix. Qed.
Print Assumptions C13_tr_matcher_is_suffix.

(* piece 1 -- the while loop on one row of a forward search: at most one round, the result is the model's fwd_row *)
Theorem C13_tr_row_forward : forall (ext : nat -> list val -> mem -> res (val * mem)) (F D : nat) (m1 : mem) (lb bln : nat)
    (lbs : list nat) (lines : list bytes) (boffs br bo bl kb : nat) (ko : Z) (rb : nat) (ro : Z)
    (find : bytes -> bool -> option (nat * nat)) (dir : Z) (r0 o0 : nat),
  lbuf_at m1 lb bln lbs lines -> lines_small lines -> length lines + maxlen lines + 4 < F -> lines_fit lines ->
  find_wf find -> dir_ok dir -> NoDup [boffs; br; bo; bl] ->
  (forall k, In k [boffs; br; bo; bl] -> ~ In k (lb :: bln :: lbs)) -> (forall k, In k [boffs; br; bo; bl] -> k < length m1) ->
  find_ans ext F D m1 lbs lines boffs br bo bl rb ro find ->
  forall (i : nat) (r o : Z) (vl : val), dir = 1%Z -> i < length lines ->
  forall (off : nat) (m : mem) (c : list val) (fuel : nat) (vbeg : val),
  off <= length (nthl lines i) -> 1 < fuel -> length c = 2 -> smem m1 boffs br bo bl m c r o vl ->
  let res := fwd_row (fm_of find) (nthl lines i) off in
  exists (m' : mem) (c' : list val) (voff vbeg' : val),
    exec (callx ext cprog F (S (S (S D)))) fuel srch_while
      (mkst (lst lb boffs br bo bl kb ko rb ro dir r0 o0 (Z.of_nat i) 0%Z (VPtr (nth i lbs 0) 0%Z) (VInt (Z.of_nat off)) vbeg) m)
    = ONormal (mkst (lst lb boffs br bo bl kb ko rb ro dir r0 o0 (Z.of_nat i) (b2z (is_some res)) (VPtr (nth i lbs 0) 0%Z) voff vbeg') m') /\
    length c' = 2 /\ smem m1 boffs br bo bl m' c' (cr res i r) (co res o) (cl res vl).
Proof. exact fwd_row_ok. Qed.
Print Assumptions C13_tr_row_forward.

(* piece 2 -- the same loop backward: the enumeration of the successive matches of the row (bwd_row, any fuel that suffices), with the
   character-wise step after an empty match (fix 4913ce2), the terminator rule (fix c3b62b2) and the cursor limit on row r0 *)
Theorem C13_tr_row_backward : forall (ext : nat -> list val -> mem -> res (val * mem)) (F D : nat) (m1 : mem) (lb bln : nat)
    (lbs : list nat) (lines : list bytes) (boffs br bo bl kb : nat) (ko : Z) (rb : nat) (ro : Z)
    (find : bytes -> bool -> option (nat * nat)) (dir : Z) (r0 o0 : nat),
  lbuf_at m1 lb bln lbs lines -> lines_small lines -> length lines + maxlen lines + 4 < F -> lines_fit lines ->
  find_wf find -> dir_ok dir -> NoDup [boffs; br; bo; bl] ->
  (forall k, In k [boffs; br; bo; bl] -> ~ In k (lb :: bln :: lbs)) -> (forall k, In k [boffs; br; bo; bl] -> k < length m1) ->
  find_ans ext F D m1 lbs lines boffs br bo bl rb ro find ->
  forall (i : nat) (r o : Z) (vl : val), dir = (-1)%Z -> i < length lines ->
  forall (f off : nat) (acc res : option (nat * nat)) (m : mem) (c : list val) (fuel : nat) (vbeg : val),
  bwd_row (fm_of find) f (nthl lines i) off (if r0 =? i then Some o0 else None) acc = Some res ->
  off <= length (nthl lines i) -> f < fuel -> length c = 2 ->
  smem m1 boffs br bo bl m c (cr acc i r) (co acc o) (cl acc vl) ->
  exists (m' : mem) (c' : list val) (voff vbeg' : val),
    exec (callx ext cprog F (S (S (S D)))) fuel srch_while
      (mkst (lst lb boffs br bo bl kb ko rb ro dir r0 o0 (Z.of_nat i) (b2z (is_some acc)) (VPtr (nth i lbs 0) 0%Z) (VInt (Z.of_nat off)) vbeg) m)
    = ONormal (mkst (lst lb boffs br bo bl kb ko rb ro dir r0 o0 (Z.of_nat i) (b2z (is_some res)) (VPtr (nth i lbs 0) 0%Z) voff vbeg') m') /\
    length c' = 2 /\ smem m1 boffs br bo bl m' c' (cr res i r) (co res o) (cl res vl).
Proof. exact bwd_row_ok. Qed.
Print Assumptions C13_tr_row_backward.

(* piece 3 -- the row loop: forward from row i to the last row (fwd_rows: the cursor row is scanned from uc_chr(s, o0 + 1) - s,
   later rows from 0), backward from row i down to row 0 (bwd_rows: only the cursor row has the limit); the loop ends at the
   first / last row -- no wrap *)
Theorem C13_tr_rows_forward : forall (ext : nat -> list val -> mem -> res (val * mem)) (F D : nat) (m1 : mem) (lb bln : nat)
    (lbs : list nat) (lines : list bytes) (boffs br bo bl kb : nat) (ko : Z) (rb : nat) (ro : Z)
    (find : bytes -> bool -> option (nat * nat)) (dir : Z) (r0 o0 : nat),
  lbuf_at m1 lb bln lbs lines -> lines_small lines -> length lines + maxlen lines + 4 < F -> lines_fit lines ->
  find_wf find -> dir_ok dir -> NoDup [boffs; br; bo; bl] ->
  (forall k, In k [boffs; br; bo; bl] -> ~ In k (lb :: bln :: lbs)) -> (forall k, In k [boffs; br; bo; bl] -> k < length m1) ->
  (Z.of_nat o0 < 2147483647)%Z ->
  find_ans ext F D m1 lbs lines boffs br bo bl rb ro find ->
  forall off0 : nat, dir = 1%Z -> (r0 < length lines -> uc_chr (nthl lines r0) (Z.of_nat o0 + 1) = Some off0) ->
  forall (n i : nat) (m : mem) (c : list val) (r o : Z) (vl : val) (fuel : nat) (sv voff vbeg : val),
  length lines - i <= n -> r0 <= i -> n + maxlen lines + 3 < fuel -> length c = 2 -> smem m1 boffs br bo bl m c r o vl ->
  exists (m' : mem) (c' : list val) (i' found' : Z) (sv' voff' vbeg' : val),
    exec (callx ext cprog F (S (S (S D)))) fuel srch_for
      (mkst (lst lb boffs br bo bl kb ko rb ro dir r0 o0 (Z.of_nat i) 0%Z sv voff vbeg) m)
    = ONormal (mkst (lst lb boffs br bo bl kb ko rb ro dir r0 o0 i' found' sv' voff' vbeg') m') /\
    length c' = 2 /\
    match fwd_rows (fm_of find) (skipn i lines) i (if i =? r0 then off0 else 0) with
    | SFound rr oo ll => found' = 1%Z /\ smem m1 boffs br bo bl m' c' (Z.of_nat rr) (Z.of_nat oo) (VInt (Z.of_nat ll))
    | SNotFound => found' = 0%Z /\ smem m1 boffs br bo bl m' c' r o vl
    | _ => False
    end.
Proof. exact fwd_for_ok. Qed.
Print Assumptions C13_tr_rows_forward.

Theorem C13_tr_rows_backward : forall (ext : nat -> list val -> mem -> res (val * mem)) (F D : nat) (m1 : mem) (lb bln : nat)
    (lbs : list nat) (lines : list bytes) (boffs br bo bl kb : nat) (ko : Z) (rb : nat) (ro : Z)
    (find : bytes -> bool -> option (nat * nat)) (dir : Z) (r0 o0 : nat),
  lbuf_at m1 lb bln lbs lines -> lines_small lines -> length lines + maxlen lines + 4 < F -> lines_fit lines ->
  find_wf find -> dir_ok dir -> NoDup [boffs; br; bo; bl] ->
  (forall k, In k [boffs; br; bo; bl] -> ~ In k (lb :: bln :: lbs)) -> (forall k, In k [boffs; br; bo; bl] -> k < length m1) ->
  find_ans ext F D m1 lbs lines boffs br bo bl rb ro find ->
  dir = (-1)%Z ->
  forall (i : nat) (m : mem) (c : list val) (r o : Z) (vl : val) (fuel : nat) (sv voff vbeg : val),
  i <= r0 -> i < length lines -> i + maxlen lines + 4 < fuel -> length c = 2 -> smem m1 boffs br bo bl m c r o vl ->
  exists (m' : mem) (c' : list val) (i' found' : Z) (sv' voff' vbeg' : val),
    exec (callx ext cprog F (S (S (S D)))) fuel srch_for
      (mkst (lst lb boffs br bo bl kb ko rb ro dir r0 o0 (Z.of_nat i) 0%Z sv voff vbeg) m)
    = ONormal (mkst (lst lb boffs br bo bl kb ko rb ro dir r0 o0 i' found' sv' voff' vbeg') m') /\
    length c' = 2 /\
    match bwd_rows (fm_of find) (rev (firstn (S i) lines)) i (if i =? r0 then Some o0 else None) with
    | SFound rr oo ll => found' = 1%Z /\ smem m1 boffs br bo bl m' c' (Z.of_nat rr) (Z.of_nat oo) (VInt (Z.of_nat ll))
    | SNotFound => found' = 0%Z /\ smem m1 boffs br bo bl m' c' r o vl
    | _ => False
    end.
Proof. exact bwd_for_ok. Qed.
Print Assumptions C13_tr_rows_backward.

(* piece 4 -- the function.  For EVERY oracle whose rstr_find answers are described by `find`, every buffer in memory, every cursor
   (r0, o0) and both directions: after rstr_make returned the compiled pattern (rb, ro) and memory m1 (the memory of the call with
   the offs block appended at index length m; rstr_make may have allocated blocks behind it), the call hands rstr_free the memory mf
   = m1 with *r, *o, *len holding the row, offset and length of SearchDefs.lbuf_search_g when it says SFound and untouched otherwise,
   and returns 0 (SFound) / 1 with whatever memory rstr_free leaves.  Every load was inside its block (the result is Ok), no block
   of the buffer is written, the offs block is the only block the function itself allocates.  SOOB (cursor offset beyond the line)
   is excluded. *)
Theorem C13_tr_lbuf_search : forall ext F D m lb bln lbs lines br bo bl kb ko rb ro find dir r0 o0 xic vl m1,
  lbuf_at m lb bln lbs lines -> lines_small lines -> lines_fit lines -> length lines + maxlen lines + 4 < F ->
  find_wf find -> dir_ok dir -> (Z.of_nat r0 <= 2147483647)%Z -> (Z.of_nat o0 < 2147483647)%Z ->
  NoDup [br; bo; bl] -> (forall k, In k [br; bo; bl] -> ~ In k (lb :: bln :: lbs)) ->
  nth_error m br = Some [VInt (Z.of_nat r0)] -> nth_error m bo = Some [VInt (Z.of_nat o0)] -> nth_error m bl = Some [vl] ->
  cell_at m G_xic xic -> TrLbufBase.i32 xic ->
  ext X_rstr_make [VPtr kb ko; VInt (if (xic =? 0)%Z then 0 else 1)%Z] (m ++ [[VUndef; VUndef]]) = Ok (VPtr rb ro, m1) ->
  S (length m) <= length m1 -> (forall k, k <= length m -> nth_error m1 k = nth_error (m ++ [[VUndef; VUndef]]) k) ->
  find_ans ext F D m1 lbs lines (length m) br bo bl rb ro find ->
  let res := lbuf_search_g (fm_of find) lines (0 <? dir)%Z r0 o0 in
  res <> SOOB ->
  exists mf c, length c = 2 /\
    smem m1 (length m) br bo bl mf c (sres_r res (Z.of_nat r0)) (sres_o res (Z.of_nat o0)) (sres_l res vl) /\
    callx ext cprog F (S (S (S (S D)))) F_lbuf_search [VPtr lb 0%Z; VPtr kb ko; VInt dir; VPtr br 0%Z; VPtr bo 0%Z; VPtr bl 0%Z] m
    = (do (_, m') <- ext X_rstr_free [VPtr rb ro] mf; Ok (VInt (sres_ret res), m')).
Proof. exact tr_lbuf_search. Qed.
Print Assumptions C13_tr_lbuf_search.

(* rstr_make returned NULL: 1 at once, nothing written, rstr_free not called (the model: rcomp kw = false -> SNotFound) *)
Theorem C13_tr_lbuf_search_null : forall ext F D (m : mem) lb kb ko dir br bo bl r0 o0 xic m1,
  nth_error m br = Some [VInt r0] -> nth_error m bo = Some [VInt o0] -> TrLbufBase.i32 r0 -> TrLbufBase.i32 o0 ->
  cell_at m G_xic xic -> TrLbufBase.i32 xic ->
  ext X_rstr_make [VPtr kb ko; VInt (if (xic =? 0)%Z then 0 else 1)%Z] (m ++ [[VUndef; VUndef]]) = Ok (VInt 0%Z, m1) ->
  callx ext cprog F (S (S D)) F_lbuf_search [VPtr lb 0%Z; VPtr kb ko; VInt dir; VPtr br 0%Z; VPtr bo 0%Z; VPtr bl 0%Z] m = Ok (VInt 1%Z, m1).
Proof. exact tr_lbuf_search_null. Qed.
Print Assumptions C13_tr_lbuf_search_null.

(* non-vacuity, and the translated function RUN: the program's globals, a struct lbuf with the two lines "xab ab" / "ab", the
   cells *r *o *len, the pattern; the oracle TrSearch.ex_ext answers rstr_make with a struct rstr whose rs is NULL, so the
   TRANSLATED rstr_find (rstr.c) does the matching.  /ab from (0,0) lands on (0,1) len 2; ?ab from (1,0) on the LAST match of row 0,
   (0,4); ?^ from (1,0) passes the empty match at the cursor, takes the empty match at (0,0), steps one character and stops at the
   end of row 0 (no wrap): (0,0) len 0.  The model with the reference matcher says the same.  111 blocks afterwards = the 108 of
   the call + offs + the two of rstr_make. *)
Example C13_tr_runs :
  let l0 := [120; 97; 98; 32; 97; 98; 10]%N in let l1 := [97; 98; 10]%N in let ab := [97; 98]%N in
  ex_out (callx (ex_ext 0 ab) cprog 100 8 F_lbuf_search (ex_args 1) (ex_mem l0 l1 0 0 ab))
    = Ok (VInt 0%Z, Some [VInt 0%Z], Some [VInt 1%Z], Some [VInt 2%Z], length cglobals + 11) /\
  lbuf_search_g (fm_of (ref_rfind true ab)) [l0; l1] true 0 0 = SFound 0 1 2 /\
  ex_out (callx (ex_ext 0 ab) cprog 100 8 F_lbuf_search (ex_args (-1)) (ex_mem l0 l1 1 0 ab))
    = Ok (VInt 0%Z, Some [VInt 0%Z], Some [VInt 4%Z], Some [VInt 2%Z], length cglobals + 11) /\
  lbuf_search_g (fm_of (ref_rfind true ab)) [l0; l1] false 1 0 = SFound 0 4 2 /\
  ex_out (callx (ex_ext 1 []) cprog 100 8 F_lbuf_search (ex_args (-1)) (ex_mem l0 l1 1 0 [94]%N))
    = Ok (VInt 0%Z, Some [VInt 0%Z], Some [VInt 0%Z], Some [VInt 0%Z], length cglobals + 11) /\
  lbuf_search_g (fm_of (ref_rfind true [94]%N)) [l0; l1] false 1 0 = SFound 0 0 0 /\
  ex_out (callx (ex_ext 0 ab) cprog 100 8 F_lbuf_search (ex_args 1) (ex_mem l0 l1 1 0 ab))
    = Ok (VInt 1%Z, Some [VInt 1%Z], Some [VInt 0%Z], Some [VUndef], length cglobals + 11) /\
  lbuf_search_g (fm_of (ref_rfind true ab)) [l0; l1] true 1 0 = SNotFound /\
  lines_fit [l0; l1] /\ find_wf (ref_rfind true ab).
Proof.
  cbv zeta. repeat (split; [vm_compute; reflexivity|]). split.
  - apply Forall_cons; [|apply Forall_cons; [|apply Forall_nil]]; intros q Hq; cbn [length] in Hq;
      do 8 (destruct q as [|q]; [cbv; lia|]); lia.
  - intros t nb b e H. unfold ref_rfind, ref_find in H. cbn [rstr_simple] in H.
    change (rstr_simple [97; 98]%N) with (Some {| lbeg := false; wbeg := false; lit := [97; 98]%N; wend := false; lend := false |}) in H.
    pose proof (ref_literal_sound true [97; 98]%N _ None nb t b e eq_refl H) as [-> Ho].
    destruct Ho as [Ho _]. cbn [lit length] in *. split; lia.
Qed.

(* an observation on the C text (not a theorem about the model): on a line that ENDS inside a multi-byte character ("\xe4\n": the
   lead byte announces three bytes) the step after an empty match, off + uc_len(s + off) (fix 4913ce2), lands behind the terminator and
   the next test `s[off]` reads there: the checked semantics answers EOob where the model (which reads 0 beyond a line) says SFound.
   This is why C13_tr_lbuf_search assumes lines_fit. *)
Example C13_tr_truncated_character :
  let l0 := [228; 10]%N in let l1 := [97; 98; 10]%N in
  callx (ex_ext 1 []) cprog 100 8 F_lbuf_search (ex_args (-1)) (ex_mem l0 l1 1 0 [94]%N) = Err EOob /\
  lbuf_search_g (fm_of (ref_rfind true [94]%N)) [l0; l1] false 1 0 = SFound 0 0 0 /\ ~ lines_fit [l0; l1].
Proof.
  cbv zeta. split; [vm_compute; reflexivity|]. split; [vm_compute; reflexivity|].
  intro H. inversion H as [|? ? H0 _]; subst. specialize (H0 0 (Nat.le_0_l _)). cbv in H0. lia.
Qed.

(* ---------------------------------------------------------------------------------------------- *)
(* a literal pattern: no assumption about rstr_find is left.  When rstr_make answers with a struct rstr whose rs field is NULL (the
   pattern is ^? \<? literal \>? $?: TrRstr.rstr_block), the translated rstr_find does not reach the untranslated rset_find, and
   TrRstr.tr_rstr_find says what it computes (RstrDefs.rstr_find, the model C12 ties to its specification).  Composed with
   C13_tr_lbuf_search (coq/TrSearchLit.v): the scan AND the matching are those of the C text; only rstr_make / rstr_free are oracles. *)
From NV Require RstrDefs TrRstr TrSearchLit.

Theorem C13_tr_lbuf_search_literal : forall ext F D m lb bln lbs lines br bo bl kb ko rb bs lit ic lbg le wb we dir r0 o0 xic vl m1,
  lbuf_at m lb bln lbs lines -> lines_small lines -> lines_fit lines -> length lines + maxlen lines + 4 < F ->
  dir_ok dir -> (Z.of_nat r0 <= 2147483647)%Z -> (Z.of_nat o0 < 2147483647)%Z ->
  NoDup [br; bo; bl] -> (forall k, In k [br; bo; bl] -> ~ In k (lb :: bln :: lbs)) ->
  nth_error m br = Some [VInt (Z.of_nat r0)] -> nth_error m bo = Some [VInt (Z.of_nat o0)] -> nth_error m bl = Some [vl] ->
  cell_at m G_xic xic -> TrLbufBase.i32 xic ->
  ext X_rstr_make [VPtr kb ko; VInt (if (xic =? 0)%Z then 0 else 1)%Z] (m ++ [[VUndef; VUndef]]) = Ok (VPtr rb 0%Z, m1) ->
  S (length m) <= length m1 -> (forall k, k <= length m -> nth_error m1 k = nth_error (m ++ [[VUndef; VUndef]]) k) ->
  nth_error m1 rb = Some (TrRstr.rstr_block bs ic lbg le wb we) -> str_at m1 bs lit -> nonul lit ->
  length m < rb -> length m < bs ->
  CLiteTac.int_ok ic -> CLiteTac.int_ok lbg -> CLiteTac.int_ok le -> CLiteTac.int_ok wb -> CLiteTac.int_ok we ->
  length lit < F -> (Z.of_nat (length lit) <= 2147483647)%Z ->
  let find := TrSearchLit.find_lit (TrRstr.rs_of lit ic lbg le wb we) in
  let res := lbuf_search_g (fm_of find) lines (0 <? dir)%Z r0 o0 in
  res <> SOOB ->
  exists mf c, length c = 2 /\
    smem m1 (length m) br bo bl mf c (sres_r res (Z.of_nat r0)) (sres_o res (Z.of_nat o0)) (sres_l res vl) /\
    callx ext cprog F (S (S (S (S D)))) F_lbuf_search [VPtr lb 0%Z; VPtr kb ko; VInt dir; VPtr br 0%Z; VPtr bo 0%Z; VPtr bl 0%Z] m
    = (do (_, m') <- ext X_rstr_free [VPtr rb 0%Z] mf; Ok (VInt (sres_ret res), m')).
Proof. exact TrSearchLit.tr_lbuf_search_lit. Qed.
Print Assumptions C13_tr_lbuf_search_literal.

(* the matcher of that theorem is well-formed (so find_wf is not an assumption there), and it is the literal scan of rstr.c *)
Theorem C13_tr_literal_matcher_wf : forall rs, find_wf (TrSearchLit.find_lit rs).
Proof. exact TrSearchLit.find_lit_wf. Qed.
Print Assumptions C13_tr_literal_matcher_wf.

(* non-vacuity of C13_tr_lbuf_search_literal: its hypotheses hold of the memory, buffer and oracle that C13_tr_runs runs (pattern ab,
   ignorecase on: xic = 1), with the struct rstr and the literal in the two blocks rstr_make appends behind the offs block *)
Example C13_tr_literal_nonvacuous :
  let l0 := [120; 97; 98; 32; 97; 98; 10]%N in let l1 := [97; 98; 10]%N in let ab := [97; 98]%N in
  let m := ex_mem l0 l1 0 0 ab in let G := ex_G in
  let m1 := (m ++ [[VUndef; VUndef]]) ++ [TrRstr.rstr_block (G + 10) 1 0 0 0 0; cstr_block (zb ab)] in
  lbuf_at m G (G + 1) [G + 2; G + 3] [l0; l1] /\ lines_small [l0; l1] /\ lines_fit [l0; l1] /\
  NoDup [G + 4; G + 5; G + 6] /\ (forall k, In k [G + 4; G + 5; G + 6] -> ~ In k (G :: (G + 1) :: [G + 2; G + 3])) /\
  nth_error m (G + 4) = Some [VInt (Z.of_nat 0)] /\ nth_error m (G + 5) = Some [VInt (Z.of_nat 0)] /\ nth_error m (G + 6) = Some [VUndef] /\
  cell_at m G_xic 1%Z /\ length m = G + 8 /\
  ex_ext 0 ab X_rstr_make [VPtr (G + 7) 0%Z; VInt 1%Z] (m ++ [[VUndef; VUndef]]) = Ok (VPtr (G + 9) 0%Z, m1) /\
  nth_error m1 (G + 9) = Some (TrRstr.rstr_block (G + 10) 1 0 0 0 0) /\ str_at m1 (G + 10) ab /\ nonul ab /\
  (forall k, k <= length m -> nth_error m1 k = nth_error (m ++ [[VUndef; VUndef]]) k).
Proof.
  cbv zeta. split.
  { constructor.
    - eexists. split; [vm_compute; reflexivity|]. vm_compute. repeat split.
    - eexists. split; [vm_compute; reflexivity|]. split; [vm_compute; lia|]. intros i Hi. cbn [length] in Hi.
      destruct i as [|[|i]]; [vm_compute; reflexivity|vm_compute; reflexivity|lia].
    - reflexivity.
    - intros i Hi. cbn [length] in Hi. destruct i as [|[|i]]; [vm_compute; reflexivity|vm_compute; reflexivity|lia].
    - vm_compute. repeat constructor; cbn; intuition discriminate.
    - repeat constructor; unfold byte_ok; lia. }
  split. { split; [cbn; lia|]. repeat constructor; cbn; lia. }
  split. { apply Forall_cons; [|apply Forall_cons; [|apply Forall_nil]]; intros q Hq; cbn [length] in Hq;
           do 8 (destruct q as [|q]; [cbv; lia|]); lia. }
  split. { vm_compute. repeat constructor; cbn; intuition discriminate. }
  split. { vm_compute. intros k [<-|[<-|[<-|[]]]]; intuition discriminate. }
  repeat (split; [vm_compute; reflexivity|]).
  split. { repeat constructor; unfold byte_ok; lia. }
  intros k Hk. apply nth_error_app1. rewrite app_length. cbn [length]. lia.
Qed.

(* ---------------------------------------------------------------------------------------------- *)
(* round i/j (a): the literal scan of rstr.c examines EVERY start offset (coq/Search4Defs.v, Search4Props.v).
   qualifies ic sp prev s r: the literal of sp occurs at byte r of s (ASCII letters folded under ignorecase) and the word
   anchors sp carries hold there -- \< : no word byte in front of r (prev = the byte in front of the subject, None = nothing is
   seen, as the code calls the matcher on a line suffix) and a word byte at r; \> : a word byte in front of the end and none at it.
   The for loop returns the LEAST qualifying offset of its window and none only when none qualifies: an occurrence that fails
   its boundary test is not "stepped over" -- the next occurrence may begin inside it (aa in baaa, a-a in ba-a-a, abab in ababab). *)
From NV Require Import Search4Defs Search4Props.

Theorem C13_literal_scan_least : forall ic sp prev s cnt b,
  match SearchDefs.rstr_loop ic sp prev s b cnt with
  | Some (p, e) => b <= p < b + cnt /\ e = p + length (SearchDefs.lit sp) /\ qualifies ic sp prev s p /\
                   forall q, b <= q < p -> ~ qualifies ic sp prev s q
  | None => forall q, b <= q < b + cnt -> ~ qualifies ic sp prev s q
  end.
Proof. exact rstr_loop_least. Qed.
Print Assumptions C13_literal_scan_least.

(* rstr_find for a pattern  ^? \<? literal \>? $?  (with or without anchors, any left neighbour, any NOTBOL): the least candidate
   offset -- the occurrence ends before the last byte of the subject; with ^ only offset 0 where ^ holds, with $ only the
   offset whose occurrence ends there -- at which the literal qualifies; None exactly when no candidate qualifies.
   With C13_forward_first_row / C13_backward_last: the first match after / the last of the successive matches before the cursor. *)
Theorem C13_literal_least : forall ic kw sp prev notbol s, SearchDefs.rstr_simple kw = Some sp ->
  match ref_find ic kw prev notbol s with
  | Some (p, e) => e = p + length (SearchDefs.lit sp) /\ candidate sp prev notbol s p /\ qualifies ic sp prev s p /\
                   forall q, q < p -> candidate sp prev notbol s q -> ~ qualifies ic sp prev s q
  | None => forall q, candidate sp prev notbol s q -> ~ qualifies ic sp prev s q
  end.
Proof. exact ref_literal_least. Qed.
Print Assumptions C13_literal_least.

(* the same about the C TEXT: the matcher of C13_tr_lbuf_search_literal (TrSearchLit.find_lit rs = what the translated rstr_find
   computes, TrRstr.tr_rstr_find) returns the least offset of the line at which the anchored literal is satisfied (RstrDefs.sat_b,
   the declarative reading C12 uses), for every struct rstr, line and NOTBOL (coq/TrSearchLit2.v, from RstrProps.equiv_spec) *)
From NV Require TrSearchLit2.
Theorem C13_tr_literal_least : forall rs content nb,
  ~ In 0%N content -> ~ In 10%N content -> ~ In 10%N (RstrDefs.r_str rs) ->
  let L := content ++ [10%N] in
  match TrSearchLit.find_lit rs L nb with
  | Some (p, e) => p <= length content /\ e = p + length (RstrDefs.r_str rs) /\
                   RstrDefs.sat_b (RstrDefs.spat_of rs) (RstrDefs.r_icase rs) nb L p = true /\
                   forall q, q < p -> RstrDefs.sat_b (RstrDefs.spat_of rs) (RstrDefs.r_icase rs) nb L q = false
  | None => forall q, q <= length content -> RstrDefs.sat_b (RstrDefs.spat_of rs) (RstrDefs.r_icase rs) nb L q = false
  end.
Proof. exact TrSearchLit2.find_lit_least. Qed.
Print Assumptions C13_tr_literal_least.

(* non-vacuity: aa\> on "baaa aa": the occurrence at byte 1 fails \> (an a follows), the one at byte 2 -- inside it -- qualifies and
   is the answer, not the isolated aa at 5;  \<a-a on "ba-a-a": 1 fails \< (b in front), 3 qualifies;  and through the whole model:
   /aa\> from the top of  start | baaa aa  lands on (1,2);  ?aa\> from  end  below  aa baaa  on the LAST match (0,5);
   2/abab\> over  xx ababab abab  on (0,10) *)
Example C13_nonvacuous_overlap :
  let aaw := [97; 97; 92; 62]%N in let baaa := [98; 97; 97; 97; 32; 97; 97; 10]%N in
  (exists sp, SearchDefs.rstr_simple aaw = Some sp /\ SearchDefs.wend sp = true /\
     qualifiesb true sp None baaa 1 = false /\ occurs_atb true (SearchDefs.lit sp) baaa 1 = true /\ qualifiesb true sp None baaa 2 = true) /\
  ref_find true aaw None false baaa = Some (2, 4) /\
  ref_find true [92; 60; 97; 45; 97]%N None false [98; 97; 45; 97; 45; 97; 10]%N = Some (3, 6) /\
  ref_run true sstate0 [[115; 116; 97; 114; 116; 10]%N; baaa] [(CSlash aaw, 1)] 0 0 = [(true, (1, 2))] /\
  ref_run true sstate0 [[97; 97; 32; 98; 97; 97; 97; 10]%N; [101; 110; 100; 10]%N] [(CQuest aaw, 1)] 1 0 = [(true, (0, 5))] /\
  ref_run true sstate0 [[120; 120; 32; 97; 98; 97; 98; 97; 98; 32; 97; 98; 97; 98; 10]%N] [(CSlash [97; 98; 97; 98; 92; 62]%N, 2)] 0 0 = [(true, (0, 10))].
Proof. cbv zeta. split; [eexists; split; [reflexivity|]; vm_compute; repeat split; reflexivity|]. vm_compute. repeat split; reflexivity. Qed.

(* ---------------------------------------------------------------------------------------------- *)
(* round i/j (b): what a search can inherit from the searches before it.
   The session state of the model is sstate = (last pattern kwd, direction kdir, line offset soset/so); the code has one more
   variable that survives between searches: the file-static flag re_bad of regex.c, written by the parser and read by regcomp
   (coq/ReStateDefs.v threads it through rset_make -> regcomp -> the parser; C10 proves the compile chain answers as the pure
   function whatever the flag was).  lbuf_search compiles its pattern on every call, so a session of search commands is a
   sequence of compilations. *)

(* a / or ? command that carries a pattern of its own: outcome, landing position and the state it leaves do not depend on
   the state before it -- they are functions of (text, cursor, typed text, count, matcher) *)
Theorem C13_prompt_forgets : forall fmk rcomp st st' lb cmd cnt xrow xoff, carries_pattern cmd = true ->
  search_cmd fmk rcomp st lb cmd cnt xrow xoff = search_cmd fmk rcomp st' lb cmd cnt xrow xoff.
Proof. exact prompt_forgets. Qed.
Print Assumptions C13_prompt_forgets.

(* two arbitrary histories (any initial states, any commands, any start) that leave the cursor at the same place: from a
   command that carries its pattern on, the results of the rest of the session are the same *)
Theorem C13_history_irrelevant : forall fmk rcomp lb h1 h2 st1 st2 x1 y1 x2 y2 cmd n rest, carries_pattern cmd = true ->
  snd (state_after fmk rcomp st1 lb h1 x1 y1) = snd (state_after fmk rcomp st2 lb h2 x2 y2) ->
  skipn (length h1) (run_cmds fmk rcomp st1 lb (h1 ++ (cmd, n) :: rest) x1 y1) =
  skipn (length h2) (run_cmds fmk rcomp st2 lb (h2 ++ (cmd, n) :: rest) x2 y2).
Proof. exact history_irrelevant. Qed.
Print Assumptions C13_history_irrelevant.

(* a history of FAILED commands (malformed patterns, patterns without a match, bad offsets) is invisible: the command that
   carries its pattern, and everything after it, run as in a fresh session started at the same cursor *)
Theorem C13_failed_history_invisible : forall fmk rcomp lb hist st xrow xoff cmd n rest, carries_pattern cmd = true ->
  Forall (fun x => fst x = false) (run_cmds fmk rcomp st lb hist xrow xoff) ->
  run_cmds fmk rcomp st lb (hist ++ (cmd, n) :: rest) xrow xoff =
  run_cmds fmk rcomp st lb hist xrow xoff ++ run_cmds fmk rcomp sstate0 lb ((cmd, n) :: rest) xrow xoff.
Proof. exact failed_history_invisible. Qed.
Print Assumptions C13_failed_history_invisible.

(* the compile chain of the code -- fast path of rstr_make, else rset_make -> regcomp("((kw))") with the flag threaded and
   "re_bad = 0;" on entry -- answers as the pure function, whatever the flag was *)
Theorem C13_compile_flag_free : forall ic kw fl, fst (code_rcomp_st ic kw fl) = code_rcomp ic kw.
Proof. exact code_rcomp_flag_free. Qed.
Print Assumptions C13_compile_flag_free.

(* the session with the flag (run_cmds_st: SearchDefs.run_cmds with the flag handed from every compilation to the next): for every
   matcher, text, cursor, initial search state, EVERY sequence of / ? n N ^A commands with counts and every value of the flag at
   the start, outcomes and landing positions are those of the flag-free model -- so every theorem above applies to every search
   of a session, whatever was compiled and rejected before it *)
Theorem C13_session_flag_free : forall fmk ic lb cmds st xrow xoff fl,
  fst (run_cmds_st fmk (code_rcomp_st ic) st lb cmds xrow xoff fl) = run_cmds fmk (code_rcomp ic) st lb cmds xrow xoff.
Proof. exact session_flag_free. Qed.
Print Assumptions C13_session_flag_free.

(* non-vacuity:  a{3,2}  a{200}  (|)  are rejected by the parser of regex.c,  (a  by re_groupcount of rset.c,  b.d  compiles;
   /a{3,2} then /b.d from the top of  start | xx abd | b-d here : the first fails in place, the second lands on (2,0), also when
   the session starts with the flag set;  and the statement is about "re_bad = 0;" on entry: with the flag cleared where it is
   consumed instead (code_rcomp_gen false), the valid search after the malformed one fails -- the cursor stays at (0,0) *)
Example C13_nonvacuous_history :
  let lb := [[115; 116; 97; 114; 116; 10]%N; [120; 120; 32; 97; 98; 100; 10]%N; [98; 45; 100; 32; 104; 101; 114; 101; 10]%N] in
  let fm := fm_suffix (ref_rfind true) in
  let cmds := [(CSlash [97; 123; 51; 44; 50; 125]%N, 1); (CSlash [98; 46; 100]%N, 1)] in
  code_rcomp true [97; 123; 51; 44; 50; 125]%N = false /\ code_rcomp true [97; 123; 50; 48; 48; 125]%N = false /\ code_rcomp true [40; 124; 41]%N = false /\
  code_rcomp true [40; 97]%N = false /\ code_rcomp true [98; 46; 100]%N = true /\
  fst (run_cmds_st fm (code_rcomp_st true) sstate0 lb cmds 0 0 true) = [(false, (0, 0)); (true, (2, 0))] /\
  run_cmds fm (code_rcomp true) sstate0 lb cmds 0 0 = [(false, (0, 0)); (true, (2, 0))] /\
  fst (run_cmds_st fm (code_rcomp_gen false true) sstate0 lb cmds 0 0 false) = [(false, (0, 0)); (false, (0, 0))] /\
  carries_pattern (CSlash [98; 46; 100]%N) = true /\
  Forall (fun x => fst x = false) (run_cmds fm (code_rcomp true) sstate0 lb [(CSlash [97; 123; 51; 44; 50; 125]%N, 1)] 0 0).
Proof. cbv zeta. repeat (split; [vm_compute; reflexivity|]). vm_compute. repeat constructor. Qed.

(* ---------------------------------------------------------------------------------------------- *)
(* COMPOSITION (coq/TrCmp13.v): nothing of the search is left on an oracle, literal path.  C13_tr_lbuf_search_literal is relative to what
   rstr_make answers and to rstr_free (calls on the extern indices X_rstr_make / X_rstr_free: `@extern mot.c rstr_make / rstr_free`).  Here
   the call semantics answers them with THE TRANSLATED rstr_make / rstr_free of rstr.c (TrCmp13.ext_is_make, ext_is_free; ext_link13 is the
   smallest such semantics).  For every keyword string (any offset ko into a NUL-free C string) that the classifier of rstr.c accepts
   ([^][\<]literal[\>][$]; ignore-case from xic), every buffer, direction and start position: the call of the translated lbuf_search
   returns what the model lbuf_search_g returns with the matcher TrSearchLit.find_lit rs -- by C13_tr_literal_least the LEAST offset of
   the searched rest at which the anchored literal holds, so by C13_forward_first_row / C13_backward_last the first match after / the last
   match before the cursor --, *row / *off / *len hold the model's position, every block of the caller other than those three is
   untouched, and of the four blocks the call allocated (offs[2], the cell of rstr_make's parameter, the struct rstr, the literal) the
   struct and the literal are freed.  Side conditions: those of C13_tr_lbuf_search (lines_small, lines_fit, sizes inside int, fuel
   F > |lines| + maxlen + 4 and > |keyword|), fuel of rstr_make > |keyword|, keyword < 2^31 - 1 bytes; the model's SOOB is excluded.
   No oracle hypothesis of TrSearch.v turned out false of the real functions (TrSearch.find_ans speaks about the memories of one scan,
   the rstr_make hypothesis about one call on one explicit memory) -- unlike TrSubst.find_oracle, see Properties_C14.v. *)
From NV Require TrRstrMake TrCmp13.

Theorem C13_tr_search_literal_full : forall ext F D fuelM dM fuelR dR (m : mem) lb bln lbs lines br bo bl kb (kw : bytes) (ko : nat) rs dir r0 o0 xic vl,
  TrCmp13.ext_is_make ext fuelM dM -> TrCmp13.ext_is_free ext fuelR dR ->
  lbuf_at m lb bln lbs lines -> lines_small lines -> lines_fit lines -> length lines + maxlen lines + 4 < F ->
  dir_ok dir -> (Z.of_nat r0 <= 2147483647)%Z -> (Z.of_nat o0 < 2147483647)%Z ->
  NoDup [br; bo; bl] -> (forall k, In k [br; bo; bl] -> ~ In k (lb :: bln :: lbs)) ->
  nth_error m br = Some [VInt (Z.of_nat r0)] -> nth_error m bo = Some [VInt (Z.of_nat o0)] -> nth_error m bl = Some [vl] ->
  cell_at m G_xic xic -> TrLbufBase.i32 xic ->
  let flg := (if (xic =? 0)%Z then 0 else 1)%Z in
  let ic := TrRstr.nz (Z.land flg GenConsts.RE_ICASE) in
  str_at m kb kw -> nonul kw -> ko <= length kw -> nth_error m TrRstrMake.G_meta = Some TrRstrMake.gb_meta ->
  (Z.of_nat (length kw) < 2147483647)%Z -> length kw < fuelM -> length kw < F ->
  RstrDefs.rstr_simple ic (skipn ko kw) = Some rs ->
  let find := TrSearchLit.find_lit rs in
  let res := lbuf_search_g (fm_of find) lines (0 <? dir)%Z r0 o0 in
  res <> SOOB ->
  let rb := S (S (length m)) in
  exists mf c, length c = 2 /\
    callx ext cprog F (S (S (S (S D)))) F_lbuf_search [VPtr lb 0%Z; VPtr kb (Z.of_nat ko); VInt dir; VPtr br 0%Z; VPtr bo 0%Z; VPtr bl 0%Z] m
    = Ok (VInt (sres_ret res), upd (upd mf (S rb) []) rb []) /\
    length mf = length m + 4 /\
    nth_error mf br = Some [VInt (sres_r res (Z.of_nat r0))] /\ nth_error mf bo = Some [VInt (sres_o res (Z.of_nat o0))] /\
    nth_error mf bl = Some [sres_l res vl] /\ nth_error mf (length m) = Some c /\
    (forall k, k < length m -> k <> br -> k <> bo -> k <> bl -> nth_error mf k = nth_error m k).
Proof. exact TrCmp13.tr_lbuf_search_literal_full. Qed.
Print Assumptions C13_tr_search_literal_full.

(* non-vacuity: lbuf_search RUNS with rstr_make, rstr_find, rstr_free all the translated C text (ext_link13: no oracle that knows
   anything about patterns): the memory of C13_tr_runs (two lines "xab ab" / "ab", ignorecase on), keyword "ab": /ab from (0,0) lands on
   (0,1) len 2; ?ab from (1,0) on the LAST match of row 0, (0,4); keyword "\<ab" over "xxab ab": /\<ab from (0,0) skips the occurrence inside "xxab" and
   lands on (0,5); keyword "^ab$": (1,0) len 2; 112 blocks afterwards = the 108 of the call + offs + the three of rstr_make.  The model
   with the matcher of the theorem says the same, and the link semantics is one (ext_link13_ok). *)
Example C13_tr_search_linked_runs :
  let l0 := [120; 97; 98; 32; 97; 98; 10]%N in let l1 := [97; 98; 10]%N in let ab := [97; 98]%N in let l2 := [120; 120; 97; 98; 32; 97; 98; 10]%N in
  let ext := TrCmp13.ext_link13 100 6 100 6 in
  ex_out (callx ext cprog 100 8 F_lbuf_search (ex_args 1) (ex_mem l0 l1 0 0 ab))
    = Ok (VInt 0%Z, Some [VInt 0%Z], Some [VInt 1%Z], Some [VInt 2%Z], length cglobals + 12) /\
  lbuf_search_g (fm_of (TrSearchLit.find_lit (RstrDefs.mk_rstr ab true false false false false))) [l0; l1] true 0 0 = SFound 0 1 2 /\
  ex_out (callx ext cprog 100 8 F_lbuf_search (ex_args (-1)) (ex_mem l0 l1 1 0 ab))
    = Ok (VInt 0%Z, Some [VInt 0%Z], Some [VInt 4%Z], Some [VInt 2%Z], length cglobals + 12) /\
  ex_out (callx ext cprog 100 8 F_lbuf_search (ex_args 1) (ex_mem l2 l1 0 0 [92; 60; 97; 98]%N))
    = Ok (VInt 0%Z, Some [VInt 0%Z], Some [VInt 5%Z], Some [VInt 2%Z], length cglobals + 12) /\
  lbuf_search_g (fm_of (TrSearchLit.find_lit (RstrDefs.mk_rstr ab true false false true false))) [l2; l1] true 0 0 = SFound 0 5 2 /\
  ex_out (callx ext cprog 100 8 F_lbuf_search (ex_args 1) (ex_mem l0 l1 0 0 [94; 97; 98; 36]%N))
    = Ok (VInt 0%Z, Some [VInt 1%Z], Some [VInt 0%Z], Some [VInt 2%Z], length cglobals + 12) /\
  RstrDefs.rstr_simple true [92; 60; 97; 98]%N = Some (RstrDefs.mk_rstr ab true false false true false) /\
  TrCmp13.ext_is_make ext 100 6 /\ TrCmp13.ext_is_free ext 100 6.
Proof. cbv zeta. do 7 (split; [vm_compute; reflexivity|]). exact (TrCmp13.ext_link13_ok 100 6 100 6). Qed.
