(* TrRepeat3.v -- C09: the repeat command of vi.c as C TEXT: vc_repeat (the `.` command).
     push_step      one term_push(s, n) (coq/TrTerm.v: tr_term_push) moves the key source as push_m says: min(n, sizeof(ibuf) - ibuf_cnt) cells
                    of s in front of the unread keys -- what does not fit is dropped without notice (the clip of the C text);
     tr_vc_repeat   vc_repeat() = MAX(1, vi_arg1) calls term_push(rep_cmd, rep_len): the source afterwards is push_n_m (max 1 vi_arg1)
                    (the rep_len recorded cells) -- for EVERY count, also when the copies do not fit;
     push_n_keys    when they fit (max(1, N) * rep_len <= sizeof(ibuf) - ibuf_cnt) the keys vi_read() delivers afterwards are the recorded
                    keys max(1, N) times, then the keys that were pending: `N.` = retyping N times;
     push_n_clipped when they do not fit, exactly sizeof(ibuf) - ibuf_cnt keys of the N-fold text are delivered: the tail is lost
                    (seen on the binary: x then 4096. deletes 4096 characters where retyping deletes 4097; design.d/C09.md). *)
From Coq Require Import List ZArith NArith Bool Lia.
From NV Require Import Bytes GenConsts CLite CLiteProps GenCFuncs CLiteTac CLiteExt TrTerm TrRepeat.
Import ListNotations.
Local Open Scope Z_scope.

(* ------------------------------------------------------------------ the model of term_push on the source *)
Definition push_m (cells : list val) (s : src) : src :=
  let k := Z.min (Z.of_nat (length cells)) (IBUFSZ - s_cnt s) in
  mkSrc (s_stk s) (s_pos s) (s_cnt s + k) (push_block (s_ib s) (s_pos s) (s_cnt s) (firstn (Z.to_nat k) cells))
        (s_ip s) (s_ic s) (s_tin s).
Fixpoint push_n_m (n : nat) (cells : list val) (s : src) : src :=
  match n with O => s | S k => push_n_m k cells (push_m cells s) end.

Lemma keeps_cell kt m m' g x : keeps kt m m' -> ~ src_block kt g -> nth_error m g = Some x -> nth_error m' g = Some x.
Proof. intros [_ K] Hn H. rewrite K; [exact H| |exact Hn]. apply nth_error_Some. congruence. Qed.

Lemma chars_ok_app a b : chars_ok a -> chars_ok b -> chars_ok (a ++ b).
Proof. intros Ha Hb. apply Forall_app. split; assumption. Qed.
Lemma chars_ok_firstn a n : chars_ok a -> chars_ok (firstn n a).
Proof. apply Forall_firstn'. Qed.

Theorem push_step ext kt m s bs os sblk n d fuel :
  kt_fresh kt -> src_at kt m s -> nth_error m bs = Some sblk -> ~ src_block kt bs ->
  0 <= n <= 2147483647 -> 0 <= os -> os + n <= Z.of_nat (length sblk) ->
  chars_ok (firstn (Z.to_nat n) (skipn (Z.to_nat os) sblk)) ->
  exists m', callx ext cprog fuel (S d) F_term_push [VPtr bs os; VInt n] m = Ok (VUndef, m') /\
             src_at kt m' (push_m (firstn (Z.to_nat n) (skipn (Z.to_nat os) sblk)) s) /\ keeps kt m m'.
Proof.
  intros Hf Hs Hb Hnb Hn Hos Hsl Hch. destruct s as [stk pos cnt ib ip ic tin].
  open_src Hs. open_fresh Hf. cbn [s_stk s_pos s_cnt s_ib s_ip s_ic s_tin] in *.
  assert (Nb : bs <> G_ibuf) by (intro E; apply Hnb; unfold src_block; tauto).
  set (cells := firstn (Z.to_nat n) (skipn (Z.to_nat os) sblk)) in *.
  assert (Hcl : length cells = Z.to_nat n) by (unfold cells; rewrite firstn_length, skipn_length; lia).
  set (k := Z.min n (IBUFSZ - cnt)).
  assert (Hk : 0 <= k <= n /\ cnt + k <= IBUFSZ) by (unfold k; lia).
  assert (Hfc : firstn (Z.to_nat k) cells = firstn (Z.to_nat k) (skipn (Z.to_nat os) sblk))
    by (unfold cells; rewrite firstn_firstn; f_equal; lia).
  set (src := firstn (Z.to_nat k) cells) in *.
  assert (Hsl' : length src = Z.to_nat k) by (unfold src; rewrite firstn_length; lia).
  exists (upd (upd m G_ibuf (push_block ib pos cnt src)) G_ibuf_cnt [VInt (cnt + k)]).
  split.
  { apply callx_mono. rewrite Hfc. apply (tr_term_push m pos cnt ib bs os sblk n d fuel); assumption. }
  split; [|repeat apply keeps_upd; try apply keeps_refl; unfold src_block; tauto].
  unfold push_m. cbn [s_stk s_pos s_cnt s_ib s_ip s_ic s_tin]. rewrite Hcl, Z2Nat.id by lia. fold k. fold src.
  unfold src_at, term_at, tin_at. cbn [s_stk s_pos s_cnt s_ib s_ip s_ic s_tin].
  assert (Hur : unread pos (cnt + k) (push_block ib pos cnt src) = src ++ unread pos cnt ib).
  { replace k with (Z.of_nat (length src)) by lia. apply unread_push_block; lia. }
  repeat split; try assumption; try lia; try blk.
  - exists vb. repeat split; try assumption; try lia; blk.
  - rewrite push_block_length by lia. exact Tlen.
  - rewrite Hur. apply chars_ok_app; [apply chars_ok_firstn; exact Hch|exact C].
Qed.

(* ------------------------------------------------------------------ vc_repeat *)
Definition repeat_for : stmt := match fn_body cf_vc_repeat with SSeq _ f => f | _ => SSkip end.

Section Repeat.
Variable ext : oracle.
Variable kt : nat.
Hypothesis Hfresh : kt_fresh kt.
Variables (a1 rl : Z) (rb : block).
Hypothesis Ha1 : -2147483648 <= a1 <= 2147483647.
Hypothesis Hrl : 0 <= rl <= Z.of_nat (length rb).
Hypothesis Hrl2 : rl <= 2147483647.
Hypothesis Hch : chars_ok (firstn (Z.to_nat rl) rb).
Hypothesis Hn1 : ~ src_block kt G_vi_arg1.
Hypothesis Hn2 : ~ src_block kt G_rep_len.
Hypothesis Hn3 : ~ src_block kt G_rep_cmd.
Let N := Z.max 1 a1.
Let cells := firstn (Z.to_nat rl) rb.

Lemma repeat_loop_ok d fuelc : forall k i s m fuel',
  i + Z.of_nat k = N -> 0 <= i -> src_at kt m s ->
  cell_at m G_vi_arg1 a1 -> cell_at m G_rep_len rl -> nth_error m G_rep_cmd = Some rb -> (k < fuel')%nat ->
  exists m', exec (callx ext cprog fuelc (S d)) fuel' repeat_for (mkst [VInt i] m) = ONormal (mkst [VInt N] m') /\
             src_at kt m' (push_n_m k cells s) /\ keeps kt m m'.
Proof.
  induction k as [|k IH]; intros i s m fuel' Hi Hi0 Hs Ha Hl Hb Hf; (destruct fuel' as [|fuel']; [lia|]).
  - unfold repeat_for. cbn [fn_body cf_vc_repeat]. rewrite exec_for. xstep.
    rewrite (load_cell m G_vi_arg1 a1 Ha). xstep. rewrite (wrap_I32_id a1) by lia.
    assert (Hm : (if 1 <? a1 then a1 else 1) = N) by (unfold N; destruct (Z.ltb_spec 1 a1); lia).
    destruct (Z.ltb_spec 1 a1); xstep;
      [rewrite (load_cell m G_vi_arg1 a1 Ha); xstep; rewrite (wrap_I32_id a1) by lia; destruct (Z.ltb_spec i a1)
      |destruct (Z.ltb_spec i 1)]; try lia; xstep;
      exists m; (split; [replace i with N by lia; reflexivity|]); (split; [exact Hs|apply keeps_refl]).
  - unfold repeat_for. cbn [fn_body cf_vc_repeat]. rewrite exec_for. xstep.
    rewrite (load_cell m G_vi_arg1 a1 Ha). xstep. rewrite (wrap_I32_id a1) by lia.
    destruct (push_step ext kt m s G_rep_cmd 0 rb rl d fuelc Hfresh Hs Hb Hn3 ltac:(lia) ltac:(lia) ltac:(lia) Hch)
      as (m1 & Hc1 & Hs1 & Hk1). change (Z.to_nat 0) with 0%nat in Hs1. cbn [skipn] in Hs1. fold cells in Hs1.
    assert (Ha' : cell_at m1 G_vi_arg1 a1) by (exact (keeps_cell _ _ _ _ _ Hk1 Hn1 Ha)).
    assert (Hl' : cell_at m1 G_rep_len rl) by (exact (keeps_cell _ _ _ _ _ Hk1 Hn2 Hl)).
    assert (Hb' : nth_error m1 G_rep_cmd = Some rb) by (exact (keeps_cell _ _ _ _ _ Hk1 Hn3 Hb)).
    destruct (IH (i + 1) (push_m cells s) m1 fuel' ltac:(lia) ltac:(lia) Hs1 Ha' Hl' Hb' ltac:(lia)) as (m2 & He & Hs2 & Hk2).
    unfold repeat_for in He. cbn [fn_body cf_vc_repeat] in He.
    destruct (Z.ltb_spec 1 a1); xstep;
      [rewrite (load_cell m G_vi_arg1 a1 Ha); xstep; rewrite (wrap_I32_id a1) by lia; destruct (Z.ltb_spec i a1)
      |destruct (Z.ltb_spec i 1)]; try lia; xstep;
      rewrite (load_cell m G_rep_len rl Hl); xstep; rewrite (wrap_I32_id rl) by lia; rewrite Hc1; xstep;
      rewrite (chk_I32 (i + 1)) by lia; xstep; rewrite He;
      exists m2; (split; [reflexivity|]); (split; [exact Hs2|eapply keeps_trans; eassumption]).
Qed.

Theorem tr_vc_repeat m s d fuel : src_at kt m s ->
  cell_at m G_vi_arg1 a1 -> cell_at m G_rep_len rl -> nth_error m G_rep_cmd = Some rb -> (Z.to_nat N < fuel)%nat ->
  exists m', callx ext cprog fuel (S (S d)) F_vc_repeat [] m = Ok (VUndef, m') /\
             src_at kt m' (push_n_m (Z.to_nat N) cells s) /\ keeps kt m m'.
Proof.
  intros Hs Ha Hl Hb Hf. enterx F_vc_repeat cf_vc_repeat. xstep.
  destruct (repeat_loop_ok d fuel (Z.to_nat N) 0 s m fuel ltac:(unfold N; lia) ltac:(lia) Hs Ha Hl Hb Hf) as (m' & He & Hs' & Hk').
  unfold repeat_for in He. cbn [fn_body cf_vc_repeat] in He. rewrite He. exists m'. split; [reflexivity|]. split; assumption.
Qed.
End Repeat.

(* ------------------------------------------------------------------ what vi_read() delivers after the pushes *)
Definition src_ok (s : src) : Prop := 0 <= s_pos s <= s_cnt s /\ s_cnt s <= IBUFSZ /\ Z.of_nat (length (s_ib s)) = IBUFSZ.
Lemma src_at_ok kt m s : src_at kt m s -> src_ok s.
Proof. intros (_ & (_ & _ & _ & Hl & Hp & Hc & _) & _). repeat split; try assumption; lia. Qed.
Definition rest_keys (s : src) : list Z := map cell_key (unread (s_pos s) (s_cnt s) (s_ib s)) ++ s_tin s.
Fixpoint rpt {A} (n : nat) (l : list A) : list A := match n with O => [] | S k => l ++ rpt k l end.
Lemma rpt_comm {A} n (l : list A) : rpt n l ++ l = l ++ rpt n l.
Proof. induction n as [|n IH]; cbn [rpt]; [rewrite app_nil_r; reflexivity|]. rewrite <- app_assoc, IH. reflexivity. Qed.

(* one push: the clipped cells stand in front of the unread keys *)
Lemma push_m_keys cells s : src_ok s ->
  let k := Z.min (Z.of_nat (length cells)) (IBUFSZ - s_cnt s) in
  rest_keys (push_m cells s) = map cell_key (firstn (Z.to_nat k) cells) ++ rest_keys s /\ src_ok (push_m cells s) /\
  s_stk (push_m cells s) = s_stk s /\ s_cnt (push_m cells s) = s_cnt s + k.
Proof.
  intros (Hp & Hc & Hl) k. assert (Hk : 0 <= k /\ s_cnt s + k <= IBUFSZ) by (unfold k; lia).
  set (src := firstn (Z.to_nat k) cells).
  assert (Hsl : length src = Z.to_nat k) by (unfold src; rewrite firstn_length; lia).
  unfold rest_keys, push_m, src_ok. cbn [s_stk s_pos s_cnt s_ib s_tin]. fold k. fold src.
  replace (s_cnt s + k) with (s_cnt s + Z.of_nat (length src)) by lia.
  rewrite unread_push_block by lia. rewrite map_app, <- app_assoc.
  repeat split; try lia. rewrite push_block_length by lia. exact Hl.
Qed.

(* N pushes that fit: the cells N times, then what was pending -- `N.` / `N@r` = the keys typed N times *)
Theorem push_n_keys cells : forall n s, src_ok s -> Z.of_nat n * Z.of_nat (length cells) <= IBUFSZ - s_cnt s ->
  keys (push_n_m n cells s) = s_stk s ++ rpt n (map cell_key cells) ++ rest_keys s.
Proof.
  induction n as [|n IH]; intros s Hok Hfit; [reflexivity|]. cbn [push_n_m rpt]. rewrite Nat2Z.inj_succ, Z.mul_succ_l in Hfit.
  destruct (push_m_keys cells s Hok) as (Hr & Hok1 & Hst & Hcn). cbv zeta in Hr, Hcn.
  assert (Hpos : 0 <= Z.of_nat n * Z.of_nat (length cells)) by nia.
  assert (Hk : Z.min (Z.of_nat (length cells)) (IBUFSZ - s_cnt s) = Z.of_nat (length cells)) by lia.
  rewrite Hk in Hr, Hcn. rewrite Nat2Z.id, firstn_all in Hr.
  rewrite IH; [|exact Hok1|rewrite Hcn; lia]. rewrite Hst, Hr. rewrite <- !app_assoc. f_equal.
  rewrite !app_assoc. f_equal. apply rpt_comm.
Qed.

(* pushes that do NOT fit: the queue is full afterwards and holds exactly sizeof(ibuf) - ibuf_cnt of the pushed cells -- fewer than
   N copies: the tail of the repetition is dropped *)
Theorem push_n_clipped cells : forall n s, src_ok s -> IBUFSZ - s_cnt s < Z.of_nat n * Z.of_nat (length cells) ->
  s_cnt (push_n_m n cells s) = IBUFSZ /\
  Z.of_nat (length (rest_keys (push_n_m n cells s))) = Z.of_nat (length (rest_keys s)) + (IBUFSZ - s_cnt s).
Proof.
  induction n as [|n IH]; intros s Hok Hfit; [destruct Hok as (? & ? & ?); change (Z.of_nat 0) with 0 in Hfit; rewrite Z.mul_0_l in Hfit; lia|]. cbn [push_n_m]. rewrite Nat2Z.inj_succ, Z.mul_succ_l in Hfit.
  destruct (push_m_keys cells s Hok) as (Hr & Hok1 & Hst & Hcn). cbv zeta in Hr, Hcn.
  set (k := Z.min (Z.of_nat (length cells)) (IBUFSZ - s_cnt s)) in *.
  pose proof Hok as (Hp0 & Hc0 & Hl0). pose proof Hok1 as (Hp1 & Hc1 & Hl1).
  assert (Hlen1 : Z.of_nat (length (rest_keys (push_m cells s))) = Z.of_nat (length (rest_keys s)) + k).
  { rewrite Hr, app_length, map_length, firstn_length. unfold k. lia. }
  destruct (Z.lt_ge_cases (IBUFSZ - s_cnt (push_m cells s)) (Z.of_nat n * Z.of_nat (length cells))) as [Hlt|Hge].
  - destruct (IH _ Hok1 Hlt) as [E1 E2]. split; [exact E1|]. rewrite E2, Hlen1, Hcn. lia.
  - (* the remaining pushes fit: then this one was clipped and filled the queue *)
    assert (Hfull : s_cnt (push_m cells s) = IBUFSZ) by (rewrite Hcn in *; unfold k in *; lia).
    assert (Hsame : forall j s', src_ok s' -> s_cnt s' = IBUFSZ -> push_n_m j cells s' = s' \/ True) by (intros; right; exact I).
    clear Hsame.
    assert (Hid : forall j s', src_ok s' -> s_cnt s' = IBUFSZ ->
                  s_cnt (push_n_m j cells s') = IBUFSZ /\ length (rest_keys (push_n_m j cells s')) = length (rest_keys s')).
    { induction j as [|j IHj]; intros s' Hok' Hc'; [split; [exact Hc'|reflexivity]|]. cbn [push_n_m].
      destruct (push_m_keys cells s' Hok') as (Hr' & Hok2 & _ & Hcn'). cbv zeta in Hr', Hcn'. pose proof Hok' as (Hp' & Hc'' & Hl').
      assert (Hk0 : Z.min (Z.of_nat (length cells)) (IBUFSZ - s_cnt s') = 0) by lia.
      rewrite Hk0 in Hr', Hcn'. cbn [Z.to_nat firstn map app] in Hr'.
      destruct (IHj _ Hok2 ltac:(lia)) as [E1 E2]. split; [exact E1|]. rewrite E2, Hr'. reflexivity. }
    destruct (Hid n _ Hok1 Hfull) as [E1 E2]. split; [exact E1|]. rewrite E2, Hlen1. unfold k. lia.
Qed.

(* ------------------------------------------------------------------ the start of the program *)
(* the zero-initialised statics plus one block for the terminal's pending bytes: an empty stack, an empty queue, an empty record *)
Lemma src_at_start tin : Forall (fun c => 0 <= c < 256) tin ->
  src_at (length cglobals) (cglobals ++ [map VInt tin]) (mkSrc [] 0 0 gb_ibuf 0 gb_icmd tin).
Proof.
  intro H. unfold src_at. cbn [s_stk s_pos s_cnt s_ib s_ip s_ic s_tin].
  split.
  { exists gb_vi_buf. unfold vibuf_at, cell_at, VIBUF. cbn [length rev map firstn].
    split; [reflexivity|]. split; [reflexivity|]. split; [reflexivity|]. split; [reflexivity|]. split; [apply Nat.le_0_l|constructor]. }
  split; [apply term_at_start|].
  split; [split; [apply nth_error_app_new|exact H]|]. split; constructor.
Qed.
Lemma kt_fresh_start : kt_fresh (length cglobals).
Proof. vm_compute; repeat split; discriminate. Qed.

(* ------------------------------------------------------------------ N-fold retyping fails when the copies do not fit (KF-PUSH-CLIP) *)
(* the source right after the typed keys `x` `4096` `.` were read: ibuf_pos = ibuf_cnt = 1, nothing pending; the recorded command is "x" *)
Definition clip_src : src := mkSrc [] 1 1 gb_ibuf 0 gb_icmd [].
Theorem push_clip_refuted : exists (s : src) (cells : list val) (n : nat),
  src_ok s /\ (length cells < Z.to_nat IBUFSZ)%nat /\
  keys (push_n_m n cells s) <> s_stk s ++ rpt n (map cell_key cells) ++ rest_keys s.
Proof.
  exists clip_src, [VInt 120], 4096%nat. split; [vm_compute; repeat split; discriminate|]. split; [vm_compute; lia|].
  assert (E : Nat.eqb (length (keys (push_n_m 4096 [VInt 120] clip_src)))
                      (length (s_stk clip_src ++ rpt 4096 (map cell_key [VInt 120]) ++ rest_keys clip_src)) = false)
    by (vm_compute; reflexivity).
  intro H. rewrite H in E. rewrite Nat.eqb_refl in E. discriminate E.
Qed.
