(* TrRepeat2.v -- C09: the prefix readers of vi.c as C TEXT: vi_yankbuf (the register prefix) and vi_prefix (the count), for EVERY oracle
   that answers the calls of vi_read() / vi_back() as the source model of coq/TrRepeat.v says (reads_ok / back_ok; the oracle that links
   the two indices to the translated vi_read / vi_back over the kernel is one: link_reads_ok, link_back_ok).
     tr_vi_yankbuf   returns vi_yankbuf_m: after a double quote the next key (after a double quote and a backslash the key after that, with bit 7 set), else 0 and the key is
                     pushed back;
     tr_vi_prefix    returns vi_prefix_m: the digits are folded with the saturating step of the C text (`if (n < 100000000) n = n * 10 + c - '0'`
                     = ViKeys.add_digit), a count starts with 1..9, the key that ends it is pushed back.  No bound on the number of digits:
                     the guard keeps n below 10^9, so the int arithmetic never overflows (signed overflow would be the error EOverflow of
                     the checked semantics). *)
From Coq Require Import List ZArith NArith Bool Lia.
From NV Require Import Bytes GenConsts CLite CLiteProps GenCFuncs CLiteTac CLiteExt TrTerm TrRepeat.
From NV Require ViKeys.
Import ListNotations.
Local Open Scope Z_scope.

(* ------------------------------------------------------------------ the models *)
Definition vi_yankbuf_m (s : src) : Z * src :=
  let '(c, s1) := vi_read_m s in
  if c =? 34 then
    let '(c2, s2) := vi_read_m s1 in
    if c2 =? 92 then let '(c3, s3) := vi_read_m s2 in (Z.lor 128 c3, s3) else (c2, s2)
  else (0, vi_back_m c s1).

Definition digit_step (n c : Z) : Z := if n <? 100000000 then n * 10 + c - 48 else n.
Fixpoint prefix_loop (fuel : nat) (n c : Z) (s : src) : Z * Z * src :=      (* while (isdigit(c)) { ...; c = vi_read(); } *)
  match fuel with
  | O => (n, c, s)
  | S f => if ct_isdigit c then prefix_loop f (digit_step n c) (fst (vi_read_m s)) (snd (vi_read_m s)) else (n, c, s)
  end.
Definition vi_prefix_m (s : src) : Z * src :=
  let c := fst (vi_read_m s) in let s1 := snd (vi_read_m s) in
  let r := if (49 <=? c) && (c <=? 57) then prefix_loop (S (length (keys s1))) 0 c s1 else (0, c, s1) in
  (fst (fst r), vi_back_m (snd (fst r)) (snd r)).

(* the step of the C text is the step of the key automaton of ViKeys.v *)
Lemma digit_step_add n (c : N) : (48 <= c <= 57)%N -> digit_step n (Z.of_N c) = ViKeys.add_digit n c.
Proof. intro H. unfold digit_step, ViKeys.add_digit. destruct (n <? 100000000); [|reflexivity]. lia. Qed.

Section Readers.
Variable ext : oracle.
Variable kt : nat.
Hypothesis Hread : reads_ok ext kt.
Hypothesis Hback : back_ok ext kt.

Ltac do_read m s Hs m1 Hc1 Hs1 Hk1 :=
  destruct (Hread m s Hs) as (m1 & Hc1 & Hs1 & Hk1); rewrite callx_S, x_vi_read_none, Hc1.
Ltac do_back m s c Hs Hl Hkc m1 Hc1 Hs1 Hk1 :=
  destruct (Hback m s c Hs Hl Hkc) as (m1 & Hc1 & Hs1 & Hk1); rewrite callx_S, x_vi_back_none, Hc1.

Theorem tr_vi_yankbuf m s d fuel : src_at kt m s ->
  exists m', callx ext cprog fuel (S (S d)) F_vi_yankbuf [] m = Ok (VInt (fst (vi_yankbuf_m s)), m') /\
             src_at kt m' (snd (vi_yankbuf_m s)) /\ keeps kt m m'.
Proof.
  intros Hs. unfold vi_yankbuf_m. enterx F_vi_yankbuf cf_vi_yankbuf. xstep.
  do_read m s Hs m1 Hc1 Hs1 Hk1. pose proof (read_key_ok _ _ _ Hs) as Kc. pose proof (read_room _ _ _ Hs) as Rm.
  destruct (vi_read_m s) as [c s1]. cbn [fst snd] in *. xstep.
  destruct (Z.eqb_spec c 34) as [E|E]; xstep.
  - do_read m1 s1 Hs1 m2 Hc2 Hs2 Hk2.
    destruct (vi_read_m s1) as [c2 s2]. cbn [fst snd] in *. xstep.
    destruct (Z.eqb_spec c2 92) as [E2|E2]; xstep.
    + do_read m2 s2 Hs2 m3 Hc3 Hs3 Hk3.
      destruct (vi_read_m s2) as [c3 s3]. cbn [fst snd] in *. xstep.
      exists m3. split; [reflexivity|]. split; [exact Hs3|]. eapply keeps_trans; [eapply keeps_trans|]; eassumption.
    + exists m2. split; [reflexivity|]. split; [exact Hs2|]. eapply keeps_trans; eassumption.
  - do_back m1 s1 c Hs1 Rm Kc m2 Hc2 Hs2 Hk2. xstep.
    exists m2. split; [reflexivity|]. split; [exact Hs2|]. eapply keeps_trans; eassumption.
Qed.

(* ---- vi_prefix *)
Definition prefix_while : stmt := match fn_body cf_vi_prefix with SSeq _ (SSeq _ (SSeq (SIf _ w _) _)) => w | _ => SSkip end.

Lemma prefix_loop_ok d fuelc : forall f n c s m fuel',
  src_at kt m s -> key_ok c -> 0 <= n < 1000000000 -> (ct_isdigit c = false \/ (length (keys s) < f)%nat) -> (f < fuel')%nat ->
  (length (s_stk s) < VIBUF)%nat ->
  exists m', exec (callx ext cprog fuelc (S d)) fuel' prefix_while (mkst [VInt n; VInt c] m)
             = ONormal (mkst [VInt (fst (fst (prefix_loop f n c s))); VInt (snd (fst (prefix_loop f n c s)))] m') /\
             src_at kt m' (snd (prefix_loop f n c s)) /\ keeps kt m m' /\ key_ok (snd (fst (prefix_loop f n c s))) /\
             (length (s_stk (snd (prefix_loop f n c s))) < VIBUF)%nat /\ 0 <= fst (fst (prefix_loop f n c s)) < 1000000000.
Proof.
  induction f as [|f IH]; intros n c s m fuel' Hs Kc Hn Hd Hf Rm.
  - destruct Hd as [Hd|Hd]; [|lia]. destruct fuel' as [|fuel']; [lia|].
    unfold prefix_while. cbn [fn_body cf_vi_prefix]. rewrite exec_while. xstep.
    unfold do_builtin_m, do_builtin, ct_arg. unfold key_ok in Kc.
    destruct (Z.leb_spec (-1) c); [|lia]. destruct (Z.leb_spec c 255); [|lia]. cbn [andb bind]. rewrite Hd. xstep.
    exists m. cbn [prefix_loop fst snd]. split; [reflexivity|]. split; [exact Hs|]. split; [apply keeps_refl|]. split; [exact Kc|]. split; [exact Rm|exact Hn].
  - destruct fuel' as [|fuel']; [lia|].
    unfold prefix_while. cbn [fn_body cf_vi_prefix]. rewrite exec_while. xstep.
    unfold do_builtin_m, do_builtin, ct_arg. pose proof Kc as Kc'. unfold key_ok in Kc'.
    destruct (Z.leb_spec (-1) c); [|lia]. destruct (Z.leb_spec c 255); [|lia]. cbn [andb bind].
    cbn [prefix_loop]. destruct (ct_isdigit c) eqn:Ed; xstep.
    2:{ exists m. cbn [fst snd]. split; [reflexivity|]. split; [exact Hs|]. split; [apply keeps_refl|]. split; [exact Kc|]. split; [exact Rm|exact Hn]. }
    destruct Hd as [Hd|Hd]; [discriminate|].
    assert (Hc : 48 <= c <= 57) by (unfold ct_isdigit in Ed; lia).
    assert (Hn1 : 0 <= digit_step n c < 1000000000) by (unfold digit_step; destruct (Z.ltb_spec n 100000000); lia).
    remember (digit_step n c) as n2 eqn:En2.
    destruct (Z.ltb_spec n 100000000); xstep;
      [rewrite (chk_I32 (n * 10)) by lia; xstep; rewrite (chk_I32 (n * 10 + c)) by lia; xstep;
       rewrite (chk_I32 (n * 10 + c - 48)) by lia; xstep;
       replace (n * 10 + c - 48) with n2 by (subst n2; unfold digit_step; destruct (Z.ltb_spec n 100000000); lia)
      |assert (E : n = n2) by (subst n2; unfold digit_step; destruct (Z.ltb_spec n 100000000); lia); clear En2; subst n].
    all: destruct (Hread m s Hs) as (m1 & Hc1 & Hs1 & Hk1); rewrite callx_S, x_vi_read_none, Hc1; xstep.
    all: pose proof (read_key_ok _ _ _ Hs) as Kc1; pose proof (read_room _ _ _ Hs) as Rm1; destruct (vi_read_keys _ _ _ Hs) as [Hk Ht].
    all: assert (Hd1 : ct_isdigit (fst (vi_read_m s)) = false \/ (length (keys (snd (vi_read_m s))) < f)%nat)
           by (rewrite Hk, Ht; destruct (keys s) as [|k r]; [left; reflexivity|right; cbn [tl length] in *; lia]).
    all: assert (Hf1 : (f < fuel')%nat) by lia.
    all: destruct (IH n2 (fst (vi_read_m s)) (snd (vi_read_m s)) m1 fuel' Hs1 Kc1 Hn1 Hd1 Hf1 Rm1)
           as (m' & He & Hs' & Hk' & Kc'' & Rm' & Hn').
    all: fold prefix_while; unfold prefix_while in He; cbn [fn_body cf_vi_prefix] in He; rewrite He; exists m'.
    all: split; [reflexivity|]; split; [exact Hs'|]; split; [eapply keeps_trans; eassumption|]; split; [exact Kc''|]; split; [exact Rm'|exact Hn'].
Qed.

Theorem tr_vi_prefix m s d fuel : src_at kt m s -> (S (S (length (keys s))) < fuel)%nat ->
  exists m', callx ext cprog fuel (S (S d)) F_vi_prefix [] m = Ok (VInt (fst (vi_prefix_m s)), m') /\
             src_at kt m' (snd (vi_prefix_m s)) /\ keeps kt m m' /\ 0 <= fst (vi_prefix_m s) < 1000000000.
Proof.
  intros Hs Hfuel. unfold vi_prefix_m. enterx F_vi_prefix cf_vi_prefix. xstep.
  destruct (Hread m s Hs) as (m1 & Hc1 & Hs1 & Hk1). rewrite callx_S, x_vi_read_none, Hc1. xstep.
  pose proof (read_key_ok _ _ _ Hs) as Kc. pose proof (read_room _ _ _ Hs) as Rm. destruct (vi_read_keys _ _ _ Hs) as [Hk Ht].
  set (c := fst (vi_read_m s)) in *. set (s1 := snd (vi_read_m s)) in *. pose proof Kc as Kc'. unfold key_ok in Kc'.
  assert (Hlen : (length (keys s1) <= length (keys s))%nat) by (rewrite Ht; destruct (keys s); cbn [tl length]; lia).
  destruct (Z.leb_spec 49 c) as [H1|H1]; xstep.
  - destruct (Z.leb_spec c 57) as [H2|H2]; xstep.
    + destruct (prefix_loop_ok d fuel (S (length (keys s1))) 0 c s1 m1 fuel Hs1 Kc ltac:(lia) ltac:(right; lia) ltac:(lia) Rm)
        as (m2 & He & Hs2 & Hk2 & Kc2 & Rm2 & Hn2).
      unfold prefix_while in He. cbn [fn_body cf_vi_prefix] in He. rewrite He. xstep.
      destruct (Hback m2 _ _ Hs2 Rm2 Kc2) as (m3 & Hc3 & Hs3 & Hk3). rewrite callx_S, x_vi_back_none, Hc3. xstep.
      exists m3. cbn [fst snd]. split; [reflexivity|]. split; [exact Hs3|]. split; [eapply keeps_trans; [eapply keeps_trans|]; eassumption|exact Hn2].
    + destruct (Hback m1 _ _ Hs1 Rm Kc) as (m3 & Hc3 & Hs3 & Hk3). rewrite callx_S, x_vi_back_none, Hc3. xstep.
      exists m3. cbn [fst snd]. split; [reflexivity|]. split; [exact Hs3|]. split; [eapply keeps_trans; eassumption|lia].
  - destruct (Hback m1 _ _ Hs1 Rm Kc) as (m3 & Hc3 & Hs3 & Hk3). rewrite callx_S, x_vi_back_none, Hc3. xstep.
    exists m3. cbn [fst snd]. split; [reflexivity|]. split; [exact Hs3|]. split; [eapply keeps_trans; eassumption|lia].
Qed.
End Readers.
