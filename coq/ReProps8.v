(* ReProps8.v -- C11_exec_bounds: every offset regexec reports satisfies 0 <= so <= eo <= |line| or is
   -1/-1.  Positions only grow and never pass the end of the line (ratom_match returns OOB instead),
   a mark is written with the current position, and a group's closing mark is written after its
   opening mark on every derivation of the set semantics. *)
From Coq Require Import List Arith Lia Bool ZArith NArith ZifyN ZifyBool ZifyNat.
From NV Require Import Bytes GenConsts ReSyntax ReParse ReEmit ReVM ReSem RsetDefs ReProps ReProps2 ReProps3 ReProps4 ReProps5 ReProps6 ReProps7.
Import ListNotations.

Lemma prefixb_len a : forall b, prefixb a b = true -> length a <= length b.
Proof. induction a as [|x a IH]; intros b H; [cbn; lia|]. destruct b as [|y b]; [discriminate|]. cbn [prefixb] in H. apply andb_prop in H. destruct H as [_ H]. apply IH in H. cbn [length]. lia. Qed.

Lemma chr_icase_range flg line a p0 : forall k pos q, chr_icase flg line k a p0 pos = Ok (Some q) -> p0 + pos <= q <= length line.
Proof.
  induction k as [|k IH]; intros pos q H; cbn [chr_icase] in H; [discriminate|].
  destruct (nthb a pos =? 0)%N.
  - destruct (Nat.leb (p0 + pos) (length line)) eqn:L; [|discriminate]. inversion H; subst. apply Nat.leb_le in L. lia.
  - destruct (re_ucdec a pos); cbn [bind] in H; try discriminate. destruct (re_ucdec line (p0 + pos)); cbn [bind] in H; try discriminate.
    destruct ((fold (has flg REG_ICASE) a0 =? fold (has flg REG_ICASE) a1)%N && Nat.eqb (re_uclen_at a pos) (re_uclen_at line (p0 + pos))); [|discriminate].
    apply IH in H. lia.
Qed.

Lemma ratom_match_range flg line a p q : p <= length line -> ratom_match flg line a p = Ok (Some q) -> p <= q <= length line.
Proof.
  intros Hp H. destruct a; cbn [ratom_match] in H.
  - destruct (negb (has flg REG_ICASE)).
    + destruct (prefixb s (skipn p line)) eqn:E; [|discriminate]. inversion H; subst. apply prefixb_len in E. rewrite skipn_length in E. lia.
    + apply chr_icase_range in H. lia.
  - destruct (rdk SOther line p); cbn [bind] in H; try discriminate.
    destruct ((a =? 0)%N || (a =? 10)%N && has flg REG_NEWLINE); [discriminate|].
    destruct (Nat.leb (p + re_uclen_at line p) (length line)) eqn:L; [|discriminate]. inversion H; subst. apply Nat.leb_le in L. lia.
  - destruct (re_ucdec line p); cbn [bind] in H; try discriminate.
    destruct ((a =? 0)%N || (a =? 10)%N && has flg REG_NEWLINE); [discriminate|].
    destruct (rdk SOther line p); cbn [bind] in H; try discriminate.
    destruct (negb (Nat.leb (p + re_uclen_at line p) (length line))) eqn:L; [discriminate|].
    destruct (brk_match 2 (has flg REG_ICASE) (tl s) a); cbn [bind] in H; try discriminate.
    destruct a1; inversion H; subst. apply negb_false_iff in L. apply Nat.leb_le in L. lia.
  - destruct (Nat.eqb p 0); [destruct (has flg REG_NOTBOL); inversion H; subst; lia|].
    destruct (nthb line (p - 1) =? 10)%N; [|discriminate].
    destruct (rdk SOther line p); cbn [bind] in H; try discriminate.
    destruct (has flg REG_NEWLINE && negb (a =? 0)%N); inversion H; subst; lia.
  - destruct (rdk SOther line p); cbn [bind] in H; try discriminate.
    destruct (a =? 0)%N; [destruct (has flg REG_NOTEOL); inversion H; subst; lia|].
    destruct (a =? 10)%N; [destruct (has flg REG_NEWLINE); inversion H; subst; lia | discriminate].
  - destruct (rdk SOther line p); cbn [bind] in H; try discriminate.
    destruct ((Nat.eqb p 0 || negb (prev_isword line p)) && isword a); inversion H; subst; lia.
  - destruct (rdk SOther line p); cbn [bind] in H; try discriminate.
    destruct (negb (Nat.eqb p 0) && prev_isword line p && ((a =? 0)%N || negb (isword a))); inversion H; subst; lia.
Qed.

Lemma upd_length l : forall i v, length (upd l i v) = length l.
Proof. induction l as [|x l IH]; intros i v; [reflexivity|]. destruct i; cbn [upd length]; [reflexivity | rewrite IH; reflexivity]. Qed.
Lemma nth_upd_same l : forall i v d, i < length l -> nth i (upd l i v) d = v.
Proof. induction l as [|x l IH]; intros i v d H; [cbn in H; lia|]. destruct i; cbn [upd nth]; [reflexivity | apply IH; cbn in H; lia]. Qed.
Lemma nth_upd_other l : forall i j v d, i <> j -> nth j (upd l i v) d = nth j l d.
Proof. induction l as [|x l IH]; intros i j v d H; [reflexivity|]. destruct i, j; cbn [upd nth]; try reflexivity; try lia. apply IH. lia. Qed.

Section Bounds.
Variable flg : Z.
Variable line : bytes.
Notation M := (ReSem.M st (atom_step flg line) mark_step).

Definition mk (s : st) (i : nat) : Z := nth i (snd s) (-1)%Z.
Definition Jm (s : st) : Prop :=
  fst s <= length line /\ length (snd s) = nmarks /\ forall i, (-1 <= mk s i <= Z.of_nat (fst s))%Z.
Definition Ih (s : st) (h : nat) : Prop :=
  (mk s (2 * h) = (-1)%Z /\ mk s (2 * h + 1) = (-1)%Z) \/ (0 <= mk s (2 * h) <= mk s (2 * h + 1))%Z.
Definition Rel (s s' : st) : Prop :=
  Jm s -> Jm s' /\ fst s <= fst s' /\ (forall i, (0 <= mk s i)%Z -> (0 <= mk s' i)%Z) /\ (forall h, Ih s h -> Ih s' h).

Lemma Rel_refl s : Rel s s.
Proof. intro J. split; [exact J|]. split; [lia|]. split; auto. Qed.
Lemma Rel_trans a b c : Rel a b -> Rel b c -> Rel a c.
Proof. intros R1 R2 J. destruct (R1 J) as (J1 & L1 & K1 & I1). destruct (R2 J1) as (J2 & L2 & K2 & I2). split; [exact J2|]. split; [lia|]. split; auto. Qed.

Lemma Rel_atom a s s' : atom_step flg line a s = Ok (Some s') -> Rel s s'.
Proof.
  unfold atom_step. destruct (ratom_match flg line a (fst s)) as [[q|]| |] eqn:E; cbn [bind]; try discriminate.
  intro H; inversion H; subst; clear H. intros (J1 & J2 & J3).
  pose proof (ratom_match_range _ _ _ _ _ J1 E) as Rg. unfold Jm, Ih, mk in *. cbn [fst snd] in *.
  split; [split; [lia|]; split; [exact J2|]; intro i; specialize (J3 i); lia|]. split; [lia|]. split; auto.
Qed.

Lemma nmarks_val : nmarks = Z.to_nat (NGRPS * 2). Proof. reflexivity. Qed.

(* the two marks of a group are written or skipped together, and they fit the mark array *)
Lemma marks_pair g : ((Z.of_nat (2 * g) <? NGRPS)%Z = (Z.of_nat (2 * g + 1) <? NGRPS)%Z) /\ ((Z.of_nat (2 * g + 1) <? NGRPS)%Z = true -> 2 * g + 1 < nmarks).
Proof. rewrite nmarks_val. unfold NGRPS. split; [destruct (Z.of_nat (2 * g) <? 64)%Z eqn:A; destruct (Z.of_nat (2 * g + 1) <? 64)%Z eqn:B; lia | intro H; lia]. Qed.

Lemma Rel_grp g s s2 : Rel (mark_step (2 * g) s) s2 -> Rel s (mark_step (2 * g + 1) s2).
Proof.
  intros Rin J. destruct (marks_pair g) as [Epair Hfit].
  unfold mark_step in *. rewrite Epair in Rin.
  destruct (Z.of_nat (2 * g + 1) <? NGRPS)%Z eqn:W.
  2:{ destruct (Rin J) as (J2 & L & K & I). split; [exact J2|]. split; [exact L|]. split; auto. }
  specialize (Hfit eq_refl).
  destruct J as (J1 & J2 & J3).
  assert (Js1 : Jm (fst s, upd (snd s) (2 * g) (Z.of_nat (fst s)))).
  { unfold Jm, mk in *. cbn [fst snd]. split; [exact J1|]. split; [rewrite upd_length; exact J2|]. intro i.
    destruct (Nat.eq_dec (2 * g) i) as [<-|N]; [rewrite nth_upd_same by lia; lia | rewrite nth_upd_other by exact N; apply J3]. }
  destruct (Rin Js1) as ((A1 & A2 & A3) & L & K & I). cbn [fst snd] in *.
  assert (Js' : Jm (fst s2, upd (snd s2) (2 * g + 1) (Z.of_nat (fst s2)))).
  { unfold Jm, mk in *. cbn [fst snd]. split; [exact A1|]. split; [rewrite upd_length; exact A2|]. intro i.
    destruct (Nat.eq_dec (2 * g + 1) i) as [<-|N]; [rewrite nth_upd_same by lia; lia | rewrite nth_upd_other by exact N; apply A3]. }
  split; [exact Js'|]. split; [exact L|]. split.
  - intros i Hi. unfold mk in *. cbn [fst snd] in *.
    assert (0 <= nth i (upd (snd s) (2 * g) (Z.of_nat (fst s))) (-1))%Z.
    { destruct (Nat.eq_dec (2 * g) i) as [<-|N]; [rewrite nth_upd_same by lia; lia | rewrite nth_upd_other by exact N; exact Hi]. }
    apply K in H. destruct (Nat.eq_dec (2 * g + 1) i) as [<-|N]; [rewrite nth_upd_same by lia; lia | rewrite nth_upd_other by exact N; exact H].
  - intros h Hh. unfold Ih, mk in *. cbn [fst snd] in *.
    destruct (Nat.eq_dec h g) as [->|Ng].
    + right. rewrite nth_upd_other by lia. rewrite nth_upd_same by lia.
      assert (0 <= nth (2 * g) (upd (snd s) (2 * g) (Z.of_nat (fst s))) (-1))%Z by (rewrite nth_upd_same by lia; lia).
      apply K in H. specialize (A3 (2 * g)). lia.
    + assert (Hh1 : (nth (2 * h) (upd (snd s) (2 * g) (Z.of_nat (fst s))) (-1) = (-1) /\ nth (2 * h + 1) (upd (snd s) (2 * g) (Z.of_nat (fst s))) (-1) = (-1) \/
                     0 <= nth (2 * h) (upd (snd s) (2 * g) (Z.of_nat (fst s))) (-1) <= nth (2 * h + 1) (upd (snd s) (2 * g) (Z.of_nat (fst s))) (-1))%Z).
      { rewrite !nth_upd_other by lia. exact Hh. }
      apply (I h) in Hh1. rewrite !nth_upd_other by lia. exact Hh1.
Qed.

Lemma M_Rel r s s' : M r s s' -> Rel s s'.
Proof.
  induction 1; eauto using Rel_refl, Rel_trans, Rel_atom, Rel_grp.
Qed.

(* a reported match: every pair of the mark array is -1/-1 or 0 <= so <= eo <= |line| *)
Theorem re_loop_bounds d P top : code_at P 0 ([IMark 0] ++ emit top 1 ++ [IMark 1; IMatch]) ->
  forall k o s r c, re_loop d P flg line k o s = (Ok (Some r), c) ->
  forall h, (mk r (2 * h) = (-1)%Z /\ mk r (2 * h + 1) = (-1)%Z) \/ (0 <= mk r (2 * h) <= mk r (2 * h + 1) /\ mk r (2 * h + 1) <= Z.of_nat (length line))%Z.
Proof.
  intros C. induction k as [|k IH]; intros o s r c H h; cbn [re_loop] in H; [discriminate|].
  destruct (rdk SUcLen line o) as [co| |]; try discriminate.
  destruct (co =? 0)%N; [discriminate|].
  destruct (rdk SUcLen line s) as [cs| |] eqn:Rs; try discriminate.
  unfold re_recmatch in H.
  destruct (rec st (atom_step flg line) mark_step P d 0 (s, repeat (-1)%Z nmarks)) as [[cs1 r1| | |w] c1] eqn:R; try discriminate.
  - inversion H; subst; clear H.
    destruct (recmatch_sound _ _ _ _ top C _ _ _ _ _ R) as (s1 & M1 & E).
    assert (Hs : s <= length line). { unfold rdk in Rs. destruct (nth_error line s) eqn:N; [assert (s < length line) by (apply nth_error_Some; congruence); lia|]. destruct (Nat.eqb s (length line)) eqn:Q; [apply Nat.eqb_eq in Q; lia | discriminate]. }
    assert (Hrep : forall n i, nth i (repeat (-1)%Z n) (-1)%Z = (-1)%Z) by (clear; intro n; induction n; intro i; destruct i; cbn; auto).
    assert (J0 : Jm (s, repeat (-1)%Z nmarks)).
    { unfold Jm, mk. cbn [fst snd]. split; [exact Hs|]. split; [apply repeat_length|]. intro i. rewrite Hrep. lia. }
    assert (I0 : forall h, Ih (s, repeat (-1)%Z nmarks) h).
    { intro h0. left. unfold mk. cbn [snd]. rewrite !Hrep. split; reflexivity. }
    pose proof (Rel_grp 0 (s, repeat (-1)%Z nmarks) s1) as G. cbn [Nat.mul Nat.add] in G.
    specialize (G (M_Rel _ _ _ M1) J0). rewrite <- E in G. destruct G as ((G1 & G2 & G3) & _ & _ & GI).
    destruct (GI h (I0 h)) as [Hn|Hp]; [left; exact Hn | right]. specialize (G3 (2 * h + 1)). lia.
  - destruct (re_loop d P flg line k s (s + re_uclen_at line s)) as [x c'] eqn:L. inversion H; subst. eapply IH; eauto.
Qed.
End Bounds.

(* regexec on the program of any accepted pattern string *)
Theorem regexec_bounds pat p cflg line nsub eflg d subs c :
  regcomp pat = Ok (Some p) -> regexec_d d p cflg line nsub eflg = (Ok (Some subs), c) ->
  Forall (fun se : Z * Z => se = ((-1)%Z, (-1)%Z) \/ (0 <= fst se <= snd se /\ snd se <= Z.of_nat (length line))%Z) subs.
Proof.
  intros Hc H. unfold regexec_d in H.
  destruct (re_loop d (code p) (Z.lor cflg eflg) line (length line + 2) 0 0) as [[[r|]| |] c0] eqn:L; inversion H; subst; clear H.
  pose proof (regcomp_layout _ _ Hc) as Lay.
  assert (C : code_at (code p) 0 ([IMark 0] ++ emit (tr (tree p)) 1 ++ [IMark 1; IMatch])) by (rewrite <- Lay; apply code_at_self).
  pose proof (re_loop_bounds (Z.lor cflg eflg) line d (code p) (tr (tree p)) C _ _ _ _ _ L) as B.
  apply Forall_forall. intros se Hin. unfold psub_of in Hin. apply in_map_iff in Hin. destruct Hin as (i & E & _).
  destruct (Nat.ltb (i * 2) nmarks); [|left; symmetry; exact E].
  specialize (B i). unfold mk in B. replace (2 * i) with (i * 2) in B by lia.
  subst se. cbn [fst snd]. destruct B as [[B1 B2]|B]; [left; rewrite B1, B2; reflexivity | right; exact B].
Qed.
