(* GlobNest.v -- C15 leftovers: what EVERY command list (nested globals, u, !, @, w, `|` lists) does to identities and
   to the marks of the enclosing globals, and the invariant that makes every top-level global start from a buffer with
   unique identities and no stale marks. *)
From Coq Require Import List NArith ZArith Bool Lia.
From NV Require Import Bytes ExDefs ExSpec ExProps GlobDefs GlobProps GlobTrack GlobUniq.
Import ListNotations.
Local Open Scope Z_scope.

(* ---------------------------------------------------------------------------------------- *)
(* one step on the line buffer, seen from depth dep: identities stay unique, a mark is dropped only together with its line,
   no identity returns, and no mark appears *)
Definition trk (dep : N) (l l' : lbuf) : Prop :=
  pres_lb dep l l' /\ sub (mids dep (lns l')) (mids dep (lns l)).

Lemma trk_refl dep l l' : lns l' = lns l -> nextid l' = nextid l -> trk dep l l'.
Proof. intros E1 E2. split; [apply pres_refl; assumption | rewrite E1; apply sub_refl]. Qed.

Lemma trk_trans dep l1 l2 l3 : trk dep l1 l2 -> trk dep l2 l3 -> trk dep l1 l3.
Proof. intros [P1 S1] [P2 S2]. split; [eapply pres_trans; eassumption | eapply sub_trans; eassumption]. Qed.

Lemma trk_replace dep s pos nd l : trk dep l (lbuf_replace s pos nd l).
Proof. split; [apply replace_pres | apply replace_mids_sub]. Qed.

Lemma trk_edit dep s b e l : trk dep l (lbuf_edit s b e l).
Proof. split; [apply edit_pres | apply edit_mids_sub]. Qed.

Lemma sub_nil_r {A} (l : list A) : sub l [] -> l = [].
Proof. intro H. inversion H. reflexivity. Qed.

Lemma trk_nomarks dep l l' : trk dep l l' -> nomarks dep (lns l) -> nomarks dep (lns l').
Proof. intros [_ S] N. apply nomarks_mids. apply mids_nomarks in N. rewrite N in S. apply sub_nil_r, S. Qed.

(* two line lists that agree on identities and on the marks of depth dep *)
Definition lgl_eq (dep : N) (L L' : list line) : Prop :=
  map lid L' = map lid L /\ map (glob_marked dep) L' = map (glob_marked dep) L.

Lemma lgl_eq_refl dep L : lgl_eq dep L L.
Proof. split; reflexivity. Qed.
Lemma lgl_eq_trans dep a b c : lgl_eq dep a b -> lgl_eq dep b c -> lgl_eq dep a c.
Proof. intros [A1 A2] [B1 B2]. split; congruence. Qed.

Lemma lgl_eq_mids dep : forall L L', lgl_eq dep L L' -> mids dep L' = mids dep L.
Proof.
  induction L as [|x L IH]; intros [|y L'] [E1 E2]; try discriminate; [reflexivity|].
  cbn [map] in E1, E2. inversion E1. inversion E2. rewrite !mids_cons.
  rewrite (IH L') by (split; assumption). destruct (glob_marked dep y), (glob_marked dep x); congruence.
Qed.

Lemma lgl_eq_upd dep f : (forall x, lid (f x) = lid x) -> (forall x, glob_marked dep (f x) = glob_marked dep x) ->
  forall L k, lgl_eq dep L (upd_line k f L).
Proof.
  intros F1 F2. induction L as [|x L IH]; intro k; [destruct k; apply lgl_eq_refl|].
  destruct k; cbn [upd_line]; unfold lgl_eq; cbn [map].
  - rewrite F1, F2. auto.
  - destruct (IH k) as [A B]. rewrite A, B. auto.
Qed.

Lemma mark_set_other dep dp x : dp <> dep -> glob_marked dep (set_lgl x (N.setbit (lgl x) dp)) = glob_marked dep x.
Proof. intro H. unfold glob_marked, set_lgl. cbn [lgl]. apply N.setbit_neq. exact H. Qed.
Lemma mark_clear_other dep dp x : dp <> dep -> glob_marked dep (clear_lgl dp x) = glob_marked dep x.
Proof. intro H. unfold glob_marked, clear_lgl, set_lgl. cbn [lgl]. apply N.clearbit_neq. exact H. Qed.

Lemma lgl_eq_globset dep dp l i : dp <> dep -> lgl_eq dep (lns l) (lns (lbuf_globset l i dp)).
Proof. intro H. unfold lbuf_globset. cbn [lns with_lns]. apply lgl_eq_upd; [reflexivity | intro x; apply mark_set_other, H]. Qed.

Lemma lgl_eq_globget dep dp l i : dp <> dep -> lgl_eq dep (lns l) (lns (fst (lbuf_globget l i dp))).
Proof.
  intro H. unfold lbuf_globget. destruct (nth_error (lns l) i); [|apply lgl_eq_refl]. cbn [fst lns with_lns].
  apply lgl_eq_upd; [reflexivity | intro x; apply (mark_clear_other dep dp x H)].
Qed.

Lemma lgl_eq_globset_range dep dp : dp <> dep -> forall n i l, lgl_eq dep (lns l) (lns (globset_range n i dp l)).
Proof.
  intro H. induction n as [|n IH]; intros i l; [apply lgl_eq_refl|]. cbn [globset_range].
  eapply lgl_eq_trans; [apply (lgl_eq_globset dep dp l i H) | apply IH].
Qed.

Lemma lgl_eq_globclear dep dp : dp <> dep -> forall n i l, lgl_eq dep (lns l) (lns (globclear n i dp l)).
Proof.
  intro H. induction n as [|n IH]; intros i l; [apply lgl_eq_refl|]. cbn [globclear].
  eapply lgl_eq_trans; [apply (lgl_eq_globget dep dp l i H) | apply IH].
Qed.

Lemma lgl_eq_scan dep dp : dp <> dep -> forall L i, lgl_eq dep L (snd (scan_l i dp L)).
Proof.
  intro H. induction L as [|x L IH]; intro i; [apply lgl_eq_refl|]. destruct i as [|i]; cbn [scan_l].
  - destruct (glob_marked dp x).
    + cbn [snd]. unfold lgl_eq. cbn [map]. rewrite (mark_clear_other dep dp x H). split; reflexivity.
    + specialize (IH 0%nat). destruct (scan_l 0 dp L) as [j L2]. cbn [snd] in *. destruct IH as [A B]. unfold lgl_eq. cbn [map]. rewrite A, B. auto.
  - specialize (IH i). destruct (scan_l i dp L) as [j L2]. cbn [snd] in *. destruct IH as [A B]. unfold lgl_eq. cbn [map]. rewrite A, B. auto.
Qed.

Lemma nextid_globset_range : forall n i dp l, nextid (globset_range n i dp l) = nextid l.
Proof. induction n; intros i dp l; [reflexivity|]. cbn [globset_range]. rewrite IHn. reflexivity. Qed.
Lemma nextid_globget l i dp : nextid (fst (lbuf_globget l i dp)) = nextid l.
Proof. unfold lbuf_globget. destruct (nth_error (lns l) i); reflexivity. Qed.
Lemma nextid_globclear : forall n i dp l, nextid (globclear n i dp l) = nextid l.
Proof. induction n; intros i dp l; [reflexivity|]. cbn [globclear]. rewrite IHn. apply nextid_globget. Qed.

Lemma trk_lgl dep l l' : lgl_eq dep (lns l) (lns l') -> nextid l' = nextid l -> trk dep l l'.
Proof.
  intros E N. pose proof (lgl_eq_mids dep _ _ E) as M. destruct E as [E1 _]. split; [|rewrite M; apply sub_refl].
  intros [U1 U2]. unfold uniq. rewrite E1, N, M. split; [split; assumption|]. split; [lia|]. split; auto.
Qed.

(* clearing bits of depth dp never creates a mark of depth dp either *)
Lemma nomarks_lgl dep L L' : lgl_eq dep L L' -> nomarks dep L -> nomarks dep L'.
Proof. intros E N. apply nomarks_mids. rewrite (lgl_eq_mids dep _ _ E). apply mids_nomarks, N. Qed.

(* ---------------------------------------------------------------------------------------- *)
(* address resolution touches neither the line buffer nor the nesting depth *)
Definition lg (s : st) := (lb s, xgdep s).

Section Addr.
Variable rvalid : bytes -> bool.
Variable rfind : bytes -> bytes -> bool -> option (nat * nat).

Lemma kwdset_if_lg s p d : lg (kwdset_if s p d) = lg s.
Proof. destruct p as [[|c p]|]; reflexivity. Qed.

Lemma ex_search_lg s pat : lg (snd (ex_search rvalid rfind s pat)) = lg s.
Proof.
  unfold ex_search. destruct (re_read pat) as [kw rest].
  destruct (kwddir _ =? 0); [apply kwdset_if_lg|]. destruct (negb _); apply kwdset_if_lg.
Qed.

Lemma ex_lineno_lg s num : lg (snd (ex_lineno rvalid rfind s num)) = lg s.
Proof.
  unfold ex_lineno.
  assert (F : forall n rest s', lg s' = lg s ->
    lg (snd (let '(n', rest') := offsets (S (length rest)) rest n in (n', rest', s'))) = lg s).
  { intros n rest s' E. destruct (offsets _ rest n). exact E. }
  destruct num as [|c rest]; [apply F; reflexivity|].
  destruct (c =? 46)%N; [apply F; reflexivity|]. destruct (c =? 36)%N; [apply F; reflexivity|].
  destruct (c =? 39)%N; [destruct (lbuf_jump _ _); [apply F|]; reflexivity|].
  destruct (_ || _)%bool.
  - pose proof (ex_search_lg s (c :: rest)) as E. destruct (ex_search rvalid rfind s (c :: rest)) as [[n rest'] s']. cbn [snd] in E.
    destruct (n <? 0); [exact E | apply F; exact E].
  - destruct (isdigit c); apply F; reflexivity.
Qed.

Lemma region_loop_lg : forall fuel loc first b e s, lg (snd (region_loop rvalid rfind fuel loc first b e s)) = lg s.
Proof.
  induction fuel as [|f IH]; intros loc first b e s; [reflexivity|]. cbn [region_loop].
  destruct loc as [|c loc]; [reflexivity|].
  pose proof (ex_lineno_lg s (c :: loc)) as E. destruct (ex_lineno rvalid rfind s (c :: loc)) as [[n rest] s1]. cbn [snd] in E.
  destruct (n + 1 <? 0); [exact E|]. destruct (skip_to_sep rest) as [|c2 rest']; [exact E|].
  rewrite IH. destruct (c2 =? 59)%N; exact E.
Qed.

Lemma ex_region_lg loc s : lg (snd (ex_region rvalid rfind loc s)) = lg s.
Proof.
  unfold ex_region. destruct (bytes_eqb loc [37%N]); [reflexivity|]. destruct loc as [|c loc]; [reflexivity|].
  pose proof (region_loop_lg (S (length (c :: loc))) (c :: loc) true 0 0 s) as E.
  destruct (region_loop _ _ _ _ _ _ _ s) as [[[bad b] e] s1]. cbn [snd] in E.
  destruct bad; [exact E|]. repeat match goal with |- context [if ?x then _ else _] => destruct x end; exact E.
Qed.
End Addr.

Lemma ex_txt_lg src a s : lg (snd (ex_txt src a s)) = lg s.
Proof.
  unfold ex_txt.
  destruct ((hd0 a =? 114)%N && (hd0 (tl a) =? 115)%N); destruct src;
    repeat match goal with
           | |- context [let '(_, _) := ?x in _] => destruct x
           | |- context [if ?c then _ else _] => destruct c
           end; reflexivity.
Qed.

Lemma print_lines_lg : forall l s, lg (print_lines l s) = lg s.
Proof. induction l; intro s; [reflexivity|]. cbn [print_lines]. rewrite IHl. reflexivity. Qed.

(* ---------------------------------------------------------------------------------------- *)
(* T: a step that is harmless at EVERY depth (everything except the global command itself) *)
Definition T (s s' : st) : Prop := xgdep s' = xgdep s /\ forall dep, trk dep (lb s) (lb s').

Lemma T_same s s' : lg s' = lg s -> T s s'.
Proof. unfold lg. intro E. inversion E as [[E1 E2]]. split; [exact E2|]. intro dep. rewrite E1. apply trk_refl; reflexivity. Qed.
Lemma T_lns s s' : lns (lb s') = lns (lb s) -> nextid (lb s') = nextid (lb s) -> xgdep s' = xgdep s -> T s s'.
Proof. intros E1 E2 E3. split; [exact E3|]. intro dep. apply trk_refl; assumption. Qed.
Lemma T_refl s : T s s.
Proof. apply T_same. reflexivity. Qed.
Lemma T_trans s1 s2 s3 : T s1 s2 -> T s2 s3 -> T s1 s3.
Proof. intros [X1 K1] [X2 K2]. split; [congruence|]. intro dep. eapply trk_trans; [apply K1 | apply K2]. Qed.
Lemma T_edit s t b e : T s (edit s t b e).
Proof. split; [reflexivity|]. intro dep. apply trk_edit. Qed.

Lemma trk_undo_loop dep q : forall n l, trk dep l (undo_loop n q l).
Proof.
  induction n as [|n IH]; intro l; [apply trk_refl; reflexivity|]. cbn [undo_loop].
  destruct (nth_error (hist l) n) as [lo|]; [|apply trk_refl; reflexivity]. destruct (o_seq lo =? q); [|apply trk_refl; reflexivity].
  eapply trk_trans; [|apply IH].
  eapply trk_trans; [|apply trk_refl with (l := lbuf_replace (o_del lo) (o_pos lo) (o_nins lo)
                         (mklb (lns l) (marks l) (hist l) n (useq l) (useq_zero l) (useq_last l) (nextid l))); reflexivity].
  eapply trk_trans; [|apply trk_replace]. apply trk_refl; reflexivity.
Qed.

Lemma T_undo s : T s (fst (ec_undo s)).
Proof.
  unfold ec_undo. split; [destruct (lbuf_undo (lb s)); reflexivity|].
  intro dep. assert (X : trk dep (lb s) (fst (lbuf_undo (lb s)))).
  { unfold lbuf_undo. destruct (hist_u (lb s)); [apply trk_refl; reflexivity|].
    destruct (nth_error _ _); cbn [fst]; [apply trk_undo_loop | apply trk_refl; reflexivity]. }
  destruct (lbuf_undo (lb s)) as [l r]. exact X.
Qed.

Section Cmds.
Variable rvalid : bytes -> bool.
Variable rfind : bytes -> bytes -> bool -> option (nat * nat).
Variable filter : bytes -> bytes -> option bytes.
Variable readfile : bytes -> option bytes.
Variable curpath : bytes.

Lemma T_region loc s bad b e s1 : ex_region rvalid rfind loc s = (bad, b, e, s1) -> T s s1.
Proof. intro E. apply T_same. pose proof (ex_region_lg rvalid rfind loc s) as W. rewrite E in W. exact W. Qed.

Ltac reg loc s :=
  let E := fresh "E" in
  destruct (ex_region rvalid rfind loc s) as [[[?bad ?b] ?e] ?s1] eqn:E;
  let R := fresh "R" in pose proof (T_region _ _ _ _ _ _ E) as R.
Ltac chain R := eapply T_trans; [exact R|].
Ltac same := apply T_same; reflexivity.

Lemma T_insert loc cmd txt s : T s (fst (ec_insert rvalid rfind loc cmd txt s)).
Proof. unfold ec_insert. reg loc s. destruct (_ && _); [exact R|]. cbn [fst]. chain R. eapply T_trans; [apply T_edit|]. same. Qed.

Lemma T_print loc cmd s : T s (fst (ec_print rvalid rfind loc cmd s)).
Proof.
  unfold ec_print. destruct (_ && _); [apply T_refl|]. reg loc s. destruct (_ || _); [exact R|]. cbn [fst]. chain R.
  apply T_same. change (lg (set_xrow ?x ?r)) with (lg x). apply print_lines_lg.
Qed.

Lemma T_null loc cmd s : T s (fst (ec_null rvalid rfind loc cmd s)).
Proof. unfold ec_null. eapply T_trans; [|apply T_print]. same. Qed.

Lemma T_delete loc arg s : T s (fst (ec_delete rvalid rfind loc arg s)).
Proof.
  unfold ec_delete. reg loc s. destruct (_ || _); [exact R|]. cbn [fst]. chain R.
  eapply T_trans; [apply (T_same s1 (ex_yank s1 (REG arg) b e)); reflexivity|]. eapply T_trans; [apply T_edit|]. same.
Qed.

Lemma T_yank loc arg s : T s (fst (ec_yank rvalid rfind loc arg s)).
Proof. unfold ec_yank. reg loc s. destruct (_ || _); [exact R|]. cbn [fst]. chain R. same. Qed.

Lemma T_put loc arg s : T s (fst (ec_put rvalid rfind loc arg s)).
Proof.
  unfold ec_put. destruct (reg_special _); [same|]. destruct (reg_get s _); [|apply T_refl].
  reg loc s. destruct (_ && _); [exact R|]. cbn [fst]. chain R. eapply T_trans; [apply T_edit|]. same.
Qed.

Lemma T_lnum loc s : T s (fst (ec_lnum rvalid rfind loc s)).
Proof. unfold ec_lnum. reg loc s. destruct (_ || _); [exact R|]. cbn [fst]. chain R. same. Qed.

Lemma T_mark loc arg s : T s (fst (ec_mark rvalid rfind loc arg s)).
Proof.
  unfold ec_mark. reg loc s. destruct (_ || _); [exact R|]. cbn [fst]. chain R.
  apply T_lns; cbn [lb set_lb xgdep]; [apply lbuf_mark_lns | apply lbuf_mark_nextid | reflexivity].
Qed.

Lemma T_read loc arg s : T s (fst (ec_read rvalid rfind readfile curpath loc arg s)).
Proof.
  unfold ec_read. destruct (_ || _); [same|]. reg loc s. destruct (_ && _); [exact R|].
  destruct (readfile _); [|cbn [fst]; chain R; same]. cbn [fst]. chain R. eapply T_trans; [apply T_edit|]. same.
Qed.

Lemma T_write loc arg s : T s (fst (ec_write rvalid rfind loc arg s)).
Proof.
  unfold ec_write. destruct loc; [|same]. destruct arg; [|same]. reg (@nil N) s. destruct bad; [exact R|]. cbn [fst]. chain R.
  apply T_lns; reflexivity.
Qed.

Lemma T_exec loc arg s : T s (fst (ec_exec rvalid rfind filter loc arg s)).
Proof.
  unfold ec_exec.
  assert (H0 : T s (fst (if xwa s then (s, false) else bufs_modified s))).
  { destruct (xwa s); [apply T_refl|]. unfold bufs_modified. destruct (lbuf_modified (lb s)) as [l m] eqn:E.
    unfold lbuf_modified in E. inversion E; subst. destruct (negb _); cbn [fst]; apply T_lns; reflexivity. }
  destruct (if xwa s then (s, false) else bufs_modified s) as [s0 m]. cbn [fst] in H0.
  destruct m; [exact H0|]. destruct (negb _); [cbn [fst]; chain H0; same|]. destruct loc as [|c loc]; [cbn [fst]; chain H0; same|].
  reg (c :: loc) s0. destruct (_ || _); [cbn [fst]; chain H0; exact R|]. destruct (filter _ _); cbn [fst]; chain H0; [|exact R].
  chain R. apply T_edit.
Qed.

Lemma T_subst_rows : forall n i pat rep g s, T s (subst_rows rfind n i pat rep g s).
Proof.
  induction n as [|n IH]; intros i pat rep g s; [apply T_refl|]. cbn [subst_rows]. eapply T_trans; [|apply IH].
  destruct (line_at s i); [|apply T_refl]. destruct (subst_line _ _ _ _ _ _ _) as [[r|] rest]; [|apply T_refl]. apply T_edit.
Qed.

Lemma T_substitute loc arg s : T s (fst (ec_substitute rvalid rfind loc arg s)).
Proof.
  unfold ec_substitute. reg loc s. destruct bad; [exact R|]. destruct (re_read arg) as [pat rest].
  assert (H2 : T s (kwdset_if s1 pat 1)) by (chain R; apply T_same; apply kwdset_if_lg).
  destruct pat as [p|]; [|cbn [fst]; chain H2; same]. destruct rest as [|c rest]; [cbn [fst]; chain H2; same|].
  destruct (re_read _) as [rep flags]. destruct (negb _); [cbn [fst]; chain H2; same|]. destruct (kwddir _ =? 0); [exact H2|].
  destruct (negb _); [exact H2|]. cbn [fst]. chain H2. apply T_subst_rows.
Qed.

Theorem T_simple a loc cmd arg txt s : T s (fst (ex_simple rvalid rfind filter readfile curpath a loc cmd arg txt s)).
Proof.
  unfold ex_simple.
  repeat match goal with |- context [if ?c then _ else _] => destruct c end;
    first [ apply T_insert | apply T_delete | apply T_mark | apply T_print | apply T_put | apply T_read | apply T_substitute
          | apply T_undo | apply T_write | apply T_yank | apply T_exec | apply T_lnum | apply T_null | same | idtac ].
  all: unfold ec_rs; destruct txt; same.
Qed.

(* ---------------------------------------------------------------------------------------- *)
(* J: a step of a command list running at nesting depth xgdep s: harmless for the marks of every ENCLOSING global
   (depths <= xgdep s), and it leaves no mark of a deeper depth behind *)
Definition NM (s : st) : Prop := forall dep, (xgdep s < dep)%nat -> nomarks (N.of_nat dep) (lns (lb s)).
Definition Jk (k : nat) (s s' : st) : Prop :=
  xgdep s' = xgdep s /\ (forall dep, (dep <= k)%nat -> trk (N.of_nat dep) (lb s) (lb s')) /\ (NM s -> NM s').
Definition J (s s' : st) : Prop := Jk (xgdep s) s s'.

Lemma T_Jk k s s' : T s s' -> Jk k s s'.
Proof.
  intros [X K]. split; [exact X|]. split; [intros dep _; apply K|].
  intros N dep H. rewrite X in H. apply (trk_nomarks _ _ _ (K (N.of_nat dep))). apply N, H.
Qed.
Lemma T_J s s' : T s s' -> J s s'.
Proof. apply T_Jk. Qed.

Lemma Jk_trans k s1 s2 s3 : Jk k s1 s2 -> Jk k s2 s3 -> Jk k s1 s3.
Proof.
  intros (X1 & K1 & N1) (X2 & K2 & N2). split; [congruence|]. split; [|auto].
  intros dep H. eapply trk_trans; [apply K1, H | apply K2, H].
Qed.
Lemma J_trans s1 s2 s3 : J s1 s2 -> J s2 s3 -> J s1 s3.
Proof. unfold J. intros H1 H2. pose proof H1 as (X & _). rewrite X in H2. eapply Jk_trans; eassumption. Qed.
Lemma Jk_weak k k' s s' : (k' <= k)%nat -> Jk k s s' -> Jk k' s s'.
Proof. intros H (X & K & N). split; [exact X|]. split; [|exact N]. intros dep Hd. apply K. lia. Qed.

Section Rec.
Variable exec : bytes -> st -> st * Z.
Hypothesis exec_J : forall ln s0, J s0 (fst (exec ln s0)).

(* a state in the loop of a global at outer depth d: nesting depth S d; the scan clears marks of depth S d only *)
Lemma Jk_glob_loop d : forall fuel i pat body not s, xgdep s = S d ->
  Jk d s (glob_loop rfind exec fuel i pat body not (N.of_nat (S d)) s).
Proof.
  induction fuel as [|f IH]; intros i pat body not s X; [apply T_Jk; same|]. cbn [glob_loop].
  destruct (nth_error (lns (lb s)) i) as [x|]; [|apply T_Jk, T_refl].
  set (run := Bool.eqb _ not).
  assert (H1 : Jk d s (fst (if run then exec body (set_xrow s (Z.of_nat i)) else (s, 0)))).
  { destruct run; [|apply T_Jk, T_refl]. eapply Jk_trans; [apply T_Jk; same|].
    pose proof (exec_J body (set_xrow s (Z.of_nat i))) as H. unfold J in H. cbn [xgdep set_xrow] in H. rewrite X in H.
    apply (Jk_weak (S d)); [lia | exact H]. }
  destruct (if run then exec body (set_xrow s (Z.of_nat i)) else (s, 0)) as [s1 r]. cbn [fst] in H1.
  destruct (run && negb (r =? 0)); [exact H1|].
  set (i1 := if run then _ else i).
  assert (X1 : xgdep s1 = S d) by (destruct H1 as (X1 & _); congruence).
  assert (H2 : Jk d s1 (set_lb s1 (snd (glob_scan i1 (N.of_nat (S d)) (lb s1))))).
  { unfold glob_scan.
    assert (SC : forall dep, dep <> S d -> lgl_eq (N.of_nat dep) (lns (lb s1)) (snd (scan_l i1 (N.of_nat (S d)) (lns (lb s1)))))
      by (intros dep Hd; apply lgl_eq_scan; lia).
    destruct (scan_l i1 (N.of_nat (S d)) (lns (lb s1))) as [j L2]. cbn [snd] in *.
    split; [reflexivity|]. split.
    - intros dep Hd. cbn [lb set_lb]. apply trk_lgl; [apply SC; lia | reflexivity].
    - intros N dep Hd. cbn [xgdep set_lb] in Hd. cbn [lb set_lb lns with_lns]. rewrite X1 in Hd.
      apply (nomarks_lgl _ _ _ (SC dep ltac:(lia))). apply N. rewrite X1. exact Hd. }
  destruct (glob_scan i1 (N.of_nat (S d)) (lb s1)) as [j l]. cbn [snd] in H2.
  eapply Jk_trans; [exact H1|]. eapply Jk_trans; [exact H2|]. apply IH. exact X1.
Qed.

Lemma J_glob fuel loc cmd arg s : J s (fst (ec_glob rvalid rfind exec fuel loc cmd arg s)).
Proof.
  unfold ec_glob. destruct (GDEPMAX <=? xgdep s)%nat; [apply T_J; same|].
  set (loc' := match loc, xgdep s with [], O => [37%N] | _, _ => loc end).
  reg loc' s. destruct (_ || _); [apply T_J, R|].
  destruct (re_read arg) as [pat body].
  assert (H2 : T s (kwdset_if s1 pat 1)) by (chain R; apply T_same; apply kwdset_if_lg).
  destruct (kwddir _ =? 0); [apply T_J, H2|]. destruct (negb _); [apply T_J, H2|]. cbn [fst].
  eapply J_trans; [apply T_J, H2|].
  set (s2 := kwdset_if s1 pat 1). set (d := xgdep s2). set (dp := N.of_nat (S d)).
  set (s4 := set_lb (set_gdep s2 (S d)) (globset_range (Z.to_nat (e - b - 1)) (Z.to_nat (b + 1)) dp (lb (set_gdep s2 (S d))))).
  set (s5 := glob_loop rfind exec fuel (Z.to_nat b) (kwd s4) body (mem 33 cmd || (hd0 cmd =? 118)%N) dp s4).
  assert (X4 : xgdep s4 = S d) by reflexivity.
  pose proof (Jk_glob_loop d fuel (Z.to_nat b) (kwd s4) body (mem 33 cmd || (hd0 cmd =? 118)%N) s4 X4) as (X5 & K5 & N5).
  fold dp in X5, K5, N5. fold s5 in X5, K5, N5.
  unfold J. fold d. split; [reflexivity|]. split.
  - intros dep Hd. cbn [lb set_lb set_gdep].
    assert (NE : dp <> N.of_nat dep) by (unfold dp; lia).
    eapply trk_trans; [|apply trk_lgl; [apply (lgl_eq_globclear _ dp NE) | apply nextid_globclear]].
    eapply trk_trans; [|apply K5, Hd].
    apply trk_lgl; [apply (lgl_eq_globset_range _ dp NE) | apply nextid_globset_range].
  - intros N dep Hd. cbn [xgdep set_gdep] in Hd. cbn [lb set_lb set_gdep]. fold d in Hd.
    destruct (Nat.eq_dec dep (S d)) as [->|NE]; [apply sweep_nomarks|].
    assert (NE' : dp <> N.of_nat dep) by (unfold dp; lia).
    apply (nomarks_lgl _ _ _ (lgl_eq_globclear _ dp NE' _ _ _)).
    assert (N4 : NM s4).
    { intros dep' Hd'. rewrite X4 in Hd'. cbn [lb s4 set_lb set_gdep].
      apply (nomarks_lgl _ _ _ (lgl_eq_globset_range (N.of_nat dep') dp ltac:(unfold dp; lia) _ _ _)). apply N. fold d. lia. }
    apply (N5 N4). rewrite X5, X4. lia.
Qed.

Lemma J_at loc arg s : J s (fst (ec_at rvalid rfind exec loc arg s)).
Proof.
  unfold ec_at. destruct (reg_special _); [apply T_J; same|]. destruct (reg_get s _) as [buf|]; [|apply T_J, T_refl].
  reg loc s. destruct (_ || _); [apply T_J, R|].
  pose proof (exec_J buf (set_xrow s1 b)) as H2. destruct (exec buf (set_xrow s1 b)) as [s2 r]. cbn [fst] in *.
  eapply J_trans; [apply T_J, R|]. eapply J_trans; [apply T_J; apply (T_same s1 (set_xrow s1 b)); reflexivity|].
  eapply J_trans; [exact H2|]. apply T_J. apply T_lns; reflexivity.
Qed.
End Rec.

Theorem J_ex_exec : forall fuel ret ln s, J s (fst (ex_exec rvalid rfind filter readfile curpath fuel ret ln s)).
Proof.
  induction fuel as [|f IH]; intros ret ln s; [apply T_J; same|]. cbn [ex_exec].
  destruct ln as [|c ln]; [apply T_J, T_refl|].
  destruct (ex_loc (c :: ln)) as [ln1 loc]. destruct (ex_cmd ln1) as [ln2 cmd].
  set (abbr := match ex_idx cmd with Some a => a | None => _ end).
  destruct (ex_arg ln2 abbr) as [ln3 arg].
  pose proof (ex_txt_lg ln3 abbr s) as TW. destruct (ex_txt ln3 abbr s) as [[ln4 txt] s1]. cbn [snd] in TW.
  match goal with |- J _ (fst (let '(s2, ret2) := ?m in _)) => assert (M : J s (fst m)) end.
  { eapply J_trans; [apply T_J, (T_same s s1 TW)|]. destruct (ex_idx cmd) as [a|].
    - destruct ((hd0 a =? 103)%N || (hd0 a =? 118)%N); [apply J_glob; intros; apply IH|].
      destruct (hd0 a =? 64)%N; [apply J_at; intros; apply IH|]. apply T_J, T_simple.
    - destruct (is_other cmd); apply T_J; same. }
  match goal with |- J _ (fst (let '(s2, ret2) := ?m in _)) => destruct m as [s2 ret2] end. cbn [fst] in M.
  eapply J_trans; [exact M | apply IH].
Qed.

(* ---------------------------------------------------------------------------------------- *)
(* consequences *)

(* (1) ANY command list -- nested globals, u, !, @, w, several commands -- run as the executor of a global whose marks have
   depth dep <= the nesting depth of the state: identities stay unique, a mark of that depth is dropped only together with
   its line, no identity returns, no mark of that depth appears (the `pres` half and the `sub` half of good_exec).
   The third half of good_exec (clean_below after the restart rule) does NOT hold for such lists: KF-GLOB-LOW, and
   undo_breaks_clean_below below for u *)
Theorem any_list_pres fuel body s s' r dep : ex_exec rvalid rfind filter readfile curpath fuel 0 body s = (s', r) ->
  (dep <= xgdep s)%nat ->
  xgdep s' = xgdep s /\ pres_lb (N.of_nat dep) (lb s) (lb s') /\
  sub (mids (N.of_nat dep) (lns (lb s'))) (mids (N.of_nat dep) (lns (lb s))).
Proof.
  intros E H. pose proof (J_ex_exec fuel 0 body s) as (X & K & _). rewrite E in X, K. cbn [fst] in X, K.
  destruct (K dep H) as [P S]. auto.
Qed.

(* (2) the invariant of scripts: unique identities and no mark of any depth above the current nesting depth *)
Definition GI (s : st) : Prop := uniq (lb s) /\ NM s.

Theorem GI_ex_exec fuel ret ln s : GI s -> GI (fst (ex_exec rvalid rfind filter readfile curpath fuel ret ln s)).
Proof.
  intros [U N]. destruct (J_ex_exec fuel ret ln s) as (X & K & N').
  split; [|apply N', N]. destruct (K 0%nat ltac:(lia)) as [P _]. destruct (P U) as [U' _]. exact U'.
Qed.

Theorem GI_ex_main : forall n fuel s, GI s -> GI (ex_main rvalid rfind filter readfile curpath n fuel s).
Proof.
  induction n as [|n IH]; intros fuel s H; [exact H|]. cbn [ex_main].
  destruct (xquit s); [exact H|]. destruct (inp s) as [|ln rest]; [exact H|].
  unfold ex_command.
  pose proof (GI_ex_exec fuel 0 ln (set_inp s rest) H) as H1.
  destruct (ex_exec _ _ _ _ _ fuel 0 ln (set_inp s rest)) as [s1 r]. cbn [fst] in H1. apply IH. exact H1.
Qed.

End Cmds.

Lemma nomarks_mknew_nil dep : forall t nid, nomarks dep (mknew [] t nid).
Proof.
  induction t as [|x t IH]; intro nid; [constructor|]. cbn [mknew]. constructor; [|apply IH].
  unfold glob_marked. cbn [lgl]. apply N.bits_0.
Qed.

Lemma GI_init data input wa : GI (init_st data input wa).
Proof.
  split; [apply uniq_init|]. intros dep _. cbn [init_st lb init_lbuf lns].
  rewrite lbuf_edit_lns by (cbn; lia). unfold splice, new_of. cbn [lns firstn skipn app]. rewrite app_nil_r. apply nomarks_mknew_nil.
Qed.

(* (3) the restart index of ec_glob: the model's Z.to_nat (Z.min i xrow) IS the repaired C expression
   `i = MAX(0, MIN(i, xrow))` (/repo 5d2c325: a "0;" in the command list leaves xrow at -1) *)
Lemma restart_clamped (i : nat) (x : Z) : Z.to_nat (Z.min (Z.of_nat i) x) = Z.to_nat (Z.max 0 (Z.min (Z.of_nat i) x)).
Proof. lia. Qed.

(* (4) why u is not in track_cmds: it is NOT a good executor.  File a b c d; `0a` put n1 n2 on top; a global visiting row 2
   (the line a) with b c d still marked runs u: the two lines above go away, xrow stays 2, and the marked line b now sits
   at row 1 < min(i, xrow): the restart rule skips it (the root cause of KF-GLOB-LOW, here with a single command) *)
Definition undo_witness : st :=
  let ex := ex_command (fun _ => true) (fun _ _ _ => None) (fun _ _ => None) (fun _ => None) [] in
  let s1 := fst (ex 10%nat [48;97]%N (init_st [97;10;98;10;99;10;100;10]%N [[110;49];[110;50];[46]]%N true)) in
  set_xrow (set_lb s1 (globset_range 3 3 1%N (lb s1))) 2.

Theorem undo_not_good_exec : ~ good_exec (fun _ s => ec_undo s) 1%N.
Proof.
  intro G.
  destruct (G [] undo_witness (fst (ec_undo undo_witness)) (snd (ec_undo undo_witness))) as [_ C].
  - destruct (ec_undo undo_witness); reflexivity.
  - vm_compute. discriminate.
  - intros j Hj. destruct j as [|[|[|j]]]; try (vm_compute; reflexivity). exfalso. vm_compute in Hj. lia.
  - specialize (C 1%nat). assert (H : (1 < Z.to_nat (Z.min (xrow undo_witness) (xrow (fst (ec_undo undo_witness)))))%nat) by (vm_compute; lia).
    specialize (C H). vm_compute in C. discriminate C.
Qed.
