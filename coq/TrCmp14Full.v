(* TrCmp14Full.v -- C14, composition (part 3): from the PATTERN STRING.  rstr_make(pat, flg) of rstr.c on the C text
   (TrRstrMake.tr_rstr_make_model) leaves the struct TrCmp14.tr_subst_line_literal asks for, so for every pattern the classifier
   of rstr.c accepts ([^][\<]literal[\>][$], with or without ignore-case), every line and every replacement:
     re = rstr_make(pat, flg);  then, for the line, the loop of ec_substitute with the translated rstr_find under it
   leaves in r the line SubstDefs.subst_line computes with the modelled engine of Properties_C14 (SubstEngineDefs.engine_find),
   hence (C14_structure + C12's equiv_spec) the line in which exactly the leftmost non-overlapping matches are rewritten
   (tr_subst_line_literal_spec).  Runs: sl_run_linked executes rstr_make, the loop with rstr_find linked in (TrCmp14.ext_link),
   sbuf_str and sbuf_buf on a concrete memory. *)
From Coq Require Import List ZArith NArith Bool Lia.
From NV Require Import Bytes UcDefs GenConsts CLite CLiteProps GenCFuncs CLiteTac CLiteExt TrSbuf SubstDefs SubstProps TrSubst TrCmp14Loop TrCmp14.
From NV Require RstrDefs RstrProps SubstEngineDefs TrRstr TrRstrMake.
Import ListNotations.
Local Open Scope Z_scope.

(* the model of the loop depends on the matcher only through its answers *)
Lemma scan_ext f g rep gflag : (forall ln nb, f ln nb = g ln nb) -> forall fuel nb ln, scan f rep gflag fuel nb ln = scan g rep gflag fuel nb ln.
Proof.
  intros H. induction fuel as [|n IH]; intros nb ln; [reflexivity|]. cbn [scan]. rewrite H.
  destruct (g ln nb) as [offs|]; [|reflexivity]. destruct (one_match rep ln offs) as [[out ln2]|]; [|reflexivity].
  destruct (stops gflag ln2); [reflexivity|]. rewrite IH. reflexivity.
Qed.
Lemma subst_line_ext f g rep gflag line : (forall ln nb, f ln nb = g ln nb) -> subst_line f rep gflag line = subst_line g rep gflag line.
Proof. intro H. unfold subst_line. rewrite (scan_ext f g rep gflag H). reflexivity. Qed.

(* the literal of an accepted pattern is a piece of the pattern *)
Lemma simple_lit ic pat rs : RstrDefs.rstr_simple ic pat = Some rs -> nonul pat ->
  nonul (RstrDefs.r_str rs) /\ (length (RstrDefs.r_str rs) <= length pat)%nat /\ RstrDefs.r_icase rs = ic.
Proof.
  intros H Hn. destruct (RstrProps.rstr_simple_sound _ _ _ H) as (Ep & _ & Eic). split; [|split; [|exact Eic]].
  - rewrite Ep in Hn. unfold RstrDefs.spat_string, RstrDefs.spat_of in Hn. cbn [RstrDefs.p_lit] in Hn. unfold nonul in Hn.
    apply Forall_app in Hn. destruct Hn as [_ Hn]. apply Forall_app in Hn. destruct Hn as [_ Hn]. apply Forall_app in Hn. exact (proj1 Hn).
  - rewrite Ep. unfold RstrDefs.spat_string, RstrDefs.spat_of. cbn [RstrDefs.p_lit]. rewrite !app_length. lia.
Qed.

Theorem tr_subst_line_literal_full ext fuelF dF (m : mem) bp (pat : bytes) flg rs bl bo bsp bs fo (line rep flags : bytes)
    d fuel dM fuelM dE a0 a1 a2 a3 a6 a7 a8 a9 a11 :
  ext_is_find ext fuelF dF ->
  let ic := TrRstr.nz (Z.land flg RE_ICASE) in
  (* the pattern, accepted by the classifier of rstr.c *)
  str_at m bp pat -> nonul pat -> nth_error m TrRstrMake.G_meta = Some TrRstrMake.gb_meta -> Z.of_nat (length pat) < 2147483647 ->
  RstrDefs.rstr_simple ic pat = Some rs ->
  (* the line, the replacement, the flags, offs[32] with any contents *)
  str_at m bl line -> nonul line -> Z.of_nat (length line) <= 500000000 ->
  cstr_in m G_xrep 0 rep -> nonul rep ->
  nth_error m bsp = Some [VPtr bs fo] -> cstr_in m bs fo flags -> nonul flags ->
  (bo < length m)%nat -> (exists blk0, nth_error m bo = Some blk0 /\ length blk0 = 32%nat) ->
  bl <> bo /\ G_xrep <> bo /\ bsp <> bo /\ bs <> bo ->
  (* fuel: rstr_make's scan of the pattern, rstr_find's scan of the line and its 15 group stores, the loop itself *)
  (length pat < fuelM)%nat -> (length pat < fuelF)%nat -> (length line + 17 < fuelF)%nat ->
  let find := SubstEngineDefs.engine_find dE ic pat in
  find_ptr_ok find line rep ->
  forall lv, (S (length line) <= fuel)%nat -> (length rep < fuel)%nat ->
  let rb := S (length m) in
  let st o r l mm := mkst [a0; a1; a2; a3; VPtr rb 0; VPtr bo 0; a6; a7; a8; a9; VPtr bsp 0; a11; VPtr bl (Z.of_nat o); r; l] mm in
  exists m0,
    callf cprog fuelM (S (S dM)) F_rstr_make [VPtr bp 0; VInt flg] m = Ok (VPtr rb 0, m0) /\
    (length m <= length m0)%nat /\ (forall b, (b < length m)%nat -> nth_error m0 b = nth_error m b) /\
    match subst_line find rep (has_g flags) line with
    | Unchanged =>
        exists lv' mk', exec (callx ext cprog fuel (S (S (S d)))) fuel es_while (st 0%nat (VInt 0) lv m0)
                        = ONormal (st 0%nat (VInt 0) lv' mk') /\ Ctx m0 bo mk'
    | Changed new =>
        Z.of_nat (length new) <= 500000000 ->
        exists o' p lv' mk' cells,
          exec (callx ext cprog fuel (S (S (S d)))) fuel (SSeq es_while es_str) (st 0%nat (VInt 0) lv m0)
          = ONormal (st o' (VPtr p 0) lv' mk') /\ Ctx m0 bo mk' /\ Rinv m0 mk' p cells /\ map byte_of cells = new
    | SOOB | SFuel => True
    end.
Proof.
  intros Hext ic Hp Hnp Hmeta Hpm Hsim Hline Hnline Hl5 Hrep Hnrep Hsp Hflags Hnflags Hbo Hob Hne HfM Hf1 Hf2 find Hptr lv Hfu Hfr rb st.
  destruct (simple_lit ic pat rs Hsim Hnp) as (Hnl & Hll & Eic).
  pose proof (TrRstrMake.tr_rstr_make_model m bp pat 0 flg ic rs dM fuelM Hp Hnp ltac:(lia) Hmeta Hpm HfM Hsim) as T.
  change (Z.of_nat 0) with 0 in T.
  set (m0 := m ++ [[VPtr bp 0];
                   TrRstr.rstr_block (S (S (length m))) (Z.land flg RE_ICASE) (b2z (RstrDefs.r_lbeg rs)) (b2z (RstrDefs.r_lend rs))
                     (b2z (RstrDefs.r_wbeg rs)) (b2z (RstrDefs.r_wend rs));
                   cstr_block (zb (RstrDefs.r_str rs))]) in *.
  assert (Hold : forall b, (b < length m)%nat -> nth_error m0 b = nth_error m b) by (intros b Hb; apply nth_error_app1; exact Hb).
  exists m0. split; [exact T|]. split; [unfold m0; rewrite app_length; lia|]. split; [exact Hold|].
  assert (Lt : forall b (blk : block), nth_error m b = Some blk -> (b < length m)%nat) by (intros b blk H; apply nth_error_Some; congruence).
  assert (Ers : TrRstr.rs_of (RstrDefs.r_str rs) (Z.land flg RE_ICASE) (b2z (RstrDefs.r_lbeg rs)) (b2z (RstrDefs.r_lend rs))
                  (b2z (RstrDefs.r_wbeg rs)) (b2z (RstrDefs.r_wend rs)) = rs).
  { unfold TrRstr.rs_of. rewrite !TrRstr.nz_b2z. fold ic. rewrite <- Eic. destruct rs; reflexivity. }
  assert (Ef : forall ln nb, find ln nb = lit_find rs ln nb) by (apply engine_find_simple; exact Hsim).
  rewrite (subst_line_ext find (lit_find rs) rep (has_g flags) line Ef).
  assert (Hptr' : find_ptr_ok (lit_find rs) line rep) by (intros o nb offs Ho Hf; apply (Hptr o nb offs Ho); rewrite Ef; exact Hf).
  rewrite <- Ers in Hptr' |- *.
  assert (Ib : forall b : bool, int_ok (b2z b)) by (intros [|]; unfold int_ok; cbn; lia).
  destruct Hrep as (xblk & xtail & Hx & Hx0 & Hx1). destruct Hflags as (fblk & ftail & Hfb & Hf0 & Hfl1). destruct Hob as (oblk & Hob1 & Hob2).
  apply (tr_subst_line_literal ext fuelF dF m0 bl bo bsp bs rb (S (S (length m))) fo line rep flags (RstrDefs.r_str rs)
           (Z.land flg RE_ICASE) _ _ _ _ d fuel a0 a1 a2 a3 a6 a7 a8 a9 a11); try assumption; try apply Ib; try lia.
  - unfold str_at. rewrite Hold by (apply (Lt _ _ Hline)). exact Hline.
  - exists xblk, xtail. rewrite Hold by (apply (Lt _ _ Hx)). auto.
  - rewrite Hold by (apply (Lt _ _ Hsp)). exact Hsp.
  - exists fblk, ftail. rewrite Hold by (apply (Lt _ _ Hfb)). auto.
  - unfold m0. rewrite app_length. lia.
  - exists oblk. rewrite Hold by exact Hbo. auto.
  - unfold m0, rb. rewrite nth_error_app2 by lia. replace (S (length m) - length m)%nat with 1%nat by lia. reflexivity.
  - unfold str_at, m0. rewrite nth_error_app2 by lia. replace (S (S (length m)) - length m)%nat with 2%nat by lia. reflexivity.
  - change RE_ICASE with 1. destruct (TrRstrMake.land1_cases flg) as [E|E]; rewrite E; unfold int_ok; lia.
Qed.

(* ------------------------------------------------------------------ down to the specification *)
(* the same with the conclusion of Properties_C14.C14_structure unfolded, and what one search of the chain answers (C12's
   declarative spec, for a rest that ends in the line's newline): the rewritten line the C text leaves is
   g1 r1 c1 g2 r2 c2 ... tail for the decomposition g1 m1 c1 ... tail of the old line into the successive LEFTMOST matches *)
Theorem literal_chain_spec dE ic pat rs rep gflag line new :
  RstrDefs.rstr_simple ic pat = Some rs ->
  subst_line (SubstEngineDefs.engine_find dE ic pat) rep gflag line = Changed new ->
  (exists segs tail, segs <> [] /\ Chain (lit_find rs) rep gflag false line segs tail /\
     line = flat_old segs ++ tail /\ new = flat_new segs ++ tail /\ (gflag = false -> length segs = 1%nat)) /\
  (forall content nb, ~ In 0%N content -> ~ In 10%N content -> ~ In 10%N (RstrDefs.r_str rs) ->
     lit_find rs (content ++ [10%N]) nb =
     match RstrDefs.spec_find (RstrDefs.spat_of rs) (RstrDefs.r_icase rs) nb content with
     | Some i => Some (RstrDefs.rstr_groups 16 (Z.of_nat i) (Z.of_nat (i + length (RstrDefs.r_str rs))))
     | None => None
     end).
Proof.
  intros Hsim H. rewrite (subst_line_ext _ (lit_find rs) rep gflag line (engine_find_simple dE ic pat rs Hsim)) in H.
  split; [exact (structure (lit_find rs) rep gflag line new H)|]. intros content nb. apply lit_find_spec.
Qed.

(* ------------------------------------------------------------------ running it *)
(* the program's globals with xrep := rep, then the line, offs[32] (indeterminate), the cell of `s`, the flags, the pattern;
   re = rstr_make(pat, flg); the loop with rstr_find LINKED IN (ext_link: no matcher oracle), sbuf_str, sbuf_buf *)
Definition sl_run_linked (pat rep flags line : bytes) (flg : Z) (fuel : nat) : res (option (list N)) :=
  let n := length cglobals in
  let m := upd cglobals G_xrep (cstr_block (zb rep)) ++
           [cstr_block (zb line); repeat VUndef 32; [VPtr (n + 3) 0]; cstr_block (zb flags); cstr_block (zb pat)] in
  match callf cprog fuel 8 F_rstr_make [VPtr (n + 4) 0; VInt flg] m with
  | Ok (VPtr rb 0, m0) =>
      let st := mkst [VInt 0; VInt 0; VInt 0; VInt 0; VPtr rb 0; VPtr (n + 1) 0; VInt 0; VInt 0; VInt 0; VInt 0; VPtr (n + 2) 0; VInt 0;
                      VPtr n 0; VInt 0; VUndef] m0 in
      let call := callx (ext_link fuel 6) cprog fuel 8 in
      match exec call fuel (SSeq es_while (SIf (ELocal 13) es_str SSkip)) st with
      | ONormal st' =>
          match nth_error (locals st') 13 with
          | Some (VPtr p 0) =>
              match call F_sbuf_buf [VPtr p 0] (memm st') with
              | Ok (VPtr b 0, m3) => match nth_error m3 b with Some blk => Ok (Some (map byte_of (cells_to_nul blk))) | None => Err EShape end
              | Ok _ => Err EShape
              | Err e => Err e
              end
          | Some (VInt 0) => Ok None
          | _ => Err EShape
          end
      | OErr e => Err e
      | _ => Err EShape
      end
  | Ok _ => Err EShape
  | Err e => Err e
  end.

(* s/ab/X/g on "abcabab": XcXX;  s/ab/X/ : Xcabab;  s/^ab/X/g: once (NOTBOL);  s/\<ab\>/[\0]/g on "ab abc ab": [ab] abc [ab];
   s/AB/X/g with ignore-case;  s/zz/X/g: no match, r stays NULL *)
Local Open Scope N_scope.
Example sl_run_linked_examples :
  sl_run_linked [97;98] [88] [103] [97;98;99;97;98;97;98;10] 0%Z 100%nat = Ok (Some [88;99;88;88;10]) /\
  sl_run_linked [97;98] [88] [] [97;98;99;97;98;97;98;10] 0%Z 100%nat = Ok (Some [88;99;97;98;97;98;10]) /\
  sl_run_linked [94;97;98] [88] [103] [97;98;97;98;10] 0%Z 100%nat = Ok (Some [88;97;98;10]) /\
  sl_run_linked [92;60;97;98;92;62] [91;92;48;93] [103] [97;98;32;97;98;99;32;97;98;10] 0%Z 100%nat
    = Ok (Some [91;97;98;93;32;97;98;99;32;91;97;98;93;10]) /\
  sl_run_linked [65;66] [88] [103] [97;98;99;97;66;10] 1%Z 100%nat = Ok (Some [88;99;88;10]) /\
  sl_run_linked [122;122] [88] [103] [97;98;99;10] 0%Z 100%nat = Ok None.
Proof. repeat split; vm_compute; reflexivity. Qed.
