(* DrawDirProps.v -- C19, the text direction: every prompt (answered or cancelled) leaves the option as it found it, so the
   rows a partial redraw draws after any number of prompts are the rows of the full repaint; the variant of led_prompt that
   returns early when cancelled does not; the terminal cursor (vi_pos) is on the cell led_render gave the character. *)
From Coq Require Import List Arith ZArith NArith Bool Lia ZifyBool.
From NV Require Import Bytes TermEmu DrawDefs DrawProps DrawDirDefs.
Import ListNotations.
Local Open Scope Z_scope.

(* ---------- the prompt ---------- *)
Lemma led_line_td s : e_td (fst (fst (led_line s))) = e_td s.
Proof. unfold led_line. destruct (led_line_keys [] (e_keys s)) as [[txt key] rest]. reflexivity. Qed.

Theorem prompt_preserves_td pref post s : e_td (fst (led_prompt pref post s)) = e_td s.
Proof.
  unfold led_prompt, td_set, led_line. cbn [e_td e_keys].
  destruct (led_line_keys [] (e_keys s)) as [[txt key] rest]. cbn [e_td e_keys].
  destruct (key =? 10)%N; reflexivity.
Qed.
Theorem prompts_preserve_td n s : e_td (prompts n s) = e_td s.
Proof. revert s. induction n as [|n IH]; intro s; cbn [prompts]; [reflexivity|]. rewrite IH. apply prompt_preserves_td. Qed.

(* the prompt is answered exactly when the line ended with Enter; the keys up to and including the ending key are consumed *)
Theorem prompt_answered_iff pref post s :
  snd (led_prompt pref post s) <> None <-> snd (fst (led_line_keys [] (e_keys s))) = 10%N.
Proof.
  unfold led_prompt, td_set, led_line. cbn [e_td e_keys].
  destruct (led_line_keys [] (e_keys s)) as [[txt key] rest]. cbn [fst snd e_td e_keys].
  destruct (key =? 10)%N eqn:E; cbn [snd]; split; intro H; try congruence; try lia.
Qed.

(* the early return: a cancelled prompt leaves td = +2, whatever it was *)
Theorem prompt_early_cancelled_forces_ltr pref post s :
  snd (led_prompt_early pref post s) = None -> e_td (fst (led_prompt_early pref post s)) = 2.
Proof.
  unfold led_prompt_early, td_set, led_line. cbn [e_td e_keys].
  destruct (led_line_keys [] (e_keys s)) as [[txt key] rest]. cbn [e_td e_keys].
  destruct (key =? 10)%N; cbn [negb fst snd e_td]; [discriminate|reflexivity].
Qed.
Theorem prompt_early_loses_td : exists s, e_td (fst (led_prompt_early [] [] s)) <> e_td s /\ e_td (fst (led_prompt [] [] s)) = e_td s.
Proof. exists (mkEd 0 [27%N]). split; vm_compute; congruence. Qed.

(* the prompt's own line is always left-to-right *)
Lemma prompt_line_ltr hi m : prompt_line_dir hi m = 1.
Proof. reflexivity. Qed.
(* under td = +2 every line is left-to-right, under the default a line whose first pattern match says -1 is right-to-left *)
Lemma dir_context_forced hi m : dir_context 2 hi m = 1 /\ dir_context (-2) hi m = -1.
Proof. split; reflexivity. Qed.
Lemma dir_context_default_rtl td : -1 <= td <= 1 -> dir_context td true (Some (-1)) = -1.
Proof. intro H. unfold dir_context. replace (1 <? td) with false by lia. replace (td <? -1) with false by lia.
  rewrite andb_false_r. reflexivity. Qed.

(* ---------- cells ---------- *)
Lemma vi_pos_led_pos ctx p xleft xcols : vi_pos ctx p xleft xcols = led_pos ctx p xleft (xleft + xcols).
Proof. reflexivity. Qed.
Lemma led_pos_inside dir p beg en : beg <= p < en -> 0 <= led_pos dir p beg en < en - beg.
Proof. unfold led_pos. destruct (0 <=? dir); lia. Qed.
Lemma led_pos_inj dir p q beg en : led_pos dir p beg en = led_pos dir q beg en -> p = q.
Proof. unfold led_pos. destruct (0 <=? dir); lia. Qed.

Section RowProps.
Variable G : Type.
Notation rline := (rline G).
Notation place := (@place G).
Notation render_row := (@render_row G).
Notation row_img := (@row_img G).

(* ---------- partial redraws after prompts draw the rows of the full repaint ---------- *)
Theorem update_after_prompts_is_repaint (blank : list (option G)) n s xleft xcols (lines : nat -> rline) h otop xtop :
  drawupdate _ blank (row_img (e_td (prompts n s)) xleft xcols lines) h otop xtop
             (win _ (row_img (e_td s) xleft xcols lines) otop h)
  = win _ (row_img (e_td s) xleft xcols lines) xtop h.
Proof. rewrite prompts_preserve_td. apply drawupdate_is_repaint. Qed.

Theorem fix_after_prompts_is_repaint (blank : list (option G)) k s xleft xcols (old new : nat -> rline) W h r1 e n :
  (1 <= h)%nat -> (r1 <= e)%nat ->
  (forall i, (i < r1)%nat -> new i = old i) ->
  (forall j, new (r1 + n + j)%nat = old (e + j)%nat) ->
  fix_pre W h r1 e n ->
  drawfix _ blank (row_img (e_td (prompts k s)) xleft xcols new) W h (Z.of_nat r1) (Z.of_nat e - 1) (Z.of_nat n)
          (win _ (row_img (e_td s) xleft xcols old) W h)
  = win _ (row_img (e_td s) xleft xcols new) W h.
Proof.
  intros Hh Hr Hb Ha Hp. rewrite prompts_preserve_td. apply drawfix_is_repaint; try assumption.
  - intros i Hi. unfold DrawDirDefs.row_img. rewrite Hb by exact Hi. reflexivity.
  - intro j. unfold DrawDirDefs.row_img. rewrite Ha. reflexivity.
Qed.

(* ---------- the cursor cell ---------- *)
Lemma place_length ctx cbeg cend cells c : length (place ctx cbeg cend cells c) = length cells.
Proof.
  unfold DrawDirDefs.place. destruct c as [[p w] g].
  destruct ((0 <=? led_pos ctx p cbeg cend) && (led_pos ctx p cbeg cend <? cend - cbeg) && (0 <=? led_pos ctx (p + w - 1) cbeg cend) && (led_pos ctx (p + w - 1) cbeg cend <? cend - cbeg)); [|reflexivity].
  generalize (seq 0 (Z.to_nat w)) as l. intro l. revert cells. induction l as [|j l IH]; intro cells; cbn [fold_left]; [reflexivity|].
  rewrite IH. apply set_nth_length.
Qed.

(* a character of width 1 *)
Lemma place_one ctx cbeg cend cells p g : length cells = Z.to_nat (cend - cbeg) ->
  place ctx cbeg cend cells (p, 1, g) =
  if (cbeg <=? p) && (p <? cend) then set_nth (Z.to_nat (led_pos ctx p cbeg cend)) (Some g) cells else cells.
Proof.
  intro L. unfold DrawDirDefs.place. replace (p + 1 - 1) with p by lia. change (Z.to_nat 1) with 1%nat. cbn [seq fold_left Z.of_nat].
  rewrite Z.add_0_r. unfold led_pos. destruct (0 <=? ctx);
  match goal with |- (if ?a then _ else _) = (if ?b then _ else _) => assert (E : a = b) by lia; rewrite E; reflexivity end.
Qed.

Definition simple_chars (cs : list (Z * Z * G)) : Prop :=
  Forall (fun c => snd (fst c) = 1) cs /\ NoDup (map (fun c => fst (fst c)) cs).

Lemma fold_place_other ctx cbeg cend cs : forall cells p, length cells = Z.to_nat (cend - cbeg) ->
  Forall (fun c => snd (fst c) = 1) cs -> ~ In p (map (fun c => fst (fst c)) cs) -> cbeg <= p < cend ->
  nth (Z.to_nat (led_pos ctx p cbeg cend)) (fold_left (place ctx cbeg cend) cs cells) None
  = nth (Z.to_nat (led_pos ctx p cbeg cend)) cells None.
Proof.
  induction cs as [|[[q w] g] cs IH]; intros cells p L F NI Hp; cbn [fold_left]; [reflexivity|].
  inversion F as [|? ? Hw F']; subst. cbn [fst snd] in Hw. subst w.
  cbn [map fst snd In] in NI.
  rewrite IH; [|rewrite place_length; exact L|exact F'|tauto|exact Hp].
  rewrite place_one by exact L.
  destruct ((cbeg <=? q) && (q <? cend)) eqn:E; [|reflexivity].
  pose proof (led_pos_inside ctx q cbeg cend ltac:(lia)) as Iq.
  rewrite set_nth_nth by lia.
  destruct (Nat.eqb_spec (Z.to_nat (led_pos ctx p cbeg cend)) (Z.to_nat (led_pos ctx q cbeg cend))) as [E2|E2]; [|reflexivity].
  pose proof (led_pos_inside ctx p cbeg cend Hp) as Ip.
  exfalso. apply NI. left. symmetry. apply (led_pos_inj ctx p q cbeg cend). lia.
Qed.

Lemma fold_place_holds ctx cbeg cend cs : forall cells p g, length cells = Z.to_nat (cend - cbeg) ->
  simple_chars cs -> In (p, 1, g) cs -> cbeg <= p < cend ->
  nth (Z.to_nat (led_pos ctx p cbeg cend)) (fold_left (place ctx cbeg cend) cs cells) None = Some g.
Proof.
  induction cs as [|[[q w] g'] cs IH]; intros cells p g L [F ND] Hin Hp; [destruct Hin|].
  cbn [fold_left]. inversion F as [|? ? Hw F']; subst. cbn [fst snd] in Hw. subst w.
  cbn [map fst snd] in ND. inversion ND as [|? ? Hnot ND']; subst.
  destruct Hin as [E|Hin].
  - injection E as -> ->.
    rewrite fold_place_other; [|rewrite place_length; exact L|exact F'|exact Hnot|exact Hp].
    rewrite place_one by exact L. replace ((cbeg <=? p) && (p <? cend)) with true by lia.
    pose proof (led_pos_inside ctx p cbeg cend Hp) as Ip.
    rewrite set_nth_nth by lia. rewrite Nat.eqb_refl. reflexivity.
  - apply IH; [rewrite place_length; exact L|split; assumption|exact Hin|exact Hp].
Qed.

(* the terminal cursor of the tail of vi() -- term_pos(xrow - xtop, vi_pos(line, ren_cursor(..))) -- is on the cell where
   led_render put the character at that visual position: for either base direction, every td, every xleft *)
Theorem cursor_cell_holds_char td xleft xcols (l : rline) p g :
  0 <= xcols -> simple_chars (l_chars G l) -> In (p, 1, g) (l_chars G l) -> xleft <= p < xleft + xcols ->
  nth (Z.to_nat (vi_pos (line_dir G td l) p xleft xcols)) (render_row td xleft xcols l) None = Some g.
Proof.
  intros Hc S Hin Hp. rewrite vi_pos_led_pos. unfold DrawDirDefs.render_row.
  apply fold_place_holds; [rewrite repeat_length; f_equal; lia|exact S|exact Hin|exact Hp].
Qed.
End RowProps.

(* the same right-to-left line under the default td and under the td a cancelled prompt of the early-return variant leaves:
   different rows, different cursor cells (line "ab" with the base direction -1 of an Arabic first letter, 6 columns) *)
Example rtl_row_depends_on_td :
  let l := mkLine N true (Some (-1)) [(0, 1, 97%N); (1, 1, 98%N)] in
  render_row N 0 0 6 l = [None; None; None; None; Some 98%N; Some 97%N] /\
  render_row N 2 0 6 l = [Some 97%N; Some 98%N; None; None; None; None] /\
  vi_pos (line_dir N 0 l) 0 0 6 = 5 /\ vi_pos (line_dir N 2 l) 0 0 6 = 0.
Proof. vm_compute. repeat split; reflexivity. Qed.
