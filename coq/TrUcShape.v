(* TrUcShape.v -- uc_shape of uc.c (the search for the nearest non-diacritic neighbours, the shaping of the
   character and its encoding into the static buffer) is the model ShapeDefs.uc_shape: proved on the CLite
   term tools/c2clite.py generates (the `static char out[16]` is the global block G_uc_shape__out).  Uses the
   theorems about uc_code, uc_beg, uc_next (TrUc), uc_acomb (TrUcTab) and uc_cshape, uc_cput (TrShape). *)
From Coq Require Import List ZArith NArith Bool Lia.
From NV Require Import Bytes UcDefs GenUcTables RenDefs ShapeDefs ShapeProps CLite CLiteProps GenCFuncs CLiteTac TrUcCode TrUc TrUcTab TrShape.
Import ListNotations.
Local Open Scope Z_scope.

(* ------------------------------------------------------------------ the macro UC_R2L *)
(* what the translated condition computes *)
Definition r2l_macro (c : Z) : bool :=
  (Z.land c 65280 =? 1536) || (Z.land c 65532 =? 8204) || (Z.land c 65280 =? 64256) ||
  (Z.land c 65280 =? 64512) || (Z.land c 65280 =? 65024).

Fixpoint allb_range (k : nat) (base : Z) (p : Z -> bool) : bool :=
  match k with O => p base | S k' => allb_range k' base p && allb_range k' (base + 2 ^ Z.of_nat k') p end.
Lemma allb_range_sound k : forall base p, allb_range k base p = true ->
  forall c, base <= c < base + 2 ^ Z.of_nat k -> p c = true.
Proof.
  induction k as [|k IH]; intros base p H c Hc.
  - cbn in *. replace c with base by lia. exact H.
  - cbn [allb_range] in H. apply andb_true_iff in H. destruct H as [H1 H2].
    rewrite Nat2Z.inj_succ, Z.pow_succ_r in Hc by lia.
    destruct (Z.lt_ge_cases c (base + 2 ^ Z.of_nat k)); [apply (IH base p H1); lia|apply (IH _ p H2); lia].
Qed.

(* the generated truth table of the macro (translate.py evaluates it on 0 .. 0x10ffff): the four ranges of the
   basic plane, repeated in each of the 17 planes -- the macro looks at the low 16 bits only *)
Definition base4 : list (Z * Z) := firstn 4 r2l_ranges.
Definition shift_tab (k : Z) (tab : list (Z * Z)) : list (Z * Z) := map (fun ab => (fst ab + k, snd ab + k)) tab.
Lemma r2l_planes : r2l_ranges = flat_map (fun h => shift_tab (65536 * Z.of_nat h) base4) (seq 0 17).
Proof. vm_compute. reflexivity. Qed.

Lemma mem_shift tab k c : RenDefs.mem (shift_tab k tab) c = RenDefs.mem tab (c - k).
Proof.
  unfold RenDefs.mem, shift_tab. induction tab as [|[a b] tab IH]; [reflexivity|]. cbn [map existsb fst snd]. rewrite IH.
  f_equal. f_equal; [destruct (Z.leb_spec (a + k) c), (Z.leb_spec a (c - k))|destruct (Z.leb_spec c (b + k)), (Z.leb_spec (c - k) b)];
    try reflexivity; lia.
Qed.
Lemma mem_app t1 t2 c : RenDefs.mem (t1 ++ t2) c = RenDefs.mem t1 c || RenDefs.mem t2 c.
Proof. apply existsb_app. Qed.
Lemma mem_planes (K : nat -> Z) planes c :
  RenDefs.mem (flat_map (fun h => shift_tab (K h) base4) planes) c = existsb (fun h => RenDefs.mem base4 (c - K h)) planes.
Proof.
  induction planes as [|h planes IH]; [reflexivity|]. cbn [flat_map existsb]. rewrite mem_app, mem_shift, IH. reflexivity.
Qed.
Lemma base4_low x : RenDefs.mem base4 x = true -> 0 <= x < 65536.
Proof.
  unfold RenDefs.mem. change base4 with [(1536, 1791); (8204, 8207); (64256, 64767); (65024, 65279)]. cbn [existsb].
  rewrite !orb_true_iff, !andb_true_iff, !Z.leb_le. lia.
Qed.
Lemma macro_low : forall lo, 0 <= lo < 65536 -> r2l_macro lo = RenDefs.mem base4 lo.
Proof.
  intros lo H. apply eqb_prop.
  apply (allb_range_sound 16 0 (fun lo => Bool.eqb (r2l_macro lo) (RenDefs.mem base4 lo))); [vm_compute; reflexivity|].
  change (2 ^ Z.of_nat 16) with 65536. lia.
Qed.
Lemma land_low c mask : Z.land (Z.ones 16) mask = mask -> Z.land c mask = Z.land (c mod 65536) mask.
Proof.
  intro H. change 65536 with (2 ^ 16). rewrite <- Z.land_ones by lia. rewrite <- Z.land_assoc, H. reflexivity.
Qed.
Lemma macro_mod c : r2l_macro c = r2l_macro (c mod 65536).
Proof.
  unfold r2l_macro. rewrite (land_low c 65280), (land_low c 65532) by reflexivity. reflexivity.
Qed.

(* UC_R2L(c) is the model's uc_r2l c for every code point below 0x110000 (above, the table says false and the
   macro still looks at the low 16 bits only: uc_code can return such values on malformed input) *)
Lemma r2l_macro_model c : 0 <= c < 1114112 -> r2l_macro c = uc_r2l c.
Proof.
  intro Hc. unfold uc_r2l. rewrite r2l_planes, mem_planes, macro_mod.
  pose proof (Z.div_mod c 65536 ltac:(lia)) as D. pose proof (Z.mod_pos_bound c 65536 ltac:(lia)) as B.
  assert (Hhi : 0 <= c / 65536 < 17) by (split; [apply Z.div_pos; lia|apply Z.div_lt_upper_bound; lia]).
  rewrite macro_low by lia.
  destruct (RenDefs.mem base4 (c mod 65536)) eqn:E; symmetry.
  - apply existsb_exists. exists (Z.to_nat (c / 65536)). split; [apply in_seq; lia|].
    rewrite Z2Nat.id by lia. replace (c - 65536 * (c / 65536)) with (c mod 65536) by lia. exact E.
  - destruct (existsb _ _) eqn:X; [|reflexivity]. apply existsb_exists in X. destruct X as [h [Hin Hx]].
    apply in_seq in Hin. pose proof (base4_low _ Hx) as L.
    assert (c mod 65536 = c - 65536 * Z.of_nat h).
    { symmetry. apply (Z.mod_unique_pos c 65536 (Z.of_nat h)); lia. }
    congruence.
Qed.

(* ------------------------------------------------------------------ the condition `!curr || !UC_R2L(curr)` *)
Definition r2l_cond : expr :=
  match fn_body cf_uc_shape with SSeq _ (SSeq _ (SSeq _ (SSeq (SIf c _ _) _))) => c | _ => EConst 0 end.
Lemma r2l_cond_ok call l0 l1 l2 l3 l4 curr m :
  eval call r2l_cond (mkst [l0; l1; l2; l3; l4; VInt curr] m)
  = Ok (VInt (b2z ((curr =? 0) || negb (r2l_macro curr))), mkst [l0; l1; l2; l3; l4; VInt curr] m).
Proof.
  unfold r2l_cond, r2l_macro. cbn [fn_body cf_uc_shape]. xstep.
  repeat (xstep; cbn [negb orb b2z];
          try match goal with |- context [if ?b then _ else _] =>
                match b with context [?x =? ?y] => destruct (x =? y) eqn:? end end).
  all: reflexivity.
Qed.

(* ------------------------------------------------------------------ the two neighbour searches *)
(* every lead byte of the string has its continuation bytes before the terminator: what uc_code needs in order
   not to read past the end (true of valid UTF-8) *)
Definition code_fits (s : bytes) : Prop := forall o, (o <= length s)%nat -> (o + uc_len_b (nthb s o) - 1 <= length s)%nat.

Definition sp_loop : stmt :=
  match fn_body cf_uc_shape with SSeq _ (SSeq _ (SSeq _ (SSeq _ (SSeq _ (SSeq w _))))) => w | _ => SSkip end.
Definition sn_loop : stmt :=
  match fn_body cf_uc_shape with SSeq _ (SSeq _ (SSeq _ (SSeq _ (SSeq _ (SSeq _ (SSeq _ (SSeq w _))))))) => w | _ => SSkip end.

Lemma rev_firstn_pre_of s o : rev (firstn o s) = pre_of s 0 o.
Proof. unfold pre_of. rewrite Nat.sub_0_r. reflexivity. Qed.

Lemma sp_loop_ok F d m b s l1 nx cu : str_at m b s -> nonul s -> code_fits s -> (length s < F)%nat ->
  forall f o p fuel, shape_prev f s o = Some p -> (o <= length s)%nat -> (f <= fuel)%nat ->
  exists r',
  exec (callf cprog F (S (S (S d)))) fuel sp_loop (mkst [VPtr b 0; l1; VPtr b (Z.of_nat o); VInt 0; nx; cu] m)
  = ONormal (mkst [VPtr b 0; l1; r'; VInt p; nx; cu] m).
Proof.
  intros Hs Hnn Hfit HF. pose proof (nonul_lt256 s Hnn) as H256.
  induction f as [|f IH]; intros o p fuel Hp Ho Hf; [discriminate|]. destruct fuel as [|fuel]; [lia|].
  cbn [shape_prev] in Hp.
  unfold sp_loop; cbn [fn_body cf_uc_shape]; rewrite exec_while; xstep; cbn [ptr_cmp]; rewrite Nat.eqb_refl; xstep.
  destruct (Nat.eqb_spec o 0) as [->|Hne].
  - injection Hp as <-. change (0 <? Z.of_nat 0) with false. xstep. eexists; reflexivity.
  - destruct (Z.ltb_spec 0 (Z.of_nat o)); [|lia]. xstep.
    replace (Z.of_nat o + -1 * 1) with (Z.of_nat (o - 1)) by lia.
    change (VPtr b 0) with (VPtr b (Z.of_nat 0)) at 1.
    rewrite (tr_uc_beg m b s 0 (o - 1) (S (S d)) F Hs H256) by lia. xstep.
    rewrite rev_firstn_pre_of, (pre_of_S s 0 o) in Hp by lia. cbn [uc_prev] in Hp.
    replace (o - S (uc_beg (pre_of s 0 (o - 1)) (nthb s (o - 1))))%nat
      with (o - 1 - uc_beg (pre_of s 0 (o - 1)) (nthb s (o - 1)))%nat in Hp by lia.
    set (o' := (o - 1 - uc_beg (pre_of s 0 (o - 1)) (nthb s (o - 1)))%nat) in *.
    assert (Ho' : (o' <= length s)%nat) by (unfold o'; lia).
    rewrite (tr_uc_code m b s o' (S (S d)) F Hs H256 (Hfit o' Ho') Ho'). xstep.
    pose proof (uc_code_int_ok (skipn o' s) (Forall_skipn' _ o' s H256)) as Hc.
    rewrite (tr_uc_acomb m _ (S (S d)) F Hc). xstep.
    destruct (uc_acomb (Z.of_N (uc_code (skipn o' s)))); cbn [negb b2z] in *; xstep.
    + change (SWhile _ _) with sp_loop. apply (IH o' p fuel Hp Ho'). lia.
    + injection Hp as <-. rewrite (tr_uc_code m b s o' (S (S d)) F Hs H256 (Hfit o' Ho') Ho'). xstep.
      eexists; reflexivity.
Qed.

Lemma shape_next_step f t : t <> [] ->
  shape_next (S f) t = let r := skipn (uc_next t) t in let c := Z.of_N (uc_code r) in
                       if negb (uc_acomb c) then Some c else shape_next f r.
Proof. destruct t; [congruence|reflexivity]. Qed.

Lemma sn_loop_ok F d m b s l1 pv cu : str_at m b s -> nonul s -> code_fits s -> (length s < F)%nat ->
  forall f o n fuel, shape_next f (skipn o s) = Some n -> (o <= length s)%nat -> (f <= fuel)%nat ->
  exists r',
  exec (callf cprog F (S (S (S d)))) fuel sn_loop (mkst [VPtr b 0; l1; VPtr b (Z.of_nat o); pv; VInt 0; cu] m)
  = ONormal (mkst [VPtr b 0; l1; r'; pv; VInt n; cu] m).
Proof.
  intros Hs Hnn Hfit HF. pose proof (nonul_lt256 s Hnn) as H256.
  induction f as [|f IH]; intros o n fuel Hn Ho Hf; [discriminate|]. destruct fuel as [|fuel]; [lia|].
  unfold sn_loop; cbn [fn_body cf_uc_shape]; rewrite exec_while; xstep.
  rewrite (load_str m b s _ o Hs) by lia. xstep. rewrite (cc_z0 _ (nthb_lt256 s o H256)).
  destruct (Nat.eq_dec o (length s)) as [->|Hne].
  - rewrite nthb_end by lia. rewrite skipn_end in Hn by lia. injection Hn as <-. cbn. eexists; reflexivity.
  - rewrite nonul_nthb_nz by (auto; lia). xstep.
    rewrite shape_next_step in Hn by (apply skipn_ne; lia). cbv zeta in Hn. rewrite skipn_skipn in Hn.
    rewrite (tr_uc_next m b s o (S d) F Hs H256) by lia. xstep.
    pose proof (uc_next_nonul (skipn o s) (nonul_skipn s o Hnn) (skipn_ne s o ltac:(lia))) as Hnx.
    pose proof (uc_end_lt (skipn o s) (skipn_ne s o ltac:(lia))) as Hel. rewrite skipn_length in Hel.
    set (o' := (o + uc_next (skipn o s))%nat) in *.
    assert (Ho' : (o' <= length s)%nat) by (unfold o'; lia).
    rewrite (tr_uc_code m b s o' (S (S d)) F Hs H256 (Hfit o' Ho') Ho'). xstep.
    pose proof (uc_code_int_ok (skipn o' s) (Forall_skipn' _ o' s H256)) as Hc.
    rewrite (tr_uc_acomb m _ (S (S d)) F Hc). xstep.
    destruct (uc_acomb (Z.of_N (uc_code (skipn o' s)))); cbn [negb b2z] in *; xstep.
    + change (SWhile _ _) with sn_loop. apply (IH o' n fuel Hn Ho'). lia.
    + injection Hn as <-. rewrite (tr_uc_code m b s o' (S (S d)) F Hs H256 (Hfit o' Ho') Ho'). xstep.
      eexists; reflexivity.
Qed.

(* ------------------------------------------------------------------ uc_shape *)
Lemma uc_cshape_range cur p n : fld_ok cur -> fld_ok (uc_cshape cur p n).
Proof.
  intro Hc. unfold uc_cshape. rewrite <- row_index_model.
  destruct (row_index cur) as [i|] eqn:E; cbn [option_map]; [|exact Hc].
  assert (K : arow_ok (nth i achars arow0)).
  { pose proof (arow_nthz_ok achars (Z.of_nat i) achars_ok) as K. unfold ShapeProps.nthz in K. rewrite Nat2Z.id in K. exact K. }
  destruct K as [K1 [_ [K3 [K4 K5]]]]. cbv zeta.
  destruct (can_join p cur), (can_join cur n); cbn [andb negb];
    match goal with |- context [nz ?x] => destruct (nz x) end; assumption.
Qed.
Lemma uc_cput_length c : (length (uc_cput c) <= 4)%nat.
Proof. unfold uc_cput. destruct (65535 <? c)%N; [cbn; lia|]. destruct (2047 <? c)%N; [cbn; lia|]. destruct (127 <? c)%N; cbn; lia. Qed.

Lemma fld_ok_code t : bytes_lt256 t -> fld_ok (Z.of_N (uc_code t)).
Proof. intro H. pose proof (uc_code_int_ok t H) as K. unfold int_ok in K. unfold fld_ok. lia. Qed.
Lemma shape_prev_fld s : bytes_lt256 s -> forall f o p, shape_prev f s o = Some p -> fld_ok p.
Proof.
  intro H. induction f as [|f IH]; intros o p Hp; [discriminate|]. cbn [shape_prev] in Hp.
  destruct (o =? 0)%nat; [injection Hp as <-; unfold fld_ok; lia|].
  match type of Hp with (if negb (uc_acomb (Z.of_N (uc_code ?t))) then _ else _) = _ =>
    destruct (negb (uc_acomb (Z.of_N (uc_code t)))); [injection Hp as <-; apply fld_ok_code, Forall_skipn', H|eapply IH; exact Hp] end.
Qed.
Lemma shape_next_fld : forall f t n, bytes_lt256 t -> shape_next f t = Some n -> fld_ok n.
Proof.
  induction f as [|f IH]; intros t n H Hn; [discriminate|]. destruct t as [|x t]; [injection Hn as <-; unfold fld_ok; lia|].
  cbn [shape_next] in Hn.
  match type of Hn with (if negb (uc_acomb (Z.of_N (uc_code ?r))) then _ else _) = _ =>
    destruct (negb (uc_acomb (Z.of_N (uc_code r)))); [injection Hn as <-; apply fld_ok_code, Forall_skipn', H|
      apply (IH r n); [apply Forall_skipn', H|exact Hn]] end.
Qed.
Lemma fld_int_ok z : fld_ok z -> int_ok z.
Proof. unfold fld_ok, int_ok. lia. Qed.

(* the fuel the model passes is always enough on a string without NUL *)
Lemma shape_prev_total s : forall f o, (o < f)%nat -> (o <= length s)%nat -> exists p, shape_prev f s o = Some p.
Proof.
  induction f as [|f IH]; intros o Hf Ho; [lia|]. cbn [shape_prev].
  destruct (Nat.eqb_spec o 0) as [->|Hne]; [eexists; reflexivity|].
  destruct (rev (firstn o s)) as [|x pre] eqn:E.
  { apply (f_equal (@length _)) in E. rewrite rev_length, firstn_length in E. cbn in E. lia. }
  cbn [uc_prev].
  match goal with |- context [if ?c then _ else _] => destruct c end; [eexists; reflexivity|].
  apply IH; lia.
Qed.
Lemma shape_next_total : forall f t, nonul t -> (length t < f)%nat -> exists n, shape_next f t = Some n.
Proof.
  induction f as [|f IH]; intros t Hn Hf; [lia|].
  destruct (list_eq_dec N.eq_dec t []) as [->|Hne]; [eexists; reflexivity|].
  rewrite shape_next_step by exact Hne. cbv zeta.
  match goal with |- context [if ?c then _ else _] => destruct c end; [eexists; reflexivity|].
  apply IH; [apply nonul_skipn, Hn|].
  rewrite skipn_length. rewrite uc_next_nonul by assumption.
  assert (0 < length t)%nat by (destruct t; [congruence|cbn; lia]). lia.
Qed.
Theorem uc_shape_total s off : nonul s -> (off <= length s)%nat -> uc_shape s off <> ShFuel.
Proof.
  intros Hn Ho. unfold uc_shape. cbv zeta.
  match goal with |- (if ?c then _ else _) <> _ => destruct c end; [discriminate|].
  destruct (shape_prev_total s (S off) off ltac:(lia) Ho) as [p ->].
  destruct (shape_next_total (S (length (skipn off s))) (skipn off s) (nonul_skipn s off Hn) ltac:(lia)) as [n ->].
  discriminate.
Qed.

Definition G_out : nat := G_uc_shape__out.

(* uc_shape(beg, s) with s = beg + off, for every string without NUL whose multibyte sequences are complete and
   whose character at s is below 0x110000: NULL when the character is not right-to-left; otherwise the pointer
   to the static buffer, which now holds the encoding of the model's shaped character and the terminator; no
   other cell of the memory changes.  (ShFuel, the model's out-of-fuel answer, does not occur: uc_shape_total.) *)
Theorem tr_uc_shape m b s off outblk d fuel :
  str_at m b s -> nonul s -> code_fits s -> (off <= length s)%nat -> achars_in m ->
  nth_error m G_out = Some outblk -> (5 <= length outblk)%nat ->
  Z.of_N (uc_code (skipn off s)) < 1114112 ->
  (length s < fuel)%nat -> (length achars < fuel)%nat -> (4 <= fuel)%nat ->
  match uc_shape s off with
  | ShNone => callf cprog fuel (S (S (S (S d)))) F_uc_shape [VPtr b 0; VPtr b (Z.of_nat off)] m = Ok (VInt 0, m)
  | ShOut bs => callf cprog fuel (S (S (S (S d)))) F_uc_shape [VPtr b 0; VPtr b (Z.of_nat off)] m
                = Ok (VPtr G_out 0, upd m G_out (put_cells outblk 0 (map schar bs ++ [VInt 0])))
  | ShFuel => True
  end.
Proof.
  intros Hs Hnn Hfit Ho Ha Hout Hroom Hcode Hf Hf2 Hf4. pose proof (nonul_lt256 s Hnn) as H256.
  unfold uc_shape. cbv zeta.
  pose proof (uc_code_int_ok (skipn off s) (Forall_skipn' _ off s H256)) as Hc.
  set (curr := Z.of_N (uc_code (skipn off s))) in *.
  rewrite <- (r2l_macro_model curr) by lia.
  destruct ((curr =? 0) || negb (r2l_macro curr)) eqn:Econd.
  - enter F_uc_shape cf_uc_shape.
    match goal with |- context [SIf ?c (SReturn (Some (EConst 0))) SSkip] => change c with r2l_cond end. xstep.
    rewrite (tr_uc_code m b s off (S (S d)) fuel Hs H256 (Hfit off Ho) Ho). xstep. fold curr.
    rewrite r2l_cond_ok, Econd. xstep. reflexivity.
  - destruct (shape_prev (S off) s off) as [p|] eqn:Ep; [|exact I].
    destruct (shape_next (S (length (skipn off s))) (skipn off s)) as [n|] eqn:En; [|exact I].
    enter F_uc_shape cf_uc_shape.
    match goal with |- context [SIf ?c (SReturn (Some (EConst 0))) SSkip] => change c with r2l_cond end. xstep.
    rewrite (tr_uc_code m b s off (S (S d)) fuel Hs H256 (Hfit off Ho) Ho). xstep. fold curr.
    rewrite r2l_cond_ok, Econd. xstep.
    change (SWhile (EPtrCmp _ _ _) _) with sp_loop.
    destruct (sp_loop_ok fuel d m b s (VPtr b (Z.of_nat off)) (VInt 0) (VInt curr) Hs Hnn Hfit Hf (S off) off p fuel Ep Ho ltac:(lia))
      as [r1 X1]. rewrite X1. xstep.
    change (SWhile (ELoad _ _) _) with sn_loop.
    rewrite skipn_length in En.
    destruct (sn_loop_ok fuel d m b s (VPtr b (Z.of_nat off)) (VInt p) (VInt curr) Hs Hnn Hfit Hf (S (length s - off)) off n fuel En Ho ltac:(lia))
      as [r2 X2]. rewrite X2. xstep.
    pose proof (shape_prev_fld s H256 _ _ _ Ep) as Fp.
    pose proof (shape_next_fld _ _ _ (Forall_skipn' _ off s H256) En) as Fn.
    assert (Fc : fld_ok curr) by (apply fld_ok_code, Forall_skipn', H256).
    rewrite (tr_uc_cshape_in m curr p n d fuel Ha Hc (fld_int_ok _ Fp) (fld_int_ok _ Fn) Hf2). xstep.
    pose proof (uc_cshape_range curr p n Fc) as Fs. unfold fld_ok in Fs.
    rewrite <- (Z2N.id (uc_cshape curr p n)) at 1 by lia.
    change (VPtr G_uc_shape__out 0) with (VPtr G_out (Z.of_nat 0)).
    pose proof (uc_cput_length (Z.to_N (uc_cshape curr p n))) as L4.
    rewrite (tr_uc_cput m G_out outblk 0 (Z.to_N (uc_cshape curr p n)) (S (S d)) fuel Hout) by lia.
    xstep. reflexivity.
Qed.

Print Assumptions r2l_macro_model.
Print Assumptions tr_uc_shape.
Print Assumptions uc_shape_total.
