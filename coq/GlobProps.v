(* GlobProps.v -- C15: proofs about the scan of ec_glob (port of the design-round prototype E.8 to the model
   of ExDefs.v) and about the undo sequence number. *)
From Coq Require Import List NArith ZArith Bool Lia.
From NV Require Import Bytes ExDefs ExSpec ExProps GlobDefs.
Import ListNotations.

Lemma sub_refl {A} (l : list A) : sub l l.
Proof. induction l; constructor; assumption. Qed.
Lemma sub_trans {A} (a b c : list A) : sub a b -> sub b c -> sub a c.
Proof.
  intros H1 H2. revert a H1. induction H2; intros a H1.
  - inversion H1; constructor.
  - constructor. apply IHsub. exact H1.
  - inversion H1; subst; constructor; apply IHsub; assumption.
Qed.
Lemma sub_app_head {A} (p a b : list A) : sub a b -> sub (p ++ a) (p ++ b).
Proof. intro H. induction p; cbn [app]; [exact H | constructor; exact IHp]. Qed.
Lemma sub_app_l {A} (a b c : list A) : sub (a ++ b) c -> sub a c.
Proof.
  intro H. remember (a ++ b) as ab eqn:E. revert a b E. induction H; intros a b E.
  - destruct a; [constructor | discriminate].
  - constructor. eapply IHsub; eauto.
  - destruct a as [|y a]; [constructor|]. cbn [app] in E. inversion E; subst. apply sub_take. eapply IHsub; eauto.
Qed.

Section Scan.
Variable dep : N.
Notation mk := (glob_marked dep).

Lemma mk_clear x : mk (clear_lgl dep x) = false.
Proof. unfold glob_marked, clear_lgl, set_lgl. cbn [lgl]. apply N.clearbit_eq. Qed.
Lemma lid_clear x : lid (clear_lgl dep x) = lid x.
Proof. reflexivity. Qed.

Lemma mids_cons x L : mids dep (x :: L) = if mk x then lid x :: mids dep L else mids dep L.
Proof. unfold mids. cbn [filter]. destruct (mk x); reflexivity. Qed.
Lemma clean_tail i x L : clean_below dep (S i) (x :: L) -> mk x = false /\ clean_below dep i L.
Proof. intro H. split; [apply (H 0%nat); lia | intros j Hj; apply (H (S j)); lia]. Qed.

Lemma scan_len : forall L i, length (snd (scan_l i dep L)) = length L /\ (fst (scan_l i dep L) <= length L)%nat.
Proof.
  induction L as [|x L IH]; intro i; [cbn; lia|]. destruct i as [|i]; cbn [scan_l].
  - destruct (mk x); [cbn; lia|]. specialize (IH 0%nat). destruct (scan_l 0 dep L). cbn [fst snd length] in *. lia.
  - specialize (IH i). destruct (scan_l i dep L). cbn [fst snd length] in *. lia.
Qed.

Lemma scan_none : forall L i, mids dep L = [] -> scan_l i dep L = (length L, L).
Proof.
  induction L as [|x L IH]; intros i H; [reflexivity|]. rewrite mids_cons in H.
  destruct (mk x) eqn:Mx; [discriminate|]. destruct i as [|i]; cbn [scan_l]; rewrite ?Mx, (IH _ H); reflexivity.
Qed.

Lemma scan_some : forall L i m ms, clean_below dep i L -> mids dep L = m :: ms ->
  let '(j, L2) := scan_l i dep L in
  (j < length L)%nat /\ lid (nth j L dline) = m /\ lid (nth j L2 dline) = m /\ mids dep L2 = ms /\ clean_below dep (S j) L2.
Proof.
  induction L as [|x L IH]; intros i m ms Hc H; [discriminate|]. rewrite mids_cons in H.
  destruct i as [|i]; cbn [scan_l].
  - destruct (mk x) eqn:Mx.
    + inversion H; subst. cbn [length nth]. split; [lia|]. split; [reflexivity|]. split; [reflexivity|]. split.
      * rewrite mids_cons, mk_clear. reflexivity.
      * intros j Hj. assert (j = 0)%nat by lia. subst. cbn [nth]. apply mk_clear.
    + specialize (IH 0%nat m ms ltac:(intros ? ?; lia) H). destruct (scan_l 0 dep L) as [j L2].
      destruct IH as (J1 & J0 & J2 & J3 & J4). cbn [length nth]. split; [lia|]. split; [exact J0|]. split; [exact J2|]. split.
      * rewrite mids_cons, Mx. exact J3.
      * intros k Hk. destruct k; [exact Mx|]. cbn [nth]. apply J4. lia.
  - destruct (clean_tail _ _ _ Hc) as [Mx Hc']. rewrite Mx in H.
    specialize (IH i m ms Hc' H). destruct (scan_l i dep L) as [j L2].
    destruct IH as (J1 & J0 & J2 & J3 & J4). cbn [length nth]. split; [lia|]. split; [exact J0|]. split; [exact J2|]. split.
    + rewrite mids_cons, Mx. exact J3.
    + intros k Hk. destruct k; [exact Mx|]. cbn [nth]. apply J4. lia.
Qed.

(* ---- the loop ---- *)
Variable rfind : bytes -> bytes -> bool -> option (nat * nat).
Variable exec : bytes -> st -> st * Z.
Hypothesis exec_ok : good_exec exec dep.

Definition ginv (M0 : list nat) (first : nat) (i : nat) (L : list line) (vis : list nat) : Prop :=
  clean_below dep (S i) L /\ exists vs, vis ++ [lid (nth i L dline)] = first :: vs /\ sub (vs ++ mids dep L) M0.

Lemma map_fst_app {A B} (l : list (A * B)) x : map fst (l ++ [x]) = map fst l ++ [fst x].
Proof. rewrite map_app. reflexivity. Qed.

Theorem glob_visits M0 first pat body not : forall fuel i s vis,
  ginv M0 first i (lns (lb s)) (map fst vis) ->
  let '(s', vis') := glob_loop_vis rfind exec fuel i pat body not dep s vis in
  (exists vs, map fst vis' = first :: vs /\ sub vs M0) \/ vis' = vis.
Proof.
  induction fuel as [|f IH]; intros i s vis (Hc & vs & Hv & Hs); cbn [glob_loop_vis]; [right; reflexivity|].
  destruct (nth_error (lns (lb s)) i) as [x|] eqn:Nx; [|right; reflexivity].
  assert (Lt : (i < length (lns (lb s)))%nat) by (apply nth_error_Some; rewrite Nx; discriminate).
  assert (Ex : nth i (lns (lb s)) dline = x) by (apply nth_error_nth; exact Nx).
  rewrite Ex in Hv.
  set (run := Bool.eqb _ not).
  destruct (if run then exec body (set_xrow s (Z.of_nat i)) else (s, 0%Z)) as [s1 r] eqn:EB.
  set (i1 := if run then Z.to_nat (Z.min (Z.of_nat i) (xrow s1)) else i).
  assert (B : sub (mids dep (lns (lb s1))) (mids dep (lns (lb s))) /\ clean_below dep i1 (lns (lb s1))).
  { unfold i1. destruct run.
    - destruct (exec_ok body (set_xrow s (Z.of_nat i)) s1 r EB) as [B1 B2].
      + cbn [xrow set_xrow]. lia.
      + cbn [xrow set_xrow lb]. rewrite Nat2Z.id. exact Hc.
      + split; [exact B1|]. cbn [xrow set_xrow] in B2. exact B2.
    - inversion EB; subst. split; [apply sub_refl|]. intros j Hj. apply Hc. lia. }
  destruct B as [B1 B2].
  assert (Hs1 : sub (vs ++ mids dep (lns (lb s1))) M0) by (eapply sub_trans; [apply sub_app_head; exact B1 | exact Hs]).
  destruct (run && negb (r =? 0)%Z).
  { left. exists vs. split; [rewrite map_fst_app; exact Hv | eapply sub_app_l; exact Hs1]. }
  unfold glob_scan.
  destruct (mids dep (lns (lb s1))) as [|m ms] eqn:ML.
  - rewrite (scan_none _ i1 ML).
    destruct f as [|f']; cbn [glob_loop_vis].
    + left. exists vs. split; [rewrite map_fst_app; exact Hv|]. rewrite app_nil_r in Hs1. exact Hs1.
    + cbn [lb set_lb with_lns lns].
      replace (nth_error (lns (lb s1)) (length (lns (lb s1)))) with (@None line) by (symmetry; apply nth_error_None; lia).
      left. exists vs. split; [rewrite map_fst_app; exact Hv|]. rewrite app_nil_r in Hs1. exact Hs1.
  - pose proof (scan_some (lns (lb s1)) i1 m ms B2 ML) as SS.
    destruct (scan_l i1 dep (lns (lb s1))) as [j L2]. destruct SS as (J1 & J0 & J2 & J3 & J4).
    specialize (IH j (set_lb s1 (with_lns (lb s1) L2)) (vis ++ [(lid x, run)])).
    assert (G : ginv M0 first j (lns (lb (set_lb s1 (with_lns (lb s1) L2)))) (map fst (vis ++ [(lid x, run)]))).
    { cbn [lb set_lb with_lns lns]. split; [exact J4|]. exists (vs ++ [m]). split.
      - rewrite map_fst_app. cbn [fst]. rewrite Hv, J2. reflexivity.
      - rewrite J3, <- app_assoc. exact Hs1. }
    specialize (IH G).
    destruct (glob_loop_vis rfind exec f j pat body not dep (set_lb s1 (with_lns (lb s1) L2)) (vis ++ [(lid x, run)])) as [s' vis'].
    destruct IH as [IH|IH]; [left; exact IH|].
    left. exists vs. split; [rewrite IH, map_fst_app; exact Hv | eapply sub_app_l; exact Hs1].
Qed.

(* the instrumented loop is the loop of ExDefs.v *)
Lemma glob_loop_vis_erase pat body not : forall fuel i s vis,
  fst (glob_loop_vis rfind exec fuel i pat body not dep s vis) = glob_loop rfind exec fuel i pat body not dep s.
Proof.
  induction fuel as [|f IH]; intros i s vis; [reflexivity|]. cbn [glob_loop_vis glob_loop].
  destruct (nth_error (lns (lb s)) i) as [x|]; [|reflexivity].
  destruct (if Bool.eqb _ not then exec body (set_xrow s (Z.of_nat i)) else (s, 0%Z)) as [s1 r].
  destruct (_ && _); [reflexivity|]. destruct (glob_scan _ dep (lb s1)) as [j l]. apply IH.
Qed.

(* the scan terminates: every iteration either stops or consumes one originally marked identity *)
End Scan.

(* ---------------------------------------------------------------------------------------- *)
(* one undo step: nothing inside a global bumps the sequence number, every edit is stamped with it *)

Lemma lbuf_mark_useq l m p : useq (lbuf_mark l m p) = useq l.
Proof. unfold lbuf_mark. destruct (markidx m); reflexivity. Qed.
Lemma lbuf_replace_useq s pos n l : useq (lbuf_replace s pos n l) = useq l.
Proof. unfold lbuf_replace. rewrite !lbuf_mark_useq. reflexivity. Qed.
Lemma lbuf_edit_useq s b e l : useq (lbuf_edit s b e l) = useq l.
Proof. unfold lbuf_edit. destruct (_ && _); [reflexivity|]. rewrite lbuf_replace_useq. reflexivity. Qed.
Lemma lbuf_replace_hist s pos n l : hist (lbuf_replace s pos n l) = hist l.
Proof. unfold lbuf_replace. rewrite !lbuf_mark_hist. reflexivity. Qed.

(* every history entry appended by an edit carries the current sequence number *)
Lemma lbuf_edit_stamp s b e l :
  lbuf_edit s b e l = l \/
  exists lo, hist (lbuf_edit s b e l) = firstn (hist_u l) (hist l) ++ [lo] /\ o_seq lo = useq l.
Proof.
  unfold lbuf_edit. destruct (_ && _); [left; reflexivity|]. right. rewrite lbuf_replace_hist. unfold lbuf_opt. cbn [hist].
  eexists. split; [reflexivity|]. reflexivity.
Qed.

Lemma undo_loop_useq : forall n sq l, useq (undo_loop n sq l) = useq l.
Proof.
  induction n as [|n IH]; intros sq l; [reflexivity|]. cbn [undo_loop].
  destruct (nth_error (hist l) n) as [lo|]; [|reflexivity]. destruct (o_seq lo =? sq)%Z; [|reflexivity].
  rewrite IH. cbn [useq]. rewrite lbuf_replace_useq. reflexivity.
Qed.

Definition sq (s : st) : Z := useq (lb s).

Section Seq.
Variable rvalid : bytes -> bool.
Variable rfind : bytes -> bytes -> bool -> option (nat * nat).
Variable filter : bytes -> bytes -> option bytes.
Variable readfile : bytes -> option bytes.
Variable curpath : bytes.

Lemma region_sq loc s bad b e s1 : ex_region rvalid rfind loc s = (bad, b, e, s1) -> sq s1 = sq s.
Proof. intro E. unfold sq. rewrite (region_slen _ _ _ _ _ _ _ _ E). reflexivity. Qed.

Lemma edit_sq s t b e : sq (edit s t b e) = sq s.
Proof. unfold sq, edit. cbn [lb set_lb]. apply lbuf_edit_useq. Qed.

Lemma subst_rows_sq : forall n i pat rep g s, sq (subst_rows rfind n i pat rep g s) = sq s.
Proof.
  induction n as [|n IH]; intros i pat rep g s; [reflexivity|]. cbn [subst_rows]. rewrite IH.
  destruct (line_at s i); [|reflexivity]. destruct (subst_line _ _ _ _ _ _ _) as [[r|] rest]; [apply edit_sq | reflexivity].
Qed.

Lemma edit_useq s t b e : useq (lb (edit s t b e)) = useq (lb s).
Proof. apply edit_sq. Qed.

Ltac fin R := cbn [fst]; unfold sq in *; cbn [lb set_xrow emit]; first [exact R | (etransitivity; [apply edit_useq | exact R])].

Ltac sq_region loc s :=
  let E := fresh "E" in destruct (ex_region rvalid rfind loc s) as [[[?bad ?b] ?e] ?s1] eqn:E;
  let R := fresh "R" in pose proof (region_sq _ _ _ _ _ _ E) as R.

Theorem simple_sq a loc cmd arg txt s :
  is a [33%N] = false -> is a [119%N] = false -> is a [119%N; 33%N] = false ->
  sq (fst (ex_simple rvalid rfind filter readfile curpath a loc cmd arg txt s)) = sq s.
Proof.
  intros N1 N2 N3. unfold ex_simple. rewrite N1, N2, N3. cbn [orb].
  repeat match goal with |- context [if ?c then _ else _] => destruct c end; try reflexivity.
  - unfold ec_insert. sq_region loc s. destruct (_ && _); [exact R|]. fin R.
  - unfold ec_delete. sq_region loc s. destruct (_ || _); [exact R|]. fin R.
  - unfold ec_mark. sq_region loc s. destruct (_ || _); [exact R|]. cbn [fst]. unfold sq in *. cbn [lb set_lb]. rewrite lbuf_mark_useq. exact R.
  - unfold ec_print. destruct (_ && _); [reflexivity|]. sq_region loc s. destruct (_ || _); [exact R|]. cbn [fst]. unfold sq in *.
    cbn [lb set_xrow]. rewrite print_lines_lb. exact R.
  - unfold ec_put. destruct (reg_special _); [reflexivity|]. destruct (reg_get s _); [|reflexivity]. sq_region loc s.
    destruct (_ && _); [exact R|]. fin R.
  - unfold ec_read. destruct (_ || _); [reflexivity|]. sq_region loc s. destruct (_ && _); [exact R|]. destruct (readfile _); [|exact R].
    fin R.
  - unfold ec_rs. destruct txt; reflexivity.
  - unfold ec_substitute. sq_region loc s. destruct bad; [exact R|]. destruct (re_read arg) as [pat rest].
    assert (K : sq (kwdset_if s1 pat 1) = sq s) by (unfold sq; rewrite kwdset_if_lb; exact R).
    destruct pat as [p|]; [|exact K]. destruct rest as [|c rest]; [exact K|]. destruct (re_read _) as [rep flags].
    destruct (negb _); [exact K|]. destruct (kwddir _ =? 0)%Z; [exact K|]. destruct (negb _); [exact K|]. cbn [fst].
    rewrite subst_rows_sq. exact K.
  - unfold ec_undo, sq. unfold lbuf_undo. destruct (hist_u (lb s)); [reflexivity|]. destruct (nth_error _ n); [|reflexivity].
    cbn [fst lb set_lb]. apply undo_loop_useq.
  - unfold ec_yank. sq_region loc s. destruct (_ || _); exact R.
  - unfold ec_lnum. sq_region loc s. destruct (_ || _); exact R.
  - unfold ec_null, ec_print. destruct (_ && _); [reflexivity|].
    sq_region loc (set_xrow s (if (xrow s + 1 <? slen s)%Z then (xrow s + 1)%Z else xrow s)). destruct (_ || _); [exact R|].
    cbn [fst]. unfold sq in *. cbn [lb set_xrow]. rewrite print_lines_lb. exact R.
Qed.

Section SeqRec.
Variable exec : bytes -> st -> st * Z.
Hypothesis exec_sq : forall ln s, sq (fst (exec ln s)) = sq s.

Lemma with_lns_useq l L : useq (with_lns l L) = useq l.
Proof. reflexivity. Qed.
Lemma globset_range_useq : forall n i dep l, useq (globset_range n i dep l) = useq l.
Proof. induction n; intros; [reflexivity|]. cbn. rewrite IHn. reflexivity. Qed.
Lemma globclear_useq : forall n i dep l, useq (globclear n i dep l) = useq l.
Proof.
  induction n; intros i dep l; [reflexivity|]. cbn. rewrite IHn. unfold lbuf_globget. destruct (nth_error (lns l) i); reflexivity.
Qed.

Lemma glob_loop_sq : forall fuel i pat body not dep s, sq (glob_loop rfind exec fuel i pat body not dep s) = sq s.
Proof.
  induction fuel as [|f IH]; intros i pat body not dep s; [reflexivity|]. cbn [glob_loop].
  destruct (nth_error (lns (lb s)) i) as [x|]; [|reflexivity].
  set (run := Bool.eqb _ not).
  assert (H1 : sq (fst (if run then exec body (set_xrow s (Z.of_nat i)) else (s, 0%Z))) = sq s).
  { destruct run; [rewrite exec_sq; reflexivity | reflexivity]. }
  destruct (if run then exec body (set_xrow s (Z.of_nat i)) else (s, 0%Z)) as [s1 r]. cbn [fst] in H1.
  destruct (run && negb (r =? 0)%Z); [exact H1|].
  unfold glob_scan. destruct (scan_l _ dep (lns (lb s1))) as [j L2]. rewrite IH. exact H1.
Qed.

Theorem glob_sq fuel loc cmd arg s : sq (fst (ec_glob rvalid rfind exec fuel loc cmd arg s)) = sq s.
Proof.
  unfold ec_glob. destruct (GDEPMAX <=? xgdep s)%nat; [reflexivity|].
  set (loc' := match loc, xgdep s with [], O => [37%N] | _, _ => loc end).
  sq_region loc' s. destruct (_ || _); [exact R|]. destruct (re_read arg) as [pat body].
  assert (K : sq (kwdset_if s1 pat 1) = sq s) by (unfold sq; rewrite kwdset_if_lb; exact R).
  destruct (kwddir _ =? 0)%Z; [exact K|]. destruct (negb _); [exact K|]. cbn [fst].
  unfold sq at 1. cbn [lb set_gdep set_lb]. rewrite globclear_useq.
  etransitivity; [apply glob_loop_sq|]. unfold sq. cbn [lb set_lb set_gdep]. rewrite globset_range_useq. exact K.
Qed.
End SeqRec.
End Seq.

Lemma sub_length {A} (a b : list A) : sub a b -> (length a <= length b)%nat.
Proof. induction 1; cbn [length]; lia. Qed.

(* the number of loop iterations is bounded by the number of originally marked lines, whatever the fuel *)
Theorem glob_iterations_bounded dep rfind exec (exec_ok : good_exec exec dep) M0 first pat body not fuel i s vis :
  ginv dep M0 first i (lns (lb s)) (map fst vis) ->
  (length (snd (glob_loop_vis rfind exec fuel i pat body not dep s vis)) <= Nat.max (length vis) (1 + length M0))%nat.
Proof.
  intro G. pose proof (glob_visits dep rfind exec exec_ok M0 first pat body not fuel i s vis G) as V.
  destruct (glob_loop_vis rfind exec fuel i pat body not dep s vis) as [s' vis']. cbn [snd].
  destruct V as [(vs & E & Sb)|E].
  - apply sub_length in Sb. assert (L : length (map fst vis') = Datatypes.S (length vs)) by (rewrite E; reflexivity).
    rewrite map_length in L. lia.
  - subst. lia.
Qed.
