(* MotWordProps.v -- C07: declarative characterisations of the scanners of mot.c mirrored in
   MotDefs.v (w W b B e E, % , { }) and fuel sufficiency.

   Technique: the buffer is flattened into ONE sequence of characters (flat b = concat b); a valid
   position (row, off) has the index idx b row off in it; lbuf_next moves the index by exactly one
   (next_sim).  Every fuelled loop of MotDefs is shown equal (under idx) to the same loop over the
   flat sequence (the f_* functions below, R3-simulations), and the characterisations are proved
   about the flat loops by arithmetic on indices. *)
From Coq Require Import List NArith ZArith Lia Bool ZifyN ZifyBool ZifyNat.
From NV Require Import Bytes UcDefs GenUcTables GenConf MotDefs MotProps.
Import ListNotations.
Local Open Scope Z_scope.

(* ---------- the flat view ---------- *)
Definition buf_ne (b : buf) : Prop := Forall (fun l : line => l <> []) b.
Definition flat (b : buf) : list chr := concat b.
Definition nchars (b : buf) : Z := Z.of_nat (length (flat b)).
Definition fchr (b : buf) (i : Z) : chr := chr_at (flat b) i.      (* [] outside 0..nchars-1 *)
(* (r, o) is a position of the buffer: row r exists and o is an offset of one of its characters *)
Definition vpos (b : buf) (r o : Z) : Prop := exists l, getl b r = Some l /\ 0 <= o < slen l.
Definition pre (b : buf) (r : Z) : Z := Z.of_nat (length (concat (firstn (Z.to_nat r) b))).
(* its index in the flat sequence: characters of the rows before r, plus o *)
Definition idx (b : buf) (r o : Z) : Z := pre b r + o.

Lemma buf_wf_ne b : buf_wf b -> buf_ne b.
Proof. unfold buf_wf, buf_ne. apply Forall_impl. intros l (body & -> & _). destruct body; discriminate. Qed.

Lemma getl_split b r l : getl b r = Some l ->
  exists b1 b2, b = b1 ++ l :: b2 /\ length b1 = Z.to_nat r /\ 0 <= r /\ firstn (Z.to_nat r) b = b1.
Proof.
  unfold getl. destruct (Z.ltb_spec r 0); [discriminate|]. intro E.
  apply nth_error_split in E. destruct E as (b1 & b2 & -> & Hl). exists b1, b2. repeat split; auto.
  rewrite <- Hl. rewrite firstn_app, Nat.sub_diag, firstn_all. cbn. apply app_nil_r.
Qed.

Lemma pre_succ b r l : getl b r = Some l -> pre b (r + 1) = pre b r + slen l.
Proof.
  intro E. destruct (getl_split b r l E) as (b1 & b2 & -> & Hl & Hr & Hf). unfold pre. rewrite Hf.
  replace (Z.to_nat (r + 1)) with (S (length b1)) by lia.
  rewrite firstn_app. rewrite firstn_all2 by lia.
  replace (S (length b1) - length b1)%nat with 1%nat by lia. cbn [firstn].
  rewrite concat_app. cbn [concat]. rewrite app_nil_r, app_length. unfold slen. lia.
Qed.

Lemma pre_le b r l : getl b r = Some l -> pre b r + slen l <= nchars b.
Proof.
  intro E. destruct (getl_split b r l E) as (b1 & b2 & -> & Hl & Hr & Hf). unfold pre, nchars, flat. rewrite Hf.
  rewrite concat_app. cbn [concat]. rewrite !app_length. unfold slen. lia.
Qed.

Lemma pre_last b r l : getl b r = Some l -> getl b (r + 1) = None -> pre b r + slen l = nchars b.
Proof.
  intros E E1. destruct (getl_split b r l E) as (b1 & b2 & -> & Hl & Hr & Hf). unfold pre, nchars, flat. rewrite Hf.
  assert (b2 = []).
  { unfold getl in E1. destruct (Z.ltb_spec (r + 1) 0); [lia|].
    apply nth_error_None in E1. rewrite app_length in E1. cbn [length] in E1. destruct b2; [reflexivity|cbn [length] in E1; lia]. }
  subst b2. rewrite concat_app. cbn [concat]. rewrite !app_length. unfold slen. cbn [length]. lia.
Qed.

Lemma pre_nonneg b r : 0 <= pre b r.
Proof. unfold pre. lia. Qed.

Lemma pre_zero b : pre b 0 = 0.
Proof. unfold pre. cbn. reflexivity. Qed.

Lemma fchr_idx b r o l : getl b r = Some l -> 0 <= o < slen l -> fchr b (idx b r o) = chr_at l o.
Proof.
  intros E Ho. destruct (getl_split b r l E) as (b1 & b2 & -> & Hl & Hr & Hf). unfold idx, pre, fchr, flat. rewrite Hf.
  rewrite concat_app. cbn [concat]. unfold chr_at, slen in *.
  destruct (Z.ltb_spec (Z.of_nat (length (concat b1)) + o) 0); [lia|]. destruct (Z.ltb_spec o 0); [lia|].
  rewrite app_nth2 by lia. rewrite app_nth1 by lia. f_equal. lia.
Qed.

Lemma lchr_idx b r o : vpos b r o -> lchr b r o = fchr b (idx b r o).
Proof. intros (l & E & Ho). unfold lchr. rewrite E. symmetry. apply fchr_idx; assumption. Qed.

Lemma idx_range b r o : vpos b r o -> 0 <= idx b r o < nchars b.
Proof. intros (l & E & Ho). pose proof (pre_le b r l E). pose proof (pre_nonneg b r). unfold idx. lia. Qed.

(* ---------- lbuf_next moves the index by one ---------- *)
Definition fnext (L dir i : Z) : bool * Z :=
  if (0 <=? i + dir) && (i + dir <? L) then (false, i + dir) else (true, i).

Lemma fnext_ok L d i : 0 <= i + d < L -> fnext L d i = (false, i + d).
Proof. intro H. unfold fnext. destruct (Z.leb_spec 0 (i + d)); [|lia]. destruct (Z.ltb_spec (i + d) L); [|lia]. reflexivity. Qed.
Lemma fnext_fail L d i : ~ (0 <= i + d < L) -> fnext L d i = (true, i).
Proof. intro H. unfold fnext. destruct (Z.leb_spec 0 (i + d)); [|reflexivity]. destruct (Z.ltb_spec (i + d) L); [lia|reflexivity]. Qed.

Lemma getl_ne b r l : buf_ne b -> getl b r = Some l -> 1 <= slen l.
Proof.
  intros NE E. apply getl_some in E. destruct E as [_ Hin]. unfold buf_ne in NE. rewrite Forall_forall in NE.
  specialize (NE l Hin). unfold slen. destruct l; [congruence|cbn [length]; lia].
Qed.

Lemma next_fwd b r o : buf_ne b -> vpos b r o ->
  exists r' o', lbuf_next b 1 r o = (fst (fnext (nchars b) 1 (idx b r o)), r', o') /\ vpos b r' o' /\
                idx b r' o' = snd (fnext (nchars b) 1 (idx b r o)).
Proof.
  intros NE (l & El & Ho). unfold lbuf_next. change (1 <? 0) with false. cbn [andb].
  unfold lbuf_lnnext. rewrite El. destruct (Z.ltb_spec (o + 1) 0); [lia|]. cbn [orb].
  destruct (Z.geb_spec (o + 1) (slen l)).
  - destruct (getl b (r + 1)) as [l1|] eqn:E1.
    + change (0 <? 1) with true. cbv iota.
      pose proof (getl_ne b _ _ NE E1) as Hl1.
      assert (V : vpos b (r + 1) 0) by (exists l1; split; [exact E1|lia]).
      pose proof (idx_range b _ _ V) as HR.
      assert (Ei : idx b (r + 1) 0 = idx b r o + 1) by (unfold idx; rewrite (pre_succ b r l El); lia).
      rewrite fnext_ok by lia. exists (r + 1), 0. cbn [fst snd]. auto.
    + pose proof (pre_last b r l El E1). rewrite fnext_fail by (unfold idx; lia).
      exists r, o. cbn [fst snd]. repeat split; auto. exists l; auto.
  - pose proof (pre_le b r l El). pose proof (pre_nonneg b r).
    rewrite fnext_ok by (unfold idx; lia). exists r, (o + 1). cbn [fst snd]. repeat split; auto.
    + exists l; split; [exact El|lia].
    + unfold idx; lia.
Qed.

Lemma next_bwd b r o : buf_ne b -> vpos b r o ->
  exists r' o', lbuf_next b (-1) r o = (fst (fnext (nchars b) (-1) (idx b r o)), r', o') /\ vpos b r' o' /\
                idx b r' o' = snd (fnext (nchars b) (-1) (idx b r o)).
Proof.
  intros NE (l & El & Ho). unfold lbuf_next. change (-1 <? 0) with true. cbn [andb].
  pose proof (getl_some _ _ _ El) as [Hr _].
  destruct (Z.geb_spec r (blen b)); [lia|].
  unfold lbuf_lnnext. rewrite El. pose proof (pre_le b r l El). pose proof (pre_nonneg b r).
  destruct (Z.ltb_spec (o + -1) 0).
  - cbn [orb]. assert (o = 0) by lia. subst o.
    destruct (getl b (r + -1)) as [l1|] eqn:E1.
    + change (0 <? -1) with false. cbv iota.
      pose proof (getl_ne b _ _ NE E1) as Hl1.
      unfold lbuf_eol. rewrite E1. destruct (Z.eqb_spec (slen l1) 0); [lia|].
      assert (V : vpos b (r + -1) (slen l1 - 1)) by (exists l1; split; [exact E1|lia]).
      pose proof (pre_succ b (r + -1) l1 E1) as HS. replace (r + -1 + 1) with r in HS by lia.
      pose proof (pre_nonneg b (r + -1)).
      rewrite fnext_ok by (unfold idx; lia). exists (r + -1), (slen l1 - 1). cbn [fst snd].
      repeat split; auto. unfold idx. lia.
    + apply getl_none in E1. assert (r = 0) by lia. subst r.
      rewrite fnext_fail by (unfold idx; rewrite pre_zero; lia).
      exists 0, 0. cbn [fst snd]. repeat split; auto. exists l; auto.
  - destruct (Z.geb_spec (o + -1) (slen l)); [lia|]. cbn [orb].
    rewrite fnext_ok by (unfold idx; lia). exists r, (o + -1). cbn [fst snd]. repeat split; auto.
    + exists l; split; [exact El|lia].
    + unfold idx; lia.
Qed.

Lemma next_sim b dir r o : buf_ne b -> dir = 1 \/ dir = -1 -> vpos b r o ->
  exists r' o', lbuf_next b dir r o = (fst (fnext (nchars b) dir (idx b r o)), r', o') /\ vpos b r' o' /\
                idx b r' o' = snd (fnext (nchars b) dir (idx b r o)).
Proof. intros NE [-> | ->] V; [apply next_fwd|apply next_bwd]; assumption. Qed.

(* ---------- the loops of mot.c over the flat sequence ---------- *)
Section Flat.
  Variable F : Z -> chr.      (* the character at an index *)
  Variable L : Z.             (* number of characters *)

  Definition fkm (kind : N) (i : Z) : bool := negb (N.eqb (N.land (uc_kind (F i)) kind) 0).

  Fixpoint f_wordlast_loop (fuel : nat) (kind : N) (dir i : Z) : option (bool * Z) :=
    match fuel with
    | O => None
    | S f =>
        if fkm kind i then
          match fnext L dir i with
          | (true, i') => Some (true, i')
          | (false, i') => f_wordlast_loop f kind dir i'
          end
        else Some (false, snd (fnext L (- dir) i))
    end.
  Definition f_wordlast (fuel : nat) (kind : N) (dir i : Z) : option (bool * Z) :=
    if N.eqb kind 0 || negb (fkm kind i) then Some (false, i) else f_wordlast_loop fuel kind dir i.

  Fixpoint f_wordbeg_loop (fuel : nat) (dir nl i : Z) : option (bool * Z) :=
    match fuel with
    | O => None
    | S f =>
        if uc_isspace (F i) then
          let nl := nl + (if is_nl (F i) then 1 else 0) in
          if nl =? 2 then Some (false, i)
          else match fnext L dir i with
               | (true, i') => Some (true, i')
               | (false, i') => f_wordbeg_loop f dir nl i'
               end
        else Some (false, i)
    end.
  Definition f_wordbeg (fuel : nat) (big : bool) (dir i : Z) : option (bool * Z) :=
    match f_wordlast fuel (if big then 3%N else uc_kind (F i)) dir i with
    | None => None
    | Some (_, q) =>
        let nl := if is_nl (F q) then 1 else 0 in
        match fnext L dir q with
        | (true, i') => Some (true, i')
        | (false, i') => f_wordbeg_loop fuel dir nl i'
        end
    end.

  Fixpoint f_wordend_loop (fuel : nat) (dir nl i : Z) : option (bool * (bool * Z)) :=
    match fuel with
    | O => None
    | S f =>
        if uc_isspace (F i) then
          match fnext L dir i with
          | (true, i') => Some (true, (true, i'))
          | (false, i') =>
              let nl := nl + (if is_nl (F i') then 1 else 0) in
              if nl =? 2 then
                (if dir <? 0 then Some (true, (false, snd (fnext L (- dir) i'))) else Some (true, (false, i')))
              else f_wordend_loop f dir nl i'
          end
        else Some (false, (false, i))
    end.
  Definition f_wordend (fuel : nat) (big : bool) (dir i : Z) : option (bool * Z) :=
    let start : option (Z * Z) :=
      if negb (uc_isspace (F i)) then
        match fnext L dir i with
        | (true, _) => None
        | (false, i') => Some ((if (dir <? 0) && is_nl (F i') then 1 else 0), i')
        end
      else Some (0, i) in
    match start with
    | None => Some (true, snd (fnext L dir i))
    | Some (nl, p) =>
        let nl := nl + (if (0 <? dir) && is_nl (F p) then 1 else 0) in
        match f_wordend_loop fuel dir nl p with
        | None => None
        | Some (true, res) => Some res
        | Some (false, (_, p')) => f_wordlast fuel (if big then 3%N else uc_kind (F p')) dir p'
        end
    end.

  Fixpoint f_pair_loop (fuel : nat) (dir : Z) (opn cls : N) (dep : Z) (i : Z) : option (option Z) :=
    match fuel with
    | O => None
    | S f => match fnext L dir i with
             | (true, _) => Some None
             | (false, i') =>
                 let c := b0 (F i') in
                 let dep := if N.eqb c cls then dep - 1 else dep in
                 let dep := if N.eqb c opn then dep + 1 else dep in
                 if dep =? 0 then Some (Some i') else f_pair_loop f dir opn cls dep i'
             end
    end.
End Flat.

(* ---------- simulations ---------- *)
Definition R3 (b : buf) (x : option st3) (y : option (bool * Z)) : Prop :=
  match x, y with
  | Some (s, r, o), Some (s', i) => s = s' /\ vpos b r o /\ idx b r o = i
  | None, None => True
  | _, _ => False
  end.

Lemma kmatch_idx b kind r o : vpos b r o -> kmatch b kind r o = fkm (fchr b) kind (idx b r o).
Proof. intro V. unfold kmatch, fkm, kindof. rewrite (lchr_idx b r o V). reflexivity. Qed.

Ltac next_step NE Hd V r1 o1 :=
  let E1 := fresh "E1" in let V1 := fresh "V1" in let I1 := fresh "I1" in
  destruct (next_sim _ _ _ _ NE Hd V) as (r1 & o1 & E1 & V1 & I1); rewrite E1; clear E1.

Lemma wordlast_loop_sim b kind dir : buf_ne b -> dir = 1 \/ dir = -1 -> forall fuel r o, vpos b r o ->
  R3 b (wordlast_loop fuel b kind dir r o) (f_wordlast_loop (fchr b) (nchars b) fuel kind dir (idx b r o)).
Proof.
  intros NE Hd. induction fuel as [|f IH]; intros r o V; cbn [wordlast_loop f_wordlast_loop]; [exact I|].
  rewrite (kmatch_idx b kind r o V). destruct (fkm (fchr b) kind (idx b r o)).
  - next_step NE Hd V r1 o1.
    destruct (fnext (nchars b) dir (idx b r o)) as [[] i1]; cbn [fst snd] in *.
    + cbn. auto.
    + rewrite <- I1. apply IH, V1.
  - assert (Hd' : - dir = 1 \/ - dir = -1) by lia.
    next_step NE Hd' V r1 o1. cbn. auto.
Qed.

Lemma wordlast_sim b kind dir fuel r o : buf_ne b -> dir = 1 \/ dir = -1 -> vpos b r o ->
  R3 b (lbuf_wordlast fuel b kind dir r o) (f_wordlast (fchr b) (nchars b) fuel kind dir (idx b r o)).
Proof.
  intros NE Hd V. unfold lbuf_wordlast, f_wordlast. rewrite (kmatch_idx b kind r o V).
  destruct (_ || _); [cbn; auto|]. apply wordlast_loop_sim; assumption.
Qed.

Lemma wordbeg_loop_sim b dir : buf_ne b -> dir = 1 \/ dir = -1 -> forall fuel nl r o, vpos b r o ->
  R3 b (wordbeg_loop fuel b dir nl r o) (f_wordbeg_loop (fchr b) (nchars b) fuel dir nl (idx b r o)).
Proof.
  intros NE Hd. induction fuel as [|f IH]; intros nl r o V; cbn [wordbeg_loop f_wordbeg_loop]; [exact I|].
  rewrite (lchr_idx b r o V). destruct (uc_isspace _); [|cbn; auto].
  cbv zeta. destruct (_ =? 2); [cbn; auto|].
  next_step NE Hd V r1 o1.
  destruct (fnext (nchars b) dir (idx b r o)) as [[] i1]; cbn [fst snd] in *.
  - cbn. auto.
  - rewrite <- I1. apply IH, V1.
Qed.

Lemma wordbeg_sim b big dir fuel r o : buf_ne b -> dir = 1 \/ dir = -1 -> vpos b r o ->
  R3 b (lbuf_wordbeg fuel b big dir r o) (f_wordbeg (fchr b) (nchars b) fuel big dir (idx b r o)).
Proof.
  intros NE Hd V. unfold lbuf_wordbeg, f_wordbeg. unfold kindof. rewrite (lchr_idx b r o V).
  pose proof (wordlast_sim b (if big then 3%N else uc_kind (fchr b (idx b r o))) dir fuel r o NE Hd V) as HS.
  destruct (lbuf_wordlast _ _ _ _ _ _) as [[[s r1] o1]|]; destruct (f_wordlast _ _ _ _ _ _) as [[s' i1]|]; cbn in HS; try contradiction; [|exact I].
  destruct HS as (_ & V1 & I1). rewrite (lchr_idx b r1 o1 V1). cbv zeta.
  next_step NE Hd V1 r2 o2. rewrite I1 in *.
  destruct (fnext (nchars b) dir i1) as [[] i2]; cbn [fst snd] in *.
  - cbn. auto.
  - rewrite <- I0. apply wordbeg_loop_sim; assumption.
Qed.

Definition R4 (b : buf) (x : option (bool * st3)) (y : option (bool * (bool * Z))) : Prop :=
  match x, y with
  | Some (inner, (s, r, o)), Some (inner', (s', i)) => inner = inner' /\ s = s' /\ vpos b r o /\ idx b r o = i
  | None, None => True
  | _, _ => False
  end.

Lemma wordend_loop_sim b dir : buf_ne b -> dir = 1 \/ dir = -1 -> forall fuel nl r o, vpos b r o ->
  R4 b (wordend_loop fuel b dir nl r o) (f_wordend_loop (fchr b) (nchars b) fuel dir nl (idx b r o)).
Proof.
  intros NE Hd. induction fuel as [|f IH]; intros nl r o V; cbn [wordend_loop f_wordend_loop]; [exact I|].
  rewrite (lchr_idx b r o V). destruct (uc_isspace _); [|cbn; auto].
  next_step NE Hd V r1 o1.
  destruct (fnext (nchars b) dir (idx b r o)) as [[] i1]; cbn [fst snd] in *.
  - cbn. auto.
  - rewrite (lchr_idx b r1 o1 V1). rewrite I1. cbv zeta. destruct (_ =? 2).
    + destruct (dir <? 0).
      * assert (Hd' : - dir = 1 \/ - dir = -1) by lia.
        next_step NE Hd' V1 r2 o2. rewrite I1 in *. cbn. auto.
      * cbn. auto.
    + rewrite <- I1. apply IH, V1.
Qed.

Lemma wordend_sim b big dir fuel r o : buf_ne b -> dir = 1 \/ dir = -1 -> vpos b r o ->
  R3 b (lbuf_wordend fuel b big dir r o) (f_wordend (fchr b) (nchars b) fuel big dir (idx b r o)).
Proof.
  intros NE Hd V. unfold lbuf_wordend, f_wordend. rewrite (lchr_idx b r o V).
  assert (HS : forall nl r0 o0, vpos b r0 o0 ->
    R3 b (match wordend_loop fuel b dir nl r0 o0 with
          | None => None
          | Some (true, res) => Some res
          | Some (false, (_, r, o)) =>
              match lbuf_wordlast fuel b (if big then 3%N else kindof b r o) dir r o with
              | None => None
              | Some (true, r', o') => Some (true, r', o')
              | Some (false, r', o') => Some (false, r', o')
              end
          end)
         (match f_wordend_loop (fchr b) (nchars b) fuel dir nl (idx b r0 o0) with
          | None => None
          | Some (true, res) => Some res
          | Some (false, (_, p')) => f_wordlast (fchr b) (nchars b) fuel (if big then 3%N else uc_kind (fchr b p')) dir p'
          end)).
  { intros nl r0 o0 V0. pose proof (wordend_loop_sim b dir NE Hd fuel nl r0 o0 V0) as HL.
    destruct (wordend_loop fuel b dir nl r0 o0) as [[inner [[s1 r1] o1]]|];
      destruct (f_wordend_loop _ _ fuel dir nl _) as [[inner' [s1' i1]]|]; cbn in HL; try contradiction; [|exact I].
    destruct HL as (<- & <- & V1 & I1). destruct inner.
    - cbn. auto.
    - unfold kindof. rewrite (lchr_idx b r1 o1 V1). rewrite <- I1.
      pose proof (wordlast_sim b (if big then 3%N else uc_kind (fchr b (idx b r1 o1))) dir fuel r1 o1 NE Hd V1) as HW.
      destruct (lbuf_wordlast _ _ _ _ _ _) as [[[[] r2] o2]|]; destruct (f_wordlast _ _ _ _ _ _) as [[s' i2]|]; cbn in HW; try contradiction;
        [| |exact I]; destruct HW as (<- & V2 & I2); cbn; auto. }
  destruct (negb (uc_isspace (fchr b (idx b r o)))).
  - next_step NE Hd V r1 o1.
    destruct (fnext (nchars b) dir (idx b r o)) as [[] i1] eqn:EF; cbn [fst snd] in *.
    + cbn. auto.
    + rewrite (lchr_idx b r1 o1 V1). rewrite I1. cbv zeta. rewrite <- I1. apply HS, V1.
  - cbv zeta. rewrite (lchr_idx b r o V). apply HS, V.
Qed.

(* ---------- character classes ---------- *)
Lemma kd_range c : uc_kind c = 0%N \/ uc_kind c = 1%N \/ uc_kind c = 2%N.
Proof. unfold uc_kind. destruct (uc_isspace c); [auto|]. destruct (_ || _); auto. Qed.
Lemma kd_sp c : uc_kind c = 0%N <-> uc_isspace c = true.
Proof. unfold uc_kind. destruct (uc_isspace c); [tauto|]. destruct (_ || _); split; discriminate. Qed.
Lemma kd_nsp c : uc_kind c <> 0%N <-> uc_isspace c = false.
Proof. rewrite kd_sp. destruct (uc_isspace c); split; congruence. Qed.

(* ---------- specifications of the flat loops ---------- *)
Section FlatSpec.
  Variable F : Z -> chr.
  Variable L : Z.
  Local Notation kd i := (uc_kind (F i)).
  Local Notation sp i := (uc_isspace (F i)).
  Local Notation nlc i := (is_nl (F i)).

  (* reference vocabulary: k is the first / last character of a word (w b e: a maximal run of one
     non-blank class; W B E: a maximal run of non-blanks) *)
  Definition word_start (big : bool) (k : Z) : Prop :=
    kd k <> 0%N /\ (k = 0 \/ if big then kd (k - 1) = 0%N else kd (k - 1) <> kd k).
  Definition word_end (big : bool) (k : Z) : Prop :=
    kd k <> 0%N /\ k + 1 < L /\ (if big then kd (k + 1) = 0%N else kd (k + 1) <> kd k).

  (* in the run of the scan: same class as c (small) / non-blank (big) *)
  Definition inw (big : bool) (c : N) (i : Z) : bool := if big then negb (N.eqb (kd i) 0) else N.eqb (kd i) c.
  Lemma fkm_inw (big : bool) c i : c = 1%N \/ c = 2%N -> fkm F (if big then 3%N else c) i = inw big c i.
  Proof.
    intros Hc. unfold fkm, inw. destruct (kd_range (F i)) as [E|[E|E]]; rewrite E; destruct Hc as [-> | ->]; destruct big; reflexivity.
  Qed.
  Lemma kd_12 i : kd i <> 0%N -> kd i = 1%N \/ kd i = 2%N.
  Proof. destruct (kd_range (F i)) as [E|[E|E]]; auto. congruence. Qed.
  Lemma inw_self big i : kd i <> 0%N -> inw big (kd i) i = true.
  Proof. intro H. unfold inw. destruct big; [apply negb_true_iff, N.eqb_neq, H|apply N.eqb_refl]. Qed.
  Lemma inw_nz big c i : c <> 0%N -> inw big c i = true -> kd i <> 0%N.
  Proof.
    unfold inw. destruct big; intros Hc H.
    - apply negb_true_iff, N.eqb_neq in H. exact H.
    - apply N.eqb_eq in H. congruence.
  Qed.

  Lemma f_wordlast_loop_fwd kind : forall fuel p, 0 <= p < L -> Z.of_nat fuel > L - p ->
    (1 <= p \/ fkm F kind p = true) ->
    exists s j, f_wordlast_loop F L fuel kind 1 p = Some (s, j) /\ p - 1 <= j < L /\
      (forall k, p <= k <= j -> fkm F kind k = true) /\
      (if s : bool then j = L - 1 else j + 1 < L /\ fkm F kind (j + 1) = false).
  Proof.
    induction fuel as [|f IH]; intros p Hp Hf H1; [lia|]. cbn [f_wordlast_loop].
    destruct (fkm F kind p) eqn:Ek.
    - destruct (Z_lt_dec (p + 1) L) as [Hl|Hl].
      + rewrite fnext_ok by lia. destruct (IH (p + 1)) as (s & j & E & Hj & Hk & Hs); [lia|lia|lia|].
        exists s, j. split; [exact E|]. split; [lia|]. split; [|exact Hs].
        intros k Hk'. destruct (Z.eq_dec k p) as [->|]; [exact Ek|apply Hk; lia].
      + rewrite fnext_fail by lia. exists true, p. split; [reflexivity|]. split; [lia|]. split; [|lia].
        intros k Hk'. replace k with p by lia. exact Ek.
    - destruct H1 as [H1|H1]; [|congruence]. rewrite fnext_ok by lia. cbn [snd].
      exists false, (p + - (1)). split; [reflexivity|]. split; [lia|]. split; [intros; lia|].
      replace (p + - (1) + 1) with p by lia. split; [lia|exact Ek].
  Qed.

  Lemma f_wordlast_loop_bwd kind : forall fuel p, 0 <= p < L -> Z.of_nat fuel > p + 1 ->
    (p + 1 < L \/ fkm F kind p = true) ->
    exists s j, f_wordlast_loop F L fuel kind (-1) p = Some (s, j) /\ 0 <= j <= p + 1 /\
      (forall k, j <= k <= p -> fkm F kind k = true) /\
      (if s : bool then j = 0 else 1 <= j /\ fkm F kind (j - 1) = false).
  Proof.
    induction fuel as [|f IH]; intros p Hp Hf H1; [lia|]. cbn [f_wordlast_loop].
    destruct (fkm F kind p) eqn:Ek.
    - destruct (Z_le_dec 1 p) as [Hl|Hl].
      + rewrite fnext_ok by lia. destruct (IH (p + -1)) as (s & j & E & Hj & Hk & Hs); [lia|lia|lia|].
        exists s, j. split; [exact E|]. split; [lia|]. split; [|exact Hs].
        intros k Hk'. destruct (Z.eq_dec k p) as [->|]; [exact Ek|apply Hk; lia].
      + rewrite fnext_fail by lia. exists true, p. split; [reflexivity|]. split; [lia|]. split; [|lia].
        intros k Hk'. replace k with p by lia. exact Ek.
    - destruct H1 as [H1|H1]; [|congruence]. rewrite fnext_ok by lia. cbn [snd].
      exists false, (p + - (-1)). split; [reflexivity|]. split; [lia|]. split; [intros; lia|].
      replace (p + - (-1) - 1) with p by lia. split; [lia|exact Ek].
  Qed.

  (* lbuf_wordlast as lbuf_wordbeg / lbuf_wordend call it: to the end of the run containing i *)
  Lemma f_wordlast_blank (big : bool) fuel dir i : kd i = 0%N ->
    f_wordlast F L fuel (if big then 3%N else kd i) dir i = Some (false, i).
  Proof.
    intro E. unfold f_wordlast, fkm. rewrite E. destruct big; reflexivity.
  Qed.

  Lemma f_wordlast_fwd (big : bool) fuel i : 0 <= i < L -> Z.of_nat fuel > L -> kd i <> 0%N ->
    exists s q, f_wordlast F L fuel (if big then 3%N else kd i) 1 i = Some (s, q) /\ i <= q < L /\
      (forall k, i <= k <= q -> inw big (kd i) k = true) /\
      (if s : bool then q = L - 1 else q + 1 < L /\ inw big (kd i) (q + 1) = false).
  Proof.
    intros Hi Hf Hk. pose proof (kd_12 i Hk) as H12. pose proof (fkm_inw big (kd i) i H12) as Hii.
    rewrite inw_self in Hii by exact Hk.
    unfold f_wordlast. rewrite Hii. replace (N.eqb (if big then 3%N else kd i) 0) with false
      by (destruct big; [reflexivity|symmetry; apply N.eqb_neq, Hk]). cbn [orb negb].
    destruct (f_wordlast_loop_fwd (if big then 3%N else kd i) fuel i) as (s & q & E & Hq & Hr & Hs); [lia|lia|auto|].
    exists s, q. split; [exact E|].
    assert (i <= q) by (destruct (Z_le_dec i q); [assumption|]; exfalso;
      assert (q + 1 = i) by lia; destruct s; [lia|]; destruct Hs as [_ Hs]; replace (q + 1) with i in Hs by lia; congruence).
    split; [lia|]. split.
    - intros k Hk'. rewrite <- fkm_inw by exact H12. apply Hr. lia.
    - destruct s; [exact Hs|]. rewrite <- fkm_inw by exact H12. exact Hs.
  Qed.

  Lemma f_wordlast_bwd (big : bool) fuel i : 0 <= i < L -> Z.of_nat fuel > L -> kd i <> 0%N ->
    exists s q, f_wordlast F L fuel (if big then 3%N else kd i) (-1) i = Some (s, q) /\ 0 <= q <= i /\
      (forall k, q <= k <= i -> inw big (kd i) k = true) /\
      (if s : bool then q = 0 else 1 <= q /\ inw big (kd i) (q - 1) = false).
  Proof.
    intros Hi Hf Hk. pose proof (kd_12 i Hk) as H12. pose proof (fkm_inw big (kd i) i H12) as Hii.
    rewrite inw_self in Hii by exact Hk.
    unfold f_wordlast. rewrite Hii. replace (N.eqb (if big then 3%N else kd i) 0) with false
      by (destruct big; [reflexivity|symmetry; apply N.eqb_neq, Hk]). cbn [orb negb].
    destruct (f_wordlast_loop_bwd (if big then 3%N else kd i) fuel i) as (s & q & E & Hq & Hr & Hs); [lia|lia|auto|].
    exists s, q. split; [exact E|].
    assert (q <= i) by (destruct (Z_le_dec q i); [assumption|]; exfalso;
      assert (q - 1 = i) by lia; destruct s; [lia|]; destruct Hs as [_ Hs]; replace (q - 1) with i in Hs by lia; congruence).
    split; [lia|]. split.
    - intros k Hk'. rewrite <- fkm_inw by exact H12. apply Hr. lia.
    - destruct s; [exact Hs|]. rewrite <- fkm_inw by exact H12. exact Hs.
  Qed.

  (* ---------- w W : lbuf_wordbeg forward ---------- *)
  (* the scan also stops on the terminator p of a line made of blanks only (possibly none) that
     begins after the start i: p is a line break, an earlier line break p' >= i exists and only
     blanks lie between them *)
  Definition w_blank_stop (i p : Z) : Prop :=
    sp p = true /\ nlc p = true /\ exists p', i <= p' < p /\ nlc p' = true /\ forall k, p' < k < p -> sp k = true.
  Definition w_stop (big : bool) (i k : Z) : Prop := word_start big k \/ w_blank_stop i k.

  Definition bstop (q k : Z) : Prop := nlc k = true /\ exists p', q <= p' < k /\ nlc p' = true.

  Lemma f_wordbeg_loop_fwd q : 0 <= q -> forall fuel p nl0, q < p < L -> Z.of_nat fuel > L - p ->
    (forall k, q < k < p -> sp k = true /\ ~ bstop q k) -> (nl0 = 0 \/ nl0 = 1) ->
    (nl0 = 1 <-> exists p', q <= p' < p /\ nlc p' = true) ->
    exists s j, f_wordbeg_loop F L fuel 1 nl0 p = Some (s, j) /\ p <= j < L /\
      (forall k, q < k < j -> sp k = true /\ ~ bstop q k) /\
      (if s : bool then j = L - 1 /\ sp j = true /\ ~ bstop q j else sp j = false \/ (sp j = true /\ bstop q j)).
  Proof.
    intro Hq0. induction fuel as [|f IH]; intros p nl0 Hp Hf Hpre Hn Hiff; [lia|]. cbn [f_wordbeg_loop].
    destruct (sp p) eqn:Esp.
    - cbv zeta. set (d := if nlc p then 1 else 0).
      assert (Hd : (d = 1 /\ nlc p = true) \/ (d = 0 /\ nlc p = false)) by (unfold d; destruct (nlc p); auto).
      clearbody d. destruct (Z.eqb_spec (nl0 + d) 2) as [E2|E2].
      + exists false, p. split; [reflexivity|]. split; [lia|]. split; [exact Hpre|]. right. split; [exact Esp|].
        split; [destruct Hd as [[_ H]|[H _]]; [exact H|lia]|]. apply Hiff. lia.
      + assert (NB : ~ bstop q p).
        { intros (Hnl & Hex). apply Hiff in Hex. destruct Hd as [[H _]|[_ H]]; [lia|congruence]. }
        assert (Hpre' : forall k, q < k < p + 1 -> sp k = true /\ ~ bstop q k).
        { intros k Hk. destruct (Z.eq_dec k p) as [->|]; [auto|apply Hpre; lia]. }
        destruct (Z_lt_dec (p + 1) L) as [Hl|Hl].
        * rewrite fnext_ok by lia. destruct (IH (p + 1) (nl0 + d)) as (s & j & E & Hj & Hk & Hs); try lia; try exact Hpre'.
          { split.
            - intro H1. destruct Hd as [[Hd1 Hd2]|[Hd1 Hd2]].
              + exists p. split; [lia|exact Hd2].
              + assert (Hx : nl0 = 1) by lia. apply Hiff in Hx. destruct Hx as (p' & Hp' & Hx). exists p'. split; [lia|exact Hx].
            - intros (p' & Hp' & Hx). destruct (Z.eq_dec p' p) as [->|Hne].
              + destruct Hd as [[Hd1 Hd2]|[Hd1 Hd2]]; [|congruence]. lia.
              + assert (Hy : nl0 = 1) by (apply Hiff; exists p'; split; [lia|exact Hx]). lia. }
          exists s, j. split; [exact E|]. split; [lia|]. split; [exact Hk|exact Hs].
        * rewrite fnext_fail by lia. exists true, p. split; [reflexivity|]. split; [lia|]. split; [exact Hpre|].
          split; [lia|]. split; [exact Esp|exact NB].
    - exists false, p. split; [reflexivity|]. split; [lia|]. split; [exact Hpre|]. left. exact Esp.
  Qed.

  Lemma blank_to_bstop i q k : q = i \/ sp q = false -> i <= q < k -> w_blank_stop i k -> bstop q k.
  Proof.
    intros Hq Hk (_ & Hnl & p' & Hp' & Hnl' & Hsp). split; [exact Hnl|]. exists p'. split; [|exact Hnl'].
    destruct (Z_le_dec q p'); [lia|]. exfalso. assert (Hs : sp q = true) by (apply Hsp; lia).
    destruct Hq as [->|Hq]; [lia|congruence].
  Qed.

  Lemma f_wordbeg_fwd (big : bool) fuel i : 0 <= i < L -> Z.of_nat fuel > L ->
    exists s j, f_wordbeg F L fuel big 1 i = Some (s, j) /\ i <= j < L /\
      (forall k, i < k < j -> ~ w_stop big i k) /\
      (if s : bool then j = L - 1 /\ (i < j -> ~ w_stop big i j) else i < j /\ w_stop big i j).
  Proof.
    intros Hi Hf. unfold f_wordbeg.
    (* after lbuf_wordlast: q *)
    assert (HQ : exists s0 q, f_wordlast F L fuel (if big then 3%N else kd i) 1 i = Some (s0, q) /\ i <= q < L /\
               (forall k, i < k <= q -> ~ w_stop big i k) /\ (q = i \/ sp q = false) /\
               (if s0 : bool then q = L - 1
                else forall j, q < j -> (forall k, q < k < j -> sp k = true) -> sp j = false -> word_start big j)).
    { destruct (N.eq_dec (kd i) 0) as [E0|E0].
      - exists false, i. split; [apply f_wordlast_blank, E0|]. split; [lia|]. split; [intros; lia|]. split; [auto|].
        intros j Hj Hsp Hnsp. split; [apply kd_nsp, Hnsp|]. right.
        assert (Ek : kd (j - 1) = 0%N).
        { destruct (Z.eq_dec (j - 1) i) as [->|]; [exact E0|]. apply kd_sp, Hsp. lia. }
        destruct big; [exact Ek|]. rewrite Ek. intro H. symmetry in H. apply kd_sp in H. congruence.
      - destruct (f_wordlast_fwd big fuel i Hi Hf E0) as (s0 & q & E & Hq & Hrun & Hs).
        exists s0, q. split; [exact E|]. split; [exact Hq|].
        assert (Hnz : forall k, i <= k <= q -> kd k <> 0%N) by (intros k Hk; eapply inw_nz; [exact E0|apply Hrun, Hk]).
        split; [|split].
        + intros k Hk [(Hk0 & Hprev)|(Hsp & _)].
          * destruct Hprev as [->|Hprev]; [lia|].
            pose proof (Hrun k ltac:(lia)) as R1. pose proof (Hrun (k - 1) ltac:(lia)) as R2. unfold inw in R1, R2.
            destruct big.
            -- apply (Hnz (k - 1)); [lia|exact Hprev].
            -- apply N.eqb_eq in R1, R2. congruence.
          * apply kd_sp in Hsp. apply (Hnz k); [lia|exact Hsp].
        + right. apply kd_nsp, Hnz. lia.
        + destruct s0; [exact Hs|]. destruct Hs as [_ Hs]. intros j Hj Hsp Hnsp. split; [apply kd_nsp, Hnsp|]. right.
          destruct (Z.eq_dec (j - 1) q) as [Ej|Ej].
          * replace (q + 1) with j in Hs by lia. rewrite Ej. pose proof (Hrun q ltac:(lia)) as R1. unfold inw in Hs, R1.
            destruct big.
            -- apply negb_false_iff, N.eqb_eq in Hs. apply kd_sp in Hs. congruence.
            -- apply N.eqb_eq in R1. apply N.eqb_neq in Hs. congruence.
          * assert (Ek : kd (j - 1) = 0%N) by (apply kd_sp, Hsp; lia).
            destruct big; [exact Ek|]. rewrite Ek. intro H. symmetry in H. apply kd_sp in H. congruence. }
    destruct HQ as (s0 & q & E & Hq & Hmin & Hqs & Hs0). rewrite E. cbv zeta.
    destruct (Z_lt_dec (q + 1) L) as [Hl|Hl].
    - rewrite fnext_ok by lia.
      destruct (f_wordbeg_loop_fwd q ltac:(lia) fuel (q + 1) (if nlc q then 1 else 0)) as (s & j & EL & Hj & Hk & Hs); try lia.
      { destruct (nlc q); auto. }
      { split.
        - intro H1. exists q. split; [lia|]. destruct (nlc q); [reflexivity|lia].
        - intros (p' & Hp' & Hx). replace p' with q in Hx by lia. rewrite Hx. reflexivity. }
      exists s, j. split; [exact EL|]. split; [lia|].
      assert (Hmin' : forall k, i < k < j -> ~ w_stop big i k).
      { intros k Hk'. destruct (Z_le_dec k q) as [Hle|Hgt]; [apply Hmin; lia|].
        destruct (Hk k ltac:(lia)) as (Hspk & Hnb). intros [(Hk0 & _)|Hb].
        - apply kd_nsp in Hk0. congruence.
        - apply Hnb. eapply blank_to_bstop; [exact Hqs| |exact Hb]. lia. }
      split; [exact Hmin'|].
      destruct s.
      + destruct Hs as (Ej & Hspj & Hnb). split; [exact Ej|]. intros _ [(Hk0 & _)|Hb].
        * apply kd_nsp in Hk0. congruence.
        * apply Hnb. eapply blank_to_bstop; [exact Hqs| |exact Hb]. lia.
      + split; [lia|]. destruct Hs as [Hnsp|(Hspj & Hnl & p' & Hp' & Hnl')].
        * left. destruct s0; [lia|]. apply Hs0; [lia| |exact Hnsp]. intros k Hk'. apply Hk. lia.
        * right. split; [exact Hspj|]. split; [exact Hnl|]. exists p'. split; [lia|]. split; [exact Hnl'|].
          intros k Hk'. apply Hk. lia.
    - rewrite fnext_fail by lia. exists true, q. split; [reflexivity|]. split; [lia|]. split; [intros; apply Hmin; lia|].
      split; [lia|]. intro. apply Hmin. lia.
  Qed.
End FlatSpec.

(* ---------- fuel ---------- *)
Lemma total_chars_flat b : total_chars b = length (flat b).
Proof. unfold total_chars, flat. induction b as [|l b IH]; cbn [fold_right concat]; [reflexivity|]. rewrite app_length, IH. reflexivity. Qed.
Lemma mfuel_enough b : Z.of_nat (mfuel b) > nchars b.
Proof. unfold mfuel, nchars. rewrite total_chars_flat. lia. Qed.

(* ---------- w W over the buffer ---------- *)
Lemma wordbeg_fwd_spec b big r o : buf_ne b -> vpos b r o ->
  exists s r' o', lbuf_wordbeg (mfuel b) b big 1 r o = Some (s, r', o') /\ vpos b r' o' /\
    let i := idx b r o in let j := idx b r' o' in
    i <= j < nchars b /\ (forall k, i < k < j -> ~ w_stop (fchr b) big i k) /\
    (if s : bool then j = nchars b - 1 /\ (i < j -> ~ w_stop (fchr b) big i j) else i < j /\ w_stop (fchr b) big i j).
Proof.
  intros NE V. pose proof (wordbeg_sim b big 1 (mfuel b) r o NE (or_introl eq_refl) V) as HS.
  destruct (f_wordbeg_fwd (fchr b) (nchars b) big (mfuel b) (idx b r o) (idx_range b r o V) (mfuel_enough b))
    as (s & j & E & Hj & Hmin & Hs).
  rewrite E in HS. destruct (lbuf_wordbeg (mfuel b) b big 1 r o) as [[[s' r'] o']|]; cbn in HS; [|contradiction].
  destruct HS as (-> & V' & I'). exists s, r', o'. split; [reflexivity|]. split; [exact V'|]. cbv zeta. rewrite I'.
  split; [lia|]. split; [exact Hmin|exact Hs].
Qed.

(* ---------- e E : lbuf_wordend forward ---------- *)
Section FlatSpecE.
  Variable F : Z -> chr.
  Variable L : Z.
  Local Notation kd i := (uc_kind (F i)).
  Local Notation sp i := (uc_isspace (F i)).
  Local Notation nlc i := (is_nl (F i)).

  (* the scan also stops on the second line break p crossed while only blanks have been seen *)
  Definition e_blank_stop (i p : Z) : Prop :=
    nlc p = true /\ (forall k, i < k < p -> sp k = true) /\ exists p', i <= p' < p /\ nlc p' = true /\ sp p' = true.
  Definition e_stop (big : bool) (i k : Z) : Prop := word_end F L big k \/ e_blank_stop i k.

  Lemma f_wordend_loop_fwd p0 : 0 <= p0 -> forall fuel p nl0, p0 <= p < L -> Z.of_nat fuel > L - p ->
    (forall k, p0 <= k < p -> sp k = true) -> (forall k, p0 < k <= p -> ~ bstop F p0 k) -> (nl0 = 0 \/ nl0 = 1) ->
    (nl0 = 1 <-> exists p', p0 <= p' <= p /\ nlc p' = true) ->
    exists inner s j, f_wordend_loop F L fuel 1 nl0 p = Some (inner, (s, j)) /\ p <= j < L /\
      (forall k, p0 <= k < j -> sp k = true) /\ (forall k, p0 < k < j -> ~ bstop F p0 k) /\
      (if inner : bool
       then (if s : bool then j = L - 1 /\ sp j = true /\ (p0 < j -> ~ bstop F p0 j) else p < j /\ bstop F p0 j)
       else s = false /\ sp j = false /\ (p0 < j -> ~ bstop F p0 j)).
  Proof.
    intro Hp0. induction fuel as [|f IH]; intros p nl0 Hp Hf Hsp Hnb Hn Hiff; [lia|]. cbn [f_wordend_loop].
    destruct (sp p) eqn:Esp.
    - destruct (Z_lt_dec (p + 1) L) as [Hl|Hl].
      + rewrite fnext_ok by lia. cbv zeta. set (d := if nlc (p + 1) then 1 else 0).
        assert (Hd : (d = 1 /\ nlc (p + 1) = true) \/ (d = 0 /\ nlc (p + 1) = false)) by (unfold d; destruct (nlc (p + 1)); auto).
        clearbody d.
        assert (Hsp' : forall k, p0 <= k < p + 1 -> sp k = true).
        { intros k Hk. destruct (Z.eq_dec k p) as [->|]; [exact Esp|apply Hsp; lia]. }
        destruct (Z.eqb_spec (nl0 + d) 2) as [E2|E2].
        * change (1 <? 0) with false. cbv iota.
          exists true, false, (p + 1). split; [reflexivity|]. split; [lia|]. split; [exact Hsp'|].
          split; [intros k Hk; apply Hnb; lia|]. split; [lia|]. split.
          -- destruct Hd as [[_ H]|[H _]]; [exact H|lia].
          -- assert (Hx : nl0 = 1) by lia. apply Hiff in Hx. destruct Hx as (p' & Hp' & Hx). exists p'. split; [lia|exact Hx].
        * assert (NB : ~ bstop F p0 (p + 1)).
          { intros (Hnl & p' & Hp' & Hx). assert (nl0 = 1) by (apply Hiff; exists p'; split; [lia|exact Hx]).
            destruct Hd as [[H1 _]|[_ H1]]; [lia|congruence]. }
          destruct (IH (p + 1) (nl0 + d)) as (inner & s & j & E & Hj & Hk & Hm & Hs); try lia; try exact Hsp'.
          { intros k Hk. destruct (Z.eq_dec k (p + 1)) as [->|]; [exact NB|apply Hnb; lia]. }
          { split.
            - intro H1. destruct Hd as [[Hd1 Hd2]|[Hd1 Hd2]].
              + exists (p + 1). split; [lia|exact Hd2].
              + assert (Hx : nl0 = 1) by lia. apply Hiff in Hx. destruct Hx as (p' & Hp' & Hx). exists p'. split; [lia|exact Hx].
            - intros (p' & Hp' & Hx). destruct (Z.eq_dec p' (p + 1)) as [->|Hne].
              + destruct Hd as [[Hd1 Hd2]|[Hd1 Hd2]]; [|congruence]. lia.
              + assert (Hy : nl0 = 1) by (apply Hiff; exists p'; split; [lia|exact Hx]). lia. }
          exists inner, s, j. split; [exact E|]. split; [lia|]. split; [exact Hk|]. split; [exact Hm|].
          destruct inner; [|exact Hs]. destruct s; [exact Hs|]. destruct Hs as [H1 H2]. split; [lia|exact H2].
      + rewrite fnext_fail by lia. exists true, true, p. split; [reflexivity|]. split; [lia|]. split; [exact Hsp|].
        split; [intros k Hk; apply Hnb; lia|]. split; [lia|]. split; [exact Esp|]. intro. apply Hnb. lia.
    - exists false, false, p. split; [reflexivity|]. split; [lia|]. split; [exact Hsp|].
      split; [intros k Hk; apply Hnb; lia|]. split; [reflexivity|]. split; [exact Esp|]. intro. apply Hnb. lia.
  Qed.

  Lemma f_wordend_fwd (big : bool) fuel i : 0 <= i < L -> Z.of_nat fuel > L ->
    exists s j, f_wordend F L fuel big 1 i = Some (s, j) /\ i <= j < L /\
      (forall k, i < k < j -> ~ e_stop big i k) /\
      (if s : bool then j = L - 1 /\ (i < j -> ~ e_stop big i j) else i < j /\ e_stop big i j).
  Proof.
    intros Hi Hf. unfold f_wordend.
    (* the common part: the loop from p0, then lbuf_wordlast *)
    assert (HC : forall p0, p0 < L -> (p0 = i /\ sp i = true) \/ (p0 = i + 1 /\ sp i = false) ->
      exists s j,
        match f_wordend_loop F L fuel 1 (0 + (if (0 <? 1) && nlc p0 then 1 else 0)) p0 with
        | None => None
        | Some (true, res) => Some res
        | Some (false, (_, p')) => f_wordlast F L fuel (if big then 3%N else kd p') 1 p'
        end = Some (s, j) /\ i <= j < L /\
        (forall k, i < k < j -> ~ e_stop big i k) /\
        (if s : bool then j = L - 1 /\ (i < j -> ~ e_stop big i j) else i < j /\ e_stop big i j)).
    { intros p0 Hp0 Hc. change (0 <? 1) with true. cbn [andb].
      destruct (f_wordend_loop_fwd p0 ltac:(lia) fuel p0 (0 + (if nlc p0 then 1 else 0))) as (inner & s & j & E & Hj & Hsp & Hnb & Hs); try lia.
      { destruct (nlc p0); auto. }
      { split.
        - intro H1. exists p0. split; [lia|]. destruct (nlc p0); [reflexivity|lia].
        - intros (p' & Hp' & Hx). replace p' with p0 in Hx by lia. rewrite Hx. reflexivity. }
      rewrite E.
      (* blank stops seen from i and from p0 agree *)
      assert (B1 : forall k, i < k -> e_blank_stop i k -> p0 < k /\ bstop F p0 k).
      { intros k Hk (Hnl & Hspk & p' & Hp' & Hnl' & Hsp').
        assert (p0 <= p') by (destruct Hc as [[-> _]|[-> Hc]]; [lia|]; destruct (Z.eq_dec p' i) as [->|]; [congruence|lia]).
        split; [lia|]. split; [exact Hnl|]. exists p'. split; [lia|exact Hnl']. }
      assert (B2 : forall k, p0 < k -> (forall m, p0 <= m < k -> sp m = true) -> bstop F p0 k -> e_blank_stop i k).
      { intros k Hk Hspk (Hnl & p' & Hp' & Hnl'). split; [exact Hnl|]. split.
        - intros m Hm. apply Hspk. lia.
        - exists p'. split; [lia|]. split; [exact Hnl'|]. apply Hspk. lia. }
      assert (M1 : forall k, i < k < j -> ~ e_stop big i k).
      { intros k Hk [(Hk0 & _)|Hb].
        - apply kd_nsp in Hk0. rewrite Hsp in Hk0 by lia. discriminate.
        - destruct (B1 k ltac:(lia) Hb) as [H1 H2]. apply (Hnb k); [lia|exact H2]. }
      destruct inner.
      - exists s, j. split; [reflexivity|]. split; [lia|]. split; [exact M1|]. destruct s.
        + destruct Hs as (Ej & Hspj & Hnbj). split; [exact Ej|]. intros Hij [(Hk0 & _)|Hb].
          * apply kd_nsp in Hk0. congruence.
          * destruct (B1 j Hij Hb) as [H1 H2]. apply Hnbj; assumption.
        + destruct Hs as [H1 H2]. split; [lia|]. right. apply B2; [lia|exact Hsp|exact H2].
      - destruct Hs as (-> & Hnsp & Hnbj).
        assert (Hij : i < j) by (destruct Hc as [[-> Hc]|[-> _]]; [|lia]; destruct (Z.eq_dec j i) as [->|]; [congruence|lia]).
        assert (Hkj : kd j <> 0%N) by (apply kd_nsp, Hnsp).
        destruct (f_wordlast_fwd F L big fuel j ltac:(lia) Hf Hkj) as (s' & q & EW & Hq & Hrun & Hs').
        exists s', q. split; [exact EW|]. split; [lia|].
        assert (NJ : ~ e_blank_stop i j).
        { intro Hb. destruct (B1 j Hij Hb) as [H1 H2]. apply Hnbj; assumption. }
        assert (NK : forall k, j < k -> ~ e_blank_stop i k).
        { intros k Hk (_ & Hspk & _). rewrite Hspk in Hnsp by lia. discriminate. }
        assert (Hnz : forall k, j <= k <= q -> kd k <> 0%N) by (intros k Hk; eapply inw_nz; [exact Hkj|apply Hrun, Hk]).
        assert (M2 : forall k, i < k < q -> ~ e_stop big i k).
        { intros k Hk. destruct (Z_lt_dec k j) as [Hlt|Hge]; [apply M1; lia|].
          intros [(Hk0 & Hk1 & Hnext)|Hb].
          - pose proof (Hrun k ltac:(lia)) as R1. pose proof (Hrun (k + 1) ltac:(lia)) as R2. unfold inw in R1, R2.
            destruct big.
            + apply (Hnz (k + 1)); [lia|exact Hnext].
            + apply N.eqb_eq in R1, R2. congruence.
          - destruct (Z.eq_dec k j) as [->|]; [exact (NJ Hb)|apply (NK k); [lia|exact Hb]]. }
        split; [exact M2|]. destruct s'.
        + split; [exact Hs'|]. intros _ [(_ & Hk1 & _)|Hb]; [lia|].
          destruct (Z.eq_dec q j) as [->|]; [exact (NJ Hb)|apply (NK q); [lia|exact Hb]].
        + split; [lia|]. left. destruct Hs' as [Hq1 Hs']. split; [apply Hnz; lia|]. split; [exact Hq1|].
          pose proof (Hrun q ltac:(lia)) as R1. unfold inw in Hs', R1. destruct big.
          * apply negb_false_iff, N.eqb_eq in Hs'. exact Hs'.
          * apply N.eqb_eq in R1. apply N.eqb_neq in Hs'. congruence. }
    destruct (sp i) eqn:Esp; cbn [negb].
    - apply HC; [lia|auto].
    - destruct (Z_lt_dec (i + 1) L) as [Hl|Hl].
      + rewrite fnext_ok by lia. change (1 <? 0) with false. cbn [andb]. apply HC; [lia|auto].
      + rewrite fnext_fail by lia. cbn [snd]. exists true, i. split; [reflexivity|]. split; [lia|].
        split; [intros; lia|]. split; [lia|intro; lia].
  Qed.
End FlatSpecE.

(* ---------- b B : lbuf_wordend backward ---------- *)
Section FlatSpecB.
  Variable F : Z -> chr.
  Variable L : Z.
  Local Notation kd i := (uc_kind (F i)).
  Local Notation sp i := (uc_isspace (F i)).
  Local Notation nlc i := (is_nl (F i)).

  (* the scan also stops at j when j - 1 is the second line break crossed while only blanks were
     seen: j is the first character of a line of blanks only (possibly just its terminator) that
     ends before the start i *)
  Definition b_blank_stop (i j : Z) : Prop :=
    1 <= j /\ nlc (j - 1) = true /\ (forall k, j <= k < i -> sp k = true) /\ exists p'', j <= p'' < i /\ nlc p'' = true.
  Definition b_stop (big : bool) (i k : Z) : Prop := word_start F big k \/ b_blank_stop i k.

  Definition bstopb (i k : Z) : Prop := nlc k = true /\ exists p'', k < p'' < i /\ nlc p'' = true.

  Lemma f_wordend_loop_bwd i p0 : p0 <= i -> p0 < L -> forall fuel p nl0, 0 <= p <= p0 -> Z.of_nat fuel > p + 1 ->
    (forall k, p < k <= p0 -> sp k = true) -> (forall k, p <= k < p0 -> ~ bstopb i k) -> (nl0 = 0 \/ nl0 = 1) ->
    (nl0 = 1 <-> exists p'', p <= p'' < i /\ nlc p'' = true) ->
    exists inner s j, f_wordend_loop F L fuel (-1) nl0 p = Some (inner, (s, j)) /\ 0 <= j <= p /\
      (forall k, j < k <= p0 -> sp k = true) /\ (forall k, j <= k < p0 -> ~ bstopb i k) /\
      (if inner : bool
       then (if s : bool then j = 0 else 1 <= j /\ sp j = true /\ bstopb i (j - 1))
       else s = false /\ sp j = false).
  Proof.
    intros Hp0 Hp0L. induction fuel as [|f IH]; intros p nl0 Hp Hf Hsp Hnb Hn Hiff; [lia|]. cbn [f_wordend_loop].
    destruct (sp p) eqn:Esp.
    - destruct (Z_le_dec 1 p) as [Hl|Hl].
      + rewrite fnext_ok by lia. cbv zeta. set (d := if nlc (p + -1) then 1 else 0).
        assert (Hd : (d = 1 /\ nlc (p + -1) = true) \/ (d = 0 /\ nlc (p + -1) = false)) by (unfold d; destruct (nlc (p + -1)); auto).
        clearbody d.
        assert (Hsp' : forall k, p + -1 < k <= p0 -> sp k = true).
        { intros k Hk. destruct (Z.eq_dec k p) as [->|]; [exact Esp|apply Hsp; lia]. }
        destruct (Z.eqb_spec (nl0 + d) 2) as [E2|E2].
        * change (-1 <? 0) with true. cbv iota. rewrite fnext_ok by lia. cbn [snd].
          replace (p + -1 + - (-1)) with p by lia.
          exists true, false, p. split; [reflexivity|]. split; [lia|]. split; [exact Hsp|].
          split; [exact Hnb|]. split; [lia|]. split; [exact Esp|]. replace (p - 1) with (p + -1) by lia. split.
          -- destruct Hd as [[_ H]|[H _]]; [exact H|lia].
          -- assert (Hx : nl0 = 1) by lia. apply Hiff in Hx. destruct Hx as (p' & Hp' & Hx). exists p'. split; [lia|exact Hx].
        * assert (NB : ~ bstopb i (p + -1)).
          { intros (Hnl & p' & Hp' & Hx). assert (nl0 = 1) by (apply Hiff; exists p'; split; [lia|exact Hx]).
            destruct Hd as [[H1 _]|[_ H1]]; [lia|congruence]. }
          destruct (IH (p + -1) (nl0 + d)) as (inner & s & j & E & Hj & Hk & Hm & Hs); try lia; try exact Hsp'.
          { intros k Hk. destruct (Z.eq_dec k (p + -1)) as [->|]; [exact NB|apply Hnb; lia]. }
          { split.
            - intro H1. destruct Hd as [[Hd1 Hd2]|[Hd1 Hd2]].
              + exists (p + -1). split; [lia|exact Hd2].
              + assert (Hx : nl0 = 1) by lia. apply Hiff in Hx. destruct Hx as (p' & Hp' & Hx). exists p'. split; [lia|exact Hx].
            - intros (p' & Hp' & Hx). destruct (Z.eq_dec p' (p + -1)) as [->|Hne].
              + destruct Hd as [[Hd1 Hd2]|[Hd1 Hd2]]; [|congruence]. lia.
              + assert (Hy : nl0 = 1) by (apply Hiff; exists p'; split; [lia|exact Hx]). lia. }
          exists inner, s, j. split; [exact E|]. split; [lia|]. split; [exact Hk|]. split; [exact Hm|exact Hs].
      + rewrite fnext_fail by lia. exists true, true, p. split; [reflexivity|]. split; [lia|]. split; [exact Hsp|].
        split; [exact Hnb|]. lia.
    - exists false, false, p. split; [reflexivity|]. split; [lia|]. split; [exact Hsp|].
      split; [exact Hnb|]. split; [reflexivity|exact Esp].
  Qed.

  Lemma f_wordend_bwd (big : bool) fuel i : 0 <= i < L -> Z.of_nat fuel > L ->
    exists s j, f_wordend F L fuel big (-1) i = Some (s, j) /\ 0 <= j <= i /\
      (forall k, j < k < i -> ~ b_stop big i k) /\
      (if s : bool then j = 0 else 1 <= j < i /\ b_stop big i j).
  Proof.
    intros Hi Hf. unfold f_wordend.
    assert (HC : forall p0 nl0, 0 <= p0 ->
      (p0 = i /\ sp i = true /\ nl0 = 0) \/ (p0 = i - 1 /\ sp i = false /\ nl0 = if nlc p0 then 1 else 0) ->
      exists s j,
        match f_wordend_loop F L fuel (-1) (nl0 + (if (0 <? -1) && nlc p0 then 1 else 0)) p0 with
        | None => None
        | Some (true, res) => Some res
        | Some (false, (_, p')) => f_wordlast F L fuel (if big then 3%N else kd p') (-1) p'
        end = Some (s, j) /\ 0 <= j <= i /\
        (forall k, j < k < i -> ~ b_stop big i k) /\
        (if s : bool then j = 0 else 1 <= j < i /\ b_stop big i j)).
    { intros p0 nl0 Hp0 Hc. change (0 <? -1) with false. cbn [andb]. rewrite Z.add_0_r.
      destruct (f_wordend_loop_bwd i p0 ltac:(lia) ltac:(lia) fuel p0 nl0) as (inner & s & j & E & Hj & Hsp & Hnb & Hs); try lia.
      { destruct Hc as [(_ & _ & ->)|(_ & _ & ->)]; [auto|destruct (nlc p0); auto]. }
      { destruct Hc as [(-> & _ & ->)|(-> & _ & ->)].
        - split; [lia|]. intros (p' & Hp' & _). lia.
        - split.
          + intro H1. exists (i - 1). split; [lia|]. destruct (nlc (i - 1)); [reflexivity|lia].
          + intros (p' & Hp' & Hx). replace p' with (i - 1) in Hx by lia. rewrite Hx. reflexivity. }
      rewrite E.
      assert (M1 : forall k, j < k < i -> ~ b_stop big i k).
      { intros k Hk [(Hk0 & _)|(Hk1 & Hnl & _ & p' & Hp' & Hx)].
        - apply kd_nsp in Hk0. rewrite Hsp in Hk0 by lia. discriminate.
        - apply (Hnb (k - 1)); [lia|]. split; [exact Hnl|]. exists p'. split; [lia|exact Hx]. }
      destruct inner.
      - exists s, j. split; [reflexivity|]. destruct s.
        + split; [lia|]. split; [exact M1|exact Hs].
        + destruct Hs as (Hj1 & Hspj & Hnl & p' & Hp' & Hx). split; [lia|]. split; [exact M1|]. split; [lia|].
          right. split; [exact Hj1|]. split; [exact Hnl|]. split.
          * intros k Hk. destruct (Z.eq_dec k j) as [->|]; [exact Hspj|apply Hsp; lia].
          * exists p'. split; [lia|exact Hx].
      - destruct Hs as (-> & Hnsp).
        assert (Hji : j < i) by (destruct Hc as [(-> & Hc & _)|(-> & _ & _)]; [|lia]; destruct (Z.eq_dec j i) as [->|]; [congruence|lia]).
        assert (Hkj : kd j <> 0%N) by (apply kd_nsp, Hnsp).
        destruct (f_wordlast_bwd F L big fuel j ltac:(lia) Hf Hkj) as (s' & q & EW & Hq & Hrun & Hs').
        exists s', q. split; [exact EW|]. split; [lia|].
        assert (Hnz : forall k, q <= k <= j -> kd k <> 0%N) by (intros k Hk; eapply inw_nz; [exact Hkj|apply Hrun, Hk]).
        split.
        + intros k Hk. destruct (Z_lt_dec j k) as [Hlt|Hge]; [apply M1; lia|].
          intros [(Hk0 & Hprev)|(_ & _ & Hspk & _)].
          * destruct Hprev as [->|Hprev]; [lia|].
            pose proof (Hrun k ltac:(lia)) as R1. pose proof (Hrun (k - 1) ltac:(lia)) as R2. unfold inw in R1, R2.
            destruct big.
            -- apply (Hnz (k - 1)); [lia|exact Hprev].
            -- apply N.eqb_eq in R1, R2. congruence.
          * rewrite Hspk in Hnsp by lia. discriminate.
        + destruct s'; [exact Hs'|]. destruct Hs' as [Hq1 Hs']. split; [lia|]. left. split; [apply Hnz; lia|]. right.
          pose proof (Hrun q ltac:(lia)) as R1. unfold inw in Hs', R1. destruct big.
          * apply negb_false_iff, N.eqb_eq in Hs'. exact Hs'.
          * apply N.eqb_eq in R1. apply N.eqb_neq in Hs'. congruence. }
    destruct (sp i) eqn:Esp; cbn [negb].
    - apply HC; [lia|auto].
    - destruct (Z_le_dec 1 i) as [Hl|Hl].
      + rewrite fnext_ok by lia. change (-1 <? 0) with true. cbn [andb]. apply HC; [lia|].
        right. split; [lia|]. split; [reflexivity|reflexivity].
      + rewrite fnext_fail by lia. cbn [snd]. exists true, i. split; [reflexivity|]. split; [lia|].
        split; [intros; lia|lia].
  Qed.
End FlatSpecB.

(* ---------- e E / b B over the buffer ---------- *)
Lemma wordend_fwd_spec b big r o : buf_ne b -> vpos b r o ->
  exists s r' o', lbuf_wordend (mfuel b) b big 1 r o = Some (s, r', o') /\ vpos b r' o' /\
    let i := idx b r o in let j := idx b r' o' in
    i <= j < nchars b /\ (forall k, i < k < j -> ~ e_stop (fchr b) (nchars b) big i k) /\
    (if s : bool then j = nchars b - 1 /\ (i < j -> ~ e_stop (fchr b) (nchars b) big i j)
     else i < j /\ e_stop (fchr b) (nchars b) big i j).
Proof.
  intros NE V. pose proof (wordend_sim b big 1 (mfuel b) r o NE (or_introl eq_refl) V) as HS.
  destruct (f_wordend_fwd (fchr b) (nchars b) big (mfuel b) (idx b r o) (idx_range b r o V) (mfuel_enough b))
    as (s & j & E & Hj & Hmin & Hs).
  rewrite E in HS. destruct (lbuf_wordend (mfuel b) b big 1 r o) as [[[s' r'] o']|]; cbn in HS; [|contradiction].
  destruct HS as (-> & V' & I'). exists s, r', o'. split; [reflexivity|]. split; [exact V'|]. cbv zeta. rewrite I'.
  split; [lia|]. split; [exact Hmin|exact Hs].
Qed.

Lemma wordend_bwd_spec b big r o : buf_ne b -> vpos b r o ->
  exists s r' o', lbuf_wordend (mfuel b) b big (-1) r o = Some (s, r', o') /\ vpos b r' o' /\
    let i := idx b r o in let j := idx b r' o' in
    0 <= j <= i /\ (forall k, j < k < i -> ~ b_stop (fchr b) big i k) /\
    (if s : bool then j = 0 else 1 <= j < i /\ b_stop (fchr b) big i j).
Proof.
  intros NE V. pose proof (wordend_sim b big (-1) (mfuel b) r o NE (or_intror eq_refl) V) as HS.
  destruct (f_wordend_bwd (fchr b) (nchars b) big (mfuel b) (idx b r o) (idx_range b r o V) (mfuel_enough b))
    as (s & j & E & Hj & Hmin & Hs).
  rewrite E in HS. destruct (lbuf_wordend (mfuel b) b big (-1) r o) as [[[s' r'] o']|]; cbn in HS; [|contradiction].
  destruct HS as (-> & V' & I'). exists s, r', o'. split; [reflexivity|]. split; [exact V'|]. cbv zeta. rewrite I'.
  split; [lia|]. split; [exact Hmin|exact Hs].
Qed.

(* ---------- counts: vi_motion repeats the scan, and stops repeating when one reports failure ---------- *)
(* one scan from index i: it lands on j; s = true: the scan ran into the end of the buffer *)
Definition fwd_step (stop : Z -> Z -> Prop) (L : Z) (i j : Z) (s : bool) : Prop :=
  i <= j < L /\ (forall k, i < k < j -> ~ stop i k) /\
  (if s then j = L - 1 /\ (i < j -> ~ stop i j) else i < j /\ stop i j).
Definition bwd_step (stop : Z -> Z -> Prop) (i j : Z) (s : bool) : Prop :=
  0 <= j <= i /\ (forall k, j < k < i -> ~ stop i k) /\ (if s then j = 0 else 1 <= j < i /\ stop i j).
(* n scans in a row (for (i = 0; i < cnt; i++) if (scan()) break;) *)
Inductive chain (step : Z -> Z -> bool -> Prop) : nat -> Z -> Z -> Prop :=
| chain_0 i : chain step 0 i i
| chain_end n i j : step i j true -> chain step (S n) i j
| chain_more n i j k : step i j false -> chain step n j k -> chain step (S n) i k.

(* the characterisation determines the landing index and the status *)
Lemma fwd_step_unique stop L i j j' s s' : fwd_step stop L i j s -> fwd_step stop L i j' s' -> j = j' /\ s = s'.
Proof.
  unfold fwd_step. intros (H1 & H2 & H3) (H1' & H2' & H3'). destruct s, s'.
  - split; [lia|reflexivity].
  - exfalso. destruct H3 as [E N]. destruct H3' as [Hl Hs]. destruct (Z_lt_dec j' j) as [Hlt|Hge].
    + apply (H2 j'); [lia|exact Hs].
    + replace j' with j in Hs by lia. apply N; [lia|exact Hs].
  - exfalso. destruct H3' as [E N]. destruct H3 as [Hl Hs]. destruct (Z_lt_dec j j') as [Hlt|Hge].
    + apply (H2' j); [lia|exact Hs].
    + replace j with j' in Hs by lia. apply N; [lia|exact Hs].
  - split; [|reflexivity]. destruct H3 as [Hl Hs]. destruct H3' as [Hl' Hs'].
    destruct (Z.lt_trichotomy j j') as [Hlt|[E|Hgt]]; [|exact E|]; exfalso.
    + apply (H2' j); [lia|exact Hs].
    + apply (H2 j'); [lia|exact Hs'].
Qed.
Lemma bwd_step_unique stop i j j' s s' : bwd_step stop i j s -> bwd_step stop i j' s' -> j = j' /\ s = s'.
Proof.
  unfold bwd_step. intros (H1 & H2 & H3) (H1' & H2' & H3'). destruct s, s'.
  - split; [lia|reflexivity].
  - exfalso. destruct H3' as [Hl Hs]. apply (H2 j'); [lia|exact Hs].
  - exfalso. destruct H3 as [Hl Hs]. apply (H2' j); [lia|exact Hs].
  - split; [|reflexivity]. destruct H3 as [Hl Hs]. destruct H3' as [Hl' Hs'].
    destruct (Z.lt_trichotomy j j') as [Hlt|[E|Hgt]]; [|exact E|]; exfalso.
    + apply (H2 j'); [lia|exact Hs'].
    + apply (H2' j); [lia|exact Hs].
Qed.
Lemma chain_unique (step : Z -> Z -> bool -> Prop) :
  (forall i j j' s s', step i j s -> step i j' s' -> j = j' /\ s = s') ->
  forall n i j j', chain step n i j -> chain step n i j' -> j = j'.
Proof.
  intros HU n i j j' C. revert j'. induction C as [i|n i j S|n i j k S C IH]; intros j' C'; inversion C'; subst.
  - reflexivity.
  - destruct (HU _ _ _ _ _ S H0) as [E _]. exact E.
  - destruct (HU _ _ _ _ _ S H0) as [_ E]. discriminate.
  - destruct (HU _ _ _ _ _ S H0) as [_ E]. discriminate.
  - destruct (HU _ _ _ _ _ S H0) as [E _]. subst. apply IH. assumption.
Qed.

Lemma iter_chain b (f : Z -> Z -> option st3) (step : Z -> Z -> bool -> Prop) :
  (forall r o, vpos b r o -> exists s r' o', f r o = Some (s, r', o') /\ vpos b r' o' /\ step (idx b r o) (idx b r' o') s) ->
  forall n r o, vpos b r o ->
  exists r' o', iter_break n (wstep f) (r, o) = Some (r', o') /\ vpos b r' o' /\ chain step n (idx b r o) (idx b r' o').
Proof.
  intros Hf. induction n as [|n IH]; intros r o V; cbn [iter_break].
  - exists r, o. split; [reflexivity|]. split; [exact V|constructor].
  - destruct (Hf r o V) as (s & r1 & o1 & E & V1 & S1). unfold wstep at 1. cbn [fst snd]. rewrite E. destruct s.
    + exists r1, o1. split; [reflexivity|]. split; [exact V1|]. apply chain_end, S1.
    + destruct (IH r1 o1 V1) as (r2 & o2 & E2 & V2 & C2). exists r2, o2. split; [exact E2|]. split; [exact V2|].
      eapply chain_more; eauto.
Qed.

Definition word_key (k : mkey) : bool := match k with Kw | KW | Ke | KE | Kb | KB => true | _ => false end.
Definition word_big (k : mkey) : bool := match k with KW | KE | KB => true | _ => false end.
Definition word_chain (b : buf) (k : mkey) : nat -> Z -> Z -> Prop :=
  match k with
  | Kw | KW => chain (fwd_step (w_stop (fchr b) (word_big k)) (nchars b))
  | Ke | KE => chain (fwd_step (e_stop (fchr b) (nchars b) (word_big k)) (nchars b))
  | _ => chain (bwd_step (b_stop (fchr b) (word_big k)))
  end.

Lemma word_motion_spec b rows top cl cc pc has cnt k row off : buf_ne b -> vpos b row off -> word_key k = true ->
  exists r' o', vi_motion b rows top cl cc pc has cnt k row off = MvOk r' o' cl cc pc /\ vpos b r' o' /\
                word_chain b k (Z.to_nat cnt) (idx b row off) (idx b r' o').
Proof.
  intros NE V Hk.
  assert (W : forall big, forall n r o, vpos b r o -> exists r' o',
     iter_break n (wstep (lbuf_wordbeg (mfuel b) b big 1)) (r, o) = Some (r', o') /\ vpos b r' o' /\
     chain (fwd_step (w_stop (fchr b) big) (nchars b)) n (idx b r o) (idx b r' o')).
  { intro big. apply iter_chain. intros r o V0. destruct (wordbeg_fwd_spec b big r o NE V0) as (s & r' & o' & E & V' & H).
    exists s, r', o'. split; [exact E|]. split; [exact V'|exact H]. }
  assert (E : forall big, forall n r o, vpos b r o -> exists r' o',
     iter_break n (wstep (lbuf_wordend (mfuel b) b big 1)) (r, o) = Some (r', o') /\ vpos b r' o' /\
     chain (fwd_step (e_stop (fchr b) (nchars b) big) (nchars b)) n (idx b r o) (idx b r' o')).
  { intro big. apply iter_chain. intros r o V0. destruct (wordend_fwd_spec b big r o NE V0) as (s & r' & o' & E & V' & H).
    exists s, r', o'. split; [exact E|]. split; [exact V'|exact H]. }
  assert (B : forall big, forall n r o, vpos b r o -> exists r' o',
     iter_break n (wstep (lbuf_wordend (mfuel b) b big (-1))) (r, o) = Some (r', o') /\ vpos b r' o' /\
     chain (bwd_step (b_stop (fchr b) big)) n (idx b r o) (idx b r' o')).
  { intro big. apply iter_chain. intros r o V0. destruct (wordend_bwd_spec b big r o NE V0) as (s & r' & o' & E0 & V' & H).
    exists s, r', o'. split; [exact E0|]. split; [exact V'|exact H]. }
  destruct k; try discriminate; unfold vi_motion; cbn [vi_motionln word_chain word_big].
  - destruct (W false (Z.to_nat cnt) row off V) as (r' & o' & E1 & V' & C). rewrite E1. exists r', o'. auto.
  - destruct (B false (Z.to_nat cnt) row off V) as (r' & o' & E1 & V' & C). rewrite E1. exists r', o'. auto.
  - destruct (E false (Z.to_nat cnt) row off V) as (r' & o' & E1 & V' & C). rewrite E1. exists r', o'. auto.
  - destruct (W true (Z.to_nat cnt) row off V) as (r' & o' & E1 & V' & C). rewrite E1. exists r', o'. auto.
  - destruct (B true (Z.to_nat cnt) row off V) as (r' & o' & E1 & V' & C). rewrite E1. exists r', o'. auto.
  - destruct (E true (Z.to_nat cnt) row off V) as (r' & o' & E1 & V' & C). rewrite E1. exists r', o'. auto.
Qed.

Lemma cursor_ok_vpos b r o : b <> [] -> cursor_ok b r o -> vpos b r o.
Proof.
  intros Hb HC. unfold cursor_ok in HC. destruct (getl b r) as [l|] eqn:E.
  - exists l. split; [exact E|]. lia.
  - destruct HC as [HC _]. contradiction.
Qed.

(* ---------- % : lbuf_pair ---------- *)
Definition RP (b : buf) (x : option (option (Z * Z))) (y : option (option Z)) : Prop :=
  match x, y with
  | Some (Some (r, o)), Some (Some j) => vpos b r o /\ idx b r o = j
  | Some None, Some None => True
  | None, None => True
  | _, _ => False
  end.

Lemma pair_loop_sim b dir opn cls : buf_ne b -> dir = 1 \/ dir = -1 -> forall fuel dep r o, vpos b r o ->
  RP b (pair_loop fuel b dir opn cls dep r o) (f_pair_loop (fchr b) (nchars b) fuel dir opn cls dep (idx b r o)).
Proof.
  intros NE Hd. induction fuel as [|f IH]; intros dep r o V; cbn [pair_loop f_pair_loop]; [exact I|].
  next_step NE Hd V r1 o1.
  destruct (fnext (nchars b) dir (idx b r o)) as [[] i1]; cbn [fst snd] in *; [exact I|].
  rewrite (lchr_idx b r1 o1 V1), I1. cbv zeta. destruct (_ =? 0).
  - cbn. auto.
  - rewrite <- I1. apply IH, V1.
Qed.

Section FlatPair.
  Variable F : Z -> chr.
  Variable L : Z.
  Variables opn cls : N.
  Variable dir i : Z.

  (* nesting depth after t steps from the bracket at i: 1 + (brackets like the one at i) - (its partners) *)
  Definition pdelta (c : chr) : Z := (if N.eqb (b0 c) cls then -1 else 0) + (if N.eqb (b0 c) opn then 1 else 0).
  Fixpoint pdepth (t : nat) : Z :=
    match t with O => 1 | S t' => pdepth t' + pdelta (F (i + dir * Z.of_nat t)) end.

  Lemma pdelta_ge c : -1 <= pdelta c.
  Proof. unfold pdelta. destruct (N.eqb (b0 c) cls), (N.eqb (b0 c) opn); lia. Qed.

  Lemma f_pair_loop_spec : dir = 1 \/ dir = -1 -> forall fuel n,
    let p := i + dir * Z.of_nat n in
    0 <= p < L -> Z.of_nat fuel > (if dir =? 1 then L - p else p + 1) -> 1 <= pdepth n ->
    match f_pair_loop F L fuel dir opn cls (pdepth n) p with
    | Some (Some j) => exists m, (n < m)%nat /\ j = i + dir * Z.of_nat m /\ 0 <= j < L /\ pdepth m = 0 /\
                                 forall t, (n < t < m)%nat -> 1 <= pdepth t
    | Some None => forall t, (n < t)%nat -> 0 <= i + dir * Z.of_nat t < L -> 1 <= pdepth t
    | None => False
    end.
  Proof.
    intros Hd. induction fuel as [|f IH]; intros n p Hp Hf Hdep.
    - exfalso. destruct Hd as [-> | ->]; cbn in Hf; lia.
    - cbn [f_pair_loop].
      assert (Epos : p + dir = i + dir * Z.of_nat (S n)) by (unfold p; lia).
      destruct (Z_le_dec 0 (p + dir)) as [H0|H0]; [destruct (Z_lt_dec (p + dir) L) as [H1|H1]|].
      + rewrite fnext_ok by lia. cbv zeta.
        assert (ED : (if N.eqb (b0 (F (p + dir))) opn
                      then (if N.eqb (b0 (F (p + dir))) cls then pdepth n - 1 else pdepth n) + 1
                      else (if N.eqb (b0 (F (p + dir))) cls then pdepth n - 1 else pdepth n)) = pdepth (S n)).
        { cbn [pdepth]. rewrite <- Epos. unfold pdelta. destruct (N.eqb (b0 (F (p + dir))) cls), (N.eqb (b0 (F (p + dir))) opn); lia. }
        rewrite ED. destruct (Z.eqb_spec (pdepth (S n)) 0) as [E0|E0].
        * exists (S n). split; [lia|]. split; [exact Epos|]. split; [lia|]. split; [exact E0|]. intros; lia.
        * assert (Hge : 1 <= pdepth (S n)).
          { cbn [pdepth] in *. pose proof (pdelta_ge (F (i + dir * Z.of_nat (S n)))). lia. }
          specialize (IH (S n)). cbv zeta in IH. rewrite <- Epos in IH.
          assert (Hf' : Z.of_nat f > (if dir =? 1 then L - (p + dir) else p + dir + 1)).
          { destruct Hd as [-> | ->]; cbn in *; lia. }
          specialize (IH ltac:(lia) Hf' Hge).
          destruct (f_pair_loop F L f dir opn cls (pdepth (S n)) (p + dir)) as [[j|]|]; [| |exact IH].
          -- destruct IH as (m & Hm & Ej & Hj & Em & Hmin). exists m. split; [lia|]. split; [exact Ej|]. split; [exact Hj|].
             split; [exact Em|]. intros t Ht. destruct (Nat.eq_dec t (S n)) as [->|]; [exact Hge|apply Hmin; lia].
          -- intros t Ht Hr. destruct (Nat.eq_dec t (S n)) as [->|]; [exact Hge|apply IH; [lia|exact Hr]].
      + rewrite fnext_fail by lia. intros t Ht Hr. exfalso. unfold p in *. destruct Hd as [-> | ->]; lia.
      + rewrite fnext_fail by lia. intros t Ht Hr. exfalso. unfold p in *. destruct Hd as [-> | ->]; lia.
  Qed.
End FlatPair.

Lemma pdepth_zero_cls F opn cls dir i m : pdepth F opn cls dir i (S m) = 0 -> 1 <= pdepth F opn cls dir i m ->
  b0 (F (i + dir * Z.of_nat (S m))) = cls.
Proof.
  cbn [pdepth]. unfold pdelta. intros H0 H1.
  destruct (N.eqb_spec (b0 (F (i + dir * Z.of_nat (S m)))) cls) as [E|E]; [exact E|].
  destruct (N.eqb (b0 (F (i + dir * Z.of_nat (S m)))) opn); lia.
Qed.

Lemma pair_scan_some b r : forall fuel o o1 c, pair_scan fuel b r o = Some (o1, c) ->
  o <= o1 /\ c = b0 (lchr b r o1) /\ c <> 0%N /\ index_of c pairs 0 <> None /\
  forall k, o <= k < o1 -> index_of (b0 (lchr b r k)) pairs 0 = None.
Proof.
  induction fuel as [|f IH]; intros o o1 c E; cbn [pair_scan] in E; [discriminate|].
  destruct (N.eqb_spec (b0 (lchr b r o)) 0) as [E0|E0]; [discriminate|].
  destruct (index_of (b0 (lchr b r o)) pairs 0) eqn:EI.
  - inversion E; subst. split; [lia|]. split; [reflexivity|]. split; [exact E0|]. split; [congruence|]. intros; lia.
  - apply IH in E. destruct E as (H1 & H2 & H3 & H4 & H5). split; [lia|]. repeat split; auto.
    intros k Hk. destruct (Z.eq_dec k o) as [->|]; [exact EI|apply H5; lia].
Qed.

Lemma pair_scan_none b r l : getl b r = Some l -> forall fuel o, 0 <= o -> Z.of_nat fuel + o > slen l ->
  pair_scan fuel b r o = None ->
  exists o1, o <= o1 /\ b0 (lchr b r o1) = 0%N /\ forall k, o <= k < o1 -> index_of (b0 (lchr b r k)) pairs 0 = None.
Proof.
  intro El. induction fuel as [|f IH]; intros o Ho Hf E.
  - exists o. split; [lia|]. split; [|intros; lia]. unfold lchr, chr_at. rewrite El. destruct (Z.ltb_spec o 0); [reflexivity|].
    unfold slen in Hf. rewrite nth_overflow by lia. reflexivity.
  - cbn [pair_scan] in E. destruct (N.eqb_spec (b0 (lchr b r o)) 0) as [E0|E0].
    + exists o. split; [lia|]. split; [exact E0|intros; lia].
    + destruct (index_of (b0 (lchr b r o)) pairs 0) eqn:EI; [discriminate|].
      apply IH in E; [|lia|lia]. destruct E as (o1 & H1 & H2 & H3). exists o1. split; [lia|]. split; [exact H2|].
      intros k Hk. destruct (Z.eq_dec k o) as [->|]; [exact EI|apply H3; lia].
Qed.

Definition pair_dir (pidx : nat) : Z := if Nat.odd pidx then -1 else 1.
Definition pair_other (pidx : nat) : N := nth (if Nat.odd pidx then pidx - 1 else pidx + 1)%nat pairs 0%N.
(* the bracket the motion starts from: the first of ( ) [ ] { } at or after the cursor on its line *)
Definition pair_first (b : buf) (r o o1 : Z) (c : N) (pidx : nat) : Prop :=
  o <= o1 /\ vpos b r o1 /\ c = b0 (lchr b r o1) /\ index_of c pairs 0 = Some pidx /\
  forall k, o <= k < o1 -> index_of (b0 (lchr b r k)) pairs 0 = None.

Lemma pair_spec b r o : buf_ne b -> vpos b r o ->
  match lbuf_pair (mfuel b) b r o with
  | None => False
  | Some None =>
      (exists o1, o <= o1 /\ b0 (lchr b r o1) = 0%N /\ forall k, o <= k < o1 -> index_of (b0 (lchr b r k)) pairs 0 = None)
      \/ (exists o1 c pidx, pair_first b r o o1 c pidx /\
            forall t, (0 < t)%nat -> 0 <= idx b r o1 + pair_dir pidx * Z.of_nat t < nchars b ->
                      1 <= pdepth (fchr b) c (pair_other pidx) (pair_dir pidx) (idx b r o1) t)
  | Some (Some (r', o')) =>
      exists o1 c pidx, pair_first b r o o1 c pidx /\ vpos b r' o' /\
        exists m, (0 < m)%nat /\ idx b r' o' = idx b r o1 + pair_dir pidx * Z.of_nat m /\
          b0 (lchr b r' o') = pair_other pidx /\
          pdepth (fchr b) c (pair_other pidx) (pair_dir pidx) (idx b r o1) m = 0 /\
          forall t, (0 < t < m)%nat -> 1 <= pdepth (fchr b) c (pair_other pidx) (pair_dir pidx) (idx b r o1) t
  end.
Proof.
  intros NE (l & El & Ho). unfold lbuf_pair. rewrite El.
  destruct (pair_scan (S (length l)) b r o) as [[o1 c]|] eqn:ES.
  - apply pair_scan_some in ES. destruct ES as (H1 & H2 & H3 & H4 & H5).
    destruct (index_of c pairs 0) as [pidx|] eqn:EI; [|congruence].
    assert (V1 : vpos b r o1).
    { exists l. split; [exact El|]. split; [lia|]. destruct (Z_lt_dec o1 (slen l)); [assumption|]. exfalso. apply H3. rewrite H2.
      unfold lchr, chr_at. rewrite El. destruct (Z.ltb_spec o1 0); [reflexivity|]. unfold slen in *. rewrite nth_overflow by lia. reflexivity. }
    assert (PF : pair_first b r o o1 c pidx) by (repeat split; auto; lia).
    fold (pair_dir pidx). fold (pair_other pidx).
    assert (Hd : pair_dir pidx = 1 \/ pair_dir pidx = -1) by (unfold pair_dir; destruct (Nat.odd pidx); auto).
    pose proof (pair_loop_sim b (pair_dir pidx) c (pair_other pidx) NE Hd (mfuel b) 1 r o1 V1) as HS.
    pose proof (f_pair_loop_spec (fchr b) (nchars b) c (pair_other pidx) (pair_dir pidx) (idx b r o1) Hd (mfuel b) 0) as HF.
    cbv zeta in HF. cbn [pdepth] in HF. replace (idx b r o1 + pair_dir pidx * Z.of_nat 0) with (idx b r o1) in HF by lia.
    pose proof (idx_range b r o1 V1) as HR. pose proof (mfuel_enough b) as HM.
    specialize (HF HR). assert (Hfu : Z.of_nat (mfuel b) > (if pair_dir pidx =? 1 then nchars b - idx b r o1 else idx b r o1 + 1))
      by (destruct (pair_dir pidx =? 1); lia).
    specialize (HF Hfu ltac:(lia)).
    destruct (pair_loop (mfuel b) b (pair_dir pidx) c (pair_other pidx) 1 r o1) as [[[r' o']|]|];
      destruct (f_pair_loop (fchr b) (nchars b) (mfuel b) (pair_dir pidx) c (pair_other pidx) 1 (idx b r o1)) as [[j|]|];
      cbn in HS; try contradiction.
    + destruct HS as [V' I']. destruct HF as (m & Hm & Ej & Hj & Em & Hmin).
      exists o1, c, pidx. split; [exact PF|]. split; [exact V'|]. exists m. split; [lia|]. split; [lia|]. split; [|split; [exact Em|]].
      * rewrite (lchr_idx b r' o' V'), I', Ej. destruct m as [|m']; [lia|]. apply (pdepth_zero_cls _ c); [exact Em|].
        destruct m' as [|m'']; [cbn; lia|apply Hmin; lia].
      * intros t Ht. apply Hmin. lia.
    + right. exists o1, c, pidx. split; [exact PF|]. intros t Ht Hr. apply HF; [lia|exact Hr].
  - left. eapply pair_scan_none; [exact El|lia| |exact ES]. unfold slen. lia.
Qed.

(* ---------- h l : vi_nextcol over the column model of a left-to-right line ---------- *)
(* every character occupies at least one cell *)
Lemma ph_wid_ok : forallb (fun p : list N * list N * Z => 1 <=? snd p) placeholders = true.
Proof. vm_compute. reflexivity. Qed.
Lemma ascii_code_m : forallb (fun c => if (c <? 128)%N then negb (bit c 128 && bit c 64) else true) bytes256 = true.
Proof. vm_compute. reflexivity. Qed.
Lemma code_ascii (c : chr) : (b0 c < 128)%N -> code c = b0 c.
Proof.
  intro H. unfold code, uc_code, b0 in *. replace (nthb c 0) with (hd0 c) by (destruct c; reflexivity).
  pose proof (byte_sweep _ ascii_code_m (hd0 c) ltac:(lia)) as K. cbv beta in K.
  destruct (hd0 c <? 128)%N eqn:E; [|lia]. rewrite K. reflexivity.
Qed.
Lemma zw_min_gt : 127 <? zw_min = true. Proof. vm_compute. reflexivity. Qed.

Lemma cwid_pos c pos : 0 <= pos -> 1 <= ren_cwid c pos.
Proof.
  intro Hp. unfold ren_cwid. destruct (N.eqb (b0 c) 9).
  - change 7 with (Z.ones 3). rewrite Z.land_ones by lia. change (2 ^ 3) with 8. lia.
  - unfold ren_placeholder_wid.
    destruct (if N.eqb (N.land (b0 c) ph_bits) ph_bits
              then find (fun p => N.eqb (hd0 (fst (fst p))) (b0 c) && N.eqb (uc_code (fst (fst p))) (code c)) placeholders
              else None) as [p|] eqn:E.
    + destruct (N.eqb (N.land (b0 c) ph_bits) ph_bits); [|discriminate]. apply find_some in E. destruct E as [Hin _].
      pose proof ph_wid_ok as K. rewrite forallb_forall in K. specialize (K _ Hin). apply Z.leb_le in K. exact K.
    + destruct (uc_isbell c) eqn:B; [lia|]. unfold uc_wid.
      assert (Z : uc_iszw (Z.of_N (code c)) = false).
      { unfold uc_isbell in B.
        destruct ((Z.of_N (b0 c) =? 32) || (Z.of_N (b0 c) =? 9) || (Z.of_N (b0 c) =? 10) || ((32 <=? Z.of_N (b0 c)) && (Z.of_N (b0 c) <? 127))) eqn:P.
        - assert (b0 c < 128)%N by lia. rewrite code_ascii by assumption. unfold uc_iszw. pose proof zw_min_gt.
          destruct (zw_min <=? Z.of_N (b0 c)) eqn:E1; [lia|reflexivity].
        - apply orb_false_iff in B. apply B. }
      rewrite Z. destruct (uc_isdw _); lia.
Qed.

Definition incr (ps : list Z) : Prop := forall i j, (i < j < length ps)%nat -> nth i ps 0 < nth j ps 0.

Lemma ren_position_len l : forall c, length (ren_position l c) = S (length l).
Proof. induction l as [|x l IH]; intro c; cbn [ren_position length]; [reflexivity|]. rewrite IH. reflexivity. Qed.

Lemma ren_position_incr l : forall c, 0 <= c ->
  (forall k, (k < length (ren_position l c))%nat -> c <= nth k (ren_position l c) 0) /\ incr (ren_position l c).
Proof.
  induction l as [|x l IH]; intros c Hc; cbn [ren_position].
  - split; [intros [|[|k]] Hk; cbn in *; lia|]. intros i j Hij. cbn in Hij. lia.
  - pose proof (cwid_pos x c Hc) as Hw. destruct (IH (c + ren_cwid x c) ltac:(lia)) as [H1 H2]. split.
    + intros [|k] Hk; cbn [nth length] in *; [lia|]. specialize (H1 k ltac:(lia)). lia.
    + intros [|i] [|j] Hij; cbn [nth length] in *; try lia.
      * specialize (H1 j ltac:(lia)). lia.
      * apply H2. lia.
Qed.

Lemma nth_firstn_lt (ps : list Z) : forall n k, (k < n)%nat -> nth k (firstn n ps) 0 = nth k ps 0.
Proof.
  induction ps as [|x ps IH]; intros n k Hk.
  - rewrite firstn_nil. reflexivity.
  - destruct n as [|n]; [lia|]. cbn [firstn]. destruct k as [|k]; [reflexivity|]. cbn [nth]. apply IH. lia.
Qed.

Lemma positions_len l : length (positions l) = length l.
Proof. unfold positions. rewrite firstn_length, ren_position_len. lia. Qed.
Lemma positions_incr l : incr (positions l) /\ (forall k, (k < length l)%nat -> 0 <= nth k (positions l) 0).
Proof.
  destruct (ren_position_incr l 0 ltac:(lia)) as [H1 H2]. unfold incr. rewrite positions_len. unfold positions. split.
  - intros i j Hij. rewrite !nth_firstn_lt by lia. apply H2. rewrite ren_position_len. lia.
  - intros k Hk. rewrite nth_firstn_lt by lia. apply H1. rewrite ren_position_len. lia.
Qed.

Lemma fold_max_spec (Q : Z -> bool) : forall ps acc,
  match fold_left (fun ret x => if Q x && (match ret with None => true | Some y => y <? x end) then Some x else ret) ps acc with
  | None => acc = None /\ forall x, In x ps -> Q x = false
  | Some v => (acc = Some v \/ (In v ps /\ Q v = true)) /\ (forall x, In x ps -> Q x = true -> x <= v) /\
              (forall y, acc = Some y -> y <= v)
  end.
Proof.
  induction ps as [|x ps IH]; intro acc; cbn [fold_left].
  - destruct acc as [v|]; [|split; [reflexivity|intros x []]]. split; [auto|]. split; [intros x []|]. intros y E. inversion E. lia.
  - specialize (IH (if Q x && (match acc with None => true | Some y => y <? x end) then Some x else acc)).
    destruct (fold_left _ ps _) as [v|].
    + destruct IH as (H1 & H2 & H3).
      destruct (Q x && (match acc with None => true | Some y => y <? x end)) eqn:C.
      * apply andb_true_iff in C. destruct C as [C1 C2]. pose proof (H3 x eq_refl) as Hxv. split; [|split].
        -- destruct H1 as [H1|[H1 H1']]; [inversion H1; subst; right; split; [left; reflexivity|exact C1]|right; split; [right; exact H1|exact H1']].
        -- intros x' [<-|Hin] Hq; [exact Hxv|apply H2; assumption].
        -- intros y ->. destruct (Z.ltb_spec y x); [lia|discriminate].
      * split; [|split].
        -- destruct H1 as [H1|[H1 H1']]; [left; exact H1|right; split; [right; exact H1|exact H1']].
        -- intros x' [<-|Hin] Hq; [|apply H2; assumption]. rewrite Hq in C. cbn [andb] in C.
           destruct acc as [y|]; [|discriminate]. specialize (H3 y eq_refl). destruct (Z.ltb_spec y x); [discriminate|lia].
        -- exact H3.
    + destruct IH as (H1 & H2).
      destruct (Q x && (match acc with None => true | Some y => y <? x end)) eqn:C; [discriminate|]. subst acc.
      rewrite andb_true_r in C. split; [reflexivity|]. intros x' [<-|Hin]; [exact C|apply H2, Hin].
Qed.

Lemma fold_min_spec (Q : Z -> bool) : forall ps acc,
  match fold_left (fun ret x => if Q x && (match ret with None => true | Some y => x <? y end) then Some x else ret) ps acc with
  | None => acc = None /\ forall x, In x ps -> Q x = false
  | Some v => (acc = Some v \/ (In v ps /\ Q v = true)) /\ (forall x, In x ps -> Q x = true -> v <= x) /\
              (forall y, acc = Some y -> v <= y)
  end.
Proof.
  induction ps as [|x ps IH]; intro acc; cbn [fold_left].
  - destruct acc as [v|]; [|split; [reflexivity|intros x []]]. split; [auto|]. split; [intros x []|]. intros y E. inversion E. lia.
  - specialize (IH (if Q x && (match acc with None => true | Some y => x <? y end) then Some x else acc)).
    destruct (fold_left _ ps _) as [v|].
    + destruct IH as (H1 & H2 & H3).
      destruct (Q x && (match acc with None => true | Some y => x <? y end)) eqn:C.
      * apply andb_true_iff in C. destruct C as [C1 C2]. pose proof (H3 x eq_refl) as Hxv. split; [|split].
        -- destruct H1 as [H1|[H1 H1']]; [inversion H1; subst; right; split; [left; reflexivity|exact C1]|right; split; [right; exact H1|exact H1']].
        -- intros x' [<-|Hin] Hq; [exact Hxv|apply H2; assumption].
        -- intros y ->. destruct (Z.ltb_spec x y); [lia|discriminate].
      * split; [|split].
        -- destruct H1 as [H1|[H1 H1']]; [left; exact H1|right; split; [right; exact H1|exact H1']].
        -- intros x' [<-|Hin] Hq; [|apply H2; assumption]. rewrite Hq in C. cbn [andb] in C.
           destruct acc as [y|]; [|discriminate]. specialize (H3 y eq_refl). destruct (Z.ltb_spec x y); [discriminate|lia].
        -- exact H3.
    + destruct IH as (H1 & H2).
      destruct (Q x && (match acc with None => true | Some y => x <? y end)) eqn:C; [discriminate|]. subst acc.
      rewrite andb_true_r in C. split; [reflexivity|]. intros x' [<-|Hin]; [exact C|apply H2, Hin].
Qed.

Lemma last_index_spec p : forall ps i acc,
  (last_index ps p i acc = acc /\ forall k, (k < length ps)%nat -> nth k ps 0 <> p) \/
  (exists k, (k < length ps)%nat /\ last_index ps p i acc = i + Z.of_nat k /\ nth k ps 0 = p /\
             forall k', (k < k' < length ps)%nat -> nth k' ps 0 <> p).
Proof.
  induction ps as [|x ps IH]; intros i acc; cbn [last_index].
  - left. split; [reflexivity|]. intros k Hk. cbn in Hk. lia.
  - destruct (IH (i + 1) (if x =? p then i else acc)) as [[E H]|(k & Hk & E & Hp & H)].
    + destruct (Z.eqb_spec x p) as [->|Hne].
      * right. exists 0%nat. cbn [length nth]. split; [lia|]. split; [lia|]. split; [reflexivity|].
        intros [|k'] Hk'; [lia|]. cbn [nth]. apply H. lia.
      * left. split; [exact E|]. intros [|k] Hk; cbn [nth length] in *; [exact Hne|apply H; lia].
    + right. exists (S k). cbn [length nth]. split; [lia|]. split; [lia|]. split; [exact Hp|].
      intros [|k'] Hk'; [lia|]. cbn [nth]. apply H. lia.
Qed.

Lemma pos_prev_spec ps p cur :
  (pos_prev ps p cur = -1 /\ forall x, In x ps -> ~ (x + (if cur then 0 else 1) <= p)) \/
  (In (pos_prev ps p cur) ps /\ pos_prev ps p cur + (if cur then 0 else 1) <= p /\
   forall x, In x ps -> x + (if cur then 0 else 1) <= p -> x <= pos_prev ps p cur).
Proof.
  unfold pos_prev.
  pose proof (fold_max_spec (fun x => x + (if cur then 0 else 1) <=? p) ps None) as H. cbv beta in H. revert H.
  destruct (fold_left _ ps None) as [v|]; intro H.
  - right. destruct H as ([H1|[H1 H1']] & H2 & _); [discriminate|]. split; [exact H1|]. split; [lia|].
    intros x Hx Hq. apply H2; [exact Hx|lia].
  - left. destruct H as [_ H]. split; [reflexivity|]. intros x Hx Hq. specialize (H x Hx). lia.
Qed.

Lemma pos_next_spec ps p cur :
  (pos_next ps p cur = -1 /\ forall x, In x ps -> ~ (x - (if cur then 0 else 1) >= p)) \/
  (In (pos_next ps p cur) ps /\ pos_next ps p cur - (if cur then 0 else 1) >= p /\
   forall x, In x ps -> x - (if cur then 0 else 1) >= p -> pos_next ps p cur <= x).
Proof.
  unfold pos_next.
  pose proof (fold_min_spec (fun x => x - (if cur then 0 else 1) >=? p) ps None) as H. cbv beta in H. revert H.
  destruct (fold_left _ ps None) as [v|]; intro H.
  - right. destruct H as ([H1|[H1 H1']] & H2 & _); [discriminate|]. split; [exact H1|]. split; [lia|].
    intros x Hx Hq. apply H2; [exact Hx|lia].
  - left. destruct H as [_ H]. split; [reflexivity|]. intros x Hx Hq. specialize (H x Hx). lia.
Qed.

Section IncrCols.
  Variable ps : list Z.
  Hypothesis Hinc : incr ps.

  Lemma incr_le i j : (i <= j < length ps)%nat -> nth i ps 0 <= nth j ps 0.
  Proof. intro H. destruct (Nat.eq_dec i j) as [->|]; [lia|]. pose proof (Hinc i j ltac:(lia)). lia. Qed.
  Lemma incr_lt_inv i j : (i < length ps)%nat -> (j < length ps)%nat -> nth i ps 0 < nth j ps 0 -> (i < j)%nat.
  Proof. intros Hi Hj H. destruct (Nat.lt_ge_cases i j) as [Hl|Hl]; [exact Hl|]. pose proof (incr_le j i ltac:(lia)). lia. Qed.
  Lemma incr_inj i j : (i < length ps)%nat -> (j < length ps)%nat -> nth i ps 0 = nth j ps 0 -> i = j.
  Proof.
    intros Hi Hj H. destruct (Nat.lt_trichotomy i j) as [Hl|[Hl|Hl]]; [|exact Hl|].
    - pose proof (Hinc i j ltac:(lia)). lia.
    - pose proof (Hinc j i ltac:(lia)). lia.
  Qed.

  Lemma pos_prev_self k : (k < length ps)%nat -> pos_prev ps (nth k ps 0) true = nth k ps 0.
  Proof.
    intro Hk. destruct (pos_prev_spec ps (nth k ps 0) true) as [[_ H]|(H1 & H2 & H3)].
    - exfalso. apply (H (nth k ps 0)); [apply nth_In, Hk|lia].
    - specialize (H3 (nth k ps 0) (nth_In _ _ Hk) ltac:(lia)). lia.
  Qed.

  Lemma pos_next_succ k : (k < length ps)%nat ->
    pos_next ps (nth k ps 0) false = if (S k <? length ps)%nat then nth (S k) ps 0 else -1.
  Proof.
    intro Hk. destruct (Nat.ltb_spec (S k) (length ps)) as [Hl|Hl].
    - destruct (pos_next_spec ps (nth k ps 0) false) as [[_ H]|(H1 & H2 & H3)].
      + exfalso. apply (H (nth (S k) ps 0)); [apply nth_In, Hl|]. pose proof (Hinc k (S k) ltac:(lia)). lia.
      + apply (In_nth _ _ 0) in H1. destruct H1 as (j & Hj & Ej). rewrite <- Ej in *.
        assert (k < j)%nat by (apply incr_lt_inv; [lia|lia|lia]).
        specialize (H3 (nth (S k) ps 0) (nth_In _ _ Hl)). pose proof (Hinc k (S k) ltac:(lia)).
        pose proof (incr_le (S k) j ltac:(lia)). lia.
    - destruct (pos_next_spec ps (nth k ps 0) false) as [[H _]|(H1 & H2 & H3)]; [exact H|]. exfalso.
      apply (In_nth _ _ 0) in H1. destruct H1 as (j & Hj & Ej). rewrite <- Ej in *.
      assert (k < j)%nat by (apply incr_lt_inv; [lia|lia|lia]). lia.
  Qed.

  Lemma pos_prev_pred k : (k < length ps)%nat ->
    pos_prev ps (nth k ps 0) false = if (0 <? k)%nat then nth (k - 1) ps 0 else -1.
  Proof.
    intro Hk. destruct (Nat.ltb_spec 0 k) as [Hl|Hl].
    - destruct (pos_prev_spec ps (nth k ps 0) false) as [[_ H]|(H1 & H2 & H3)].
      + exfalso. apply (H (nth (k - 1) ps 0)); [apply nth_In; lia|]. pose proof (Hinc (k - 1)%nat k ltac:(lia)). lia.
      + apply (In_nth _ _ 0) in H1. destruct H1 as (j & Hj & Ej). rewrite <- Ej in *.
        assert (j < k)%nat by (apply incr_lt_inv; [lia|lia|lia]).
        assert (Hk1 : (k - 1 < length ps)%nat) by lia.
        specialize (H3 (nth (k - 1) ps 0) (nth_In _ _ Hk1)). pose proof (Hinc (k - 1)%nat k ltac:(lia)).
        pose proof (incr_le j (k - 1)%nat ltac:(lia)). lia.
    - destruct (pos_prev_spec ps (nth k ps 0) false) as [[H _]|(H1 & H2 & H3)]; [exact H|]. exfalso.
      apply (In_nth _ _ 0) in H1. destruct H1 as (j & Hj & Ej). rewrite <- Ej in *.
      assert (j < k)%nat by (apply incr_lt_inv; [lia|lia|lia]). lia.
  Qed.

  Lemma last_index_self k : (k < length ps)%nat -> last_index ps (nth k ps 0) 0 (-1) = Z.of_nat k.
  Proof.
    intro Hk. destruct (last_index_spec (nth k ps 0) ps 0 (-1)) as [[_ H]|(j & Hj & E & Hp & _)].
    - exfalso. apply (H k Hk). reflexivity.
    - apply incr_inj in Hp; [|lia|lia]. subst j. lia.
  Qed.
End IncrCols.

Lemma ren_off_pos l k : (k < length l)%nat -> ren_off l (nth k (positions l) 0) = Z.of_nat k.
Proof.
  intro Hk. destruct (positions_incr l) as [Hi Hn]. unfold ren_off. cbv zeta.
  rewrite pos_prev_self by (rewrite positions_len; exact Hk).
  rewrite last_index_self by (try exact Hi; rewrite positions_len; exact Hk).
  destruct (Z.leb_spec 0 (Z.of_nat k)); [reflexivity|lia].
Qed.

(* h / l one step: the neighbouring character of the line, unless that is outside the line or the terminator *)
Lemma nextcol_spec b dir r o l : dir = 1 \/ dir = -1 -> getl b r = Some l -> 0 <= o < slen l ->
  vi_nextcol b dir (r, o) =
  Some (if (0 <=? o + dir) && (o + dir <? slen l) && negb (N.eqb (b0 (chr_at l (o + dir))) 10)
        then (false, (r, o + dir)) else (true, (r, o))).
Proof.
  intros Hd El Ho. unfold vi_nextcol. rewrite El. destruct (positions_incr l) as [Hi Hn].
  set (k := Z.to_nat o). assert (Hk : (k < length l)%nat) by (unfold slen in Ho; lia).
  assert (Epos : ren_pos l o = nth k (positions l) 0).
  { unfold ren_pos. destruct (Z.leb_spec 0 o); [|lia]. destruct (Z.ltb_spec o (slen l)); [|lia]. reflexivity. }
  rewrite Epos. unfold ren_next. cbv zeta.
  rewrite pos_prev_self by (rewrite positions_len; exact Hk).
  assert (Hlen := positions_len l).
  destruct Hd as [-> | ->].
  - change (0 <=? 1) with true. cbv iota. rewrite (pos_next_succ _ Hi) by lia. rewrite Hlen.
    destruct (Z.leb_spec 0 (o + 1)); [|lia]. cbn [andb].
    destruct (Nat.ltb_spec (S k) (length l)) as [Hl|Hl].
    + destruct (Z.ltb_spec (o + 1) (slen l)); [|unfold slen in *; lia]. cbn [andb].
      rewrite (ren_off_pos l (S k) Hl). replace (Z.of_nat (S k)) with (o + 1) by lia.
      destruct (negb (N.eqb (b0 (chr_at l (o + 1))) 10)).
      * specialize (Hn (S k) Hl). destruct (Z.ltb_spec (nth (S k) (positions l) 0) 0); [lia|].
        rewrite (ren_off_pos l (S k) Hl). replace (Z.of_nat (S k)) with (o + 1) by lia. reflexivity.
      * reflexivity.
    + destruct (Z.ltb_spec (o + 1) (slen l)); [unfold slen in *; lia|]. cbn [andb].
      destruct (negb _); reflexivity.
  - change (0 <=? -1) with false. cbv iota. rewrite (pos_prev_pred _ Hi) by lia.
    destruct (Z.ltb_spec (o + -1) (slen l)); [|lia]. rewrite andb_true_r.
    destruct (Nat.ltb_spec 0 k) as [Hl|Hl].
    + destruct (Z.leb_spec 0 (o + -1)); [|lia]. cbn [andb].
      rewrite (ren_off_pos l (k - 1)%nat ltac:(lia)). replace (Z.of_nat (k - 1)) with (o + -1) by lia.
      destruct (negb (N.eqb (b0 (chr_at l (o + -1))) 10)).
      * specialize (Hn (k - 1)%nat ltac:(lia)). destruct (Z.ltb_spec (nth (k - 1) (positions l) 0) 0); [lia|].
        rewrite (ren_off_pos l (k - 1)%nat ltac:(lia)). replace (Z.of_nat (k - 1)) with (o + -1) by lia. reflexivity.
      * reflexivity.
    + destruct (Z.leb_spec 0 (o + -1)); [lia|]. cbn [andb].
      destruct (negb _); reflexivity.
Qed.

(* ---------- { } : lbuf_paragraphbeg ---------- *)
Lemma is_blank_in b r : 0 <= r < blen b -> exists bl, is_blank_line b r = Some bl.
Proof.
  intro H. unfold is_blank_line. destruct (Z.ltb_spec r 0); [lia|]. destruct (Z.geb_spec r (blen b)); [lia|]. cbn [orb].
  destruct (getl_in_range b r H) as (l & ->). eauto.
Qed.
Lemma is_blank_out b r : ~ (0 <= r < blen b) -> is_blank_line b r = None.
Proof.
  intro H. unfold is_blank_line. destruct (Z.ltb_spec r 0); [reflexivity|]. destruct (Z.geb_spec r (blen b)); [reflexivity|lia].
Qed.

Lemma para_skip_fwd b want : forall fuel r, 0 <= r <= blen b -> Z.of_nat fuel > blen b - r ->
  let r' := para_skip fuel b 1 want r in
  r <= r' <= blen b /\ (forall k, r <= k < r' -> is_blank_line b k = Some want) /\
  (r' < blen b -> is_blank_line b r' = Some (negb want)).
Proof.
  induction fuel as [|f IH]; intros r Hr Hf; [lia|]. cbn [para_skip].
  destruct (Z_lt_dec r (blen b)) as [Hl|Hl].
  - destruct (is_blank_in b r ltac:(lia)) as (bl & E). rewrite E. destruct (Bool.eqb bl want) eqn:EB.
    + apply eqb_prop in EB. subst bl. specialize (IH (r + 1) ltac:(lia) ltac:(lia)). cbv zeta in IH.
      destruct IH as (H1 & H2 & H3). split; [lia|]. split; [|exact H3].
      intros k Hk. destruct (Z.eq_dec k r) as [->|]; [exact E|apply H2; lia].
    + split; [lia|]. split; [intros; lia|]. intros _. rewrite E. f_equal. destruct bl, want; try reflexivity; discriminate.
  - rewrite is_blank_out by lia. split; [lia|]. split; [intros; lia|lia].
Qed.

Lemma para_skip_bwd b want : forall fuel r, -1 <= r < blen b -> Z.of_nat fuel > r + 1 ->
  let r' := para_skip fuel b (-1) want r in
  -1 <= r' <= r /\ (forall k, r' < k <= r -> is_blank_line b k = Some want) /\
  (0 <= r' -> is_blank_line b r' = Some (negb want)).
Proof.
  induction fuel as [|f IH]; intros r Hr Hf; [lia|]. cbn [para_skip].
  destruct (Z_le_dec 0 r) as [Hl|Hl].
  - destruct (is_blank_in b r ltac:(lia)) as (bl & E). rewrite E. destruct (Bool.eqb bl want) eqn:EB.
    + apply eqb_prop in EB. subst bl. specialize (IH (r + -1) ltac:(lia) ltac:(lia)). cbv zeta in IH.
      destruct IH as (H1 & H2 & H3). split; [lia|]. split; [|exact H3].
      intros k Hk. destruct (Z.eq_dec k r) as [->|]; [exact E|apply H2; lia].
    + split; [lia|]. split; [intros; lia|]. intros _. rewrite E. f_equal. destruct bl, want; try reflexivity; discriminate.
  - rewrite is_blank_out by lia. split; [lia|]. split; [intros; lia|lia].
Qed.

(* } : skip the blank lines under the cursor (rows r .. r1-1), then the paragraph (rows r1 .. r2-1); land on the
   blank line r2 that ends it, or on the last line of the buffer *)
Lemma paragraph_fwd b r : 0 <= r < blen b ->
  exists r1 r2, lbuf_paragraphbeg b 1 r = (Z.min r2 (blen b - 1), 0) /\ r <= r1 <= r2 /\ r2 <= blen b /\
    (forall k, r <= k < r1 -> is_blank_line b k = Some true) /\
    (forall k, r1 <= k < r2 -> is_blank_line b k = Some false) /\
    (r2 < blen b -> is_blank_line b r2 = Some true).
Proof.
  intro Hr. unfold lbuf_paragraphbeg. cbv zeta.
  assert (Hfu : Z.of_nat (S (length b)) > blen b) by (unfold blen; lia).
  pose proof (para_skip_fwd b true (S (length b)) r ltac:(lia) ltac:(lia)) as H1. cbv zeta in H1.
  set (r1 := para_skip (S (length b)) b 1 true r) in *. destruct H1 as (A1 & A2 & A3).
  pose proof (para_skip_fwd b false (S (length b)) r1 ltac:(lia) ltac:(lia)) as H2. cbv zeta in H2.
  set (r2 := para_skip (S (length b)) b 1 false r1) in *. destruct H2 as (B1 & B2 & B3).
  exists r1, r2. split; [f_equal; lia|]. split; [lia|]. split; [lia|]. split; [exact A2|]. split; [exact B2|exact B3].
Qed.

(* { : the same towards the start of the buffer (r2 = -1: no blank line above, lands on the first line) *)
Lemma paragraph_bwd b r : 0 <= r < blen b ->
  exists r1 r2, lbuf_paragraphbeg b (-1) r = (Z.max 0 r2, 0) /\ r2 <= r1 <= r /\ -1 <= r2 /\
    (forall k, r1 < k <= r -> is_blank_line b k = Some true) /\
    (forall k, r2 < k <= r1 -> is_blank_line b k = Some false) /\
    (0 <= r2 -> is_blank_line b r2 = Some true).
Proof.
  intro Hr. unfold lbuf_paragraphbeg. cbv zeta.
  assert (Hfu : Z.of_nat (S (length b)) > blen b) by (unfold blen; lia).
  pose proof (para_skip_bwd b true (S (length b)) r ltac:(lia) ltac:(lia)) as H1. cbv zeta in H1.
  set (r1 := para_skip (S (length b)) b (-1) true r) in *. destruct H1 as (A1 & A2 & A3).
  pose proof (para_skip_bwd b false (S (length b)) r1 ltac:(lia) ltac:(lia)) as H2. cbv zeta in H2.
  set (r2 := para_skip (S (length b)) b (-1) false r1) in *. destruct H2 as (B1 & B2 & B3).
  exists r1, r2. split; [f_equal; lia|]. split; [lia|]. split; [lia|]. split; [exact A2|]. split; [exact B2|exact B3].
Qed.

(* what "blank line" means: the line is exactly its terminator *)
Lemma is_blank_line_true b r : is_blank_line b r = Some true <-> getl b r = Some [[10%N]].
Proof.
  unfold is_blank_line. destruct (Z.ltb_spec r 0).
  - cbn [orb]. unfold getl. destruct (Z.ltb_spec r 0); [|lia]. split; discriminate.
  - destruct (Z.geb_spec r (blen b)); cbn [orb].
    + split; [discriminate|]. intro E. apply getl_some in E. lia.
    + destruct (getl b r) as [l|]; [|split; discriminate].
      destruct l as [|c [|c' l']]; try (split; discriminate).
      destruct (list_eq_dec N.eq_dec c [10%N]) as [->|Hne]; [tauto|]. split; [discriminate|]. intro E. inversion E. contradiction.
Qed.

(* ---------- readings under buf_wf ---------- *)
(* a blank character is a line break exactly when it is the terminator of its line *)
Lemma nl_is_terminator b r o l : buf_wf b -> getl b r = Some l -> 0 <= o < slen l ->
  uc_isspace (lchr b r o) = true -> (is_nl (lchr b r o) = true <-> o = slen l - 1).
Proof.
  intros HW El Ho Hsp. unfold lchr. rewrite El. unfold lchr in Hsp. rewrite El in Hsp.
  destruct (getl_wf _ _ _ HW El) as (body & E & HF). pose proof (wf_slen l body E) as Hn.
  assert (Hc : code (chr_at l o) = b0 (chr_at l o)).
  { apply code_ascii. unfold uc_isspace in Hsp. apply andb_true_iff in Hsp. destruct Hsp as [H _]. unfold b0. lia. }
  unfold is_nl. rewrite Hc. split.
  - intro H. apply N.eqb_eq in H. destruct (Z.eq_dec o (slen l - 1)); [assumption|]. exfalso.
    revert H. rewrite E. apply wf_chr_body; [exact HF|lia].
  - intros ->. apply N.eqb_eq. rewrite E at 1. replace (slen l - 1) with (Z.of_nat (length body)) by lia. apply wf_chr_last.
Qed.

(* the last character of a well-formed buffer is blank, so a word never ends at the last index *)
Lemma wf_last_blank b : buf_wf b -> b <> [] -> uc_isspace (fchr b (nchars b - 1)) = true.
Proof.
  intros HW Hb. destruct (exists_last Hb) as (b1 & l & ->).
  assert (Hl : line_wf l) by (unfold buf_wf in HW; rewrite Forall_forall in HW; apply HW, in_or_app; right; left; reflexivity).
  destruct Hl as (body & -> & _). unfold fchr, nchars, flat, chr_at. rewrite concat_app. cbn [concat]. rewrite app_nil_r.
  rewrite !app_length. cbn [length].
  destruct (Z.ltb_spec (Z.of_nat (length (concat b1) + (length body + 1)) - 1) 0); [lia|].
  rewrite app_nth2 by lia. rewrite app_nth2 by lia.
  replace (Z.to_nat (Z.of_nat (length (concat b1) + (length body + 1)) - 1) - length (concat b1) - length body)%nat with 0%nat by lia.
  reflexivity.
Qed.

(* ---------- h l with a count ---------- *)
Lemma l_iter b row l : buf_wf b -> getl b row = Some l -> forall n off, 0 <= off < slen l ->
  iter_break n (vi_nextcol b 1) (row, off) = Some (row, Z.max off (Z.min (off + Z.of_nat n) (slen l - 2))).
Proof.
  intros HW El. destruct (getl_wf _ _ _ HW El) as (body & E & HF). pose proof (wf_slen l body E) as Hn.
  induction n as [|n IH]; intros off Ho; cbn [iter_break]; [f_equal; f_equal; lia|].
  rewrite (nextcol_spec b 1 row off l (or_introl eq_refl) El Ho).
  destruct (Z.leb_spec 0 (off + 1)); [|lia]. cbn [andb].
  destruct (Z.ltb_spec (off + 1) (slen l)); cbn [andb].
  - destruct (Z.eq_dec (off + 1) (slen l - 1)) as [He|Hne].
    + assert (Hb : b0 (chr_at l (off + 1)) = 10%N).
      { rewrite He. rewrite E at 1. replace (slen l - 1) with (Z.of_nat (length body)) by lia. apply wf_chr_last. }
      rewrite Hb. cbn. f_equal. f_equal. lia.
    + assert (Hb : b0 (chr_at l (off + 1)) <> 10%N) by (rewrite E; apply wf_chr_body; [exact HF|lia]).
      apply N.eqb_neq in Hb. rewrite Hb. cbn [negb]. rewrite IH by lia. f_equal. f_equal. lia.
  - f_equal. f_equal. lia.
Qed.

Lemma h_iter b row l : buf_wf b -> getl b row = Some l -> forall n off, 0 <= off < slen l ->
  iter_break n (vi_nextcol b (-1)) (row, off) = Some (row, Z.max 0 (off - Z.of_nat n)).
Proof.
  intros HW El. destruct (getl_wf _ _ _ HW El) as (body & E & HF). pose proof (wf_slen l body E) as Hn.
  induction n as [|n IH]; intros off Ho; cbn [iter_break]; [f_equal; f_equal; lia|].
  rewrite (nextcol_spec b (-1) row off l (or_intror eq_refl) El Ho).
  destruct (Z.ltb_spec (off + -1) (slen l)); [|lia]. rewrite andb_true_r.
  destruct (Z.leb_spec 0 (off + -1)); cbn [andb].
  - assert (Hb : b0 (chr_at l (off + -1)) <> 10%N) by (rewrite E; apply wf_chr_body; [exact HF|lia]).
    apply N.eqb_neq in Hb. rewrite Hb. cbn [negb]. rewrite IH by lia. f_equal. f_equal. lia.
  - f_equal. f_equal. lia.
Qed.

(* h: count characters to the left, not beyond the first; l: count characters to the right, not
   beyond the last character before the terminator *)
Lemma hl_motion_spec b rows top cl cc pc has cnt row off l : buf_wf b -> getl b row = Some l -> 0 <= off < slen l ->
  vi_motion b rows top cl cc pc has cnt Kh row off = MvOk row (Z.max 0 (off - Z.max 0 cnt)) cl cc pc /\
  vi_motion b rows top cl cc pc has cnt Kl row off = MvOk row (Z.max off (Z.min (off + Z.max 0 cnt) (slen l - 2))) cl cc pc.
Proof.
  intros HW El Ho. unfold vi_motion. cbn [vi_motionln].
  rewrite (h_iter b row l HW El _ off Ho), (l_iter b row l HW El _ off Ho).
  replace (Z.of_nat (Z.to_nat cnt)) with (Z.max 0 cnt) by lia. split; reflexivity.
Qed.

(* ---------- { } and % at the vi_motion level ---------- *)
Lemma iter_shift {A} (g : A -> A) n x : Nat.iter n g (g x) = g (Nat.iter n g x).
Proof. induction n as [|n IH]; [reflexivity|]. change (g (Nat.iter n g (g x)) = g (g (Nat.iter n g x))). rewrite IH. reflexivity. Qed.
Lemma iter_nobreak {A} (g : A -> A) : forall n x, iter_break n (fun p => Some (false, g p)) x = Some (Nat.iter n g x).
Proof.
  induction n as [|n IH]; intro x; cbn [iter_break]; [reflexivity|]. rewrite IH. f_equal. apply iter_shift.
Qed.

Lemma para_motion_spec b rows top cl cc pc has cnt row off (fwd : bool) :
  vi_motion b rows top cl cc pc has cnt (if fwd then Krbrace else Klbrace) row off =
  let p := Nat.iter (Z.to_nat cnt) (fun p => lbuf_paragraphbeg b (if fwd then 1 else -1) (fst p)) (row, off) in
  MvOk (fst p) (snd p) cl cc pc.
Proof.
  unfold vi_motion. destruct fwd; cbn [vi_motionln]; rewrite iter_nobreak; cbv zeta;
    destruct (Nat.iter _ _ _) as [r o]; reflexivity.
Qed.

Lemma pct_motion_spec b rows top cl cc pc cnt row off :
  vi_motion b rows top cl cc pc false cnt Kpct row off =
  match lbuf_pair (mfuel b) b row off with
  | None => MvFuel
  | Some None => MvFail cl cc
  | Some (Some (r, o)) => MvOk r o cl cc pc
  end.
Proof. reflexivity. Qed.

(* ---------- the fuel always suffices: no program of motions runs out of fuel ---------- *)
Lemma iter_break_total {A} (step : A -> option (bool * A)) : (forall x, step x <> None) ->
  forall n x, iter_break n step x <> None.
Proof.
  intros H. induction n as [|n IH]; intro x; cbn [iter_break]; [discriminate|].
  specialize (H x). destruct (step x) as [[[] y]|]; [discriminate|apply IH|contradiction].
Qed.
Lemma iter_break_first {A} (step : A -> option (bool * A)) x y : step x = Some (true, y) ->
  forall n, iter_break n step x <> None.
Proof. intros H [|n]; cbn [iter_break]; [discriminate|]. rewrite H. discriminate. Qed.

Ltac ok_iter :=
  match goal with
  | |- match ?it with Some _ => _ | None => MvFuel end <> MvFuel =>
      let E := fresh "E" in destruct it as [[? ?]|] eqn:E; [discriminate|exfalso; revert E]
  end.

Lemma vi_motion_total b rows top cl cc pc has cnt k row off : buf_ne b -> vpos b row off ->
  vi_motion b rows top cl cc pc has cnt k row off <> MvFuel.
Proof.
  intros NE V. destruct (word_key k) eqn:WK.
  - destruct (word_motion_spec b rows top cl cc pc has cnt k row off NE V WK) as (r' & o' & E & _). rewrite E. discriminate.
  - unfold vi_motion. destruct (vi_motionln b rows top has cnt k row) as [[r1|]|]; try discriminate.
    destruct k; try discriminate;
      try (destruct (lbuf_findchar _ _ _ _ _ _); discriminate);
      try (destruct cl; [discriminate|destruct (lbuf_findchar _ _ _ _ _ _); discriminate]).
    + ok_iter. apply iter_break_total. intros [r o]. unfold vi_nextcol. destruct (getl b r); [destruct (_ <? 0)|]; discriminate.
    + ok_iter. apply iter_break_total. intros [r o]. unfold vi_nextcol. destruct (getl b r); [destruct (_ <? 0)|]; discriminate.
    + pose proof (pair_spec b row off NE V) as P. destruct (lbuf_pair (mfuel b) b row off) as [[[? ?]|]|]; [discriminate|discriminate|contradiction].
    + ok_iter. apply iter_break_total. intros x. discriminate.
    + ok_iter. apply iter_break_total. intros x. discriminate.
    + ok_iter. apply iter_break_total. intros [r o]. unfold vi_nextoff. destruct (lbuf_lnnext b 1 r o); discriminate.
    + ok_iter. apply iter_break_total. intros [r o]. unfold vi_nextoff. destruct (lbuf_lnnext b (-1) r o); discriminate.
Qed.

Lemma vi_motion_total_empty rows top cl cc pc has cnt k : vi_motion [] rows top cl cc pc has cnt k 0 0 <> MvFuel.
Proof.
  unfold vi_motion. destruct (vi_motionln [] rows top has cnt k 0) as [[r1|]|]; try discriminate.
  destruct k; try discriminate;
    try (destruct (lbuf_findchar _ _ _ _ _ _); discriminate);
    try (destruct cl; [discriminate|destruct (lbuf_findchar _ _ _ _ _ _); discriminate]);
    try (ok_iter; apply iter_break_first with (y := (0, 0)); reflexivity).
  - ok_iter. apply iter_break_total. intros x. discriminate.
  - ok_iter. apply iter_break_total. intros x. discriminate.
Qed.

Lemma do_motion_total b rows a1 a2 k s : buf_wf b -> cursor_ok b (v_row s) (v_off s) -> do_motion b rows a1 a2 k s <> None.
Proof.
  intros HW HC. unfold do_motion.
  assert (M : vi_motion b rows (v_top s) (v_cl s) (v_cc s) (v_pcol s)
                (negb (a1 =? 0) || negb (a2 =? 0)) ((if a1 =? 0 then 1 else a1) * (if a2 =? 0 then 1 else a2)) k
                (v_row s) (ren_noeol (getl b (v_row s)) (v_off s)) <> MvFuel).
  { destruct b as [|l0 b0].
    - assert (G : forall r, getl [] r = None) by (intro r; unfold getl; destruct (r <? 0); [reflexivity|destruct (Z.to_nat r); reflexivity]).
      unfold cursor_ok in HC. rewrite G in HC |- *. destruct HC as (_ & Hr & Ho). rewrite Hr, Ho.
      change (ren_noeol None 0) with 0. apply vi_motion_total_empty.
    - assert (V : vpos (l0 :: b0) (v_row s) (v_off s)) by (apply cursor_ok_vpos; [discriminate|exact HC]).
      unfold cursor_ok in HC. destruct V as (l & El & Ho). rewrite El in HC |- *.
      rewrite ren_noeol_id; [|eapply getl_wf; eauto|exact HC].
      apply vi_motion_total; [apply buf_wf_ne, HW|exists l; auto]. }
  destruct (vi_motion _ _ _ _ _ _ _ _ _ _ _); [discriminate|discriminate|contradiction].
Qed.

Lemma run_total b rows : buf_wf b -> forall cs s, cursor_ok b (v_row s) (v_off s) -> run b rows cs s <> None.
Proof.
  intro HW. induction cs as [|c cs IH]; intros s HC; cbn [run]; [discriminate|].
  destruct (step b rows c s) as [s1|] eqn:S1.
  - apply IH. eapply step_ok; eauto.
  - exfalso. destruct c as [cnt k|n]; cbn [step] in S1; [|discriminate]. revert S1. apply do_motion_total; assumption.
Qed.

Lemma run_prog_total b rows cs : buf_wf b -> run_prog b rows cs <> None.
Proof.
  intro HW. unfold run_prog. pose proof (run_total b rows HW cs init_vst (init_ok b HW)) as H.
  destruct (run b rows cs init_vst); [discriminate|contradiction].
Qed.

(* ---------- the statements as Properties_C07.v quotes them (hypothesis buf_wf) ---------- *)
Lemma flat_step b dir r o : buf_wf b -> dir = 1 \/ dir = -1 -> vpos b r o ->
  exists r' o', lbuf_next b dir r o = (fst (fnext (nchars b) dir (idx b r o)), r', o') /\ vpos b r' o' /\
                idx b r' o' = snd (fnext (nchars b) dir (idx b r o)).
Proof. intros HW. apply next_sim, buf_wf_ne, HW. Qed.

Lemma w_first_stop b big r o : buf_wf b -> vpos b r o ->
  exists s r' o', lbuf_wordbeg (mfuel b) b big 1 r o = Some (s, r', o') /\ vpos b r' o' /\
    fwd_step (w_stop (fchr b) big) (nchars b) (idx b r o) (idx b r' o') s.
Proof. intros HW V. apply wordbeg_fwd_spec; [apply buf_wf_ne, HW|exact V]. Qed.

Lemma e_first_stop b big r o : buf_wf b -> vpos b r o ->
  exists s r' o', lbuf_wordend (mfuel b) b big 1 r o = Some (s, r', o') /\ vpos b r' o' /\
    fwd_step (e_stop (fchr b) (nchars b) big) (nchars b) (idx b r o) (idx b r' o') s.
Proof. intros HW V. apply wordend_fwd_spec; [apply buf_wf_ne, HW|exact V]. Qed.

Lemma b_first_stop b big r o : buf_wf b -> vpos b r o ->
  exists s r' o', lbuf_wordend (mfuel b) b big (-1) r o = Some (s, r', o') /\ vpos b r' o' /\
    bwd_step (b_stop (fchr b) big) (idx b r o) (idx b r' o') s.
Proof. intros HW V. apply wordend_bwd_spec; [apply buf_wf_ne, HW|exact V]. Qed.

Lemma word_motion_count b rows top cl cc pc has cnt k row off : buf_wf b -> vpos b row off -> word_key k = true ->
  exists r' o', vi_motion b rows top cl cc pc has cnt k row off = MvOk r' o' cl cc pc /\ vpos b r' o' /\
                word_chain b k (Z.to_nat cnt) (idx b row off) (idx b r' o').
Proof. intros HW. apply word_motion_spec, buf_wf_ne, HW. Qed.

Lemma pair_match b r o : buf_wf b -> vpos b r o ->
  match lbuf_pair (mfuel b) b r o with
  | None => False
  | Some None =>
      (exists o1, o <= o1 /\ b0 (lchr b r o1) = 0%N /\ forall k, o <= k < o1 -> index_of (b0 (lchr b r k)) pairs 0 = None)
      \/ (exists o1 c pidx, pair_first b r o o1 c pidx /\
            forall t, (0 < t)%nat -> 0 <= idx b r o1 + pair_dir pidx * Z.of_nat t < nchars b ->
                      1 <= pdepth (fchr b) c (pair_other pidx) (pair_dir pidx) (idx b r o1) t)
  | Some (Some (r', o')) =>
      exists o1 c pidx, pair_first b r o o1 c pidx /\ vpos b r' o' /\
        exists m, (0 < m)%nat /\ idx b r' o' = idx b r o1 + pair_dir pidx * Z.of_nat m /\
          b0 (lchr b r' o') = pair_other pidx /\
          pdepth (fchr b) c (pair_other pidx) (pair_dir pidx) (idx b r o1) m = 0 /\
          forall t, (0 < t < m)%nat -> 1 <= pdepth (fchr b) c (pair_other pidx) (pair_dir pidx) (idx b r o1) t
  end.
Proof. intros HW. apply pair_spec, buf_wf_ne, HW. Qed.

(* the brackets are paired as ( ) [ ] { }: direction and partner *)
Lemma pair_table : map (fun i => (nth i pairs 0%N, pair_dir i, pair_other i)) (seq 0 6) =
  [(40%N, 1, 41%N); (41%N, -1, 40%N); (91%N, 1, 93%N); (93%N, -1, 91%N); (123%N, 1, 125%N); (125%N, -1, 123%N)].
Proof. reflexivity. Qed.

Example word_nonvacuous :
  let b := buf_of_bytes [97; 98; 32; 32; 99; 46; 10; 32; 10; 10; 40; 120; 41; 10]%N in      (* "ab  c.\n \n\n(x)\n" *)
  buf_wf b /\ vpos b 0 0 /\
  lbuf_wordbeg (mfuel b) b false 1 0 0 = Some (false, 0, 4) /\ lbuf_wordend (mfuel b) b false 1 0 0 = Some (false, 0, 1) /\
  lbuf_wordbeg (mfuel b) b false 1 0 5 = Some (false, 1, 1) /\ lbuf_wordend (mfuel b) b false (-1) 3 0 = Some (false, 2, 0) /\
  lbuf_pair (mfuel b) b 3 0 = Some (Some (3, 2)) /\ lbuf_wordbeg (mfuel b) b true 1 3 1 = Some (true, 3, 3).
Proof.
  cbv zeta. split; [|split; [|vm_compute; repeat split; reflexivity]].
  - repeat constructor.
    + exists [[97]; [98]; [32]; [32]; [99]; [46]]%N. split; [reflexivity|]. repeat constructor; discriminate.
    + exists [[32]]%N. split; [reflexivity|]. repeat constructor; discriminate.
    + exists []. split; [reflexivity|]. constructor.
    + exists [[40]; [120]; [41]]%N. split; [reflexivity|]. repeat constructor; discriminate.
  - eexists. split; [reflexivity|]. vm_compute. split; [discriminate|reflexivity].
Qed.

Lemma vi_motion_total_wf b rows top cl cc pc has cnt k row off : buf_wf b -> vpos b row off ->
  vi_motion b rows top cl cc pc has cnt k row off <> MvFuel.
Proof. intros HW. apply vi_motion_total, buf_wf_ne, HW. Qed.

Lemma word_chain_unique b k n i j j' : word_chain b k n i j -> word_chain b k n i j' -> j = j'.
Proof.
  unfold word_chain. destruct k; apply chain_unique; intros;
    first [eapply fwd_step_unique; eassumption | eapply bwd_step_unique; eassumption].
Qed.

(* end to end: the vi cursor after w W e E b B with a count, from any valid cursor of a non-empty
   buffer: the chain's landing position, moved off the terminator of a non-empty line by ren_noeol *)
Lemma word_motion_cursor b rows a1 a2 k s : buf_wf b -> b <> [] -> cursor_ok b (v_row s) (v_off s) -> word_key k = true ->
  exists r' o' l' s', do_motion b rows a1 a2 k s = Some s' /\ getl b r' = Some l' /\ 0 <= o' < slen l' /\
    word_chain b k (Z.to_nat (m_cnt a1 a2)) (idx b (v_row s) (v_off s)) (idx b r' o') /\
    v_row s' = r' /\ v_off s' = ren_noeol (Some l') o' /\ v_col s' = ren_pos l' (v_off s').
Proof.
  intros HW Hb HC Hk. pose proof (cursor_ok_vpos b _ _ Hb HC) as V.
  assert (En : ren_noeol (getl b (v_row s)) (v_off s) = v_off s).
  { destruct V as (l & El & Ho). rewrite El. unfold cursor_ok in HC. rewrite El in HC.
    apply ren_noeol_id; [eapply getl_wf; eauto|exact HC]. }
  destruct (word_motion_count b rows (v_top s) (v_cl s) (v_cc s) (v_pcol s) (m_has a1 a2) (m_cnt a1 a2) k (v_row s) (v_off s) HW V Hk)
    as (r' & o' & M & (l' & El' & Ho') & C).
  rewrite <- En in M at 1.
  destruct (do_motion_land b rows a1 a2 k s r' o' (v_cl s) (v_cc s) (v_pcol s) l' HW (cursor_ok_off _ _ _ HC) M El')
    as (s' & E & H1 & H2 & H3 & _).
  assert (Hj : is_jk k = false) by (destruct k; try reflexivity; discriminate).
  assert (Hbar : is_bar k = false) by (destruct k; try reflexivity; discriminate).
  rewrite Hj in H2, H3. rewrite Hbar in H3. destruct (Z.ltb_spec o' 0); [lia|].
  exists r', o', l', s'. repeat split; auto; lia.
Qed.

(* ---------- reading the blank-line stops over a well-formed buffer ---------- *)
(* no overlong-encoded line feed: a character whose code point is 10 is the blank byte 0x0A *)
Definition nl_canon (b : buf) : Prop :=
  forall i, 0 <= i < nchars b -> is_nl (fchr b i) = true -> uc_isspace (fchr b i) = true.
(* row r consists of blanks only (e.g. it is empty) *)
Definition blank_row (b : buf) (r : Z) : Prop :=
  exists l, getl b r = Some l /\ forall k, 0 <= k < slen l -> uc_isspace (chr_at l k) = true.

Lemma row_nl b r l k : buf_wf b -> getl b r = Some l -> pre b r <= k < pre b r + slen l ->
  uc_isspace (fchr b k) = true -> (is_nl (fchr b k) = true <-> k = pre b r + slen l - 1).
Proof.
  intros HW El Hk Hsp. set (o := k - pre b r). assert (Ho : 0 <= o < slen l) by (unfold o; lia).
  assert (V : vpos b r o) by (exists l; auto).
  assert (Ek : k = idx b r o) by (unfold idx, o; lia). rewrite Ek in *.
  rewrite <- (lchr_idx b r o V) in *. rewrite (nl_is_terminator b r o l HW El Ho Hsp). unfold idx. lia.
Qed.

Lemma row_term b r l : buf_wf b -> getl b r = Some l ->
  uc_isspace (fchr b (pre b r + slen l - 1)) = true /\ is_nl (fchr b (pre b r + slen l - 1)) = true.
Proof.
  intros HW El. destruct (getl_wf _ _ _ HW El) as (body & E & HF). pose proof (wf_slen l body E) as Hn.
  assert (Ho : 0 <= slen l - 1 < slen l) by lia.
  assert (Ec : fchr b (pre b r + slen l - 1) = chr_at l (slen l - 1)).
  { replace (pre b r + slen l - 1) with (idx b r (slen l - 1)) by (unfold idx; lia). apply fchr_idx; assumption. }
  assert (Hb : b0 (chr_at l (slen l - 1)) = 10%N).
  { rewrite E at 1. replace (slen l - 1) with (Z.of_nat (length body)) by lia. apply wf_chr_last. }
  assert (Hsp : uc_isspace (fchr b (pre b r + slen l - 1)) = true).
  { rewrite Ec. unfold uc_isspace. unfold b0 in Hb. rewrite Hb. reflexivity. }
  split; [exact Hsp|]. apply (row_nl b r l _ HW El); [lia|exact Hsp|reflexivity].
Qed.

Lemma pre_pos_row b r : 0 <= r -> 0 < pre b r -> 1 <= r.
Proof. intros H0 H. destruct (Z.eq_dec r 0) as [->|]; [rewrite pre_zero in H; lia|lia]. Qed.

Lemma prev_row b r : 1 <= r -> r < blen b -> exists l1, getl b (r - 1) = Some l1 /\ pre b r = pre b (r - 1) + slen l1.
Proof.
  intros H1 H2. destruct (getl_in_range b (r - 1) ltac:(lia)) as (l1 & E1). exists l1. split; [exact E1|].
  pose proof (pre_succ b (r - 1) l1 E1) as HS. replace (r - 1 + 1) with r in HS by lia. exact HS.
Qed.

(* w W: the blank-line stop is exactly the terminator of a row of blanks that begins after the cursor *)
Lemma w_blank_stop_reading b i r o l : buf_wf b -> nl_canon b -> 0 <= i -> getl b r = Some l -> 0 <= o < slen l ->
  (w_blank_stop (fchr b) i (idx b r o) <-> o = slen l - 1 /\ blank_row b r /\ i < idx b r 0).
Proof.
  intros HW HCn Hi El Ho. pose proof (getl_some _ _ _ El) as [Hr _].
  pose proof (pre_le b r l El) as HL. pose proof (pre_nonneg b r) as HP. unfold idx. rewrite Z.add_0_r. split.
  - intros (Hsp & Hnl & p' & Hp' & Hnl' & Hbl).
    assert (Eo : o = slen l - 1) by (apply (row_nl b r l _ HW El) in Hnl; [lia|lia|exact Hsp]).
    assert (Hsp' : uc_isspace (fchr b p') = true) by (apply HCn; [lia|exact Hnl']).
    assert (Hlt : p' < pre b r).
    { destruct (Z_lt_dec p' (pre b r)); [assumption|]. exfalso.
      apply (row_nl b r l p' HW El) in Hnl'; [lia|lia|exact Hsp']. }
    split; [exact Eo|]. split; [|lia]. exists l. split; [exact El|]. intros k Hk.
    rewrite <- (fchr_idx b r k l El Hk). unfold idx. destruct (Z.eq_dec k o) as [->|]; [exact Hsp|apply Hbl; lia].
  - intros (Eo & (l' & El' & Hbl) & Hlt). rewrite El in El'. inversion El'; subst l'.
    assert (H1 : 1 <= r) by (apply (pre_pos_row b); lia).
    destruct (prev_row b r H1 ltac:(lia)) as (l1 & E1 & EP). destruct (row_term b (r - 1) l1 HW E1) as [T1 T2].
    destruct (row_term b r l HW El) as [S1 S2]. subst o. replace (pre b r + (slen l - 1)) with (pre b r + slen l - 1) by lia.
    split; [exact S1|]. split; [exact S2|]. exists (pre b (r - 1) + slen l1 - 1).
    pose proof (getl_ne b _ _ (buf_wf_ne b HW) E1). split; [lia|]. split; [exact T2|].
    intros k Hk. replace k with (idx b r (k - pre b r)) by (unfold idx; lia).
    rewrite (fchr_idx b r (k - pre b r) l El) by lia. apply Hbl. lia.
Qed.

(* e E: the same, and only blanks lie between the cursor and that row *)
Lemma e_blank_stop_reading b i r o l : buf_wf b -> nl_canon b -> 0 <= i -> getl b r = Some l -> 0 <= o < slen l ->
  (e_blank_stop (fchr b) i (idx b r o) <->
   o = slen l - 1 /\ blank_row b r /\ i < idx b r 0 /\ forall k, i < k < idx b r 0 -> uc_isspace (fchr b k) = true).
Proof.
  intros HW HCn Hi El Ho. pose proof (getl_some _ _ _ El) as [Hr _].
  pose proof (pre_le b r l El) as HL. pose proof (pre_nonneg b r) as HP. unfold idx. rewrite Z.add_0_r. split.
  - intros (Hnl & Hbl & p' & Hp' & Hnl' & Hsp').
    assert (Hsp : uc_isspace (fchr b (pre b r + o)) = true) by (apply HCn; [lia|exact Hnl]).
    assert (Eo : o = slen l - 1) by (apply (row_nl b r l _ HW El) in Hnl; [lia|lia|exact Hsp]).
    assert (Hlt : p' < pre b r).
    { destruct (Z_lt_dec p' (pre b r)); [assumption|]. exfalso.
      apply (row_nl b r l p' HW El) in Hnl'; [lia|lia|exact Hsp']. }
    split; [exact Eo|]. split; [|split; [lia|intros k Hk; apply Hbl; lia]]. exists l. split; [exact El|]. intros k Hk.
    rewrite <- (fchr_idx b r k l El Hk). unfold idx. destruct (Z.eq_dec k o) as [->|]; [exact Hsp|apply Hbl; lia].
  - intros (Eo & (l' & El' & Hbl) & Hlt & Hbetween). rewrite El in El'. inversion El'; subst l'.
    assert (H1 : 1 <= r) by (apply (pre_pos_row b); lia).
    destruct (prev_row b r H1 ltac:(lia)) as (l1 & E1 & EP). destruct (row_term b (r - 1) l1 HW E1) as [T1 T2].
    destruct (row_term b r l HW El) as [S1 S2]. subst o. replace (pre b r + (slen l - 1)) with (pre b r + slen l - 1) by lia.
    split; [exact S2|]. pose proof (getl_ne b _ _ (buf_wf_ne b HW) E1). split.
    + intros k Hk. destruct (Z_lt_dec k (pre b r)); [apply Hbetween; lia|].
      replace k with (idx b r (k - pre b r)) by (unfold idx; lia).
      rewrite (fchr_idx b r (k - pre b r) l El) by lia. apply Hbl. lia.
    + exists (pre b (r - 1) + slen l1 - 1). split; [lia|]. split; [exact T2|exact T1].
Qed.

(* b B: the blank-line stop is exactly the first character of a row of blanks that ends before the
   cursor, with only blanks between that row and the cursor *)
Lemma b_blank_stop_reading b i r o l : buf_wf b -> nl_canon b -> i <= nchars b -> getl b r = Some l -> 0 <= o < slen l ->
  (b_blank_stop (fchr b) i (idx b r o) <->
   o = 0 /\ 1 <= r /\ blank_row b r /\ idx b r (slen l - 1) < i /\
   forall k, idx b r 0 <= k < i -> uc_isspace (fchr b k) = true).
Proof.
  intros HW HCn Hi El Ho. pose proof (getl_some _ _ _ El) as [Hr _].
  pose proof (pre_le b r l El) as HL. pose proof (pre_nonneg b r) as HP. unfold idx. rewrite Z.add_0_r. split.
  - intros (Hj1 & Hnl & Hbl & p'' & Hp'' & Hnl'').
    assert (Eo : o = 0).
    { destruct (Z.eq_dec o 0); [assumption|]. exfalso.
      assert (Hsp : uc_isspace (fchr b (pre b r + o - 1)) = true) by (apply HCn; [lia|exact Hnl]).
      apply (row_nl b r l _ HW El) in Hnl; [lia|lia|exact Hsp]. }
    subst o. rewrite Z.add_0_r in *.
    assert (H1 : 1 <= r) by (apply (pre_pos_row b); lia).
    assert (Hterm : pre b r + (slen l - 1) < i).
    { destruct (Z_lt_dec (pre b r + (slen l - 1)) i); [assumption|]. exfalso.
      assert (Hsp : uc_isspace (fchr b p'') = true) by (apply Hbl; lia).
      apply (row_nl b r l p'' HW El) in Hnl''; [lia|lia|exact Hsp]. }
    split; [reflexivity|]. split; [exact H1|]. split; [|split; [exact Hterm|exact Hbl]].
    exists l. split; [exact El|]. intros k Hk. rewrite <- (fchr_idx b r k l El Hk). unfold idx. apply Hbl. lia.
  - intros (Eo & H1 & (l' & El' & Hrow) & Hterm & Hbl). subst o. rewrite Z.add_0_r.
    destruct (prev_row b r H1 ltac:(lia)) as (l1 & E1 & EP). destruct (row_term b (r - 1) l1 HW E1) as [T1 T2].
    destruct (row_term b r l HW El) as [S1 S2]. pose proof (getl_ne b _ _ (buf_wf_ne b HW) E1). pose proof (pre_nonneg b (r - 1)).
    split; [lia|]. split; [replace (pre b r - 1) with (pre b (r - 1) + slen l1 - 1) by lia; exact T2|].
    split; [exact Hbl|]. exists (pre b r + slen l - 1). split; [lia|exact S2].
Qed.

(* count 1 is one scan *)
Lemma chain_one step i j : chain step 1 i j <-> exists s, step i j s.
Proof.
  split.
  - intro C. inversion C; subst; [eexists; eassumption|]. match goal with H : chain _ 0 _ _ |- _ => inversion H; subst end. eexists; eassumption.
  - intros ([] & S); [apply chain_end, S|eapply chain_more; [exact S|constructor]].
Qed.

(* display order = offset order on the column model of a left-to-right line *)
Lemma columns_increasing l i j : 0 <= i < j -> j < slen l -> ren_pos l i < ren_pos l j.
Proof.
  intros Hij Hj. destruct (positions_incr l) as [Hi _]. unfold ren_pos.
  destruct (Z.leb_spec 0 i); [|lia]. destruct (Z.ltb_spec i (slen l)); [|lia].
  destruct (Z.leb_spec 0 j); [|lia]. destruct (Z.ltb_spec j (slen l)); [|lia]. cbn [andb].
  apply Hi. rewrite positions_len. unfold slen in *. lia.
Qed.

(* N% : a line motion to row (len-1)*N/100, failing above 100 *)
Lemma percent_line b rows top cl cc pc cnt row off :
  vi_motion b rows top cl cc pc true cnt Kpct row off =
  if 100 <? cnt then MvFail cl cc
  else MvOk (Z.max 0 (Z.max 0 (blen b - 1) * cnt / 100)) (-1) cl cc pc.
Proof.
  unfold vi_motion. cbn [vi_motionln]. destruct (100 <? cnt); [reflexivity|]. cbv zeta.
  destruct (Z.ltb_spec (Z.max 0 (blen b - 1) * cnt / 100) 0); f_equal; lia.
Qed.
