(* MotWordProps.v -- C07: declarative characterisations of the scanners of mot.c mirrored in
   MotDefs.v (w W b B e E, % , { }) and fuel sufficiency.

   Technique: the buffer is flattened into ONE sequence of characters (flat b = concat b); a valid
   position (row, off) has the index idx b row off in it; lbuf_next moves the index by exactly one
   (next_sim).  Every fuelled loop of MotDefs is shown equal (under idx) to the same loop over the
   flat sequence (the f_* functions below, R3-simulations), and the characterisations are proved
   about the flat loops by arithmetic on indices. *)
From Coq Require Import List NArith ZArith Lia Bool ZifyN ZifyBool ZifyNat.
From NV Require Import Bytes UcDefs MotDefs MotProps.
Import ListNotations.
Local Open Scope Z_scope.

(* ---------- the flat view ---------- *)
Definition buf_ne (b : buf) : Prop := Forall (fun l : line => l <> []) b.
Definition flat (b : buf) : list chr := concat b.
Definition nchars (b : buf) : Z := Z.of_nat (length (flat b)).
Definition fchr (b : buf) (i : Z) : chr := chr_at (flat b) i.      (* [] outside 0..nchars-1 *)
(* (r, o) is a position of the buffer: row r exists and o is an offset of one of its characters *)
Definition vpos (b : buf) (r o : Z) : Prop := exists l, getl b r = Some l /\ 0 <= o < slen l.
Definition pre (b : buf) (r : Z) : Z := Z.of_nat (length (concat (firstn (Z.to_nat r) b))).
(* its index in the flat sequence: characters of the rows before r, plus o *)
Definition idx (b : buf) (r o : Z) : Z := pre b r + o.

Lemma buf_wf_ne b : buf_wf b -> buf_ne b.
Proof. unfold buf_wf, buf_ne. apply Forall_impl. intros l (body & -> & _). destruct body; discriminate. Qed.

Lemma getl_split b r l : getl b r = Some l ->
  exists b1 b2, b = b1 ++ l :: b2 /\ length b1 = Z.to_nat r /\ 0 <= r /\ firstn (Z.to_nat r) b = b1.
Proof.
  unfold getl. destruct (Z.ltb_spec r 0); [discriminate|]. intro E.
  apply nth_error_split in E. destruct E as (b1 & b2 & -> & Hl). exists b1, b2. repeat split; auto.
  rewrite <- Hl. rewrite firstn_app, Nat.sub_diag, firstn_all. cbn. apply app_nil_r.
Qed.

Lemma pre_succ b r l : getl b r = Some l -> pre b (r + 1) = pre b r + slen l.
Proof.
  intro E. destruct (getl_split b r l E) as (b1 & b2 & -> & Hl & Hr & Hf). unfold pre. rewrite Hf.
  replace (Z.to_nat (r + 1)) with (S (length b1)) by lia.
  rewrite firstn_app. rewrite firstn_all2 by lia.
  replace (S (length b1) - length b1)%nat with 1%nat by lia. cbn [firstn].
  rewrite concat_app. cbn [concat]. rewrite app_nil_r, app_length. unfold slen. lia.
Qed.

Lemma pre_le b r l : getl b r = Some l -> pre b r + slen l <= nchars b.
Proof.
  intro E. destruct (getl_split b r l E) as (b1 & b2 & -> & Hl & Hr & Hf). unfold pre, nchars, flat. rewrite Hf.
  rewrite concat_app. cbn [concat]. rewrite !app_length. unfold slen. lia.
Qed.

Lemma pre_last b r l : getl b r = Some l -> getl b (r + 1) = None -> pre b r + slen l = nchars b.
Proof.
  intros E E1. destruct (getl_split b r l E) as (b1 & b2 & -> & Hl & Hr & Hf). unfold pre, nchars, flat. rewrite Hf.
  assert (b2 = []).
  { unfold getl in E1. destruct (Z.ltb_spec (r + 1) 0); [lia|].
    apply nth_error_None in E1. rewrite app_length in E1. cbn [length] in E1. destruct b2; [reflexivity|cbn [length] in E1; lia]. }
  subst b2. rewrite concat_app. cbn [concat]. rewrite !app_length. unfold slen. cbn [length]. lia.
Qed.

Lemma pre_nonneg b r : 0 <= pre b r.
Proof. unfold pre. lia. Qed.

Lemma pre_zero b : pre b 0 = 0.
Proof. unfold pre. cbn. reflexivity. Qed.

Lemma fchr_idx b r o l : getl b r = Some l -> 0 <= o < slen l -> fchr b (idx b r o) = chr_at l o.
Proof.
  intros E Ho. destruct (getl_split b r l E) as (b1 & b2 & -> & Hl & Hr & Hf). unfold idx, pre, fchr, flat. rewrite Hf.
  rewrite concat_app. cbn [concat]. unfold chr_at, slen in *.
  destruct (Z.ltb_spec (Z.of_nat (length (concat b1)) + o) 0); [lia|]. destruct (Z.ltb_spec o 0); [lia|].
  rewrite app_nth2 by lia. rewrite app_nth1 by lia. f_equal. lia.
Qed.

Lemma lchr_idx b r o : vpos b r o -> lchr b r o = fchr b (idx b r o).
Proof. intros (l & E & Ho). unfold lchr. rewrite E. symmetry. apply fchr_idx; assumption. Qed.

Lemma idx_range b r o : vpos b r o -> 0 <= idx b r o < nchars b.
Proof. intros (l & E & Ho). pose proof (pre_le b r l E). pose proof (pre_nonneg b r). unfold idx. lia. Qed.

(* ---------- lbuf_next moves the index by one ---------- *)
Definition fnext (L dir i : Z) : bool * Z :=
  if (0 <=? i + dir) && (i + dir <? L) then (false, i + dir) else (true, i).

Lemma fnext_ok L d i : 0 <= i + d < L -> fnext L d i = (false, i + d).
Proof. intro H. unfold fnext. destruct (Z.leb_spec 0 (i + d)); [|lia]. destruct (Z.ltb_spec (i + d) L); [|lia]. reflexivity. Qed.
Lemma fnext_fail L d i : ~ (0 <= i + d < L) -> fnext L d i = (true, i).
Proof. intro H. unfold fnext. destruct (Z.leb_spec 0 (i + d)); [|reflexivity]. destruct (Z.ltb_spec (i + d) L); [lia|reflexivity]. Qed.

Lemma getl_ne b r l : buf_ne b -> getl b r = Some l -> 1 <= slen l.
Proof.
  intros NE E. apply getl_some in E. destruct E as [_ Hin]. unfold buf_ne in NE. rewrite Forall_forall in NE.
  specialize (NE l Hin). unfold slen. destruct l; [congruence|cbn [length]; lia].
Qed.

Lemma next_fwd b r o : buf_ne b -> vpos b r o ->
  exists r' o', lbuf_next b 1 r o = (fst (fnext (nchars b) 1 (idx b r o)), r', o') /\ vpos b r' o' /\
                idx b r' o' = snd (fnext (nchars b) 1 (idx b r o)).
Proof.
  intros NE (l & El & Ho). unfold lbuf_next. change (1 <? 0) with false. cbn [andb].
  unfold lbuf_lnnext. rewrite El. destruct (Z.ltb_spec (o + 1) 0); [lia|]. cbn [orb].
  destruct (Z.geb_spec (o + 1) (slen l)).
  - destruct (getl b (r + 1)) as [l1|] eqn:E1.
    + change (0 <? 1) with true. cbv iota.
      pose proof (getl_ne b _ _ NE E1) as Hl1.
      assert (V : vpos b (r + 1) 0) by (exists l1; split; [exact E1|lia]).
      pose proof (idx_range b _ _ V) as HR.
      assert (Ei : idx b (r + 1) 0 = idx b r o + 1) by (unfold idx; rewrite (pre_succ b r l El); lia).
      rewrite fnext_ok by lia. exists (r + 1), 0. cbn [fst snd]. auto.
    + pose proof (pre_last b r l El E1). rewrite fnext_fail by (unfold idx; lia).
      exists r, o. cbn [fst snd]. repeat split; auto. exists l; auto.
  - pose proof (pre_le b r l El). pose proof (pre_nonneg b r).
    rewrite fnext_ok by (unfold idx; lia). exists r, (o + 1). cbn [fst snd]. repeat split; auto.
    + exists l; split; [exact El|lia].
    + unfold idx; lia.
Qed.

Lemma next_bwd b r o : buf_ne b -> vpos b r o ->
  exists r' o', lbuf_next b (-1) r o = (fst (fnext (nchars b) (-1) (idx b r o)), r', o') /\ vpos b r' o' /\
                idx b r' o' = snd (fnext (nchars b) (-1) (idx b r o)).
Proof.
  intros NE (l & El & Ho). unfold lbuf_next. change (-1 <? 0) with true. cbn [andb].
  pose proof (getl_some _ _ _ El) as [Hr _].
  destruct (Z.geb_spec r (blen b)); [lia|].
  unfold lbuf_lnnext. rewrite El. pose proof (pre_le b r l El). pose proof (pre_nonneg b r).
  destruct (Z.ltb_spec (o + -1) 0).
  - cbn [orb]. assert (o = 0) by lia. subst o.
    destruct (getl b (r + -1)) as [l1|] eqn:E1.
    + change (0 <? -1) with false. cbv iota.
      pose proof (getl_ne b _ _ NE E1) as Hl1.
      unfold lbuf_eol. rewrite E1. destruct (Z.eqb_spec (slen l1) 0); [lia|].
      assert (V : vpos b (r + -1) (slen l1 - 1)) by (exists l1; split; [exact E1|lia]).
      pose proof (pre_succ b (r + -1) l1 E1) as HS. replace (r + -1 + 1) with r in HS by lia.
      pose proof (pre_nonneg b (r + -1)).
      rewrite fnext_ok by (unfold idx; lia). exists (r + -1), (slen l1 - 1). cbn [fst snd].
      repeat split; auto. unfold idx. lia.
    + apply getl_none in E1. assert (r = 0) by lia. subst r.
      rewrite fnext_fail by (unfold idx; rewrite pre_zero; lia).
      exists 0, 0. cbn [fst snd]. repeat split; auto. exists l; auto.
  - destruct (Z.geb_spec (o + -1) (slen l)); [lia|]. cbn [orb].
    rewrite fnext_ok by (unfold idx; lia). exists r, (o + -1). cbn [fst snd]. repeat split; auto.
    + exists l; split; [exact El|lia].
    + unfold idx; lia.
Qed.

Lemma next_sim b dir r o : buf_ne b -> dir = 1 \/ dir = -1 -> vpos b r o ->
  exists r' o', lbuf_next b dir r o = (fst (fnext (nchars b) dir (idx b r o)), r', o') /\ vpos b r' o' /\
                idx b r' o' = snd (fnext (nchars b) dir (idx b r o)).
Proof. intros NE [-> | ->] V; [apply next_fwd|apply next_bwd]; assumption. Qed.

(* ---------- the loops of mot.c over the flat sequence ---------- *)
Section Flat.
  Variable F : Z -> chr.      (* the character at an index *)
  Variable L : Z.             (* number of characters *)

  Definition fkm (kind : N) (i : Z) : bool := negb (N.eqb (N.land (uc_kind (F i)) kind) 0).

  Fixpoint f_wordlast_loop (fuel : nat) (kind : N) (dir i : Z) : option (bool * Z) :=
    match fuel with
    | O => None
    | S f =>
        if fkm kind i then
          match fnext L dir i with
          | (true, i') => Some (true, i')
          | (false, i') => f_wordlast_loop f kind dir i'
          end
        else Some (false, snd (fnext L (- dir) i))
    end.
  Definition f_wordlast (fuel : nat) (kind : N) (dir i : Z) : option (bool * Z) :=
    if N.eqb kind 0 || negb (fkm kind i) then Some (false, i) else f_wordlast_loop fuel kind dir i.

  Fixpoint f_wordbeg_loop (fuel : nat) (dir nl i : Z) : option (bool * Z) :=
    match fuel with
    | O => None
    | S f =>
        if uc_isspace (F i) then
          let nl := nl + (if is_nl (F i) then 1 else 0) in
          if nl =? 2 then Some (false, i)
          else match fnext L dir i with
               | (true, i') => Some (true, i')
               | (false, i') => f_wordbeg_loop f dir nl i'
               end
        else Some (false, i)
    end.
  Definition f_wordbeg (fuel : nat) (big : bool) (dir i : Z) : option (bool * Z) :=
    match f_wordlast fuel (if big then 3%N else uc_kind (F i)) dir i with
    | None => None
    | Some (_, q) =>
        let nl := if is_nl (F q) then 1 else 0 in
        match fnext L dir q with
        | (true, i') => Some (true, i')
        | (false, i') => f_wordbeg_loop fuel dir nl i'
        end
    end.

  Fixpoint f_wordend_loop (fuel : nat) (dir nl i : Z) : option (bool * (bool * Z)) :=
    match fuel with
    | O => None
    | S f =>
        if uc_isspace (F i) then
          match fnext L dir i with
          | (true, i') => Some (true, (true, i'))
          | (false, i') =>
              let nl := nl + (if is_nl (F i') then 1 else 0) in
              if nl =? 2 then
                (if dir <? 0 then Some (true, (false, snd (fnext L (- dir) i'))) else Some (true, (false, i')))
              else f_wordend_loop f dir nl i'
          end
        else Some (false, (false, i))
    end.
  Definition f_wordend (fuel : nat) (big : bool) (dir i : Z) : option (bool * Z) :=
    let start : option (Z * Z) :=
      if negb (uc_isspace (F i)) then
        match fnext L dir i with
        | (true, _) => None
        | (false, i') => Some ((if (dir <? 0) && is_nl (F i') then 1 else 0), i')
        end
      else Some (0, i) in
    match start with
    | None => Some (true, snd (fnext L dir i))
    | Some (nl, p) =>
        let nl := nl + (if (0 <? dir) && is_nl (F p) then 1 else 0) in
        match f_wordend_loop fuel dir nl p with
        | None => None
        | Some (true, res) => Some res
        | Some (false, (_, p')) => f_wordlast fuel (if big then 3%N else uc_kind (F p')) dir p'
        end
    end.

  Fixpoint f_pair_loop (fuel : nat) (dir : Z) (opn cls : N) (dep : Z) (i : Z) : option (option Z) :=
    match fuel with
    | O => None
    | S f => match fnext L dir i with
             | (true, _) => Some None
             | (false, i') =>
                 let c := b0 (F i') in
                 let dep := if N.eqb c cls then dep - 1 else dep in
                 let dep := if N.eqb c opn then dep + 1 else dep in
                 if dep =? 0 then Some (Some i') else f_pair_loop f dir opn cls dep i'
             end
    end.
End Flat.

(* ---------- simulations ---------- *)
Definition R3 (b : buf) (x : option st3) (y : option (bool * Z)) : Prop :=
  match x, y with
  | Some (s, r, o), Some (s', i) => s = s' /\ vpos b r o /\ idx b r o = i
  | None, None => True
  | _, _ => False
  end.

Lemma kmatch_idx b kind r o : vpos b r o -> kmatch b kind r o = fkm (fchr b) kind (idx b r o).
Proof. intro V. unfold kmatch, fkm, kindof. rewrite (lchr_idx b r o V). reflexivity. Qed.

Ltac next_step NE Hd V r1 o1 :=
  let E1 := fresh "E1" in let V1 := fresh "V1" in let I1 := fresh "I1" in
  destruct (next_sim _ _ _ _ NE Hd V) as (r1 & o1 & E1 & V1 & I1); rewrite E1; clear E1.

Lemma wordlast_loop_sim b kind dir : buf_ne b -> dir = 1 \/ dir = -1 -> forall fuel r o, vpos b r o ->
  R3 b (wordlast_loop fuel b kind dir r o) (f_wordlast_loop (fchr b) (nchars b) fuel kind dir (idx b r o)).
Proof.
  intros NE Hd. induction fuel as [|f IH]; intros r o V; cbn [wordlast_loop f_wordlast_loop]; [exact I|].
  rewrite (kmatch_idx b kind r o V). destruct (fkm (fchr b) kind (idx b r o)).
  - next_step NE Hd V r1 o1.
    destruct (fnext (nchars b) dir (idx b r o)) as [[] i1]; cbn [fst snd] in *.
    + cbn. auto.
    + rewrite <- I1. apply IH, V1.
  - assert (Hd' : - dir = 1 \/ - dir = -1) by lia.
    next_step NE Hd' V r1 o1. cbn. auto.
Qed.

Lemma wordlast_sim b kind dir fuel r o : buf_ne b -> dir = 1 \/ dir = -1 -> vpos b r o ->
  R3 b (lbuf_wordlast fuel b kind dir r o) (f_wordlast (fchr b) (nchars b) fuel kind dir (idx b r o)).
Proof.
  intros NE Hd V. unfold lbuf_wordlast, f_wordlast. rewrite (kmatch_idx b kind r o V).
  destruct (_ || _); [cbn; auto|]. apply wordlast_loop_sim; assumption.
Qed.

Lemma wordbeg_loop_sim b dir : buf_ne b -> dir = 1 \/ dir = -1 -> forall fuel nl r o, vpos b r o ->
  R3 b (wordbeg_loop fuel b dir nl r o) (f_wordbeg_loop (fchr b) (nchars b) fuel dir nl (idx b r o)).
Proof.
  intros NE Hd. induction fuel as [|f IH]; intros nl r o V; cbn [wordbeg_loop f_wordbeg_loop]; [exact I|].
  rewrite (lchr_idx b r o V). destruct (uc_isspace _); [|cbn; auto].
  cbv zeta. destruct (_ =? 2); [cbn; auto|].
  next_step NE Hd V r1 o1.
  destruct (fnext (nchars b) dir (idx b r o)) as [[] i1]; cbn [fst snd] in *.
  - cbn. auto.
  - rewrite <- I1. apply IH, V1.
Qed.

Lemma wordbeg_sim b big dir fuel r o : buf_ne b -> dir = 1 \/ dir = -1 -> vpos b r o ->
  R3 b (lbuf_wordbeg fuel b big dir r o) (f_wordbeg (fchr b) (nchars b) fuel big dir (idx b r o)).
Proof.
  intros NE Hd V. unfold lbuf_wordbeg, f_wordbeg. unfold kindof. rewrite (lchr_idx b r o V).
  pose proof (wordlast_sim b (if big then 3%N else uc_kind (fchr b (idx b r o))) dir fuel r o NE Hd V) as HS.
  destruct (lbuf_wordlast _ _ _ _ _ _) as [[[s r1] o1]|]; destruct (f_wordlast _ _ _ _ _ _) as [[s' i1]|]; cbn in HS; try contradiction; [|exact I].
  destruct HS as (_ & V1 & I1). rewrite (lchr_idx b r1 o1 V1). cbv zeta.
  next_step NE Hd V1 r2 o2. rewrite I1 in *.
  destruct (fnext (nchars b) dir i1) as [[] i2]; cbn [fst snd] in *.
  - cbn. auto.
  - rewrite <- I0. apply wordbeg_loop_sim; assumption.
Qed.

Definition R4 (b : buf) (x : option (bool * st3)) (y : option (bool * (bool * Z))) : Prop :=
  match x, y with
  | Some (inner, (s, r, o)), Some (inner', (s', i)) => inner = inner' /\ s = s' /\ vpos b r o /\ idx b r o = i
  | None, None => True
  | _, _ => False
  end.

Lemma wordend_loop_sim b dir : buf_ne b -> dir = 1 \/ dir = -1 -> forall fuel nl r o, vpos b r o ->
  R4 b (wordend_loop fuel b dir nl r o) (f_wordend_loop (fchr b) (nchars b) fuel dir nl (idx b r o)).
Proof.
  intros NE Hd. induction fuel as [|f IH]; intros nl r o V; cbn [wordend_loop f_wordend_loop]; [exact I|].
  rewrite (lchr_idx b r o V). destruct (uc_isspace _); [|cbn; auto].
  next_step NE Hd V r1 o1.
  destruct (fnext (nchars b) dir (idx b r o)) as [[] i1]; cbn [fst snd] in *.
  - cbn. auto.
  - rewrite (lchr_idx b r1 o1 V1). rewrite I1. cbv zeta. destruct (_ =? 2).
    + destruct (dir <? 0).
      * assert (Hd' : - dir = 1 \/ - dir = -1) by lia.
        next_step NE Hd' V1 r2 o2. rewrite I1 in *. cbn. auto.
      * cbn. auto.
    + rewrite <- I1. apply IH, V1.
Qed.

Lemma wordend_sim b big dir fuel r o : buf_ne b -> dir = 1 \/ dir = -1 -> vpos b r o ->
  R3 b (lbuf_wordend fuel b big dir r o) (f_wordend (fchr b) (nchars b) fuel big dir (idx b r o)).
Proof.
  intros NE Hd V. unfold lbuf_wordend, f_wordend. rewrite (lchr_idx b r o V).
  assert (HS : forall nl r0 o0, vpos b r0 o0 ->
    R3 b (match wordend_loop fuel b dir nl r0 o0 with
          | None => None
          | Some (true, res) => Some res
          | Some (false, (_, r, o)) =>
              match lbuf_wordlast fuel b (if big then 3%N else kindof b r o) dir r o with
              | None => None
              | Some (true, r', o') => Some (true, r', o')
              | Some (false, r', o') => Some (false, r', o')
              end
          end)
         (match f_wordend_loop (fchr b) (nchars b) fuel dir nl (idx b r0 o0) with
          | None => None
          | Some (true, res) => Some res
          | Some (false, (_, p')) => f_wordlast (fchr b) (nchars b) fuel (if big then 3%N else uc_kind (fchr b p')) dir p'
          end)).
  { intros nl r0 o0 V0. pose proof (wordend_loop_sim b dir NE Hd fuel nl r0 o0 V0) as HL.
    destruct (wordend_loop fuel b dir nl r0 o0) as [[inner [[s1 r1] o1]]|];
      destruct (f_wordend_loop _ _ fuel dir nl _) as [[inner' [s1' i1]]|]; cbn in HL; try contradiction; [|exact I].
    destruct HL as (<- & <- & V1 & I1). destruct inner.
    - cbn. auto.
    - unfold kindof. rewrite (lchr_idx b r1 o1 V1). rewrite <- I1.
      pose proof (wordlast_sim b (if big then 3%N else uc_kind (fchr b (idx b r1 o1))) dir fuel r1 o1 NE Hd V1) as HW.
      destruct (lbuf_wordlast _ _ _ _ _ _) as [[[[] r2] o2]|]; destruct (f_wordlast _ _ _ _ _ _) as [[s' i2]|]; cbn in HW; try contradiction;
        [| |exact I]; destruct HW as (<- & V2 & I2); cbn; auto. }
  destruct (negb (uc_isspace (fchr b (idx b r o)))).
  - next_step NE Hd V r1 o1.
    destruct (fnext (nchars b) dir (idx b r o)) as [[] i1] eqn:EF; cbn [fst snd] in *.
    + cbn. auto.
    + rewrite (lchr_idx b r1 o1 V1). rewrite I1. cbv zeta. rewrite <- I1. apply HS, V1.
  - cbv zeta. rewrite (lchr_idx b r o V). apply HS, V.
Qed.
