(* TrCmp18Rec.v -- copy of TrRegexRec.v (C10) with globals_at weakened to the blocks the regex engine reads; made for the C18 composition because C18's memories have dir_rslr/dir_rsrl/dir_rsctx/xtd set *)
(* TrRegexRec.v -- the backtracking matcher re_rec of /repo/regex.c (the CLite term cf_re_rec that tools/c2clite.py printed
   from clang's AST) IS the machine ReVM.rec of the model, for every program in memory, every state, every depth:
   * struct regex = 3 cells (p, n, flg); the program re->p = one block of 6 cells per instruction
     (struct rinst: ra.ra, ra.s, ri, a1, a2, mark), atom strings in blocks of their own:  prog_at;
   * struct rstate = 133 cells (s, o, mark[128], pc, flg, dep):  rs_cells;
   * RI_FORK's `struct rstate base = *rs` is a malloc'd block of 133 cells + memcpy, `*rs = base` the memcpy back; the
     saved blocks are never freed by the term: the final memory is the initial one with the state block replaced and
     the saved blocks appended (`upd m br R' ++ extra`).
   The term was generated WITHOUT -DNEATVI_VERIF: it has no re_verif_depthcut counter; the model's cut count (the N
   component of ReVM.rec) is not observed by the theorems below. *)
From Coq Require Import List ZArith NArith Bool Lia.
From NV Require Import Bytes GenConsts ReSyntax ReParse ReVM CLite CLiteProps GenCFuncs CLiteTac TrRegex TrRegexAtom TrCmp18Brk.
From NV Require ReEmit ReProps5 ReProps8 ReProps11.
Import ListNotations.
Local Open Scope Z_scope.

(* ------------------------------------------------------------------ generic list / memory facts *)
Lemma upd_mid {A} (a b : list A) x y n : length a = n -> upd (a ++ x :: b) n y = a ++ y :: b.
Proof.
  intros <-. unfold upd. rewrite firstn_app, Nat.sub_diag, firstn_all. cbn [firstn]. rewrite app_nil_r. f_equal. f_equal.
  rewrite skipn_app, skipn_all2 by lia. replace (S (length a) - length a)%nat with 1%nat by lia. reflexivity.
Qed.
Lemma nth_error_mid {A} (a b : list A) x n : length a = n -> nth_error (a ++ x :: b) n = Some x.
Proof. intros <-. rewrite nth_error_app2 by lia. rewrite Nat.sub_diag. reflexivity. Qed.
Lemma upd_app_l {A} (l t : list A) i y : (i < length l)%nat -> upd (l ++ t) i y = upd l i y ++ t.
Proof.
  intro H. unfold upd. rewrite firstn_app, skipn_app. replace (i - length l)%nat with 0%nat by lia.
  replace (S i - length l)%nat with 0%nat by lia. cbn [firstn skipn]. rewrite app_nil_r, <- app_assoc. reflexivity.
Qed.
Lemma upd_app_mem {A} (m e : list A) b y : (b < length m)%nat -> upd (m ++ e) b y = upd m b y ++ e.
Proof. apply upd_app_l. Qed.
Lemma revm_upd_eq (l : list Z) i v : (i < length l)%nat -> ReVM.upd l i v = upd l i v.
Proof.
  revert i; induction l as [|x l IH]; intros i H; cbn [length] in H; [lia|].
  destruct i as [|i]; [reflexivity|]. cbn [ReVM.upd]. rewrite IH by lia. reflexivity.
Qed.
Lemma revm_upd_length (l : list Z) i v : length (ReVM.upd l i v) = length l.
Proof. revert i; induction l as [|x l IH]; intros [|i]; cbn; try reflexivity. rewrite IH. reflexivity. Qed.
Lemma put_cells_all {A} (l vs : list A) : length vs = length l -> put_cells l 0 vs = vs.
Proof. intro H. rewrite put_cells_0. rewrite skipn_all2 by lia. apply app_nil_r. Qed.
Lemma firstn_skipn0_all {A} (l : list A) n : length l = n -> firstn n (skipn 0 l) = l.
Proof. intros <-. cbn [skipn]. apply firstn_all. Qed.

(* ------------------------------------------------------------------ struct rstate in memory *)
Definition rs_cells (bl : nat) (p : nat) (marks : list Z) (pc flg dep : Z) : block :=
  VPtr bl (Z.of_nat p) :: VPtr bl 0 :: map VInt marks ++ [VInt pc; VInt flg; VInt dep].

Section RsCells.
  Variables (bl p : nat) (marks : list Z) (pc flg dep : Z).
  Hypothesis Hlen : length marks = 128%nat.
  Let pre := VPtr bl (Z.of_nat p) :: VPtr bl 0 :: map VInt marks.
  Let pre_len : length pre = 130%nat. Proof. unfold pre. cbn [length]. rewrite map_length, Hlen. reflexivity. Qed.
  Let Rs : rs_cells bl p marks pc flg dep = pre ++ [VInt pc; VInt flg; VInt dep]. Proof. reflexivity. Qed.

  Lemma rs_length : length (rs_cells bl p marks pc flg dep) = 133%nat.
  Proof. rewrite Rs, app_length, pre_len. reflexivity. Qed.
  Lemma rs_nth_s : nth_error (rs_cells bl p marks pc flg dep) 0 = Some (VPtr bl (Z.of_nat p)).  Proof. reflexivity. Qed.
  Lemma rs_nth_o : nth_error (rs_cells bl p marks pc flg dep) 1 = Some (VPtr bl 0).  Proof. reflexivity. Qed.
  Lemma rs_nth_pc : nth_error (rs_cells bl p marks pc flg dep) 130 = Some (VInt pc).
  Proof. rewrite Rs. apply nth_error_mid. exact pre_len. Qed.
  Lemma rs_nth_flg : nth_error (rs_cells bl p marks pc flg dep) 131 = Some (VInt flg).
  Proof. rewrite Rs. change (pre ++ [VInt pc; VInt flg; VInt dep]) with (pre ++ [VInt pc] ++ VInt flg :: [VInt dep]).
    rewrite app_assoc. apply nth_error_mid. rewrite app_length, pre_len. reflexivity. Qed.
  Lemma rs_nth_dep : nth_error (rs_cells bl p marks pc flg dep) 132 = Some (VInt dep).
  Proof. rewrite Rs. change (pre ++ [VInt pc; VInt flg; VInt dep]) with (pre ++ [VInt pc; VInt flg] ++ VInt dep :: []).
    rewrite app_assoc. apply nth_error_mid. rewrite app_length, pre_len. reflexivity. Qed.
  Lemma rs_nth_mark j : (j < length marks)%nat -> nth_error (rs_cells bl p marks pc flg dep) (2 + j) = Some (VInt (nth j marks 0)).
  Proof. intro Hj. unfold rs_cells. cbn [Nat.add nth_error]. rewrite nth_error_app1 by (rewrite map_length; exact Hj).
    rewrite nth_error_map, (nth_error_nth' marks 0 Hj). reflexivity. Qed.
  Lemma rs_upd_s q : upd (rs_cells bl p marks pc flg dep) 0 (VPtr bl (Z.of_nat q)) = rs_cells bl q marks pc flg dep.
  Proof. reflexivity. Qed.
  Lemma rs_upd_pc v : upd (rs_cells bl p marks pc flg dep) 130 (VInt v) = rs_cells bl p marks v flg dep.
  Proof. rewrite Rs. exact (upd_mid pre [VInt flg; VInt dep] (VInt pc) (VInt v) 130 pre_len). Qed.
  Lemma rs_upd_dep v : upd (rs_cells bl p marks pc flg dep) 132 (VInt v) = rs_cells bl p marks pc flg v.
  Proof. rewrite Rs. change (pre ++ [VInt pc; VInt flg; VInt dep]) with (pre ++ [VInt pc; VInt flg] ++ VInt dep :: []).
    rewrite app_assoc. rewrite (upd_mid _ [] (VInt dep) (VInt v)) by (rewrite app_length, pre_len; reflexivity).
    rewrite <- app_assoc. reflexivity. Qed.
  Lemma rs_upd_mark i v : (i < 128)%nat ->
    upd (rs_cells bl p marks pc flg dep) (2 + i) (VInt v) = rs_cells bl p (ReVM.upd marks i v) pc flg dep.
  Proof.
    intro Hi. rewrite revm_upd_eq by lia. unfold rs_cells. rewrite map_upd.
    change (upd (VPtr bl (Z.of_nat p) :: VPtr bl 0 :: map VInt marks ++ [VInt pc; VInt flg; VInt dep]) (2 + i) (VInt v))
      with (VPtr bl (Z.of_nat p) :: VPtr bl 0 :: upd (map VInt marks ++ [VInt pc; VInt flg; VInt dep]) i (VInt v)).
    rewrite upd_app_l by (rewrite map_length; lia). reflexivity.
  Qed.
End RsCells.

(* ------------------------------------------------------------------ struct regex and the program array in memory *)
Definition ri_code (i : instr) : Z :=
  match i with IAtom _ => 0 | IFork _ _ => 102 | IJump _ => 106 | IMark _ => 109 | IMatch => 113 end.
Definition int_nat (n : nat) : Prop := Z.of_nat n <= 2147483647.

(* instruction k of the program: cells 6k .. 6k+5 of the block (struct rinst: ra.ra, ra.s, ri, a1, a2, mark); an atom's
   string is a NUL-free C string in a block bs of its own, different from the state block br; fuel covers its loops *)
Definition instr_at (m : mem) (br fuel : nat) (cells : list val) (k : nat) (i : instr) : Prop :=
  nth_error cells (6 * k + 2) = Some (VInt (ri_code i)) /\
  match i with
  | IAtom a =>
      nth_error cells (6 * k) = Some (VInt (ra_code a)) /\
      match ra_str a with
      | Some s => exists bs, nth_error cells (6 * k + 1) = Some (VPtr bs 0) /\ str_at m bs s /\ nonul s /\ bs <> br /\
                             (length s + 13 <= fuel)%nat /\ Z.of_nat (length s) < 2147483647 /\
                             (forall sb, a = ABrk sb -> sb <> [])
      | None => True
      end
  | IMark mk => nth_error cells (6 * k + 5) = Some (VInt (Z.of_nat mk)) /\ int_nat mk
  | IJump t => nth_error cells (6 * k + 3) = Some (VInt (Z.of_nat t))
  | IFork a1 a2 => nth_error cells (6 * k + 3) = Some (VInt (Z.of_nat a1)) /\ nth_error cells (6 * k + 4) = Some (VInt (Z.of_nat a2))
  | IMatch => True
  end.
(* block bre = the struct regex, block bp = the array re->p *)
Definition prog_at (m : mem) (br fuel bre bp : nat) (P : list instr) (cflg : Z) : Prop :=
  exists cells, nth_error m bre = Some [VPtr bp 0; VInt (Z.of_nat (length P)); VInt cflg] /\ nth_error m bp = Some cells /\
                forall k i, nth_error P k = Some i -> instr_at m br fuel cells k i.

(* every target of the program lies inside it (what regcomp guarantees: ReProps5.prog_wf implies it) *)
Definition prog_closed (P : list instr) : Prop :=
  forall pc, (pc < length P)%nat ->
    match nth pc P IMatch with
    | IJump t => (t < length P)%nat
    | IFork a1 a2 => (a1 < length P)%nat /\ (a2 < length P)%nat
    | IMatch => True
    | _ => (S pc < length P)%nat
    end.

Definition re_rec_loop : stmt := match fn_body cf_re_rec with SSeq _ (SSeq _ (SSeq _ (SSeq w _))) => w | _ => SSkip end.
Definition re_rec_tail : stmt := match fn_body cf_re_rec with SSeq _ (SSeq _ (SSeq _ (SSeq _ t))) => t | _ => SSkip end.
Definition re_rec_body : stmt := match re_rec_loop with SWhile _ b => b | _ => SSkip end.

(* the state block holds R; loads and stores of its cells *)
Section Cells.
  Variables (br bl : nat) (flg : Z).
  Variables (m : mem) (p : nat) (marks : list Z) (pc dep : Z).
  Hypothesis Hm : nth_error m br = Some (rs_cells bl p marks pc flg dep).
  Hypothesis Hlen : length marks = 128%nat.
  Lemma ld_s : load m br 0 = Ok (VPtr bl (Z.of_nat p)).
  Proof. exact (load_cell m br _ 0 _ Hm (rs_nth_s bl p marks pc flg dep) ltac:(clear; lia)). Qed.
  Lemma ld_o : load m br (0 + 1 * 1) = Ok (VPtr bl 0).
  Proof. exact (load_cell m br _ (0 + 1 * 1) _ Hm (rs_nth_o bl p marks pc flg dep) ltac:(clear; lia)). Qed.
  Lemma ld_pc : load m br (0 + 1 * 130) = Ok (VInt pc).
  Proof. exact (load_cell m br _ (0 + 1 * 130) _ Hm (rs_nth_pc bl p marks pc flg dep Hlen) ltac:(clear; lia)). Qed.
  Lemma ld_dep : load m br (0 + 1 * 132) = Ok (VInt dep).
  Proof. exact (load_cell m br _ (0 + 1 * 132) _ Hm (rs_nth_dep bl p marks pc flg dep Hlen) ltac:(clear; lia)). Qed.
  Lemma st_pc v : store m br (0 + 1 * 130) (VInt v) = Ok (upd m br (rs_cells bl p marks v flg dep)).
  Proof. rewrite (store_ok m br _ _ _ Hm) by (rewrite rs_length by exact Hlen; lia).
    change (Z.to_nat (0 + 1 * 130)) with 130%nat. rewrite rs_upd_pc by exact Hlen. reflexivity. Qed.
  Lemma st_dep v : store m br (0 + 1 * 132) (VInt v) = Ok (upd m br (rs_cells bl p marks pc flg v)).
  Proof. rewrite (store_ok m br _ _ _ Hm) by (rewrite rs_length by exact Hlen; lia).
    change (Z.to_nat (0 + 1 * 132)) with 132%nat. rewrite rs_upd_dep by exact Hlen. reflexivity. Qed.
  Lemma st_mark (i : nat) v : (i < 128)%nat ->
    store m br (0 + 1 * 2 + 1 * Z.of_nat i) (VInt v) = Ok (upd m br (rs_cells bl p (ReVM.upd marks i v) pc flg dep)).
  Proof. intro Hi. rewrite (store_ok m br _ _ _ Hm) by (rewrite rs_length by exact Hlen; lia).
    replace (Z.to_nat (0 + 1 * 2 + 1 * Z.of_nat i)) with (2 + i)%nat by lia. rewrite rs_upd_mark by assumption. reflexivity. Qed.
  Lemma ld_mark (j : nat) : (j < 128)%nat -> load m br (0 + 1 * 2 + 1 * Z.of_nat j) = Ok (VInt (nth j marks 0)).
  Proof. intro Hj. apply (load_cell m br _ _ _ Hm); [|clear; lia].
    replace (Z.to_nat (0 + 1 * 2 + 1 * Z.of_nat j)) with (2 + j)%nat by (clear; lia). apply rs_nth_mark. clear - Hj Hlen. lia. Qed.
  Lemma rs_state : rstate_at m br bl (rs_cells bl p marks pc flg dep) p flg.
  Proof. split; [exact Hm|]. split; [reflexivity|]. split; [reflexivity|]. apply rs_nth_flg. exact Hlen. Qed.
End Cells.
Arguments ld_s {br bl flg}. Arguments ld_o {br bl flg}. Arguments ld_pc {br bl flg}. Arguments ld_dep {br bl flg}.
Arguments st_pc {br bl flg}. Arguments st_dep {br bl flg}. Arguments st_mark {br bl flg}. Arguments ld_mark {br bl flg}. Arguments rs_state {br bl flg}.

(* ------------------------------------------------------------------ results of re_rec; saving and restoring the state *)
Section Post.
  Variables (br bl : nat) (flg : Z).
  Definition out_ok (o : out st) : Prop := match o with Found _ _ | Fail => True | _ => False end.
  Definition ret_of (o : out st) : Z := match o with Found _ _ => 0 | _ => 1 end.
  (* the memory after a call of re_rec: the state block replaced, the saved states of the forks appended; on success the
     block holds the model's final state *)
  Definition post (m : mem) (o : out st) (m' : mem) : Prop :=
    exists extra p' marks' pc' dep', m' = upd m br (rs_cells bl p' marks' pc' flg dep') ++ extra /\ length marks' = 128%nat /\
      match o with Found _ s => s = (p', marks') | _ => True end.
  Lemma post_shift m A E o m' : (br < length m)%nat -> post (upd (m ++ E) br A) o m' -> post m o m'.
  Proof.
    intros Hb [extra [p' [marks' [pc' [dep' [Hm' [Hl Ho]]]]]]].
    exists (E ++ extra), p', marks', pc', dep'. split; [|split; assumption].
    rewrite Hm'. rewrite upd_upd by (rewrite app_length; lia). rewrite upd_app_mem by exact Hb. rewrite app_assoc. reflexivity.
  Qed.
  Lemma post_shift0 m A o m' : (br < length m)%nat -> post (upd m br A) o m' -> post m o m'.
  Proof. intros Hb Hp. apply (post_shift m A [] o m' Hb). rewrite app_nil_r. exact Hp. Qed.
  Lemma post_self m R o : nth_error m br = Some R ->
    (exists p' marks' pc' dep', R = rs_cells bl p' marks' pc' flg dep' /\ length marks' = 128%nat /\
       match o with Found _ s => s = (p', marks') | _ => True end) -> post m o m.
  Proof.
    intros Hm [p' [marks' [pc' [dep' [-> [Hl Ho]]]]]]. exists [], p', marks', pc', dep'. split; [|split; assumption].
    rewrite app_nil_r. symmetry. apply upd_self. exact Hm.
  Qed.

  Lemma memcpy_save (m : mem) (R : block) : nth_error m br = Some R -> length R = 133%nat ->
    do_builtin_m BMemcpy [VPtr (length m) 0; VPtr br 0; VInt 133] (m ++ [repeat VUndef (Z.to_nat 133)]) = Ok (VPtr (length m) 0, m ++ [R]).
  Proof.
    intros Hm HR. assert (Hb : (br < length m)%nat) by (apply nth_error_Some; congruence).
    rewrite (memcpy_ok _ (length m) 0 br 0 133 (repeat VUndef (Z.to_nat 133)) R); try lia.
    - change (Z.to_nat 0) with 0%nat. change (Z.to_nat 133) with 133%nat. rewrite firstn_skipn0_all by exact HR.
      rewrite put_cells_all by (rewrite repeat_length; exact HR). rewrite upd_app_new. reflexivity.
    - apply nth_error_app_new.
    - rewrite nth_error_app_old by exact Hb. exact Hm.
    - rewrite repeat_length. lia.
  Qed.
  Lemma memcpy_restore (m : mem) (R R' : block) (E : list block) : (br < length m)%nat -> length R = 133%nat -> length R' = 133%nat ->
    do_builtin_m BMemcpy [VPtr br 0; VPtr (length m) 0; VInt 133] (upd m br R' ++ R :: E) = Ok (VPtr br 0, upd m br R ++ R :: E).
  Proof.
    intros Hb HR HR'.
    assert (Hd : nth_error (upd m br R' ++ R :: E) br = Some R').
    { rewrite nth_error_app1 by (rewrite upd_length; exact Hb). apply mem_upd_same. exact Hb. }
    assert (Hs : nth_error (upd m br R' ++ R :: E) (length m) = Some R).
    { rewrite nth_error_app2 by (rewrite upd_length; [lia|exact Hb]). rewrite upd_length by exact Hb. rewrite Nat.sub_diag. reflexivity. }
    rewrite (memcpy_ok _ br 0 (length m) 0 133 R' R Hd Hs); try lia.
    change (Z.to_nat 0) with 0%nat. change (Z.to_nat 133) with 133%nat. rewrite firstn_skipn0_all by exact HR.
    rewrite put_cells_all by lia. rewrite upd_app_mem by (rewrite upd_length; exact Hb). rewrite upd_upd by exact Hb. reflexivity.
  Qed.

End Post.
Arguments post_shift {br bl flg}. Arguments post_shift0 {br bl flg}. Arguments post_self {br bl flg}.
Arguments memcpy_save {br}. Arguments memcpy_restore {br}.

Section ReRec.
  Variables (bre bp br bl : nat) (P : list instr) (cflg flg : Z) (line : bytes) (fuel : nat).
  Hypothesis Hbre : br <> bre.
  Hypothesis Hbp : br <> bp.
  Hypothesis Hbl : br <> bl.
  Hypothesis Hglob : (length cglobals <= br)%nat.
  Hypothesis H256 : bytes_lt256 line.
  Hypothesis Hflg : -2147483648 <= flg <= 2147483647.
  Hypothesis Hfl : (length line < fuel)%nat.
  Hypothesis Hfc : (cls_fuel <= fuel)%nat.
  Hypothesis HlineI : Z.of_nat (length line) < 2147483647.
  Hypothesis HPI : Z.of_nat (length P) < 2147483647.
  Hypothesis Hclosed : prog_closed P.

  (* everything in memory except the contents of the state block *)
  Definition frame (m : mem) : Prop :=
    prog_at m br fuel bre bp P cflg /\ str_at m bl line /\ globals_at m /\ (br < length m)%nat.

  Lemma frame_ext m m' : frame m -> (forall b blk, b <> br -> nth_error m b = Some blk -> nth_error m' b = Some blk) ->
    (br < length m')%nat -> frame m'.
  Proof.
    intros [[cells [Hre [Hp Hi]]] [Hl [[HgL Hg] Hb]]] Hx Hb'. split; [|split; [|split]].
    - exists cells. split; [apply Hx; auto|]. split; [apply Hx; auto|].
      intros k i Hk. specialize (Hi k i Hk). destruct Hi as [H1 H2]. split; [exact H1|].
      destruct i as [a| | | |]; try exact H2. destruct H2 as [H2 H3]. split; [exact H2|].
      destruct (ra_str a) as [s|]; [|exact I]. destruct H3 as [bs [E1 [E2 [E3 [E4 E5]]]]].
      exists bs. split; [exact E1|]. split; [apply Hx; auto|]. auto.
    - apply Hx; auto.
    - split; [lia|]. intros g blk Hin Hn. apply Hx; [|apply Hg; assumption].
      assert (g < length cglobals)%nat by (apply nth_error_Some; congruence). lia.
    - exact Hb'.
  Qed.
  Lemma frame_upd m R : frame m -> frame (upd m br R).
  Proof.
    intro F. assert (Hb : (br < length m)%nat) by apply F. apply (frame_ext m); [exact F| |rewrite upd_length; exact Hb].
    intros b blk Hne Hn. rewrite mem_upd_other; auto.
  Qed.
  Lemma frame_app m e : frame m -> frame (m ++ e).
  Proof.
    intro F. assert (Hb : (br < length m)%nat) by apply F. apply (frame_ext m); [exact F| |rewrite app_length; lia].
    intros b blk Hne Hn. rewrite nth_error_app1; [exact Hn|]. apply nth_error_Some. congruence.
  Qed.


  (* the current instruction *)
  Lemma fetch_at m pc : frame m -> (pc < length P)%nat ->
    exists cells, nth_error m bp = Some cells /\ load m bre 0 = Ok (VPtr bp 0) /\ instr_at m br fuel cells pc (nth pc P IMatch).
  Proof.
    intros [[cells [Hre [Hp Hi]]] _] Hpc. exists cells. split; [exact Hp|]. split.
    - exact (load_cell m bre _ 0 _ Hre eq_refl ltac:(lia)).
    - apply Hi. apply nth_error_nth'. exact Hpc.
  Qed.
  Lemma ld_ri m cells (pc : nat) (j : Z) v : nth_error m bp = Some cells -> nth_error cells (6 * pc + Z.to_nat j) = Some v -> 0 <= j ->
    load m bp (0 + 6 * Z.of_nat pc + 1 * j) = Ok v.
  Proof. intros Hp Hv Hj. apply (load_cell m bp cells); [exact Hp| |lia].
    replace (Z.to_nat (0 + 6 * Z.of_nat pc + 1 * j)) with (6 * pc + Z.to_nat j)%nat by lia. exact Hv. Qed.
  Lemma ld_ri0 m cells (pc : nat) v : nth_error m bp = Some cells -> nth_error cells (6 * pc) = Some v ->
    load m bp (0 + 6 * Z.of_nat pc) = Ok v.
  Proof. intros Hp Hv. apply (load_cell m bp cells); [exact Hp| |lia].
    replace (Z.to_nat (0 + 6 * Z.of_nat pc)) with (6 * pc)%nat by lia. exact Hv. Qed.

  (* the call depth below re_rec: six levels for ratom_match -> brk_match -> brk_match -> uc_dec -> uc_len *)
  Variable e : nat.
  Notation D := (S (S (S (S (S (S e)))))).
  Notation call := (callf cprog fuel D).

  Ltac ri_test Hp Hri := rewrite (ld_ri _ _ _ 2 _ Hp Hri ltac:(lia)); xstep; wrap_const; zeqb_const; xstep.
  Ltac body_pre F Hpc Hm Hlen Hi :=
    let cells := fresh "cells" in let Hp := fresh "Hp" in let Lp := fresh "Lp" in let Hat := fresh "Hat" in
    destruct (fetch_at _ _ F Hpc) as [cells [Hp [Lp Hat]]]; rewrite Hi in Hat;
    unfold re_rec_body, re_rec_loop; cbn [fn_body cf_re_rec]; xstep; rewrite Lp; xstep;
    rewrite (ld_pc _ _ _ _ _ Hm Hlen); xstep; rewrite (wrap_I32_id (Z.of_nat _)) by lia; xstep.

  Lemma body_jump m p marks dep pc t v2 v3 lf : frame m -> (pc < length P)%nat ->
    nth_error m br = Some (rs_cells bl p marks (Z.of_nat pc) flg dep) -> length marks = 128%nat ->
    nth pc P IMatch = IJump t ->
    exec call lf re_rec_body (mkst [VPtr bre 0; VPtr br 0; v2; v3] m)
    = OContinue (mkst [VPtr bre 0; VPtr br 0; VPtr bp (0 + 6 * Z.of_nat pc); v3] (upd m br (rs_cells bl p marks (Z.of_nat t) flg dep))).
  Proof.
    intros F Hpc Hm Hlen Hi. pose proof (Hclosed pc Hpc) as Hc. rewrite Hi in Hc.
    body_pre F Hpc Hm Hlen Hi. destruct Hat as [Hri Ha1]. cbn [ri_code] in Hri.
    do 3 ri_test Hp Hri. rewrite (ld_ri _ _ _ 3 _ Hp Ha1 ltac:(lia)). xstep. rewrite !(wrap_I32_id (Z.of_nat t)) by lia. xstep.
    rewrite (st_pc m p marks _ dep Hm Hlen). xstep. reflexivity.
  Qed.

  Lemma body_match m p marks dep pc v2 v3 lf : frame m -> (pc < length P)%nat ->
    nth_error m br = Some (rs_cells bl p marks (Z.of_nat pc) flg dep) -> length marks = 128%nat ->
    nth pc P IMatch = IMatch ->
    exec call lf re_rec_body (mkst [VPtr bre 0; VPtr br 0; v2; v3] m)
    = OBreak (mkst [VPtr bre 0; VPtr br 0; VPtr bp (0 + 6 * Z.of_nat pc); v3] m).
  Proof.
    intros F Hpc Hm Hlen Hi.
    body_pre F Hpc Hm Hlen Hi. destruct Hat as [Hri _]. cbn [ri_code] in Hri.
    do 4 ri_test Hp Hri. reflexivity.
  Qed.

  Lemma body_mark m p marks dep pc mk v2 v3 lf : frame m -> (pc < length P)%nat ->
    nth_error m br = Some (rs_cells bl p marks (Z.of_nat pc) flg dep) -> length marks = 128%nat -> (p <= length line)%nat ->
    nth pc P IMatch = IMark mk ->
    exec call lf re_rec_body (mkst [VPtr bre 0; VPtr br 0; v2; v3] m)
    = OContinue (mkst [VPtr bre 0; VPtr br 0; VPtr bp (0 + 6 * Z.of_nat pc); v3]
                      (upd m br (rs_cells bl p (snd (mark_step mk (p, marks))) (Z.of_nat pc + 1) flg dep))).
  Proof.
    intros F Hpc Hm Hlen Hpl Hi.
    body_pre F Hpc Hm Hlen Hi. destruct Hat as [Hri [Hmk Hmi]]. cbn [ri_code] in Hri. unfold int_nat in Hmi.
    do 2 ri_test Hp Hri. rewrite (ld_ri _ _ _ 5 _ Hp Hmk ltac:(lia)). xstep. rewrite (wrap_I32_id (Z.of_nat mk)) by lia.
    unfold mark_step, NGRPS. cbn [fst snd].
    destruct (Z.ltb_spec (Z.of_nat mk) 64); xstep.
    - rewrite (ld_ri _ _ _ 5 _ Hp Hmk ltac:(lia)). xstep. rewrite (wrap_I32_id (Z.of_nat mk)) by lia.
      rewrite (ld_s m p marks _ dep Hm). xstep. rewrite (ld_o m p marks _ dep Hm). xstep. rewrite Nat.eqb_refl. xstep.
      rewrite Z.sub_0_r, Z.quot_1_r. rewrite !(wrap_I32_id (Z.of_nat p)) by lia.
      rewrite (st_mark m p marks _ dep Hm Hlen mk) by lia. xstep.
      set (marks' := ReVM.upd marks mk (Z.of_nat p)).
      assert (Hlen' : length marks' = 128%nat) by (unfold marks'; rewrite revm_upd_length; exact Hlen).
      assert (Hm' : nth_error (upd m br (rs_cells bl p marks' (Z.of_nat pc) flg dep)) br = Some (rs_cells bl p marks' (Z.of_nat pc) flg dep))
        by (apply mem_upd_same; apply F).
      rewrite (ld_pc _ p marks' _ dep Hm' Hlen'). xstep. rewrite (wrap_I32_id (Z.of_nat pc)) by lia.
      rewrite (chk_I32 (Z.of_nat pc + 1)) by lia. xstep. cbn [fst snd].
      rewrite (st_pc _ p marks' _ dep Hm' Hlen'). xstep. rewrite upd_upd by apply F. reflexivity.
    - rewrite (ld_pc _ p marks _ dep Hm Hlen). xstep. rewrite (wrap_I32_id (Z.of_nat pc)) by lia.
      rewrite (chk_I32 (Z.of_nat pc + 1)) by lia. xstep. cbn [fst snd].
      rewrite (st_pc _ p marks _ dep Hm Hlen). xstep. reflexivity.
  Qed.

  (* RI_ATOM: the memory when the atom refuses (a bracket expression has already moved rs->s: brk_advanced) *)
  Definition atom_fail_mem (m : mem) (a : atom) (p : nat) (marks : list Z) (pc dep : Z) : mem :=
    match a with
    | ABrk _ => if brk_advanced flg line p then upd m br (rs_cells bl (p + re_uclen_at line p) marks pc flg dep) else m
    | _ => m
    end.
  Lemma fuel4 : (4 <= fuel)%nat.
  Proof. unfold cls_fuel in Hfc. lia. Qed.

  Lemma body_atom m p marks dep pc a v2 v3 lf : frame m -> (pc < length P)%nat ->
    nth_error m br = Some (rs_cells bl p marks (Z.of_nat pc) flg dep) -> length marks = 128%nat -> (p <= length line)%nat ->
    nth pc P IMatch = IAtom a ->
    exec call lf re_rec_body (mkst [VPtr bre 0; VPtr br 0; v2; v3] m)
    = match ratom_match flg line a p with
      | ReSyntax.Ok (Some p') =>
          OContinue (mkst [VPtr bre 0; VPtr br 0; VPtr bp (0 + 6 * Z.of_nat pc); v3]
                          (upd m br (rs_cells bl p' marks (Z.of_nat pc + 1) flg dep)))
      | ReSyntax.Ok None =>
          OReturn (VInt 1) (mkst [VPtr bre 0; VPtr br 0; VPtr bp (0 + 6 * Z.of_nat pc); v3] (atom_fail_mem m a p marks (Z.of_nat pc) dep))
      | _ => OErr EShape
      end.
  Proof.
    intros F Hpc Hm Hlen Hpl Hi. pose proof (Hclosed pc Hpc) as Hc. rewrite Hi in Hc.
    body_pre F Hpc Hm Hlen Hi. destruct Hat as [Hri [Hra Hstr]]. cbn [ri_code] in Hri.
    ri_test Hp Hri.
    pose proof (rs_state m p marks (Z.of_nat pc) dep Hm Hlen) as Hrs.
    destruct F as [Fp [Fl [Fg Fb]]]. pose proof fuel4 as Hf4.
    assert (Hcall : callf cprog fuel D F_ratom_match [VPtr bp (0 + 6 * Z.of_nat pc); VPtr br 0] m =
      match ratom_match flg line a p with
      | ReSyntax.Ok (Some p') => Ok (VInt 0, upd m br (rs_cells bl p' marks (Z.of_nat pc) flg dep))
      | ReSyntax.Ok None => Ok (VInt 1, atom_fail_mem m a p marks (Z.of_nat pc) dep)
      | _ => Err EShape
      end).
    { destruct (match a with ABrk sb => true | _ => false end) eqn:Eb.
      - destruct a as [| |sb| | | |]; try discriminate. cbn [ra_str ra_code] in *.
        destruct Hstr as [bs [E1 [E2 [E3 [E4 [E5 [E6 E7]]]]]]].
        rewrite (tr_ratom_match_brk_at m bp (0 + 6 * Z.of_nat pc) bs br bl _ line sb p flg e fuel
                   (ld_ri0 _ _ _ _ Hp Hra) (ld_ri _ _ _ 1 _ Hp E1 ltac:(lia)) E2 E3 (E7 sb eq_refl) Hrs Fl H256 Hpl Fg Hglob
                   ltac:(congruence) ltac:(congruence) Hflg Hfl Hfc E5 E6).
        cbn [atom_fail_mem]. destruct (ratom_match flg line (ABrk sb) p) as [[p'|]| |]; try reflexivity.
      - assert (Hnb : forall s, a <> ABrk s) by (intros s ->; discriminate).
        assert (Hoff : exists bs, ratom_at_off m bp (0 + 6 * Z.of_nat pc) bs a /\
                  match ra_str a with Some s => (length s < fuel)%nat /\ Z.of_nat (length s) <= 2147483647 | None => True end).
        { unfold ratom_at_off. destruct (ra_str a) as [s|].
          - destruct Hstr as [bs [E1 [E2 [E3 [E4 [E5 [E6 E7]]]]]]]. exists bs. split; [|lia].
            split; [exact (ld_ri0 _ _ _ _ Hp Hra)|]. split; [exact (ld_ri _ _ _ 1 _ Hp E1 ltac:(lia))|]. auto.
          - exists 0%nat. split; [|exact I]. split; [exact (ld_ri0 _ _ _ _ Hp Hra)|exact I]. }
        destruct Hoff as [bs [Hoff Hsf]].
        rewrite (tr_ratom_match_at m bp (0 + 6 * Z.of_nat pc) bs br bl _ line a p flg (S (S (S e))) fuel Hoff Hrs Fl H256 Hpl Hflg Hfl Hf4 Hsf Hnb).
        unfold ratom_result. destruct (ratom_match flg line a p) as [[p'|]| |]; try reflexivity.
        destruct a; try reflexivity. discriminate. }
    rewrite Hcall. clear Hcall.
    destruct (ratom_match flg line a p) as [[p'|]| |]; xstep; try reflexivity.
    assert (Hm' : nth_error (upd m br (rs_cells bl p' marks (Z.of_nat pc) flg dep)) br = Some (rs_cells bl p' marks (Z.of_nat pc) flg dep))
      by (apply mem_upd_same; exact Fb).
    rewrite (ld_pc _ p' marks _ dep Hm' Hlen). xstep. rewrite (wrap_I32_id (Z.of_nat pc)) by lia.
    rewrite (chk_I32 (Z.of_nat pc + 1)) by lia. xstep. cbn [fst snd].
    rewrite (st_pc _ p' marks _ dep Hm' Hlen). xstep. rewrite upd_upd by exact Fb. reflexivity.
  Qed.

  (* ---------------------------------------------------------------- RI_FORK: save, recurse, restore *)
  Notation post := (post br bl flg).
  Notation mrec := (ReVM.rec st (atom_step flg line) mark_step P).
  (* what a call of re_rec at call depth cd does when the model runs at depth dm (rs->dep = NDEPT - dm) *)
  Definition rec_spec (cd dm : nat) : Prop := forall m pc p marks o c,
    frame m -> (pc < length P)%nat -> nth_error m br = Some (rs_cells bl p marks (Z.of_nat pc) flg (256 - Z.of_nat dm)) ->
    length marks = 128%nat -> (p <= length line)%nat ->
    mrec dm pc (p, marks) = (o, c) -> out_ok o ->
    exists m', callf cprog fuel cd F_re_rec [VPtr bre 0; VPtr br 0] m = Ok (VInt (ret_of o), m') /\ post m o m'.

  Lemma body_fork dm m p marks pc a1 a2 v2 v3 lf o1 c1 : rec_spec D dm -> frame m -> (pc < length P)%nat ->
    nth_error m br = Some (rs_cells bl p marks (Z.of_nat pc) flg (256 - Z.of_nat dm)) -> length marks = 128%nat -> (p <= length line)%nat ->
    nth pc P IMatch = IFork a1 a2 -> mrec dm a1 (p, marks) = (o1, c1) -> out_ok o1 ->
    exists st', exec call lf re_rec_body (mkst [VPtr bre 0; VPtr br 0; v2; v3] m)
                = (match o1 with Found _ _ => OReturn (VInt 0) st' | _ => OContinue st' end) /\
      match o1 with
      | Found _ _ => post m o1 (memm st')
      | _ => exists extra, st' = mkst [VPtr bre 0; VPtr br 0; VPtr bp (0 + 6 * Z.of_nat pc); VPtr (length m) 0]
                                      (upd m br (rs_cells bl p marks (Z.of_nat a2) flg (256 - Z.of_nat dm)) ++ extra)
      end.
  Proof.
    intros Hrec F Hpc Hm Hlen Hpl Hi Hr1 Hok. pose proof (Hclosed pc Hpc) as Hc. rewrite Hi in Hc. destruct Hc as [Hc1 Hc2].
    assert (Hb : (br < length m)%nat) by apply F.
    set (dep := 256 - Z.of_nat dm) in *.
    set (R := rs_cells bl p marks (Z.of_nat pc) flg dep) in *.
    assert (HR : length R = 133%nat) by (apply rs_length; exact Hlen).
    body_pre F Hpc Hm Hlen Hi. destruct Hat as [Hri [Ha1 Ha2]]. cbn [ri_code] in Hri.
    do 4 ri_test Hp Hri.
    rewrite (malloc_ok m 133) by lia. xstep. rewrite (memcpy_save m R Hm HR). xstep.
    (* rs->pc = ri->a1 in the memory m ++ [R] *)
    assert (Fa : frame (m ++ [R])) by (apply frame_app; exact F).
    assert (Hma : nth_error (m ++ [R]) br = Some R) by (rewrite nth_error_app_old by exact Hb; exact Hm).
    assert (Hpa : nth_error (m ++ [R]) bp = Some cells) by (rewrite nth_error_app1 by (apply nth_error_Some; congruence); exact Hp).
    rewrite (ld_ri _ _ _ 3 _ Hpa Ha1 ltac:(lia)). xstep. rewrite !(wrap_I32_id (Z.of_nat a1)) by lia.
    rewrite (st_pc _ p marks _ dep Hma Hlen). xstep.
    set (R1 := rs_cells bl p marks (Z.of_nat a1) flg dep).
    assert (F2 : frame (upd (m ++ [R]) br R1)) by (apply frame_upd; exact Fa).
    assert (Hm2 : nth_error (upd (m ++ [R]) br R1) br = Some R1) by (apply mem_upd_same; rewrite app_length; lia).
    destruct (Hrec _ a1 p marks o1 c1 F2 Hc1 Hm2 Hlen Hpl Hr1 Hok) as [m3 [Hcall Hpost]].
    rewrite Hcall. xstep.
    destruct o1 as [cs s1| | |w]; cbn [ret_of out_ok] in *; try contradiction; xstep.
    - eexists. split; [reflexivity|]. cbn [memm]. exact (post_shift m R1 [R] _ m3 Hb Hpost).
    - destruct Hpost as [extra [p' [marks' [pc' [dep' [Hm3 [Hl' _]]]]]]].
      assert (E3 : m3 = upd m br (rs_cells bl p' marks' pc' flg dep') ++ R :: extra).
      { rewrite Hm3. rewrite upd_upd by (rewrite app_length; lia). rewrite upd_app_mem by exact Hb. rewrite <- app_assoc. reflexivity. }
      rewrite E3. rewrite (memcpy_restore m R _ extra Hb HR) by (apply rs_length; exact Hl'). xstep.
      rewrite (upd_self m br R Hm).
      assert (Hm4 : nth_error (m ++ R :: extra) br = Some R) by (rewrite nth_error_app1 by exact Hb; exact Hm).
      assert (Hp4 : nth_error (m ++ R :: extra) bp = Some cells) by (rewrite nth_error_app1 by (apply nth_error_Some; congruence); exact Hp).
      rewrite (ld_ri _ _ _ 4 _ Hp4 Ha2 ltac:(lia)). xstep. rewrite !(wrap_I32_id (Z.of_nat a2)) by lia.
      rewrite (st_pc _ p marks _ dep Hm4 Hlen). xstep.
      eexists. split; [reflexivity|]. exists (R :: extra). rewrite upd_app_mem by exact Hb. reflexivity.
  Qed.

  (* ---------------------------------------------------------------- the loop, following the model's loopF *)
  Lemma loop_eq : re_rec_loop = SWhile (EConst 1) re_rec_body.
  Proof. reflexivity. Qed.
  Lemma mark_step_fst mk s : fst (mark_step mk s) = fst s.
  Proof. unfold mark_step. destruct (_ <? _); reflexivity. Qed.
  Lemma mark_step_len mk s : length (snd (mark_step mk s)) = length (snd s).
  Proof. unfold mark_step. destruct (_ <? _); [|reflexivity]. cbn [snd]. apply revm_upd_length. Qed.

  (* rs->dep--; return ri->ri != RI_MATCH;  reached only through `break`, i.e. at RI_MATCH *)
  Lemma tail_match m p marks dep pc v3 lf : frame m -> (pc < length P)%nat ->
    nth_error m br = Some (rs_cells bl p marks (Z.of_nat pc) flg dep) -> length marks = 128%nat -> -2147483647 <= dep <= 2147483647 ->
    nth pc P IMatch = IMatch ->
    exec call lf re_rec_tail (mkst [VPtr bre 0; VPtr br 0; VPtr bp (0 + 6 * Z.of_nat pc); v3] m)
    = OReturn (VInt 0) (mkst [VPtr bre 0; VPtr br 0; VPtr bp (0 + 6 * Z.of_nat pc); v3] (upd m br (rs_cells bl p marks (Z.of_nat pc) flg (dep + -1)))).
  Proof.
    intros F Hpc Hm Hlen Hdep Hi. destruct (fetch_at _ _ F Hpc) as [cells [Hp [Lp Hat]]]. rewrite Hi in Hat. destruct Hat as [Hri _].
    cbn [ri_code] in Hri. unfold re_rec_tail; cbn [fn_body cf_re_rec]. xstep.
    rewrite (ld_dep _ _ _ _ _ Hm Hlen). xstep. rewrite (wrap_I32_id dep) by lia. rewrite (chk_I32 (dep + -1)) by lia. xstep. cbn [fst snd].
    rewrite (st_dep _ _ _ _ _ Hm Hlen). xstep.
    assert (Hp' : nth_error (upd m br (rs_cells bl p marks (Z.of_nat pc) flg (dep + -1))) bp = Some cells)
      by (rewrite mem_upd_other; [exact Hp|apply F|congruence]).
    rewrite (ld_ri _ _ _ 2 _ Hp' Hri ltac:(lia)). xstep. wrap_const. zeqb_const. reflexivity.
  Qed.

  Lemma loop_ok dm fuel2 : rec_spec D dm -> (dm <= 256)%nat -> forall k m pc p marks v2 v3 lf o c,
    frame m -> (pc < length P)%nat -> nth_error m br = Some (rs_cells bl p marks (Z.of_nat pc) flg (256 - Z.of_nat dm)) ->
    length marks = 128%nat -> (p <= length line)%nat ->
    loopF st (atom_step flg line) mark_step P (mrec dm) k pc (p, marks) = (o, c) -> out_ok o -> (k <= lf)%nat ->
    exists st', match exec call lf re_rec_loop (mkst [VPtr bre 0; VPtr br 0; v2; v3] m) with
                | ONormal st1 => exec call fuel2 re_rec_tail st1
                | o => o
                end = OReturn (VInt (ret_of o)) st' /\ post m o (memm st').
  Proof.
    intros Hrec Hdm. induction k as [|k IH]; intros m pc p marks v2 v3 lf o c F Hpc Hm Hlen Hpl Hl Hok Hlf.
    { cbn [loopF] in Hl. injection Hl as <- _. contradiction. }
    destruct lf as [|lf]; [lia|]. assert (Hb : (br < length m)%nat) by apply F.
    rewrite loop_eq, exec_while. xstep. cbn [loopF] in Hl. unfold fetch in Hl.
    pose proof (Hclosed pc Hpc) as Hc.
    destruct (nth pc P IMatch) as [a|mk|t|a1 a2|] eqn:Hi.
    - (* RI_ATOM *)
      rewrite (body_atom m p marks _ pc a v2 v3 _ F Hpc Hm Hlen Hpl Hi).
      unfold atom_step in Hl. cbn [fst snd] in Hl.
      destruct (ratom_match flg line a p) as [[p'|]| |] eqn:Ea; cbn [ReSyntax.bind] in Hl.
      + destruct (ReProps8.ratom_match_range flg line a p p' Hpl Ea) as [_ Hp'].
        replace (Z.of_nat pc + 1) with (Z.of_nat (S pc)) by lia. rewrite <- loop_eq.
        destruct (IH (upd m br (rs_cells bl p' marks (Z.of_nat (S pc)) flg (256 - Z.of_nat dm))) (S pc) p' marks
                     (VPtr bp (0 + 6 * Z.of_nat pc)) v3 lf o c (frame_upd _ _ F) Hc (mem_upd_same _ _ _ Hb) Hlen Hp' Hl Hok ltac:(lia))
          as [st' [X Y]].
        exists st'. split; [exact X|]. exact (post_shift0 m _ o _ Hb Y).
      + injection Hl as <- _. eexists. split; [reflexivity|]. cbn [memm].
        unfold atom_fail_mem. destruct a; try (apply (post_self m _ Fail Hm); eexists _, _, _, _; split; [reflexivity|split; [exact Hlen|exact I]]).
        destruct (brk_advanced flg line p).
        * eexists [], _, _, _, _. rewrite app_nil_r. split; [reflexivity|]. split; [exact Hlen|exact I].
        * apply (post_self m _ Fail Hm); eexists _, _, _, _; split; [reflexivity|split; [exact Hlen|exact I]].
      + injection Hl as <- _. contradiction.
      + injection Hl as <- _. contradiction.
    - (* RI_MARK *)
      rewrite (body_mark m p marks _ pc mk v2 v3 _ F Hpc Hm Hlen Hpl Hi).
      replace (Z.of_nat pc + 1) with (Z.of_nat (S pc)) by lia. rewrite <- loop_eq.
      pose proof (mark_step_fst mk (p, marks)) as E1. pose proof (mark_step_len mk (p, marks)) as E2. cbn [fst snd] in E1, E2.
      destruct (mark_step mk (p, marks)) as [p1 marks1] eqn:Ems. cbn [fst snd] in *. subst p1.
      destruct (IH (upd m br (rs_cells bl p marks1 (Z.of_nat (S pc)) flg (256 - Z.of_nat dm))) (S pc) p marks1
                   (VPtr bp (0 + 6 * Z.of_nat pc)) v3 lf o c (frame_upd _ _ F) Hc (mem_upd_same _ _ _ Hb) ltac:(lia) Hpl Hl Hok ltac:(lia))
        as [st' [X Y]].
      exists st'. split; [exact X|]. exact (post_shift0 m _ o _ Hb Y).
    - (* RI_JUMP *)
      rewrite (body_jump m p marks _ pc t v2 v3 _ F Hpc Hm Hlen Hi). rewrite <- loop_eq.
      destruct (IH (upd m br (rs_cells bl p marks (Z.of_nat t) flg (256 - Z.of_nat dm))) t p marks
                   (VPtr bp (0 + 6 * Z.of_nat pc)) v3 lf o c (frame_upd _ _ F) Hc (mem_upd_same _ _ _ Hb) Hlen Hpl Hl Hok ltac:(lia))
        as [st' [X Y]].
      exists st'. split; [exact X|]. exact (post_shift0 m _ o _ Hb Y).
    - (* RI_FORK *)
      destruct Hc as [Hc1 Hc2].
      destruct (mrec dm a1 (p, marks)) as [o1 c1] eqn:Er1.
      assert (Hok1 : out_ok o1).
      { destruct o1; cbn [out_ok]; try exact I; injection Hl as <- _; exact Hok. }
      destruct (body_fork dm m p marks pc a1 a2 v2 v3 (S lf) o1 c1 Hrec F Hpc Hm Hlen Hpl Hi Er1 Hok1) as [st1 [X Y]].
      rewrite X. destruct o1 as [cs r| | |w]; try contradiction.
      + injection Hl as <- _. exists st1. split; [reflexivity|]. exact Y.
      + destruct Y as [extra ->]. rewrite <- loop_eq.
        destruct (loopF st (atom_step flg line) mark_step P (mrec dm) k a2 (p, marks)) as [o2 c2] eqn:El2.
        assert (Hok2 : out_ok o2 /\ ret_of o = ret_of o2 /\ forall mm mm', post mm o2 mm' -> post mm o mm').
        { destruct o2; injection Hl as <- _; cbn [out_ok ret_of] in *; auto. }
        destruct Hok2 as [Hok2 [Hret Hpost]].
        assert (F4 : frame (upd m br (rs_cells bl p marks (Z.of_nat a2) flg (256 - Z.of_nat dm)) ++ extra))
          by (apply frame_app, frame_upd; exact F).
        assert (Hm4 : nth_error (upd m br (rs_cells bl p marks (Z.of_nat a2) flg (256 - Z.of_nat dm)) ++ extra) br
                      = Some (rs_cells bl p marks (Z.of_nat a2) flg (256 - Z.of_nat dm))).
        { rewrite nth_error_app1 by (rewrite upd_length; exact Hb). apply mem_upd_same. exact Hb. }
        destruct (IH _ a2 p marks (VPtr bp (0 + 6 * Z.of_nat pc)) (VPtr (length m) 0) lf o2 c2 F4 Hc2 Hm4 Hlen Hpl El2 Hok2 ltac:(lia))
          as [st' [X2 Y2]].
        exists st'. rewrite Hret. split; [exact X2|]. apply Hpost.
        rewrite <- upd_app_mem in Y2 by exact Hb. exact (post_shift m _ extra o2 _ Hb Y2).
    - (* RI_MATCH *)
      injection Hl as <- _.
      rewrite (body_match m p marks _ pc v2 v3 _ F Hpc Hm Hlen Hi).
      rewrite (tail_match m p marks _ pc v3 fuel2 F Hpc Hm Hlen ltac:(lia) Hi).
      eexists. split; [reflexivity|]. cbn [memm]. eexists [], _, _, _, _. rewrite app_nil_r. split; [reflexivity|]. split; [exact Hlen|reflexivity].
  Qed.

  (* ---------------------------------------------------------------- one activation of re_rec *)
  Hypothesis HfP : (length P < fuel)%nat.
  Lemma re_rec_call dm : rec_spec D dm -> (S dm <= 256)%nat -> rec_spec (S D) (S dm).
  Proof.
    intros Hrec Hdm m pc p marks o c F Hpc Hm Hlen Hpl Hr Hok. assert (Hb : (br < length m)%nat) by apply F.
    cbn [ReVM.rec] in Hr.
    enter F_re_rec cf_re_rec. xstep.
    rewrite (ld_dep _ _ _ _ _ Hm Hlen). xstep. rewrite (wrap_I32_id (256 - Z.of_nat (S dm))) by lia.
    destruct (Z.leb_spec 256 (256 - Z.of_nat (S dm))); [lia|]. xstep.
    rewrite (ld_dep _ _ _ _ _ Hm Hlen). xstep. rewrite (wrap_I32_id (256 - Z.of_nat (S dm))) by lia.
    rewrite (chk_I32 (256 - Z.of_nat (S dm) + 1)) by lia. xstep. cbn [fst snd].
    rewrite (st_dep _ _ _ _ _ Hm Hlen). xstep.
    replace (256 - Z.of_nat (S dm) + 1) with (256 - Z.of_nat dm) by lia.
    pose proof (loop_ok dm fuel Hrec ltac:(lia) (S (length P)) _ pc p marks (VInt 0) VUndef fuel o c
                  (frame_upd _ _ F) Hpc (mem_upd_same _ _ _ Hb) Hlen Hpl Hr Hok ltac:(lia)) as [st' [X Y]].
    unfold re_rec_loop, re_rec_tail in X; cbn [fn_body cf_re_rec] in X.
    match type of X with ?L = _ => match goal with |- context [match ?L' with ONormal _ => _ | _ => _ end] => change L' with L end end.
    rewrite X. eexists. split; [reflexivity|]. exact (post_shift0 m _ o _ Hb Y).
  Qed.

  (* rs->dep >= NDEPT: return 1 at once (the model counts a cut) *)
  Lemma rec_spec_0 cd : rec_spec (S cd) 0.
  Proof.
    intros m pc p marks o c F Hpc Hm Hlen Hpl Hr Hok. cbn [ReVM.rec] in Hr. injection Hr as <- _.
    enter F_re_rec cf_re_rec. xstep. rewrite (ld_dep _ _ _ _ _ Hm Hlen). xstep. change (256 - Z.of_nat 0) with 256. xstep.
    eexists. split; [reflexivity|]. apply (post_self m _ Fail Hm). eexists _, _, _, _. split; [reflexivity|]. split; [exact Hlen|exact I].
  Qed.
End ReRec.

(* ------------------------------------------------------------------ re_rec = ReVM.rec, every depth *)
Theorem tr_re_rec bre bp br bl P cflg flg line fuel :
  br <> bre -> br <> bp -> br <> bl -> (length cglobals <= br)%nat -> bytes_lt256 line -> -2147483648 <= flg <= 2147483647 ->
  (length line < fuel)%nat -> (cls_fuel <= fuel)%nat -> Z.of_nat (length line) < 2147483647 -> Z.of_nat (length P) < 2147483647 ->
  prog_closed P -> (length P < fuel)%nat ->
  forall dm e, (dm <= 256)%nat -> rec_spec bre bp br bl P cflg flg line fuel (S (S (S (S (S (S (S (dm + e))))))) ) dm.
Proof.
  intros H1 H2 H3 H4 H5 H6 H7 H8 H9 H10 H11 H12. induction dm as [|dm IH]; intros e Hdm.
  - apply rec_spec_0.
  - assert (Hprev : rec_spec bre bp br bl P cflg flg line fuel (S (S (S (S (S (S (S (dm + e))))))) ) dm) by (apply IH; lia).
    change (S dm + e)%nat with (S (dm + e)).
    exact (re_rec_call bre bp br bl P cflg flg line fuel H1 H2 H3 H4 H5 H6 H7 H8 H9 H10 H11 (S (dm + e)) H12 dm Hprev Hdm).
Qed.
Print Assumptions tr_re_rec.

(* ------------------------------------------------------------------ the machine is parametric in the state *)
(* two runs of ReVM.rec from related states take the same decisions and end in related states (used twice: the marks
   beyond 2 * nsub that re_recmatch does not reset never influence the run; positions and marks stay inside int) *)
Section RecRel.
  Variables (St : Type) (astep : atom -> St -> ReSyntax.res (option St)) (mstep : nat -> St -> St) (P : list instr).
  Variable R : St -> St -> Prop.
  Hypothesis Hatom : forall a s s', R s s' ->
    match astep a s, astep a s' with
    | ReSyntax.Ok (Some t), ReSyntax.Ok (Some t') => R t t'
    | ReSyntax.Ok None, ReSyntax.Ok None => True
    | OOB w, OOB w' => w = w'
    | NoFuel, NoFuel => True
    | _, _ => False
    end.
  Hypothesis Hmark : forall k s s', R s s' -> R (mstep k s) (mstep k s').
  Definition out_rel (x y : out St * N) : Prop :=
    snd x = snd y /\
    match fst x, fst y with
    | Found cs r, Found cs' r' => cs = cs' /\ R r r'
    | Fail, Fail => True
    | Abort, Abort => True
    | OobO w, OobO w' => w = w'
    | _, _ => False
    end.
  Lemma loop_rel (c1 c2 : nat -> St -> out St * N) : (forall pc s s', R s s' -> out_rel (c1 pc s) (c2 pc s')) ->
    forall k pc s s', R s s' -> out_rel (loopF St astep mstep P c1 k pc s) (loopF St astep mstep P c2 k pc s').
  Proof.
    intro Hc. induction k as [|k IH]; intros pc s s' Hs; cbn [loopF]; [split; reflexivity|].
    destruct (fetch P pc) as [a|mk|t|a1 a2|].
    - pose proof (Hatom a s s' Hs) as Ha. destruct (astep a s) as [[t|]|w|], (astep a s') as [[t'|]|w'|]; try contradiction.
      + apply IH. exact Ha.
      + split; reflexivity.
      + split; [reflexivity|exact Ha].
      + split; reflexivity.
    - apply IH. apply Hmark. exact Hs.
    - apply IH. exact Hs.
    - pose proof (Hc a1 s s' Hs) as H1. destruct (c1 a1 s) as [o1 n1], (c2 a1 s') as [o2 n2]. destruct H1 as [E1 H1]. cbn [fst snd] in E1, H1. subst n2.
      destruct o1 as [cs r| | |w], o2 as [cs' r'| | |w']; try contradiction.
      + destruct H1 as [-> H1]. split; [reflexivity|]. split; [reflexivity|exact H1].
      + pose proof (IH a2 s s' Hs) as H2.
        destruct (loopF St astep mstep P c1 k a2 s) as [o3 n3], (loopF St astep mstep P c2 k a2 s') as [o4 n4].
        destruct H2 as [E2 H2]. cbn [fst snd] in E2, H2. subst n4.
        destruct o3 as [cs r| | |w], o4 as [cs' r'| | |w']; try contradiction; split; cbn [fst snd]; try reflexivity; try exact H2.
        destruct H2 as [-> H2]. split; [reflexivity|exact H2].
      + split; reflexivity.
      + split; [reflexivity|exact H1].
    - split; [reflexivity|]. split; [reflexivity|exact Hs].
  Qed.
  Lemma rec_rel : forall d pc s s', R s s' -> out_rel (ReVM.rec St astep mstep P d pc s) (ReVM.rec St astep mstep P d pc s').
  Proof.
    induction d as [|d IH]; intros pc s s' Hs; cbn [ReVM.rec]; [split; reflexivity|].
    apply loop_rel; [exact IH|exact Hs].
  Qed.
End RecRel.

(* ---- instance 1: the position stays inside the line and the marks inside int *)
Lemma ints_ok_revm_upd l i v : ints_ok l -> -2147483648 <= v <= 2147483647 -> ints_ok (ReVM.upd l i v).
Proof.
  unfold ints_ok. intros H Hv. revert i; induction H as [|x l Hx Hl IH]; intros [|i]; cbn [ReVM.upd]; constructor; auto.
Qed.
Definition st_inv (line : bytes) (s : st) : Prop := (fst s <= length line)%nat /\ ints_ok (snd s).
Lemma rec_inv flg line P d pc s cs r c : Z.of_nat (length line) < 2147483647 -> st_inv line s ->
  ReVM.rec st (atom_step flg line) mark_step P d pc s = (Found cs r, c) -> st_inv line r.
Proof.
  intros Hl Hs Hr.
  pose proof (rec_rel st (atom_step flg line) mark_step P (fun s s' => s = s' /\ st_inv line s)) as X.
  assert (Y : out_rel st (fun s s' => s = s' /\ st_inv line s)
                (ReVM.rec st (atom_step flg line) mark_step P d pc s) (ReVM.rec st (atom_step flg line) mark_step P d pc s)).
  { apply X; [| |split; [reflexivity|exact Hs]].
    - intros a s0 s' [<- [H1 H2]]. unfold atom_step.
      destruct (ratom_match flg line a (fst s0)) as [[q|]| |] eqn:E; cbn [ReSyntax.bind]; auto.
      split; [reflexivity|]. split; [|exact H2]. cbn [fst]. exact (proj2 (ReProps8.ratom_match_range flg line a _ q H1 E)).
    - intros k s0 s' [<- [H1 H2]]. split; [reflexivity|]. unfold mark_step. destruct (_ <? _); [|split; assumption].
      split; [exact H1|]. cbn [snd fst]. apply ints_ok_revm_upd; [exact H2|lia]. }
  rewrite Hr in Y. destruct Y as [_ [_ [_ Y]]]. exact Y.
Qed.

(* ---- instance 2: only the first n marks matter for the first n marks *)
Definition agree (n : nat) (M M' : list Z) : Prop := length M = length M' /\ firstn n M = firstn n M'.
Lemma firstn_revm_upd (l : list Z) : forall n k v, firstn n (ReVM.upd l k v) = ReVM.upd (firstn n l) k v.
Proof.
  induction l as [|x l IH]; intros n k v; [destruct n; reflexivity|].
  destruct n as [|n]; [destruct k; reflexivity|]. destruct k as [|k]; [reflexivity|]. cbn [ReVM.upd firstn]. rewrite IH. reflexivity.
Qed.
Lemma agree_upd n M M' k v : agree n M M' -> agree n (ReVM.upd M k v) (ReVM.upd M' k v).
Proof. intros [H1 H2]. split; [rewrite !revm_upd_length; exact H1|]. rewrite !firstn_revm_upd, H2. reflexivity. Qed.
Lemma agree_refl n M : agree n M M.
Proof. split; reflexivity. Qed.
Lemma agree_nth n M M' i d : agree n M M' -> (i < n)%nat -> nth i M d = nth i M' d.
Proof.
  intros [H1 H2] Hi. rewrite <- (firstn_skipn n M), <- (firstn_skipn n M').
  destruct (Nat.lt_ge_cases i (length M)) as [L|L].
  - rewrite !app_nth1 by (rewrite firstn_length; lia). rewrite H2. reflexivity.
  - rewrite !nth_overflow; [reflexivity| |]; rewrite app_length, firstn_length, skipn_length; lia.
Qed.
Lemma rec_agree flg line P n d pc p M M' : agree n M M' ->
  out_rel st (fun s s' => fst s = fst s' /\ agree n (snd s) (snd s'))
    (ReVM.rec st (atom_step flg line) mark_step P d pc (p, M)) (ReVM.rec st (atom_step flg line) mark_step P d pc (p, M')).
Proof.
  intro Ha. apply rec_rel; [| |split; [reflexivity|exact Ha]].
  - intros a s s' [H1 H2]. unfold atom_step. rewrite <- H1.
    destruct (ratom_match flg line a (fst s)) as [[q|]| |]; cbn [ReSyntax.bind]; auto.
  - intros k s s' [H1 H2]. unfold mark_step. destruct (_ <? _); [|split; assumption].
    split; [exact H1|]. cbn [snd fst]. rewrite H1. apply agree_upd. exact H2.
Qed.
Lemma psub_of_agree M M' nsub : agree (Nat.min 128 (2 * nsub)) M M' -> psub_of M nsub = psub_of M' nsub.
Proof.
  intro Ha. unfold psub_of. apply map_ext_in. intros i Hi. apply in_seq in Hi. change nmarks with 128%nat.
  destruct (Nat.ltb_spec (i * 2) 128); [|reflexivity].
  rewrite (agree_nth _ M M' (i * 2) _ Ha) by lia. rewrite (agree_nth _ M M' (i * 2 + 1) _ Ha) by lia. reflexivity.
Qed.

(* ------------------------------------------------------------------ re_recmatch *)
Definition rm_init_loop : stmt :=
  match fn_body cf_re_recmatch with SSeq _ (SSeq _ (SSeq (SSeq _ f) _)) => f | _ => SSkip end.
Definition rm_psub_loop : stmt :=
  match fn_body cf_re_recmatch with SSeq _ (SSeq _ (SSeq _ (SSeq (SIf _ (SSeq (SSeq _ f) _) _) _))) => f | _ => SSkip end.

(* for (i = 0; i < LEN(rs->mark) && i < nsub * 2; i++) rs->mark[i] = -1;  k more cells from cell i on *)
Fixpoint fill_marks (M : list Z) (i k : nat) : list Z :=
  match k with O => M | S k' => fill_marks (ReVM.upd M i (-1)) (S i) k' end.
Lemma fill_marks_length M : forall k i, length (fill_marks M i k) = length M.
Proof. intros k; revert M; induction k as [|k IH]; intros M i; cbn [fill_marks]; [reflexivity|]. rewrite IH. apply revm_upd_length. Qed.

Section InitLoop.
  Variables (br bl : nat) (flg : Z) (call : nat -> list val -> mem -> res (val * mem)).
  Variables (v0 v3 : val) (nsub : Z) (p : nat) (pc dep : Z).
  Hypothesis Hnsub : 0 <= nsub /\ nsub * 2 <= 2147483647.
  Let n := Nat.min 128 (Z.to_nat (nsub * 2)).

  Lemma init_loop_ok : forall k i m M lf, (n - i = k)%nat -> (i <= n)%nat ->
    nth_error m br = Some (rs_cells bl p M pc flg dep) -> length M = 128%nat -> (k < lf)%nat ->
    exec call lf rm_init_loop (mkst [v0; VPtr br 0; VInt nsub; v3; VInt (Z.of_nat i)] m)
    = ONormal (mkst [v0; VPtr br 0; VInt nsub; v3; VInt (Z.of_nat n)] (upd m br (rs_cells bl p (fill_marks M i k) pc flg dep))).
  Proof.
    induction k as [|k IH]; intros i m M lf Hk Hi Hm Hlen Hlf; (destruct lf as [|lf]; [lia|]);
      unfold rm_init_loop; cbn [fn_body cf_re_recmatch]; rewrite exec_for; xstep;
      change (if 4 =? 0 then Err EDivZero else chk U64 (512 ÷ 4)) with (@Ok Z 128); xstep;
      rewrite (wrap_U64_id (Z.of_nat i)) by lia.
    - assert (i = n) as -> by lia. cbn [fill_marks]. rewrite (upd_self m br _ Hm).
      destruct (Z.ltb_spec (Z.of_nat n) 128); xstep; [|reflexivity].
      rewrite (chk_I32 (nsub * 2)) by lia. xstep.
      destruct (Z.ltb_spec (Z.of_nat n) (nsub * 2)); [lia|]. reflexivity.
    - destruct (Z.ltb_spec (Z.of_nat i) 128); [|lia]. xstep.
      rewrite (chk_I32 (nsub * 2)) by lia. xstep.
      destruct (Z.ltb_spec (Z.of_nat i) (nsub * 2)); [|lia]. xstep.
      change (chk I32 (- (1))) with (@Ok Z (-1)). xstep. change (wrap I32 (-1)) with (-1).
      rewrite (st_mark m p M pc dep Hm Hlen i) by lia. xstep.
      rewrite (chk_I32 (Z.of_nat i + 1)) by lia. xstep.
      replace (Z.of_nat i + 1) with (Z.of_nat (S i)) by lia.
      assert (Hb : (br < length m)%nat) by (apply nth_error_Some; congruence).
      pose proof (IH (S i) (upd m br (rs_cells bl p (ReVM.upd M i (-1)) pc flg dep)) (ReVM.upd M i (-1)) lf ltac:(lia) ltac:(lia)
                    (mem_upd_same _ _ _ Hb) ltac:(rewrite revm_upd_length; exact Hlen) ltac:(lia)) as X.
      unfold rm_init_loop in X; cbn [fn_body cf_re_recmatch] in X. rewrite X. cbn [fill_marks]. rewrite upd_upd by exact Hb. reflexivity.
  Qed.
End InitLoop.

Lemma fill_marks_firstn : forall k M i, (i + k <= length M)%nat ->
  firstn (i + k) (fill_marks M i k) = firstn i M ++ repeat (-1) k.
Proof.
  induction k as [|k IH]; intros M i H; cbn [fill_marks repeat].
  - rewrite Nat.add_0_r, app_nil_r. reflexivity.
  - replace (i + S k)%nat with (S i + k)%nat by lia. rewrite IH by (rewrite revm_upd_length; lia).
    rewrite revm_upd_eq by lia. unfold upd. rewrite firstn_app, firstn_firstn, firstn_length.
    replace (Nat.min (S i) i) with i by lia. replace (S i - Nat.min i (length M))%nat with 1%nat by lia.
    cbn [firstn]. rewrite <- app_assoc. reflexivity.
Qed.
Lemma fill_marks_agree M n : length M = 128%nat -> (n <= 128)%nat -> agree n (repeat (-1) 128) (fill_marks M 0 n).
Proof.
  intros Hl Hn. split; [rewrite fill_marks_length, repeat_length; symmetry; exact Hl|].
  pose proof (fill_marks_firstn n M 0 ltac:(lia)) as X. cbn [Nat.add firstn app] in X. rewrite X.
  replace 128%nat with (n + (128 - n))%nat by lia. rewrite repeat_app, firstn_app, repeat_length, Nat.sub_diag.
  cbn [firstn]. rewrite app_nil_r. apply firstn_all2. rewrite repeat_length. lia.
Qed.
Lemma fill_marks_ints M : forall k i, ints_ok M -> ints_ok (fill_marks M i k).
Proof. intros k; revert M; induction k as [|k IH]; intros M i H; cbn [fill_marks]; [exact H|]. apply IH. apply ints_ok_revm_upd; [exact H|lia]. Qed.

Lemma wrap_I64_small z : -2147483648 <= z <= 2147483647 -> wrap I64 z = z.
Proof.
  intro H. unfold wrap. cbn [ity_bits ity_signed andb].
  change (2 ^ 64) with 18446744073709551616. change (2 ^ (64 - 1)) with 9223372036854775808.
  destruct (Z.leb_spec 9223372036854775808 (z mod 18446744073709551616)) as [L|L].
  - assert (z < 0) by (destruct (Z.lt_ge_cases z 0); [assumption|rewrite Z.mod_small in L by lia; lia]).
    rewrite <- (Z.mod_add z 1 18446744073709551616) by lia. rewrite Z.mod_small by lia. lia.
  - assert (0 <= z) by (destruct (Z.lt_ge_cases z 0); [|assumption]; exfalso;
      rewrite <- (Z.mod_add z 1 18446744073709551616) in L by lia; rewrite Z.mod_small in L by lia; lia).
    apply Z.mod_small. lia.
Qed.
Lemma tab_block_app a b : tab_block (a ++ b) = tab_block a ++ tab_block b.
Proof. unfold tab_block. apply flat_map_app. Qed.
Lemma tab_block_length a : length (tab_block a) = (2 * length a)%nat.
Proof. induction a as [|x a IH]; [reflexivity|]. cbn [tab_block flat_map app length] in *. unfold tab_block in IH. rewrite IH. lia. Qed.
Lemma psub_of_length M n : length (psub_of M n) = n.
Proof. unfold psub_of. rewrite map_length, seq_length. reflexivity. Qed.
Lemma psub_of_S M n : psub_of M (S n) = psub_of M n ++
  [if Nat.ltb (n * 2) nmarks then (nth (n * 2) M (-1), nth (n * 2 + 1) M (-1)) else (-1, -1)].
Proof. unfold psub_of. rewrite seq_S, map_app. reflexivity. Qed.

Section PsubLoop.
  Variables (br bl bps : nat) (flg : Z) (call : nat -> list val -> mem -> res (val * mem)).
  Variables (v0 : val) (nsub : Z) (p : nat) (M : list Z) (pc dep : Z) (pcells : list val).
  Hypothesis Hnsub : 0 <= nsub /\ nsub * 2 <= 2147483647.
  Hypothesis Hne : bps <> br.
  Hypothesis HM : ints_ok (firstn (Nat.min 128 (2 * Z.to_nat nsub)) M).   (* only the marks that are read *)
  Hypothesis Hlen : length M = 128%nat.
  Hypothesis Hpl : (2 * Z.to_nat nsub <= length pcells)%nat.
  Let ns := Z.to_nat nsub.
  Lemma nth_read j : (j < Nat.min 128 (2 * ns))%nat -> -2147483648 <= nth j M 0 <= 2147483647.
  Proof.
    intro Hj. pose proof (nthz_ok _ (Z.of_nat j) HM) as X. unfold nthz in X. rewrite Nat2Z.id in X.
    rewrite <- (firstn_skipn (Nat.min 128 (2 * ns)) M). rewrite app_nth1 by (rewrite firstn_length; lia). exact X.
  Qed.

  Lemma psub_loop_ok : forall k i m lf, (ns - i = k)%nat -> (i <= ns)%nat ->
    nth_error m br = Some (rs_cells bl p M pc flg dep) ->
    nth_error m bps = Some (tab_block (psub_of M i) ++ skipn (2 * i) pcells) -> (k < lf)%nat ->
    exec call lf rm_psub_loop (mkst [v0; VPtr br 0; VInt nsub; VPtr bps 0; VInt (Z.of_nat i)] m)
    = ONormal (mkst [v0; VPtr br 0; VInt nsub; VPtr bps 0; VInt (Z.of_nat ns)] (upd m bps (tab_block (psub_of M ns) ++ skipn (2 * ns) pcells))).
  Proof.
    induction k as [|k IH]; intros i m lf Hk Hi Hm Hps Hlf; (destruct lf as [|lf]; [lia|]);
      unfold rm_psub_loop; cbn [fn_body cf_re_recmatch]; rewrite exec_for; xstep.
    - assert (i = ns) as -> by lia. destruct (Z.ltb_spec (Z.of_nat ns) nsub); [lia|]. xstep.
      rewrite (upd_self m bps _ Hps). reflexivity.
    - destruct (Z.ltb_spec (Z.of_nat i) nsub); [|lia]. xstep.
      assert (Hbps : (bps < length m)%nat) by (apply nth_error_Some; congruence).
      set (pre := tab_block (psub_of M i)) in *.
      assert (Hpre : length pre = (2 * i)%nat) by (unfold pre; rewrite tab_block_length, psub_of_length; reflexivity).
      assert (Hsk : exists a b, skipn (2 * i) pcells = a :: b :: skipn (2 * S i) pcells).
      { replace (2 * S i)%nat with (2 * i + 2)%nat by lia. rewrite <- skipn_skipn.
        pose proof (skipn_length (2 * i) pcells) as L. destruct (skipn (2 * i) pcells) as [|a [|b r]]; cbn [length] in L; try lia.
        exists a, b. reflexivity. }
      destruct Hsk as [a [b Hsk]]. rewrite Hsk in Hps. set (rest := skipn (2 * S i) pcells) in *.
      (* the value of one field: the mark if its index is below LEN(rs->mark), else -1 *)
      set (so := if Nat.ltb (i * 2) nmarks then nth (i * 2) M (-1) else -1).
      set (eo := if Nat.ltb (i * 2) nmarks then nth (i * 2 + 1) M (-1) else -1).
      assert (Hi2 : (i * 2 + 1 < 2 * ns)%nat) by (unfold ns; lia).
      assert (Hnth : forall j, (j < Nat.min 128 (2 * ns))%nat -> wrap I32 (nth j M 0) = nth j M (-1) /\ -2147483648 <= nth j M (-1) <= 2147483647).
      { intros j Hj. pose proof (nth_read j Hj) as X. rewrite (nth_indep M 0 (-1)) in * by lia. split; [apply wrap_I32_id; exact X|exact X]. }
      assert (Hso : -2147483648 <= so <= 2147483647).
      { unfold so. destruct (Nat.ltb_spec (i * 2) nmarks) as [L|L]; [|lia]. change nmarks with 128%nat in L. apply Hnth. lia. }
      assert (Heo : -2147483648 <= eo <= 2147483647).
      { unfold eo. destruct (Nat.ltb_spec (i * 2) nmarks) as [L|L]; [|lia]. change nmarks with 128%nat in L. apply Hnth. lia. }
      rewrite (chk_I32 (Z.of_nat i * 2)) by lia. xstep.
      change (if 4 =? 0 then Err EDivZero else chk U64 (512 ÷ 4)) with (@Ok Z 128). xstep.
      rewrite (wrap_U64_id (Z.of_nat i * 2)) by lia.
      assert (Hb1 : (Z.of_nat i * 2 <? 128) = Nat.ltb (i * 2) nmarks).
      { change nmarks with 128%nat. destruct (Z.ltb_spec (Z.of_nat i * 2) 128), (Nat.ltb_spec (i * 2) 128); try reflexivity; lia. }
      rewrite Hb1.
      assert (Hm1 : forall B, nth_error (upd m bps B) br = Some (rs_cells bl p M pc flg dep)).
      { intro B. rewrite mem_upd_other; [exact Hm|exact Hbps|congruence]. }
      (* rm_so *)
      assert (V1 : forall mm, nth_error mm br = Some (rs_cells bl p M pc flg dep) -> forall lo, 
        (if Nat.ltb (i * 2) nmarks
         then do c <- load mm br (0 + 1 * 2 + 1 * (Z.of_nat i * 2));
              match c with
              | VUndef => Err EUndef
              | VInt z => Ok (VInt (wrap I32 z), mkst lo mm)
              | VPtr _ _ => Err EType
              end
         else Ok (VInt (-1), mkst lo mm)) = Ok (VInt so, mkst lo mm)).
      { intros mm Hmm lo. unfold so. destruct (Nat.ltb_spec (i * 2) nmarks) as [L|L]; [|reflexivity]. change nmarks with 128%nat in L.
        replace (Z.of_nat i * 2) with (Z.of_nat (i * 2)) by lia. rewrite (ld_mark mm p M pc dep Hmm Hlen (i * 2)) by lia.
        cbn [bind]. rewrite (proj1 (Hnth (i * 2)%nat ltac:(lia))). reflexivity. }
      assert (V2 : forall mm, nth_error mm br = Some (rs_cells bl p M pc flg dep) -> forall lo, 
        (if Nat.ltb (i * 2) nmarks
         then do c <- load mm br (0 + 1 * 2 + 1 * (Z.of_nat i * 2 + 1));
              match c with
              | VUndef => Err EUndef
              | VInt z => Ok (VInt (wrap I32 z), mkst lo mm)
              | VPtr _ _ => Err EType
              end
         else Ok (VInt (-1), mkst lo mm)) = Ok (VInt eo, mkst lo mm)).
      { intros mm Hmm lo. unfold eo. destruct (Nat.ltb_spec (i * 2) nmarks) as [L|L]; [|reflexivity]. change nmarks with 128%nat in L.
        replace (Z.of_nat i * 2 + 1) with (Z.of_nat (i * 2 + 1)) by lia. rewrite (ld_mark mm p M pc dep Hmm Hlen (i * 2 + 1)) by lia.
        cbn [bind]. rewrite (proj1 (Hnth (i * 2 + 1)%nat ltac:(lia))). reflexivity. }
      xstep; rewrite ?(chk_I32 (Z.of_nat i * 2)) by lia; xstep.
      change (chk I32 (- (1))) with (@Ok Z (-1)). xstep.
      rewrite (V1 m Hm). xstep. rewrite !(wrap_I64_small so) by exact Hso.
      rewrite (store_ok m bps _ _ _ Hps) by (rewrite app_length, Hpre; cbn [length]; lia). xstep.
      replace (Z.to_nat (0 + 2 * Z.of_nat i)) with (2 * i)%nat by lia.
      rewrite (upd_mid pre (b :: rest) a (VInt so) (2 * i) Hpre).
      (* rm_eo *)
      rewrite (chk_I32 (Z.of_nat i * 2)) by lia. xstep.
      change (if 4 =? 0 then Err EDivZero else chk U64 (512 ÷ 4)) with (@Ok Z 128). xstep.
      rewrite (wrap_U64_id (Z.of_nat i * 2)) by lia. rewrite Hb1.
      xstep; rewrite ?(chk_I32 (Z.of_nat i * 2)) by lia; xstep.
      rewrite ?(chk_I32 (Z.of_nat i * 2 + 1)) by lia; xstep.
      change (chk I32 (- (1))) with (@Ok Z (-1)). xstep.
      rewrite (V2 _ (Hm1 _)). xstep. rewrite !(wrap_I64_small eo) by exact Heo.
      rewrite (store_ok _ bps _ _ _ (mem_upd_same m bps _ Hbps)) by (rewrite app_length, Hpre; cbn [length]; lia). xstep.
      replace (Z.to_nat (0 + 2 * Z.of_nat i + 1 * 1)) with (2 * i + 1)%nat by lia.
      change (pre ++ VInt so :: b :: rest) with (pre ++ [VInt so] ++ b :: rest). rewrite app_assoc.
      rewrite (upd_mid (pre ++ [VInt so]) rest b (VInt eo) (2 * i + 1)) by (rewrite app_length, Hpre; cbn [length]; lia).
      rewrite upd_upd by exact Hbps.
      rewrite (chk_I32 (Z.of_nat i + 1)) by lia. xstep. replace (Z.of_nat i + 1) with (Z.of_nat (S i)) by lia.
      assert (Hps2 : (pre ++ [VInt so]) ++ VInt eo :: rest = tab_block (psub_of M (S i)) ++ skipn (2 * S i) pcells).
      { rewrite psub_of_S, tab_block_app. fold pre. fold rest. rewrite <- !app_assoc. f_equal.
        unfold so, eo. destruct (Nat.ltb (i * 2) nmarks); reflexivity. }
      rewrite Hps2.
      pose proof (IH (S i) (upd m bps (tab_block (psub_of M (S i)) ++ skipn (2 * S i) pcells)) lf ltac:(lia) ltac:(lia)
                    (Hm1 _) (mem_upd_same m bps _ Hbps) ltac:(lia)) as X.
      unfold rm_psub_loop in X; cbn [fn_body cf_re_recmatch] in X. rewrite X. rewrite upd_upd by exact Hbps. reflexivity.
  Qed.
End PsubLoop.

(* ------------------------------------------------------------------ re_recmatch = ReVM.re_recmatch + psub_of *)
Theorem tr_re_recmatch bre bp br bl bps P cflg flg line fuel :
  br <> bre -> br <> bp -> br <> bl -> (length cglobals <= br)%nat -> bytes_lt256 line -> -2147483648 <= flg <= 2147483647 ->
  (length line < fuel)%nat -> (cls_fuel <= fuel)%nat -> Z.of_nat (length line) < 2147483647 -> Z.of_nat (length P) < 2147483647 ->
  prog_closed P -> (length P < fuel)%nat -> bps <> br -> (0 < length P)%nat -> (128 < fuel)%nat ->
  forall m p marks pc0 dep0 nsub pcells e o c,
  frame bre bp br bl P cflg line fuel m -> nth_error m br = Some (rs_cells bl p marks pc0 flg dep0) -> length marks = 128%nat ->
  (p <= length line)%nat -> nth_error m bps = Some pcells -> 0 <= nsub -> nsub * 2 <= 2147483647 ->
  (2 * Z.to_nat nsub <= length pcells)%nat -> (Z.to_nat nsub < fuel)%nat ->
  ReVM.re_recmatch 256 P flg line p = (o, c) -> out_ok o ->
  exists m', callf cprog fuel (S (S (S (S (S (S (S (S (256 + e))))))))) F_re_recmatch [VPtr bre 0; VPtr br 0; VInt nsub; VPtr bps 0] m
             = Ok (VInt (ret_of o), m') /\
  exists extra p' M' pc' dep', length M' = 128%nat /\
    match o with
    | Found _ r => p' = fst r /\ agree (Nat.min 128 (2 * Z.to_nat nsub)) (snd r) M' /\
        m' = upd (upd m br (rs_cells bl p' M' pc' flg dep') ++ extra) bps
                 (tab_block (psub_of (snd r) (Z.to_nat nsub)) ++ skipn (2 * Z.to_nat nsub) pcells)
    | _ => m' = upd m br (rs_cells bl p' M' pc' flg dep') ++ extra
    end.
Proof.
  intros H1 H2 H3 H4 H5 H6 H7 H8 H9 H10 H11 H12 Hbps HP0 H128 m p marks pc0 dep0 nsub pcells e o c F Hm Hlen Hpl Hps Hn0 Hn2 Hpc Hnf Hr Hok.
  assert (Hb : (br < length m)%nat) by apply F.
  assert (Hbb : (bps < length m)%nat) by (apply nth_error_Some; congruence).
  set (n := Nat.min 128 (2 * Z.to_nat nsub)).
  assert (En : Nat.min 128 (Z.to_nat (nsub * 2)) = n) by (unfold n; f_equal; lia).
  set (marks1 := fill_marks marks 0 n).
  assert (Hlen1 : length marks1 = 128%nat) by (unfold marks1; rewrite fill_marks_length; exact Hlen).
  (* the run from the marks the C text really starts with takes the same decisions *)
  pose proof (rec_agree flg line P n 256 0 p (repeat (-1) 128) marks1 (fill_marks_agree marks n Hlen ltac:(unfold n; lia))) as Hag.
  unfold ReVM.re_recmatch in Hr. change nmarks with 128%nat in Hr. rewrite Hr in Hag.
  destruct (ReVM.rec st (atom_step flg line) mark_step P 256 0 (p, marks1)) as [o1 c1] eqn:Hr1.
  destruct Hag as [_ Hag]. cbn [fst snd] in Hag.
  assert (Hok1 : out_ok o1) by (destruct o, o1; try contradiction; exact I).
  enter F_re_recmatch cf_re_recmatch. xstep. wrap_const.
  rewrite (st_pc m p marks pc0 dep0 Hm Hlen). xstep.
  rewrite (st_dep _ p marks 0 dep0 (mem_upd_same m br _ Hb) Hlen). xstep. rewrite upd_upd by exact Hb.
  change (wrap I32 0) with 0.
  set (cd := S (S (S (S (S (S (S (256 + e)))))))).
  assert (Hm0 : nth_error (upd m br (rs_cells bl p marks 0 flg 0)) br = Some (rs_cells bl p marks 0 flg 0)) by (apply mem_upd_same; exact Hb).
  pose proof (init_loop_ok br bl flg (callf cprog fuel cd) (VPtr bre 0) (VPtr bps 0) nsub p 0 0 (conj Hn0 Hn2) n 0%nat _ marks fuel
                ltac:(rewrite En; lia) ltac:(lia) Hm0 Hlen ltac:(unfold n; lia)) as X.
  rewrite En in X. change (Z.of_nat 0) with 0 in X. unfold rm_init_loop in X; cbn [fn_body cf_re_recmatch] in X. rewrite X. clear X.
  rewrite upd_upd by exact Hb. fold marks1. xstep.
  (* the call of re_rec *)
  set (R1 := rs_cells bl p marks1 0 flg 0).
  assert (F1 : frame bre bp br bl P cflg line fuel (upd m br R1)) by (apply frame_upd; assumption).
  assert (Hm1 : nth_error (upd m br R1) br = Some (rs_cells bl p marks1 (Z.of_nat 0) flg (256 - Z.of_nat 256))) by (apply mem_upd_same; exact Hb).
  destruct (tr_re_rec bre bp br bl P cflg flg line fuel H1 H2 H3 H4 H5 H6 H7 H8 H9 H10 H11 H12 256 e ltac:(lia)
              (upd m br R1) 0%nat p marks1 o1 c1 F1 HP0 Hm1 Hlen1 Hpl Hr1 Hok1) as [m3 [Hcall Hpost]].
  fold cd in Hcall. rewrite Hcall. xstep.
  apply (post_shift0 m R1 o1 m3 Hb) in Hpost.
  destruct Hpost as [extra [p' [M' [pc' [dep' [Hm3 [HlM Hfin]]]]]]].
  destruct o as [cs r| | |w]; cbn [out_ok ret_of] in *; try contradiction.
  2:{ destruct o1; try contradiction. cbn [ret_of]. xstep. eexists. split; [reflexivity|]. exists extra, p', M', pc', dep'. split; [exact HlM|exact Hm3]. }
  destruct o1 as [cs1 r1| | |w1]; try contradiction. destruct Hag as [_ [Hfst Hagr]]. subst r1. cbn [fst snd] in Hfst, Hagr.
  cbn [ret_of]. xstep.
  subst p'.
  assert (Hm3b : nth_error m3 br = Some (rs_cells bl (fst r) M' pc' flg dep')).
  { rewrite Hm3. rewrite nth_error_app1 by (rewrite upd_length; exact Hb). apply mem_upd_same. exact Hb. }
  assert (Hm3p : nth_error m3 bps = Some (tab_block (psub_of M' 0) ++ skipn (2 * 0) pcells)).
  { rewrite Hm3. rewrite nth_error_app1 by (rewrite upd_length; [exact Hbb|exact Hb]). rewrite mem_upd_other; [exact Hps|exact Hb|exact Hbps]. }
  assert (Hinv : st_inv line r).
  { apply (rec_inv flg line P 256 0 (p, repeat (-1) 128) cs r c H9); [|exact Hr]. split; [exact Hpl|]. apply Forall_forall. intros x Hx.
    apply repeat_spec in Hx. subst x. lia. }
  assert (HM' : ints_ok (firstn (Nat.min 128 (2 * Z.to_nat nsub)) M')).
  { fold n. rewrite <- (proj2 Hagr). apply Forall_firstn'. apply Hinv. }
  pose proof (psub_loop_ok br bl bps flg (callf cprog fuel cd) (VPtr bre 0) nsub (fst r) M' pc' dep' pcells (conj Hn0 Hn2) Hbps HM' HlM Hpc
                (Z.to_nat nsub) 0%nat m3 fuel ltac:(lia) ltac:(lia) Hm3b Hm3p Hnf) as X.
  change (Z.of_nat 0) with 0 in X. unfold rm_psub_loop in X; cbn [fn_body cf_re_recmatch] in X. rewrite X. clear X. xstep.
  eexists. split; [reflexivity|]. exists extra, (fst r), M', pc', dep'. split; [exact HlM|]. split; [reflexivity|]. split; [exact Hagr|].
  rewrite Hm3. rewrite (psub_of_agree (snd r) M' (Z.to_nat nsub) Hagr). reflexivity.
Qed.
Print Assumptions tr_re_recmatch.

(* ------------------------------------------------------------------ regexec: the start-position loop *)
Definition rx_loop : stmt :=
  match fn_body cf_regexec with SSeq _ (SSeq _ (SSeq _ (SSeq _ (SSeq _ (SSeq _ (SSeq w _)))))) => w | _ => SSkip end.
Definition rx_tail : stmt :=
  match fn_body cf_regexec with SSeq _ (SSeq _ (SSeq _ (SSeq _ (SSeq _ (SSeq _ (SSeq _ t)))))) => t | _ => SSkip end.

(* what regexec leaves in memory: its local state block (dead afterwards), the states saved by the forks, and on a match
   the caller's psub[] *)
Definition rx_post (br bps : nat) (pcells : block) (ns : nat) (m : mem) (x : option st) (m' : mem) : Prop :=
  exists blk extra, match x with
                    | Some r => m' = upd (upd m br blk ++ extra) bps (tab_block (psub_of (snd r) ns) ++ skipn (2 * ns) pcells)
                    | None => m' = upd m br blk ++ extra
                    end.

Lemma rx_post_shift br bps pcells ns (m : mem) (A : block) (E : list block) x m' : (br < length m)%nat ->
  rx_post br bps pcells ns (upd m br A ++ E) x m' -> rx_post br bps pcells ns m x m'.
Proof.
  intros Hb [blk [extra Hx]]. exists blk, (E ++ extra).
  assert (Eq : upd (upd m br A ++ E) br blk ++ extra = upd m br blk ++ E ++ extra).
  { rewrite upd_app_mem by (rewrite upd_length; exact Hb). rewrite upd_upd by exact Hb. rewrite <- app_assoc. reflexivity. }
  destruct x; rewrite Eq in Hx; exact Hx.
Qed.

Section Regexec.
  Variables (bre bp br bl bps bpreg : nat) (P : list instr) (cflg flg : Z) (line : bytes) (fuel : nat).
  Hypothesis H1 : br <> bre.
  Hypothesis H2 : br <> bp.
  Hypothesis H3 : br <> bl.
  Hypothesis H4 : (length cglobals <= br)%nat.
  Hypothesis H5 : bytes_lt256 line.
  Hypothesis H6 : -2147483648 <= flg <= 2147483647.
  Hypothesis H7 : (length line + 2 <= fuel)%nat.
  Hypothesis H8 : (cls_fuel <= fuel)%nat.
  Hypothesis H9 : Z.of_nat (length line) < 2147483647.
  Hypothesis H10 : Z.of_nat (length P) < 2147483647.
  Hypothesis H11 : prog_closed P.
  Hypothesis H12 : (length P < fuel)%nat.
  Hypothesis Hbps : bps <> br.
  Hypothesis HP0 : (0 < length P)%nat.
  Hypothesis H128 : (128 < fuel)%nat.
  Variables (nsub eflg : Z) (pcells : block) (e : nat).
  Let nsub' := if negb (Z.land eflg 2 =? 0) then 0 else nsub.
  Hypothesis Hn0 : 0 <= nsub.
  Hypothesis Hn2 : nsub * 2 <= 2147483647.
  Hypothesis Hpc : (2 * Z.to_nat nsub <= length pcells)%nat.
  Hypothesis Hnf : (Z.to_nat nsub < fuel)%nat.
  Hypothesis Heflg : -2147483648 <= eflg <= 2147483647.
  Notation cd := (S (S (S (S (S (S (S (S (256 + e))))))))).
  Notation call := (callf cprog fuel cd).
  Notation frame := (frame bre bp br bl P cflg line fuel).

  Lemma rx_loop_ok fuel2 : forall k m o s c0 marks pc dep lf x c,
    frame m -> nth_error m br = Some (c0 :: tl (rs_cells bl 0 marks pc flg dep)) -> length marks = 128%nat ->
    nth_error m bps = Some pcells -> (o <= length line)%nat -> (s <= length line)%nat ->
    re_loop 256 P flg line k o s = (ReSyntax.Ok x, c) -> (k <= lf)%nat ->
    exists st', match exec call lf rx_loop (mkst [VPtr bpreg 0; VPtr bl (Z.of_nat s); VInt nsub; VPtr bps 0; VInt eflg; VPtr bre 0; VPtr br 0; VPtr bl (Z.of_nat o)] m) with
                | ONormal st1 => exec call fuel2 rx_tail st1
                | oc => oc
                end = OReturn (VInt (match x with Some _ => 0 | None => 1 end)) st' /\
                rx_post br bps pcells (Z.to_nat nsub') m x (memm st').
  Proof.
    induction k as [|k IH]; intros m o s c0 marks pc dep lf x c F Hm Hlen Hps Ho Hs Hl Hlf; [discriminate|].
    destruct lf as [|lf]; [lia|]. cbn [re_loop] in Hl.
    pose proof F as [_ [Fl [_ Hb]]].
    rewrite (rdk_in _ line o Ho) in Hl. rewrite (rdk_in _ line s Hs) in Hl.
    unfold rx_loop, rx_tail; cbn [fn_body cf_regexec]. rewrite exec_while. xstep.
    rewrite (load_str m bl line _ o Fl eq_refl Ho). xstep. rewrite (cc_z0 _ (nthb_lt256 line o H5)).
    destruct (nthb line o =? 0)%N eqn:E0; cbn [negb].
    { injection Hl as <- _. xstep. eexists. split; [reflexivity|]. cbn [memm]. exists (c0 :: tl (rs_cells bl 0 marks pc flg dep)), [].
      rewrite app_nil_r. symmetry. apply upd_self. exact Hm. }
    xstep.
    rewrite (store_ok m br _ 0 _ Hm) by (cbn [length]; lia).
    change (upd (c0 :: tl (rs_cells bl 0 marks pc flg dep)) (Z.to_nat 0) (VPtr bl (Z.of_nat s))) with (rs_cells bl s marks pc flg dep).
    xstep.
    set (m1 := upd m br (rs_cells bl s marks pc flg dep)).
    assert (F1 : frame m1) by (apply frame_upd; assumption || lia).
    assert (Hm1 : nth_error m1 br = Some (rs_cells bl s marks pc flg dep)) by (apply mem_upd_same; exact Hb).
    pose proof F1 as [_ [Fl1 _]].
    rewrite (tr_re_uc_len m1 bl line s _ fuel Fl1 H5 Hs ltac:(lia)). xstep.
    replace (Z.of_nat s + 1 * Z.of_nat (re_uclen_at line s)) with (Z.of_nat (s + re_uclen_at line s)) by lia.
    match goal with |- context [if negb (Z.land eflg 2 =? 0) then Ok (VInt 0, ?st) else Ok (VInt nsub, ?st)] =>
      replace (if negb (Z.land eflg 2 =? 0) then Ok (VInt 0, st) else Ok (VInt nsub, st)) with (@Ok (val * state) (VInt nsub', st))
        by (unfold nsub'; destruct (negb _); reflexivity) end.
    xstep.
    assert (Hn' : 0 <= nsub' /\ nsub' * 2 <= 2147483647 /\ (2 * Z.to_nat nsub' <= length pcells)%nat /\ (Z.to_nat nsub' < fuel)%nat).
    { unfold nsub'. destruct (negb _); repeat split; try lia; assumption. }
    destruct Hn' as [Hn0' [Hn2' [Hpc' Hnf']]].
    assert (Hps1 : nth_error m1 bps = Some pcells) by (unfold m1; rewrite mem_upd_other; [exact Hps|exact Hb|exact Hbps]).
    destruct (ReVM.re_recmatch 256 P flg line s) as [o1 c1] eqn:Hrm.
    assert (Hok1 : out_ok o1) by (destruct o1; try exact I; discriminate).
    destruct (tr_re_recmatch bre bp br bl bps P cflg flg line fuel H1 H2 H3 H4 H5 H6 ltac:(lia) H8 H9 H10 H11 H12 Hbps HP0 H128
                m1 s marks pc dep nsub' pcells e o1 c1 F1 Hm1 Hlen Hs Hps1 Hn0' Hn2' Hpc' Hnf' Hrm Hok1)
      as [m2 [Hcall [extra [p' [M' [pc' [dep' [HlM Hfin]]]]]]]].
    rewrite Hcall. xstep.
    destruct o1 as [cs r| | |w]; cbn [ret_of] in *; try discriminate; xstep.
    - injection Hl as <- _. destruct Hfin as [-> [Hag ->]]. eexists. split; [reflexivity|]. cbn [memm].
      apply (rx_post_shift br bps pcells _ m (rs_cells bl s marks pc flg dep) [] _ _ Hb). rewrite app_nil_r.
      eexists _, extra. reflexivity.
    - destruct (re_loop 256 P flg line k s (s + re_uclen_at line s)) as [x2 c2] eqn:Hl2. injection Hl as -> _.
      pose proof (re_uclen_at_in line s Hs) as Hs'.
      assert (Hb1 : (br < length m1)%nat) by (unfold m1; rewrite upd_length; exact Hb).
      assert (Hbb1 : (bps < length m1)%nat) by (apply nth_error_Some; congruence).
      assert (F2 : frame m2) by (rewrite Hfin; apply frame_app; try assumption; try lia; apply frame_upd; assumption || lia).
      assert (Hm2 : nth_error m2 br = Some (VPtr bl (Z.of_nat p') :: tl (rs_cells bl 0 M' pc' flg dep'))).
      { rewrite Hfin. rewrite nth_error_app1 by (rewrite upd_length; exact Hb1). apply mem_upd_same. exact Hb1. }
      assert (Hps2 : nth_error m2 bps = Some pcells).
      { rewrite Hfin. rewrite nth_error_app1 by (rewrite upd_length; [exact Hbb1|exact Hb1]).
        rewrite mem_upd_other; [exact Hps1|exact Hb1|exact Hbps]. }
      destruct (IH m2 s (s + re_uclen_at line s)%nat _ M' pc' dep' lf x c2 F2 Hm2 HlM Hps2 Hs Hs' Hl2 ltac:(lia)) as [st' [X Y]].
      unfold rx_loop, rx_tail in X; cbn [fn_body cf_regexec] in X.
      exists st'. split; [exact X|]. rewrite Hfin in Y.
      apply (rx_post_shift br bps pcells _ m (rs_cells bl s marks pc flg dep) [] _ _ Hb). rewrite app_nil_r.
      exact (rx_post_shift br bps pcells _ m1 _ extra _ _ Hb1 Y).
  Qed.
End Regexec.

Lemma globals_len (m : mem) : globals_at m -> (length cglobals <= length m)%nat.
Proof.
  intros [L _]. exact L.
Qed.
Lemma frame_fresh bre bp bl P cflg line fuel (m : mem) (B : block) :
  prog_at m (length m) fuel bre bp P cflg -> str_at m bl line -> globals_at m ->
  frame bre bp (length m) bl P cflg line fuel (m ++ [B]).
Proof.
  intros [cells [Hre [Hp Hi]]] Hl Hg.
  assert (Hx : forall b (blk : block), nth_error m b = Some blk -> nth_error (m ++ [B]) b = Some blk).
  { intros b blk Hn. rewrite nth_error_app1; [exact Hn|]. apply nth_error_Some. congruence. }
  split; [|split; [|split]].
  - exists cells. split; [apply Hx; exact Hre|]. split; [apply Hx; exact Hp|].
    intros k i Hk. specialize (Hi k i Hk). destruct Hi as [A1 A2]. split; [exact A1|].
    destruct i as [a| | | |]; try exact A2. destruct A2 as [A2 A3]. split; [exact A2|].
    destruct (ra_str a) as [s|]; [|exact I]. destruct A3 as [bs [E1 [E2 E3]]]. exists bs. split; [exact E1|]. split; [apply Hx; exact E2|exact E3].
  - apply Hx. exact Hl.
  - destruct Hg as [HgL Hg]. split; [rewrite app_length; lia|]. intros g blk Hin Hn. apply Hx. apply Hg; assumption.
  - rewrite app_length. cbn [length]. lia.
Qed.

Theorem tr_regexec bre bp bl bps bpreg P cflg eflg line fuel (m : mem) nsub pcells e x c :
  let flg := Z.lor cflg eflg in
  let ns := Z.to_nat (if negb (Z.land eflg 2 =? 0) then 0 else nsub) in
  nth_error m bpreg = Some [VPtr bre 0] ->
  prog_at m (length m) fuel bre bp P cflg -> str_at m bl line -> globals_at m -> nth_error m bps = Some pcells ->
  bytes_lt256 line -> -2147483648 <= flg <= 2147483647 -> -2147483648 <= cflg <= 2147483647 -> -2147483648 <= eflg <= 2147483647 ->
  (length line + 2 <= fuel)%nat -> (cls_fuel <= fuel)%nat -> Z.of_nat (length line) < 2147483647 -> Z.of_nat (length P) < 2147483647 ->
  prog_closed P -> (length P < fuel)%nat -> (0 < length P)%nat -> (128 < fuel)%nat ->
  0 <= nsub -> nsub * 2 <= 2147483647 -> (2 * Z.to_nat nsub <= length pcells)%nat -> (Z.to_nat nsub < fuel)%nat ->
  re_loop 256 P flg line (length line + 2) 0 0 = (ReSyntax.Ok x, c) ->
  exists m' blk extra,
    callf cprog fuel (S (S (S (S (S (S (S (S (S (256 + e)))))))))) F_regexec [VPtr bpreg 0; VPtr bl 0; VInt nsub; VPtr bps 0; VInt eflg] m
    = Ok (VInt (match x with Some _ => 0 | None => 1 end), m') /\
    m' = match x with
         | Some r => upd m bps (tab_block (psub_of (snd r) ns) ++ skipn (2 * ns) pcells) ++ blk :: extra
         | None => m ++ blk :: extra
         end.
Proof.
  intros flg ns Hpreg Hprog Hl Hg Hps H5 H6 Hcf Hef H7 H8 H9 H10 H11 H12 HP0 H128 Hn0 Hn2 Hpc Hnf Hloop.
  set (br := length m).
  assert (Lre : (bre < br)%nat) by (destruct Hprog as [cells [A _]]; apply nth_error_Some; congruence).
  assert (Lbp : (bp < br)%nat) by (destruct Hprog as [cells [_ [A _]]]; apply nth_error_Some; congruence).
  assert (Lbl : (bl < br)%nat) by (apply nth_error_Some; unfold str_at in Hl; congruence).
  assert (Lbps : (bps < br)%nat) by (apply nth_error_Some; congruence).
  pose proof (globals_len m Hg) as Lg.
  enter F_regexec cf_regexec. xstep.
  rewrite (load_cell m bpreg _ 0 _ Hpreg eq_refl ltac:(lia)). xstep.
  rewrite (malloc_ok m 133) by lia. xstep.
  change (chk U64 (544 * 133)) with (@Ok Z 72352). xstep.
  change (if 544 =? 0 then Err EDivZero else chk U64 (72352 ÷ 544)) with (@Ok Z 133). xstep.
  rewrite (memset_ok (m ++ [repeat VUndef (Z.to_nat 133)]) (length m) 0 0 133 (repeat VUndef (Z.to_nat 133)) (nth_error_app_new m _))
    by (rewrite ?repeat_length; lia).
  xstep. rewrite upd_app_new.
  change (put_cells (repeat VUndef (Z.to_nat 133)) (Z.to_nat 0) (repeat (VInt (wrap U8 0)) (Z.to_nat 133))) with (repeat (VInt 0) 133).
  (* rs.flg = re->flg | flg;  rs.o = s *)
  destruct Hprog as [cells [Hre [Hbp Hinstr]]].
  assert (Hre' : nth_error (m ++ [(repeat (VInt 0) 133 : block)]) bre = Some [VPtr bp 0; VInt (Z.of_nat (length P)); VInt cflg])
    by (rewrite nth_error_app1 by exact Lre; exact Hre).
  rewrite (load_cell _ bre _ (0 + 1 * 2) _ Hre' eq_refl ltac:(lia)). xstep.
  rewrite (wrap_I32_id cflg Hcf). fold flg. rewrite (wrap_I32_id flg H6).
  rewrite (store_ok _ (length m) (repeat (VInt 0) 133) (0 + 1 * 131) _ (nth_error_app_new m _)) by (rewrite repeat_length; lia).
  xstep. rewrite upd_app_new.
  rewrite (store_ok _ (length m) _ (0 + 1 * 1) _ (nth_error_app_new m _)) by (rewrite upd_length; rewrite repeat_length; lia).
  xstep. rewrite upd_app_new.
  change (upd (upd (repeat (VInt 0) 133) (Z.to_nat (0 + 1 * 131)) (VInt flg)) (Z.to_nat (0 + 1 * 1)) (VPtr bl 0))
    with (VInt 0 :: tl (rs_cells bl 0 (repeat 0 128) 0 flg 0)).
  set (B0 := VInt 0 :: tl (rs_cells bl 0 (repeat 0 128) 0 flg 0)).
  assert (F0 : frame bre bp br bl P cflg line fuel (m ++ [B0])).
  { apply frame_fresh; [|exact Hl|exact Hg]. exists cells. split; [exact Hre|]. split; [exact Hbp|exact Hinstr]. }
  destruct (rx_loop_ok bre bp br bl bps bpreg P cflg flg line fuel ltac:(lia) ltac:(lia) ltac:(lia) Lg H5 H6 H7 H8 H9 H10 H11 H12 ltac:(lia) HP0 H128
              nsub eflg pcells e Hn0 Hn2 Hpc Hnf fuel (length line + 2) (m ++ [B0]) 0%nat 0%nat (VInt 0) (repeat 0 128) 0 0 fuel x c
              F0 (nth_error_app_new m B0) (repeat_length _ _) ltac:(rewrite nth_error_app1 by exact Lbps; exact Hps) ltac:(lia) ltac:(lia) Hloop H7)
    as [st' [X Y]].
  unfold rx_loop, rx_tail in X; cbn [fn_body cf_regexec] in X. change (Z.of_nat 0) with 0 in X.
  match type of X with ?LX = _ =>
    match goal with |- context [match ?LG with ONormal _ => _ | _ => _ end] => change LG with LX end end.
  rewrite X.
  destruct Y as [blk [extra Y]]. exists (memm st'), blk, extra. split; [reflexivity|].
  fold ns in Y. unfold br in Y. rewrite upd_app_new in Y. destruct x as [r|].
  - rewrite Y. rewrite <- app_assoc. cbn [app]. rewrite upd_app_mem by exact Lbps. reflexivity.
  - rewrite Y. rewrite <- app_assoc. reflexivity.
Qed.
Print Assumptions tr_regexec.

(* ------------------------------------------------------------------ the model's regexec; programs of regcomp *)
Lemma prog_wf_closed P : ReProps5.prog_wf P -> prog_closed P /\ (0 < length P)%nat.
Proof.
  intros [_ [H0 H]]. split; [|exact H0]. intros pc Hpc. specialize (H pc Hpc). destruct (nth pc P IMatch); lia.
Qed.

(* regexec without REG_NOSUB: the value and the psub[] the model computes *)
Corollary tr_regexec_model bre bp bl bps bpreg (p : ReEmit.prog) cflg eflg line fuel (m : mem) nsub pcells e res c :
  let P := ReEmit.code p in
  nth_error m bpreg = Some [VPtr bre 0] ->
  prog_at m (length m) fuel bre bp P cflg -> str_at m bl line -> globals_at m -> nth_error m bps = Some pcells ->
  bytes_lt256 line -> -2147483648 <= Z.lor cflg eflg <= 2147483647 -> -2147483648 <= cflg <= 2147483647 -> -2147483648 <= eflg <= 2147483647 ->
  (length line + 2 <= fuel)%nat -> (cls_fuel <= fuel)%nat -> Z.of_nat (length line) < 2147483647 -> Z.of_nat (length P) < 2147483647 ->
  ReProps5.prog_wf P -> (length P < fuel)%nat -> (128 < fuel)%nat ->
  0 <= nsub -> nsub * 2 <= 2147483647 -> (2 * Z.to_nat nsub <= length pcells)%nat -> (Z.to_nat nsub < fuel)%nat ->
  Z.land eflg 2 = 0 ->
  regexec_d 256 p cflg line (Z.to_nat nsub) eflg = (ReSyntax.Ok res, c) ->
  exists m' blk extra,
    callf cprog fuel (S (S (S (S (S (S (S (S (S (256 + e)))))))))) F_regexec [VPtr bpreg 0; VPtr bl 0; VInt nsub; VPtr bps 0; VInt eflg] m
    = Ok (VInt (match res with Some _ => 0 | None => 1 end), m') /\
    m' = match res with
         | Some subs => upd m bps (tab_block subs ++ skipn (2 * Z.to_nat nsub) pcells) ++ blk :: extra
         | None => m ++ blk :: extra
         end.
Proof.
  intros P Hpreg Hprog Hl Hg Hps H5 H6 Hcf Hef H7 H8 H9 H10 Hwf H12 H128 Hn0 Hn2 Hpc Hnf Hnosub Hr.
  destruct (prog_wf_closed P Hwf) as [H11 HP0].
  unfold regexec_d in Hr. fold P in Hr.
  destruct (re_loop 256 P (Z.lor cflg eflg) line (length line + 2) 0 0) as [[x| |] c'] eqn:Hloop; try (destruct x; discriminate); try discriminate.
  destruct (tr_regexec bre bp bl bps bpreg P cflg eflg line fuel m nsub pcells e x c' Hpreg Hprog Hl Hg Hps H5 H6 Hcf Hef H7 H8 H9 H10 H11 H12 HP0 H128
              Hn0 Hn2 Hpc Hnf Hloop) as [m' [blk [extra [X Y]]]].
  rewrite Hnosub in Y. cbn [Z.eqb negb] in Y.
  exists m', blk, extra. destruct x as [r|]; injection Hr as <- _; split; assumption.
Qed.
Print Assumptions tr_regexec_model.
