(* IoLinkProps.v -- the overwrite guards over names with symbolic links and foreign writers (C03). *)
From Coq Require Import List NArith ZArith Bool Arith Lia.
From NV Require Import Bytes GenConsts IoDefs IoProps IoFaultProps IoLinkDefs.
Import ListNotations.

(* ------------------------------------------------------------------ tables *)
Lemma lk_get_del lk x p : lk_get (lk_del lk x) p = if Nat.eqb p x then None else lk_get lk p.
Proof.
  induction lk as [|[q t] r IH]; cbn [lk_del lk_get].
  - destruct (Nat.eqb p x); reflexivity.
  - destruct (Nat.eqb_spec q x) as [E|E].
    + rewrite IH. destruct (Nat.eqb_spec p x) as [E2|E2]; [reflexivity|].
      destruct (Nat.eqb_spec q p); [congruence | reflexivity].
    + cbn [lk_get]. rewrite IH. destruct (Nat.eqb_spec q p) as [E3|E3]; [|reflexivity].
      destruct (Nat.eqb_spec p x); [congruence | reflexivity].
Qed.
Lemma fs_get_del fs x p : fs_get (fs_del fs x) p = if Nat.eqb p x then None else fs_get fs p.
Proof.
  induction fs as [|[q f] r IH]; cbn [fs_del fs_get].
  - destruct (Nat.eqb p x); reflexivity.
  - destruct (Nat.eqb_spec q x) as [E|E].
    + rewrite IH. destruct (Nat.eqb_spec p x) as [E2|E2]; [reflexivity|].
      destruct (Nat.eqb_spec q p); [congruence | reflexivity].
    + cbn [fs_get]. rewrite IH. destruct (Nat.eqb_spec q p) as [E3|E3]; [|reflexivity].
      destruct (Nat.eqb_spec p x); [congruence | reflexivity].
Qed.

(* removing the name x from the link table: the resolution of p is what it was, or it now stops at x *)
Lemma resolve_n_del x lk : forall fuel p,
  resolve_n fuel (lk_del lk x) p = resolve_n fuel lk p \/ resolve_n fuel (lk_del lk x) p = Some x.
Proof.
  induction fuel as [|f IH]; intro p; cbn [resolve_n]; rewrite lk_get_del;
    (destruct (Nat.eqb_spec p x) as [E|E]; [right; rewrite E; reflexivity|]);
    (destruct (lk_get lk p) as [t|]; [|left; reflexivity]).
  - left; reflexivity.
  - apply IH.
Qed.
Lemma resolve_del x lk p : resolve (lk_del lk x) p = resolve lk p \/ resolve (lk_del lk x) p = Some x.
Proof. apply resolve_n_del. Qed.

Lemma resolve_nil p : resolve [] p = Some p.
Proof. reflexivity. Qed.
(* a name that is not a link denotes itself *)
Lemma resolve_regular lk p : lk_get lk p = None -> resolve lk p = Some p.
Proof. intro H. unfold resolve, MAXSYMLINKS. cbn [resolve_n]. rewrite H. reflexivity. Qed.
(* one link to a regular name: the link's own entry plays no role, only where it points *)
Lemma resolve_link lk p q : lk_get lk p = Some q -> lk_get lk q = None -> resolve lk p = Some q.
Proof. intros H1 H2. unfold resolve, MAXSYMLINKS. cbn [resolve_n]. rewrite H1, H2. reflexivity. Qed.

Lemma mtime_of_resolved lk fs p q : resolve lk p = Some q -> mtime_of lk fs p = fs_mtime fs q.
Proof. intro R. unfold mtime_of, target, fs_mtime. rewrite R. reflexivity. Qed.

(* ------------------------------------------------------------------ without links the model is IoDefs' *)
Lemma lbuf_save_l_nil now lines b e path force ts fs sch :
  lbuf_save_l now lines b e [] path force ts fs sch = lbuf_save now lines b e path force ts fs sch.
Proof. reflexivity. Qed.
Lemma mtime_of_nil fs p : mtime_of [] fs p = fs_mtime fs p.
Proof. reflexivity. Qed.
Lemma ec_write_l_nil now isx force rng path bf fs sch :
  ec_write_l now isx force rng [] path bf fs sch = ec_write now isx force rng path bf fs sch.
Proof. reflexivity. Qed.
Lemma quit_loop_l_nil now all bang : forall bufs fs sch,
  quit_loop_l now all bang [] bufs fs sch = quit_loop now all bang bufs fs sch.
Proof.
  induction bufs as [|bf rest IH]; intros fs sch; cbn [quit_loop_l quit_loop]; [reflexivity|].
  destruct (negb all && negb bang && b_dirty bf); [reflexivity|]. destruct all; [|apply IH].
  rewrite lbuf_save_l_nil.
  destruct (lbuf_save now (b_lines bf) 0 (length (b_lines bf)) (b_path bf) bang (b_mtime bf) fs sch) as [[st fs'] r].
  destruct st; [apply IH | reflexivity | reflexivity].
Qed.
Lemma quit_marks_l_nil now all bang : forall bufs fs sch,
  quit_marks_l now all bang [] bufs fs sch = quit_marks now all bang bufs fs sch.
Proof.
  induction bufs as [|bf rest IH]; intros fs sch; cbn [quit_marks_l quit_marks]; [reflexivity|].
  destruct (negb all && negb bang && b_dirty bf); [reflexivity|]. destruct all.
  - rewrite lbuf_save_l_nil.
    destruct (lbuf_save now (b_lines bf) 0 (length (b_lines bf)) (b_path bf) bang (b_mtime bf) fs sch) as [[st fs'] r].
    destruct st; [rewrite IH; reflexivity | reflexivity | reflexivity].
  - rewrite IH. reflexivity.
Qed.
Lemma ec_quit_l_nil now wr isx all bang bufs fs sch :
  ec_quit_l now wr isx all bang [] bufs fs sch = ec_quit now wr isx all bang bufs fs sch.
Proof.
  unfold ec_quit_l, ec_quit. destruct bufs as [|b0 rest]; [reflexivity|]. destruct wr.
  - rewrite ec_write_l_nil. destruct (ec_write now isx bang None (b_path b0) b0 fs sch) as [[[st b0'] fs'] r].
    destruct st; [rewrite quit_loop_l_nil, quit_marks_l_nil; reflexivity | reflexivity | reflexivity].
  - rewrite quit_loop_l_nil, quit_marks_l_nil. reflexivity.
Qed.

(* ------------------------------------------------------------------ the guards through links *)
Lemma refuses_absent_then_present m : (0 <= m)%Z -> refuses false (-1) m = true.
Proof. intro H. apply refuses_guard; [exact H | left; lia]. Qed.

Lemma guard_save_l now lines b e lk path ts fs sch c m :
  target lk fs path = Some (c, m) -> (0 <= m)%Z -> (ts <= 0 \/ m > ts)%Z ->
  lbuf_save_l now lines b e lk path false ts fs sch = (SRefused, fs, sch).
Proof.
  unfold target, lbuf_save_l. destruct (resolve lk path) as [q|]; [|discriminate].
  intros G H0 H. exact (guard_save now lines b e q ts fs sch c m G H0 H).
Qed.

(* a target that exists and is not what the editor read or wrote last is refused without `!`:
   another name; the buffer's own name with a newer time stamp; the buffer's own name which did not exist
   (recorded -1) when the buffer was loaded.  Nothing is consumed or changed. *)
Lemma guard_write_l now isx rng lk path bf fs sch c m :
  target lk fs path = Some (c, m) -> (0 <= m)%Z ->
  (path <> b_path bf \/ (m > b_mtime bf)%Z \/ b_mtime bf = (-1)%Z) ->
  skips isx bf = false ->
  ec_write_l now isx false rng lk path bf fs sch = (SRefused, bf, fs, sch).
Proof.
  intros G H0 H SK. unfold ec_write_l. fold (skips isx bf). rewrite SK.
  destruct (match rng with Some r => r | None => (0, length (b_lines bf)) end) as [b e].
  rewrite (guard_save_l now (b_lines bf) b e lk path _ fs sch c m G H0); [reflexivity|].
  destruct (Nat.eqb_spec (b_path bf) path) as [P|P]; [|left; lia].
  destruct H as [H|[H|H]]; [congruence | right; exact H | left; lia].
Qed.

(* wq / x / xa without `!` from such a buffer: no quit, the refusal is shown, nothing is touched *)
Lemma guard_quit_l now isx all lk b0 rest fs sch c m :
  target lk fs (b_path b0) = Some (c, m) -> (0 <= m)%Z ->
  ((m > b_mtime b0)%Z \/ b_mtime b0 = (-1)%Z) -> skips isx b0 = false ->
  ec_quit_l now true isx all false lk (b0 :: rest) fs sch = (false, SRefused, b0 :: rest, fs, sch).
Proof.
  intros G H0 H SK. unfold ec_quit_l.
  rewrite (guard_write_l now isx None lk (b_path b0) b0 fs sch c m G H0 (or_intror H) SK). reflexivity.
Qed.
(* the save loop of xa (every buffer, the current one included, with its own recorded time stamp) *)
Lemma guard_quit_loop_l now lk bf rest fs sch c m :
  target lk fs (b_path bf) = Some (c, m) -> (0 <= m)%Z -> ((m > b_mtime bf)%Z \/ b_mtime bf = (-1)%Z) ->
  quit_loop_l now true false lk (bf :: rest) fs sch = (false, SRefused, fs, sch).
Proof.
  intros G H0 H. cbn [quit_loop_l negb andb].
  rewrite (guard_save_l now (b_lines bf) 0 (length (b_lines bf)) lk (b_path bf) (b_mtime bf) fs sch c m G H0); [reflexivity|].
  destruct H as [H|H]; [right; exact H | left; lia].
Qed.

(* with `!` no guard applies *)
Lemma forced_not_refused now lines b e lk path ts fs sch st fs' r :
  lbuf_save_l now lines b e lk path true ts fs sch = (st, fs', r) -> st <> SRefused.
Proof.
  unfold lbuf_save_l. destruct (resolve lk path) as [q|].
  - intro H. destruct (lbuf_save_spec _ _ _ _ _ _ _ _ _ _ _ _ H) as [_ [u [_ [A _]]]].
    intro X. destruct (A X) as [R _]. unfold refuses in R. cbn in R. discriminate.
  - unfold refuses. cbn [negb andb]. intro H. inversion H; subst. discriminate.
Qed.

(* ------------------------------------------------------------------ what the buffer remembers *)
Lemma edit_records lk fs p :
  b_mtime (ec_edit_l lk fs p) = mtime_of lk fs p /\ b_path (ec_edit_l lk fs p) = p /\
  (target lk fs p = None -> b_mtime (ec_edit_l lk fs p) = (-1)%Z /\ b_lines (ec_edit_l lk fs p) = []).
Proof.
  split; [reflexivity|]. split; [reflexivity|]. intro H. unfold ec_edit_l, mtime_of. rewrite H. split; reflexivity.
Qed.

Lemma lbuf_save_l_ok now lines b e lk path force ts fs sch fs' r :
  lbuf_save_l now lines b e lk path force ts fs sch = (SOk, fs', r) ->
  exists q, resolve lk path = Some q /\ fs_content fs' q = Some (want lines b e).
Proof.
  unfold lbuf_save_l. destruct (resolve lk path) as [q|].
  - intro H. destruct (lbuf_save_spec _ _ _ _ _ _ _ _ _ _ _ _ H) as [_ [u [_ [_ [B _]]]]].
    exists q. split; [reflexivity | exact (proj2 (B eq_refl))].
  - destruct (refuses force ts (-1)); intro H; inversion H.
Qed.

(* success through links: the file the name denotes holds exactly the addressed lines, and after a write of
   the buffer's own name the remembered time stamp is that file's *)
Lemma success_exact_l now isx force rng lk path bf fs sch bf' fs' r :
  ec_write_l now isx force rng lk path bf fs sch = (SOk, bf', fs', r) -> skips isx bf = false ->
  (exists q, resolve lk path = Some q /\
     fs_content fs' q = Some (want (b_lines bf) (fst (rng_of rng (length (b_lines bf)))) (snd (rng_of rng (length (b_lines bf)))))) /\
  (b_path bf = path -> b_mtime bf' = mtime_of lk fs' path /\ b_path bf' = path) /\
  (b_path bf <> path -> bf' = bf).
Proof.
  unfold ec_write_l. fold (skips isx bf). intros H SK. rewrite SK in H.
  fold (rng_of rng (length (b_lines bf))) in H. destruct (rng_of rng (length (b_lines bf))) as [b e]. cbn [fst snd].
  destruct (lbuf_save_l now (b_lines bf) b e lk path force (if Nat.eqb (b_path bf) path then b_mtime bf else 0%Z) fs sch)
    as [[st0 fs0] r0] eqn:E.
  destruct st0; inversion H; subst. split; [exact (lbuf_save_l_ok _ _ _ _ _ _ _ _ _ _ _ _ E)|].
  destruct (Nat.eqb_spec (b_path bf) path) as [P|P].
  - split; [intros _; split; [reflexivity | exact P] | congruence].
  - split; [congruence | reflexivity].
Qed.

(* ------------------------------------------------------------------ foreign writers *)
(* one foreign operation: what the name p denotes is untouched, or is gone, or carries the operation's stamp *)
Lemma target_foreign lk fs o p lk' fs' :
  foreign (lk, fs) o = (lk', fs') ->
  (resolve lk' p = resolve lk p /\ target lk' fs' p = target lk fs p) \/
  target lk' fs' p = None \/
  (exists c t, fop_stamp o = Some t /\ target lk' fs' p = Some (c, t)).
Proof.
  destruct o as [x c t|x c t|x t|x]; cbn [foreign fop_stamp].
  - (* FWrite *)
    destruct (resolve lk x) as [y|] eqn:RX; intro H; inversion H; subst; [|left; split; reflexivity].
    unfold target. destruct (resolve lk' p) as [q|]; [|left; split; reflexivity].
    destruct (Nat.eq_dec q y) as [->|N].
    + right. right. exists c, t. split; [reflexivity | apply fs_get_set_same].
    + left. split; [reflexivity | apply fs_get_set_other, N].
  - (* FReplace *)
    intro H. inversion H; subst. unfold target.
    destruct (resolve_del x lk p) as [R|R]; rewrite R.
    + destruct (resolve lk p) as [q|]; [|left; split; reflexivity].
      destruct (Nat.eq_dec q x) as [->|N].
      * right. right. exists c, t. split; [reflexivity | apply fs_get_set_same].
      * left. split; [reflexivity | apply fs_get_set_other, N].
    + right. right. exists c, t. split; [reflexivity | apply fs_get_set_same].
  - (* FTouch *)
    destruct (resolve lk x) as [y|] eqn:RX; [|intro H; inversion H; subst; left; split; reflexivity].
    destruct (fs_get fs y) as [[c0 m0]|] eqn:GY; intro H; inversion H; subst; [|left; split; reflexivity].
    unfold target. destruct (resolve lk' p) as [q|]; [|left; split; reflexivity].
    destruct (Nat.eq_dec q y) as [->|N].
    + right. right. exists c0, t. split; [reflexivity | apply fs_get_set_same].
    + left. split; [reflexivity | apply fs_get_set_other, N].
  - (* FRemove *)
    intro H. inversion H; subst. unfold target.
    destruct (resolve_del x lk p) as [R|R]; rewrite R.
    + destruct (resolve lk p) as [q|]; [|left; split; reflexivity].
      rewrite fs_get_del. destruct (Nat.eqb_spec q x); [right; left; reflexivity | left; split; reflexivity].
    + right. left. rewrite fs_get_del, Nat.eqb_refl. reflexivity.
Qed.

(* any number of foreign operations whose stamps are later than ts: the name p is absent afterwards, or denotes
   a file stamped later than ts, or denotes the very file (same resolution, same content and stamp) as before *)
Definition untouched_or_newer (ts : Z) (lk0 : links) (fs0 : fsys) (p : nat) (w : links * fsys) : Prop :=
  target (fst w) (snd w) p = None \/
  (exists c m, target (fst w) (snd w) p = Some (c, m) /\ (m > ts)%Z) \/
  (resolve (fst w) p = resolve lk0 p /\ target (fst w) (snd w) p = target lk0 fs0 p).

Lemma foreign_trichotomy ts lk0 fs0 p : forall ops w,
  Forall (later_than ts) ops -> untouched_or_newer ts lk0 fs0 p w ->
  untouched_or_newer ts lk0 fs0 p (foreign_run w ops).
Proof.
  induction ops as [|o ops IH]; intros w F I; [exact I|].
  inversion F as [|o' ops' L F']; subst. cbn [foreign_run fold_left]. apply IH; [exact F'|].
  destruct w as [lk fs]. destruct (foreign (lk, fs) o) as [lk' fs'] eqn:E.
  destruct (target_foreign lk fs o p lk' fs' E) as [[R T]|[T|[c [t [S T]]]]]; unfold untouched_or_newer in *; cbn [fst snd] in *.
  - rewrite R, T. exact I.
  - left. exact T.
  - right. left. exists c, t. split; [exact T|]. unfold later_than in L. rewrite S in L. exact L.
Qed.

(* The session clause.  The buffer is in step with the directory (lk, fs): its recorded stamp is mtime() of
   its own name, as ec_edit and a successful ec_write leave it.  Then other processes do anything (ops) with
   stamps in later seconds.  A write of the own name without `!` -- :w, :x, the write part of :wq / :xa --
   afterwards is refused with nothing consumed or changed, unless the name denotes no file now (nothing to
   clobber) or denotes exactly the file the editor read or wrote last. *)
Lemma guard_session now isx rng lk fs bf ops lk' fs' sch :
  b_mtime bf = mtime_of lk fs (b_path bf) ->
  Forall (later_than (b_mtime bf)) ops ->
  foreign_run (lk, fs) ops = (lk', fs') ->
  skips isx bf = false ->
  ec_write_l now isx false rng lk' (b_path bf) bf fs' sch = (SRefused, bf, fs', sch) \/
  target lk' fs' (b_path bf) = None \/
  (resolve lk' (b_path bf) = resolve lk (b_path bf) /\ target lk' fs' (b_path bf) = target lk fs (b_path bf)).
Proof.
  intros SY F RUN SK.
  assert (I : untouched_or_newer (b_mtime bf) lk fs (b_path bf) (foreign_run (lk, fs) ops)).
  { apply foreign_trichotomy; [exact F|]. right. right. split; reflexivity. }
  rewrite RUN in I. unfold untouched_or_newer in I. cbn [fst snd] in I.
  destruct I as [I|[[c [m [T M]]]|I]]; [right; left; exact I | | right; right; exact I].
  left. unfold ec_write_l. fold (skips isx bf). rewrite SK.
  destruct (match rng with Some r => r | None => (0, length (b_lines bf)) end) as [b e].
  rewrite Nat.eqb_refl. unfold lbuf_save_l. unfold target in T.
  destruct (resolve lk' (b_path bf)) as [q|]; [|discriminate].
  rewrite lbuf_save_refused; [reflexivity|]. unfold fs_mtime. rewrite T. unfold refuses. cbn [negb andb].
  destruct (Z.gtb_spec m (b_mtime bf)); [reflexivity | lia].
Qed.

(* the case of a name that denoted no file when the buffer was loaded: whatever exists there now is refused *)
Lemma guard_session_absent now isx rng lk fs p ops lk' fs' sch text c m :
  target lk fs p = None ->
  Forall (later_than (-1)) ops ->
  foreign_run (lk, fs) ops = (lk', fs') ->
  target lk' fs' p = Some (c, m) ->
  let bf := {| b_lines := text; b_path := p; b_mtime := b_mtime (ec_edit_l lk fs p); b_dirty := true |} in
  ec_write_l now isx false rng lk' p bf fs' sch = (SRefused, bf, fs', sch).
Proof.
  intros A F RUN T bf.
  assert (M : b_mtime bf = (-1)%Z) by (unfold bf; cbn [b_mtime]; exact (proj1 (proj2 (proj2 (edit_records lk fs p)) A))).
  assert (SY : b_mtime bf = mtime_of lk fs (b_path bf)) by (rewrite M; unfold mtime_of; cbn [b_path bf]; rewrite A; reflexivity).
  assert (SK : skips isx bf = false) by (unfold skips, bf; cbn [b_dirty negb]; apply andb_false_r).
  assert (F' : Forall (later_than (b_mtime bf)) ops) by (rewrite M; exact F).
  destruct (guard_session now isx rng lk fs bf ops lk' fs' sch SY F' RUN SK) as [G|[G|[_ G]]].
  - exact G.
  - change (b_path bf) with p in G. congruence.
  - change (b_path bf) with p in G. congruence.
Qed.
