(* ShapeDefs.v -- model of the Arabic letter shaping of uc.c (C18): find_achar, can_join, uc_cshape,
   uc_shape, over the GENERATED tables achars, r2l_ranges (truth table of the UC_R2L macro) and
   acomb_ranges (truth table of uc_acomb).  Only definitions here. *)
From Coq Require Import List NArith ZArith Bool Arith.
From NV Require Import Bytes UcDefs GenUcTables RenDefs.
Import ListNotations.
Local Open Scope Z_scope.

Definition arow := (Z * (Z * Z * Z * Z))%type.        (* c, (single, initial, medial, final) *)
Definition a_c (r : arow) : Z := fst r.
Definition a_s (r : arow) : Z := let '(_, (s, _, _, _)) := r in s.
Definition a_i (r : arow) : Z := let '(_, (_, i, _, _)) := r in i.
Definition a_m (r : arow) : Z := let '(_, (_, _, m, _)) := r in m.
Definition a_f (r : arow) : Z := let '(_, (_, _, _, f)) := r in f.
Definition arow0 : arow := (0, (0, 0, 0, 0)).

(* uc.c: find_achar: bisection on the half-open interval [l, h); None = out of fuel *)
Fixpoint fa_bis (fuel : nat) (tab : list arow) (c l h : Z) : option (option arow) :=
  match fuel with
  | O => None
  | S f =>
    if l <? h then
      let m := Z.shiftr (h + l) 1 in
      let r := nth (Z.to_nat m) tab arow0 in
      if a_c r =? c then Some (Some r)
      else if c <? a_c r then fa_bis f tab c l m else fa_bis f tab c (m + 1) h
    else Some None
  end.
Definition find_achar_o (c : Z) : option (option arow) :=
  fa_bis (S (length achars)) achars c 0 (Z.of_nat (length achars)).
Definition find_achar (c : Z) : option arow :=
  match find_achar_o c with Some r => r | None => None end.

(* the spec of the lookup: first row whose letter is c *)
Definition lookup_achar (c : Z) : option arow := List.find (fun r => a_c r =? c) achars.

Definition nz (x : Z) : bool := negb (x =? 0).

Definition can_join (c1 c2 : Z) : bool :=
  match find_achar c1, find_achar c2 with
  | Some a1, Some a2 => (nz (a_i a1) || nz (a_m a1)) && (nz (a_f a2) || nz (a_m a2))
  | _, _ => false
  end.

Definition uc_cshape (cur prev next : Z) : Z :=
  match find_achar cur with
  | None => cur
  | Some ac =>
    let jp := can_join prev cur in
    let jn := can_join cur next in
    let c := cur in
    let c := if jp && jn then a_m ac else c in
    let c := if jp && negb jn then a_f ac else c in
    let c := if negb jp && jn then a_i ac else c in
    let c := if negb jp && negb jn then a_c ac else c in
    if nz c then c else cur
  end.

Definition uc_r2l (c : Z) : bool := mem r2l_ranges c.

(* nearest non-diacritic character before byte offset off of s (0 if none); None = out of fuel *)
Fixpoint shape_prev (fuel : nat) (s : bytes) (off : nat) : option Z :=
  match fuel with
  | O => None
  | S f =>
    if (off =? 0)%nat then Some 0
    else let off' := (off - uc_prev (rev (firstn off s)))%nat in
         let c := Z.of_N (uc_code (skipn off' s)) in
         if negb (uc_acomb c) then Some c else shape_prev f s off'
  end.

(* nearest non-diacritic character after the one at the head of suf (0 at the end of the line) *)
Fixpoint shape_next (fuel : nat) (suf : bytes) : option Z :=
  match fuel with
  | O => None
  | S f =>
    match suf with
    | [] => Some 0
    | _ => let r := skipn (uc_next suf) suf in
           let c := Z.of_N (uc_code r) in
           if negb (uc_acomb c) then Some c else shape_next f r
    end
  end.

Inductive shaperes := ShNone | ShFuel | ShOut (b : bytes).

(* uc.c: uc_shape(beg, s) with s = beg + off *)
Definition uc_shape (ln : bytes) (off : nat) : shaperes :=
  let suf := skipn off ln in
  let curr := Z.of_N (uc_code suf) in
  if (curr =? 0) || negb (uc_r2l curr) then ShNone
  else match shape_prev (S off) ln off, shape_next (S (length suf)) suf with
       | Some p, Some n => ShOut (uc_cput (Z.to_N (uc_cshape curr p n)))
       | _, _ => ShFuel
       end.

(* ren.c: ren_translate(s, ln) *)
Definition ren_translate (ln : bytes) (off : nat) (xshape : bool) : shaperes :=
  match fst (ren_placeholder (skipn off ln)) with
  | Some d => ShOut d
  | None => if xshape then uc_shape ln off else ShNone
  end.
