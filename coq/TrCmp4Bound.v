(* TrCmp4Bound.v -- C04, composition (part 5): lbuf_undo and lbuf_redo on the translated C text with the translated lbuf_replace linked
   in, for groups of ANY size, with side conditions on the memory the call STARTS from only.
   `bnd B K m blk hblk lb`: every mark row of the struct is an int <= B, the line count is <= B, every mark row saved in a log record
   is <= B, the capacity cell is <= max K (2 B).  One iteration (splice + lbuf_loadpos + lbuf_loadmark: TrCmp4Marks.v) takes
   `bnd B` to `bnd (B + n_ins)`; so if B plus the lines the group inserts stays inside int (undo_sizes / redo_sizes, conditions on the
   MODEL: 2 (B + n_ins) <= INT_MAX at every record, texts shorter than 2 GB, fuel), the side conditions of every splice hold:
   tr_lbuf_undo_bounded / tr_lbuf_redo_bounded. *)
From Coq Require Import List ZArith NArith Bool Lia.
From NV Require Import Bytes GenConsts CLite CLiteProps GenCFuncs CLiteTac CLiteExt TrLbufBase UndoDefs TrUndoBase TrUndo.
From NV Require Import TrLbufMarks TrSplice TrSpliceMarks TrSpliceAll TrSpliceModels TrCmp4Str TrCmp4Rep TrCmp4 TrCmp4Loop TrCmp4Edit TrCmp4Marks.
From NV Require IoDefs IoProps TrLbuf.
Import ListNotations.
Local Open Scope Z_scope.

(* ------------------------------------------------------------------ the rows after the splice *)
Lemma shift_row_le nul p nd ni r B : 0 <= p -> 0 <= nd -> 0 <= ni -> i32 r -> r <= B -> p <= B -> row_fits p nd ni r ->
  i32 (shift_row nul p nd ni r) /\ shift_row nul p nd ni r <= B + ni.
Proof.
  intros Hp Hnd Hni Ir Br Bp (_ & Hf). unfold shift_row.
  destruct (Z.leb_spec p r); destruct (Z.ltb_spec r (p + nd)); destruct (Z.leb_spec (p + nd) r); destruct (Z.leb_spec (p + ni) r);
    destruct nul; cbn [andb]; try (specialize (Hf ltac:(lia))); unfold i32 in *; lia.
Qed.
Lemma splice_rows_le (blk blk2 : block) nul p nd ni B : rows_le B blk -> Z.of_nat p <= B -> Z.of_nat p + Z.of_nat ni <= 2147483647 ->
  (forall k, (k < 32)%nat -> exists z, nth_error blk k = Some (VInt z) /\ row_fits (Z.of_nat p) (Z.of_nat nd) (Z.of_nat ni) z) ->
  (forall k, (k < 32)%nat -> nth_error blk2 k = Some (VInt (nth k (splice_marks nul p nd ni (marks_of blk)) 0))) ->
  rows_le (B + Z.of_nat ni) blk2.
Proof.
  intros HB Bp Hpn Hfit Hk2 k Hk. eexists. split; [apply Hk2; exact Hk|].
  unfold splice_marks.
  rewrite (nth_upd _ 29 k) by (rewrite upd_length; rewrite ?map_length, ?marks_of_len; lia).
  destruct (Nat.eqb_spec k 29) as [->|N29].
  { unfold last_row, i32. destruct (Nat.eqb_spec ni 0); lia. }
  rewrite (nth_upd _ 28 k) by (rewrite map_length, marks_of_len; lia).
  destruct (Nat.eqb_spec k 28) as [->|N28].
  { unfold i32. lia. }
  set (f := shift_row nul (Z.of_nat p) (Z.of_nat nd) (Z.of_nat ni)).
  rewrite (nth_indep (map f (marks_of blk)) 0 (f 0)) by (rewrite map_length, marks_of_len; lia). rewrite map_nth.
  destruct (HB k Hk) as (z & Hz & Iz & Bz). destruct (Hfit k Hk) as (z' & Hz' & Hr). rewrite Hz in Hz'. injection Hz' as <-.
  rewrite (marks_of_nth blk k z Hk Hz). apply shift_row_le; try assumption; lia.
Qed.
Lemma rows_fit (blk : block) B p nd ni : rows_le B blk -> B + Z.of_nat ni <= 2147483647 ->
  forall k, (k < 32)%nat -> exists z, nth_error blk k = Some (VInt z) /\ row_fits (Z.of_nat p) (Z.of_nat nd) (Z.of_nat ni) z.
Proof.
  intros HB Hn k Hk. destruct (HB k Hk) as (z & Hz & Iz & Bz). exists z. split; [exact Hz|]. split; [exact Iz|]. intro X. unfold i32 in *. lia.
Qed.

(* ------------------------------------------------------------------ the bound *)
Definition bnd (B K : Z) (m : mem) (blk hblk : block) (lb : lbuf) : Prop :=
  rows_le B blk /\ Z.of_nat (length (ln lb)) <= B /\ (forall i, (i < length (hist lb))%nat -> saved_le B m hblk i) /\
  (forall cap, nth_error blk L_ln_sz = Some (VInt (Z.of_nat cap)) -> Z.of_nat cap <= Z.max K (2 * B)).

Lemma saved_le_mono B B' m hblk i : B <= B' -> saved_le B m hblk i -> saved_le B' m hblk i.
Proof. intros HB H bm mb j z H7 Hm Hz. pose proof (H bm mb j z H7 Hm Hz). lia. Qed.
Lemma mark_arr_in_log hblk i n bm : (i < n)%nat -> hc hblk (9 * i + 7) = VPtr bm 0 -> In bm (log_blocks hblk 0 n).
Proof.
  intros Hi H7. apply (in_log_blocks hblk i n bm Hi). rewrite ent_blocks_eq. apply in_or_app. right. apply in_or_app. right.
  apply in_or_app. left. rewrite H7. left. reflexivity.
Qed.
Lemma Tc_cap m (blk : block) fp t cap : length blk = LBUF_CELLS -> Tc m (tcells blk) fp t -> nth_error blk L_ln_sz = Some (VInt (Z.of_nat cap)) -> (0 < cap)%nat.
Proof.
  intros L (bln & bgl & lbs & lnblk & glblk & cap0 & globs & Ecs & _ & _ & _ & _ & _ & _ & _ & _ & _ & _ & _ & _ & Hc0) Hc.
  unfold tcells in Ecs. injection Ecs as _ _ _ E67. unfold L_ln_sz in Hc. rewrite (hc_of_cell _ _ _ Hc) in E67. injection E67 as E. lia.
Qed.
Lemma Tc_cap_ex m (blk : block) fp t : length blk = LBUF_CELLS -> Tc m (tcells blk) fp t -> exists cap, nth_error blk L_ln_sz = Some (VInt (Z.of_nat cap)) /\ (0 < cap)%nat.
Proof.
  intros L (bln & bgl & lbs & lnblk & glblk & cap0 & globs & Ecs & _ & _ & _ & _ & _ & _ & _ & _ & _ & _ & _ & _ & Hc0).
  unfold tcells in Ecs. injection Ecs as _ _ _ E67. exists cap0. split; [apply (cell_of_hc blk 67 _ L ltac:(lia) E67)|exact Hc0].
Qed.

(* what one splice of the group needs of the model, given the bound *)
Definition size_ok (fuelR : nat) (B : Z) (s : option (list N)) : Prop :=
  2 * (B + Z.of_nat (linecount s)) <= 2147483647 /\ B + Z.of_nat (linecount s) + 34 <= Z.of_nat fuelR /\
  (forall t, s = Some t -> Z.of_nat (length t) + 2 <= 2147483647).

Lemma step_ok_of_bnd fuelR bl B K (m : mem) (blk hblk : block) lb (lb0 : lbuf) fp s p nd : nth_error m bl = Some blk -> length blk = LBUF_CELLS ->
  Tc m (tcells blk) fp (ln lb) -> bnd B K m blk hblk lb0 -> length (ln lb0) = length (ln lb) -> K <= 2147483647 -> 0 <= B -> (nd <= length (ln lb))%nat -> size_ok fuelR B s ->
  step_ok fuelR bl m (length (ln lb)) s p nd.
Proof.
  intros Hb L HT (HR & Hn & _ & Hc) El HK HB0 Hnd (S1 & S2 & S3). rewrite El in Hn.
  destruct (Tc_cap_ex m blk fp (ln lb) L HT) as (cap & Ccap & Hcap0).
  set (need := Z.of_nat (length (ln lb)) + Z.of_nat (linecount s) - Z.of_nat nd).
  destruct (IoProps.grow_total need (Z.of_nat cap) ltac:(lia)) as (cap' & G & G1 & G2).
  split; [|split; [exact S3|]].
  - exists blk, cap'. split; [exact Hb|]. split; [apply (rows_fit blk B); [exact HR|lia]|]. split; [exists cap; split; [exact Ccap|exact G]|].
    assert (Hp : 0 < Z.of_nat cap) by lia. pose proof (grow_le _ _ _ _ Hp G). pose proof (Hc cap Ccap). unfold need in *. lia.
  - unfold splice_fuel. lia.
Qed.

Section Bounded.
  Variable ext : nat -> list val -> mem -> res (val * mem).
  Variables (fuelR dR : nat).
  Hypothesis Hext : ext_is_replace ext fuelR dR.
  Variables (bl bh : nat) (hblk : block).
  Variables (d fuel : nat).
  Variable K : Z.
  Hypothesis HK : K <= 2147483647.
  Let cx := callx ext cprog fuel (S (S (S d))).

  (* the state after the splice of a step: the bound with B + n_ins *)
  Lemma bnd_after_replace (m1 m2 : mem) (blk1 blk2 : block) lb1 fp s p nd cap' B : urep Tc m1 bl blk1 bh hblk lb1 -> 0 <= B ->
    bnd B K m1 blk1 hblk lb1 -> (forall b, In b fp -> ~ In b (owned bl bh hblk (length (hist lb1)))) ->
    splice_ok lb1 s p nd -> fits blk1 (length (ln lb1)) s p nd cap' -> 2 * (B + Z.of_nat (linecount s)) <= 2147483647 ->
    (forall c, (c < length m1)%nat -> c <> bl -> ~ In c fp -> nth_error m2 c = nth_error m1 c) ->
    nth_error blk2 L_ln_sz = Some (VInt cap') ->
    (forall k, (k < 32)%nat -> nth_error blk2 k = Some (VInt (nth k (splice_marks (is_null s) p nd (linecount s) (marks_of blk1)) 0))) ->
    bnd (B + Z.of_nat (linecount s)) K m2 blk2 hblk (lbuf_replace lb1 s p nd).
  Proof.
    intros R HB0 (HR & Hn & HS & Hc) Hfp (Hpos & Hsz) (Hmk & (cap & Ccap & Hgrow) & Hcap') H2 Fr Ccap2 Hk2.
    pose proof (u_own _ _ _ _ _ _ _ R) as Ho.
    split; [|split; [|split]].
    - apply (splice_rows_le blk1 blk2 (is_null s) p nd (linecount s) B HR); try assumption; try (unfold i31 in *; lia).
    - cbn [lbuf_replace set_ln ln]. unfold replace. rewrite !app_length, firstn_length, skipn_length. unfold linecount in *. lia.
    - cbn [lbuf_replace set_ln hist]. intros i Hi. apply (saved_le_mono B); [lia|].
      apply (saved_le_keep B m1); [apply HS; exact Hi|]. intros bm H7.
      assert (Hin : In bm (log_blocks hblk 0 (length (hist lb1)))) by (apply (mark_arr_in_log hblk i _ bm Hi H7)).
      apply Fr.
      + apply (owned_live Tc m1 bl blk1 bh hblk lb1 bm R). right. right. exact Hin.
      + intro X. subst bm. inversion Ho as [|? ? Hn0 _]. apply Hn0. right. exact Hin.
      + intro X. apply (Hfp bm X). right. right. exact Hin.
    - intros c2 Hc2. rewrite Ccap2 in Hc2. injection Hc2 as Hc2.
      assert (Hp : 0 < Z.of_nat cap).
      { destruct (u_tab _ _ _ _ _ _ _ R) as (fp0 & HT0 & _). pose proof (Tc_cap m1 blk1 fp0 (ln lb1) cap (u_len _ _ _ _ _ _ _ R) HT0 Ccap). lia. }
      pose proof (grow_le _ _ _ _ Hp Hgrow). pose proof (Hc cap Ccap). unfold i31 in Hsz. lia.
  Qed.

  (* ---------------------------------------------------------------- one iteration of lbuf_undo with the bound *)
  Lemma undo_step_bnd (m : mem) (blk : block) lb (q : Z) (l2 l3 : val) fuel' B : urep Tc m bl blk bh hblk lb -> (0 < hist_u lb)%nat -> (32 < fuel')%nat ->
    let u := (hist_u lb - 1)%nat in let lo := nth u (hist lb) dflt in
    0 <= B -> bnd B K m blk hblk lb -> splice_ok (set_hu lb u) (del lo) (pos lo) (n_ins lo) -> size_ok fuelR B (del lo) ->
    exists (m3 : mem) (blk3 : block), exec cx fuel' undo_body (mkst [VPtr bl 0; VInt q; l2; l3] m)
                      = ONormal (mkst [VPtr bl 0; VInt q; VInt 32; VPtr bh (Z.of_nat (9 * u))] m3) /\
                    urep Tc m3 bl blk3 bh hblk (undo1 lb) /\ bnd (B + Z.of_nat (linecount (del lo))) K m3 blk3 hblk (undo1 lb).
  Proof.
    intros R Hu Hf u lo HB0 HBnd Hsp Hsize.
    pose proof (undo_step ext Tc Tc_frame bl bh hblk d fuel m blk lb q l2 l3 fuel' R Hu Hf) as (R1 & _ & _). fold u lo in R1.
    pose proof (undo_step_b ext Tc Tc_frame bl bh hblk d fuel m blk lb q l2 l3 fuel' R Hu Hf) as Hstep. fold u lo in Hstep.
    set (blk1 := upd blk L_hist_u (VInt (Z.of_nat u))) in *. set (m1 := upd m bl blk1) in *.
    pose proof (u_len _ _ _ _ _ _ _ R) as L. pose proof (u_blk _ _ _ _ _ _ _ R) as Hb.
    assert (Hbl : (bl < length m)%nat) by (apply nth_error_Some; congruence).
    assert (Hui : (u < length (hist lb))%nat) by (pose proof (u_rng _ _ _ _ _ _ _ R); unfold u; lia).
    pose proof (u_ents _ _ _ _ _ _ _ R1 u Hui) as E1. cbn [set_hu hist] in E1. fold lo in E1.
    destruct (u_tab _ _ _ _ _ _ _ R1) as (fp & HT & Hfp). cbn [set_hu ln] in HT.
    (* the bound survives the store into hist_u *)
    assert (HB1 : bnd B K m1 blk1 hblk (set_hu lb u)).
    { destruct HBnd as (HR & Hn & HS & Hc). split; [|split; [exact Hn|split]].
      - unfold blk1. apply rows_le_upd_hi; [exact L|unfold L_hist_u; lia|exact HR].
      - cbn [set_hu hist]. intros i Hi. apply (saved_le_keep B m); [apply HS; exact Hi|]. intros bm H7. unfold m1. apply mem_upd_other; [exact Hbl|].
        intro X. subst bm. pose proof (u_own _ _ _ _ _ _ _ R) as Ho. inversion Ho as [|? ? Hn0 _]. apply Hn0. right. apply (mark_arr_in_log hblk i _ bl Hi H7).
      - intros c Hc1. apply Hc. unfold blk1 in Hc1. rewrite nth_error_upd_other in Hc1 by (first [rewrite L; unfold LBUF_CELLS, L_hist_u; lia | unfold L_ln_sz, L_hist_u; lia]). exact Hc1. }
    assert (Hstepok : step_ok fuelR bl m1 (length (ln lb)) (del lo) (pos lo) (n_ins lo)).
    { apply (step_ok_of_bnd fuelR bl B K m1 blk1 hblk lb (set_hu lb u) fp); try assumption.
      - apply (u_blk _ _ _ _ _ _ _ R1).
      - apply (u_len _ _ _ _ _ _ _ R1).
      - reflexivity.
      - destruct Hsp as (X & _). cbn [set_hu ln] in X. lia. }
    destruct Hstepok as ((blk0 & cap' & Hb0 & Hfit) & Hlen & HfR).
    rewrite (u_blk _ _ _ _ _ _ _ R1) in Hb0. injection Hb0 as <-.
    assert (Harg : text_arg m1 bl fp (hc hblk (9 * u + 1)) (del lo)).
    { apply (sown_text_arg Tc m1 bl blk1 bh hblk (set_hu lb u) fp _ _ R1 (fun b Hb' => proj1 (Hfp b Hb')) (er_del _ _ _ _ E1)); [|exact Hlen].
      cbn [set_hu hist]. apply (ptr_in_log hblk u _ 1%nat Hui). right. reflexivity. }
    destruct (replace_sim m1 bl blk1 bh hblk (set_hu lb u) fp _ (del lo) (pos lo) (n_ins lo) cap' dR fuelR R1 HT (fun b Hb' => proj1 (Hfp b Hb')) Harg Hsp Hfit HfR)
      as (m2 & blk2 & fp' & C & R2 & _ & _ & Lm2 & Fr2 & Ccap2 & Hk2).
    assert (Hx : ext X_lbuf_replace [VPtr bl 0; hc hblk (9 * u + 1); VInt (Z.of_nat (pos lo)); VInt (Z.of_nat (n_ins lo))] m1 = Ok (VUndef, m2))
      by (rewrite Hext; exact C).
    destruct Hsize as (S1 & S2 & S3).
    pose proof (bnd_after_replace m1 m2 blk1 blk2 (set_hu lb u) fp (del lo) (pos lo) (n_ins lo) cap' B R1 HB0 HB1 (fun b Hb' => proj1 (Hfp b Hb')) Hsp Hfit S1 Fr2 Ccap2 Hk2) as HB2.
    destruct (Hstep VUndef m2 blk2 _ Hx R2 Hui) as (m3 & blk3 & C3 & R3 & Fr3 & V3 & Hi3).
    exists m3, blk3. split; [exact C3|]. split; [exact R3|].
    destruct HB2 as (HR2 & Hn2 & HS2 & Hc2).
    split; [|split; [exact Hn2|split]].
    - apply V3; [exact HR2| |apply HS2; exact Hui].
      cbn [lbuf_replace set_ln set_hu hist]. fold lo. destruct Hsp as (X & _). cbn [set_hu ln] in X.
      destruct HB1 as (_ & Hn1 & _). cbn [set_hu ln] in Hn1. lia.
    - intros i Hi. apply (saved_le_keep _ m2); [apply HS2; exact Hi|]. intros bm H7. apply Fr3.
      intro X. subst bm. pose proof (u_own _ _ _ _ _ _ _ R2) as Ho. inversion Ho as [|? ? Hn0 _]. apply Hn0. right. apply (mark_arr_in_log hblk i _ bl Hi H7).
    - intros c Hc3. apply Hc2. rewrite <- (Hi3 L_ln_sz) by (unfold L_ln_sz; lia). exact Hc3.
  Qed.

  (* the sizes of the whole group, on the model *)
  Fixpoint undo_sizes (k : nat) (q : Z) (B : Z) (lb : lbuf) : Prop :=
    match k with
    | O => True
    | S f => if Nat.ltb 0 (hist_u lb) && Z.eqb (seq_at (hist lb) (hist_u lb - 1)) q
             then let lo := nth (hist_u lb - 1) (hist lb) dflt in
                  size_ok fuelR B (del lo) /\ undo_sizes f q (B + Z.of_nat (linecount (del lo))) (undo1 lb)
             else True
    end.

  (* the bound the group leaves *)
  Fixpoint undo_bound (k : nat) (q : Z) (B : Z) (lb : lbuf) : Z :=
    match k with
    | O => B
    | S f => if Nat.ltb 0 (hist_u lb) && Z.eqb (seq_at (hist lb) (hist_u lb - 1)) q
             then undo_bound f q (B + Z.of_nat (linecount (del (nth (hist_u lb - 1) (hist lb) dflt)))) (undo1 lb)
             else B
    end.

  Lemma undo_loop_bnd q : forall k (m : mem) (blk : block) lb (l2 l3 : val) fuel' B,
    urep Tc m bl blk bh hblk lb -> undo_fits k q lb -> 0 <= B -> bnd B K m blk hblk lb -> undo_sizes k q B lb -> (hist_u lb <= k)%nat -> (k + 33 < fuel')%nat ->
    exists (m' : mem) (blk' : block) (l2' l3' : val),
      exec cx fuel' undo_while (mkst [VPtr bl 0; VInt q; l2; l3] m) = ONormal (mkst [VPtr bl 0; VInt q; l2'; l3'] m') /\
      urep Tc m' bl blk' bh hblk (undo_loop k q lb) /\ bnd (undo_bound k q B lb) K m' blk' hblk (undo_loop k q lb).
  Proof.
    induction k as [|k IH]; intros m blk lb l2 l3 fuel' B R Hfit HB0 HBnd Hsz Hk Hf; (destruct fuel' as [|fuel']; [lia|]);
      pose proof R as [Hb L I Cn Rn Cq Ch Csz Cnn Cu Cz Cl Rg Hh Hl He Ho Ht]; destruct Rg as (Rq & (Ru & Rs) & Rz & Rsz);
      rewrite undo_while_eq, exec_while, <- undo_while_eq; set (W := undo_while); unfold undo_cond, undo_while; cbn [fn_body cf_lbuf_undo];
      xstep; xfld Hb Cu; rewrite wrap_I32_id by (unfold i31 in *; lia).
    - assert (hist_u lb = 0)%nat by lia. rewrite H. xstep. exists m, blk, l2, l3. split; [reflexivity|split; [exact R|exact HBnd]].
    - cbn [undo_loop undo_bound]. cbn [undo_fits] in Hfit. cbn [undo_sizes] in Hsz. destruct (hist_u lb) as [|u] eqn:Eu.
      + xstep. exists m, blk, l2, l3. split; [reflexivity|split; [exact R|exact HBnd]].
      + replace (Z.of_nat (S u) =? 0) with false by (symmetry; apply Z.eqb_neq; lia). xstep.
        xfld Hb Ch. xfld Hb Cu. rewrite ?Eu. rewrite wrap_I32_id by (unfold i31 in *; lia). rewrite chk_I32 by (unfold i31 in *; lia). xstep.
        replace (S u - 1)%nat with u in * by lia.
        assert (Hui : (u < length (hist lb))%nat) by lia.
        pose proof (He u Hui) as E. destruct E as [_ _ _ _ _ _ Es _ (_ & _ & _ & Rsq)].
        rewrite (hc_load m bh hblk (9 * u + 6) _ Hh) by (try rewrite Hl; lia). rewrite Es. xstep. rewrite (wrap_I32_id _ Rsq).
        change (Nat.ltb 0 (S u)) with true in *. cbn [andb] in *. unfold seq_at in *.
        destruct (Z.eqb_spec (seq (nth u (hist lb) dflt)) q) as [Eq|Nq]; xstep.
        2:{ exists m, blk, l2, l3. split; [reflexivity|split; [exact R|exact HBnd]]. }
        destruct Hfit as [Hsp Hfit]. destruct Hsz as [Hok Hsz].
        destruct (undo_step_bnd m blk lb q l2 l3 (S fuel') B R ltac:(lia) ltac:(lia) HB0 HBnd) as (m3 & blk3 & C3 & R3 & HB3);
          [rewrite Eu; replace (S u - 1)%nat with u by lia; exact Hsp|rewrite Eu; replace (S u - 1)%nat with u by lia; exact Hok|].
        rewrite Eu in C3, HB3. replace (S u - 1)%nat with u in C3, HB3 by lia.
        rewrite C3.
        assert (Hu1 : undo1 lb = lbuf_replace (set_hu lb u) (del (nth u (hist lb) dflt)) (pos (nth u (hist lb) dflt)) (n_ins (nth u (hist lb) dflt)))
          by (unfold undo1; rewrite Eu; replace (S u - 1)%nat with u by lia; reflexivity).
        assert (HB0' : 0 <= B + Z.of_nat (linecount (del (nth u (hist lb) dflt)))) by lia.
        destruct (IH m3 blk3 (undo1 lb) (VInt 32) (VPtr bh (Z.of_nat (9 * u))) fuel' _ R3 Hfit HB0' HB3 Hsz) as (m' & blk' & l2' & l3' & C' & R' & HB'); try lia.
        { rewrite Hu1. cbn [lbuf_replace set_ln set_hu hist_u]. lia. }
        subst W. rewrite C'.
        exists m', blk', l2', l3'. split; [reflexivity|split; [exact R'|exact HB']].
  Qed.

  Theorem tr_lbuf_undo_bounded_b (m : mem) (blk : block) lb B : urep Tc m bl blk bh hblk lb -> undo_ok lb -> 0 <= B -> bnd B K m blk hblk lb ->
    undo_sizes (hist_u lb) (seq_at (hist lb) (hist_u lb - 1)) B lb -> (hist_u lb + 33 < fuel)%nat ->
    match UndoDefs.lbuf_undo lb with
    | None => callx ext cprog fuel (S (S (S (S d)))) F_lbuf_undo [VPtr bl 0] m = Ok (VInt 1, m)
    | Some lb' => exists (m' : mem) (blk' : block),
                    callx ext cprog fuel (S (S (S (S d)))) F_lbuf_undo [VPtr bl 0] m = Ok (VInt 0, m') /\ urep Tc m' bl blk' bh hblk lb' /\
                    bnd (undo_bound (hist_u lb) (seq_at (hist lb) (hist_u lb - 1)) B lb) K m' blk' hblk lb'
    end.
  Proof.
    intros R Hok HB0 HBnd Hsz Hf. pose proof R as [Hb L I Cn Rn Cq Ch Csz Cnn Cu Cz Cl Rg Hh Hl He Ho Ht]. destruct Rg as (Rq & (Ru & Rs) & Rz & Rsz).
    unfold UndoDefs.lbuf_undo. destruct (hist_u lb) as [|u] eqn:Eu.
    - cbn [Nat.eqb]. rewrite callx_S. cbn [nth_error cprog F_lbuf_undo cf_lbuf_undo fn_nparams fn_nlocals fn_body length Nat.eqb Nat.sub repeat app].
      xstep. xfld Hb Cu. rewrite ?Eu. change (wrap I32 (Z.of_nat 0)) with 0. xstep. reflexivity.
    - cbn [Nat.eqb]. replace (S u - 1)%nat with u in * by lia.
      assert (Hui : (u < length (hist lb))%nat) by lia.
      pose proof (He u Hui) as E. destruct E as [_ _ _ _ _ _ Es _ (_ & _ & _ & Rsq)].
      unfold undo_ok in Hok. rewrite Eu in Hok. replace (S u - 1)%nat with u in * by lia.
      destruct (undo_loop_bnd (seq_at (hist lb) u) (S u) m blk lb VUndef VUndef fuel B R Hok HB0 HBnd Hsz ltac:(lia) ltac:(lia)) as (m' & blk' & l2' & l3' & C & R' & HB').
      exists m', blk'. split; [|split; [exact R'|exact HB']].
      rewrite callx_S. cbn [nth_error cprog F_lbuf_undo cf_lbuf_undo fn_nparams fn_nlocals fn_body length Nat.eqb Nat.sub repeat app].
      xstep. xfld Hb Cu. rewrite ?Eu. rewrite wrap_I32_id by (unfold i31 in *; lia).
      replace (Z.of_nat (S u) =? 0) with false by (symmetry; apply Z.eqb_neq; lia). cbn [negb]. xstep.
      xfld Hb Ch. xfld Hb Cu. rewrite ?Eu. rewrite wrap_I32_id by (unfold i31 in *; lia). rewrite chk_I32 by (unfold i31 in *; lia). xstep.
      replace (0 + 9 * (Z.of_nat (S u) - 1) + 1 * 6) with (Z.of_nat (9 * u + 6)) by lia.
      rewrite (hc_load m bh hblk (9 * u + 6) _ Hh) by (try rewrite Hl; lia). rewrite Es. xstep. rewrite (wrap_I32_id _ Rsq).
      unfold seq_at in C. fold cx.
      match goal with |- context [exec cx fuel (SWhile ?c ?b) ?st] => change (exec cx fuel (SWhile c b) st) with (exec cx fuel undo_while st) end.
      rewrite C. xstep. reflexivity.
  Qed.
  (* ---------------------------------------------------------------- lbuf_redo *)
  Lemma redo_step_bnd (m : mem) (blk : block) lb (q : Z) (l2 : val) fuel' B : urep Tc m bl blk bh hblk lb -> (hist_u lb < length (hist lb))%nat ->
    let u := hist_u lb in let lo := nth u (hist lb) dflt in
    0 <= B -> bnd B K m blk hblk lb -> splice_ok (set_hu lb (S u)) (ins lo) (pos lo) (n_del lo) -> size_ok fuelR B (ins lo) ->
    exists (m3 : mem) (blk3 : block), exec cx fuel' redo_body (mkst [VPtr bl 0; VInt q; l2] m)
                      = ONormal (mkst [VPtr bl 0; VInt q; VPtr bh (Z.of_nat (9 * u))] m3) /\
                    urep Tc m3 bl blk3 bh hblk (redo1 lb) /\ bnd (B + Z.of_nat (linecount (ins lo))) K m3 blk3 hblk (redo1 lb).
  Proof.
    intros R Hu u lo HB0 HBnd Hsp Hsize.
    pose proof (redo_step ext Tc Tc_frame bl bh hblk d fuel m blk lb q l2 fuel' R Hu) as (R1 & _ & _). fold u lo in R1.
    pose proof (redo_step_b ext Tc Tc_frame bl bh hblk d fuel m blk lb q l2 fuel' R Hu) as Hstep. fold u lo in Hstep.
    set (blk1 := upd blk L_hist_u (VInt (Z.of_nat (S u)))) in *. set (m1 := upd m bl blk1) in *.
    pose proof (u_len _ _ _ _ _ _ _ R) as L. pose proof (u_blk _ _ _ _ _ _ _ R) as Hb.
    assert (Hbl : (bl < length m)%nat) by (apply nth_error_Some; congruence).
    assert (Hui : (u < length (hist lb))%nat) by exact Hu.
    pose proof (u_ents _ _ _ _ _ _ _ R1 u Hui) as E1. cbn [set_hu hist] in E1. fold lo in E1.
    destruct (u_tab _ _ _ _ _ _ _ R1) as (fp & HT & Hfp). cbn [set_hu ln] in HT.
    assert (HB1 : bnd B K m1 blk1 hblk (set_hu lb (S u))).
    { destruct HBnd as (HR & Hn & HS & Hc). split; [|split; [exact Hn|split]].
      - unfold blk1. apply rows_le_upd_hi; [exact L|unfold L_hist_u; lia|exact HR].
      - cbn [set_hu hist]. intros i Hi. apply (saved_le_keep B m); [apply HS; exact Hi|]. intros bm H7. unfold m1. apply mem_upd_other; [exact Hbl|].
        intro X. subst bm. pose proof (u_own _ _ _ _ _ _ _ R) as Ho. inversion Ho as [|? ? Hn0 _]. apply Hn0. right. apply (mark_arr_in_log hblk i _ bl Hi H7).
      - intros c Hc1. apply Hc. unfold blk1 in Hc1. rewrite nth_error_upd_other in Hc1 by (first [rewrite L; unfold LBUF_CELLS, L_hist_u; lia | unfold L_ln_sz, L_hist_u; lia]). exact Hc1. }
    assert (Hstepok : step_ok fuelR bl m1 (length (ln lb)) (ins lo) (pos lo) (n_del lo)).
    { apply (step_ok_of_bnd fuelR bl B K m1 blk1 hblk lb (set_hu lb (S u)) fp); try assumption.
      - apply (u_blk _ _ _ _ _ _ _ R1).
      - apply (u_len _ _ _ _ _ _ _ R1).
      - reflexivity.
      - destruct Hsp as (X & _). cbn [set_hu ln] in X. lia. }
    destruct Hstepok as ((blk0 & cap' & Hb0 & Hfit) & Hlen & HfR).
    rewrite (u_blk _ _ _ _ _ _ _ R1) in Hb0. injection Hb0 as <-.
    assert (Harg : text_arg m1 bl fp (hc hblk (9 * u)) (ins lo)).
    { apply (sown_text_arg Tc m1 bl blk1 bh hblk (set_hu lb (S u)) fp _ _ R1 (fun b Hb' => proj1 (Hfp b Hb')) (er_ins _ _ _ _ E1)); [|exact Hlen].
      cbn [set_hu hist]. intros b Hb'. apply (ptr_in_log hblk u _ 0%nat Hui ltac:(left; reflexivity)). rewrite Nat.add_0_r. exact Hb'. }
    destruct (replace_sim m1 bl blk1 bh hblk (set_hu lb (S u)) fp _ (ins lo) (pos lo) (n_del lo) cap' dR fuelR R1 HT (fun b Hb' => proj1 (Hfp b Hb')) Harg Hsp Hfit HfR)
      as (m2 & blk2 & fp' & C & R2 & _ & _ & Lm2 & Fr2 & Ccap2 & Hk2).
    assert (Hx : ext X_lbuf_replace [VPtr bl 0; hc hblk (9 * u); VInt (Z.of_nat (pos lo)); VInt (Z.of_nat (n_del lo))] m1 = Ok (VUndef, m2))
      by (rewrite Hext; exact C).
    destruct Hsize as (S1 & S2 & S3).
    pose proof (bnd_after_replace m1 m2 blk1 blk2 (set_hu lb (S u)) fp (ins lo) (pos lo) (n_del lo) cap' B R1 HB0 HB1 (fun b Hb' => proj1 (Hfp b Hb')) Hsp Hfit S1 Fr2 Ccap2 Hk2) as HB2.
    destruct (Hstep VUndef m2 blk2 _ Hx R2 Hui) as (m3 & blk3 & C3 & R3 & Fr3 & V3 & Hi3).
    exists m3, blk3. split; [exact C3|]. split; [exact R3|].
    destruct HB2 as (HR2 & Hn2 & HS2 & Hc2).
    split; [|split; [exact Hn2|split]].
    - apply V3; [exact HR2|].
      cbn [lbuf_replace set_ln set_hu hist]. fold lo. destruct Hsp as (X & _). cbn [set_hu ln] in X.
      destruct HB1 as (_ & Hn1 & _). cbn [set_hu ln] in Hn1. lia.
    - intros i Hi. apply (saved_le_keep _ m2); [apply HS2; exact Hi|]. intros bm H7. apply Fr3.
      intro X. subst bm. pose proof (u_own _ _ _ _ _ _ _ R2) as Ho. inversion Ho as [|? ? Hn0 _]. apply Hn0. right. apply (mark_arr_in_log hblk i _ bl Hi H7).
    - intros c Hc3. apply Hc2. rewrite <- (Hi3 L_ln_sz) by (unfold L_ln_sz; lia). exact Hc3.
  Qed.

  Fixpoint redo_sizes (k : nat) (q : Z) (B : Z) (lb : lbuf) : Prop :=
    match k with
    | O => True
    | S f => if Nat.ltb (hist_u lb) (length (hist lb)) && Z.eqb (seq_at (hist lb) (hist_u lb)) q
             then let lo := nth (hist_u lb) (hist lb) dflt in
                  size_ok fuelR B (ins lo) /\ redo_sizes f q (B + Z.of_nat (linecount (ins lo))) (redo1 lb)
             else True
    end.

  Fixpoint redo_bound (k : nat) (q : Z) (B : Z) (lb : lbuf) : Z :=
    match k with
    | O => B
    | S f => if Nat.ltb (hist_u lb) (length (hist lb)) && Z.eqb (seq_at (hist lb) (hist_u lb)) q
             then redo_bound f q (B + Z.of_nat (linecount (ins (nth (hist_u lb) (hist lb) dflt)))) (redo1 lb)
             else B
    end.

  Lemma redo_loop_bnd q : forall k (m : mem) (blk : block) lb (l2 : val) fuel' B,
    urep Tc m bl blk bh hblk lb -> redo_fits k q lb -> 0 <= B -> bnd B K m blk hblk lb -> redo_sizes k q B lb ->
    (length (hist lb) - hist_u lb <= k)%nat -> (k < fuel')%nat ->
    exists (m' : mem) (blk' : block) (l2' : val),
      exec cx fuel' redo_while (mkst [VPtr bl 0; VInt q; l2] m) = ONormal (mkst [VPtr bl 0; VInt q; l2'] m') /\
      urep Tc m' bl blk' bh hblk (redo_loop k q lb) /\ bnd (redo_bound k q B lb) K m' blk' hblk (redo_loop k q lb).
  Proof.
    induction k as [|k IH]; intros m blk lb l2 fuel' B R Hfit HB0 HBnd Hsz Hk Hf; (destruct fuel' as [|fuel']; [lia|]);
      pose proof R as [Hb L I Cn Rn Cq Ch Csz Cnn Cu Cz Cl Rg Hh Hl He Ho Ht]; destruct Rg as (Rq & (Ru & Rs) & Rz & Rsz);
      rewrite redo_while_eq, exec_while, <- redo_while_eq; set (W := redo_while); unfold redo_cond, redo_while; cbn [fn_body cf_lbuf_redo];
      xstep; xfld Hb Cu; xfld Hb Cnn; rewrite !wrap_I32_id by (unfold i31 in *; lia).
    - destruct (Z.ltb_spec (Z.of_nat (hist_u lb)) (Z.of_nat (length (hist lb)))); [lia|]. xstep.
      exists m, blk, l2. split; [reflexivity|split; [exact R|exact HBnd]].
    - cbn [redo_loop redo_bound]. cbn [redo_fits] in Hfit. cbn [redo_sizes] in Hsz.
      destruct (Nat.ltb_spec (hist_u lb) (length (hist lb))) as [Hlt|Hge]; cbn [andb] in *.
      2:{ destruct (Z.ltb_spec (Z.of_nat (hist_u lb)) (Z.of_nat (length (hist lb)))); [lia|]. xstep.
          exists m, blk, l2. split; [reflexivity|split; [exact R|exact HBnd]]. }
      destruct (Z.ltb_spec (Z.of_nat (hist_u lb)) (Z.of_nat (length (hist lb)))); [|lia]. xstep.
      xfld Hb Ch. xfld Hb Cu. rewrite wrap_I32_id by (unfold i31 in *; lia). xstep.
      set (u := hist_u lb) in *.
      pose proof (He u Hlt) as E. destruct E as [_ _ _ _ _ _ Es _ (_ & _ & _ & Rsq)].
      replace (0 + 9 * Z.of_nat u + 1 * 6) with (Z.of_nat (9 * u + 6)) by lia.
      rewrite (hc_load m bh hblk (9 * u + 6) _ Hh) by (try rewrite Hl; lia). rewrite Es. xstep. rewrite (wrap_I32_id _ Rsq).
      unfold seq_at in *.
      destruct (Z.eqb_spec (seq (nth u (hist lb) dflt)) q) as [Eq|Nq]; xstep.
      2:{ exists m, blk, l2. split; [reflexivity|split; [exact R|exact HBnd]]. }
      destruct Hfit as [Hsp Hfit]. destruct Hsz as [Hok Hsz].
      destruct (redo_step_bnd m blk lb q l2 (S fuel') B R Hlt HB0 HBnd Hsp Hok) as (m3 & blk3 & C3 & R3 & HB3). fold u in C3, HB3.
      rewrite C3.
      assert (Hu1 : redo1 lb = lbuf_replace (set_hu lb (S u)) (ins (nth u (hist lb) dflt)) (pos (nth u (hist lb) dflt)) (n_del (nth u (hist lb) dflt)))
        by reflexivity.
      assert (HB0' : 0 <= B + Z.of_nat (linecount (ins (nth u (hist lb) dflt)))) by lia.
      destruct (IH m3 blk3 (redo1 lb) (VPtr bh (Z.of_nat (9 * u))) fuel' _ R3 Hfit HB0' HB3 Hsz) as (m' & blk' & l2' & C' & R' & HB'); try lia.
      { rewrite Hu1. cbn [lbuf_replace set_ln set_hu hist_u hist]. lia. }
      subst W. rewrite C'. exists m', blk', l2'. split; [reflexivity|split; [exact R'|exact HB']].
  Qed.

  Theorem tr_lbuf_redo_bounded_b (m : mem) (blk : block) lb B : urep Tc m bl blk bh hblk lb -> redo_ok lb -> 0 <= B -> bnd B K m blk hblk lb ->
    redo_sizes (length (hist lb) - hist_u lb) (seq_at (hist lb) (hist_u lb)) B lb -> (length (hist lb) - hist_u lb < fuel)%nat ->
    match UndoDefs.lbuf_redo lb with
    | None => callx ext cprog fuel (S (S (S (S d)))) F_lbuf_redo [VPtr bl 0] m = Ok (VInt 1, m)
    | Some lb' => exists (m' : mem) (blk' : block),
                    callx ext cprog fuel (S (S (S (S d)))) F_lbuf_redo [VPtr bl 0] m = Ok (VInt 0, m') /\ urep Tc m' bl blk' bh hblk lb' /\
                    bnd (redo_bound (length (hist lb) - hist_u lb) (seq_at (hist lb) (hist_u lb)) B lb) K m' blk' hblk lb'
    end.
  Proof.
    intros R Hok HB0 HBnd Hsz Hf. pose proof R as [Hb L I Cn Rn Cq Ch Csz Cnn Cu Cz Cl Rg Hh Hl He Ho Ht]. destruct Rg as (Rq & (Ru & Rs) & Rz & Rsz).
    unfold UndoDefs.lbuf_redo. destruct (Nat.eqb_spec (hist_u lb) (length (hist lb))) as [Eu|Nu].
    - rewrite callx_S. cbn [nth_error cprog F_lbuf_redo cf_lbuf_redo fn_nparams fn_nlocals fn_body length Nat.eqb Nat.sub repeat app].
      xstep. xfld Hb Cu. xfld Hb Cnn. rewrite !wrap_I32_id by (unfold i31 in *; lia). rewrite Eu, Z.eqb_refl. xstep. reflexivity.
    - assert (Hlt : (hist_u lb < length (hist lb))%nat) by lia.
      pose proof (He _ Hlt) as E. destruct E as [_ _ _ _ _ _ Es _ (_ & _ & _ & Rsq)].
      destruct (redo_loop_bnd (seq_at (hist lb) (hist_u lb)) (length (hist lb) - hist_u lb) m blk lb VUndef fuel B R Hok HB0 HBnd Hsz ltac:(lia) ltac:(lia)) as (m' & blk' & l2' & C & R' & HB').
      exists m', blk'. split; [|split; [exact R'|exact HB']].
      rewrite callx_S. cbn [nth_error cprog F_lbuf_redo cf_lbuf_redo fn_nparams fn_nlocals fn_body length Nat.eqb Nat.sub repeat app].
      xstep. xfld Hb Cu. xfld Hb Cnn. rewrite !wrap_I32_id by (unfold i31 in *; lia).
      destruct (Z.eqb_spec (Z.of_nat (hist_u lb)) (Z.of_nat (length (hist lb)))); [lia|]. xstep.
      xfld Hb Ch. xfld Hb Cu. rewrite wrap_I32_id by (unfold i31 in *; lia). xstep.
      replace (0 + 9 * Z.of_nat (hist_u lb) + 1 * 6) with (Z.of_nat (9 * hist_u lb + 6)) by lia.
      rewrite (hc_load m bh hblk (9 * hist_u lb + 6) _ Hh) by (try rewrite Hl; lia). rewrite Es. xstep. rewrite (wrap_I32_id _ Rsq).
      unfold seq_at in C. fold cx.
      match goal with |- context [exec cx fuel (SWhile ?c ?b) ?st] => change (exec cx fuel (SWhile c b) st) with (exec cx fuel redo_while st) end.
      rewrite C. xstep. reflexivity.
  Qed.
  (* the statements without the final bound *)
  Theorem tr_lbuf_undo_bounded (m : mem) (blk : block) lb B : urep Tc m bl blk bh hblk lb -> undo_ok lb -> 0 <= B -> bnd B K m blk hblk lb ->
    undo_sizes (hist_u lb) (seq_at (hist lb) (hist_u lb - 1)) B lb -> (hist_u lb + 33 < fuel)%nat ->
    match UndoDefs.lbuf_undo lb with
    | None => callx ext cprog fuel (S (S (S (S d)))) F_lbuf_undo [VPtr bl 0] m = Ok (VInt 1, m)
    | Some lb' => exists (m' : mem) (blk' : block),
                    callx ext cprog fuel (S (S (S (S d)))) F_lbuf_undo [VPtr bl 0] m = Ok (VInt 0, m') /\ urep Tc m' bl blk' bh hblk lb'
    end.
  Proof.
    intros R Hok HB0 HBnd Hsz Hf. pose proof (tr_lbuf_undo_bounded_b m blk lb B R Hok HB0 HBnd Hsz Hf) as U.
    destruct (UndoDefs.lbuf_undo lb); [|exact U]. destruct U as (m' & blk' & C & R' & _). exists m', blk'. split; assumption.
  Qed.
  Theorem tr_lbuf_redo_bounded (m : mem) (blk : block) lb B : urep Tc m bl blk bh hblk lb -> redo_ok lb -> 0 <= B -> bnd B K m blk hblk lb ->
    redo_sizes (length (hist lb) - hist_u lb) (seq_at (hist lb) (hist_u lb)) B lb -> (length (hist lb) - hist_u lb < fuel)%nat ->
    match UndoDefs.lbuf_redo lb with
    | None => callx ext cprog fuel (S (S (S (S d)))) F_lbuf_redo [VPtr bl 0] m = Ok (VInt 1, m)
    | Some lb' => exists (m' : mem) (blk' : block),
                    callx ext cprog fuel (S (S (S (S d)))) F_lbuf_redo [VPtr bl 0] m = Ok (VInt 0, m') /\ urep Tc m' bl blk' bh hblk lb'
    end.
  Proof.
    intros R Hok HB0 HBnd Hsz Hf. pose proof (tr_lbuf_redo_bounded_b m blk lb B R Hok HB0 HBnd Hsz Hf) as U.
    destruct (UndoDefs.lbuf_redo lb); [|exact U]. destruct U as (m' & blk' & C & R' & _). exists m', blk'. split; assumption.
  Qed.
End Bounded.
