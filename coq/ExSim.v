(* ExSim.v -- every ex command line of the model (ExDefs.v) is a sequence of line-buffer actions
   (lbuf_edit calls, lbuf_modified bumps, lbuf_undo, the saved-state update of w), proved ONCE for an
   arbitrary abstraction [Rel] that is preserved by these four primitives and does not read marks, ln_glob
   bits or identities.  Instantiated by ExUndo.v (UndoDefs: C04) and ExDirty.v (DirtyDefs: C02). *)
From Coq Require Import List NArith ZArith Bool Lia.
From NV Require Import Bytes ExDefs ExSpec ExProps.
Import ListNotations.
Local Open Scope Z_scope.

Inductive act := AEdit (t : option bytes) (b e : nat) | ABump | AUndo | ASave.
Definition is_edit (a : act) : bool := match a with AEdit _ _ _ => true | _ => false end.

(* what the undo log and the dirty test read of a line buffer; what the last w wrote *)
Definition lbcore (l : lbuf) := (map ltxt (lns l), hist l, hist_u l, useq l, useq_zero l, useq_last l).
Definition wcore (s : st) := (lbcore (lb s), written s).

(* A class of actions P (which of bump / undo / save a command line may perform besides edit calls) and the command
   lines that stay inside it -- a pure function of the bytes of the line:
   u needs P AUndo; w w! need P ASave (lbuf_saved bumps); ! needs P ABump (it asks lbuf_modified first when writeany is off);
   @ runs a register whose contents are not known statically and bumps: it needs everything *)
Definition all_ok (P : act -> bool) : bool := P ABump && P AUndo && P ASave.
Definition cmd_ok (P : act -> bool) (a : bytes) : bool :=
  (negb (is a [117]%N) || P AUndo) && (negb (is a [119]%N || is a [119; 33]%N) || P ASave) && (negb (is a [33]%N) || P ABump).

(* where ex_txt leaves the command line *)
Definition txt_rest (src abbr : bytes) : bytes :=
  match ((hd0 abbr =? 114) && (hd0 (tl abbr) =? 115))%N, src with
  | true, _ :: _ => snd (inline_block src [])
  | _, _ => src
  end.

Fixpoint line_ok (P : act -> bool) (fuel : nat) (ln : bytes) : bool :=
  match fuel with
  | O => true
  | S f =>
    match ln with
    | [] => true
    | _ =>
      let '(ln1, loc) := ex_loc ln in
      let '(ln2, cmd) := ex_cmd ln1 in
      let idx := ex_idx cmd in
      let abbr := match idx with Some a => a | None => str [117;110;107;110;111;119;110]%N end in
      let '(ln3, arg) := ex_arg ln2 abbr in
      let ln4 := txt_rest ln3 abbr in
      (match idx with
       | None => true
       | Some a => if (hd0 a =? 103)%N || (hd0 a =? 118)%N then line_ok P f (snd (re_read arg))
                   else if (hd0 a =? 64)%N then all_ok P else cmd_ok P a
       end) && line_ok P f ln4
    end
  end.

(* quiet: edit calls only (every command, also inside the command lists of g/v recursively, is one of a i c d k p pu r rs s y =
   ec q!, nameless or unknown; no u w ! @);  with_w: edit calls and bumps (w and ! allowed);  any: everything *)
Definition quiet_line : nat -> bytes -> bool := line_ok is_edit.
Definition is_edit_or_bump (a : act) : bool := match a with AUndo => false | _ => true end.
Definition nou_line : nat -> bytes -> bool := line_ok is_edit_or_bump.

(* ---------------------------------------------------------------------------------------- *)
(* what does not touch the core *)

Lemma lbcore_mark l m p : lbcore (lbuf_mark l m p) = lbcore l.
Proof. unfold lbuf_mark. destruct (markidx m); reflexivity. Qed.

Lemma map_ltxt_upd_line f : (forall x, ltxt (f x) = ltxt x) -> forall l k, map ltxt (upd_line k f l) = map ltxt l.
Proof.
  intros Hf. induction l as [|x l IH]; intro k; [destruct k; reflexivity|].
  destruct k; cbn [upd_line map]; [rewrite Hf; reflexivity | rewrite IH; reflexivity].
Qed.

Lemma lbcore_lns l L : map ltxt L = map ltxt (lns l) -> lbcore (with_lns l L) = lbcore l.
Proof. intro E. unfold lbcore, with_lns. cbn [lns hist hist_u useq useq_zero useq_last]. rewrite E. reflexivity. Qed.

Lemma lbcore_globset l pos dep : lbcore (lbuf_globset l pos dep) = lbcore l.
Proof. apply lbcore_lns. apply map_ltxt_upd_line. reflexivity. Qed.

Lemma lbcore_globget l pos dep : lbcore (fst (lbuf_globget l pos dep)) = lbcore l.
Proof.
  unfold lbuf_globget. destruct (nth_error (lns l) pos); [|reflexivity]. cbn [fst].
  apply lbcore_lns. apply map_ltxt_upd_line. reflexivity.
Qed.

Lemma lbcore_globset_range : forall n i dep l, lbcore (globset_range n i dep l) = lbcore l.
Proof. induction n; intros i dep l; [reflexivity|]. cbn [globset_range]. rewrite IHn. apply lbcore_globset. Qed.

Lemma lbcore_globclear : forall n i dep l, lbcore (globclear n i dep l) = lbcore l.
Proof. induction n; intros i dep l; [reflexivity|]. cbn [globclear]. rewrite IHn. apply lbcore_globget. Qed.

Lemma scan_l_ltxt : forall L i dep, map ltxt (snd (scan_l i dep L)) = map ltxt L.
Proof.
  induction L as [|x L IH]; intros i dep; [reflexivity|]. destruct i as [|i]; cbn [scan_l].
  - destruct (glob_marked dep x); [reflexivity|]. specialize (IH 0%nat dep). destruct (scan_l 0 dep L). cbn [snd map] in *. rewrite IH. reflexivity.
  - specialize (IH i dep). destruct (scan_l i dep L). cbn [snd map] in *. rewrite IH. reflexivity.
Qed.

Lemma lbcore_glob_scan i dep l : lbcore (snd (glob_scan i dep l)) = lbcore l.
Proof.
  unfold glob_scan. pose proof (scan_l_ltxt (lns l) i dep) as E. destruct (scan_l i dep (lns l)) as [j L2]. cbn [snd] in *.
  apply lbcore_lns. exact E.
Qed.

Lemma print_lines_wcore : forall l s, wcore (print_lines l s) = wcore s.
Proof. induction l; intro s; [reflexivity|]. cbn [print_lines]. rewrite IHl. reflexivity. Qed.

Section Addr.
Variable rvalid : bytes -> bool.
Variable rfind : bytes -> bytes -> bool -> option (nat * nat).

Lemma kwdset_if_wcore s p d : wcore (kwdset_if s p d) = wcore s.
Proof. destruct p as [[|c p]|]; reflexivity. Qed.

Lemma ex_search_wcore s pat : wcore (snd (ex_search rvalid rfind s pat)) = wcore s.
Proof.
  unfold ex_search. destruct (re_read pat) as [kw rest].
  destruct (kwddir _ =? 0); [apply kwdset_if_wcore|]. destruct (negb _); apply kwdset_if_wcore.
Qed.

Lemma ex_lineno_wcore s num : wcore (snd (ex_lineno rvalid rfind s num)) = wcore s.
Proof.
  unfold ex_lineno.
  assert (F : forall n rest s', wcore s' = wcore s ->
    wcore (snd (let '(n', rest') := offsets (S (length rest)) rest n in (n', rest', s'))) = wcore s).
  { intros n rest s' E. destruct (offsets _ rest n). exact E. }
  destruct num as [|c rest]; [apply F; reflexivity|].
  destruct (c =? 46)%N; [apply F; reflexivity|]. destruct (c =? 36)%N; [apply F; reflexivity|].
  destruct (c =? 39)%N; [destruct (lbuf_jump _ _); [apply F|]; reflexivity|].
  destruct (_ || _)%bool.
  - pose proof (ex_search_wcore s (c :: rest)) as E. destruct (ex_search rvalid rfind s (c :: rest)) as [[n rest'] s']. cbn [snd] in E.
    destruct (n <? 0); [exact E | apply F; exact E].
  - destruct (isdigit c); apply F; reflexivity.
Qed.

Lemma region_loop_wcore : forall fuel loc first b e s,
  wcore (snd (region_loop rvalid rfind fuel loc first b e s)) = wcore s.
Proof.
  induction fuel as [|f IH]; intros loc first b e s; [reflexivity|]. cbn [region_loop].
  destruct loc as [|c loc]; [reflexivity|].
  pose proof (ex_lineno_wcore s (c :: loc)) as E. destruct (ex_lineno rvalid rfind s (c :: loc)) as [[n rest] s1]. cbn [snd] in E.
  destruct (n + 1 <? 0); [exact E|]. destruct (skip_to_sep rest) as [|c2 rest']; [exact E|].
  rewrite IH. destruct (c2 =? 59)%N; exact E.
Qed.

Lemma ex_region_wcore loc s : wcore (snd (ex_region rvalid rfind loc s)) = wcore s.
Proof.
  unfold ex_region. destruct (bytes_eqb loc [37%N]); [reflexivity|]. destruct loc as [|c loc]; [reflexivity|].
  pose proof (region_loop_wcore (S (length (c :: loc))) (c :: loc) true 0 0 s) as E.
  destruct (region_loop _ _ _ _ _ _ _ s) as [[[bad b] e] s1]. cbn [snd] in E.
  destruct bad; [exact E|]. repeat match goal with |- context [if ?x then _ else _] => destruct x end; exact E.
Qed.
End Addr.

Lemma ex_txt_rest src a s : fst (fst (ex_txt src a s)) = txt_rest src a.
Proof.
  unfold ex_txt, txt_rest.
  destruct ((hd0 a =? 114)%N && (hd0 (tl a) =? 115)%N); destruct src;
    repeat match goal with
           | |- context [let '(_, _) := ?x in _] => destruct x
           | |- context [if ?c then _ else _] => destruct c
           end; reflexivity.
Qed.

Lemma ex_txt_wcore src a s : wcore (snd (ex_txt src a s)) = wcore s.
Proof.
  unfold ex_txt.
  destruct ((hd0 a =? 114)%N && (hd0 (tl a) =? 115)%N); destruct src;
    repeat match goal with
           | |- context [let '(_, _) := ?x in _] => destruct x
           | |- context [if ?c then _ else _] => destruct c
           end; reflexivity.
Qed.

(* ---------------------------------------------------------------------------------------- *)
Section Sim.
Variable T : Type.
Variable Rel : st -> T -> Prop.
Variable run1 : T -> act -> T.
Hypothesis Rel_same : forall s s' t, wcore s' = wcore s -> Rel s t -> Rel s' t.
Hypothesis Rel_edit : forall s t txt b e, Rel s t -> Rel (set_lb s (lbuf_edit txt b e (lb s))) (run1 t (AEdit txt b e)).
Hypothesis Rel_bump : forall s t, Rel s t -> Rel (set_lb s (fst (lbuf_modified (lb s)))) (run1 t ABump).
Hypothesis Rel_undo : forall s t, Rel s t -> Rel (set_lb s (fst (lbuf_undo (lb s)))) (run1 t AUndo).
Hypothesis Rel_save : forall s t, Rel s t ->
  Rel (set_lb (set_written s (lbuf_cp (lb s) 0 (length (lns (lb s))))) (lbuf_saved0 (lb s))) (run1 t ASave).

Definition run_acts (t : T) (l : list act) : T := fold_left run1 l t.

Section Class.
Variable P : act -> bool.
Hypothesis P_edit : forall t b e, P (AEdit t b e) = true.

Definition Step (s s' : st) : Prop :=
  forall t, Rel s t -> exists acts, Rel s' (run_acts t acts) /\ forallb P acts = true.

Lemma step_same s s' : wcore s' = wcore s -> Step s s'.
Proof. intros E t H. exists []. split; [apply (Rel_same s s' t E H) | reflexivity]. Qed.

Lemma step_refl s : Step s s.
Proof. apply step_same. reflexivity. Qed.

Lemma step_tr s s' s'' : Step s s' -> Step s' s'' -> Step s s''.
Proof.
  intros H1 H2 t H. destruct (H1 t H) as (a1 & R1 & Q1). destruct (H2 _ R1) as (a2 & R2 & Q2).
  exists (a1 ++ a2). unfold run_acts in *. rewrite fold_left_app. split; [exact R2|].
  rewrite forallb_app, Q1, Q2. reflexivity.
Qed.

Lemma step_edit s t b e : Step s (edit s t b e).
Proof. intros u H. exists [AEdit t (Z.to_nat b) (Z.to_nat e)]. split; [apply Rel_edit, H | cbn; rewrite P_edit; reflexivity]. Qed.

Lemma step_bump s : P ABump = true -> Step s (bump s).
Proof. intros PB u H. exists [ABump]. split; [apply Rel_bump, H | cbn; rewrite PB; reflexivity]. Qed.

Lemma all_ok_any : all_ok P = true -> forall a, P a = true.
Proof.
  unfold all_ok. intro H. apply andb_prop in H. destruct H as [H H3]. apply andb_prop in H. destruct H as [H1 H2].
  intros [t b e| | |]; auto.
Qed.

Section Cmds.
Variable rvalid : bytes -> bool.
Variable rfind : bytes -> bytes -> bool -> option (nat * nat).
Variable filter : bytes -> bytes -> option bytes.
Variable readfile : bytes -> option bytes.
Variable curpath : bytes.

Lemma step_region loc s bad b e s1 : ex_region rvalid rfind loc s = (bad, b, e, s1) -> Step s s1.
Proof. intro E. apply step_same. pose proof (ex_region_wcore rvalid rfind loc s) as W. rewrite E in W. exact W. Qed.

Ltac reg loc s :=
  let E := fresh "E" in
  destruct (ex_region rvalid rfind loc s) as [[[?bad ?b] ?e] ?s1] eqn:E;
  let R := fresh "R" in pose proof (step_region _ _ _ _ _ _ E) as R.

Ltac chain R := eapply step_tr; [exact R|].
Ltac same := apply step_same; reflexivity.

Lemma step_insert loc cmd txt s : Step s (fst (ec_insert rvalid rfind loc cmd txt s)).
Proof.
  unfold ec_insert. reg loc s. destruct (_ && _); [exact R|]. cbn [fst]. chain R.
  eapply step_tr; [apply step_edit|]. same.
Qed.

Lemma step_print loc cmd s : Step s (fst (ec_print rvalid rfind loc cmd s)).
Proof.
  unfold ec_print. destruct (_ && _); [apply step_refl|]. reg loc s. destruct (_ || _); [exact R|]. cbn [fst]. chain R.
  apply step_same. change (wcore (set_xrow ?x ?r)) with (wcore x). apply print_lines_wcore.
Qed.

Lemma step_null loc cmd s : Step s (fst (ec_null rvalid rfind loc cmd s)).
Proof. unfold ec_null. eapply step_tr; [|apply step_print]. same. Qed.

Lemma step_delete loc arg s : Step s (fst (ec_delete rvalid rfind loc arg s)).
Proof.
  unfold ec_delete. reg loc s. destruct (_ || _); [exact R|]. cbn [fst]. chain R.
  eapply step_tr; [apply (step_same s1 (ex_yank s1 (REG arg) b e)); reflexivity|].
  eapply step_tr; [apply step_edit|]. same.
Qed.

Lemma step_yank loc arg s : Step s (fst (ec_yank rvalid rfind loc arg s)).
Proof. unfold ec_yank. reg loc s. destruct (_ || _); [exact R|]. cbn [fst]. chain R. same. Qed.

Lemma step_put loc arg s : Step s (fst (ec_put rvalid rfind loc arg s)).
Proof.
  unfold ec_put. destruct (reg_special _); [same|]. destruct (reg_get s _); [|apply step_refl].
  reg loc s. destruct (_ && _); [exact R|]. cbn [fst]. chain R. eapply step_tr; [apply step_edit|]. same.
Qed.

Lemma step_lnum loc s : Step s (fst (ec_lnum rvalid rfind loc s)).
Proof. unfold ec_lnum. reg loc s. destruct (_ || _); [exact R|]. cbn [fst]. chain R. same. Qed.

Lemma step_mark loc arg s : Step s (fst (ec_mark rvalid rfind loc arg s)).
Proof.
  unfold ec_mark. reg loc s. destruct (_ || _); [exact R|]. cbn [fst]. chain R.
  apply step_same. unfold wcore. cbn [lb set_lb written]. rewrite lbcore_mark. reflexivity.
Qed.

Lemma step_read loc arg s : Step s (fst (ec_read rvalid rfind readfile curpath loc arg s)).
Proof.
  unfold ec_read. destruct (_ || _); [same|]. reg loc s. destruct (_ && _); [exact R|].
  destruct (readfile _); [|cbn [fst]; chain R; same]. cbn [fst]. chain R. eapply step_tr; [apply step_edit|]. same.
Qed.

Lemma step_undo s : P AUndo = true -> Step s (fst (ec_undo s)).
Proof.
  intro PU. unfold ec_undo. intros t H. exists [AUndo]. split; [|cbn; rewrite PU; reflexivity].
  pose proof (Rel_undo s t H) as U. destruct (lbuf_undo (lb s)) as [l r]. exact U.
Qed.

Lemma step_write loc arg s : P ASave = true -> Step s (fst (ec_write rvalid rfind loc arg s)).
Proof.
  intro PS. unfold ec_write. destruct loc; [|same]. destruct arg; [|same]. reg (@nil N) s. destruct bad; [exact R|]. cbn [fst]. chain R.
  intros t H. exists [ASave]. split; [|cbn; rewrite PS; reflexivity].
  refine (Rel_same _ _ _ _ (Rel_save s1 t H)). reflexivity.
Qed.

Lemma step_exec loc arg s : P ABump = true -> Step s (fst (ec_exec rvalid rfind filter loc arg s)).
Proof.
  intro PB. unfold ec_exec.
  assert (H0 : Step s (fst (if xwa s then (s, false) else bufs_modified s))).
  { destruct (xwa s); [apply step_refl|]. unfold bufs_modified.
    pose proof (step_bump s PB) as B. unfold bump in B. destruct (lbuf_modified (lb s)) as [l m]. cbn [fst] in B.
    destruct m; cbn [fst]; [eapply step_tr; [exact B|]; same | exact B]. }
  destruct (if xwa s then (s, false) else bufs_modified s) as [s0 m]. cbn [fst] in H0.
  destruct m; [exact H0|]. destruct (negb _); [cbn [fst]; chain H0; same|]. destruct loc as [|c loc]; [cbn [fst]; chain H0; same|].
  reg (c :: loc) s0. destruct (_ || _); [cbn [fst]; chain H0; exact R|]. destruct (filter _ _); cbn [fst]; chain H0; [|exact R].
  chain R. apply step_edit.
Qed.

Lemma step_subst_rows : forall n i pat rep g s, Step s (subst_rows rfind n i pat rep g s).
Proof.
  induction n as [|n IH]; intros i pat rep g s; [apply step_refl|]. cbn [subst_rows].
  eapply step_tr; [|apply IH].
  destruct (line_at s i); [|apply step_refl]. destruct (subst_line _ _ _ _ _ _ _) as [[r|] rest]; [|apply step_refl].
  apply step_edit.
Qed.

Lemma step_substitute loc arg s : Step s (fst (ec_substitute rvalid rfind loc arg s)).
Proof.
  unfold ec_substitute. reg loc s. destruct bad; [exact R|].
  destruct (re_read arg) as [pat rest].
  assert (H2 : Step s (kwdset_if s1 pat 1)) by (chain R; apply step_same; apply kwdset_if_wcore).
  destruct pat as [p|]; [|cbn [fst]; chain H2; same]. destruct rest as [|c rest]; [cbn [fst]; chain H2; same|].
  destruct (re_read _) as [rep flags]. destruct (negb _); [cbn [fst]; chain H2; same|]. destruct (kwddir _ =? 0); [exact H2|].
  destruct (negb _); [exact H2|]. cbn [fst]. chain H2. apply step_subst_rows.
Qed.

Lemma step_simple a loc cmd arg txt s : cmd_ok P a = true ->
  Step s (fst (ex_simple rvalid rfind filter readfile curpath a loc cmd arg txt s)).
Proof.
  unfold ex_simple, cmd_ok. intro OK. apply andb_prop in OK. destruct OK as [OK O3]. apply andb_prop in OK. destruct OK as [O1 O2].
  destruct (is a [97]%N || is a [105]%N || is a [99]%N); [apply step_insert|].
  destruct (is a [100]%N); [apply step_delete|].
  destruct (is a [107]%N); [apply step_mark|].
  destruct (is a [112]%N); [apply step_print|].
  destruct (is a [112; 117]%N); [apply step_put|].
  destruct (is a [113; 33]%N); [same|].
  destruct (is a [114]%N); [apply step_read|].
  destruct (is a [114; 115]%N); [unfold ec_rs; destruct txt; same|].
  destruct (is a [115]%N); [apply step_substitute|].
  destruct (is a [117]%N); [apply step_undo; exact O1|].
  destruct (is a [119]%N || is a [119; 33]%N); [apply step_write; exact O2|].
  destruct (is a [121]%N); [apply step_yank|].
  destruct (is a [33]%N); [apply step_exec; exact O3|].
  destruct (is a [61]%N); [apply step_lnum|].
  destruct (is a [101; 99]%N); [same|].
  destruct (is a []); [apply step_null|].
  same.
Qed.

Section Rec.
Variable exec : bytes -> st -> st * Z.

Lemma step_glob_loop body : (forall s0, Step s0 (fst (exec body s0))) ->
  forall fuel i pat not dep s, Step s (glob_loop rfind exec fuel i pat body not dep s).
Proof.
  intro Hx. induction fuel as [|f IH]; intros i pat not dep s; [same|]. cbn [glob_loop].
  destruct (nth_error (lns (lb s)) i) as [x|]; [|apply step_refl].
  set (run := Bool.eqb _ not).
  assert (H1 : Step s (fst (if run then exec body (set_xrow s (Z.of_nat i)) else (s, 0)))).
  { destruct run; [eapply step_tr; [|apply Hx]; same | apply step_refl]. }
  destruct (if run then exec body (set_xrow s (Z.of_nat i)) else (s, 0)) as [s1 r]. cbn [fst] in H1.
  destruct (run && negb (r =? 0)); [exact H1|].
  set (i1 := if run then _ else i).
  pose proof (lbcore_glob_scan i1 dep (lb s1)) as H2.
  destruct (glob_scan i1 dep (lb s1)) as [j l]. cbn [snd] in H2.
  chain H1. eapply step_tr; [|apply IH]. apply step_same. unfold wcore. cbn [lb set_lb written]. rewrite H2. reflexivity.
Qed.

Lemma step_glob fuel loc cmd arg s : (forall s0, Step s0 (fst (exec (snd (re_read arg)) s0))) ->
  Step s (fst (ec_glob rvalid rfind exec fuel loc cmd arg s)).
Proof.
  intro Hx. unfold ec_glob. destruct (GDEPMAX <=? xgdep s)%nat; [same|].
  set (loc' := match loc, xgdep s with [], O => [37%N] | _, _ => loc end).
  reg loc' s. destruct (_ || _); [exact R|].
  destruct (re_read arg) as [pat body]. cbn [snd] in Hx.
  assert (H2 : Step s (kwdset_if s1 pat 1)) by (chain R; apply step_same; apply kwdset_if_wcore).
  destruct (kwddir _ =? 0); [exact H2|]. destruct (negb _); [exact H2|]. cbn [fst]. chain H2.
  match goal with |- Step _ (set_gdep (set_lb ?s5 (globclear ?n 0%nat ?dp (lb ?s5'))) ?d) =>
    eapply (step_tr _ s5); [|apply step_same; unfold wcore; cbn [lb set_lb set_gdep written]; rewrite lbcore_globclear; reflexivity] end.
  eapply step_tr; [|apply step_glob_loop; exact Hx].
  apply step_same. unfold wcore. cbn [lb set_lb set_gdep written]. rewrite lbcore_globset_range. reflexivity.
Qed.

Lemma step_at loc arg s : P ABump = true -> (forall ln s0, Step s0 (fst (exec ln s0))) ->
  Step s (fst (ec_at rvalid rfind exec loc arg s)).
Proof.
  intros PB Hx. unfold ec_at. destruct (reg_special _); [same|]. destruct (reg_get s _) as [buf|]; [|apply step_refl].
  reg loc s. destruct (_ || _); [exact R|].
  pose proof (Hx buf (set_xrow s1 b)) as H2. destruct (exec buf (set_xrow s1 b)) as [s2 r]. cbn [fst] in *.
  chain R. eapply step_tr; [|apply step_bump, PB]. eapply step_tr; [|exact H2]. same.
Qed.
End Rec.

Lemma line_ok_all : all_ok P = true -> forall fuel ln, line_ok P fuel ln = true.
Proof.
  intro A. pose proof (all_ok_any A) as Any. induction fuel as [|f IH]; intro ln; [reflexivity|]. cbn [line_ok].
  destruct ln as [|c ln]; [reflexivity|].
  destruct (ex_loc (c :: ln)) as [ln1 loc]. destruct (ex_cmd ln1) as [ln2 cmd].
  set (abbr := match ex_idx cmd with Some a => a | None => _ end).
  destruct (ex_arg ln2 abbr) as [ln3 arg]. rewrite (IH (txt_rest ln3 abbr)), andb_true_r.
  destruct (ex_idx cmd) as [a|]; [|reflexivity].
  destruct ((hd0 a =? 103)%N || (hd0 a =? 118)%N); [apply IH|]. destruct (hd0 a =? 64)%N; [exact A|].
  unfold cmd_ok. rewrite !Any, !orb_true_r. reflexivity.
Qed.

Theorem step_ex_exec : forall fuel ret ln s, line_ok P fuel ln = true ->
  Step s (fst (ex_exec rvalid rfind filter readfile curpath fuel ret ln s)).
Proof.
  induction fuel as [|f IH]; intros ret ln s OK; [same|]. cbn [ex_exec line_ok] in *.
  destruct ln as [|c ln]; [apply step_refl|].
  destruct (ex_loc (c :: ln)) as [ln1 loc]. destruct (ex_cmd ln1) as [ln2 cmd].
  set (abbr := match ex_idx cmd with Some a => a | None => _ end) in *.
  destruct (ex_arg ln2 abbr) as [ln3 arg].
  pose proof (ex_txt_rest ln3 abbr s) as TR. pose proof (ex_txt_wcore ln3 abbr s) as TW.
  destruct (ex_txt ln3 abbr s) as [[ln4 txt] s1]. cbn [fst snd] in TR, TW. rewrite <- TR in OK.
  apply andb_prop in OK. destruct OK as [OK1 OK2].
  match goal with |- Step _ (fst (let '(s2, ret2) := ?m in _)) => assert (M : Step s (fst m)) end.
  { eapply step_tr; [apply (step_same s s1 TW)|]. destruct (ex_idx cmd) as [a|].
    - destruct ((hd0 a =? 103)%N || (hd0 a =? 118)%N); [apply step_glob; intro s0; apply IH, OK1|].
      destruct (hd0 a =? 64)%N.
      + pose proof (all_ok_any OK1) as Any. apply step_at; [apply Any|]. intros l0 s0. apply IH, line_ok_all, OK1.
      + apply step_simple, OK1.
    - destruct (is_other cmd); same. }
  match goal with |- Step _ (fst (let '(s2, ret2) := ?m in _)) => destruct m as [s2 ret2] end. cbn [fst] in M.
  eapply step_tr; [exact M | apply IH, OK2].
Qed.

(* ex_command = the commands of the line, then ONE closing bump *)
Theorem step_ex_command fuel ln s t : line_ok P fuel ln = true -> Rel s t ->
  exists acts, Rel (fst (ex_command rvalid rfind filter readfile curpath fuel ln s)) (run_acts t (acts ++ [ABump])) /\
               forallb P acts = true.
Proof.
  intros OK H. unfold ex_command.
  destruct (step_ex_exec fuel 0 ln s OK t H) as (acts & R1 & Q).
  destruct (ex_exec rvalid rfind filter readfile curpath fuel 0 ln s) as [s1 r]. cbn [fst] in *.
  exists acts. split; [|exact Q]. unfold run_acts in *. rewrite fold_left_app. cbn [fold_left]. apply Rel_bump. exact R1.
Qed.

End Cmds.
End Class.

(* every line is inside the class of all actions *)
Definition any_act (a : act) : bool := true.
Lemma line_ok_any fuel ln : line_ok any_act fuel ln = true.
Proof. apply line_ok_all; [intros; reflexivity | reflexivity]. Qed.

End Sim.
