(* TrUc.v -- uc_end, uc_next, uc_beg, uc_prev, uc_slen, uc_off, uc_chr of uc.c: the hand-written model
   (UcDefs.v) is what the C text says (see TrUcCode.v for uc_len/uc_code and the general comment). *)
From Coq Require Import List ZArith NArith Bool Lia.
From NV Require Import Bytes UcDefs CLite CLiteProps GenCFuncs.
From NV Require Export CLiteTac TrUcCode.
Import ListNotations.
Local Open Scope Z_scope.

(* ------------------------------------------------------------------ uc_end, uc_next *)
Lemma cc_cont : forall c, (c < 256)%N -> (Z.land (Z.of_N c) 192 =? 128) = is_cont c.
Proof. byte_fact. Qed.
Lemma cc_lead : forall c, (c < 256)%N -> (Z.land (Z.of_N c) 192 =? 192) = is_lead c.
Proof. byte_fact. Qed.
Lemma cc_high : forall c, (c < 256)%N -> negb (Z.land (Z.of_N c) 128 =? 0) = bit c 128.
Proof. byte_fact. Qed.
Lemma cc_nz : forall c, (c < 256)%N -> negb (wrap I8 (Z.of_N c) =? 0) = negb (c =? 0)%N.
Proof. byte_fact. Qed.

Definition uc_end_loop : stmt :=
  match fn_body cf_uc_end with SSeq _ (SSeq _ (SSeq w _)) => w | _ => SSkip end.

Lemma uc_end_loop_ok call m b s : str_at m b s -> bytes_lt256 s ->
  forall n p fuel, (p <= length s)%nat -> skip_cont (skipn p s) = n -> (n < fuel)%nat ->
  exec call fuel uc_end_loop (mkst [VPtr b (Z.of_nat p)] m) = ONormal (mkst [VPtr b (Z.of_nat (p + n))] m).
Proof.
  intros Hs H256. induction n as [|n IH]; intros p fuel Hp Hn Hf; (destruct fuel as [|fuel]; [lia|]);
    unfold uc_end_loop; cbn [fn_body cf_uc_end]; rewrite exec_while; xstep;
    rewrite (load_str m b s _ p Hs) by lia; xstep;
    rewrite wrap_byte_chain by (apply nthb_lt256; exact H256);
    rewrite ?nb2z, (cc_cont _ (nthb_lt256 s p H256)).
  - destruct (Nat.eq_dec p (length s)) as [->|Hne].
    + rewrite nthb_end by lia. cbn. rewrite Nat.add_0_r. reflexivity.
    + rewrite skipn_cons_nthb in Hn by lia. cbn [skip_cont] in Hn.
      destruct (is_cont (nthb s p)); [discriminate|]. rewrite Nat.add_0_r. reflexivity.
  - destruct (Nat.eq_dec p (length s)) as [->|Hne].
    + rewrite skipn_end in Hn by lia. discriminate.
    + rewrite skipn_cons_nthb in Hn by lia. cbn [skip_cont] in Hn.
      destruct (is_cont (nthb s p)); [|discriminate]. injection Hn as Hn.
      replace (Z.of_nat p + 1) with (Z.of_nat (S p)) by lia.
      change (SWhile _ _) with uc_end_loop. rewrite (IH (S p) fuel ltac:(lia) Hn ltac:(lia)).
      do 4 f_equal. lia.
Qed.

Lemma skip_cont_le s : (skip_cont s <= length s)%nat.
Proof. induction s as [|x s IH]; cbn; [lia|]. destruct (is_cont x); lia. Qed.

Lemma cc_z0 : forall c, (c < 256)%N -> (wrap I8 (Z.of_N c) =? 0) = (c =? 0)%N.
Proof. byte_fact. Qed.
Lemma cc_z0i : forall c, (c < 256)%N -> (wrap I32 (wrap I8 (Z.of_N c)) =? 0) = (c =? 0)%N.
Proof. byte_fact. Qed.
Lemma cc_cont_of : forall c, (c < 256)%N -> (bit c 128 && negb (is_lead c)) = is_cont c.
Proof. byte_fact. Qed.

Theorem tr_uc_end m b s o d fuel :
  str_at m b s -> bytes_lt256 s -> (o <= length s)%nat -> (length s < fuel)%nat ->
  callf cprog fuel (S d) F_uc_end [VPtr b (Z.of_nat o)] m
  = Ok (VPtr b (Z.of_nat (o + uc_end (skipn o s))), m).
Proof.
  intros Hs H256 Ho Hf. enter F_uc_end cf_uc_end. xstep.
  pose proof (nthb_lt256 s o H256) as Hc.
  xload Hs H256 o. rewrite negb_involutive, (cc_z0 _ Hc).
  assert (Hsk: skipn o s = if (o <? length s)%nat then nthb s o :: skipn (S o) s else []).
  { destruct (Nat.ltb_spec o (length s)); [apply skipn_cons_nthb; lia | apply skipn_end; lia]. }
  destruct (N.eqb_spec (nthb s o) 0) as [E0|E0].
  { xstep. unfold uc_end. rewrite Hsk. destruct (o <? length s)%nat; [rewrite E0; cbn|]; rewrite Nat.add_0_r; reflexivity. }
  assert (o < length s)%nat as Hlt
    by (destruct (Nat.lt_ge_cases o (length s)); [assumption| rewrite nthb_end in E0 by lia; congruence]).
  destruct (Nat.ltb_spec o (length s)); [|lia].
  xstep. xload Hs H256 o. rewrite (cc_high _ Hc).
  unfold uc_end. rewrite Hsk.
  destruct (bit (nthb s o) 128) eqn:E1; cbn [negb]; xstep; [|rewrite Nat.add_0_r; reflexivity].
  xload Hs H256 o. rewrite (cc_lead _ Hc).
  pose proof (cc_cont_of _ Hc) as Hco. rewrite E1 in Hco. cbn [andb] in Hco.
  destruct (is_lead (nthb s o)) eqn:E2; xstep.
  - replace (Z.of_nat o + 1) with (Z.of_nat (S o)) by lia.
    change (SWhile _ _) with uc_end_loop.
    rewrite (uc_end_loop_ok _ m b s Hs H256 _ (S o) fuel ltac:(lia) eq_refl)
      by (pose proof (skip_cont_le (skipn (S o) s)); rewrite skipn_length in *; lia).
    xstep. do 3 f_equal. lia.
  - change (SWhile _ _) with uc_end_loop.
    rewrite (uc_end_loop_ok _ m b s Hs H256 _ o fuel ltac:(lia) eq_refl)
      by (pose proof (skip_cont_le (skipn o s)); rewrite skipn_length in *; lia).
    xstep. rewrite Hsk. cbn [skip_cont]. rewrite <- Hco. cbn [negb]. do 3 f_equal. lia.
Qed.

Lemma uc_end_in s : (uc_end s <= length s)%nat.
Proof.
  destruct s as [|x s]; cbn; [lia|]. destruct (negb (bit x 128)); [lia|].
  pose proof (skip_cont_le s). cbn [skip_cont length].
  destruct (is_lead x), (is_cont x); lia.
Qed.

Theorem tr_uc_next m b s o d fuel :
  str_at m b s -> bytes_lt256 s -> (o <= length s)%nat -> (length s < fuel)%nat ->
  callf cprog fuel (S (S d)) F_uc_next [VPtr b (Z.of_nat o)] m
  = Ok (VPtr b (Z.of_nat (o + uc_next (skipn o s))), m).
Proof.
  intros Hs H256 Ho Hf. enter F_uc_next cf_uc_next. xstep.
  rewrite (tr_uc_end m b s o d fuel Hs H256 Ho Hf). xstep.
  pose proof (uc_end_in (skipn o s)) as He. rewrite skipn_length in He.
  xload Hs H256 (o + uc_end (skipn o s))%nat.
  pose proof (nthb_lt256 s (o + uc_end (skipn o s)) H256) as Hc.
  rewrite (cc_z0i _ Hc). unfold uc_next. rewrite nthb_skipn.
  destruct (nthb s (o + uc_end (skipn o s)) =? 0)%N; xstep; do 3 f_equal; lia.
Qed.

(* ------------------------------------------------------------------ uc_beg, uc_prev *)
(* the bytes between beg (offset ob) and s (offset o), nearest first: the zipper of UcDefs.uc_beg *)
Definition pre_of (s : bytes) (ob o : nat) : bytes := rev (firstn (o - ob) (skipn ob s)).
Lemma firstn_snoc (l : bytes) k : (k < length l)%nat -> firstn (S k) l = firstn k l ++ [nthb l k].
Proof.
  revert l; induction k as [|k IH]; intros [|x l] H; cbn in H; try lia; [reflexivity|].
  rewrite (firstn_cons (S k)), (firstn_cons k), IH by lia. reflexivity.
Qed.
Lemma pre_of_S s ob o : (ob < o <= length s)%nat -> pre_of s ob o = nthb s (o - 1) :: pre_of s ob (o - 1).
Proof.
  intro H. unfold pre_of. replace (o - ob)%nat with (S (o - 1 - ob)) by lia.
  rewrite firstn_snoc by (rewrite skipn_length; lia). rewrite rev_app_distr. cbn [rev app].
  rewrite nthb_skipn. do 2 f_equal. lia.
Qed.
Lemma pre_of_0 s ob : pre_of s ob ob = [].
Proof. unfold pre_of. rewrite Nat.sub_diag. reflexivity. Qed.

Definition uc_beg_loop : stmt := match fn_body cf_uc_beg with SSeq w _ => w | _ => SSkip end.

Lemma uc_beg_loop_ok call m b s ob : str_at m b s -> bytes_lt256 s ->
  forall k o fuel, (o - ob = k)%nat -> (ob <= o <= length s)%nat -> (k < fuel)%nat ->
  exec call fuel uc_beg_loop (mkst [VPtr b (Z.of_nat ob); VPtr b (Z.of_nat o)] m)
  = ONormal (mkst [VPtr b (Z.of_nat ob); VPtr b (Z.of_nat (o - uc_beg (pre_of s ob o) (nthb s o)))] m).
Proof.
  intros Hs H256. induction k as [|k IH]; intros o fuel Hk Ho Hf; (destruct fuel as [|fuel]; [lia|]);
    unfold uc_beg_loop; cbn [fn_body cf_uc_beg]; rewrite exec_while; xstep; cbn [ptr_cmp Nat.eqb]; rewrite Nat.eqb_refl; xstep.
  - assert (o = ob) as -> by lia. rewrite pre_of_0. cbn [uc_beg]. rewrite Nat.sub_0_r.
    destruct (Z.ltb_spec (Z.of_nat ob) (Z.of_nat ob)); [lia|]. reflexivity.
  - destruct (Z.ltb_spec (Z.of_nat ob) (Z.of_nat o)); [|lia]. xstep.
    xload Hs H256 o. rewrite (cc_cont _ (nthb_lt256 s o H256)).
    rewrite pre_of_S by lia. cbn [uc_beg].
    destruct (is_cont (nthb s o)); xstep; [|rewrite Nat.sub_0_r; reflexivity].
    replace (Z.of_nat o + -1) with (Z.of_nat (o - 1)) by lia.
    change (SWhile _ _) with uc_beg_loop. rewrite (IH (o - 1)%nat fuel) by lia.
    rewrite ?nb2z. do 5 f_equal. lia.
Qed.

Theorem tr_uc_beg m b s ob o d fuel :
  str_at m b s -> bytes_lt256 s -> (ob <= o <= length s)%nat -> (length s < fuel)%nat ->
  callf cprog fuel (S d) F_uc_beg [VPtr b (Z.of_nat ob); VPtr b (Z.of_nat o)] m
  = Ok (VPtr b (Z.of_nat (o - uc_beg (pre_of s ob o) (nthb s o))), m).
Proof.
  intros Hs H256 Ho Hf. enter F_uc_beg cf_uc_beg. xstep.
  change (SWhile _ _) with uc_beg_loop.
  rewrite (uc_beg_loop_ok _ m b s ob Hs H256 _ o fuel eq_refl) by lia. xstep. reflexivity.
Qed.

Theorem tr_uc_prev m b s ob o d fuel :
  str_at m b s -> bytes_lt256 s -> (ob <= o <= length s)%nat -> (length s < fuel)%nat ->
  callf cprog fuel (S (S d)) F_uc_prev [VPtr b (Z.of_nat ob); VPtr b (Z.of_nat o)] m
  = Ok (VPtr b (Z.of_nat (o - uc_prev (pre_of s ob o))), m).
Proof.
  intros Hs H256 Ho Hf. enter F_uc_prev cf_uc_prev. xstep. cbn [ptr_cmp]. rewrite Nat.eqb_refl. xstep.
  destruct (Z.eqb_spec (Z.of_nat o) (Z.of_nat ob)) as [E|E]; xstep.
  - assert (o = ob) as -> by lia. rewrite pre_of_0. cbn [uc_prev]. rewrite Nat.sub_0_r. reflexivity.
  - replace (Z.of_nat o + -1 * 1) with (Z.of_nat (o - 1)) by lia.
    rewrite (tr_uc_beg m b s ob (o - 1) d fuel Hs H256) by lia. xstep.
    rewrite (pre_of_S s ob o) by lia. cbn [uc_prev]. do 3 f_equal. lia.
Qed.

(* ------------------------------------------------------------------ uc_slen *)
Definition uc_slen_loop : stmt :=
  match fn_body cf_uc_slen with SSeq (SSeq _ w) _ => w | _ => SSkip end.

Lemma nonul_nthb_nz s p : nonul s -> (p < length s)%nat -> (nthb s p =? 0)%N = false.
Proof.
  intros H Hp. unfold nonul in H. rewrite Forall_forall in H.
  assert (byte_ok (nthb s p)) as [Hb _] by (apply H; unfold nthb; apply nth_In; exact Hp).
  apply N.eqb_neq. lia.
Qed.

Lemma uc_slen_loop_ok F d m b s : str_at m b s -> nonul s -> (length s < F)%nat ->
  forall k p n0 fuel, (length s - p <= k)%nat -> (p <= length s)%nat -> (k < fuel)%nat ->
  0 <= n0 -> n0 + Z.of_nat (length s - p) <= 2147483647 ->
  exec (callf cprog F (S d)) fuel uc_slen_loop (mkst [VPtr b (Z.of_nat p); VInt n0] m)
  = ONormal (mkst [VPtr b (Z.of_nat (length s)); VInt (n0 + Z.of_nat (uc_slen_f k (skipn p s)))] m).
Proof.
  intros Hs Hnn HF. pose proof (nonul_lt256 s Hnn) as H256.
  induction k as [|k IH]; intros p n0 fuel Hk Hp Hf Hn0 Hmax; (destruct fuel as [|fuel]; [lia|]);
    unfold uc_slen_loop; cbn [fn_body cf_uc_slen]; rewrite exec_for; xstep.
  - assert (p = length s) as -> by lia. xload Hs H256 (length s). rewrite nthb_end by lia.
    cbn. rewrite Z.add_0_r. reflexivity.
  - xload Hs H256 p. rewrite (cc_z0 _ (nthb_lt256 s p H256)).
    destruct (Nat.eq_dec p (length s)) as [->|Hne].
    + rewrite nthb_end by lia. rewrite skipn_end by lia. cbn. rewrite Z.add_0_r. reflexivity.
    + rewrite nonul_nthb_nz by (auto; lia). xstep.
      rewrite (tr_uc_end m b s p d F Hs H256) by lia. xstep.
      pose proof (uc_end_in (skipn p s)) as He. rewrite skipn_length in He.
      assert (uc_end (skipn p s) < length s - p)%nat as He'.
      { rewrite (skipn_cons_nthb s p) in * by lia. cbn [uc_end length] in *.
        destruct (negb (bit (nthb s p) 128)); [lia|].
        pose proof (skip_cont_le (skipn (S p) s)). rewrite skipn_length in *. cbn [skip_cont].
        destruct (is_lead (nthb s p)), (is_cont (nthb s p)); lia. }
      unfold chk; cbn [ity_signed]. 
      replace (in_range I32 (n0 + 1)) with true
        by (symmetry; unfold in_range, ity_min, ity_max; cbn [ity_signed ity_bits]; change (- 2 ^ (32 - 1)) with (-2147483648); change (2 ^ (32 - 1) - 1) with 2147483647; apply andb_true_intro; split; apply Z.leb_le; lia).
      xstep.
      replace (Z.of_nat (p + uc_end (skipn p s)) + 1 * 1) with (Z.of_nat (p + S (uc_end (skipn p s)))) by lia.
      change (SFor _ _ _) with uc_slen_loop.
      rewrite (IH (p + S (uc_end (skipn p s)))%nat (n0 + 1) fuel) by lia.
      rewrite (skipn_cons_nthb s p) at 2 by lia. cbn [uc_slen_f].
      rewrite <- (skipn_cons_nthb s p) by lia. rewrite skipn_skipn.
      do 5 f_equal. lia.
Qed.

Theorem tr_uc_slen m b s o d fuel :
  str_at m b s -> nonul s -> (o <= length s)%nat -> (length s < fuel)%nat ->
  Z.of_nat (length s) <= 2147483647 ->
  callf cprog fuel (S (S d)) F_uc_slen [VPtr b (Z.of_nat o)] m
  = Ok (VInt (Z.of_nat (uc_slen (skipn o s))), m).
Proof.
  intros Hs Hnn Ho Hf Hmax. enter F_uc_slen cf_uc_slen. xstep.
  change (SFor _ _ _) with uc_slen_loop.
  rewrite (uc_slen_loop_ok fuel d m b s Hs Hnn Hf (length s - o) o 0 fuel) by lia.
  xstep. unfold uc_slen. rewrite skipn_length. reflexivity.
Qed.

(* ------------------------------------------------------------------ uc_off, uc_chr *)
Lemma uc_end_lt t : t <> [] -> (uc_end t < length t)%nat.
Proof.
  destruct t as [|x t]; [congruence|]. intros _. cbn [uc_end length].
  destruct (negb (bit x 128)); [lia|]. pose proof (skip_cont_le t). cbn [skip_cont].
  destruct (is_lead x), (is_cont x); lia.
Qed.
Lemma nonul_skipn s p : nonul s -> nonul (skipn p s).
Proof. apply Forall_skipn'. Qed.
Lemma uc_next_nonul t : nonul t -> t <> [] -> uc_next t = S (uc_end t).
Proof.
  intros Hn Ht. unfold uc_next. rewrite nonul_nthb_nz; [reflexivity|exact Hn|apply uc_end_lt; exact Ht].
Qed.
Lemma skipn_ne (s : bytes) p : (p < length s)%nat -> skipn p s <> [].
Proof. intros H E. apply (f_equal (@length _)) in E. rewrite skipn_length in E. cbn in E. lia. Qed.

Lemma uc_off_f_step k t pos e : t <> [] ->
  uc_off_f (S k) t pos e = if (pos <? e)%nat then S (uc_off_f k (skipn (uc_next t) t) (pos + uc_next t) e) else 0%nat.
Proof. destruct t; [congruence|reflexivity]. Qed.

Definition uc_off_loop : stmt :=
  match fn_body cf_uc_off with SSeq _ (SSeq (SSeq _ w) _) => w | _ => SSkip end.

Lemma uc_off_loop_ok F d m b s o off : str_at m b s -> nonul s -> (length s < F)%nat -> (o <= length s)%nat ->
  forall k p i fuel, (length s - p <= k)%nat -> (o <= p <= length s)%nat -> (k < fuel)%nat ->
  0 <= i -> i + Z.of_nat (length s - p) <= 2147483647 ->
  exists p', 
  exec (callf cprog F (S (S d))) fuel uc_off_loop
       (mkst [VPtr b (Z.of_nat p); VInt (Z.of_nat off); VPtr b (Z.of_nat (o + off)); VInt i] m)
  = ONormal (mkst [VPtr b p'; VInt (Z.of_nat off); VPtr b (Z.of_nat (o + off));
                   VInt (i + Z.of_nat (uc_off_f k (skipn p s) (p - o) off))] m).
Proof.
  intros Hs Hnn HF Ho. pose proof (nonul_lt256 s Hnn) as H256.
  induction k as [|k IH]; intros p i fuel Hk Hp Hf Hi Hmax; (destruct fuel as [|fuel]; [lia|]);
    unfold uc_off_loop; cbn [fn_body cf_uc_off]; rewrite exec_for; xstep; cbn [ptr_cmp]; rewrite Nat.eqb_refl; xstep.
  - assert (p = length s) as -> by lia. cbn [uc_off_f]. rewrite Z.add_0_r.
    destruct (Z.ltb_spec (Z.of_nat (length s)) (Z.of_nat (o + off))); xstep.
    + xload Hs H256 (length s). rewrite nthb_end by lia. cbn. eexists; reflexivity.
    + eexists; reflexivity.
  - destruct (Nat.eq_dec p (length s)) as [->|Hne].
    + rewrite skipn_end by lia. cbn [uc_off_f]. rewrite Z.add_0_r.
      destruct (Z.ltb_spec (Z.of_nat (length s)) (Z.of_nat (o + off))); xstep.
      * xload Hs H256 (length s). rewrite nthb_end by lia. cbn. eexists; reflexivity.
      * eexists; reflexivity.
    + rewrite uc_off_f_step by (apply skipn_ne; lia).
      destruct (Z.ltb_spec (Z.of_nat p) (Z.of_nat (o + off))) as [Hlt|Hge]; xstep.
      * destruct (Nat.ltb_spec (p - o) off) as [_|Hx]; [|lia].
        xload Hs H256 p. rewrite (cc_z0i _ (nthb_lt256 s p H256)), nonul_nthb_nz by (auto; lia). xstep.
        rewrite (tr_uc_next m b s p d F Hs H256) by lia. xstep.
        pose proof (uc_next_nonul (skipn p s) (nonul_skipn s p Hnn) (skipn_ne s p ltac:(lia))) as Hnx.
        pose proof (uc_end_lt (skipn p s) (skipn_ne s p ltac:(lia))) as Hel. rewrite skipn_length in Hel.
        unfold chk; cbn [ity_signed].
        replace (in_range I32 (i + 1)) with true
          by (symmetry; unfold in_range, ity_min, ity_max; cbn [ity_signed ity_bits]; change (- 2 ^ (32 - 1)) with (-2147483648); change (2 ^ (32 - 1) - 1) with 2147483647; apply andb_true_intro; split; apply Z.leb_le; lia).
        xstep. change (SFor _ _ _) with uc_off_loop.
        destruct (IH (p + uc_next (skipn p s))%nat (i + 1) fuel) as [p' Hp']; try lia.
        rewrite Hp'. exists p'. rewrite skipn_skipn.
        replace (p + uc_next (skipn p s) - o)%nat with (p - o + uc_next (skipn p s))%nat by lia.
        match goal with
        | |- ONormal (mkst [_; _; _; VInt ?x] _) = ONormal (mkst [_; _; _; VInt ?y] _) =>
            replace y with x; [reflexivity|]
        end.
        rewrite Nat2Z.inj_succ. lia.
      * destruct (Nat.ltb_spec (p - o) off) as [Hx|_]; [lia|]. rewrite Z.add_0_r. eexists; reflexivity.
Qed.

Theorem tr_uc_off m b s o off d fuel :
  str_at m b s -> nonul s -> (o <= length s)%nat -> (length s < fuel)%nat ->
  Z.of_nat (length s) <= 2147483647 -> Z.of_nat off <= 2147483647 ->
  callf cprog fuel (S (S (S d))) F_uc_off [VPtr b (Z.of_nat o); VInt (Z.of_nat off)] m
  = Ok (VInt (Z.of_nat (uc_off (skipn o s) off)), m).
Proof.
  intros Hs Hnn Ho Hf Hmax Hoff. enter F_uc_off cf_uc_off. xstep.
  replace (Z.of_nat o + 1 * Z.of_nat off) with (Z.of_nat (o + off)) by lia.
  change (SFor _ _ _) with uc_off_loop.
  destruct (uc_off_loop_ok fuel d m b s o off Hs Hnn Hf Ho (length s - o) o 0 fuel) as [p' Hp']; try lia.
  rewrite Hp'. xstep. unfold uc_off. rewrite skipn_length, Nat.sub_diag. reflexivity.
Qed.

(* uc_chr: Some q = the pointer into the string at offset q, None = the static "" *)
Definition chr_val (b : nat) (r : option nat) : val :=
  match r with Some q => VPtr b (Z.of_nat q) | None => VPtr G_lit__0 0 end.
Definition uc_chr_loop : stmt := match fn_body cf_uc_chr with SSeq _ (SSeq w _) => w | _ => SSkip end.
Definition uc_chr_ret : stmt := match fn_body cf_uc_chr with SSeq _ (SSeq _ r) => r | _ => SSkip end.
Lemma uc_chr_f_step k t i off base : t <> [] ->
  uc_chr_f (S k) t i off base =
  if (i =? off) then Some base else uc_chr_f k (skipn (uc_next t) t) (i + 1) off (base + uc_next t).
Proof. destruct t; [congruence|reflexivity]. Qed.
Lemma uc_chr_f_nil k i off base :
  uc_chr_f k [] i off base = if (off <? 0) || (i =? off) then Some base else None.
Proof. destruct k; reflexivity. Qed.

Lemma uc_chr_tail_ok F d m b s off fuel2 : str_at m b s -> nonul s -> (length s < F)%nat ->
  forall k p i fuel, (length s - p <= k)%nat -> (p <= length s)%nat -> (k < fuel)%nat ->
  0 <= i -> i + Z.of_nat (length s - p) <= 2147483647 ->
  exists st',
  match exec (callf cprog F (S (S d))) fuel uc_chr_loop (mkst [VPtr b (Z.of_nat p); VInt off; VInt i] m) with
  | ONormal st1 => exec (callf cprog F (S (S d))) fuel2 uc_chr_ret st1
  | o => o
  end = OReturn (chr_val b (uc_chr_f k (skipn p s) i off p)) st' /\ memm st' = m.
Proof.
  intros Hs Hnn HF. pose proof (nonul_lt256 s Hnn) as H256.
  assert (Hrange : forall i, 0 <= i -> i + 1 <= 2147483647 -> chk I32 (i + 1) = Ok (i + 1)).
  { intros i H0 H1. apply chk_I32. lia. }
  induction k as [|k IH]; intros p i fuel Hk Hp Hf Hi Hmax; (destruct fuel as [|fuel]; [lia|]);
    unfold uc_chr_loop, uc_chr_ret; cbn [fn_body cf_uc_chr]; rewrite exec_while; xstep.
  - assert (p = length s) as -> by lia. xload Hs H256 (length s). rewrite nthb_end by lia.
    rewrite skipn_end by lia. rewrite uc_chr_f_nil. change (wrap I32 (wrap I8 (Z.of_N 0)) =? 0) with true. xstep.
    destruct (off <? 0); xstep; [eexists; split; reflexivity|].
    destruct (i =? off); xstep; eexists; split; reflexivity.
  - destruct (Nat.eq_dec p (length s)) as [->|Hne].
    + xload Hs H256 (length s). rewrite nthb_end by lia.
      rewrite skipn_end by lia. rewrite uc_chr_f_nil. change (wrap I32 (wrap I8 (Z.of_N 0)) =? 0) with true. xstep.
      destruct (off <? 0); xstep; [eexists; split; reflexivity|].
      destruct (i =? off); xstep; eexists; split; reflexivity.
    + xload Hs H256 p. rewrite (cc_z0i _ (nthb_lt256 s p H256)), nonul_nthb_nz by (auto; lia). xstep.
      rewrite Hrange by lia. xstep.
      rewrite uc_chr_f_step by (apply skipn_ne; lia).
      destruct (i =? off); xstep; [eexists; split; reflexivity|].
      rewrite (tr_uc_next m b s p d F Hs H256) by lia. xstep.
      pose proof (uc_next_nonul (skipn p s) (nonul_skipn s p Hnn) (skipn_ne s p ltac:(lia))) as Hnx.
      pose proof (uc_end_lt (skipn p s) (skipn_ne s p ltac:(lia))) as Hel. rewrite skipn_length in Hel.
      destruct (IH (p + uc_next (skipn p s))%nat (i + 1) fuel) as [st' [E1 E2]]; try lia.
      rewrite skipn_skipn. exists st'. split; [|exact E2]. rewrite <- E1. reflexivity.
Qed.

Lemma uc_chr_f_shift a : forall k t i off base,
  uc_chr_f k t i off (a + base) = option_map (fun q => a + q)%nat (uc_chr_f k t i off base).
Proof.
  induction k as [|k IH]; intros t i off base; destruct t as [|x t]; cbn [uc_chr_f].
  - destruct ((off <? 0) || (i =? off)); reflexivity.
  - destruct (i =? off); reflexivity.
  - destruct ((off <? 0) || (i =? off)); reflexivity.
  - destruct (i =? off); [reflexivity|]. rewrite <- IH. f_equal. lia.
Qed.

Theorem tr_uc_chr m b s o off d fuel :
  str_at m b s -> nonul s -> (o <= length s)%nat -> (length s < fuel)%nat ->
  Z.of_nat (length s) <= 2147483647 ->
  callf cprog fuel (S (S (S d))) F_uc_chr [VPtr b (Z.of_nat o); VInt off] m
  = Ok (chr_val b (option_map (fun q => o + q)%nat (uc_chr (skipn o s) off)), m).
Proof.
  intros Hs Hnn Ho Hf Hmax. enter F_uc_chr cf_uc_chr. xstep.
  destruct (uc_chr_tail_ok fuel d m b s off fuel Hs Hnn Hf (length s - o) o 0 fuel) as [st' [E1 E2]]; try lia.
  unfold uc_chr_loop, uc_chr_ret in E1; cbn [fn_body cf_uc_chr] in E1. rewrite E1, E2.
  unfold uc_chr. rewrite skipn_length. f_equal. f_equal. f_equal.
  rewrite <- uc_chr_f_shift. f_equal. lia.
Qed.
