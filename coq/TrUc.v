(* TrUc.v -- the hand-written model of uc.c (UcDefs.v and the width/shape parts of RenDefs/ShapeDefs)
   is what the C text says: for each function, running the CLite term that tools/c2clite.py
   generated from /repo's uc.c (GenCFuncs.v) gives, for ALL inputs, the value of the model -- and no
   checked load leaves its block, no signed operation overflows, no fuel runs out. *)
From Coq Require Import List ZArith NArith Bool Lia.
From NV Require Import Bytes UcDefs CLite CLiteProps GenCFuncs.
Import ListNotations.
Local Open Scope Z_scope.

Ltac enter f cf :=
  cbn [callf nth_error cprog f cf fn_nparams fn_nlocals fn_body length Nat.eqb Nat.sub repeat app].
(* the goal depends on a byte c < 256 only through closed computations: try all 256 values *)
Ltac sweep_byte c Hc :=
  pattern c; revert c Hc; apply byte_cases;
  let l := eval vm_compute in bytes256 in change bytes256 with l;
  repeat (apply Forall_cons; [try (match goal with |- context [exec _ ?f _ _] => is_var f; destruct f end); vm_compute; reflexivity|]);
  apply Forall_nil.

(* ------------------------------------------------------------------ uc_len *)
Theorem tr_uc_len m b s o d fuel :
  str_at m b s -> bytes_lt256 s -> (o <= length s)%nat ->
  callf cprog fuel (S d) F_uc_len [VPtr b (Z.of_nat o)] m
  = Ok (VInt (Z.of_nat (uc_len_b (nthb s o))), m).
Proof.
  intros Hs H256 Ho. enter F_uc_len cf_uc_len. xstep.
  rewrite (load_str m b s _ o Hs) by lia. xstep. rewrite wrap_byte_chain by (apply nthb_lt256; exact H256).
  pose proof (nthb_lt256 s o H256) as Hc. generalize dependent (nthb s o). intros c Hc.
  Time sweep_byte c Hc.
Time Qed.
