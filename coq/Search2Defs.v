(* Search2Defs.v -- C13, second part: (a) the remembered line offset of vi.c (vi_soset, vi_so) as state that
   survives between search commands -- a loop-free, matcher-independent statement of what each of / ? n N ^A
   does to it, and the run of a command sequence with its states made visible; (b) what "the literal occurs at
   byte r" means for the fast path of rstr.c (match_case: bytes compared after folding ASCII upper case only).
   No proofs in this file. *)
From Coq Require Import List NArith ZArith Bool Arith.
From NV Require Import Bytes UcDefs GenConsts SearchDefs.
Import ListNotations.
Local Open Scope nat_scope.

(* ---------------------------------------------------------------------------------------------- *)
(* (a) the line offset *)

(* (vi_soset, vi_so) *)
Definition off_of (st : sstate) : bool * Z := (soset st, so st).

(* what /typed<CR> (delim = 47) and ?typed<CR> (delim = 63) leave behind: only the text after the closing
   delimiter of the pattern counts -- set = that text is not blank, value = atoi of it *)
Definition prompt_off (delim : N) (typed : bytes) : bool * Z :=
  let rest := skip_spaces (snd (re_read delim typed)) in
  (match rest with [] => false | _ => true end, c_atoi rest).

(* vi_curword finds a word for ^A at the cursor (xrow, xoff) *)
Definition word_at (lb : list bytes) (xrow xoff : nat) : bool :=
  let ln := nth xrow lb [] in
  match vi_curword ln (ren_noeol ln xoff) with Some _ => true | None => false end.

(* the offset after command c typed at cursor (xrow, xoff), from the offset p before it:
   / and ? set it from their own text (whatever it was, whether or not the search succeeds);
   n and N keep it; ^A switches it off as soon as there is a word to search for (the value stays) *)
Definition off_next (lb : list bytes) (c : scmd) (xrow xoff : nat) (p : bool * Z) : bool * Z :=
  match c with
  | CSlash t => prompt_off 47%N t
  | CQuest t => prompt_off 63%N t
  | CNext | CPrev => p
  | CWord => if word_at lb xrow xoff then (false, snd p) else p
  end.

(* the offsets along a command sequence, given the cursor position BEFORE each command *)
Fixpoint off_trace (lb : list bytes) (cmds : list (scmd * nat)) (curs : list (nat * nat)) (p : bool * Z)
  : list (bool * Z) :=
  match cmds, curs with
  | (c, _) :: rest, (r, o) :: curs' => let p' := off_next lb c r o p in p' :: off_trace lb rest curs' p'
  | _, _ => []
  end.

(* the direction a command searches in, from the state AFTER its own update *)
Definition cmd_fwd (c : scmd) (st1 : sstate) : bool :=
  (0 <? (match c with CPrev => (- kdir st1)%Z | _ => kdir st1 end))%Z.

Definition prompt_free (c : scmd) : bool :=
  match c with CSlash _ | CQuest _ => false | _ => true end.

Section Trace.
Variable fmk : bytes -> bytes -> nat -> option (nat * nat).
Variable rcomp : bytes -> bool.

(* run_cmds with the state after every command *)
Fixpoint run_trace (st : sstate) (lb : list bytes) (cmds : list (scmd * nat)) (xrow xoff : nat)
  : list (sstate * bool * (nat * nat)) :=
  match cmds with
  | [] => []
  | (c, n) :: rest =>
    let '(st1, ok, (r, o)) := search_cmd fmk rcomp st lb c n xrow xoff in
    (st1, ok, (r, o)) :: run_trace st1 lb rest r o
  end.
End Trace.

Definition ref_trace (ic : bool) := run_trace (fm_suffix (ref_rfind ic)) ref_rcomp.

(* ---------------------------------------------------------------------------------------------- *)
(* (b) literal occurrences *)

(* the only identification ignorecase makes: A..Z with a..z *)
Definition fold (ic : bool) (c : N) : N := if ic then c_tolower c else c.

(* the literal l occurs at byte r of s: the |l| bytes from r on exist and equal l byte by byte after folding *)
Definition occurs_at (ic : bool) (l s : bytes) (r : nat) : Prop :=
  length l <= length s - r /\ map (fold ic) (firstn (length l) (skipn r s)) = map (fold ic) l.

(* decidable form, for the examples *)
Definition occurs_atb (ic : bool) (l s : bytes) (r : nat) : bool :=
  (length l <=? length s - r) &&
  forallb (fun p => (fold ic (fst p) =? fold ic (snd p))%N) (combine (firstn (length l) (skipn r s)) l).

Definition plain (sp : simple) : Prop := lbeg sp = false /\ wbeg sp = false /\ wend sp = false /\ lend sp = false.
