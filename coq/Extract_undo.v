(* Extract_undo.v -- extraction of the edit-log model (lbuf.c) and the undo-stack spec to OCaml
   (ExtrOcamlBasic only).  Extended for C02 by DirtyDefs. *)
From Coq Require Import List NArith ZArith Extraction ExtrOcamlBasic.
From NV Require Import UndoDefs DirtyDefs.
Definition all_types : nat * N * Z := (0%nat, 0%N, 0%Z).
Extraction "undo_model.ml" all_types lbuf_make lbuf_loaded lbuf_edit lbuf_undo lbuf_redo lbuf_modified
  lbuf_saved lbuf_unsaved modified_flag lines_of ln run_op spec_op ustack_init cur
  run_dop run_dops ebuf_open dirty_flag ec_quit guard_current disk lb
  NSLOTS occupied full_table ec_quit_tab ebuf_new ec_edit_noarg ec_edit_own.
