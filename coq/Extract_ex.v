(* Extract_ex.v -- extraction of the ex line-command model (C06, C15) to OCaml (ExtrOcamlBasic only). *)
From Coq Require Import List NArith ZArith Extraction ExtrOcamlBasic.
From NV Require Import Bytes ExDefs ExPipeDefs.
Definition all_types : nat * N * Z := (0%nat, 0%N, 0%Z).
Extraction "ex_model.ml" all_types init_st ex_main ex_region ex_loc ex_cmd ex_arg ex_txt ex_idx is_other lbuf_cp split_lines ex_main_x.
