(* SubstArgDefs.v -- C14 / C13: vocabulary for what re_read (rset.c) makes of the text between two delimiters, and
   for where ec_substitute takes its g flag from.  The model itself (re_read_loop, subst_args, subst_setup, has_g) is in
   SubstDefs.v and is not changed.  No proofs in this file. *)
From Coq Require Import List NArith Bool.
From NV Require Import Bytes SubstDefs.
Import ListNotations.
Local Open Scope N_scope.

(* Source text that holds no closing delimiter: a sequence of UNITS, each either one byte that is neither the
   delimiter nor a backslash, or a backslash TOGETHER WITH the byte after it -- whatever that byte is: the delimiter,
   a second backslash, a letter.  A backslash never pairs with a byte that already is the second half of a unit:
   in  a\\/  the units are  a  and  \\ , and the / is outside. *)
Inductive units (d : N) : bytes -> Prop :=
| U_nil : units d []
| U_chr : forall c s, c <> d -> c <> 92 -> units d s -> units d (c :: s)
| U_esc : forall x s, units d s -> units d (92 :: x :: s).

(* what re_read stores for such a text: \<delimiter> loses its backslash, every other unit is copied as it stands
   (in particular \\ stays two bytes: it is the regex / the replacement expander that reads it as one backslash) *)
Fixpoint unesc (d : N) (s : bytes) : bytes :=
  match s with
  | [] => []
  | c :: s1 =>
    if c =? 92 then
      match s1 with
      | [] => [c]
      | x :: s2 => if x =? d then x :: unesc d s2 else 92 :: x :: unesc d s2
      end
    else c :: unesc d s1
  end.

(* a run of n backslashes *)
Definition bs (n : nat) : bytes := repeat 92 n.

(* the three results of ec_substitute's argument handling *)
Definition setup_g (st : sstate) (arg : bytes) : bool := snd (subst_setup st arg).          (* strchr(s, 'g') != NULL *)
Definition setup_xrep (st : sstate) (arg : bytes) : bytes := st_rep (fst (fst (subst_setup st arg))).   (* xrep afterwards *)
