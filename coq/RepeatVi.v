(* RepeatVi.v -- C09: the loop of InputQueue.v instantiated with the interpreter of raw vi keys
   (ViKeys.vi_exec = ViDefs.exec1 after the tokenizer).  No hypothesis about the interpreter is left:
   that a command obtains its keys by consuming a prefix of the pending input and that the number of
   keys is a function of the keys alone (except `c` + failing motion) are the theorems of ViKeysProps.v. *)
From Coq Require Import List NArith ZArith Bool Arith Lia.
From NV Require Import Bytes UcDefs MotDefs RegDefs ViDefs GenConsts InputQueue RepeatProps ViKeys ViKeysProps.
Import ListNotations.
Local Open Scope nat_scope.

Section Vi.
Variable rows : Z.
Notation vexec := (vi_exec rows).
Notation vstep := (step (vi_exec rows)).
Notation vrun := (run (vi_exec rows)).
Notation vfits := (fits (vi_exec rows)).

(* a command of the repeatable set *)
Definition is_change (c : command) : bool := match c with KCmd _ chg | KNop chg => chg | _ => false end.

Lemma skipn_pre {A} (pre rest : list A) : skipn (length pre) (pre ++ rest) = rest.
Proof. rewrite skipn_app, skipn_all, Nat.sub_diag. reflexivity. Qed.
Lemma firstn_pre {A} (pre rest : list A) : firstn (length pre) (pre ++ rest) = pre.
Proof. rewrite firstn_app, firstn_all, Nat.sub_diag. cbn [firstn]. apply app_nil_r. Qed.

(* `N.` in any state of the queue (typed, or met inside a running macro) = the recorded keys typed max(1,N) times *)
Theorem dot_is_retyping_vi (s : st N vis) e n pre rest fuel r :
  vi_est (ed s) = Some e -> stream (q s) = pre ++ rest -> next_command pre = Some (KDot n, []) ->
  vfits s = true -> vrun fuel (vstep s) = Some r ->
  vrun fuel (typed_at (rpt N (Nat.max 1 (cnt_of n)) (rep s) ++ rest) (rep s)
                      (mk_vis (Some (nop rows e)) (vi_lastreg (ed s)))) = Some r.
Proof.
  intros Ev Es Nc Fi Ru.
  pose proof (vi_exec_syntax_directed rows (ed s) e pre (KDot n) rest Ev Nc eq_refl) as X. rewrite <- Es in X.
  cbn [apply_cmd fst snd] in X.
  pose proof (dot_is_retyping N vis vexec s _ _ _ fuel r X Fi Ru) as D.
  unfold retyped in D. rewrite Es, skipn_pre in D. exact D.
Qed.

(* `N@x` = the register's contents typed max(1,N) times; x = the register named, or the last one for @@ *)
Theorem exec_is_typing_vi (s : st N vis) e n r0 x txt ln pre rest fuel r :
  vi_est (ed s) = Some e -> stream (q s) = pre ++ rest -> next_command pre = Some (KExec n r0, []) ->
  (if (r0 =? 64)%N then vi_lastreg (ed s) else Some r0) = Some x -> reg_get (s_regs e) x = Some (txt, ln) ->
  vfits s = true -> vrun fuel (vstep s) = Some r ->
  vrun fuel (typed_at (rpt N (Nat.max 1 (cnt_of n)) txt ++ rest) (rep s) (mk_vis (Some (nop rows e)) (Some x))) = Some r.
Proof.
  intros Ev Es Nc Rx Rg Fi Ru.
  pose proof (vi_exec_syntax_directed rows (ed s) e pre (KExec n r0) rest Ev Nc eq_refl) as X. rewrite <- Es in X.
  cbn [apply_cmd] in X. rewrite Rx, Rg in X. cbn [fst snd] in X.
  pose proof (exec_is_typing N vis vexec s _ _ _ _ fuel r X Fi Ru) as D.
  unfold retyped in D. rewrite Es, skipn_pre in D. exact D.
Qed.

(* after a command of the repeatable set the repeat buffer holds exactly that command's keys (register
   prefix, counts, arguments, typed text and the closing ESC), and those keys are one command again in
   every context (next_command_local) *)
Theorem record_vi (s : st N vis) e c pre rest :
  vi_est (ed s) = Some e -> stream (q s) = pre ++ rest -> next_command pre = Some (c, []) ->
  is_change c = true -> failing_change rows e c = false -> S (length pre) < REPSZ -> length pre <= ICMD ->
  rep (vstep s) = pre /\ ed (vstep s) = fst (apply_cmd rows (ed s) e c) /\ stream (q (vstep s)) = rest.
Proof.
  intros Ev Es Nc Ch Fc L1 L2.
  pose proof (vi_exec_syntax_directed rows (ed s) e pre c rest Ev Nc Fc) as X. rewrite <- Es in X.
  assert (A : snd (apply_cmd rows (ed s) e c) = AChange).
  { destruct c as [c0 chg|chg| | | |]; cbn in Ch; try discriminate; subst chg; reflexivity. }
  rewrite A in X.
  destruct (record_faithful N vis vexec s _ _ X) as (R1 & R2 & R3); try lia.
  { rewrite Es, app_length. lia. }
  rewrite Es, firstn_pre in R1. rewrite Es, skipn_pre in R3. auto.
Qed.

(* the known exception: `c` + a motion that fails in this state.  Only the head is consumed and
   recorded; the text typed after it is still in the queue and is run as commands. *)
Theorem record_failing_change_vi (s : st N vis) e y a1 a2 t hd rest :
  vi_est (ed s) = Some e -> stream (q s) = hd ++ rest -> scan P0 hd = Some (HChange y a1 a2 t, []) ->
  target_fails rows e a1 a2 t = true -> S (length hd) < REPSZ -> length hd <= ICMD ->
  rep (vstep s) = hd /\ stream (q (vstep s)) = rest /\
  ed (vstep s) = mk_vis (exec1 rows (COp y a1 Oc a2 t []) e) (vi_lastreg (ed s)).
Proof.
  intros Ev Es Sc Tf L1 L2.
  destruct (scan_local _ _ _ _ Sc) as (p & E & _ & T). rewrite app_nil_r in E. subst p.
  assert (X : vexec (ed s) (stream (q s)) = (mk_vis (exec1 rows (COp y a1 Oc a2 t []) e) (vi_lastreg (ed s)), length hd, AChange)).
  { rewrite Es. unfold vi_exec. rewrite Ev, (parse_failing_change rows e _ _ _ _ _ _ (T rest) Tf). cbn [apply_cmd act_of].
    rewrite app_length. repeat f_equal. lia. }
  destruct (record_faithful N vis vexec s _ _ X) as (R1 & R2 & R3); try lia.
  { rewrite Es, app_length. lia. }
  rewrite Es, firstn_pre in R1. rewrite Es, skipn_pre in R3. auto.
Qed.

(* a change command followed by `N.` = that command typed 1 + max(1,N) times: the statement of the
   property for the keys as typed, in any state of the queue *)
Theorem change_then_dot_vi (s : st N vis) e e1 c pre n dot rest fuel r :
  vi_est (ed s) = Some e -> stream (q s) = pre ++ dot ++ rest ->
  next_command pre = Some (c, []) -> is_change c = true -> failing_change rows e c = false ->
  S (length pre) < REPSZ -> length pre <= ICMD ->
  vi_est (fst (apply_cmd rows (ed s) e c)) = Some e1 ->
  next_command dot = Some (KDot n, []) ->
  vfits (vstep s) = true -> vrun fuel (vstep (vstep s)) = Some r ->
  vrun fuel (typed_at (rpt N (Nat.max 1 (cnt_of n)) pre ++ rest) pre
                      (mk_vis (Some (nop rows e1)) (vi_lastreg (fst (apply_cmd rows (ed s) e c))))) = Some r.
Proof.
  intros Ev Es Nc Ch Fc L1 L2 E1 Nd Fi Ru.
  destruct (record_vi s e c pre (dot ++ rest) Ev Es Nc Ch Fc L1 L2) as (R1 & R2 & R3).
  pose proof (dot_is_retyping_vi (vstep s) e1 n dot rest fuel r) as D.
  rewrite R1, R2 in D. apply D; auto.
Qed.
End Vi.
