(* TrRegexEmit3.v -- the emitter of /repo/regex.c on the translated C text, part 3: RN_ALT (the fork's second target and the jump's
   target are stored after the branches have been emitted) and the induction on the tree: rnode_emit = ReEmit.emit_n (emit_ok). *)
From Coq Require Import List ZArith NArith Bool Lia.
From NV Require Import Bytes GenConsts ReSyntax ReParse ReEmit ReVM ReSem ReProps ReProps2 ReProps3 ReCountBound CLite CLiteProps GenCFuncs CLiteTac CLiteExt TrRegex TrRegexAtom TrRegexComp TrRegexParse TrRegexCount TrRegexEmit TrRegexEmit2.
Import ListNotations.
Local Open Scope Z_scope.

Section Emit3.
  Variables (bre bp N fuel : nat).
  Hypothesis Nbp : bre <> bp.
  Hypothesis HN : Z.of_nat N <= 1048576.
  Hypothesis Hfuel : (130 < fuel)%nat.
  Notation est := (est bre bp N).
  Notation emit_post := (emit_post bre bp N).
  Notation emit_spec := (emit_spec bre bp N fuel).
  Notation norep_spec := (norep_spec bre bp N fuel).
  Notation ins_field := (ins_field bre bp N fuel Nbp HN Hfuel).

  (* ---- RN_ALT: FORK, the first branch, JUMP, the second branch; the fork's second target and the jump's target are stored
     after the branches have been emitted *)
  Lemma norep_alt x y : emit_spec x -> emit_spec y -> norep_spec (NAlt x y).
  Proof.
    intros IHx IHy m lo hi bt b cells d H Hok Es Hfit Hh1 Hh2 Hd. cbn [tree_in eok nnorep height enorep] in *.
    destruct H as [k [b0 [px [py [Ebt [Hx [Hy [Hb0 [Hn Hdd]]]]]]]]]. injection Ebt as ->. destruct Hok as [Hokx Hoky].
    do 2 (destruct d as [|d]; [lia|]). pose proof (tree_in_le _ _ _ _ _ Hx) as Lx. pose proof (tree_in_le _ _ _ _ _ Hy) as Ly.
    destruct (est_lt _ _ _ _ _ _ Es) as [B1 B2]. pose proof Es as [_ [_ Cl]].
    assert (Wx : length (emit_n x (S b)) = nlen x) by (apply emit_n_length, eok_wf; exact Hokx).
    set (q := (S b + nlen x)%nat).
    assert (Wy : length (emit_n y (S q)) = nlen y) by (apply emit_n_length, eok_wf; exact Hoky).
    (* FORK with its first target *)
    destruct (ins_field m b cells 102 3 (Z.of_nat (S b)) d Es ltac:(lia) ltac:(unfold i32; lia) ltac:(lia) ltac:(lia))
      as [m1 [m2 [cA [cB [C1 [E1 [S2 [E2 [L2 [F2 [K21 [K22 [K23 [F1 L1]]]]]]]]]]]]]].
    assert (Hn1 : nth_error m1 b0 = Some (node_cells 0 (VInt 0) px py 1 1 0 124)) by (rewrite F1 by lia; exact Hn).
    assert (Hn2 : nth_error m2 b0 = Some (node_cells 0 (VInt 0) px py 1 1 0 124)) by (rewrite F2 by lia; exact Hn).
    assert (Hx2 : tree_in m2 x lo k px) by (apply (tree_in_same m); [exact Hx|intros j Hj; apply F2; lia]).
    (* the first branch *)
    destruct (IHx m2 lo k px (S b) cB (S d) Hx2 Hokx E2 ltac:(lia) ltac:(lia) ltac:(lia) ltac:(lia)) as [m3 [C3 P3]].
    pose proof P3 as [c3 [E3 [G3 [K3 [L3 M3]]]]]. rewrite Wx in E3. fold q in E3.
    assert (Hn3 : nth_error m3 b0 = Some (node_cells 0 (VInt 0) px py 1 1 0 124)) by (rewrite M3 by lia; exact Hn2).
    (* JUMP, and the fork's second target *)
    destruct (ins_field m3 q c3 106 4 0 d E3 ltac:(unfold q; lia) ltac:(unfold i32; lia) ltac:(lia) ltac:(lia))
      as [m4 [_ [cD [_ [C4 [E4 [_ [_ [_ [_ [_ [_ [_ [F4 L4]]]]]]]]]]]]]].
    destruct (est_lt _ _ _ _ _ _ E3) as [B31 B32]. pose proof E3 as [_ [_ Cl3]].
    assert (EcD : cD = upd c3 (6 * q + 2) (VInt 106)).
    { destruct (tr_re_insert bre bp N fuel Nbp HN m3 q c3 106 d E3 ltac:(unfold q; lia) ltac:(unfold i32; lia)) as [C4' E4']. rewrite C4' in C4. injection C4 as C4.
      destruct E4 as [_ [X _]]. rewrite <- C4 in X. rewrite mem_upd_same in X by mlen. injection X as <-. reflexivity. }
    assert (LcD : length cD = (6 * N)%nat) by (destruct E4 as [_ [_ X]]; exact X).
    destruct (st_cell bre bp N Nbp m4 (S q) cD (6 * b + 4) (VInt (Z.of_nat (S q))) E4 ltac:(lia)) as [S5 E5].
    set (cE := upd cD (6 * b + 4) (VInt (Z.of_nat (S q)))) in *. set (m5 := upd m4 bp cE) in *.
    assert (L5 : length m5 = length m3) by (unfold m5; rewrite upd_length by lia; exact L4).
    assert (F5 : forall j, j <> bre -> j <> bp -> nth_error m5 j = nth_error m3 j) by (intros j N1 N2; unfold m5; rewrite mem_upd_other by (try lia; exact N2); apply F4; assumption).
    assert (Hn4 : nth_error m4 b0 = Some (node_cells 0 (VInt 0) px py 1 1 0 124)) by (rewrite F4 by lia; exact Hn3).
    assert (Hn5 : nth_error m5 b0 = Some (node_cells 0 (VInt 0) px py 1 1 0 124)) by (rewrite F5 by lia; exact Hn3).
    assert (Hy5 : tree_in m5 y k b0 py).
    { apply (tree_in_same m); [exact Hy|]. intros j Hj. rewrite F5 by lia. rewrite M3 by lia. apply F2; lia. }
    (* the second branch *)
    destruct (IHy m5 k b0 py (S q) cE (S d) Hy5 Hoky E5 ltac:(unfold q; lia) ltac:(lia) ltac:(lia) ltac:(lia)) as [m6 [C6 P6]].
    pose proof P6 as [c6 [E6 [G6 [K6 [L6 M6]]]]]. rewrite Wy in E6.
    assert (Hn6 : nth_error m6 b0 = Some (node_cells 0 (VInt 0) px py 1 1 0 124)) by (rewrite M6 by lia; exact Hn5).
    (* the jump's target *)
    destruct (st_cell bre bp N Nbp m6 (S q + nlen y) c6 (6 * q + 3) (VInt (Z.of_nat (S q + nlen y))) E6 ltac:(unfold q; lia)) as [S7 E7].
    set (cF := upd c6 (6 * q + 3) (VInt (Z.of_nat (S q + nlen y)))) in *. set (m7 := upd m6 bp cF) in *.
    destruct (est_lt _ _ _ _ _ _ E6) as [B61 B62]. pose proof E6 as [_ [_ Cl6]].
    assert (L7 : length m7 = length m6) by (unfold m7; apply upd_length; lia).
    assert (Hn7 : nth_error m7 b0 = Some (node_cells 0 (VInt 0) px py 1 1 0 124)) by (unfold m7; rewrite mem_upd_other by lia; exact Hn6).
    exists m7. split.
    - destruct (ptr0_cases px (tree_in_ptr0 _ _ _ _ _ Hx)) as [->|[bx ->]]; destruct (ptr0_cases py (tree_in_ptr0 _ _ _ _ _ Hy)) as [->|[bz ->]];
      (enter F_rnode_emitnorep cf_rnode_emitnorep; xs; xld Hn; xs; zeqb_const; xs;
       rewrite C1; xs; rewrite (ld_p bre bp N Nbp _ _ _ E1); xs; rewrite (ld_n bre bp N Nbp _ _ _ E1); xs; rewrite !(wrap_I32_id (Z.of_nat (S b))) by lia;
       replace (0 + 6 * Z.of_nat b + 1 * 3) with (Z.of_nat (6 * b + 3)) by lia; rewrite S2; xs;
       xld Hn2; xs; rewrite C3; xs; rewrite C4; xs; rewrite (ld_p bre bp N Nbp _ _ _ E4); xs; rewrite (ld_n bre bp N Nbp _ _ _ E4); xs;
       rewrite !(wrap_I32_id (Z.of_nat (S q))) by (unfold q; lia);
       replace (0 + 6 * Z.of_nat b + 1 * 4) with (Z.of_nat (6 * b + 4)) by lia; rewrite S5; xs; fold cE m5;
       xld Hn5; xs; rewrite C6; xs; rewrite (ld_p bre bp N Nbp _ _ _ E6); xs; rewrite (ld_n bre bp N Nbp _ _ _ E6); xs;
       rewrite !(wrap_I32_id (Z.of_nat (S q + nlen y))) by (unfold q; lia);
       replace (0 + 6 * Z.of_nat q + 1 * 3) with (Z.of_nat (6 * q + 3)) by lia; rewrite S7; xs; fold cF m7;
       xld Hn7; xs; zeqb_const; xs; xld Hn7; xs; zeqb_const; xs; xld Hn7; xs; zeqb_const; xs; reflexivity).
    - exists cF. replace (b + 1)%nat with (S b) by lia. replace (b + 2 + nlen x)%nat with (S q) by (unfold q; lia). replace (S q + nlen y)%nat with (S q + nlen y)%nat by reflexivity.
      rewrite !app_length, Wx, Wy. cbn [length]. replace (b + (1 + (nlen x + (1 + nlen y))))%nat with (S q + nlen y)%nat by (unfold q; lia).
      split; [exact E7|].
      assert (AF : forall j, j <> (6 * q + 3)%nat -> nth_error cF j = nth_error c6 j) by (intros j Nj; unfold cF; apply nth_upd_other; lia).
      assert (AE : forall j, j <> (6 * b + 4)%nat -> j <> (6 * q + 2)%nat -> nth_error cE j = nth_error c3 j).
      { intros j N1 N2. unfold cE. rewrite nth_upd_other by lia. rewrite EcD. apply nth_upd_other; lia. }
      split; [intros j Hj; rewrite AF by (unfold q; lia); rewrite G6 by (unfold q; lia); rewrite AE by (unfold q; lia); rewrite G3 by lia; apply K23; lia|].
      split.
      { apply (code_ok_app bre bp N Nbp); [apply code_ok_one|apply (code_ok_app bre bp N Nbp); [|apply (code_ok_app bre bp N Nbp); [apply code_ok_one|]]].
        - (* FORK *)
          split; [|split].
          + rewrite AF by (unfold q; lia). rewrite G6 by (unfold q; lia). rewrite AE by (unfold q; lia). rewrite G3 by lia. exact K21.
          + rewrite AF by (unfold q; lia). rewrite G6 by (unfold q; lia). rewrite AE by (unfold q; lia). rewrite G3 by lia. exact K22.
          + rewrite AF by (unfold q; lia). rewrite G6 by (unfold q; lia). unfold cE. apply nth_upd_same. lia.
        - (* the first branch *)
          cbn [length]. replace (b + 1)%nat with (S b) by lia.
          apply (code_ok_same bre bp N Nbp m3 m7 c3 cF (length m2) (length m3)); [exact K3| | |lia|lia].
          + intros j Hj. unfold m7. rewrite mem_upd_other by lia. rewrite M6 by lia. apply F5; lia.
          + intros j Hj. rewrite Wx in Hj. fold q in Hj. rewrite AF by lia. rewrite G6 by lia. apply AE; lia.
        - (* JUMP *)
          cbn [length]. rewrite Wx. replace (b + 1 + nlen x)%nat with q by (unfold q; lia).
          replace (b + 2 + nlen x + nlen y)%nat with (S q + nlen y)%nat by (unfold q; lia).
          split; [|unfold cF; apply nth_upd_same; lia].
          rewrite AF by lia. rewrite G6 by lia. unfold cE. rewrite nth_upd_other by lia. rewrite EcD. apply nth_upd_same. lia.
        - (* the second branch *)
          cbn [length]. rewrite Wx. cbn [length]. replace (b + 1 + nlen x + 1)%nat with (S q) by (unfold q; lia).
          apply (code_ok_same bre bp N Nbp m6 m7 c6 cF (length m5) (length m6)); [exact K6| | |lia|unfold m7; rewrite upd_length by lia; lia].
          + intros j Hj. unfold m7. apply mem_upd_other; lia.
          + intros j Hj. apply AF. lia. }
      split; [unfold m7; rewrite upd_length by lia; lia|].
      intros j Hj N1 N2. unfold m7. rewrite mem_upd_other by (try lia; exact N2). rewrite M6 by (try lia; assumption). rewrite F5 by assumption.
      rewrite M3 by (try lia; assumption). apply F2; assumption.
  Qed.

  (* ---- rnode_emit from rnode_emitnorep: the repetition loops of TrRegexEmit.emit_body_ok *)
  Lemma tree_root_all (m : mem) t lo hi p : tree_in m t lo hi p -> t <> NNil ->
    exists bt c0 c1 c2 c3 c6 c7, p = VPtr bt 0 /\ (lo <= bt < hi)%nat /\
      nth_error m bt = Some [c0; c1; c2; c3; VInt (fst (node_counts t)); VInt (snd (node_counts t)); c6; c7].
  Proof.
    intros H Hne. destruct t as [|a mn mx|x g mn mx|x y|x y]; [congruence| | | |].
    - destruct (tree_root m _ lo hi p H I) as [b [c0 [c1 [c2 [c3 [c6 [c7 [E [L [Hn _]]]]]]]]]]. exists b, c0, c1, c2, c3, c6, c7. auto.
    - destruct (tree_root m _ lo hi p H I) as [b [c0 [c1 [c2 [c3 [c6 [c7 [E [L [Hn _]]]]]]]]]]. exists b, c0, c1, c2, c3, c6, c7. auto.
    - cbn [tree_in] in H. destruct H as [k [b [px [py [-> [Hx [Hy [Hb [Hn _]]]]]]]]].
      pose proof (tree_in_le _ _ _ _ _ Hx). pose proof (tree_in_le _ _ _ _ _ Hy). do 7 eexists. split; [reflexivity|]. split; [lia|exact Hn].
    - cbn [tree_in] in H. destruct H as [k [b [px [py [-> [Hx [Hy [Hb [Hn _]]]]]]]]].
      pose proof (tree_in_le _ _ _ _ _ Hx). pose proof (tree_in_le _ _ _ _ _ Hy). do 7 eexists. split; [reflexivity|]. split; [lia|exact Hn].
  Qed.
  Lemma eok_repok t : eok t -> t <> NNil -> repok (fst (node_counts t)) (snd (node_counts t)).
  Proof.
    destruct t as [|a mn mx|x g mn mx|x y|x y]; cbn [eok node_counts fst snd]; intros H Hne; try congruence; try (apply H);
      unfold repok; lia.
  Qed.

  Lemma emit_from_norep t : t <> NNil -> norep_spec t -> emit_spec t.
  Proof.
    intros Hne Hnr m lo hi p b cells d H Hok Es Hfit Hh1 Hh2 Hd.
    destruct (tree_root_all m t lo hi p H Hne) as [bt [c0 [c1 [c2 [c3 [c6 [c7 [-> [Hbt Hroot]]]]]]]]].
    destruct (eok_repok t Hok Hne) as [Hmn [Hmx [Hmxl Hwf]]].
    destruct (emit_n_norep t b Hne) as [En Ln]. rewrite En. rewrite Ln in Hfit.
    do 2 (destruct d as [|d]; [lia|]). destruct (est_lt _ _ _ _ _ _ Es) as [B1 B2].
    assert (E : forall (m0 : mem) b0 cells0, tin t lo hi bt c0 c1 c2 c3 c6 c7 (fst (node_counts t)) (snd (node_counts t)) m0 -> est m0 b0 cells0 -> (b0 + nnorep t <= N)%nat ->
      exists m', callf cprog fuel (S d) F_rnode_emitnorep [VPtr bt 0; VPtr bre 0] m0 = Ok (VUndef, m') /\ emit_post m0 cells0 b0 (enorep t b0) m').
    { intros m0 b0 cells0 [T0 _] Es0 Hf0. apply (Hnr m0 lo hi bt b0 cells0 (S d) T0 Hok Es0 Hf0 Hh1 Hh2). lia. }
    exact (emit_body_ok bre bp N fuel Nbp HN t lo hi bt c0 c1 c2 c3 c6 c7 (fst (node_counts t)) (snd (node_counts t)) (enorep t) (nnorep t) d
             Hh1 Hh2 Hbt Hmn Hmx Hmxl (fun b0 => enorep_length t b0 Hok) E (length m) ltac:(lia) ltac:(lia) ltac:(lia) Hwf Hfuel m b cells eq_refl (conj H Hroot) Es Hfit).
  Qed.

  Theorem emit_ok : forall t, emit_spec t.
  Proof.
    induction t as [|a mn mx|x IHx g mn mx|x IHx y IHy|x IHx y IHy].
    - apply emit_nil; assumption.
    - apply emit_from_norep; [discriminate|]. apply norep_atom; assumption.
    - apply emit_from_norep; [discriminate|]. apply norep_grp; assumption.
    - apply emit_from_norep; [discriminate|]. apply norep_cat; assumption.
    - apply emit_from_norep; [discriminate|]. apply norep_alt; assumption.
  Qed.
End Emit3.
