(* Properties_C12.v -- C12: the literal-pattern fast path (rstr.c) is indistinguishable from the
   general regex engine.  Statements only; every proof is `exact <lemma>`.
   What is proved here: the model of rstr_simple / rstr_find equals the declarative meaning of a
   simple pattern (RstrDefs.spec_find) for every pattern, line and flag set.  The tie
   "spec_find = what regex.c answers" is checked on the real code by tools/props/c12.py. *)
From Coq Require Import List NArith ZArith Bool.
From NV Require Import Bytes GenConsts RstrDefs RstrProps.
Import ListNotations.
Local Open Scope N_scope.

(* A pattern that the classifier accepts is exactly [^][\<]lit[\>][$], and lit contains no byte
   that regex.c's ratom_read treats as an operator (re_meta, re_rep: generated from regex.c) nor
   any byte of rstr.c's own disqualifying set (rstr_meta: generated from rstr.c). *)
Theorem C12_classifier : forall ic p rs, rstr_simple ic p = Some rs ->
  p = spat_string (spat_of rs) /\
  Forall (fun c => ~ In c re_meta /\ ~ In c re_rep /\ ~ In c rstr_meta) (r_str rs).
Proof. exact classifier. Qed.
Print Assumptions C12_classifier.

(* every operator byte of the engine is disqualifying for the fast path *)
Theorem C12_operator_sets : forall c, In c re_meta \/ In c re_rep -> in_set c rstr_meta = true.
Proof. exact re_meta_covered. Qed.
Print Assumptions C12_operator_sets.

(* conversely every [^][\<]lit[\>][$] with an operator-free literal takes the fast path with
   exactly that decomposition *)
Theorem C12_simple_forms : forall ic p, Forall (fun c => in_set c rstr_meta = false) (p_lit p) ->
  rstr_simple ic (spat_string p) = Some (mk_rstr (p_lit p) ic (p_lbeg p) (p_lend p) (p_wbeg p) (p_wend p)).
Proof. exact rstr_simple_complete. Qed.
Print Assumptions C12_simple_forms.

(* found/not-found and offsets: for every pattern the classifier accepts, every newline-terminated
   line and every flag set (ignore-case, NOTBOL, NOTEOL) the
   byte scan of rstr_find answers the leftmost position at which the literal occurs and the
   anchors hold on the real neighbouring bytes *)
Theorem C12_equiv_spec : forall ic p rs content notbol noteol,
  rstr_simple ic p = Some rs ->
  ~ In 0 content -> ~ In 10 content -> ~ In 10 p ->
  rstr_find rs (content ++ [10]) notbol noteol = spec_res (spat_of rs) ic notbol content.
Proof. exact equiv_spec_pat. Qed.
Print Assumptions C12_equiv_spec.

(* groups other than the whole match are reported unset *)
Theorem C12_groups_unset : forall n so eo i, (1 <= i < n)%nat ->
  nth i (rstr_groups n so eo) (0, 0)%Z = ((-1)%Z, (-1)%Z).
Proof. exact groups_unset. Qed.
Print Assumptions C12_groups_unset.

(* the scan reads no byte before the line or after its terminator *)
Theorem C12_in_bounds : forall rs content notbol noteol,
  ~ In 0 content -> ~ In 10 content -> ~ In 10 (r_str rs) ->
  rstr_find rs (content ++ [10]) notbol noteol <> OOB.
Proof. exact in_bounds. Qed.
Print Assumptions C12_in_bounds.

(* non-vacuity: ^\<ab\>$ is accepted, and on "Ab" with ignore-case it is found at (0,2);
   \<a on "ba a" is found at 3, not at 1 *)
Example C12_nonvacuous :
  (exists rs, rstr_simple true [94; 92; 60; 97; 98; 92; 62; 36] = Some rs /\
     rstr_find rs ([65; 98] ++ [10]) false false = Found 0 2) /\
  (exists rs, rstr_simple false [92; 60; 97] = Some rs /\
     rstr_find rs ([98; 97; 32; 97] ++ [10]) false false = Found 3 4) /\
  (exists rs, rstr_simple false [97; 36] = Some rs /\          (* a$ under NOTEOL *)
     rstr_find rs ([97] ++ [10]) false true = Found 0 1) /\
  rstr_simple false [97; 124; 98] = None.
Proof. vm_compute. repeat split; eexists; split; reflexivity. Qed.
