(* Properties_C12.v -- C12: the literal-pattern fast path (rstr.c) is indistinguishable from the
   general regex engine.  Statements only; every proof is `exact <lemma>`.
   What is proved here: the model of rstr_simple / rstr_find equals the declarative meaning of a
   simple pattern (RstrDefs.spec_find) for every pattern, line and flag set.  The tie
   "spec_find = what regex.c answers" is checked on the real code by tools/props/c12.py. *)
From Coq Require Import List NArith ZArith Bool.
From NV Require Import Bytes GenConsts RstrDefs RstrProps RstrEngine5 RstrEngine6.
Import ListNotations.
Local Open Scope N_scope.

(* A pattern that the classifier accepts is exactly [^][\<]lit[\>][$], and lit contains no byte
   that regex.c's ratom_read treats as an operator (re_meta, re_rep: generated from regex.c) nor
   any byte of rstr.c's own disqualifying set (rstr_meta: generated from rstr.c). *)
Theorem C12_classifier : forall ic p rs, rstr_simple ic p = Some rs ->
  p = spat_string (spat_of rs) /\
  Forall (fun c => ~ In c re_meta /\ ~ In c re_rep /\ ~ In c rstr_meta) (r_str rs).
Proof. exact classifier. Qed.
Print Assumptions C12_classifier.

(* every operator byte of the engine is disqualifying for the fast path *)
Theorem C12_operator_sets : forall c, In c re_meta \/ In c re_rep -> in_set c rstr_meta = true.
Proof. exact re_meta_covered. Qed.
Print Assumptions C12_operator_sets.

(* conversely every [^][\<]lit[\>][$] with an operator-free literal takes the fast path with
   exactly that decomposition *)
Theorem C12_simple_forms : forall ic p, Forall (fun c => in_set c rstr_meta = false) (p_lit p) ->
  rstr_simple ic (spat_string p) = Some (mk_rstr (p_lit p) ic (p_lbeg p) (p_lend p) (p_wbeg p) (p_wend p)).
Proof. exact rstr_simple_complete. Qed.
Print Assumptions C12_simple_forms.

(* found/not-found and offsets: for every pattern the classifier accepts, every newline-terminated
   line and every flag set (ignore-case, NOTBOL, NOTEOL) the
   byte scan of rstr_find answers the leftmost position at which the literal occurs and the
   anchors hold on the real neighbouring bytes *)
Theorem C12_equiv_spec : forall ic p rs content notbol noteol,
  rstr_simple ic p = Some rs ->
  ~ In 0 content -> ~ In 10 content -> ~ In 10 p ->
  rstr_find rs (content ++ [10]) notbol noteol = spec_res (spat_of rs) ic notbol content.
Proof. exact equiv_spec_pat. Qed.
Print Assumptions C12_equiv_spec.

(* groups other than the whole match are reported unset *)
Theorem C12_groups_unset : forall n so eo i, (1 <= i < n)%nat ->
  nth i (rstr_groups n so eo) (0, 0)%Z = ((-1)%Z, (-1)%Z).
Proof. exact groups_unset. Qed.
Print Assumptions C12_groups_unset.

(* the scan reads no byte before the line or after its terminator *)
Theorem C12_in_bounds : forall rs content notbol noteol,
  ~ In 0 content -> ~ In 10 content -> ~ In 10 (r_str rs) ->
  rstr_find rs (content ++ [10]) notbol noteol <> OOB.
Proof. exact in_bounds. Qed.
Print Assumptions C12_in_bounds.

(* non-vacuity: ^\<ab\>$ is accepted, and on "Ab" with ignore-case it is found at (0,2);
   \<a on "ba a" is found at 3, not at 1 *)
Example C12_nonvacuous :
  (exists rs, rstr_simple true [94; 92; 60; 97; 98; 92; 62; 36] = Some rs /\
     rstr_find rs ([65; 98] ++ [10]) false false = Found 0 2) /\
  (exists rs, rstr_simple false [92; 60; 97] = Some rs /\
     rstr_find rs ([98; 97; 32; 97] ++ [10]) false false = Found 3 4) /\
  (exists rs, rstr_simple false [97; 36] = Some rs /\          (* a$ under NOTEOL *)
     rstr_find rs ([97] ++ [10]) false true = Found 0 1) /\
  rstr_simple false [97; 124; 98] = None.
Proof. vm_compute. repeat split; eexists; split; reflexivity. Qed.

(* ------------------------------------------------------------------------------------------ *)
(* SPEC = what the model of the general engine answers (RstrEngine.v .. RstrEngine6.v).
   For every pattern the classifier accepts, ignore-case on or off, NOTBOL / NOTEOL, every
   newline-terminated line and every depth limit d >= 1 (regex.c: NDEPT = 256) and group count
   n >= 1: rset_make compiles "((" p "))" to a fork-free program, and rset_find answers set 0 with
   group 0 = (i, i + |literal|) at the leftmost position i of the spec, groups >= 1 unset, no depth
   cut; or -1 when the spec finds nothing.
   Hypotheses that are needed and why: the line and the literal are valid UTF-8 without NUL
   (chars cs, Forall scalar) -- regexec starts only at character boundaries (uc_len), \< \> step
   back with uc_beg, and REG_ICASE compares decoded code points, whereas rstr.c and the spec work
   on bytes; on malformed input the two really differ.  The line holds no newline but its last
   byte; the pattern holds no newline. *)
Theorem C12_equiv_engine : forall (ic : bool) p rs cs lcs (notbol noteol : bool) d n,
  rstr_simple ic p = Some rs ->
  ~ In 10 (UcSpec.chars cs) -> ~ In 10 p ->
  Forall UcSpec.scalar cs -> r_str rs = UcSpec.chars lcs -> Forall UcSpec.scalar lcs ->
  (1 <= d)%nat -> (1 <= n)%nat ->
  exists r,
    RsetDefs.rset_make [Some p] (if ic then RE_ICASE else 0%Z) = ReSyntax.Ok (Some r) /\
    RsetDefs.rset_find_d d r (UcSpec.chars cs ++ [10]) n
      (Z.lor (if notbol then RE_NOTBOL else 0%Z) (if noteol then RE_NOTEOL else 0%Z)) =
    match spec_find (spat_of rs) ic notbol (UcSpec.chars cs) with
    | Some i => (ReSyntax.Ok (0%Z, (Z.of_nat i, Z.of_nat (i + length (r_str rs))) :: repeat ((-1)%Z, (-1)%Z) (n - 1)), 0)
    | None => (ReSyntax.Ok ((-1)%Z, []), 0)
    end.
Proof. exact equiv_engine. Qed.
Print Assumptions C12_equiv_engine.

(* the property itself, model against model: the fast path (rstr_find) and the general engine
   (rset_find on the same pattern) report the same found / not-found, the same offsets, and groups
   other than the whole match unset *)
Theorem C12_fastpath_engine : forall (ic : bool) p rs cs lcs (notbol noteol : bool) d n,
  rstr_simple ic p = Some rs ->
  ~ In 10 (UcSpec.chars cs) -> ~ In 10 p ->
  Forall UcSpec.scalar cs -> r_str rs = UcSpec.chars lcs -> Forall UcSpec.scalar lcs ->
  (1 <= d)%nat -> (1 <= n)%nat ->
  exists r,
    RsetDefs.rset_make [Some p] (if ic then RE_ICASE else 0%Z) = ReSyntax.Ok (Some r) /\
    RsetDefs.rset_find_d d r (UcSpec.chars cs ++ [10]) n
      (Z.lor (if notbol then RE_NOTBOL else 0%Z) (if noteol then RE_NOTEOL else 0%Z)) =
    match rstr_find rs (UcSpec.chars cs ++ [10]) notbol noteol with
    | Found so eo => (ReSyntax.Ok (0%Z, rstr_groups n so eo), 0)
    | NotFound => (ReSyntax.Ok ((-1)%Z, []), 0)
    | OOB => (ReSyntax.OOB ReSyntax.SOther, 0)
    end.
Proof. exact fastpath_engine. Qed.
Print Assumptions C12_fastpath_engine.

(* non-vacuity of the engine side: \<a on "ba a" through rset_make / rset_find: set 0, (3,4), group 1
   unset; ^\<ab\>$ with ignore-case on "Ab": (0,2); "é" (c3 a9) with ignore-case on "xé": (1,3) *)
Example C12_engine_nonvacuous :
  (exists r, RsetDefs.rset_make [Some [92; 60; 97]] 0%Z = ReSyntax.Ok (Some r) /\
     RsetDefs.rset_find_d 256 r ([98; 97; 32; 97] ++ [10]) 2 0%Z = (ReSyntax.Ok (0%Z, [(3, 4); (-1, -1)]%Z), 0)) /\
  (exists r, RsetDefs.rset_make [Some [94; 92; 60; 97; 98; 92; 62; 36]] RE_ICASE = ReSyntax.Ok (Some r) /\
     RsetDefs.rset_find_d 256 r ([65; 98] ++ [10]) 1 0%Z = (ReSyntax.Ok (0%Z, [(0, 2)]%Z), 0)) /\
  (exists r, RsetDefs.rset_make [Some [195; 169]] RE_ICASE = ReSyntax.Ok (Some r) /\
     RsetDefs.rset_find_d 256 r ([120; 195; 169] ++ [10]) 1 0%Z = (ReSyntax.Ok (0%Z, [(1, 3)]%Z), 0)).
Proof. repeat split; eexists; (split; [vm_compute; reflexivity|vm_compute; reflexivity]). Qed.
