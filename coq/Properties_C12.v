(* Properties_C12.v -- C12: the literal-pattern fast path (rstr.c) is indistinguishable from the
   general regex engine.  Statements only; every proof is `exact <lemma>`.
   What is proved here: the model of rstr_simple / rstr_find equals the declarative meaning of a
   simple pattern (RstrDefs.spec_find) for every pattern, line and flag set.  The tie
   "spec_find = what regex.c answers" is checked on the real code by tools/props/c12.py. *)
From Coq Require Import List NArith ZArith Bool.
From NV Require Import Bytes GenConsts RstrDefs RstrProps RstrEngine5 RstrEngine6.
Import ListNotations.
Local Open Scope N_scope.

(* A pattern that the classifier accepts is exactly [^][\<]lit[\>][$], and lit contains no byte
   that regex.c's ratom_read treats as an operator (re_meta, re_rep: generated from regex.c) nor
   any byte of rstr.c's own disqualifying set (rstr_meta: generated from rstr.c). *)
Theorem C12_classifier : forall ic p rs, rstr_simple ic p = Some rs ->
  p = spat_string (spat_of rs) /\
  Forall (fun c => ~ In c re_meta /\ ~ In c re_rep /\ ~ In c rstr_meta) (r_str rs).
Proof. exact classifier. Qed.
Print Assumptions C12_classifier.

(* every operator byte of the engine is disqualifying for the fast path *)
Theorem C12_operator_sets : forall c, In c re_meta \/ In c re_rep -> in_set c rstr_meta = true.
Proof. exact re_meta_covered. Qed.
Print Assumptions C12_operator_sets.

(* conversely every [^][\<]lit[\>][$] with an operator-free literal takes the fast path with
   exactly that decomposition *)
Theorem C12_simple_forms : forall ic p, Forall (fun c => in_set c rstr_meta = false) (p_lit p) ->
  rstr_simple ic (spat_string p) = Some (mk_rstr (p_lit p) ic (p_lbeg p) (p_lend p) (p_wbeg p) (p_wend p)).
Proof. exact rstr_simple_complete. Qed.
Print Assumptions C12_simple_forms.

(* found/not-found and offsets: for every pattern the classifier accepts, every newline-terminated
   line and every flag set (ignore-case, NOTBOL, NOTEOL) the
   byte scan of rstr_find answers the leftmost position at which the literal occurs and the
   anchors hold on the real neighbouring bytes *)
Theorem C12_equiv_spec : forall ic p rs content notbol noteol,
  rstr_simple ic p = Some rs ->
  ~ In 0 content -> ~ In 10 content -> ~ In 10 p ->
  rstr_find rs (content ++ [10]) notbol noteol = spec_res (spat_of rs) ic notbol content.
Proof. exact equiv_spec_pat. Qed.
Print Assumptions C12_equiv_spec.

(* groups other than the whole match are reported unset *)
Theorem C12_groups_unset : forall n so eo i, (1 <= i < n)%nat ->
  nth i (rstr_groups n so eo) (0, 0)%Z = ((-1)%Z, (-1)%Z).
Proof. exact groups_unset. Qed.
Print Assumptions C12_groups_unset.

(* the scan reads no byte before the line or after its terminator *)
Theorem C12_in_bounds : forall rs content notbol noteol,
  ~ In 0 content -> ~ In 10 content -> ~ In 10 (r_str rs) ->
  rstr_find rs (content ++ [10]) notbol noteol <> OOB.
Proof. exact in_bounds. Qed.
Print Assumptions C12_in_bounds.

(* non-vacuity: ^\<ab\>$ is accepted, and on "Ab" with ignore-case it is found at (0,2);
   \<a on "ba a" is found at 3, not at 1 *)
Example C12_nonvacuous :
  (exists rs, rstr_simple true [94; 92; 60; 97; 98; 92; 62; 36] = Some rs /\
     rstr_find rs ([65; 98] ++ [10]) false false = Found 0 2) /\
  (exists rs, rstr_simple false [92; 60; 97] = Some rs /\
     rstr_find rs ([98; 97; 32; 97] ++ [10]) false false = Found 3 4) /\
  (exists rs, rstr_simple false [97; 36] = Some rs /\          (* a$ under NOTEOL *)
     rstr_find rs ([97] ++ [10]) false true = Found 0 1) /\
  rstr_simple false [97; 124; 98] = None.
Proof. vm_compute. repeat split; eexists; split; reflexivity. Qed.

(* ------------------------------------------------------------------------------------------ *)
(* SPEC = what the model of the general engine answers (RstrEngine.v .. RstrEngine6.v).
   For every pattern the classifier accepts, ignore-case on or off, NOTBOL / NOTEOL, every
   newline-terminated line and every depth limit d >= 1 (regex.c: NDEPT = 256) and group count
   n >= 1: rset_make compiles "((" p "))" to a fork-free program, and rset_find answers set 0 with
   group 0 = (i, i + |literal|) at the leftmost position i of the spec, groups >= 1 unset, no depth
   cut; or -1 when the spec finds nothing.
   Hypotheses that are needed and why: the line and the literal are valid UTF-8 without NUL
   (chars cs, Forall scalar) -- regexec starts only at character boundaries (uc_len), \< \> step
   back with uc_beg, and REG_ICASE compares decoded code points, whereas rstr.c and the spec work
   on bytes; on malformed input the two really differ.  The line holds no newline but its last
   byte; the pattern holds no newline. *)
Theorem C12_equiv_engine : forall (ic : bool) p rs cs lcs (notbol noteol : bool) d n,
  rstr_simple ic p = Some rs ->
  ~ In 10 (UcSpec.chars cs) -> ~ In 10 p ->
  Forall UcSpec.scalar cs -> r_str rs = UcSpec.chars lcs -> Forall UcSpec.scalar lcs ->
  (1 <= d)%nat -> (1 <= n)%nat ->
  exists r,
    RsetDefs.rset_make [Some p] (if ic then RE_ICASE else 0%Z) = ReSyntax.Ok (Some r) /\
    RsetDefs.rset_find_d d r (UcSpec.chars cs ++ [10]) n
      (Z.lor (if notbol then RE_NOTBOL else 0%Z) (if noteol then RE_NOTEOL else 0%Z)) =
    match spec_find (spat_of rs) ic notbol (UcSpec.chars cs) with
    | Some i => (ReSyntax.Ok (0%Z, (Z.of_nat i, Z.of_nat (i + length (r_str rs))) :: repeat ((-1)%Z, (-1)%Z) (n - 1)), 0)
    | None => (ReSyntax.Ok ((-1)%Z, []), 0)
    end.
Proof. exact equiv_engine. Qed.
Print Assumptions C12_equiv_engine.

(* the property itself, model against model: the fast path (rstr_find) and the general engine
   (rset_find on the same pattern) report the same found / not-found, the same offsets, and groups
   other than the whole match unset *)
Theorem C12_fastpath_engine : forall (ic : bool) p rs cs lcs (notbol noteol : bool) d n,
  rstr_simple ic p = Some rs ->
  ~ In 10 (UcSpec.chars cs) -> ~ In 10 p ->
  Forall UcSpec.scalar cs -> r_str rs = UcSpec.chars lcs -> Forall UcSpec.scalar lcs ->
  (1 <= d)%nat -> (1 <= n)%nat ->
  exists r,
    RsetDefs.rset_make [Some p] (if ic then RE_ICASE else 0%Z) = ReSyntax.Ok (Some r) /\
    RsetDefs.rset_find_d d r (UcSpec.chars cs ++ [10]) n
      (Z.lor (if notbol then RE_NOTBOL else 0%Z) (if noteol then RE_NOTEOL else 0%Z)) =
    match rstr_find rs (UcSpec.chars cs ++ [10]) notbol noteol with
    | Found so eo => (ReSyntax.Ok (0%Z, rstr_groups n so eo), 0)
    | NotFound => (ReSyntax.Ok ((-1)%Z, []), 0)
    | OOB => (ReSyntax.OOB ReSyntax.SOther, 0)
    end.
Proof. exact fastpath_engine. Qed.
Print Assumptions C12_fastpath_engine.

(* non-vacuity of the engine side: \<a on "ba a" through rset_make / rset_find: set 0, (3,4), group 1
   unset; ^\<ab\>$ with ignore-case on "Ab": (0,2); "é" (c3 a9) with ignore-case on "xé": (1,3) *)
Example C12_engine_nonvacuous :
  (exists r, RsetDefs.rset_make [Some [92; 60; 97]] 0%Z = ReSyntax.Ok (Some r) /\
     RsetDefs.rset_find_d 256 r ([98; 97; 32; 97] ++ [10]) 2 0%Z = (ReSyntax.Ok (0%Z, [(3, 4); (-1, -1)]%Z), 0)) /\
  (exists r, RsetDefs.rset_make [Some [94; 92; 60; 97; 98; 92; 62; 36]] RE_ICASE = ReSyntax.Ok (Some r) /\
     RsetDefs.rset_find_d 256 r ([65; 98] ++ [10]) 1 0%Z = (ReSyntax.Ok (0%Z, [(0, 2)]%Z), 0)) /\
  (exists r, RsetDefs.rset_make [Some [195; 169]] RE_ICASE = ReSyntax.Ok (Some r) /\
     RsetDefs.rset_find_d 256 r ([120; 195; 169] ++ [10]) 1 0%Z = (ReSyntax.Ok (0%Z, [(1, 3)]%Z), 0)).
Proof. repeat split; eexists; (split; [vm_compute; reflexivity|vm_compute; reflexivity]). Qed.

(* ------------------------------------------------------------------------------------------ *)
(* The model is the C text.  tools/c2clite.py translates isword, match_case and rstr_find of /repo/rstr.c
   into CLite terms (GenCFuncs.v: cf_rstr_isword, cf_match_case, cf_rstr_find) on every run; the theorems
   below say that running those terms under the checked semantics of CLite.v (every load and store inside
   its block, no signed overflow, no fuel or depth exhausted, the untranslated rset_find not reached) gives,
   for ALL inputs, the value of the hand-written model of RstrDefs.v.  Proofs: TrRstr.v. *)
From NV Require Import CLite CLiteProps GenCFuncs CLiteTac TrRstr.
Local Open Scope Z_scope.

(* static int isword(char *s): any byte of any string in memory, the terminator included *)
Theorem C12_tr_isword : forall m b s o d fuel, str_at m b s -> bytes_lt256 s -> (o <= length s)%nat ->
  callf cprog fuel (S d) F_rstr_isword [VPtr b (Z.of_nat o)] m = Ok (VInt (b2z (isword (nthb s o))), m).
Proof. exact tr_rstr_isword. Qed.
Print Assumptions C12_tr_isword.

(* static int match_case(char *s, char *r, int icase): any two C strings in memory, pointers at any offsets,
   any value of icase; the C function returns 1 or *r (a char): it is 0 exactly when the model says true;
   the memory is unchanged *)
Theorem C12_tr_match_case : forall m sb S bs R p q ic d fuel,
  str_at m sb S -> str_at m bs R -> nonul S -> nonul R ->
  (p <= length S)%nat -> (q <= length R)%nat -> (length R < fuel)%nat ->
  exists v, callf cprog fuel (Datatypes.S d) F_match_case [VPtr sb (Z.of_nat p); VPtr bs (Z.of_nat q); VInt ic] m = Ok (VInt v, m) /\
            (v =? 0) = match_case (skipn p S) (skipn q R) (negb (ic =? 0)).
Proof. exact tr_match_case. Qed.
Print Assumptions C12_tr_match_case.

(* int rstr_find(struct rstr *rs, char *s, int n, int *grps, int flg), rs->rs == NULL.
   rs points to a block [rs = NULL; str; icase; lbeg; lend; wbeg; wend] (rstr_block), str to the literal lit,
   s into a C string L at any offset o (the model sees the suffix), grps to a block of 2 * n cells with
   arbitrary (also indeterminate) contents; n may be <= 0.  Then the call returns 0 / -1 exactly as the model
   answers Found / NotFound (ret_of), the memory afterwards is the memory before except that the grps block
   holds rstr_groups n so eo when found (mem_of: upd m gb ...; unchanged when not found), and the model does
   not answer OOB.  Since every load of the C text is checked against its block, and the block of the line
   holds exactly the line and its terminator, the C text reads nothing outside them. *)
Theorem C12_tr_rstr_find : forall m rb bs sb gb lit L o ic lb le wb we n flg gold noteol d fuel,
  nth_error m rb = Some (rstr_block bs ic lb le wb we) ->
  str_at m bs lit -> str_at m sb L -> nth_error m gb = Some gold -> length gold = (2 * Z.to_nat n)%nat ->
  nonul lit -> nonul L -> (o <= length L)%nat ->
  int_ok ic -> int_ok lb -> int_ok le -> int_ok wb -> int_ok we -> 2 * n <= 2147483647 ->
  Z.of_nat (length lit) <= 2147483647 -> Z.of_nat (length L) <= 2147483647 ->
  (length lit < fuel)%nat -> (length L + Z.to_nat n + 1 < fuel)%nat ->
  let R := rstr_find (rs_of lit ic lb le wb we) (skipn o L) (nz (Z.land flg RE_NOTBOL)) noteol in
  callf cprog fuel (S (S d)) F_rstr_find [VPtr rb 0; VPtr sb (Z.of_nat o); VInt n; VPtr gb 0; VInt flg] m
  = Ok (VInt (ret_of R), mem_of m gb n R) /\ R <> OOB.
Proof. exact tr_rstr_find. Qed.
Print Assumptions C12_tr_rstr_find.

(* composed with C12_equiv_spec: the C TEXT of the fast path returns the declarative spec.  Same hypotheses
   on the line and the pattern as C12_equiv_spec / C12_in_bounds (no NUL, no newline but the terminator),
   plus: bytes are bytes (nonul = 0 < c < 256), lengths fit an int. *)
Theorem C12_tr_rstr_find_spec : forall m rb bs sb gb ic p rs content n flg gold d fuel,
  rstr_simple ic p = Some rs -> nonul p -> ~ In 10%N p -> nonul content -> ~ In 10%N content ->
  nth_error m rb = Some (rstr_block bs (b2z (r_icase rs)) (b2z (r_lbeg rs)) (b2z (r_lend rs)) (b2z (r_wbeg rs)) (b2z (r_wend rs))) ->
  str_at m bs (r_str rs) -> str_at m sb (content ++ [10%N]) ->
  nth_error m gb = Some gold -> length gold = (2 * Z.to_nat n)%nat -> 2 * n <= 2147483647 ->
  Z.of_nat (length p) <= 2147483647 -> Z.of_nat (length content) < 2147483647 ->
  (length p < fuel)%nat -> (length content + Z.to_nat n + 2 < fuel)%nat ->
  callf cprog fuel (S (S d)) F_rstr_find [VPtr rb 0; VPtr sb 0; VInt n; VPtr gb 0; VInt flg] m =
  match spec_find (spat_of rs) ic (nz (Z.land flg RE_NOTBOL)) content with
  | Some i => Ok (VInt 0, upd m gb (grp_block (rstr_groups (Z.to_nat n) (Z.of_nat i) (Z.of_nat (i + length (r_str rs))))))
  | None => Ok (VInt (-1), m)
  end.
Proof. exact tr_rstr_find_spec. Qed.
Print Assumptions C12_tr_rstr_find_spec.

(* non-vacuity: the translated rstr_find RUNS.  Memory: block 0 = struct rstr for \<ab (wbeg = 1), block 1 = "ab",
   block 2 = "x ab\n", block 3 = int grps[4], indeterminate.  n = 2: returns 0, grps = {2, 4, -1, -1}; the
   hypotheses of C12_tr_rstr_find hold for this memory and the model answers Found 2 4.  With NOTBOL and ^ab on
   the same line: -1, memory unchanged.  isword and match_case run too. *)
Definition C12_ex_mem (lb wb : Z) : mem :=
  [rstr_block 1 0 lb 0 wb 0; cstr_block [97; 98]; cstr_block [120; 32; 97; 98; 10]; [VUndef; VUndef; VUndef; VUndef]].
Example C12_tr_nonvacuous :
  callf cprog 100 3 F_rstr_find [VPtr 0 0; VPtr 2 0; VInt 2; VPtr 3 0; VInt 0] (C12_ex_mem 0 1)
    = Ok (VInt 0, [rstr_block 1 0 0 0 1 0; cstr_block [97; 98]; cstr_block [120; 32; 97; 98; 10];
                   [VInt 2; VInt 4; VInt (-1); VInt (-1)]]) /\
  rstr_find (rs_of [97; 98]%N 0 0 0 1 0) [120; 32; 97; 98; 10]%N false false = Found 2 4 /\
  (str_at (C12_ex_mem 0 1) 1 [97; 98]%N /\ str_at (C12_ex_mem 0 1) 2 [120; 32; 97; 98; 10]%N /\
   nonul [97; 98]%N /\ nonul [120; 32; 97; 98; 10]%N) /\
  callf cprog 100 3 F_rstr_find [VPtr 0 0; VPtr 2 0; VInt 2; VPtr 3 0; VInt RE_NOTBOL] (C12_ex_mem 1 0)
    = Ok (VInt (-1), C12_ex_mem 1 0) /\
  callf cprog 100 3 F_rstr_find [VPtr 0 0; VPtr 2 2; VInt 0; VPtr 3 4; VInt 0] (C12_ex_mem 1 0)
    = Ok (VInt 0, C12_ex_mem 1 0) /\
  callf cprog 100 1 F_rstr_isword [VPtr 2 1] (C12_ex_mem 0 1) = Ok (VInt 0, C12_ex_mem 0 1) /\
  callf cprog 100 1 F_match_case [VPtr 2 2; VPtr 1 0; VInt 0] (C12_ex_mem 0 1) = Ok (VInt 0, C12_ex_mem 0 1) /\
  callf cprog 100 1 F_match_case [VPtr 2 1; VPtr 1 0; VInt 1] (C12_ex_mem 0 1) = Ok (VInt 1, C12_ex_mem 0 1).
Proof.
  split; [vm_compute; reflexivity|]. split; [vm_compute; reflexivity|].
  split; [split; [reflexivity|]; split; [reflexivity|]; split; repeat (constructor; [split; reflexivity|]); constructor|].
  repeat split; vm_compute; reflexivity.
Qed.

(* ------------------------------------------------------------------------------------------ *)
(* The classifier and the constructor on the C text: rstr_simple, rstr_make, rstr_free of /repo/rstr.c (translated: GenCFuncs.F_rstr_simple,
   F_rstr_make, F_rstr_free; whitelist tools/c2clite.d/96a_rsetfind.list), proofs in coq/TrRstrMake.v.
   C12_classifier / C12_simple_forms above speak about the hand-written RstrDefs.rstr_simple; C12_tr_rstr_find assumes a struct rstr of the
   right shape in memory.  The theorems below tie the classifier to the C TEXT and show that rstr_make BUILDS that struct, so that the chain
   pattern string -> rstr_make -> rstr_find on the C text equals the declarative spec without any assumption about the struct.
   struct rstr = block of 7 cells (rs, str, icase, lbeg, lend, wbeg, wend) = TrRstr.rstr_block; the literal "\\.*+?[]{}()$|^" of rstr_simple
   is the global block G_meta (= GenConsts.rstr_meta, which tools/translate.py reads from the same line of rstr.c); c2clite gives the
   address-taken parameter `re` of rstr_make a 1-cell block of its own, which the term never frees. *)
From NV Require Import CLiteExt TrRstrMake.

(* static int rstr_simple(struct rstr *rs, char *re): rs points to ANY 7-cell block, re into a NUL-free C string at any offset o.
   The model says Some r: the call returns 0, lbeg / lend / wbeg / wend hold r's flags, rs->str points to a FRESH block (index length m)
   holding exactly r's literal and its terminator (malloc(len + 1), memcpy, the store of the terminator inside the block); rs->rs and
   rs->icase are untouched.  The model says None: 1, only the four flag cells are written, nothing is allocated.  The loop
   `while (re[0] && !strchr(META, (unsigned char) re[0]))` stops where span_lit stops, and strchr is not asked about the terminator. *)
Theorem C12_tr_rstr_simple : forall (m : mem) rb c0 c1 c2 c3 c4 c5 c6 b (s : bytes) o ic d fuel,
  nth_error m rb = Some [c0; c1; c2; c3; c4; c5; c6] -> str_at m b s -> nonul s -> (o <= length s)%nat -> rb <> b ->
  nth_error m G_meta = Some gb_meta -> Z.of_nat (length s) < 2147483647 -> (length s < fuel)%nat ->
  match rstr_simple ic (skipn o s) with
  | Some r =>
      callf cprog fuel (S d) F_rstr_simple [VPtr rb 0; VPtr b (Z.of_nat o)] m
      = Ok (VInt 0, upd m rb [c0; VPtr (length m) 0; c2; VInt (b2z (r_lbeg r)); VInt (b2z (r_lend r)); VInt (b2z (r_wbeg r)); VInt (b2z (r_wend r))]
                    ++ [cstr_block (zb (r_str r))]) /\ r_icase r = ic
  | None =>
      exists lb le wb we, callf cprog fuel (S d) F_rstr_simple [VPtr rb 0; VPtr b (Z.of_nat o)] m
                          = Ok (VInt 1, upd m rb [c0; c1; c2; VInt lb; VInt le; VInt wb; VInt we])
  end.
Proof. exact tr_rstr_simple_model. Qed.
Print Assumptions C12_tr_rstr_simple.

(* struct rstr *rstr_make(char *re, int flg) on a pattern the classifier accepts: the struct returned is
   rstr_block: rs == NULL, str -> the literal, icase = flg & RE_ICASE, the anchor flags as the model's classifier says -- exactly the
   hypothesis of C12_tr_rstr_find; the memory only grew (the cell of `re`, the struct, the literal) *)
Theorem C12_tr_rstr_make : forall (m : mem) b (s : bytes) o flg ic r d fuel,
  str_at m b s -> nonul s -> (o <= length s)%nat -> nth_error m G_meta = Some gb_meta ->
  Z.of_nat (length s) < 2147483647 -> (length s < fuel)%nat -> rstr_simple ic (skipn o s) = Some r ->
  callf cprog fuel (S (S d)) F_rstr_make [VPtr b (Z.of_nat o); VInt flg] m
  = Ok (VPtr (S (length m)) 0,
        m ++ [[VPtr b (Z.of_nat o)];
              rstr_block (S (S (length m))) (Z.land flg RE_ICASE) (b2z (r_lbeg r)) (b2z (r_lend r)) (b2z (r_wbeg r)) (b2z (r_wend r));
              cstr_block (zb (r_str r))]).
Proof. exact tr_rstr_make_model. Qed.
Print Assumptions C12_tr_rstr_make.

(* THE CHAIN: for every pattern string in memory that the classifier accepts (ignore-case = flg & RE_ICASE), rstr_make returns a struct and,
   on the memory it leaves, for EVERY newline-terminated line in a block that existed before, every group count and flag word, the
   translated rstr_find answers the declarative spec: 0 and group 0 = the leftmost position where the spec holds (groups >= 1 unset), or -1
   with the memory unchanged.  (C12_tr_rstr_make composed with C12_tr_rstr_find_spec; no hypothesis about the struct is left.) *)
Theorem C12_tr_rstr_make_find_spec : forall (m : mem) bp (p : bytes) flg rs sb gb content n flg2 (gold : block) d fuel,
  let ic := nz (Z.land flg RE_ICASE) in
  str_at m bp p -> nonul p -> ~ In 10%N p -> nth_error m G_meta = Some gb_meta -> rstr_simple ic p = Some rs ->
  nonul content -> ~ In 10%N content -> str_at m sb (content ++ [10%N]) -> nth_error m gb = Some gold -> length gold = (2 * Z.to_nat n)%nat ->
  2 * n <= 2147483647 -> Z.of_nat (length p) < 2147483647 -> Z.of_nat (length content) < 2147483647 ->
  (length p < fuel)%nat -> (length content + Z.to_nat n + 2 < fuel)%nat ->
  exists m',
    callf cprog fuel (S (S d)) F_rstr_make [VPtr bp 0; VInt flg] m = Ok (VPtr (S (length m)) 0, m') /\
    (forall b, (b < length m)%nat -> nth_error m' b = nth_error m b) /\
    callf cprog fuel (S (S d)) F_rstr_find [VPtr (S (length m)) 0; VPtr sb 0; VInt n; VPtr gb 0; VInt flg2] m' =
    match spec_find (spat_of rs) ic (nz (Z.land flg2 RE_NOTBOL)) content with
    | Some i => Ok (VInt 0, upd m' gb (grp_block (rstr_groups (Z.to_nat n) (Z.of_nat i) (Z.of_nat (i + length (r_str rs))))))
    | None => Ok (VInt (-1), m')
    end.
Proof. exact tr_rstr_make_find_spec. Qed.
Print Assumptions C12_tr_rstr_make_find_spec.

(* the dispatch: a pattern the classifier rejects (so_simple = false: RstrDefs.rstr_simple answers None, TrRstrMake.rstr_simple_off) goes
   to rset_make(1, &re, flg) on exactly the memory rstr_simple left -- the cell of `re`, the struct with the four anchor flags written and
   str == NULL; stated for EVERY oracle (CLiteExt.callx: rset_make reaches regcomp) and every answer of that call that leaves the struct
   alone: a set -> the struct with rs = that set is returned; NULL -> the struct is freed and NULL is returned *)
Theorem C12_tr_rstr_make_general : forall ext (m m4 : mem) b (s : bytes) o flg v d fuel,
  str_at m b s -> nonul s -> (o <= length s)%nat -> nth_error m G_meta = Some gb_meta ->
  Z.of_nat (length s) < 2147483647 -> (length s < fuel)%nat -> so_simple s o = false ->
  let S0 := [VInt 0; VInt 0; VInt (Z.land flg 1); VInt (b2z (so_lbeg s o)); VInt (b2z (so_lend s o)); VInt (b2z (so_wbeg s o)); VInt (b2z (so_wend s o))] in
  callx ext cprog fuel (S d) F_rset_make [VInt 1; VPtr (length m) 0; VInt flg] (m ++ [[VPtr b (Z.of_nat o)]; S0]) = Ok (v, m4) ->
  nth_error m4 (S (length m)) = Some S0 -> (v = VInt 0 \/ exists br, v = VPtr br 0) ->
  callx ext cprog fuel (S (S d)) F_rstr_make [VPtr b (Z.of_nat o); VInt flg] m
  = match v with
    | VPtr _ _ => Ok (VPtr (S (length m)) 0,
                      upd m4 (S (length m)) [v; VInt 0; VInt (Z.land flg 1); VInt (b2z (so_lbeg s o)); VInt (b2z (so_lend s o)); VInt (b2z (so_wbeg s o)); VInt (b2z (so_wend s o))])
    | _ => Ok (VInt 0, upd m4 (S (length m)) [])
    end.
Proof. exact tr_rstr_make_general. Qed.
Print Assumptions C12_tr_rstr_make_general.
Theorem C12_rstr_simple_off : forall s, nonul s -> forall o, (o <= length s)%nat -> forall ic,
  rstr_simple ic (skipn o s) = if so_simple s o then Some (mk_rstr (so_lit s o) ic (so_lbeg s o) (so_lend s o) (so_wbeg s o) (so_wend s o)) else None.
Proof. exact rstr_simple_off. Qed.
Print Assumptions C12_rstr_simple_off.

(* void rstr_free(struct rstr *rs) on a struct of the fast path: the literal and the struct are freed (their blocks are empty afterwards: a
   later access is EOob, a second free an error), nothing else changes; on a struct of the general path: rset_free(rs->rs), relative to that call *)
Theorem C12_tr_rstr_free : forall (m : mem) rb bs ic lb le wb we (blk : block) d fuel,
  nth_error m rb = Some (rstr_block bs ic lb le wb we) -> nth_error m bs = Some blk -> blk <> [] -> rb <> bs ->
  callf cprog fuel (S d) F_rstr_free [VPtr rb 0] m = Ok (VUndef, upd (upd m bs []) rb []).
Proof. exact tr_rstr_free_simple. Qed.
Print Assumptions C12_tr_rstr_free.
Theorem C12_tr_rstr_free_general : forall ext (m m1 : mem) rb br c2 c3 c4 c5 c6 u D fuel,
  nth_error m rb = Some [VPtr br 0; VInt 0; c2; c3; c4; c5; c6] ->
  callx ext cprog fuel D F_rset_free [VPtr br 0] m = Ok (u, m1) ->
  nth_error m1 rb = Some [VPtr br 0; VInt 0; c2; c3; c4; c5; c6] ->
  callx ext cprog fuel (S D) F_rstr_free [VPtr rb 0] m = Ok (VUndef, upd m1 rb []).
Proof. exact tr_rstr_free_general. Qed.
Print Assumptions C12_tr_rstr_free_general.

(* non-vacuity: the translated functions RUN.  Memory: the global blocks, then block G = the pattern "\<ab", G+1 = the line "x ab\n", G+2 =
   int grps[4].  rstr_make("\<ab", 0) returns the struct G+4 = {NULL, -> G+5, icase 0, lbeg 0, lend 0, wbeg 1, wend 0} with "ab" in G+5 (G+3 is
   the cell of `re`); rstr_find on that struct finds (2, 4), groups >= 1 unset; the model's classifier agrees; rstr_free empties G+4 and G+5.
   "a|b" is not simple: under an oracle of regcomp that rejects, rstr_make returns NULL and everything it and rset_make allocated is freed;
   under one that accepts it returns a struct whose rs points to the set (grp = {2, 3}, grpcnt = 3). *)
Definition C12_G : nat := length cglobals.
Definition C12_mk_mem : mem := cglobals ++ [cstr_block [92; 60; 97; 98]; cstr_block [120; 32; 97; 98; 10]; [VUndef; VUndef; VUndef; VUndef]].
Definition C12_ext_regcomp (r : Z) : nat -> list val -> mem -> res (val * mem) :=
  fun f args m => if Nat.eqb f X_regcomp then Ok (VInt r, m) else Err EShape.
Example C12_tr_make_nonvacuous :
  (exists m', callf cprog 100 5 F_rstr_make [VPtr C12_G 0; VInt 0] C12_mk_mem = Ok (VPtr (C12_G + 4) 0, m') /\
     skipn (length C12_mk_mem) m' = [[VPtr C12_G 0]; rstr_block (C12_G + 5) 0 0 0 1 0; cstr_block [97; 98]] /\
     (exists m2, callf cprog 100 3 F_rstr_find [VPtr (C12_G + 4) 0; VPtr (C12_G + 1) 0; VInt 2; VPtr (C12_G + 2) 0; VInt 0] m' = Ok (VInt 0, m2) /\
                 nth_error m2 (C12_G + 2) = Some [VInt 2; VInt 4; VInt (-1); VInt (-1)]) /\
     (exists m3, callf cprog 100 3 F_rstr_free [VPtr (C12_G + 4) 0] m' = Ok (VUndef, m3) /\ skipn (length C12_mk_mem) m3 = [[VPtr C12_G 0]; []; []])) /\
  rstr_simple false [92; 60; 97; 98]%N = Some (mk_rstr [97; 98]%N false false false true false) /\
  (str_at C12_mk_mem C12_G [92; 60; 97; 98]%N /\ nth_error C12_mk_mem G_meta = Some gb_meta) /\
  (match callx (C12_ext_regcomp 1) cprog 100 8 F_rstr_make [VPtr C12_G 0; VInt 1] (cglobals ++ [cstr_block [97; 124; 98]]) with
   | Ok (v, m') => Some (v, skipn (C12_G + 1) m') | Err _ => None end
   = Some (VInt 0, [[VPtr C12_G 0]; []; []; []; []; []; []])) /\
  (match callx (C12_ext_regcomp 0) cprog 100 8 F_rstr_make [VPtr C12_G 0; VInt 1] (cglobals ++ [cstr_block [97; 124; 98]]) with
   | Ok (v, m') => Some (v, skipn (C12_G + 1) m') | Err _ => None end
   = Some (VPtr (C12_G + 2) 0,
           [[VPtr C12_G 0]; [VPtr (C12_G + 3) 0; VInt 0; VInt 1; VInt 0; VInt 0; VInt 0; VInt 0];
            [VInt 0; VInt 1; VPtr (C12_G + 5) 0; VPtr (C12_G + 6) 0; VInt 3]; []; [VInt 2; VInt 3]; [VInt 0; VUndef]; []])) /\
  rstr_simple true [97; 124; 98]%N = None.
Proof.
  split.
  { eexists. split; [vm_compute; reflexivity|]. split; [vm_compute; reflexivity|]. split.
    - eexists. split; [vm_compute; reflexivity|]. vm_compute. reflexivity.
    - eexists. split; [vm_compute; reflexivity|]. vm_compute. reflexivity. }
  split; [vm_compute; reflexivity|]. split; [split; vm_compute; reflexivity|].
  split; [vm_compute; reflexivity|]. split; vm_compute; reflexivity.
Qed.
