(* DrawCurProps.v -- C19, the column of the terminal cursor: computed from the offset (vi.c since 216c15e) it is the position of
   the character commands act on, for every layout -- reordered or not --, so the cell it names holds that character; computed
   from the remembered column (before) it names another character after j / k onto a reordered line.  The xleft rule before
   the first paint (11b9bf2). *)
From Coq Require Import List Arith ZArith Bool Lia ZifyBool.
From NV Require Import Bytes TermEmu DrawDefs DrawProps DrawDirDefs DrawDirProps DrawCurDefs.
Ltac Zify.zify_post_hook ::= Z.div_mod_to_equations.
Import ListNotations.
Local Open Scope Z_scope.

(* ---------- pos_prev / pos_next ---------- *)
Lemma pos_prev_fold ps p (cur : bool) : forall ret, let k := if cur then 0 else 1 in
  Forall (fun q => 0 <= q) ps -> (ret = -1 \/ (0 <= ret /\ ret + k <= p)) ->
  let F := fold_left (fun ret q => if (q + k <=? p) && ((ret <? 0) || (ret <? q)) then q else ret) ps ret in
  (F = ret \/ In F ps) /\ ret <= F /\ (F = -1 \/ (0 <= F /\ F + k <= p)) /\ (forall q, In q ps -> q + k <= p -> q <= F).
Proof.
  induction ps as [|a ps IH]; intros ret k HF Hr; cbn [fold_left].
  - repeat split; try tauto; try lia. intros q [].
  - inversion HF as [|? ? Ha HF']; subst.
    set (ret' := if (a + k <=? p) && ((ret <? 0) || (ret <? a)) then a else ret).
    assert (Hr' : ret' = -1 \/ (0 <= ret' /\ ret' + k <= p)) by (unfold ret'; destruct ((a + k <=? p) && ((ret <? 0) || (ret <? a))) eqn:E; [right; lia|exact Hr]).
    destruct (IH ret' HF' Hr') as (H1 & H2 & H3 & H4). fold k in H1, H2, H3, H4.
    assert (Hle : ret <= ret') by (unfold ret'; destruct ((a + k <=? p) && ((ret <? 0) || (ret <? a))) eqn:E; lia).
    repeat split.
    + destruct H1 as [H1|H1]; [|right; right; exact H1]. rewrite H1. unfold ret'.
      destruct ((a + k <=? p) && ((ret <? 0) || (ret <? a))); [right; left; reflexivity|left; reflexivity].
    + lia.
    + exact H3.
    + intros q0 [Hq|Hq] Hk; [|apply H4; assumption]. subst q0.
      assert (a <= ret') by (unfold ret'; destruct ((a + k <=? p) && ((ret <? 0) || (ret <? a))) eqn:E; lia). lia.
Qed.

Lemma pos_next_fold ps p (cur : bool) : forall ret, let k := if cur then 0 else 1 in
  Forall (fun q => 0 <= q) ps -> (ret = -1 \/ (0 <= ret /\ p <= ret - k)) ->
  let F := fold_left (fun ret q => if (p <=? q - k) && ((ret <? 0) || (q <? ret)) then q else ret) ps ret in
  (F = ret \/ In F ps) /\ (ret = -1 \/ (0 <= F /\ F <= ret)) /\ (F = -1 \/ (0 <= F /\ p <= F - k)) /\
  (forall q, In q ps -> p <= q - k -> 0 <= F /\ F <= q).
Proof.
  induction ps as [|a ps IH]; intros ret k HF Hr; cbn [fold_left].
  - split; [tauto|split; [lia|split; [exact Hr|intros q0 []]]].
  - inversion HF as [|? ? Ha HF']; subst.
    set (ret' := if (p <=? a - k) && ((ret <? 0) || (a <? ret)) then a else ret).
    assert (Hr' : ret' = -1 \/ (0 <= ret' /\ p <= ret' - k)) by (unfold ret'; destruct ((p <=? a - k) && ((ret <? 0) || (a <? ret))) eqn:E; [right; lia|exact Hr]).
    destruct (IH ret' HF' Hr') as (H1 & H2 & H3 & H4). fold k in H1, H2, H3, H4.
    assert (Hdn : ret = -1 \/ (0 <= ret' /\ ret' <= ret)) by (unfold ret'; destruct ((p <=? a - k) && ((ret <? 0) || (a <? ret))) eqn:E; lia).
    split; [|split; [|split]].
    + destruct H1 as [H1|H1]; [|right; right; exact H1]. rewrite H1. unfold ret'.
      destruct ((p <=? a - k) && ((ret <? 0) || (a <? ret))); [right; left; reflexivity|left; reflexivity].
    + destruct Hdn as [Hdn|Hdn]; [left; exact Hdn|]. right. destruct H2 as [H2|H2]; lia.
    + exact H3.
    + intros q0 [Hq|Hq] Hk; [|apply H4; assumption]. subst q0.
      assert (E : 0 <= ret' /\ ret' <= a) by (unfold ret'; destruct ((p <=? a - k) && ((ret <? 0) || (a <? ret))) eqn:E; lia).
      destruct H2 as [H2|H2]; lia.
Qed.

(* the largest position <= p that occurs, when p itself occurs: p *)
Lemma pos_prev_self ps p : Forall (fun q => 0 <= q) ps -> In p ps -> pos_prev ps p true = p.
Proof.
  intros HF Hin. unfold pos_prev.
  destruct (pos_prev_fold ps p true (-1) HF (or_introl eq_refl)) as (H1 & _ & H3 & H4). cbv beta iota zeta in H1, H3, H4 |- *.
  match goal with |- ?f = _ => set (F := f) in * end.
  assert (Hq : p + 0 <= p) by lia. specialize (H4 p Hin Hq).
  assert (H0 : 0 <= p) by (rewrite Forall_forall in HF; apply HF; exact Hin). lia.
Qed.
(* the smallest position > p, when p + 1 occurs: p + 1 *)
Lemma pos_next_succ ps p : Forall (fun q => 0 <= q) ps -> In (p + 1) ps -> pos_next ps p false = p + 1.
Proof.
  intros HF Hin. unfold pos_next.
  destruct (pos_next_fold ps p false (-1) HF (or_introl eq_refl)) as (H1 & _ & H3 & H4). cbv beta iota zeta in H1, H3, H4 |- *.
  match goal with |- ?f = _ => set (F := f) in * end.
  assert (Hq : p <= p + 1 - 1) by lia. specialize (H4 (p + 1) Hin Hq). lia.
Qed.

(* ---------- layouts ---------- *)
(* n single-width characters at the positions 0 .. n-1 in ANY order (dir_reorder permutes them), the newline after them *)
Definition wf_layout (ps : list Z) : Prop :=
  NoDup ps /\ (forall p, In p ps -> 0 <= p < Z.of_nat (length ps)) /\ (forall q, 0 <= q < Z.of_nat (length ps) -> In q ps).

Lemma all_pos_nonneg ps : wf_layout ps -> Forall (fun q => 0 <= q) (all_pos ps (Z.of_nat (length ps))).
Proof.
  intros (_ & Hr & _). unfold all_pos. apply Forall_app. split.
  - apply Forall_forall. intros q Hq. apply Hr in Hq. lia.
  - constructor; [lia|constructor].
Qed.

(* computed from the offset, the cursor position is the position of the character at that offset: whatever the order *)
Theorem cursor_pos_is_char ps xoff : wf_layout ps -> (xoff < length ps)%nat ->
  cursor_pos ps (Z.of_nat (length ps)) xoff = nth xoff ps 0.
Proof.
  intros W Hx. pose proof (all_pos_nonneg ps W) as HF. destruct W as (ND & Hr & Hs).
  set (n := Z.of_nat (length ps)) in *. set (p := nth xoff ps 0).
  assert (Hin : In p ps) by (apply nth_In; exact Hx). pose proof (Hr p Hin) as Hp.
  unfold cursor_pos, off2col, ren_cursor. fold p.
  rewrite (pos_prev_self (all_pos ps n) p HF) by (unfold all_pos; apply in_or_app; left; exact Hin).
  replace (p =? n) with false by lia.
  rewrite (pos_next_succ (all_pos ps n) p HF).
  - replace (0 <=? p + 1) with true by lia. replace (p + 1 - 1) with p by lia. replace (0 <=? p) with true by lia. reflexivity.
  - unfold all_pos. apply in_or_app. destruct (Z.eq_dec (p + 1) n) as [E|E]; [right; left; lia|left; apply Hs; lia].
Qed.

Section CurRows.
Variable G : Type.
(* the line as led_render sees it: character i at position (nth i ps) with glyph (nth i gs) *)
Definition chars_of (ps : list Z) (gs : list G) : list (Z * Z * G) := map (fun pg => (fst pg, 1, snd pg)) (combine ps gs).

Lemma chars_of_simple ps gs : NoDup ps -> length gs = length ps -> simple_chars G (chars_of ps gs).
Proof.
  intros ND L. unfold simple_chars, chars_of. split.
  - apply Forall_forall. intros c Hc. apply in_map_iff in Hc. destruct Hc as (pg & <- & _). reflexivity.
  - rewrite map_map. cbn [fst]. replace (map (fun x : Z * G => fst x) (combine ps gs)) with ps; [exact ND|].
    revert gs L. induction ps as [|a ps IH]; intros [|g gs] L; cbn in *; try reflexivity; try discriminate.
    f_equal. apply IH; [inversion ND; assumption|lia].
Qed.
Lemma chars_of_in ps gs i d : (i < length ps)%nat -> length gs = length ps -> In (nth i ps 0, 1, nth i gs d) (chars_of ps gs).
Proof.
  intros Hi L. unfold chars_of. apply in_map_iff. exists (nth i ps 0, nth i gs d). split; [reflexivity|].
  rewrite <- (combine_nth ps gs i 0 d) by (symmetry; exact L). apply nth_In. rewrite combine_length. lia.
Qed.

(* the tail of vi() today: the terminal cursor is on the cell that shows the character at xoff -- for every permutation of the
   positions (every reordering), either base direction, every td, also when xcol was kept by j / k (xcol does not occur) *)
Theorem cursor_from_offset_holds_char td xleft xcols hi m ps gs xoff d :
  wf_layout ps -> length gs = length ps -> (xoff < length ps)%nat -> 0 <= xcols ->
  xleft <= nth xoff ps 0 < xleft + xcols ->
  let l := mkLine G hi m (chars_of ps gs) in
  nth (Z.to_nat (vi_pos (line_dir G td l) (cursor_pos ps (Z.of_nat (length ps)) xoff) xleft xcols)) (render_row G td xleft xcols l) None
  = Some (nth xoff gs d).
Proof.
  intros W L Hx Hc Hw l. rewrite cursor_pos_is_char by assumption.
  apply cursor_cell_holds_char; [exact Hc| | |exact Hw].
  - apply chars_of_simple; [apply W|exact L].
  - apply chars_of_in; assumption.
Qed.
End CurRows.

(* before 216c15e: "cba" shown reversed (positions 2 1 0), remembered column 10 (j from the end of a longer line): the motion ends on
   offset 2 (the last character in buffer order, shown at position 0) but the cursor computed from xcol goes to position 2, where
   character 0 is shown; computed from the offset it goes to position 0 *)
Example cursor_from_xcol_other_char :
  col2off [2; 1; 0] 3 10 = 2%nat /\ cursor_pos_xcol [2; 1; 0] 3 10 = 2 /\ cursor_pos [2; 1; 0] 3 2 = 0 /\
  (* on a line that is not reordered the two agree *)
  col2off [0; 1; 2] 3 10 = 2%nat /\ cursor_pos_xcol [0; 1; 2] 3 10 = 2 /\ cursor_pos [0; 1; 2] 3 2 = 2.
Proof. vm_compute. repeat split; reflexivity. Qed.

(* the remembered column and the offset name the same character on every line that is not reordered *)
(* ---------- start-up ---------- *)
Lemma init_left_is_rule xcol xcols : 1 <= xcols -> 0 <= xcol -> init_left xcol xcols = fix_left 0 xcol xcols.
Proof. intros Hc H. unfold init_left, fix_left. destruct (0 + xcols <=? xcol) eqn:E; [|replace (xcol <? 0) with false by lia; reflexivity].
  replace (xcol <? xcol - xcols / 2) with false; [reflexivity|]. symmetry. apply Z.ltb_ge. assert (0 <= xcols / 2) by (apply Z.div_pos; lia). lia. Qed.
(* with the rule the first character's cell is inside the window and term_pos gets its exact column ... *)
Theorem init_left_visible xcol xcols : 1 <= xcols -> 0 <= xcol ->
  let l := init_left xcol xcols in 0 <= l /\ l <= xcol < l + xcols /\ term_col l xcols xcol = xcol - l.
Proof.
  intros Hc Hx. cbn zeta. rewrite init_left_is_rule by assumption.
  pose proof (cursor_cell_visible 0 xcol xcols Hc ltac:(lia) Hx) as V. cbn zeta in V.
  split; [|exact V]. unfold fix_left. destruct (0 + xcols <=? xcol) eqn:E.
  - destruct (xcol <? xcol - xcols / 2) eqn:E1; [destruct (xcol <? xcols) eqn:E2|]; lia.
  - destruct (xcol <? 0) eqn:E1; [destruct (xcol <? xcols) eqn:E2|]; lia.
Qed.
(* ... without it (xleft = 0) a first character drawn at or beyond the right margin gets the clamped column of another cell *)
Theorem init_without_rule_clamps xcol xcols : 1 <= xcols -> xcols <= xcol -> term_col 0 xcols xcol = xcols - 1 /\ xcols - 1 <> xcol - 0.
Proof. intros Hc Hx. unfold term_col. replace (xcol - 0 <? 0) with false by lia. replace (xcols <=? xcol - 0) with true by lia. lia. Qed.
