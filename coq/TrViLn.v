(* TrViLn.v -- vi.c vi_motionln (the line motions + - _ <newline> j k G H L M and N%) on the translated C text
   (tools/c2clite.d/89_vimot.list), against MotDefs.vi_motionln (property C07).
   The function reads its key with vi_read() and the window height with the macro xrows = term_rows(): both are NOT translated, the
   theorem is stated for every oracle `ext` (CLiteExt.callx) with hypotheses about the calls reached: vi_read returns the key c and
   leaves a memory m1 in which the buffer, bufs[0].lb, *row, vi_arg1 / vi_arg2 and xtop are as before; term_rows returns rows and
   changes nothing; vi_back (reached only when c is no line motion) returns and leaves m3.  xb is the macro ex_lbuf() = bufs[0].lb
   (translated; block G_bufs, cell 33).  The count is vi_cnt() (TrViMot.tr_vi_cnt: saturated at 2^30, fix 164b6b4), so that
   row + count cannot overflow for rows below 2^30; `G` with a count clamps to the last line (fix 4be34b5).
   The switch (CLite.SSwitch) is opened with sw_run_at: the segment control jumps to, one lemma per segment (seg_plus ... seg_dflt).
   The key ' (marks: lbuf_jump) is outside the model and excluded by hypothesis.  The two address-taken locals mark_row / mark_off
   stay behind as two fresh blocks. *)
From Coq Require Import List ZArith NArith Bool Lia.
From NV Require Import Bytes UcDefs CLite CLiteProps GenCFuncs CLiteTac CLiteExt TrLbufBase MotDefs TrMot TrViMot.
Import ListNotations.
Local Open Scope Z_scope.

Definition BUFS_LB : nat := 33.     (* bufs[0].lb: xb is the macro ex_lbuf() *)
Lemma call_ex_lbuf mm gbufs bl d fuel : nth_error mm G_bufs = Some gbufs -> nth_error gbufs BUFS_LB = Some (VPtr bl 0) ->
  callf cprog fuel (S d) F_ex_lbuf [] mm = Ok (VPtr bl 0, mm).
Proof.
  intros Hb Hc. enter F_ex_lbuf cf_ex_lbuf. xstep. rewrite (fld_load mm G_bufs gbufs BUFS_LB _ _ Hb Hc) by reflexivity. reflexivity.
Qed.
Lemma x_vi_read_none : nth_error cprog X_vi_read = None. Proof. vm_compute. reflexivity. Qed.
Lemma x_term_rows_none : nth_error cprog X_term_rows = None. Proof. vm_compute. reflexivity. Qed.
Lemma x_vi_back_none : nth_error cprog X_vi_back = None. Proof. vm_compute. reflexivity. Qed.

Definition lnkey_of (c : Z) : option mkey :=
  if (c =? 10) || (c =? 43) then Some Kplus else if c =? 45 then Some Kminus else if c =? 95 then Some Kunder
  else if c =? 106 then Some Kj else if c =? 107 then Some Kk else if c =? 71 then Some KG else if c =? 72 then Some KH
  else if c =? 76 then Some KL else if c =? 77 then Some KM else if c =? 37 then Some Kpct else None.

Record ln_mem (m : mem) (lb bln : nat) (lbs : list nat) (lines : list bytes) (br : nat) (r a1 a2 top : Z) : Prop := mk_ln_mem {
  lm_rep : lbuf_at m lb bln lbs lines;
  lm_bufs : exists gbufs, nth_error m G_bufs = Some gbufs /\ nth_error gbufs BUFS_LB = Some (VPtr lb 0);
  lm_row : cell_at m br r;
  lm_a1 : cell_at m G_vi_arg1 a1;
  lm_a2 : cell_at m G_vi_arg2 a2;
  lm_top : cell_at m G_xtop top
}.
Lemma ln_mem_app m x lb bln lbs lines br r a1 a2 top : ln_mem m lb bln lbs lines br r a1 a2 top -> ln_mem (m ++ x) lb bln lbs lines br r a1 a2 top.
Proof.
  intros [A (g & B1 & B2) C D E F]. constructor; try (apply cell_at_app; assumption); [apply lbuf_at_app; exact A|].
  exists g. split; [|exact B2]. rewrite app_old; [exact B1|apply nth_error_Some; congruence].
Qed.

Section Ln.
  Variable ext : nat -> list val -> mem -> res (val * mem).
  Variables (m m1 m3 : mem) (lb bln : nat) (lbs : list nat) (lines : list bytes) (br : nat) (r a1 a2 top rows c cmd : Z) (vb : val).
  Let b := map chop lines.
  Let M2 := m1 ++ [[VUndef]; [VUndef]].
  Hypothesis Hm : ln_mem m lb bln lbs lines br r a1 a2 top.
  Hypothesis Hm1 : ln_mem m1 lb bln lbs lines br r a1 a2 top.
  Hypothesis Hsm : lines_small lines.
  Hypothesis Hread : ext X_vi_read [] m = Ok (VInt c, m1).
  Hypothesis Hrows : forall M, ext X_term_rows [] M = Ok (VInt rows, M).
  Hypothesis Hback : ext X_vi_back [VInt c] M2 = Ok (vb, m3).
  Hypothesis Ia1 : i32 a1.
  Hypothesis Ia2 : i32 a2.
  Hypothesis Ir : -1073741824 <= r <= 1073741823.
  Hypothesis Itop : 0 <= top <= 1073741823.
  Hypothesis Irows : 0 <= rows <= 1073741823.
  Hypothesis Ilen : blen b * 100 <= 2147483647.
  Hypothesis Ic : i32 c.

  Let cnt := vi_cnt_m a1 a2.
  Let has := negb (a1 =? 0) || negb (a2 =? 0).
  Lemma cnt_range : 1 <= cnt <= 1073741824.
  Proof. unfold cnt, vi_cnt_m. destruct ((0 <? _) && (_ <? 1073741824)) eqn:E; [|lia]. apply andb_true_iff in E. destruct E as [E1 E2]. apply Z.ltb_lt in E1, E2. lia. Qed.
  Lemma M2_mem : ln_mem M2 lb bln lbs lines br r a1 a2 top.
  Proof. apply ln_mem_app. exact Hm1. Qed.
  Lemma xb_call M dd F : (exists gbufs, nth_error M G_bufs = Some gbufs /\ nth_error gbufs BUFS_LB = Some (VPtr lb 0)) ->
    callx ext cprog F (S dd) F_ex_lbuf [] M = Ok (VPtr lb 0, M).
  Proof. intros (g & A & B). apply callx_mono. apply (call_ex_lbuf M g lb dd F A B). Qed.
  Lemma len_call M dd F : lbuf_at M lb bln lbs lines -> callx ext cprog F (S dd) F_lbuf_len [VPtr lb 0] M = Ok (VInt (blen b), M).
  Proof. intro R. apply callx_mono. apply (tr_lbuf_len M lb bln lbs lines dd F R Hsm). Qed.
  Lemma rows_call M dd F : callx ext cprog F (S dd) X_term_rows [] M = Ok (VInt rows, M).
  Proof. rewrite callx_S, x_term_rows_none. apply Hrows. Qed.
  Lemma len_range : 0 <= blen b <= 21474836.
  Proof. unfold blen in *. lia. Qed.

  Definition ln_switch : stmt := match fn_body cf_vi_motionln with SSeq _ (SSeq _ (SSeq _ (SSeq sw _))) => sw | _ => SSkip end.
  Definition ln_tail : stmt := match fn_body cf_vi_motionln with SSeq _ (SSeq _ (SSeq _ (SSeq _ t))) => t | _ => SSkip end.

  (* the clamp "if row < 0 then row := 0" and "return c", after the switch stored x in the cell of row *)
  Lemma ln_tail_ok F dd fuel x loc3 : i32 x ->
    exec (callx ext cprog F dd) fuel ln_tail (mkst [VPtr br 0; VInt cmd; VInt cnt; VInt c; loc3; VPtr (length m1) 0; VPtr (S (length m1)) 0] (upd M2 br [VInt x]))
    = OReturn (VInt c) (mkst [VPtr br 0; VInt cmd; VInt cnt; VInt c; loc3; VPtr (length m1) 0; VPtr (S (length m1)) 0]
                             (upd M2 br [VInt (if x <? 0 then 0 else x)])).
  Proof.
    intro Ix. pose proof M2_mem as [_ _ Cr _ _ _]. pose proof (cell_lt _ _ _ Cr) as Lr.
    unfold ln_tail; cbn [fn_body cf_vi_motionln]. xstep.
    rewrite (load_cell _ br x (cell_at_upd_same M2 br x Lr)). xstep. rewrite wrap_I32_id by exact Ix.
    destruct (Z.ltb_spec x 0); xstep; [|reflexivity].
    change (wrap I32 0) with 0. rewrite (store_cell _ br x 0 (cell_at_upd_same M2 br x Lr)). xstep. rewrite upd_upd by exact Lr. reflexivity.
  Qed.


  Definition ln_segs : list (list (option Z) * stmt) := match ln_switch with SSwitch _ segs => segs | _ => [] end.
  Definition ln_seg (k : nat) : stmt := snd (nth k ln_segs ([], SSkip)).
  Definition ln_loc (loc4 : val) : list val := [VPtr br 0; VInt cmd; VInt cnt; VInt c; loc4; VPtr (length m1) 0; VPtr (S (length m1)) 0].

  Ltac lnr R2 B2 Cr Ca1 Ca2 Ctop :=
    repeat (xstep; first [ rewrite (xb_call M2 _ _ B2) | rewrite (len_call M2 _ _ R2) | rewrite rows_call
                         | rewrite (load_cell M2 br r Cr) | rewrite (load_cell M2 G_xtop top Ctop)
                         | rewrite (load_cell M2 G_vi_arg1 a1 Ca1) | rewrite (load_cell M2 G_vi_arg2 a2 Ca2)
                         | rewrite chk_I32 by lia | rewrite wrap_I32_id by lia ]).
  Ltac ln_store Cr := rewrite (store_cell M2 br r _ Cr); xstep.

  (* + <newline> j: row := MIN(row + cnt, lbuf_len(xb) - 1) *)
  Lemma seg_plus F dd fuel loc4 k : (k = 0 \/ k = 4)%nat ->
    exec (callx ext cprog F (S dd)) fuel (ln_seg k) (mkst (ln_loc loc4) M2)
    = OBreak (mkst (ln_loc loc4) (upd M2 br [VInt (Z.min (r + cnt) (blen b - 1))])).
  Proof.
    intro Hk. pose proof M2_mem as [R2 B2 Cr Ca1 Ca2 Ctop]. pose proof cnt_range as Hcnt. pose proof len_range as Hlen.
    assert (Es : ln_seg k = ln_seg 0) by (destruct Hk as [-> | ->]; reflexivity). rewrite Es.
    unfold ln_seg, ln_segs, ln_switch, ln_loc; cbn [fn_body cf_vi_motionln nth snd]. unfold i32 in *.
    lnr R2 B2 Cr Ca1 Ca2 Ctop.
    destruct (Z.ltb_spec (r + cnt) (blen b - 1)); lnr R2 B2 Cr Ca1 Ca2 Ctop; ln_store Cr; f_equal; f_equal; f_equal; f_equal; f_equal; lia.
  Qed.

  Lemma seg_minus F dd fuel loc4 k : (k = 1 \/ k = 5)%nat ->
    exec (callx ext cprog F (S dd)) fuel (ln_seg k) (mkst (ln_loc loc4) M2)
    = OBreak (mkst (ln_loc loc4) (upd M2 br [VInt (Z.max (r - cnt) 0)])).
  Proof.
    intro Hk. pose proof M2_mem as [R2 B2 Cr Ca1 Ca2 Ctop]. pose proof cnt_range as Hcnt. pose proof len_range as Hlen.
    assert (Es : ln_seg k = ln_seg 1) by (destruct Hk as [-> | ->]; reflexivity). rewrite Es.
    unfold ln_seg, ln_segs, ln_switch, ln_loc; cbn [fn_body cf_vi_motionln nth snd]. unfold i32 in *.
    lnr R2 B2 Cr Ca1 Ca2 Ctop.
    destruct (Z.ltb_spec (r - cnt) 0); lnr R2 B2 Cr Ca1 Ca2 Ctop; try (change (wrap I32 0) with 0); ln_store Cr; f_equal; f_equal; f_equal; f_equal; f_equal; lia.
  Qed.
  Lemma seg_under F dd fuel loc4 :
    exec (callx ext cprog F (S dd)) fuel (ln_seg 2) (mkst (ln_loc loc4) M2)
    = OBreak (mkst (ln_loc loc4) (upd M2 br [VInt (Z.min (r + cnt - 1) (blen b - 1))])).
  Proof.
    pose proof M2_mem as [R2 B2 Cr Ca1 Ca2 Ctop]. pose proof cnt_range as Hcnt. pose proof len_range as Hlen.
    unfold ln_seg, ln_segs, ln_switch, ln_loc; cbn [fn_body cf_vi_motionln nth snd]. unfold i32 in *.
    lnr R2 B2 Cr Ca1 Ca2 Ctop.
    destruct (Z.ltb_spec (r + cnt - 1) (blen b - 1)); lnr R2 B2 Cr Ca1 Ca2 Ctop; ln_store Cr; f_equal; f_equal; f_equal; f_equal; f_equal; lia.
  Qed.
  Lemma seg_G F dd fuel loc4 :
    exec (callx ext cprog F (S dd)) fuel (ln_seg 6) (mkst (ln_loc loc4) M2)
    = OBreak (mkst (ln_loc loc4) (upd M2 br [VInt (if has then Z.min (cnt - 1) (blen b - 1) else blen b - 1)])).
  Proof.
    pose proof M2_mem as [R2 B2 Cr Ca1 Ca2 Ctop]. pose proof cnt_range as Hcnt. pose proof len_range as Hlen.
    unfold ln_seg, ln_segs, ln_switch, ln_loc; cbn [fn_body cf_vi_motionln nth snd]. unfold i32 in *. unfold has.
    lnr R2 B2 Cr Ca1 Ca2 Ctop.
    destruct (Z.eqb_spec a1 0) as [E1|E1]; cbn [negb orb]; lnr R2 B2 Cr Ca1 Ca2 Ctop;
      [destruct (Z.eqb_spec a2 0) as [E2|E2]; cbn [negb orb b2z]; lnr R2 B2 Cr Ca1 Ca2 Ctop|];
      try (destruct (Z.ltb_spec (cnt - 1) (blen b - 1)); lnr R2 B2 Cr Ca1 Ca2 Ctop);
      ln_store Cr; f_equal; f_equal; f_equal; f_equal; f_equal; lia.
  Qed.
  Lemma seg_H F dd fuel loc4 :
    exec (callx ext cprog F (S dd)) fuel (ln_seg 7) (mkst (ln_loc loc4) M2)
    = OBreak (mkst (ln_loc loc4) (upd M2 br [VInt (Z.min (top + cnt - 1) (blen b - 1))])).
  Proof.
    pose proof M2_mem as [R2 B2 Cr Ca1 Ca2 Ctop]. pose proof cnt_range as Hcnt. pose proof len_range as Hlen.
    unfold ln_seg, ln_segs, ln_switch, ln_loc; cbn [fn_body cf_vi_motionln nth snd]. unfold i32 in *.
    lnr R2 B2 Cr Ca1 Ca2 Ctop.
    destruct (Z.ltb_spec (top + cnt - 1) (blen b - 1)); lnr R2 B2 Cr Ca1 Ca2 Ctop; ln_store Cr; f_equal; f_equal; f_equal; f_equal; f_equal; lia.
  Qed.
  Lemma seg_L F dd fuel loc4 :
    exec (callx ext cprog F (S dd)) fuel (ln_seg 8) (mkst (ln_loc loc4) M2)
    = OBreak (mkst (ln_loc loc4) (upd M2 br [VInt (Z.min (top + rows - 1 - cnt + 1) (blen b - 1))])).
  Proof.
    pose proof M2_mem as [R2 B2 Cr Ca1 Ca2 Ctop]. pose proof cnt_range as Hcnt. pose proof len_range as Hlen.
    unfold ln_seg, ln_segs, ln_switch, ln_loc; cbn [fn_body cf_vi_motionln nth snd]. unfold i32 in *.
    lnr R2 B2 Cr Ca1 Ca2 Ctop.
    destruct (Z.ltb_spec (top + rows - 1 - cnt + 1) (blen b - 1)); lnr R2 B2 Cr Ca1 Ca2 Ctop; ln_store Cr; f_equal; f_equal; f_equal; f_equal; f_equal; lia.
  Qed.
  Lemma seg_M F dd fuel loc4 :
    exec (callx ext cprog F (S dd)) fuel (ln_seg 9) (mkst (ln_loc loc4) M2)
    = OBreak (mkst (ln_loc loc4) (upd M2 br [VInt (Z.min (top + rows / 2) (blen b - 1))])).
  Proof.
    pose proof M2_mem as [R2 B2 Cr Ca1 Ca2 Ctop]. pose proof cnt_range as Hcnt. pose proof len_range as Hlen.
    unfold ln_seg, ln_segs, ln_switch, ln_loc; cbn [fn_body cf_vi_motionln nth snd]. unfold i32 in *.
    assert (Eq : Z.quot rows 2 = rows / 2) by (apply Z.quot_div_nonneg; lia).
    assert (Hq : 0 <= rows / 2 <= 1073741823) by (split; [apply Z.div_pos; lia|apply Z.div_le_upper_bound; lia]).
    lnr R2 B2 Cr Ca1 Ca2 Ctop. change (2 =? 0) with false. cbv iota. rewrite !Eq.
    lnr R2 B2 Cr Ca1 Ca2 Ctop.
    destruct (Z.ltb_spec (top + rows / 2) (blen b - 1)); lnr R2 B2 Cr Ca1 Ca2 Ctop;
      try (change (2 =? 0) with false; cbv iota; rewrite !Eq; lnr R2 B2 Cr Ca1 Ca2 Ctop);
      ln_store Cr; f_equal; f_equal; f_equal; f_equal; f_equal; lia.
  Qed.

  Definition ln_pct : stmt := match ln_seg 10 with SSeq _ (SSeq (SIf _ s _) _) => s | _ => SSkip end.
  (* the default segment: N% with a count, else the key is pushed back and 0 returned *)
  Lemma seg_dflt F dd fuel loc4 : c <> cmd -> i32 cmd ->
    exec (callx ext cprog F (S dd)) fuel (ln_seg 10) (mkst (ln_loc loc4) M2)
    = if (c =? 37) && has
      then (if 100 <? cnt then OReturn (VInt (-1)) (mkst (ln_loc loc4) M2)
            else OBreak (mkst (ln_loc loc4) (upd M2 br [VInt (Z.max 0 (blen b - 1) * cnt / 100)])))
      else OReturn (VInt 0) (mkst (ln_loc loc4) m3).
  Proof.
    intros Hcc Icmd. pose proof M2_mem as [R2 B2 Cr Ca1 Ca2 Ctop]. pose proof cnt_range as Hcnt. pose proof len_range as Hlen.
    unfold ln_seg, ln_segs, ln_switch, ln_loc; cbn [fn_body cf_vi_motionln nth snd]. unfold i32 in *. unfold has.
    (let t := eval cbv [ln_pct ln_seg ln_segs ln_switch fn_body cf_vi_motionln nth snd] in ln_pct in change t with ln_pct).
    assert (Hbk : forall dd', callx ext cprog F (S dd') X_vi_back [VInt c] M2 = Ok (vb, m3)) by (intro; rewrite callx_S, x_vi_back_none; exact Hback).
    xstep. destruct (Z.eqb_spec c cmd); [contradiction|]. xstep.
    destruct (Z.eqb_spec c 37) as [E37|E37]; cbn [andb]; xstep; [|rewrite Hbk; xstep; reflexivity].
    rewrite (load_cell M2 G_vi_arg1 a1 Ca1). xstep. rewrite wrap_I32_id by lia.
    assert (Hpct : forall st0, st0 = mkst [VPtr br 0; VInt cmd; VInt cnt; VInt c; loc4; VPtr (length m1) 0; VPtr (S (length m1)) 0] M2 ->
      exec (callx ext cprog F (S dd)) fuel ln_pct st0
      = if 100 <? cnt then OReturn (VInt (-1)) st0
        else OBreak (mkst [VPtr br 0; VInt cmd; VInt cnt; VInt c; loc4; VPtr (length m1) 0; VPtr (S (length m1)) 0] (upd M2 br [VInt (Z.max 0 (blen b - 1) * cnt / 100)]))).
    { intros st0 ->. unfold ln_pct, ln_seg, ln_segs, ln_switch; cbn [fn_body cf_vi_motionln nth snd]. xstep. destruct (Z.ltb_spec 100 cnt) as [Lc|Lc]; xstep; [try (rewrite chk_I32 by lia); reflexivity|].
      lnr R2 B2 Cr Ca1 Ca2 Ctop.
      destruct (Z.ltb_spec 0 (blen b - 1)) as [L0|L0]; lnr R2 B2 Cr Ca1 Ca2 Ctop.
      - assert (Hprod : 0 <= (blen b - 1) * cnt <= 2147483500)
          by (split; [apply Z.mul_nonneg_nonneg; lia|apply Z.le_trans with (21474835 * 100); [apply Z.mul_le_mono_nonneg; lia|lia]]).
        xstep. rewrite chk_I32 by lia. xstep. change (100 =? 0) with false. cbv iota.
        rewrite Z.quot_div_nonneg by lia. replace (Z.max 0 (blen b - 1)) with (blen b - 1) by lia.
        assert (0 <= (blen b - 1) * cnt / 100 <= 2147483647) by (split; [apply Z.div_pos; lia|apply Z.div_le_upper_bound; lia]).
        rewrite chk_I32 by lia. xstep. rewrite wrap_I32_id by lia. ln_store Cr. reflexivity.
      - replace (Z.max 0 (blen b - 1)) with 0 by lia. xstep. change (0 * cnt) with 0. rewrite ?chk_I32 by lia. xstep. change (100 =? 0) with false. cbv iota.
        change (0 ÷ 100) with 0. change (0 / 100) with 0. rewrite ?chk_I32 by lia. xstep. change (wrap I32 0) with 0. ln_store Cr. reflexivity. }
    destruct (Z.eqb_spec a1 0) as [E1|E1]; cbn [negb orb]; xstep.
    - rewrite (load_cell M2 G_vi_arg2 a2 Ca2). xstep. rewrite wrap_I32_id by lia.
      destruct (Z.eqb_spec a2 0) as [E2|E2]; cbn [negb b2z]; xstep; [rewrite Hbk; xstep; reflexivity|].
      rewrite (Hpct _ eq_refl). destruct (100 <? cnt); reflexivity.
    - rewrite (Hpct _ eq_refl). destruct (100 <? cnt); reflexivity.
  Qed.


  (* the switch jumps to segment k *)
  Lemma sw_run_at call f hs z : forall segs k st,
    forallb (fun seg : list (option Z) * stmt => negb (sw_hit hs z (fst seg))) (firstn k segs) = true ->
    sw_hit hs z (fst (nth k segs ([], SSkip))) = true -> (k < length segs)%nat ->
    sw_run call f hs z segs false st
    = match exec call f (snd (nth k segs ([], SSkip))) st with
      | ONormal st2 => sw_run call f hs z (skipn (S k) segs) true st2
      | OBreak st2 => ONormal st2
      | o => o
      end.
  Proof.
    induction segs as [|[labs s0] segs IH]; intros k st H1 H2 H3; [cbn in H3; lia|].
    destruct k as [|k].
    - cbn [nth fst snd skipn] in *. cbn [sw_run]. rewrite H2. cbn [orb]. reflexivity.
    - cbn [firstn forallb fst] in H1. apply andb_true_iff in H1. destruct H1 as [Ha Hb]. apply negb_true_iff in Ha.
      cbn [sw_run]. rewrite Ha. cbn [orb nth skipn]. apply IH; [exact Hb|exact H2|cbn [length] in H3; lia].
  Qed.

  Definition ln_result (k : option mkey) : res (val * mem) :=
    match (match k with Some k => vi_motionln b rows top has cnt k r | None => None end) with
    | Some (Some r') => Ok (VInt c, upd M2 br [VInt r'])
    | Some None => Ok (VInt (-1), M2)
    | None => Ok (VInt 0, m3)
    end.

  (* vi_motionln(row, cmd): the key c comes from vi_read (oracle), the count from vi_arg1 / vi_arg2, the window from xtop / xrows *)
  Theorem tr_vi_motionln d fuel : c <> 39 -> c <> cmd -> i32 cmd ->
    callx ext cprog fuel (S (S (S d))) F_vi_motionln [VPtr br 0; VInt cmd] m = ln_result (lnkey_of c).
  Proof.
    intros H39 Hcc Icmd. pose proof M2_mem as [R2 B2 Cr Ca1 Ca2 Ctop]. pose proof cnt_range as Hcnt. pose proof len_range as Hlen.
    pose proof Hm as [_ _ _ Ha1 Ha2 _].
    rewrite callx_S. cbn [nth_error cprog F_vi_motionln cf_vi_motionln fn_nparams fn_nlocals fn_body length Nat.eqb Nat.sub repeat app].
    (let t := eval cbv [ln_switch fn_body cf_vi_motionln] in ln_switch in change t with ln_switch).
    (let t := eval cbv [ln_tail fn_body cf_vi_motionln] in ln_tail in change t with ln_tail).
    remember ln_switch as sw eqn:Esw. remember ln_tail as tl eqn:Etl. xstep.
    rewrite (callx_mono ext cprog fuel _ _ _ _ _ (tr_vi_cnt m a1 a2 (S d) fuel Ha1 Ha2 Ia1 Ia2)). xstep. fold cnt.
    rewrite callx_S, x_vi_read_none, Hread. xstep.
    rewrite malloc_ok by lia. xstep. rewrite malloc_ok by lia. xstep. change (repeat VUndef (Z.to_nat 1)) with [VUndef].
    rewrite <- app_assoc. cbn [app]. rewrite app_length. cbn [length]. replace (length m1 + 1)%nat with (S (length m1)) by lia. fold M2.
    subst sw. unfold ln_switch; cbn [fn_body cf_vi_motionln]. rewrite exec_switch. xstep.
    (let t := eval cbv [ln_segs ln_switch fn_body cf_vi_motionln] in ln_segs in change t with ln_segs).
    fold (ln_loc VUndef).
    (* after a segment that stored x and left the switch by break *)
    assert (Hbrk : forall x, i32 x ->
      match (match ONormal (mkst (ln_loc VUndef) (upd M2 br [VInt x])) with
             | ONormal st1 => exec (callx ext cprog fuel (S (S d))) fuel tl st1 | o => o end) with
      | ONormal st => Ok (VUndef, memm st) | OReturn v st => Ok (v, memm st) | OErr x => Err x | _ => Err EShape end
      = Ok (VInt c, upd M2 br [VInt (if x <? 0 then 0 else x)])).
    { intros x Ix. subst tl. unfold ln_loc. rewrite (ln_tail_ok fuel (S (S d)) fuel x VUndef Ix). reflexivity. }
    unfold lnkey_of, ln_result.
    assert (Hat : forall k, (k < 11)%nat ->
      forallb (fun seg : list (option Z) * stmt => negb (sw_hit (sw_has c ln_segs) c (fst seg))) (firstn k ln_segs) = true ->
      sw_hit (sw_has c ln_segs) c (fst (nth k ln_segs ([], SSkip))) = true ->
      sw_run (callx ext cprog fuel (S (S d))) fuel (sw_has c ln_segs) c ln_segs false (mkst (ln_loc VUndef) M2)
      = match exec (callx ext cprog fuel (S (S d))) fuel (ln_seg k) (mkst (ln_loc VUndef) M2) with
        | ONormal st2 => sw_run (callx ext cprog fuel (S (S d))) fuel (sw_has c ln_segs) c (skipn (S k) ln_segs) true st2
        | OBreak st2 => ONormal st2
        | o => o
        end).
    { intros k Hk H1 H2. apply sw_run_at; [exact H1|exact H2|]. change (length ln_segs) with 11%nat. exact Hk. }
    unfold i32 in *. change (m1 ++ [[VUndef]; [VUndef]]) with M2.
    destruct (Z.eqb_spec c 10) as [E|N10].
    { cbn [orb]. rewrite (Hat 0%nat) by (try lia; rewrite E; vm_compute; reflexivity). rewrite (seg_plus fuel (S d) fuel VUndef 0 ltac:(left; reflexivity)).
      rewrite Hbrk by lia. reflexivity. }
    destruct (Z.eqb_spec c 43) as [E|N43].
    { cbn [orb]. rewrite (Hat 0%nat) by (try lia; rewrite E; vm_compute; reflexivity). rewrite (seg_plus fuel (S d) fuel VUndef 0 ltac:(left; reflexivity)).
      rewrite Hbrk by lia. reflexivity. }
    cbn [orb].
    destruct (Z.eqb_spec c 45) as [E|N45].
    { rewrite (Hat 1%nat) by (try lia; rewrite E; vm_compute; reflexivity). rewrite (seg_minus fuel (S d) fuel VUndef 1 ltac:(left; reflexivity)).
      rewrite Hbrk by lia. reflexivity. }
    destruct (Z.eqb_spec c 95) as [E|N95].
    { rewrite (Hat 2%nat) by (try lia; rewrite E; vm_compute; reflexivity). rewrite (seg_under fuel (S d) fuel VUndef).
      rewrite Hbrk by lia. reflexivity. }
    destruct (Z.eqb_spec c 106) as [E|N106].
    { rewrite (Hat 4%nat) by (try lia; rewrite E; vm_compute; reflexivity). rewrite (seg_plus fuel (S d) fuel VUndef 4 ltac:(right; reflexivity)).
      rewrite Hbrk by lia. reflexivity. }
    destruct (Z.eqb_spec c 107) as [E|N107].
    { rewrite (Hat 5%nat) by (try lia; rewrite E; vm_compute; reflexivity). rewrite (seg_minus fuel (S d) fuel VUndef 5 ltac:(right; reflexivity)).
      rewrite Hbrk by lia. reflexivity. }
    destruct (Z.eqb_spec c 71) as [E|N71].
    { rewrite (Hat 6%nat) by (try lia; rewrite E; vm_compute; reflexivity). rewrite (seg_G fuel (S d) fuel VUndef).
      rewrite Hbrk by (destruct has; lia). reflexivity. }
    destruct (Z.eqb_spec c 72) as [E|N72].
    { rewrite (Hat 7%nat) by (try lia; rewrite E; vm_compute; reflexivity). rewrite (seg_H fuel (S d) fuel VUndef).
      rewrite Hbrk by lia. reflexivity. }
    destruct (Z.eqb_spec c 76) as [E|N76].
    { rewrite (Hat 8%nat) by (try lia; rewrite E; vm_compute; reflexivity). rewrite (seg_L fuel (S d) fuel VUndef).
      rewrite Hbrk by lia. reflexivity. }
    destruct (Z.eqb_spec c 77) as [E|N77].
    { rewrite (Hat 9%nat) by (try lia; rewrite E; vm_compute; reflexivity). rewrite (seg_M fuel (S d) fuel VUndef).
      assert (0 <= rows / 2 <= 1073741823) by (split; [apply Z.div_pos; lia|apply Z.div_le_upper_bound; lia]).
      rewrite Hbrk by lia. reflexivity. }
    (* no case label: the default segment *)
    assert (Hhas : sw_has c ln_segs = false).
    { cbv [sw_has ln_segs ln_switch fn_body cf_vi_motionln existsb fst].
      repeat match goal with |- context [?k =? c] => destruct (Z.eqb_spec k c); [lia|] end. reflexivity. }
    rewrite Hhas in *. rewrite (Hat 10%nat) by (try lia; vm_compute; reflexivity). rewrite (seg_dflt fuel (S d) fuel VUndef Hcc Icmd).
    destruct (Z.eqb_spec c 37) as [E|N37]; cbn [andb vi_motionln]; [|reflexivity].
    destruct has; [|reflexivity]. destruct (Z.ltb_spec 100 cnt); [reflexivity|].
    assert (0 <= Z.max 0 (blen b - 1) * cnt / 100 <= 2147483647).
    { assert (0 <= Z.max 0 (blen b - 1) * cnt <= 2147483600)
        by (split; [apply Z.mul_nonneg_nonneg; lia|apply Z.le_trans with (21474836 * 100); [apply Z.mul_le_mono_nonneg; lia|lia]]).
      split; [apply Z.div_pos; lia|apply Z.div_le_upper_bound; lia]. }
    rewrite Hbrk by lia. reflexivity.
  Qed.
End Ln.
