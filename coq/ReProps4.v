(* ReProps4.v -- putting machine and compiler together: the program regcomp builds
   (MARK 0; code of the tree; MARK 1; MATCH), re_recmatch at one start, and the start-position loop
   of regexec: a reported match is a derivation of the set semantics from the reported start
   (soundness); when the depth-cut counter is 0, no start tried earlier has any match (leftmost, no
   match missed) and the reported parse is the lexicographically least choice list (greedy,
   left-biased).  Ported from DESIGN.md Appendix E.1. *)
From Coq Require Import List Arith Lia Bool ZArith NArith ZifyN ZifyBool ZifyNat.
From NV Require Import Bytes GenConsts ReSyntax ReParse ReEmit ReVM ReSem ReProps ReProps2 ReProps3.
Import ListNotations.

Section Top.
Variable St : Type.
Variable atom_step : atom -> St -> res (option St).
Variable mark_step : nat -> St -> St.
Variable P : list instr.
Notation fetch := (ReVM.fetch P).
Notation path := (ReVM.path St atom_step mark_step P).
Notation rec := (ReVM.rec St atom_step mark_step P).
Notation run := (ReSem.run St atom_step mark_step P).
Notation rin := (ReSem.rin St atom_step mark_step P).
Notation M := (ReSem.M St atom_step mark_step).
Notation code_at := (ReSem.code_at P).

Variable top : re.
Hypothesis prog_ok : code_at 0 ([IMark 0] ++ emit top 1 ++ [IMark 1; IMatch]).

Lemma prog_parts : fetch 0 = IMark 0 /\ code_at 1 (emit top 1) /\ fetch (1 + len top) = IMark 1 /\ fetch (2 + len top) = IMatch.
Proof.
  pose proof prog_ok as C. apply code_at_app in C. destruct C as [C0 C]. apply code_at_one in C0. cbn [length plus] in C.
  apply code_at_app in C. destruct C as [C1 C2]. rewrite emit_len in C2.
  split; [exact C0|]. split; [exact C1|].
  split; [pose proof (C2 0 ltac:(cbn; lia)) as K; rewrite Nat.add_0_r in K; exact K | replace (2 + len top) with (1 + len top + 1) by lia; apply (C2 1); cbn; lia].
Qed.

(* a complete path through the program is a derivation of top between the two outer marks *)
Lemma path_top s cs s' : path 0 s cs s' -> exists s1, M top (mark_step 0 s) s1 /\ s' = mark_step 1 s1.
Proof.
  intro H. destruct prog_parts as (F0 & C1 & F1 & F2).
  inversion H; subst; try congruence. rewrite F0 in H0. inversion H0; subst.
  destruct (path_split St atom_step mark_step P 1 (1 + len top) (emit_closed P _ _ C1) _ _ _ _ H1 ltac:(lia)) as (cs1 & cs2 & s1 & -> & R1 & R2).
  exists s1. split; [eapply emit_sound; eauto|].
  inversion R2; subst; try congruence. rewrite F1 in H2. inversion H2; subst.
  inversion H3; subst; try congruence;
    replace (S (1 + len top)) with (2 + len top) in * by lia; congruence.
Qed.

Lemma top_path s s1 : M top (mark_step 0 s) s1 -> exists cs, path 0 s cs (mark_step 1 s1).
Proof.
  intro Hm. destruct prog_parts as (F0 & C1 & F1 & F2).
  destruct (emit_complete St atom_step mark_step P _ _ _ Hm 1 C1) as [cs R].
  exists (cs ++ []). eapply p_mark; eauto. eapply run_path; eauto.
  eapply p_mark; eauto. replace (S (1 + len top)) with (2 + len top) by lia. apply p_match. exact F2.
Qed.

(* re_recmatch at one start state *)
Theorem recmatch_sound d s cs s' c : rec d 0 s = (Found cs s', c) ->
  exists s1, M top (mark_step 0 s) s1 /\ s' = mark_step 1 s1.
Proof. intro H. apply rec_sound in H. eapply path_top; eauto. Qed.

Theorem recmatch_complete d s : rec d 0 s = (Fail, 0%N) -> forall s1, ~ M top (mark_step 0 s) s1.
Proof.
  intros H s1 Hm. apply rec_first in H. cbn [first_spec] in H.
  destruct (top_path _ _ Hm) as [cs Pth]. eapply H; eauto.
Qed.

(* the reported parse is the least choice list: every other derivation corresponds to a choice
   list that is lexicographically not smaller *)
Theorem recmatch_first d s cs s' : rec d 0 s = (Found cs s', 0%N) ->
  path 0 s cs s' /\ forall cs' r', path 0 s cs' r' -> lexle cs cs'.
Proof. intro H. apply rec_first in H. exact H. Qed.
End Top.

(* ---- the start-position loop of regexec (concrete state: position and marks) ------------------- *)
Section Exec.
Variable d : nat.
Variable P : list instr.
Variable flg : Z.
Variable line : bytes.
Variable top : re.
Hypothesis prog_ok : code_at P 0 ([IMark 0] ++ emit top 1 ++ [IMark 1; IMatch]).
Notation M := (ReSem.M st (atom_step flg line) mark_step).
Definition init (o : nat) : st := (o, repeat (-1)%Z nmarks).

(* the start positions the loop tries, in order (mirrors re_loop without the matching) *)
Fixpoint tried (k : nat) (o s : nat) : list nat :=
  match k with
  | O => []
  | S k' =>
    match rdk SUcLen line o with
    | Ok co => if (co =? 0)%N then [] else s :: tried k' s (s + re_uclen_at line s)
    | _ => []
    end
  end.

Theorem re_loop_sound : forall k o s r c, re_loop d P flg line k o s = (Ok (Some r), c) ->
  exists p s1, In p (tried k o s) /\ M top (mark_step 0 (init p)) s1 /\ r = mark_step 1 s1.
Proof.
  induction k as [|k IH]; intros o s r c H; cbn [re_loop] in H; [discriminate|].
  cbn [tried]. destruct (rdk SUcLen line o) as [co| |]; try discriminate.
  destruct (co =? 0)%N; [discriminate|].
  destruct (rdk SUcLen line s) as [cs| |]; try discriminate.
  unfold re_recmatch in H.
  destruct (rec st (atom_step flg line) mark_step P d 0 (s, repeat (-1)%Z nmarks)) as [[cs1 r1| | |w] c1] eqn:R; try discriminate.
  - inversion H; subst. destruct (recmatch_sound _ _ _ _ top prog_ok _ _ _ _ _ R) as (s1 & M1 & E).
    exists s, s1. split; [left; reflexivity|]. split; assumption.
  - destruct (re_loop d P flg line k s (s + re_uclen_at line s)) as [x c'] eqn:L. inversion H; subst.
    destruct (IH _ _ _ _ L) as (p & s1 & I & M1 & E). exists p, s1. split; [right; exact I|]. split; assumption.
Qed.

(* leftmost, nothing missed, greedy / left-biased -- when the cut counter is 0 *)
Theorem re_loop_leftmost : forall k o s x, re_loop d P flg line k o s = (Ok x, 0%N) ->
  match x with
  | None => forall p, In p (tried k o s) -> forall s1, ~ M top (mark_step 0 (init p)) s1
  | Some r =>
    exists l1 p l2 cs, tried k o s = l1 ++ p :: l2 /\
      (forall q, In q l1 -> forall s1, ~ M top (mark_step 0 (init q)) s1) /\
      path st (atom_step flg line) mark_step P 0 (init p) cs r /\
      (forall cs' r', path st (atom_step flg line) mark_step P 0 (init p) cs' r' -> lexle cs cs')
  end.
Proof.
  induction k as [|k IH]; intros o s x H; cbn [re_loop] in H; [discriminate|].
  cbn [tried]. destruct (rdk SUcLen line o) as [co| |]; try discriminate.
  destruct (co =? 0)%N.
  { inversion H; subst. intros p [] . }
  destruct (rdk SUcLen line s) as [cs| |]; try discriminate.
  unfold re_recmatch in H.
  destruct (rec st (atom_step flg line) mark_step P d 0 (s, repeat (-1)%Z nmarks)) as [[cs1 r1| | |w] c1] eqn:R; try discriminate.
  - inversion H; subst. destruct (recmatch_first _ _ _ _ _ _ _ _ R) as [P1 P2].
    exists [], s, (tried k s (s + re_uclen_at line s)), cs1. split; [reflexivity|]. split; [intros q []|]. split; assumption.
  - destruct (re_loop d P flg line k s (s + re_uclen_at line s)) as [x' c'] eqn:L. inversion H; subst.
    assert (c1 = 0%N /\ c' = 0%N) as [-> ->] by lia.
    pose proof (recmatch_complete _ _ _ _ top prog_ok _ _ R) as NoM.
    specialize (IH _ _ _ L). destruct x as [r|].
    + destruct IH as (l1 & p & l2 & cs0 & E & N1 & P1 & P2). exists (s :: l1), p, l2, cs0.
      split; [cbn [app]; rewrite E; reflexivity|]. split; [|split; assumption].
      intros q [<-|I]; [exact NoM | apply N1; exact I].
    + intros p [<-|I]; [exact NoM | apply IH; exact I].
Qed.
End Exec.
