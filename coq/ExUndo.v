(* ExUndo.v -- C04 at the ex interface: the line buffer of the ex model (ExDefs.v) simulates the line buffer of
   UndoDefs.v, every top-level command line (ex_command = ex_exec + the closing lbuf_modified) is a list of
   UndoDefs operations ending in Bump, a quiet line (ExSim.quiet_line) is exactly one CEdits command of
   C04_disciplined, the line "u" is CUndo; hence `u` restores exactly the text before the most recent
   not-yet-undone modifying command line, however many edits that line made (g, s on a range, multi-line a/i/c). *)
From Coq Require Import List Arith NArith ZArith Bool Lia.
From NV Require Import Bytes ExDefs ExSpec ExProps ExSim.
From NV Require UndoDefs UndoProps.
Import ListNotations.
Module U := UndoDefs.
Module UP := UndoProps.

(* ---------------------------------------------------------------------------------------- *)
(* the abstraction: lines get their newline back; identities, ln_glob bits, marks and the marks saved in a log
   entry are forgotten; UndoDefs' `ins` and `hist_sz` (redo text, allocation) have no counterpart in ExDefs and
   stay unconstrained -- the abstraction is a relation *)
Definition addnl (t : bytes) : U.line := t ++ [nl].
Definition utext (l : lbuf) : U.text := map addnl (map ltxt (lns l)).

Definition hrel (a : lopt) (b : U.lopt) : Prop :=
  U.pos b = o_pos a /\ U.n_ins b = o_nins a /\ U.n_del b = o_ndel a /\ U.del b = o_del a /\ U.seq b = o_seq a.

Definition Rl (l : lbuf) (u : U.lbuf) : Prop :=
  U.ln u = utext l /\ Forall2 hrel (hist l) (U.hist u) /\ U.hist_u u = hist_u l /\
  hist_u l <= length (hist l) /\ U.useq u = useq l.

Lemma Rl_core l l' u : lbcore l' = lbcore l -> Rl l u -> Rl l' u.
Proof.
  unfold lbcore. intro E. inversion E as [[E1 E2 E3 E4 E5 E6]]. unfold Rl, utext. rewrite E1, E2, E3, E4. auto.
Qed.

(* split_lines (ExDefs: lines without newline) against lines_of (UndoDefs: with newline) *)
Definition glue (p : list N) (L : U.text) : U.text :=
  match L with
  | [] => match p with [] => [] | _ => [p ++ [nl]] end
  | l :: r => (p ++ l) :: r
  end.

Lemma glue_nil L : glue [] L = L.
Proof. destruct L; reflexivity. Qed.

Lemma split_aux_lines : forall s cur, map addnl (split_lines_aux s cur) = glue (rev cur) (U.lines_of s).
Proof.
  induction s as [|c s IH]; intro cur.
  - cbn [split_lines_aux U.lines_of glue]. destruct cur as [|x cur]; [reflexivity|].
    cbn [map rev]. destruct (rev cur ++ [x]) eqn:E; [destruct (rev cur); discriminate|]. reflexivity.
  - cbn [split_lines_aux U.lines_of]. change U.NL with nl. destruct (c =? nl)%N eqn:C.
    + cbn [map]. rewrite IH. cbn [rev]. rewrite glue_nil. reflexivity.
    + rewrite IH. cbn [rev]. destruct (U.lines_of s) as [|l r]; cbn [glue].
      * destruct (rev cur ++ [c]) eqn:E; [destruct (rev cur); discriminate|]. rewrite <- E, <- app_assoc. reflexivity.
      * rewrite <- app_assoc. reflexivity.
Qed.

Lemma split_lines_of s : map addnl (split_lines s) = U.lines_of s.
Proof. unfold split_lines. rewrite split_aux_lines. apply glue_nil. Qed.

Lemma opt_lines_of t : map addnl (opt_lines t) = U.lines_opt t.
Proof. destruct t; [apply split_lines_of | reflexivity]. Qed.

Lemma utext_length l : length (utext l) = length (lns l).
Proof. unfold utext. rewrite !map_length. reflexivity. Qed.

Lemma replace_splice {A} (new : list A) p nd t : U.replace new p nd t = splice p (p + nd) new t.
Proof. reflexivity. Qed.

Lemma lbuf_replace_fields s pos nd l :
  hist (lbuf_replace s pos nd l) = hist l /\ hist_u (lbuf_replace s pos nd l) = hist_u l /\
  useq (lbuf_replace s pos nd l) = useq l /\ useq_zero (lbuf_replace s pos nd l) = useq_zero l /\
  useq_last (lbuf_replace s pos nd l) = useq_last l.
Proof.
  unfold lbuf_replace, lbuf_mark. change (markidx 91) with (Some 28). change (markidx 93) with (Some 29). cbn. auto.
Qed.

Lemma utext_replace s pos nd l : utext (lbuf_replace s pos nd l) = U.replace (U.lines_opt s) pos nd (utext l).
Proof.
  unfold utext. rewrite lbuf_replace_lns, !map_splice, replace_splice. unfold new_of. rewrite mknew_texts.
  change (match s with Some b => split_lines b | None => [] end) with (opt_lines s). rewrite opt_lines_of. reflexivity.
Qed.

Lemma cp_eq l u p q : U.ln u = utext l -> U.lbuf_cp u p q = lbuf_cp l p q.
Proof.
  intro L. unfold U.lbuf_cp, U.slice, lbuf_cp, join_lines. rewrite L. unfold utext.
  rewrite skipn_map, firstn_map, skipn_map, firstn_map. reflexivity.
Qed.

Lemma Forall2_firstn {A B} (R : A -> B -> Prop) : forall n a b, Forall2 R a b -> Forall2 R (firstn n a) (firstn n b).
Proof.
  induction n as [|n IH]; intros a b H; [constructor|]. destruct H; cbn [firstn]; constructor; auto.
Qed.

Lemma Forall2_nth_hrel : forall h h' k lo, Forall2 hrel h h' -> nth_error h k = Some lo -> hrel lo (nth k h' U.dflt).
Proof.
  induction h as [|x h IH]; intros h' k lo H E; [destruct k; discriminate|]. inversion H; subst.
  destruct k; cbn in *; [inversion E; subst; assumption | eapply IH; eassumption].
Qed.

Theorem Rl_edit l u t b e : Rl l u -> Rl (lbuf_edit t b e l) (U.lbuf_edit u t b e).
Proof.
  intros (L & H & HU & LE & SQ). unfold lbuf_edit, U.lbuf_edit, U.is_none.
  assert (LEN : length (U.ln u) = length (lns l)) by (rewrite L; apply utext_length).
  rewrite LEN. set (b' := Nat.min b _). set (e' := Nat.min e _).
  match goal with |- Rl (if ?c then _ else _) (if ?d then _ else _) =>
    assert (X : d = c) by reflexivity; rewrite X; clear X; destruct c end; [unfold Rl; auto|].
  destruct (lbuf_replace_fields t b' (e' - b') (lbuf_opt t b' (e' - b') l)) as (F1 & F2 & F3 & _).
  unfold Rl. rewrite utext_replace, F1, F2, F3.
  cbn [U.lbuf_replace U.set_ln U.lbuf_opt U.ln U.hist U.hist_u U.useq lbuf_opt hist hist_u useq lns].
  assert (FL : length (firstn (hist_u l) (hist l)) = hist_u l) by (rewrite firstn_length; lia).
  split; [rewrite L; reflexivity|]. split.
  - rewrite HU. apply Forall2_app; [apply Forall2_firstn; exact H|]. constructor; [|constructor].
    unfold hrel. cbn [U.pos U.n_ins U.n_del U.del U.seq o_pos o_nins o_ndel o_del o_seq].
    split; [reflexivity|]. split.
    { unfold U.linecount. rewrite <- opt_lines_of, map_length. destruct t; reflexivity. }
    split; [reflexivity|]. split; [|exact SQ].
    destruct (e' - b' =? 0); [reflexivity|]. rewrite (cp_eq l u _ _ L). reflexivity.
  - rewrite app_length, FL. cbn [length]. split; [lia|]. split; [lia | exact SQ].
Qed.

Lemma Rl_bump l u : Rl l u -> Rl (fst (lbuf_modified l)) (U.bump u).
Proof.
  intros (L & H & HU & LE & SQ). unfold Rl, lbuf_modified, U.bump, utext.
  cbn [fst lns hist hist_u useq U.ln U.hist U.hist_u U.useq]. rewrite SQ. auto.
Qed.

Lemma Rl_saved0 l u : Rl l u -> Rl (lbuf_saved0 l) (U.bump u).
Proof.
  intros (L & H & HU & LE & SQ). unfold Rl, lbuf_saved0, lbuf_modified, U.bump, utext.
  cbn [fst lns hist hist_u useq U.ln U.hist U.hist_u U.useq]. rewrite SQ. auto.
Qed.

Lemma Rl_undo_loop q : forall n l u, Rl l u -> hist_u l = n -> Rl (undo_loop n q l) (U.undo_loop n q u).
Proof.
  induction n as [|n IH]; intros l u R Hn; [exact R|].
  pose proof R as (L & H & HU & LE & SQ). cbn [undo_loop U.undo_loop].
  destruct (nth_error (hist l) n) as [lo|] eqn:E; [|apply nth_error_None in E; lia].
  pose proof (Forall2_nth_hrel _ _ _ _ H E) as (P1 & P2 & P3 & P4 & P5).
  rewrite HU, Hn. cbn [Nat.ltb Nat.leb andb]. replace (S n - 1) with n by lia.
  unfold U.seq_at. rewrite P5. destruct (Z.eqb (o_seq lo) q); [|exact R].
  apply IH; [|reflexivity].
  set (l0 := mklb (lns l) (marks l) (hist l) n (useq l) (useq_zero l) (useq_last l) (nextid l)).
  destruct (lbuf_replace_fields (o_del lo) (o_pos lo) (o_nins lo) l0) as (F1 & F2 & F3 & _).
  apply (Rl_core (lbuf_replace (o_del lo) (o_pos lo) (o_nins lo) l0)); [reflexivity|].
  unfold Rl. rewrite utext_replace, F1, F2, F3. unfold U.undo1. rewrite HU, Hn. replace (S n - 1) with n by lia.
  cbn [U.lbuf_replace U.set_ln U.set_hu U.ln U.hist U.hist_u U.useq]. rewrite P4, P1, P2, L.
  change (utext l0) with (utext l).
  cbn [l0 hist hist_u useq]. split; [reflexivity|]. split; [exact H|]. split; [reflexivity|]. split; [lia | exact SQ].
Qed.

Theorem Rl_undo l u : Rl l u ->
  match U.lbuf_undo u with
  | None => lbuf_undo l = (l, 1%Z)
  | Some u' => snd (lbuf_undo l) = 0%Z /\ Rl (fst (lbuf_undo l)) u'
  end.
Proof.
  intro R. pose proof R as (L & H & HU & LE & SQ). unfold U.lbuf_undo, lbuf_undo. rewrite HU.
  destruct (hist_u l) as [|k] eqn:E; [reflexivity|]. cbn [Nat.eqb].
  destruct (nth_error (hist l) k) as [lo|] eqn:N; [|apply nth_error_None in N; lia].
  pose proof (Forall2_nth_hrel _ _ _ _ H N) as (_ & _ & _ & _ & P5).
  cbn [fst snd]. split; [reflexivity|]. replace (S k - 1) with k by lia. unfold U.seq_at. rewrite P5.
  rewrite <- E. apply Rl_undo_loop; [exact R | reflexivity].
Qed.

(* ---------------------------------------------------------------------------------------- *)
(* the instance of ExSim: actions are UndoDefs operations (w's lbuf_saved is a Bump: its useq_zero update is not
   read by any of undo/redo/edit) *)
Definition op_of (a : act) : U.op :=
  match a with AEdit t b e => U.Edit t b e | ABump => U.Bump | AUndo => U.Undo | ASave => U.Bump end.
Definition urun1 (u : U.lbuf) (a : act) : U.lbuf := fst (U.run_op u (op_of a)).
Definition URel (s : st) (u : U.lbuf) : Prop := Rl (lb s) u.

Lemma URel_same s s' u : wcore s' = wcore s -> URel s u -> URel s' u.
Proof. intro E. apply (f_equal fst) in E. cbn [fst wcore] in E. apply Rl_core. exact E. Qed.
Lemma URel_edit s u txt b e : URel s u -> URel (set_lb s (lbuf_edit txt b e (lb s))) (urun1 u (AEdit txt b e)).
Proof. apply Rl_edit. Qed.
Lemma URel_bump s u : URel s u -> URel (set_lb s (fst (lbuf_modified (lb s)))) (urun1 u ABump).
Proof. apply Rl_bump. Qed.
Lemma URel_undo s u : URel s u -> URel (set_lb s (fst (lbuf_undo (lb s)))) (urun1 u AUndo).
Proof.
  unfold URel, urun1. cbn [lb set_lb op_of U.run_op]. intro R. pose proof (Rl_undo _ _ R) as X.
  destruct (U.lbuf_undo u) as [u'|]; [destruct X as [_ X]; exact X | rewrite X; exact R].
Qed.
Lemma URel_save s u : URel s u ->
  URel (set_lb (set_written s (lbuf_cp (lb s) 0 (length (lns (lb s))))) (lbuf_saved0 (lb s))) (urun1 u ASave).
Proof. apply Rl_saved0. Qed.

Lemma run_acts_ops : forall acts u, run_acts U.lbuf urun1 u acts = U.run_ops u (map op_of acts).
Proof. induction acts as [|a acts IH]; intro u; [reflexivity|]. cbn [map U.run_ops]. unfold run_acts in *. cbn [fold_left]. apply IH. Qed.

Lemma edits_only : forall acts, forallb is_edit acts = true -> exists l, map op_of acts = map UP.mk_edit l.
Proof.
  induction acts as [|a acts IH]; intro H; [exists []; reflexivity|]. cbn [forallb] in H. apply andb_prop in H. destruct H as [H1 H2].
  destruct (IH H2) as (l & E). destruct a; try discriminate. exists ((t, b, e) :: l). cbn [map op_of UP.mk_edit]. rewrite E. reflexivity.
Qed.

Section ExU.
Variable rvalid : bytes -> bool.
Variable rfind : bytes -> bytes -> bool -> option (nat * nat).
Variable filter : bytes -> bytes -> option bytes.
Variable readfile : bytes -> option bytes.
Variable curpath : bytes.

Notation excmd := (ex_command rvalid rfind filter readfile curpath).

Lemma is_edit_P : forall t b e, is_edit (AEdit t b e) = true.
Proof. reflexivity. Qed.
Lemma any_act_P : forall t b e, any_act (AEdit t b e) = true.
Proof. reflexivity. Qed.
Lemma eb_P : forall t b e, is_edit_or_bump (AEdit t b e) = true.
Proof. reflexivity. Qed.

(* (T1) ANY command line: a list of UndoDefs operations, then the closing Bump *)
Theorem ex_command_ops fuel ln s u : Rl (lb s) u ->
  exists ops, Rl (lb (fst (excmd fuel ln s))) (U.run_ops u (ops ++ [U.Bump])).
Proof.
  intro R.
  destruct (step_ex_command U.lbuf URel urun1 URel_same URel_edit URel_bump URel_undo URel_save any_act any_act_P
              rvalid rfind filter readfile curpath fuel ln s u (line_ok_any fuel ln) R) as (acts & R1 & _).
  exists (map op_of acts). rewrite run_acts_ops, map_app in R1. exact R1.
Qed.

(* a quiet line: edit calls only, then the closing Bump *)
Theorem ex_command_quiet fuel ln s u : Rl (lb s) u -> quiet_line fuel ln = true ->
  exists l, Rl (lb (fst (excmd fuel ln s))) (U.run_ops u (map UP.mk_edit l ++ [U.Bump])).
Proof.
  intros R Q.
  destruct (step_ex_command U.lbuf URel urun1 URel_same URel_edit URel_bump URel_undo URel_save is_edit is_edit_P
              rvalid rfind filter readfile curpath fuel ln s u Q R) as (acts & R1 & QE).
  destruct (edits_only acts QE) as (l & E). exists l. rewrite run_acts_ops, map_app, E in R1. exact R1.
Qed.

(* a line without u and @ (w, w! and ! allowed): edit calls and bumps -- a LIST of CEdits commands, one per bump *)
Lemma eb_split : forall ops : list U.op, Forall (fun o => match o with U.Edit _ _ _ | U.Bump => True | _ => False end) ops ->
  exists ls, ls <> [] /\ ops ++ [U.Bump] = concat (map (fun l => U.ops_of_cmd (U.CEdits l)) ls).
Proof.
  induction ops as [|o ops IH]; intro F.
  - exists [[]]. split; [discriminate | reflexivity].
  - inversion F as [|? ? Ho F']; subst. destruct (IH F') as (ls & NE & E). destruct ls as [|l1 rest]; [congruence|].
    destruct o as [buf b e| | |]; try contradiction.
    + exists (((buf, b, e) :: l1) :: rest). split; [discriminate|]. cbn [app map concat U.ops_of_cmd] in *. rewrite E. reflexivity.
    + exists ([] :: l1 :: rest). split; [discriminate|]. cbn [app map concat U.ops_of_cmd] in *. rewrite E. reflexivity.
Qed.

Theorem ex_command_nou fuel ln s u : Rl (lb s) u -> nou_line fuel ln = true ->
  exists ls, ls <> [] /\
    Rl (lb (fst (excmd fuel ln s))) (U.run_ops u (concat (map (fun l => U.ops_of_cmd (U.CEdits l)) ls))).
Proof.
  intros R Q.
  destruct (step_ex_command U.lbuf URel urun1 URel_same URel_edit URel_bump URel_undo URel_save is_edit_or_bump eb_P
              rvalid rfind filter readfile curpath fuel ln s u Q R) as (acts & R1 & QE).
  assert (F : Forall (fun o => match o with U.Edit _ _ _ | U.Bump => True | _ => False end) (map op_of acts)).
  { clear R1. induction acts as [|a acts IH]; [constructor|]. cbn [forallb] in QE. apply andb_prop in QE. destruct QE as [Q1 Q2].
    constructor; [destruct a; try exact I; discriminate | apply IH, Q2]. }
  destruct (eb_split _ F) as (ls & NE & E). exists ls. split; [exact NE|].
  rewrite run_acts_ops, map_app in R1. cbn [map op_of] in R1. rewrite E in R1. exact R1.
Qed.

Lemma last_ok_fst : forall ops u ok, fst (U.last_ok u ops ok) = U.run_ops u ops.
Proof.
  induction ops as [|o ops IH]; intros u ok; [reflexivity|]. cbn [U.last_ok U.run_ops].
  destruct (U.run_op u o) as [u' k]. cbn [fst]. apply IH.
Qed.

(* the line "u" *)
Definition line_u : bytes := [117%N].

Lemma excmd_u f s : excmd (S (S f)) line_u s =
  (bump (set_lb s (fst (lbuf_undo (lb s)))), snd (lbuf_undo (lb s))).
Proof.
  unfold ex_command, line_u. cbn [ex_exec].
  change (ex_loc [117%N]) with ([117%N], @nil N). cbv iota beta.
  change (ex_cmd [117%N]) with (@nil N, [117%N]). cbv iota beta.
  change (ex_idx [117%N]) with (Some [117%N]). cbv iota beta.
  change (ex_arg [] [117%N]) with (@nil N, @nil N). cbv iota beta.
  change (ex_txt [] [117%N] s) with (@nil N, @None bytes, s). cbv iota beta.
  change (hd0 [117%N]) with 117%N. cbn [N.eqb Pos.eqb orb].
  change (ex_simple rvalid rfind filter readfile curpath [117%N] [] [117%N] [] None s) with (ec_undo s).
  unfold ec_undo. destruct (lbuf_undo (lb s)) as [l r]. reflexivity.
Qed.

(* (T2) a quiet line is ONE CEdits command of C04_disciplined, the line u is CUndo *)
Definition line_ok (fuel : nat) (ln : bytes) : Prop := quiet_line fuel ln = true \/ ln = line_u.
Definition line_cmd (ln : bytes) (c : U.cmd) : Prop :=
  (ln = line_u -> c = U.CUndo) /\ (ln <> line_u -> exists l, c = U.CEdits l).

Theorem ex_command_is_cmd fuel ln s u : 2 <= fuel -> Rl (lb s) u -> line_ok fuel ln ->
  exists c, line_cmd ln c /\ Rl (lb (fst (excmd fuel ln s))) (fst (U.last_ok u (U.ops_of_cmd c) true)).
Proof.
  intros F R OK. destruct (list_eq_dec N.eq_dec ln line_u) as [E|NE].
  - subst ln. exists U.CUndo. split; [split; [reflexivity | congruence]|].
    destruct fuel as [|[|f]]; try lia. rewrite excmd_u. cbn [fst]. rewrite last_ok_fst. cbn [U.ops_of_cmd app U.run_ops].
    apply Rl_bump. apply (URel_undo s u R).
  - destruct OK as [Q|E]; [|congruence].
    destruct (ex_command_quiet fuel ln s u R Q) as (l & R1).
    exists (U.CEdits l). split; [split; [congruence | eauto]|]. rewrite last_ok_fst. exact R1.
Qed.

(* the texts after each of a list of command lines run one after the other (text blocks come from the pending input) *)
Fixpoint run_lines (fuel : nat) (lines : list bytes) (s : st) : list (list bytes) :=
  match lines with
  | [] => []
  | ln :: r => let s1 := fst (excmd fuel ln s) in texts s1 :: run_lines fuel r s1
  end.
Fixpoint after_lines (fuel : nat) (lines : list bytes) (s : st) : st :=
  match lines with [] => s | ln :: r => after_lines fuel r (fst (excmd fuel ln s)) end.

Lemma Rl_texts l u : Rl l u -> U.ln u = map addnl (map ltxt (lns l)).
Proof. intros (L & _). exact L. Qed.

(* (T3) scripts of quiet lines and u lines against the one-entry-per-command stack *)
Theorem lines_disciplined fuel : 2 <= fuel -> forall lines s u, Rl (lb s) u -> Forall (line_ok fuel) lines ->
  exists cs, Forall2 line_cmd lines cs /\ map (map addnl) (run_lines fuel lines s) = map fst (U.run_cmds u cs).
Proof.
  intro F. induction lines as [|ln lines IH]; intros s u R OK; [exists []; split; [constructor | reflexivity]|].
  inversion OK as [|? ? O1 O2]; subst.
  destruct (ex_command_is_cmd fuel ln s u F R O1) as (c & LC & R1).
  destruct (IH _ _ R1 O2) as (cs & LCS & E).
  exists (c :: cs). split; [constructor; assumption|].
  cbn [run_lines map U.run_cmds]. destruct (U.last_ok u (U.ops_of_cmd c) true) as [u' k] eqn:LO. cbn [fst] in *.
  cbn [map fst]. rewrite E. f_equal. symmetry. apply (Rl_texts _ _ R1).
Qed.

(* ANY script keeps the ex line buffer a reachable UndoDefs buffer, at a command boundary *)
Lemma run_ops_app : forall a b x, U.run_ops x (a ++ b) = U.run_ops (U.run_ops x a) b.
Proof. induction a as [|y a IHa]; intros b x; [reflexivity|]. cbn [app U.run_ops]. apply IHa. Qed.

Definition at_boundary (ops : list U.op) : Prop := ops = [] \/ exists ops', ops = ops' ++ [U.Bump].

Theorem after_lines_reach fuel : forall lines s u, Rl (lb s) u ->
  exists ops, Rl (lb (after_lines fuel lines s)) (U.run_ops u ops) /\ at_boundary ops.
Proof.
  induction lines as [|ln lines IH]; intros s u R; [exists []; split; [exact R | left; reflexivity]|].
  destruct (ex_command_ops fuel ln s u R) as (ops1 & R1).
  destruct (IH _ _ R1) as (ops2 & R2 & B). cbn [after_lines].
  exists ((ops1 ++ [U.Bump]) ++ ops2). split; [rewrite run_ops_app; exact R2|].
  right. destruct B as [->|(ops' & ->)]; [exists ops1; rewrite app_nil_r; reflexivity|].
  exists ((ops1 ++ [U.Bump]) ++ ops'). rewrite app_assoc. reflexivity.
Qed.

(* ---------------------------------------------------------------------------------------- *)
(* the headline: after ANY script, a quiet modifying line followed by the line u *)

Definition keys_le (sp : U.ustack) : Prop :=
  Forall (fun x => (fst x <= U.cmdno sp)%Z) (U.past sp) /\ Forall (fun x => (fst x <= U.cmdno sp)%Z) (U.future sp).
Definition keys_lt (sp : U.ustack) : Prop :=
  Forall (fun x => (fst x < U.cmdno sp)%Z) (U.past sp) /\ Forall (fun x => (fst x < U.cmdno sp)%Z) (U.future sp).

Lemma keys_le_step sp o : keys_le sp -> keys_le (fst (U.spec_op sp o)).
Proof.
  intros [P Fu]. destruct o; cbn [U.spec_op].
  - destruct (U.edit_noop _ _ _ _); [split; assumption|]. split; cbn [fst U.past U.future U.cmdno]; [|constructor].
    unfold U.push_past. destruct (U.past sp) as [|[q x] r] eqn:E; [constructor; [cbn; lia | constructor]|].
    destruct (Z.eqb q (U.cmdno sp)); [exact P | constructor; [cbn; lia | exact P]].
  - split; cbn [fst U.past U.future U.cmdno]; (eapply Forall_impl; [|eassumption]); cbn; intros; lia.
  - destruct (U.past sp) as [|[q t] p] eqn:E; [cbn [fst]; split; [rewrite E; constructor | exact Fu]|].
    inversion P; subst. split; cbn [fst U.past U.future U.cmdno]; [assumption | constructor; assumption].
  - destruct (U.future sp) as [|[q t] p] eqn:E; [cbn [fst]; split; [exact P | rewrite E; constructor]|].
    inversion Fu; subst. split; cbn [fst U.past U.future U.cmdno]; [constructor; assumption | assumption].
Qed.

Lemma keys_le_ops : forall ops sp, keys_le sp -> keys_le (U.spec_ops sp ops).
Proof. induction ops as [|o ops IH]; intros sp K; [exact K|]. cbn [U.spec_ops]. apply IH, keys_le_step, K. Qed.

Lemma spec_ops_app : forall a b sp, U.spec_ops sp (a ++ b) = U.spec_ops (U.spec_ops sp a) b.
Proof. induction a as [|y a IHa]; intros b sp; [reflexivity|]. cbn [app U.spec_ops]. apply IHa. Qed.

Lemma keys_lt_boundary t0 u0 ops : at_boundary ops -> keys_lt (U.spec_ops (U.ustack_init t0 u0) ops).
Proof.
  intros [->|(ops' & ->)]; [split; constructor|]. rewrite spec_ops_app. cbn [U.spec_ops U.spec_op fst].
  destruct (keys_le_ops ops' (U.ustack_init t0 u0)) as [P Fu]; [split; constructor|].
  split; cbn [U.past U.future U.cmdno]; (eapply Forall_impl; [|eassumption]); cbn; intros; lia.
Qed.

Lemma slast_fst : forall ops sp ok, fst (UP.slast_ok sp ops ok) = U.spec_ops sp ops.
Proof.
  induction ops as [|o ops IH]; intros sp ok; [reflexivity|]. cbn [UP.slast_ok U.spec_ops].
  destruct (U.spec_op sp o) as [sp' k]. cbn [fst]. apply IH.
Qed.

Lemma addnl_inj : forall a b : list bytes, map addnl a = map addnl b -> a = b.
Proof.
  induction a as [|x a IH]; intros [|y b] H; try discriminate; [reflexivity|]. cbn [map] in H. inversion H as [[H1 H2]].
  apply app_inv_tail in H1. subst. f_equal. apply IH, H2.
Qed.

Lemma Rl_init data : Rl (init_lbuf data) (U.lbuf_loaded (U.lines_of data) 3).
Proof.
  unfold Rl, init_lbuf, U.lbuf_loaded, utext. cbn [lns hist hist_u useq U.ln U.hist U.hist_u U.useq length].
  split; [|split; [constructor | auto]].
  rewrite lbuf_edit_lns by (cbn; lia). rewrite map_splice. unfold new_of. rewrite mknew_texts.
  cbn [lns map]. unfold splice. cbn [firstn skipn app]. rewrite app_nil_r. symmetry. apply split_lines_of.
Qed.

Theorem ex_u_restores fuel data input wa pre ln : 2 <= fuel ->
  let s := after_lines fuel pre (init_st data input wa) in
  let s1 := fst (excmd fuel ln s) in
  quiet_line fuel ln = true -> texts s1 <> texts s ->
  texts (fst (excmd fuel line_u s1)) = texts s /\ snd (excmd fuel line_u s1) = 0%Z.
Proof.
  intros F s s1 Q NE.
  set (t0 := U.lines_of data). set (u0 := U.lbuf_loaded t0 3). set (sp0 := U.ustack_init t0 3).
  assert (R0 : UP.R u0 sp0) by (apply UP.R_init, UP.lines_of_wf).
  destruct (after_lines_reach fuel pre (init_st data input wa) u0 (Rl_init data)) as (ops & RL & B). fold s in RL.
  pose proof (UP.R_ops u0 sp0 ops R0) as R. pose proof (keys_lt_boundary t0 3 ops B) as K. fold sp0 in K.
  set (u := U.run_ops u0 ops) in *. set (sp := U.spec_ops sp0 ops) in *.
  destruct (ex_command_quiet fuel ln s u RL Q) as (l & RL1). fold s1 in RL1.
  pose proof (UP.R_ops u sp (map UP.mk_edit l ++ [U.Bump]) R) as R1.
  rewrite <- (slast_fst _ sp true), UP.spec_edits in R1. cbn [fst] in R1.
  pose proof (UP.R_cur _ _ R) as C. pose proof (UP.R_cur _ _ R1) as C1.
  rewrite (Rl_texts _ _ RL) in C. rewrite (Rl_texts _ _ RL1) in C1.
  destruct (fst (U.apply_edits l (U.cur sp))) eqn:CH.
  2:{ exfalso. apply NE. apply addnl_inj. unfold texts. rewrite <- C, <- C1. reflexivity. }
  assert (P : U.push_past sp = (U.cmdno sp, U.cur sp) :: U.past sp).
  { destruct K as [K _]. unfold U.push_past. destruct (U.past sp) as [|[q x] r]; [reflexivity|]. inversion K; subst. cbn [fst] in *.
    replace (Z.eqb q (U.cmdno sp)) with false by (symmetry; apply Z.eqb_neq; lia). reflexivity. }
  rewrite P in R1.
  destruct (UP.R_undo _ _ R1) as [R2 OK]. cbn [U.spec_op U.past fst snd] in R2, OK.
  pose proof (Rl_undo _ _ RL1) as UN. cbn [U.run_op] in R2, OK.
  destruct (U.lbuf_undo (U.run_ops u (map UP.mk_edit l ++ [U.Bump]))) as [u'|]; [|discriminate].
  destruct UN as [Z0 RL2]. cbn [fst] in R2.
  destruct fuel as [|[|f]]; try lia. rewrite excmd_u. cbn [fst snd]. split; [|exact Z0].
  pose proof (UP.R_cur _ _ R2) as C2. cbn [U.cur] in C2. rewrite (Rl_texts _ _ RL2) in C2.
  apply addnl_inj. unfold texts. cbn [lb bump set_lb lbuf_modified fst lns]. rewrite <- C2. exact C.
Qed.

(* scripts of quiet lines and u lines from the initial state: the texts after every line are those of the
   one-entry-per-command stack of C04_disciplined *)
Theorem ex_lines_disciplined fuel data input wa lines : 2 <= fuel -> Forall (line_ok fuel) lines ->
  exists cs, Forall2 line_cmd lines cs /\
    map (map addnl) (run_lines fuel lines (init_st data input wa)) =
    map fst (U.cspec_trace (U.cstack_init (U.lines_of data)) cs).
Proof.
  intros F OK. destruct (lines_disciplined fuel F lines (init_st data input wa) _ (Rl_init data) OK) as (cs & LC & E).
  exists cs. split; [exact LC|]. rewrite E. rewrite (UP.undo_disciplined (U.lines_of data) 3 cs (UP.lines_of_wf data)). reflexivity.
Qed.

(* ANY script (w, @, !, u inside `|` lines included) from the initial state: the line buffer stays a reachable
   UndoDefs buffer whose operation list ends every command line with Bump *)
Theorem ex_script_reachable fuel data input wa lines :
  exists ops, Rl (lb (after_lines fuel lines (init_st data input wa))) (U.run_ops (U.lbuf_loaded (U.lines_of data) 3) ops) /\
              at_boundary ops.
Proof. apply after_lines_reach, Rl_init. Qed.

End ExU.
