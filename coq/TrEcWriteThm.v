(* TrEcWriteThm.v -- ec_write on the C text, part 3: what `ecw_run` (TrEcWriteCmd.v) says, clause by clause (the decision functions
   `adopts`, `same_str`, `whole`, `save_args`, and the shapes of write_run / tail_run in the cases the properties C02 / C03 name), the
   link to ec_quit (TrQuit.v: wq / x), the tie of the saved-mark to DirtyDefs (C02), and a memory to RUN the translated function on. *)
From Coq Require Import List ZArith NArith Bool Lia.
From NV Require Import Bytes UndoDefs.
From NV Require Import CLite CLiteProps GenCFuncs CLiteTac CLiteExt TrLbufBase TrLbuf TrEcWrite TrEcWriteCmd.
From NV Require DirtyDefs.
Import ListNotations.
Local Open Scope Z_scope.

(* ------------------------------------------------------------------ (1) the name: fix 268c549 *)
(* a pipe is never adopted as the name, whatever the buffer's own path is; a buffer that has a name keeps it *)
Theorem adopts_pipe p s : adopts p (33%N :: s) = false.
Proof. destruct p; reflexivity. Qed.
Theorem adopts_named c p path : adopts (c :: p) path = false.
Proof. reflexivity. Qed.
Theorem adopts_iff p path : adopts p path = true <-> p = [] /\ nthb path 0 <> 33%N.
Proof.
  unfold adopts. destruct p; [|split; [discriminate|intros [X _]; discriminate]].
  destruct (N.eqb_spec (nthb path 0) 33) as [E|E]; cbn [negb]; split.
  - discriminate.
  - intros [_ X]. contradiction.
  - intros _. split; [reflexivity|exact E].
  - reflexivity.
Qed.
(* the tail when the name is not adopted and the target is not the buffer's own path (a pipe on any buffer not named like it; another
   file): snprintf and ex_show are the only calls, NOTHING is stored -- bufs[0] and the struct lbuf are what the two oracles left: no
   lbuf_saved, no lbuf_unsaved, no mtime -- and 0 is returned *)
Theorem tail_run_elsewhere ext bl n bm qb path b e K (Q : Z -> mem -> Prop) m gb pb p blk lb :
  adopts p path = false -> same_str p path = false ->
  (tail_run ext bl n bm qb path b e K Q m gb pb p blk lb <->
   forall u1 m1 u2 m2, ext X_snprintf [VPtr bm 0; VInt 128; VPtr G_wmsg 0; VPtr qb 0; VInt (e - b)] m = Ok (u1, m1) -> same_on K m m1 ->
     ext X_ex_show [VPtr bm 0] m1 = Ok (u2, m2) -> same_on K m1 m2 -> Q 0 m2).
Proof.
  intros Ha Hs. unfold tail_run, fin_run, saved_mem. rewrite Ha, Hs. tauto.
Qed.
Theorem same_str_pipe_unnamed s : same_str [] (33%N :: s) = false.
Proof. reflexivity. Qed.

(* ------------------------------------------------------------------ (2) the write to a file *)
(* the arguments lbuf_save gets: the buffer, the range, the path, force = the command has a `!`, and as mtime guard the buffer's stored
   mtime exactly when the path is the buffer's own path (0 otherwise: lbuf_save then refuses any existing file that is not forced) *)
Theorem save_args_spec bl ts qb path cmd b e p :
  save_args bl ts qb path cmd b e p =
  [VPtr bl 0; VInt b; VInt e; VPtr qb 0; VInt (if has_byte 33 cmd then 1 else 0); VInt (if same_str p path then wrap I64 ts else 0)].
Proof. unfold save_args. destruct (has_byte 33 cmd); reflexivity. Qed.
(* a failing lbuf_save: ex_show(err), return 1 -- and nothing else: the memory is what ex_show left *)
Theorem write_run_save_fails ext m0 gb pb p bl ts n cmd K (Q : Z -> mem -> Prop) qb path blk1 lb1 b e m4 r m5 u m6 :
  nthb path 0 <> 33%N -> write_run ext m0 gb pb p bl ts n cmd K Q qb path blk1 lb1 b e m4 ->
  ext X_lbuf_save (save_args bl ts qb path cmd b e p) m4 = Ok (r, m5) -> ptr_val r -> same_on K m4 m5 -> is_null r = false ->
  ext X_ex_show [r] m5 = Ok (u, m6) -> Q 1 m6.
Proof.
  intros H0 H E5 Hr S5 Hn E6. unfold write_run in H. destruct (N.eqb_spec (nthb path 0) 33) as [X|_]; [contradiction|].
  specialize (H r m5 E5 Hr S5). rewrite Hn in H. exact (H u m6 E6).
Qed.

(* ------------------------------------------------------------------ (3) the saved mark, against the model of C02 *)
(* a write elsewhere: nothing; the own path: DirtyDefs.write_own -- lbuf_saved for the whole buffer, lbuf_unsaved for a part *)
Theorem saved_lb_elsewhere lb wh : saved_lb lb false wh = lb.
Proof. reflexivity. Qed.
Theorem saved_mem_elsewhere m bl blk lb wh : saved_mem m bl blk lb false wh = m.
Proof. reflexivity. Qed.
Theorem saved_lb_partial lb : saved_lb lb true false = lbuf_unsaved lb.
Proof. reflexivity. Qed.
Theorem saved_lb_model (lb : lbuf) (dk : text) (b en : nat) :
  saved_lb lb true (whole (Z.of_nat b) (Z.of_nat en) (Z.of_nat (length (ln lb)))) = DirtyDefs.lb (DirtyDefs.write_own {| DirtyDefs.lb := lb; DirtyDefs.disk := dk |} b en).
Proof.
  unfold saved_lb, whole, DirtyDefs.write_own. cbn [DirtyDefs.lb].
  replace (Z.of_nat b =? 0) with (Nat.eqb b 0) by (destruct b; reflexivity).
  replace (Z.of_nat en =? Z.of_nat (length (ln lb))) with (Nat.eqb en (length (ln lb)))
    by (destruct (Nat.eqb_spec en (length (ln lb))); destruct (Z.eqb_spec (Z.of_nat en) (Z.of_nat (length (ln lb)))); try reflexivity; lia).
  destruct (Nat.eqb b 0 && Nat.eqb en (length (ln lb))); reflexivity.
Qed.
(* the decisions of the C text against DirtyDefs.ec_write_named (the model of fix 268c549): names are numbered by any injective `code`;
   the target is a pipe when the path starts with `!`, the own path when there is no argument, a path otherwise.  Whenever the model does
   not fail: the buffer's name afterwards and its lbuf state are the model's *)
Definition target_of (code : bytes -> nat) (arg path : bytes) : DirtyDefs.wtarget :=
  if (nthb path 0 =? 33)%N then DirtyDefs.WPipe else match arg with [] => DirtyDefs.WOwn | _ :: _ => DirtyDefs.WPath (code path) end.
Definition name_of (code : bytes -> nat) (p : bytes) : option nat := match p with [] => None | _ :: _ => Some (code p) end.
Definition name_after (p path : bytes) : bytes := if adopts p path then path else p.
Theorem tr_ec_write_model (code : bytes -> nat) (lb : lbuf) (dk : text) (p arg path : bytes) (b en : nat) :
  (forall x y, code x = code y -> x = y) -> (arg = [] -> path = p) -> path <> [] -> (nthb p 0 <> 33%N) ->
  let f := {| DirtyDefs.nb := {| DirtyDefs.lb := lb; DirtyDefs.disk := dk |}; DirtyDefs.nname := name_of code p |} in
  let r := DirtyDefs.ec_write_named (target_of code arg path) b en f in
  snd r = false /\
  DirtyDefs.nname (fst r) = name_of code (name_after p path) /\
  DirtyDefs.lb (DirtyDefs.nb (fst r)) = saved_lb lb (same_str (name_after p path) path) (whole (Z.of_nat b) (Z.of_nat en) (Z.of_nat (length (ln lb)))).
Proof.
  intros Hinj Harg Hne Hp33 f r. subst r f. unfold target_of, name_after.
  destruct (N.eqb_spec (nthb path 0) 33) as [E0|E0].
  - (* a pipe *)
    assert (Ha : adopts p path = false) by (destruct path as [|c s]; [contradiction|]; cbn [nthb nth] in E0; subst c; apply adopts_pipe).
    rewrite Ha. cbn [DirtyDefs.ec_write_named fst snd DirtyDefs.nname DirtyDefs.nb DirtyDefs.lb].
    assert (Hs : same_str p path = false).
    { destruct (same_str p path) eqn:X; [|reflexivity]. apply same_str_eq in X. subst p. contradiction. }
    rewrite Hs. repeat split; reflexivity.
  - destruct arg as [|c arg'].
    + (* the own path: the buffer has a name (path = p is not empty) *)
      rewrite <- (Harg eq_refl) in *. destruct path as [|c s]; [contradiction|]. cbn [adopts name_of DirtyDefs.ec_write_named DirtyDefs.nname].
      cbn [fst snd DirtyDefs.nname DirtyDefs.nb]. rewrite same_str_refl, <- saved_lb_model. repeat split; reflexivity.
    + destruct p as [|pc ps]; cbn [name_of DirtyDefs.ec_write_named DirtyDefs.nname adopts].
      * (* the unnamed buffer takes the name *)
        destruct (N.eqb_spec (nthb path 0) 33) as [X|_]; [contradiction|]. cbn [negb fst snd DirtyDefs.nname DirtyDefs.nb].
        rewrite same_str_refl, <- saved_lb_model. destruct path; [contradiction|]. repeat split; reflexivity.
      * destruct (Nat.eqb_spec (code path) (code (pc :: ps))) as [X|X]; cbn [fst snd DirtyDefs.nname DirtyDefs.nb].
        -- apply Hinj in X. subst path. rewrite same_str_refl, <- saved_lb_model. repeat split; reflexivity.
        -- assert (Hs : same_str (pc :: ps) path = false).
           { destruct (same_str (pc :: ps) path) eqn:Y; [|reflexivity]. apply same_str_eq in Y. subst path. contradiction. }
           rewrite Hs. repeat split; reflexivity.
Qed.

(* ------------------------------------------------------------------ a memory to RUN the translated ec_write on *)
(* the program's globals with bufs[0] = { path -> block PB, lb -> block BL, mtime 100 }, then: the path string, a struct lbuf (2 lines,
   useq 5, useq_zero 3, useq_last 4, empty log: MODIFIED), the command, the argument, the address "", and the static buffer of
   ex_pathexpand holding the expanded argument *)
Definition PB : nat := length cglobals.
Definition BL : nat := S PB.  Definition CB : nat := S BL.  Definition AB : nat := S CB.  Definition LCB : nat := S AB.  Definition QX : nat := S LCB.
Definition ex_lbuf_blk : block :=
  repeat (VInt (-1)) 32 ++ repeat (VInt 0) 32 ++ [VInt 0; VInt 0; VInt 2; VInt 0; VInt 5; VInt 0; VInt 0; VInt 0; VInt 0; VInt 3; VInt 4].
Definition ex_lb : lbuf := {| ln := []; hist := []; hist_u := 0; hist_sz := 0; useq := 5; useq_zero := 3; useq_last := 4 |}.
Definition ex_gb : block := upd (upd (upd gb_bufs 32 (VPtr PB 0)) 33 (VPtr BL 0)) 40 (VInt 100).
Definition ex_mem (p cmd arg pathx : bytes) : mem :=
  upd cglobals G_bufs ex_gb ++ [cstr_block (zb p); ex_lbuf_blk; cstr_block (zb cmd); cstr_block (zb arg); cstr_block []; cstr_block (zb pathx)].
(* the oracles: ex_pathexpand answers its static buffer, lbuf_save answers `sv` (NULL = success), mtime answers 777, lbuf_cp answers NULL;
   nothing touches the memory *)
Definition ex_ext (sv : val) : nat -> list val -> mem -> res (val * mem) := fun f _ m =>
  if Nat.eqb f X_ex_pathexpand then Ok (VPtr QX 0, m)
  else if Nat.eqb f X_lbuf_save then Ok (sv, m)
  else if Nat.eqb f X_mtime then Ok (VInt 777, m)
  else Ok (VInt 0, m).
(* what is observed: the value returned, the path cell of bufs[0], the string it points to (first byte), mtime, useq, useq_zero *)
Definition cell (m : mem) (b i : nat) : option val := match nth_error m b with Some blk => nth_error blk i | None => None end.
Definition run_w (sv : val) (p cmd arg pathx : bytes) : option (Z * option val * option val * option val * option val) :=
  match callx (ex_ext sv) cprog 10 10 F_ec_write [VPtr LCB 0; VPtr CB 0; VPtr AB 0; VInt 0] (ex_mem p cmd arg pathx) with
  | Ok (VInt r, m') => Some (r, cell m' G_bufs 32, cell m' G_bufs 40, cell m' BL L_useq, cell m' BL L_useq_zero)
  | _ => None
  end.
(* :w on the buffer "f": lbuf_save succeeded -> 0, mtime := 777, saved mark (useq_zero := lbuf_seq = 4, counter bumped) *)
Example run_w_own : run_w (VInt 0) [102%N] [119%N] [] [] = Some (0, Some (VPtr PB 0), Some (VInt 777), Some (VInt 6), Some (VInt 4)).
Proof. vm_compute. reflexivity. Qed.
(* the same with a failing lbuf_save: 1, and NOTHING changed: mtime 100, counter 5, useq_zero 3 (still modified) *)
Example run_w_fails : run_w (VPtr G_lit__0 0) [102%N] [119%N] [] [] = Some (1, Some (VPtr PB 0), Some (VInt 100), Some (VInt 5), Some (VInt 3)).
Proof. vm_compute. reflexivity. Qed.
(* :w g on the buffer "f": a write elsewhere -> 0, nothing marked *)
Example run_w_other : run_w (VInt 0) [102%N] [119%N] [103%N] [103%N] = Some (0, Some (VPtr PB 0), Some (VInt 100), Some (VInt 5), Some (VInt 3)).
Proof. vm_compute. reflexivity. Qed.
(* :w !c on the UNNAMED buffer (fix 268c549): 0, the path cell still points to "", nothing marked: the buffer stays modified *)
Example run_w_pipe_unnamed : run_w (VInt 0) [] [119%N] [33%N; 99%N] [33%N; 99%N] = Some (0, Some (VPtr PB 0), Some (VInt 100), Some (VInt 5), Some (VInt 3)).
Proof. vm_compute. reflexivity. Qed.
(* :w g on the UNNAMED buffer: the name is adopted (a fresh block behind the frame and ex_region's local), saved mark, mtime *)
Example run_w_adopt : run_w (VInt 0) [] [119%N] [103%N] [103%N] = Some (0, Some (VPtr (QX + 5) 0), Some (VInt 777), Some (VInt 6), Some (VInt 4)).
Proof. vm_compute. reflexivity. Qed.
(* :x on a buffer whose useq_zero says clean would return at once; here the buffer is modified: the write happens *)
Example run_x_modified : run_w (VInt 0) [102%N] [120%N] [] [] = Some (0, Some (VPtr PB 0), Some (VInt 777), Some (VInt 7), Some (VInt 4)).
Proof. vm_compute. reflexivity. Qed.

(* the hypotheses of tr_ec_write hold of this memory *)
Definition EXM : mem := ex_mem [102%N] [119%N] [] [].
Definition EXK : list nat := [G_bufs; PB; BL; CB; LCB; S (length EXM); S (S (length EXM))].
Example tr_ec_write_nonvacuous :
  ecw_run (ex_ext (VInt 0)) 6 10 EXM ex_gb PB [102%N] BL ex_lbuf_blk ex_lb 100 2 [119%N] AB [] LCB [] EXK
    (fun r mf => callx (ex_ext (VInt 0)) cprog 10 10 F_ec_write [VPtr LCB 0; VPtr CB 0; VPtr AB 0; VInt 0] EXM = Ok (VInt r, mf)).
Proof.
  apply (tr_ec_write (ex_ext (VInt 0)) 6 10 EXM ex_gb PB [102%N] BL ex_lbuf_blk ex_lb 100 2 CB [119%N] AB [] LCB [] (VInt 0) EXK).
  - repeat constructor; lia.
  - repeat constructor; lia.
  - unfold i32; lia.
  - constructor; reflexivity.
  - reflexivity.
  - constructor; try reflexivity. intro H. exfalso. apply H. reflexivity.
  - reflexivity.
  - reflexivity.
  - reflexivity.
  - reflexivity.
  - constructor.
  - constructor.
  - unfold lbuf_ints, i32. cbn. repeat split; try lia. constructor.
  - cbn. lia.
  - cbn. lia.
  - intros x Hx. exact Hx.
  - intros H. exfalso. apply H. reflexivity.
  - repeat constructor; cbn; intuition discriminate.
  - discriminate.
  - discriminate.
  - intros H. exfalso. apply H. reflexivity.
Qed.
