(* ReProps6.v -- C11_parse_in_bounds: on every pattern string that ends in ')' (every string rset_make
   builds does) the byte-level parser never reads or steps past the terminator and does not run out
   of fuel. *)
From Coq Require Import List Arith Lia Bool ZArith NArith ZifyN ZifyBool ZifyNat.
From NV Require Import Bytes GenConsts ReSyntax ReParse ReEmit ReVM ReSem RsetDefs ReProps ReProps2 ReProps3.
Import ListNotations.
Local Open Scope N_scope.

Definition nz (s : bytes) : Prop := Forall (fun b => b <> 0) s.
Definition sfx (s' s : bytes) : Prop := exists pre, s = pre ++ s'.
Definition good (s : bytes) : Prop := s = [] \/ last s 0 = 41.

Lemma sfx_refl s : sfx s s. Proof. exists []. reflexivity. Qed.
Lemma sfx_trans a b c : sfx a b -> sfx b c -> sfx a c.
Proof. intros [p ->] [q ->]. exists (q ++ p). rewrite app_assoc. reflexivity. Qed.
Lemma sfx_tl s : sfx (tl s) s. Proof. destruct s; [apply sfx_refl | exists [n]; reflexivity]. Qed.
Lemma sfx_skipn k s : sfx (skipn k s) s. Proof. exists (firstn k s). symmetry. apply firstn_skipn. Qed.
Lemma sfx_len a b : sfx a b -> (length a <= length b)%nat. Proof. intros [p ->]. rewrite app_length. lia. Qed.
Lemma sfx_nz a b : sfx a b -> nz b -> nz a. Proof. intros [p ->] H. apply Forall_app in H. apply H. Qed.
Lemma last_app' {A} (p : list A) x a d : last (p ++ x :: a) d = last (x :: a) d.
Proof. induction p as [|y p IH]; [reflexivity|]. cbn [app]. rewrite <- IH. destruct (p ++ x :: a) eqn:E; [destruct p; discriminate | reflexivity]. Qed.
Lemma sfx_good a b : sfx a b -> good b -> good a.
Proof.
  intros [p ->] [H|H].
  - left. destruct p; destruct a; cbn in H; congruence.
  - destruct a as [|x a]; [left; reflexivity|]. right. rewrite last_app' in H. exact H.
Qed.
(* a non-empty prefix without ')' cannot be the end of a good string *)
Lemma good_rest pre s : good (pre ++ s) -> pre <> [] -> Forall (fun b => b <> 41) pre -> s <> [].
Proof.
  intros [H|H] Hp Hf Hs; subst s; rewrite app_nil_r in *.
  - contradiction.
  - assert (In (last pre 0) pre). { destruct pre; [contradiction|]. apply (@exists_last _ (n :: pre)) in Hp as (l' & a & E). rewrite E. rewrite last_last. apply in_or_app. right. left. reflexivity. }
    rewrite Forall_forall in Hf. apply Hf in H0. contradiction.
Qed.

(* ---- uc_len never leaves the string ------------------------------------------------------- *)
Lemma ucl_scan_le k : forall r i, (i <= ucl_scan k r i <= i + length r)%nat.
Proof.
  induction k as [|k IH]; intros r i; cbn [ucl_scan]; [lia|].
  destruct r as [|b r]; cbn [length]; [lia|]. destruct (b =? 0); [lia|]. specialize (IH r (S i)). lia.
Qed.
Lemma re_uclen_le s : (re_uclen s <= length s)%nat.
Proof.
  destruct s as [|c r]; cbn [re_uclen length]; [lia|].
  destruct (negb (bit c 128 && bit c 64)); [destruct (c =? 0); lia|].
  pose proof (ucl_scan_le (re_ucfull c - 1) r 1). lia.
Qed.
Lemma re_uclen_pos s : hd0 s <> 0 -> (1 <= re_uclen s)%nat.
Proof.
  destruct s as [|c r]; cbn [re_uclen hd0]; [congruence|]. intro H.
  destruct (negb (bit c 128 && bit c 64)); [destruct (c =? 0) eqn:E; lia|].
  pose proof (ucl_scan_le (re_ucfull c - 1) r 1). lia.
Qed.

Lemma rdk_in w s k : (k <= length s)%nat -> exists b, rdk w s k = Ok b.
Proof.
  intro H. unfold rdk. destruct (nth_error s k) eqn:E; [eauto|].
  apply nth_error_None in E. assert (k = length s) by lia. subst. rewrite Nat.eqb_refl. eauto.
Qed.
Lemma adv_in w s k : (k <= length s)%nat -> adv w s k = Ok (skipn k s).
Proof. intro H. unfold adv. apply Nat.leb_le in H. rewrite H. reflexivity. Qed.

(* ---- the literal run ------------------------------------------------------------------------- *)
Lemma chr_run_ok : forall k first s n, (length s < k)%nat -> (first = true -> hd0 s <> 0) ->
  exists m, chr_run k first s n = Ok m /\ (n <= m <= n + length s)%nat /\ (first = true -> n < m)%nat.
Proof.
  induction k as [|k IH]; intros first s n Hk Hf; [lia|]. cbn [chr_run].
  destruct (first || negb ((hd0 s =? 0) || memb (hd0 s) re_meta)) eqn:C.
  - assert (Hnz : hd0 s <> 0). { destruct first; [apply Hf; reflexivity|]. cbn in C. destruct (hd0 s =? 0) eqn:E; [discriminate | lia]. }
    pose proof (re_uclen_pos s Hnz) as L1. pose proof (re_uclen_le s) as L2.
    destruct first.
    + destruct (Nat.eqb (re_uclen s) 0) eqn:E0; [apply Nat.eqb_eq in E0; lia|].
      rewrite adv_in by lia. cbn [bind].
      destruct (IH false (skipn (re_uclen s) s) (n + re_uclen s)%nat) as (m & E & B & _); [rewrite skipn_length; lia | discriminate |].
      exists m. rewrite skipn_length in B. split; [exact E|]. split; [lia|]. intro. lia.
    + destruct (rdk_in SUcLen s (re_uclen s) L2) as [dch R]. rewrite R. cbn [bind].
      destruct (negb (dch =? 0) && memb dch re_rep).
      * exists n. split; [reflexivity|]. split; [lia | discriminate].
      * rewrite adv_in by lia. cbn [bind].
        destruct (IH false (skipn (re_uclen s) s) (n + re_uclen s)%nat) as (m & E & B & _); [rewrite skipn_length; lia | discriminate |].
        exists m. rewrite skipn_length in B. split; [exact E|]. split; [lia | discriminate].
  - exists n. split; [reflexivity|]. split; [lia|]. intro; subst; discriminate.
Qed.

Lemma chr_lit_ok s : hd0 s <> 0 -> exists a s', chr_lit s = Ok (a, s') /\ sfx s' s /\ (length s' < length s)%nat.
Proof.
  intro H. unfold chr_lit. destruct (chr_run_ok (S (length s)) true s 0 ltac:(lia) ltac:(intro; exact H)) as (m & E & B & B2).
  rewrite E. cbn [bind]. eexists _, _. split; [reflexivity|]. split; [apply sfx_skipn|]. rewrite skipn_length. specialize (B2 eq_refl). lia.
Qed.

Lemma brk_body_le inner s : (brk_body inner s <= length s)%nat.
Proof. revert inner; induction s as [|c r IH]; intro inner; cbn [brk_body length]; [lia|].
  destruct inner; [destruct (c =? 93); [specialize (IH false) | specialize (IH true)]; lia|].
  destruct (c =? 93); [lia|]. destruct ((c =? 91) && ((hd0 r =? 58) || (hd0 r =? 61))); [specialize (IH true) | specialize (IH false)]; lia.
Qed.

Lemma ratom_read_ok s : nz s -> good s -> s <> [] -> exists a s', ratom_read s = Ok (a, s') /\ sfx s' s /\ (length s' < length s)%nat.
Proof.
  intros Hz Hg Hs. destruct s as [|c r]; [contradiction|]. cbn [ratom_read].
  assert (Hc : c <> 0) by (inversion Hz; assumption).
  destruct (c =? 46). { eexists _, _. split; [reflexivity|]. split; [apply (sfx_tl (c :: r)) | cbn; lia]. }
  destruct (c =? 94). { eexists _, _. split; [reflexivity|]. split; [apply (sfx_tl (c :: r)) | cbn; lia]. }
  destruct (c =? 36). { eexists _, _. split; [reflexivity|]. split; [apply (sfx_tl (c :: r)) | cbn; lia]. }
  destruct (c =? 91) eqn:E91.
  { eexists _, _. split; [reflexivity|]. split; [apply sfx_skipn|]. rewrite skipn_length.
    assert (1 <= brk_len (c :: r))%nat. { unfold brk_len. destruct (nthb (c :: r) 1 =? 94); destruct (nthb (c :: r) _ =? 93); destruct (nthb (c :: r) _ =? 93); lia. }
    cbn [length]. lia. }
  destruct (c =? 92) eqn:E92.
  - destruct r as [|dch r'].
    + (* a lone backslash at the end: excluded, the string ends in ')' *)
      exfalso. destruct Hg as [Hg|Hg]; [discriminate|]. cbn in Hg. lia.
    + assert (Hd : dch <> 0). { inversion Hz as [|? ? _ Hz']; inversion Hz'; assumption. }
      destruct (dch =? 60). { eexists _, _. split; [reflexivity|]. split; [exists [c; dch]; reflexivity | cbn; lia]. }
      destruct (dch =? 62). { eexists _, _. split; [reflexivity|]. split; [exists [c; dch]; reflexivity | cbn; lia]. }
      destruct (chr_lit_ok (dch :: r') Hd) as (a & s' & E & S1 & L). exists a, s'. split; [exact E|]. split; [eapply sfx_trans; [exact S1 | exists [c]; reflexivity] | cbn [length] in *; lia].
  - destruct (chr_lit_ok (c :: r) Hc) as (a & s' & E & S1 & L). exists a, s'. split; [exact E|]. split; assumption.
Qed.

(* ---- the repetition suffix -------------------------------------------------------------------- *)
(* s' is what is left of s after a prefix that contains no ')' *)
Definition cpx (s' s : bytes) : Prop := exists pre, s = pre ++ s' /\ Forall (fun b => b <> 41) pre.
Lemma cpx_refl s : cpx s s. Proof. exists []. split; [reflexivity | constructor]. Qed.
Lemma cpx_trans a b c : cpx a b -> cpx b c -> cpx a c.
Proof. intros (p & -> & Hp) (q & -> & Hq). exists (q ++ p). split; [rewrite app_assoc; reflexivity | apply Forall_app; split; assumption]. Qed.
Lemma cpx_tl s : hd0 s <> 41 -> cpx (tl s) s.
Proof. destruct s as [|c t]; cbn [hd0 tl]; intro H; [apply cpx_refl|]. exists [c]. split; [reflexivity | constructor; [exact H | constructor]]. Qed.
Lemma cpx_digits t : forall c0, cpx (snd (digits t c0)) t.
Proof.
  induction t as [|b r IH]; intro c0; cbn [digits]; [apply cpx_refl|].
  destruct (isdigit b) eqn:D; [|apply cpx_refl].
  eapply cpx_trans; [apply IH|]. apply (cpx_tl (b :: r)). cbn [hd0]. unfold isdigit in D. lia.
Qed.
Lemma cpx_sfx a b : cpx a b -> sfx a b. Proof. intros (p & E & _). exists p. exact E. Qed.
(* after '{' (and whatever digits and comma follow) a good string cannot be at its end *)
Lemma cpx_brace s s' : good s -> hd0 s = 123 -> cpx s' (tl s) -> s' <> [].
Proof.
  intros Hg Hh (p & E & Hp). destruct s as [|c t]; [cbn in Hh; lia|]. cbn [hd0 tl] in *. subst c.
  apply (good_rest (123 :: p) s'); [cbn [app]; rewrite <- E; exact Hg | discriminate | constructor; [lia | exact Hp]].
Qed.
Lemma adv1 s : s <> [] -> adv SBrace s 1 = Ok (tl s).
Proof. destruct s; [contradiction|]. intros _. reflexivity. Qed.

Lemma brace_ok s mn0 mx0 : good s ->
  exists r s', (if hd0 s =? 123 then
       let s := tl s in
       let '(mn, s) := digits s 0%Z in
       let '(mx, s) := if hd0 s =? 44 then let s := tl s in digits s (if hd0 s =? 125 then (-1)%Z else 0%Z) else (mn, s) in
       if negb (hd0 s =? 125) || (NREPS <? mn)%Z || (NREPS <? mx)%Z || ((0 <=? mx)%Z && (mx <? mn)%Z) then Ok (None, s) else Ok (Some (mn, mx), tl s)
     else Ok (Some (mn0, mx0), s)) = Ok (r, s') /\ sfx s' s.
Proof.
  intros _. destruct (hd0 s =? 123) eqn:E; [|eexists _, _; split; [reflexivity | apply sfx_refl]].
  cbv zeta.
  pose proof (cpx_digits (tl s) 0%Z) as C1. destruct (digits (tl s) 0) as [mn1 s1]. cbn [snd] in C1.
  destruct (hd0 s1 =? 44) eqn:E44.
  - pose proof (cpx_digits (tl s1) (if hd0 (tl s1) =? 125 then (-1)%Z else 0%Z)) as C2.
    destruct (digits (tl s1) (if hd0 (tl s1) =? 125 then (-1)%Z else 0%Z)) as [mx1 s2]. cbn [snd] in C2.
    assert (S2 : sfx s2 s). { eapply sfx_trans; [apply cpx_sfx; exact C2|]. eapply sfx_trans; [apply sfx_tl|]. eapply sfx_trans; [apply cpx_sfx; exact C1 | apply sfx_tl]. }
    assert (S3 : sfx (tl s2) s) by (eapply sfx_trans; [apply sfx_tl | exact S2]).
    match goal with |- context [if ?c then _ else _] => destruct c end; eexists _, _; split; try reflexivity; assumption.
  - assert (S2 : sfx s1 s). { eapply sfx_trans; [apply cpx_sfx; exact C1 | apply sfx_tl]. }
    assert (S3 : sfx (tl s1) s) by (eapply sfx_trans; [apply sfx_tl | exact S2]).
    match goal with |- context [if ?c then _ else _] => destruct c end; eexists _, _; split; try reflexivity; assumption.
Qed.

Lemma rep_suffix_ok s : good s -> exists r s', rep_suffix s = Ok (r, s') /\ sfx s' s.
Proof.
  intro Hg. unfold rep_suffix.
  destruct ((hd0 s =? 42) || (hd0 s =? 63)) eqn:E1.
  - destruct (hd0 (tl s) =? 43) eqn:E2.
    + destruct (brace_ok (tl (tl s)) 1%Z (-1)%Z) as (r & s' & E & S1); [eapply sfx_good; [|exact Hg]; eapply sfx_trans; apply sfx_tl|].
      exists r, s'. split; [exact E|]. eapply sfx_trans; [exact S1|]. eapply sfx_trans; apply sfx_tl.
    + destruct (brace_ok (tl s) 0%Z (if hd0 s =? 42 then (-1)%Z else 1%Z)) as (r & s' & E & S1); [eapply sfx_good; [apply sfx_tl | exact Hg]|].
      exists r, s'. split; [exact E|]. eapply sfx_trans; [exact S1 | apply sfx_tl].
  - destruct (hd0 s =? 43) eqn:E2.
    + destruct (brace_ok (tl s) 1%Z (-1)%Z) as (r & s' & E & S1); [eapply sfx_good; [apply sfx_tl | exact Hg]|].
      exists r, s'. split; [exact E|]. eapply sfx_trans; [exact S1 | apply sfx_tl].
    + destruct (brace_ok s 1%Z 1%Z Hg) as (r & s' & E & S1). exists r, s'. split; [exact E | exact S1].
Qed.

(* ---- groups, atoms, sequences, alternatives ------------------------------------------------------ *)
Definition pok (parse : bytes -> res (option node * bytes)) (n : nat) : Prop :=
  forall s, nz s -> good s -> (length s <= n)%nat -> exists x s', parse s = Ok (x, s') /\ sfx s' s.

Section P.
  Variable parse : bytes -> res (option node * bytes).
  Variable n : nat.
  Hypothesis Hp : pok parse n.

  Lemma rnode_grp_ok s : nz s -> good s -> (length s <= S n)%nat -> hd0 s = 40 ->
    exists x s', rnode_grp parse s = Ok (x, s') /\ sfx s' s /\ (length s' < length s)%nat.
  Proof.
    intros Hz Hg Hl Hh. unfold rnode_grp. rewrite Hh. cbn [N.eqb Pos.eqb negb].
    destruct s as [|c t]; [cbn in Hh; lia|]. cbn [tl length] in *.
    assert (Ht : sfx t (c :: t)) by (exists [c]; reflexivity).
    destruct (negb (hd0 t =? 41)) eqn:E.
    - destruct (Hp t (sfx_nz _ _ Ht Hz) (sfx_good _ _ Ht Hg) ltac:(lia)) as (x & s2 & E2 & S2). rewrite E2. cbn [bind].
      pose proof (sfx_len _ _ S2) as L2.
      destruct x as [x|]; cbn [bind].
      + destruct (negb (hd0 s2 =? 41)).
        * eexists _, _. split; [reflexivity|]. split; [eapply sfx_trans; eauto | cbn [length]; lia].
        * eexists _, _. split; [reflexivity|]. split; [eapply sfx_trans; [apply sfx_tl | eapply sfx_trans; eauto] |].
          pose proof (sfx_len _ _ (sfx_tl s2)). cbn [length]. lia.
      + eexists _, _. split; [reflexivity|]. split; [eapply sfx_trans; eauto | cbn [length]; lia].
    - cbn [bind]. rewrite E. eexists _, _. split; [reflexivity|]. split; [eapply sfx_trans; [apply sfx_tl | exact Ht] |].
      pose proof (sfx_len _ _ (sfx_tl t)). cbn [length]. lia.
  Qed.

  Lemma rnode_atom_ok s : nz s -> good s -> (length s <= S n)%nat ->
    exists x s', rnode_atom parse s = Ok (x, s') /\ sfx s' s /\ (x <> None -> (length s' < length s)%nat).
  Proof.
    intros Hz Hg Hl. unfold rnode_atom.
    destruct ((hd0 s =? 0) || (hd0 s =? 124) || (hd0 s =? 41)) eqn:E0.
    { eexists _, _. split; [reflexivity|]. split; [apply sfx_refl | congruence]. }
    assert (Hs : s <> []) by (intro; subst; cbn in E0; discriminate).
    assert (STEP : exists x s1, (if hd0 s =? 40 then rnode_grp parse s else do a <- ratom_read s; Ok (Some (NAtom (fst a) 1 1), snd a)) = Ok (x, s1)
                   /\ sfx s1 s /\ (length s1 < length s)%nat).
    { destruct (hd0 s =? 40) eqn:E40.
      - apply rnode_grp_ok; auto. lia.
      - destruct (ratom_read_ok s Hz Hg Hs) as (a & s1 & E & S1 & L1). rewrite E. cbn [bind fst snd]. eexists _, _. split; [reflexivity|]. split; assumption. }
    destruct STEP as (x & s1 & E & S1 & L1). rewrite E. cbn [bind].
    destruct x as [x|].
    - destruct (rep_suffix_ok s1 (sfx_good _ _ S1 Hg)) as (r & s2 & E2 & S2). rewrite E2. cbn [bind].
      pose proof (sfx_len _ _ S2).
      destruct r as [[mn mx]|]; eexists _, _; (split; [reflexivity|]); (split; [eapply sfx_trans; eauto|]); intros; lia.
    - eexists _, _. split; [reflexivity|]. split; [exact S1 | congruence].
  Qed.

  Lemma rnode_seq_ok : forall f s, nz s -> good s -> (length s <= S n)%nat -> (length s < f)%nat ->
    exists x s', rnode_seq parse f s = Ok (x, s') /\ sfx s' s.
  Proof.
    induction f as [|f IH]; intros s Hz Hg Hl Hf; [lia|]. cbn [rnode_seq].
    destruct (rnode_atom_ok s Hz Hg Hl) as (x & s1 & E & S1 & L1). rewrite E. cbn [bind].
    destruct x as [x|].
    - specialize (L1 ltac:(discriminate)).
      destruct (IH s1 (sfx_nz _ _ S1 Hz) (sfx_good _ _ S1 Hg) ltac:(lia) ltac:(lia)) as (y & s2 & E2 & S2). rewrite E2. cbn [bind].
      destruct y; eexists _, _; (split; [reflexivity|]); eapply sfx_trans; eauto.
    - eexists _, _. split; [reflexivity | exact S1].
  Qed.
End P.

Lemma rnode_parse_ok : forall f, pok (rnode_parse (S (S f))) f.
Proof.
  induction f as [f IH] using lt_wf_ind. intros s Hz Hg Hl.
  destruct f as [|f].
  { assert (s = []) by (destruct s; [reflexivity | cbn in Hl; lia]). subst s.
    eexists _, _. split; [vm_compute; reflexivity | apply sfx_refl]. }
  change (rnode_parse (S (S (S f))) s) with
    (do c1 <- rnode_seq (rnode_parse (S (S f))) (S (S f)) s;
     let '(x, s1) := c1 in
     if negb (hd0 s1 =? 124) then Ok (x, s1)
     else do c2 <- rnode_parse (S (S f)) (tl s1);
          match c2 with (Some y, s2) => Ok (Some (NAlt (of_opt x) y), s2) | (None, s2) => Ok (x, s2) end).
  assert (Hsub : pok (rnode_parse (S (S f))) f) by (apply IH; lia).
  destruct (rnode_seq_ok (rnode_parse (S (S f))) f Hsub (S (S f)) s Hz Hg ltac:(lia) ltac:(lia)) as (x & s1 & E & S1). rewrite E. cbn [bind].
  destruct (negb (hd0 s1 =? 124)) eqn:E124.
  - eexists _, _. split; [reflexivity | exact S1].
  - assert (Hs1 : s1 <> []) by (intro; subst; cbn in E124; discriminate).
    pose proof (sfx_len _ _ S1). assert (length (tl s1) < length s1)%nat by (destruct s1; [contradiction | cbn; lia]).
    assert (St : sfx (tl s1) s) by (eapply sfx_trans; [apply sfx_tl | exact S1]).
    destruct (Hsub (tl s1) (sfx_nz _ _ St Hz) (sfx_good _ _ St Hg) ltac:(lia)) as (y & s2 & E2 & S2). rewrite E2. cbn [bind].
    destruct y; eexists _, _; (split; [reflexivity|]); eapply sfx_trans; eauto.
Qed.

(* for every pattern string without NUL that ends in ')': the parser returns (a tree or a rejection
   and the rest of the string), it never reads past the terminator and never runs out of fuel *)
Theorem parse_in_bounds p : nz p -> good p -> exists x s', parse_pat p = Ok (x, s') /\ sfx s' p.
Proof.
  intros Hz Hg. unfold parse_pat, parse_fuel.
  replace (2 * length p + 2)%nat with (S (S (2 * length p))) by lia.
  apply rnode_parse_ok; auto. lia.
Qed.

(* what rset_make hands to regcomp always ends in ')' *)
Lemma rset_pattern_good ps : good (rset_pattern ps).
Proof. unfold rset_pattern. destruct (rset_build ps [40] 2) as [[[sb g] sg] gc]. right. rewrite last_last. reflexivity. Qed.

(* without the wrapper the statement is false *)
(* "a{" no longer steps past the terminator (strict repetition suffix): the atom is refused, the flag is set *)
Lemma bare_brace_rejected : parse_pat [97; 123] = Ok (None, []) /\ parse_bad [97; 123] = true.
Proof. vm_compute. split; reflexivity. Qed.
Lemma bare_backslash_spins : parse_pat [92] = NoFuel.
Proof. vm_compute. reflexivity. Qed.
