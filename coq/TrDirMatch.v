(* TrDirMatch.v -- dir_match of /repo/dir.c against DirDefs.v, relative to a matcher oracle (see TrDirBase.v for
   the setting, the oracle hypothesis oracle_ok / raw_ok, dir_context and the first phases of dir_match). *)
From Coq Require Import List ZArith NArith Bool Lia.
From NV Require Import Bytes UcDefs GenConf GenConsts DirDefs DirProps IoDefs IoProps CLite CLiteProps GenCFuncs CLiteTac CLiteExt TrUc TrRen TrSbuf TrDirBase.
Import ListNotations.
Local Open Scope Z_scope.

(* the result of dir_match in the six result cells *)
Definition res_cells (mc : mem) (prec prb pre pcb pce pdir : nat) (r : mres) : Prop :=
  nth_error mc prb = Some [VInt (Z.of_nat (r_beg r))] /\ nth_error mc pre = Some [VInt (Z.of_nat (r_end r))] /\
  nth_error mc pcb = Some [VInt (Z.of_nat (c_beg r))] /\ nth_error mc pce = Some [VInt (Z.of_nat (c_end r))] /\
  nth_error mc pdir = Some [VInt (c_dir r)] /\ nth_error mc prec = Some [VInt (b2z (c_rec r))].

(* the fifteen disequalities of six distinct result cells, kept out of lia's sight (it would split on each of them) *)
Inductive hide (P : Prop) : Prop := Hide : P -> hide P.
Lemma nodup6h (a b c d e f : nat) : NoDup [a; b; c; d; e; f] ->
  hide (a <> b /\ a <> c /\ a <> d /\ a <> e /\ a <> f /\ b <> c /\ b <> d /\ b <> e /\ b <> f /\ c <> d /\ c <> e /\ c <> f /\
        d <> e /\ d <> f /\ e <> f).
Proof. intro H. constructor. exact (nodup6 a b c d e f H). Qed.
Ltac oside HN := first [ lia | solve [let H := fresh in destruct HN as [H]; decompose [and] H; auto] ].

Lemma dm_conv_ok ext fuel d (m mc : mem) sb s cb chrs rslr rsrl raw b e ctx prec prb pre pcb pce pdir sz bd found subs :
  dir_world m sb s cb chrs rslr rsrl -> (b <= e < length chrs)%nat ->
  outs_ok m sb cb (dm_outs prec prb pre pcb pce pdir) ->
  raw b e ctx (dm_flags s chrs b e) = Some (found, subs) ->
  (found < length dirmarks)%nat -> Forall int_ok (subs_cells subs) -> 0 <= nth 0 subs (-1)%Z -> 0 <= nth 1 subs (-1)%Z ->
  (length s < fuel)%nat ->
  let L := length m in
  let call := callx ext cprog fuel (S (S (S d))) in
  let outs := dm_outs prec prb pre pcb pce pdir in
  let str := substr s chrs b e in
  let flg := dm_flags s chrs b e in
  let rs := rs_of rslr rsrl ctx in
  mstate m mc outs [] (map VInt (subs_cells subs)) VUndef (zb str) sz bd ->
  exists mc' sz' bd' sv gv chg res,
    exec call fuel (seq_drop 8 dm_body) (mkst (dm_args cb b e ctx prec prb pre pcb pce pdir ++ dm_locals L rs flg (Z.of_nat found) VUndef) mc)
    = exec call fuel (seq_drop 9 dm_body) (mkst (dm_args cb b e ctx prec prb pre pcb pce pdir ++ dm_locals L rs flg (Z.of_nat found) sv) mc') /\
    mstate m mc' outs chg (map VInt (subs_cells subs)) gv (zb str) sz' bd' /\
    (forall q, In q chg -> In q outs \/ q = S (S L)) /\
    dir_match s chrs raw b e ctx = Some res /\ res_cells mc' prec prb pre pcb pce pdir res.
Proof.
  intros W Hbe [Hnd Ho] Hr Hfound Hint H0 H1 Hf L call outs str flg rs MS. subst call.
  pose proof W as [Hs Hnn Hc Hcok Hlr Plr Hrl Prl Htab Hsize].
  pose proof (nodup6h _ _ _ _ _ _ Hnd) as HN.
  destruct (substr_length s chrs b e Hcok Hbe) as [Hsl [Hcb Hce]]. fold str in Hsl.
  pose proof (substr_nonul s chrs b e Hnn) as Hsn. fold str in Hsn.
  destruct (gb_dirmarks_rows found Hfound) as (_ & _ & _ & _ & Idir & Igrp & Hgr).
  set (grp := dm_grp found) in *. set (dir := dm_dir found) in *.
  assert (Is0 : int_ok (nth 0 subs (-1)%Z)) by (apply subs_cells_int; [exact Hint|lia]).
  assert (Is1 : int_ok (nth 1 subs (-1)%Z)) by (apply subs_cells_int; [exact Hint|lia]).
  assert (In_rec : In prec outs) by (left; reflexivity).
  assert (In_rb : In prb outs) by (right; left; reflexivity).
  assert (In_re : In pre outs) by (right; right; left; reflexivity).
  assert (In_cb : In pcb outs) by (right; right; right; left; reflexivity).
  assert (In_ce : In pce outs) by (right; right; right; right; left; reflexivity).
  assert (In_dir : In pdir outs) by (right; right; right; right; right; left; reflexivity).
  pose proof (dir_match_some s chrs raw b e ctx found subs Hr Hfound) as DM. cbv beta zeta in DM. fold str grp dir in DM.
  unfold dm_args, dm_locals. cbn [seq_drop dm_body fn_body cf_dir_match app].
  change (SSeq (SExpr (ECall F_sbuf_free _)) _) with (seq_drop 9 dm_body).
  change (ECond (EBin OGe I32 (ELoad (Some I32) (EPtrAdd 1 (ELocal 10) (EBin OAdd I32 _ (EConst 0)))) _) _ _) with dm_cbeg_expr.
  change (ECond (EBin OGe I32 (ELoad (Some I32) (EPtrAdd 1 (ELocal 10) (EBin OAdd I32 _ (EConst 1)))) _) _ _) with dm_cend_expr.
  xs. destruct (Z.leb_spec 0 (Z.of_nat found)); [|lia]. xs.
  (* s = sbuf_buf(str) *)
  destruct (tr_sbuf_buf mc (S L) (zb str) sz (S d) fuel (ms_rep _ _ _ _ _ _ _ _ _ MS)) as [b7 [m7 [rest [E7 [R7 [D7 [Hd7 [_ [_ [S7 _]]]]]]]]]].
  rewrite (callx_mono ext _ _ _ _ _ _ _ E7). xs.
  pose proof (ms_step _ _ _ _ _ _ _ _ _ _ _ _ _ MS S7 R7 D7) as MS7.
  pose proof (pstr_of_buf m7 b7 str rest Hd7) as P7.
  pose proof (ms_bd _ _ _ _ _ _ _ _ _ MS7) as Hb7. fold L in Hb7.
  pose proof (ms_len _ _ _ _ _ _ _ _ _ MS7) as Hlen7. fold L in Hlen7.
  assert (HoL : forall p, In p outs -> (p < L)%nat) by (intros p Hp; apply (ms_outs _ _ _ _ _ _ _ _ _ MS7 p Hp)).
  pose proof (HoL _ In_rec) as Lrec. pose proof (HoL _ In_rb) as Lrb. pose proof (HoL _ In_re) as Lre.
  pose proof (HoL _ In_cb) as Lcb. pose proof (HoL _ In_ce) as Lce. pose proof (HoL _ In_dir) as Ldir.
  (* conf_dirmark(found, NULL, NULL, dir, &grp) *)
  assert (W7 : dir_world m7 sb s cb chrs rslr rsrl) by (apply (world_ext m m7 [] _ _ _ _ _ _ W (ms_ext _ _ _ _ _ _ _ _ _ MS7)); intros ? []).
  destruct (ms_outs _ _ _ _ _ _ _ _ _ MS7 pdir In_dir) as [_ [xd Hxd]].
  assert (Hne8 : pdir <> S (S L)) by lia.
  pose proof (tr_conf_dirmark m7 found pdir (S (S L)) xd VUndef (S (S d)) fuel (dw_tab _ _ _ _ _ _ _ W7) Hxd (ms_grp _ _ _ _ _ _ _ _ _ MS7) Hne8 Hfound) as E8.
  rewrite (callx_mono ext _ _ _ _ _ _ _ E8). xs. fold grp dir.
  pose proof (ms_upd_grp _ _ _ _ _ _ _ _ _ (VInt grp) (ms_upd_out _ _ _ _ _ _ _ _ _ pdir (VInt dir) MS7 In_dir)) as MS8. fold L in MS8.
  set (m8 := upd (upd m7 pdir [VInt dir]) (S (S L)) [VInt grp]) in *.
  assert (P8 : pstr_at m8 b7 str).
  { unfold m8. apply pstr_upd_other; [apply pstr_upd_other; [exact P7|lia|lia]|lia|rewrite upd_length by lia; lia]. }
  assert (Hl8 : length m8 = length m7) by (unfold m8; rewrite !upd_length; rewrite ?upd_length; lia).
  (* *r_beg = beg + uc_off(s, subs[0]) *)
  pose proof (uc_off_le str (Z.to_nat (nth 0 subs (-1)%Z))) as Ule0. pose proof (uc_off_le str (Z.to_nat (nth 1 subs (-1)%Z))) as Ule1.
  assert (LdS : forall (mm : mem) k z, nth_error mm L = Some (map VInt (subs_cells subs)) -> z = Z.of_nat k -> (k < 32)%nat ->
            load mm L (0 + 1 * z) = Ok (VInt (nth k subs (-1)%Z))).
  { intros mm k z HL -> Hk. apply (ld_glob mm L _ _ _ HL); [apply Z.ltb_ge; lia|].
    replace (Z.to_nat (0 + 1 * Z.of_nat k)) with k by lia. apply subs_cells_nth. exact Hk. }
  rewrite (LdS m8 0%nat 0 (ms_subs _ _ _ _ _ _ _ _ _ MS8)) by (try reflexivity; lia). xs. rewrite (wrap_int_ok _ Is0).
  rewrite (dm_off_call ext fuel d m8 b7 str _ P8 Hsn) by (unfold int_ok in *; lia). xs.
  rewrite chk_I32 by lia. xs. rewrite wrap_I32_id by lia.
  destruct (ms_outs _ _ _ _ _ _ _ _ _ MS8 prb In_rb) as [_ [xrb Hxrb]].
  rewrite (st_cell m8 prb xrb _ Hxrb). xs.
  set (rb := (b + uc_off str (Z.to_nat (nth 0 subs (-1)%Z)))%nat) in *. rewrite <- Nat2Z.inj_add. fold rb.
  pose proof (ms_upd_out _ _ _ _ _ _ _ _ _ prb (VInt (Z.of_nat rb)) MS8 In_rb) as MS9.
  set (m9 := upd m8 prb [VInt (Z.of_nat rb)]) in *.
  assert (P9 : pstr_at m9 b7 str) by (unfold m9; apply pstr_upd_other; [exact P8|lia|lia]).
  assert (Hl9 : length m9 = length m7) by (unfold m9; rewrite upd_length by lia; exact Hl8).
  (* *r_end = beg + uc_off(s, subs[1]) *)
  rewrite (LdS m9 1%nat 1 (ms_subs _ _ _ _ _ _ _ _ _ MS9)) by (try reflexivity; lia). xs. rewrite (wrap_int_ok _ Is1).
  rewrite (dm_off_call ext fuel d m9 b7 str _ P9 Hsn) by (unfold int_ok in *; lia). xs.
  rewrite chk_I32 by lia. xs. rewrite wrap_I32_id by lia.
  destruct (ms_outs _ _ _ _ _ _ _ _ _ MS9 pre In_re) as [_ [xre Hxre]].
  rewrite (st_cell m9 pre xre _ Hxre). xs.
  set (re := (b + uc_off str (Z.to_nat (nth 1 subs (-1)%Z)))%nat) in *. rewrite <- Nat2Z.inj_add. fold re.
  pose proof (ms_upd_out _ _ _ _ _ _ _ _ _ pre (VInt (Z.of_nat re)) MS9 In_re) as MS10.
  set (m10 := upd m9 pre [VInt (Z.of_nat re)]) in *.
  assert (P10 : pstr_at m10 b7 str) by (unfold m10; apply pstr_upd_other; [exact P9|lia|lia]).
  assert (Hl10 : length m10 = length m7) by (unfold m10; rewrite upd_length by lia; exact Hl9).
  assert (Hrb10 : nth_error m10 prb = Some [VInt (Z.of_nat rb)]).
  { unfold m10. rewrite mem_upd_other by oside HN. unfold m9. apply mem_upd_same. lia. }
  assert (Hre10 : nth_error m10 pre = Some [VInt (Z.of_nat re)]) by (unfold m10; apply mem_upd_same; lia).
  (* *c_beg *)
  assert (Irb : int_ok (Z.of_nat rb)) by (unfold int_ok, rb; lia).
  assert (Ire : int_ok (Z.of_nat re)) by (unfold int_ok, re; lia).
  pose proof (dm_cbeg_eval ext fuel d m10 cb b e ctx prec prb pre pcb pce pdir L rs flg (Z.of_nat found) b7 subs grp str (Z.of_nat rb)
                (ms_subs _ _ _ _ _ _ _ _ _ MS10) (ms_grp _ _ _ _ _ _ _ _ _ MS10) Hgr Hint P10 Hsn ltac:(lia) ltac:(lia) Hrb10 Irb) as Ecb.
  unfold dm_args, dm_locals in Ecb. cbn [app] in Ecb. rewrite Ecb. xs. clear Ecb.
  set (g := Z.to_nat grp) in *. 
  set (vcb := if 0 <=? nth (2 * g) subs (-1)%Z then (b + uc_off str (Z.to_nat (nth (2 * g) subs (-1)%Z)))%nat else rb) in *.
  replace (if 0 <=? nth (2 * g) subs (-1)%Z then Z.of_nat (b + uc_off str (Z.to_nat (nth (2 * g) subs (-1)%Z))) else Z.of_nat rb) with (Z.of_nat vcb)
    by (unfold vcb; destruct (0 <=? nth (2 * g) subs (-1)%Z); reflexivity).
  assert (Bcb : (vcb <= b + length str)%nat).
  { unfold vcb. pose proof (uc_off_le str (Z.to_nat (nth (2 * g) subs (-1)%Z))). destruct (0 <=? nth (2 * g) subs (-1)%Z); unfold rb; lia. }
  rewrite wrap_I32_id by lia.
  destruct (ms_outs _ _ _ _ _ _ _ _ _ MS10 pcb In_cb) as [_ [xcb Hxcb]].
  rewrite (st_cell m10 pcb xcb _ Hxcb). xs.
  pose proof (ms_upd_out _ _ _ _ _ _ _ _ _ pcb (VInt (Z.of_nat vcb)) MS10 In_cb) as MS11.
  set (m11 := upd m10 pcb [VInt (Z.of_nat vcb)]) in *.
  assert (P11 : pstr_at m11 b7 str) by (unfold m11; apply pstr_upd_other; [exact P10|lia|lia]).
  assert (Hl11 : length m11 = length m7) by (unfold m11; rewrite upd_length by lia; exact Hl10).
  assert (Hrb11 : nth_error m11 prb = Some [VInt (Z.of_nat rb)]) by (unfold m11; rewrite mem_upd_other by oside HN; exact Hrb10).
  assert (Hre11 : nth_error m11 pre = Some [VInt (Z.of_nat re)]) by (unfold m11; rewrite mem_upd_other by oside HN; exact Hre10).
  (* *c_end *)
  pose proof (dm_cend_eval ext fuel d m11 cb b e ctx prec prb pre pcb pce pdir L rs flg (Z.of_nat found) b7 subs grp str (Z.of_nat re)
                (ms_subs _ _ _ _ _ _ _ _ _ MS11) (ms_grp _ _ _ _ _ _ _ _ _ MS11) Hgr Hint P11 Hsn ltac:(lia) ltac:(lia) Hre11 Ire) as Ece.
  unfold dm_args, dm_locals in Ece. cbn [app] in Ece. rewrite Ece. xs. clear Ece. fold g.
  set (vce := if 0 <=? nth (2 * g + 1) subs (-1)%Z then (b + uc_off str (Z.to_nat (nth (2 * g + 1) subs (-1)%Z)))%nat else re) in *.
  replace (if 0 <=? nth (2 * g + 1) subs (-1)%Z then Z.of_nat (b + uc_off str (Z.to_nat (nth (2 * g + 1) subs (-1)%Z))) else Z.of_nat re) with (Z.of_nat vce)
    by (unfold vce; destruct (0 <=? nth (2 * g + 1) subs (-1)%Z); reflexivity).
  assert (Bce : (vce <= b + length str)%nat).
  { unfold vce. pose proof (uc_off_le str (Z.to_nat (nth (2 * g + 1) subs (-1)%Z))). destruct (0 <=? nth (2 * g + 1) subs (-1)%Z); unfold re; lia. }
  rewrite wrap_I32_id by lia.
  destruct (ms_outs _ _ _ _ _ _ _ _ _ MS11 pce In_ce) as [_ [xce Hxce]].
  rewrite (st_cell m11 pce xce _ Hxce). xs.
  pose proof (ms_upd_out _ _ _ _ _ _ _ _ _ pce (VInt (Z.of_nat vce)) MS11 In_ce) as MS12.
  set (m12 := upd m11 pce [VInt (Z.of_nat vce)]) in *.
  assert (Hl12 : length m12 = length m7) by (unfold m12; rewrite upd_length by lia; exact Hl11).
  (* *rec = grp > 0 *)
  pose proof (ms_grp _ _ _ _ _ _ _ _ _ MS12) as Hg12. fold L in Hg12.
  rewrite (ld_cell _ _ _ Hg12). xs. rewrite (wrap_int_ok _ Igrp).
  destruct (ms_outs _ _ _ _ _ _ _ _ _ MS12 prec In_rec) as [_ [xrec Hxrec]].
  rewrite (st_cell m12 prec xrec _ Hxrec). xs.
  replace (wrap I32 (b2z (0 <? grp))) with (b2z (0 <? grp)) by (destruct (0 <? grp); reflexivity).
  pose proof (ms_upd_out _ _ _ _ _ _ _ _ _ prec (VInt (b2z (0 <? grp))) MS12 In_rec) as MS13.
  set (m13 := upd m12 prec [VInt (b2z (0 <? grp))]) in *.
  eexists m13, _, _, _, _, _, _. split; [reflexivity|]. split; [exact MS13|]. split.
  { intros q Hq. cbn [In] in Hq. fold L. intuition (subst; auto). }
  split; [exact DM|]. unfold res_cells. cbn [r_beg r_end c_beg c_end c_dir c_rec]. fold vcb vce.
  assert (Hdir8 : nth_error m8 pdir = Some [VInt dir]).
  { unfold m8. rewrite mem_upd_other by (rewrite ?upd_length by lia; lia). apply mem_upd_same. lia. }
  unfold m13, m12, m11.
  repeat split.
  - rewrite !mem_upd_other by (rewrite ?upd_length; rewrite ?upd_length; rewrite ?upd_length; oside HN). exact Hrb10.
  - rewrite !mem_upd_other by (rewrite ?upd_length; rewrite ?upd_length; rewrite ?upd_length; oside HN). exact Hre10.
  - rewrite !mem_upd_other by (rewrite ?upd_length; rewrite ?upd_length; rewrite ?upd_length; oside HN). apply mem_upd_same. lia.
  - rewrite mem_upd_other by (rewrite ?upd_length; rewrite ?upd_length; rewrite ?upd_length; oside HN). apply mem_upd_same. rewrite upd_length by lia. lia.
  - rewrite !mem_upd_other by (rewrite ?upd_length; rewrite ?upd_length; rewrite ?upd_length; oside HN).
    unfold m10, m9. rewrite !mem_upd_other by (rewrite ?upd_length; rewrite ?upd_length; oside HN). exact Hdir8.
  - apply mem_upd_same. rewrite !upd_length; rewrite ?upd_length; lia.
Qed.

(* phase 4: sbuf_free(str); return found < 0 *)
Lemma dm_tail_ok ext fuel d (m mc : mem) outs chg sblk gv cs sz bd args L' rs flg found sv :
  mstate m mc outs chg sblk gv cs sz bd -> L' = length m -> length args = 10%nat ->
  exists mc',
    exec (callx ext cprog fuel (S (S (S d)))) fuel (seq_drop 9 dm_body) (mkst (args ++ dm_locals L' rs flg found sv) mc)
    = OReturn (VInt (b2z (found <? 0))) (mkst (args ++ dm_locals L' rs flg found sv) mc') /\
    mem_ext m mc' chg /\ (forall p, In p outs -> nth_error mc' p = nth_error mc p).
Proof.
  intros MS -> Ha. pose proof (ms_len _ _ _ _ _ _ _ _ _ MS) as Hlen.
  destruct args as [|a0 [|a1 [|a2 [|a3 [|a4 [|a5 [|a6 [|a7 [|a8 [|a9 [|]]]]]]]]]]]; try discriminate Ha.
  destruct (tr_sbuf_free mc (S (length m)) cs sz (S (S d)) fuel (ms_rep _ _ _ _ _ _ _ _ _ MS)) as [mc' [E [_ [_ [Hl F]]]]].
  unfold dm_locals. cbn [seq_drop dm_body fn_body cf_dir_match app]. xs.
  rewrite (callx_mono ext _ _ _ _ _ _ _ E). xs.
  exists mc'. split; [reflexivity|].
  pose proof (ms_datab _ _ _ _ _ _ _ _ _ MS) as D. pose proof (ms_bd _ _ _ _ _ _ _ _ _ MS) as Hbd.
  assert (G : forall x, (x < length m)%nat -> nth_error mc' x = nth_error mc x).
  { intros x Hx. apply F; [lia|]. rewrite D. intro X. injection X as X. lia. }
  split.
  - destruct (ms_ext _ _ _ _ _ _ _ _ _ MS) as [Le Fe]. split; [lia|]. intros x Hx Hn. rewrite G by exact Hx. apply Fe; assumption.
  - intros p Hp. apply G. apply (ms_outs _ _ _ _ _ _ _ _ _ MS p Hp).
Qed.

(* dir_match(chrs, beg, end, ctx, &rec, &r_beg, &r_end, &c_beg, &c_end, &dir), for EVERY oracle that answers as `raw` says:
   the return value is 0 exactly when the model's dir_match finds a mark, the six result cells then hold the model's spans (the
   byte offsets of rset_find converted to character indices with uc_off on the copied text), direction and nesting flag; when no
   mark matches no block of the memory at the call is changed.  Every load and store was inside a live block (among them: the 32
   cells of subs[], subs[grp * 2 + 1] with grp from the table, the copy of chrs[end] - chrs[beg] bytes, the terminator the
   sbuf writes behind them). *)
Theorem tr_dir_match ext fuel d (m : mem) sb s cb chrs rslr rsrl raw b e ctx prec prb pre pcb pce pdir :
  dir_world m sb s cb chrs rslr rsrl -> (b <= e < length chrs)%nat ->
  outs_ok m sb cb (dm_outs prec prb pre pcb pce pdir) ->
  oracle_ok ext s chrs rslr rsrl raw -> raw_ok rslr rsrl raw -> (length s < fuel)%nat ->
  exists m',
    callx ext cprog fuel (S (S (S (S d)))) F_dir_match (dm_args cb b e ctx prec prb pre pcb pce pdir) m
    = Ok (VInt (match dir_match s chrs raw b e ctx with Some _ => 0 | None => 1 end), m') /\
    match dir_match s chrs raw b e ctx with
    | Some res => mem_ext m m' (dm_outs prec prb pre pcb pce pdir) /\ res_cells m' prec prb pre pcb pce pdir res
    | None => mem_ext m m' []
    end.
Proof.
  intros W Hbe Hout Hor Hraw Hf.
  rewrite callx_S. change (nth_error cprog F_dir_match) with (Some cf_dir_match). cbv iota beta.
  change (fn_nparams cf_dir_match) with 10%nat. change (fn_nlocals cf_dir_match) with 17%nat.
  change (fn_body cf_dir_match) with dm_body. unfold dm_args. cbn [length Nat.eqb Nat.sub].
  destruct (dm_setup_ok ext fuel d m sb s cb chrs rslr rsrl b e ctx prec prb pre pcb pce pdir W Hbe Hout) as [m1 [sz1 [bd1 [E1 MS1]]]].
  unfold dm_args in E1. rewrite E1. clear E1.
  destruct (dm_find_ok ext fuel d m m1 sb s cb chrs rslr rsrl raw b e ctx prec prb pre pcb pce pdir sz1 bd1 W Hbe Hor Hraw MS1)
    as [m2 [sz2 [bd2 [E2 MS2]]]].
  unfold dm_args, dm_locals in E2. unfold dm_locals. rewrite E2. clear E2.
  destruct (Hraw b e ctx (dm_flags s chrs b e)) as [_ Hsome].
  destruct (raw b e ctx (dm_flags s chrs b e)) as [[found subs]|] eqn:Hr.
  - destruct (Hsome found subs eq_refl) as (Hfound & Hint & H0 & H1).
    destruct (dm_conv_ok ext fuel d m m2 sb s cb chrs rslr rsrl raw b e ctx prec prb pre pcb pce pdir sz2 bd2 found subs
                W Hbe Hout Hr Hfound Hint H0 H1 Hf MS2) as (m3 & sz3 & bd3 & sv & gv & chg & res & E3 & MS3 & Hchg & DM & RC).
    unfold dm_args, dm_locals in E3. cbn [raw_found]. rewrite E3. clear E3.
    destruct (dm_tail_ok ext fuel d m m3 _ _ _ _ _ _ _ (dm_args cb b e ctx prec prb pre pcb pce pdir) (length m)
                (rs_of rslr rsrl ctx) (dm_flags s chrs b e) (Z.of_nat found) sv MS3 eq_refl eq_refl) as (m4 & E4 & X4 & O4).
    unfold dm_args, dm_locals in E4. rewrite E4. clear E4. cbn [memm].
    exists m4. rewrite DM. split; [destruct (Z.ltb_spec (Z.of_nat found) 0); [lia|reflexivity]|]. split.
    + apply (mem_ext_weaken' _ _ _ _ X4). intros q Hq Hl. destruct (Hchg q Hq) as [X| ->]; [exact X|exfalso; lia].
    + destruct RC as (R1 & R2 & R3 & R4 & R5 & R6). unfold res_cells.
      rewrite !O4 by (unfold dm_outs; cbn [In]; auto 10). auto 10.
  - assert (DM : dir_match s chrs raw b e ctx = None) by (unfold dir_match; rewrite Hr; reflexivity).
    (* found = -1: the conversion is skipped *)
    assert (E3 : forall st, exec (callx ext cprog fuel (S (S (S d)))) fuel (seq_drop 8 dm_body)
                   (mkst (dm_args cb b e ctx prec prb pre pcb pce pdir ++ dm_locals (length m) (rs_of rslr rsrl ctx) (dm_flags s chrs b e) (-1) VUndef) st)
                 = exec (callx ext cprog fuel (S (S (S d)))) fuel (seq_drop 9 dm_body)
                   (mkst (dm_args cb b e ctx prec prb pre pcb pce pdir ++ dm_locals (length m) (rs_of rslr rsrl ctx) (dm_flags s chrs b e) (-1) VUndef) st)).
    { intros st. unfold dm_args, dm_locals. cbn [seq_drop dm_body fn_body cf_dir_match app].
      change (SSeq (SExpr (ECall F_sbuf_free _)) _) with (seq_drop 9 dm_body). xs. reflexivity. }
    cbn [raw_found]. unfold dm_args, dm_locals in E3. rewrite (E3 m2). clear E3.
    destruct (dm_tail_ok ext fuel d m m2 _ _ _ _ _ _ _ (dm_args cb b e ctx prec prb pre pcb pce pdir) (length m)
                (rs_of rslr rsrl ctx) (dm_flags s chrs b e) (-1) VUndef MS2 eq_refl eq_refl) as (m4 & E4 & X4 & O4).
    unfold dm_args, dm_locals in E4. rewrite E4. clear E4. cbn [memm].
    exists m4. rewrite DM. split; [reflexivity|exact X4].
Qed.
