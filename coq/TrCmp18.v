(* TrCmp18.v -- C18, the two halves composed: dir.c on the translated C text (TrDirBase / TrDirMatch / TrDir.v, re-proved in
   TrCmp18Dir.v for an oracle hypothesis restricted to the memories of the run: oracle_on / ctx_oracle_on) with the oracle for
   rset_find INSTANTIATED by the run of the translated rset_find itself (with the translated regexec under it: TrRsetFind.v,
   TrCmp18Rx.v = TrRsetFindRx.v for memories whose scalar global cells need not hold their initializers).

   `ext_is_find ext fuelR e`: ext X_rset_find args m = callf cprog fuelR (S^10 (256 + e)) F_rset_find args m.
   For such an `ext` the oracle hypotheses of dir.c's theorems HOLD (find_oracle_on, find_ctx_oracle_on), with the model's matcher
   instantiated by C10's model: find_raw = RsetDefs.rset_find_d 256 on the set of the context's side over the text between
   chrs[b] and chrs[e], 16 groups; find_ctx = rset_find_d 256 on the context set, 0 groups.

   The memory picture: the three sets (struct rset, grp[], setgrpcnt[], struct regex, the program array, the strings of its atoms:
   TrCmp18Rx.rset_at) lie in the first `hi` blocks of the memory at the call (they were built by dir_init before the line and the
   order array were allocated), the order array g is a later block (hi <= g); every memory of the run agrees with the one at the
   call below hi, so the sets stay where they are (rset_at_ext).
   dir_match hands rset_find the start of the sbuf's buffer, a block LONGER than the string: C10's theorem wants the string to fill
   its block; CLiteSim.callf_sim (a run that returns Ok does not depend on cells appended behind its blocks) carries it over.

   What remains as side conditions of the composed theorems: the sets come from regcomp (so_prov: then the program has the static
   shape, the model never answers OOB / NoFuel on a NUL-free text, the offsets are -1/-1 or 0 <= so <= eo <= |text|), their
   tables are rset_make's (rset_tabs_ok), sizes inside int, fuel; on the model side cm_ok (non-empty matches inside the searched
   range: the hypothesis of C18_terminates).  The depth limit 256 of the engine is NOT a side condition: the model cuts at the
   same depth as the C text (rset_find_d 256; the cut count is the model's second component, whatever it is). *)
From Coq Require Import List ZArith NArith Bool Lia.
From NV Require Import Bytes UcDefs GenConf GenConsts DirDefs DirProps IoDefs IoProps CLite CLiteProps GenCFuncs CLiteTac CLiteExt TrUc TrRen TrSbuf.
From NV Require Import TrDirBase TrDirMatch TrDir TrCmp18Dir CLiteSim.
From NV Require ReSyntax ReParse ReEmit ReVM RsetDefs ReProps5 ReProps6 ReProps8 ReProps12 TrRegexAtom TrRsetFind TrCmp18Brk TrCmp18Rec TrCmp18Rx.
Import ListNotations.
Local Open Scope Z_scope.

Notation rset := RsetDefs.rset.
Notation rs_n := RsetDefs.rs_n.
Notation rs_grp := RsetDefs.rs_grp.
Notation rs_setgrpcnt := RsetDefs.rs_setgrpcnt.
Notation rs_grpcnt := RsetDefs.rs_grpcnt.
Notation rs_prog := RsetDefs.rs_prog.
Notation rs_cflg := RsetDefs.rs_cflg.
Notation ROk := ReSyntax.Ok.

(* ------------------------------------------------------------------ lists *)
Lemma nth_error_firstn_lt {A} (l : list A) : forall n b, (b < n)%nat -> nth_error (firstn n l) b = nth_error l b.
Proof.
  induction l as [|x l IH]; intros n b H; [rewrite firstn_nil; reflexivity|].
  destruct n as [|n]; [lia|]. destruct b as [|b]; [reflexivity|]. cbn [firstn nth_error]. apply IH. lia.
Qed.

(* ------------------------------------------------------------------ a set stays where it is *)
(* M' has every block of M unchanged (and maybe more blocks, changed or new, behind them) *)
Definition agrees (M M' : mem) : Prop := (length M <= length M')%nat /\ forall b, (b < length M)%nat -> nth_error M' b = nth_error M b.

Lemma agrees_get (M M' : mem) b (blk : block) : agrees M M' -> nth_error M b = Some blk -> nth_error M' b = Some blk.
Proof. intros [_ A] H. rewrite A; [exact H|]. apply nth_error_Some. congruence. Qed.

Lemma prog_at_ext (M M' : mem) fuel bre bp P cflg : agrees M M' ->
  TrCmp18Rec.prog_at M (length M) fuel bre bp P cflg -> TrCmp18Rec.prog_at M' (length M') fuel bre bp P cflg.
Proof.
  intros Ag [cells [Hre [Hp Hi]]]. pose proof Ag as [L _].
  exists cells. split; [apply (agrees_get M M' _ _ Ag Hre)|]. split; [apply (agrees_get M M' _ _ Ag Hp)|].
  intros k i Hk. specialize (Hi k i Hk). destruct Hi as [A1 A2]. split; [exact A1|].
  destruct i as [a| | | |]; try exact A2. destruct A2 as [A2 A3]. split; [exact A2|].
  destruct (TrRegexAtom.ra_str a) as [s|]; [|exact I]. destruct A3 as [bs [E1 [E2 [E3 [E4 E5]]]]]. exists bs. split; [exact E1|].
  split; [apply (agrees_get M M' _ _ Ag E2)|]. split; [exact E3|]. split; [|exact E5].
  assert (bs < length M)%nat by (apply nth_error_Some; unfold str_at in E2; congruence). lia.
Qed.

Lemma rset_at_ext (M M' : mem) fuel rb bre bp bg bsg rs rests : agrees M M' ->
  TrCmp18Rx.rset_at M fuel rb bre bp bg bsg rs rests -> TrCmp18Rx.rset_at M' fuel rb bre bp bg bsg rs rests.
Proof.
  intros Ag (H1 & H2 & H3 & H4). unfold TrCmp18Rx.rset_at.
  split; [apply (agrees_get M M' _ _ Ag H1)|]. split; [apply (agrees_get M M' _ _ Ag H2)|].
  split; [apply (agrees_get M M' _ _ Ag H3)|]. apply (prog_at_ext M M' _ _ _ _ _ Ag H4).
Qed.

Lemma globals_ext (M M' : mem) : agrees M M' -> TrCmp18Brk.globals_at M -> TrCmp18Brk.globals_at M'.
Proof.
  intros Ag [L H]. pose proof Ag as [L' _]. split; [lia|]. intros g blk Hin Hc. apply (agrees_get M M' _ _ Ag). apply H; assumption.
Qed.

(* ------------------------------------------------------------------ the model's matcher *)
Definition flat (g : list (Z * Z)) : list Z := flat_map (fun ab => [fst ab; snd ab]) g.
(* rset_find(rs, text between chrs[b] and chrs[e], 16, subs, flg) of the model, as dir_match's `raw` *)
Definition find_raw (lr rl : option rset) (s : bytes) (chrs : list nat) (b e : nat) (ctx flg : Z) : option rawres :=
  match (if ctx <? 0 then rl else lr) with
  | None => None
  | Some rs => match fst (RsetDefs.rset_find_d 256 rs (substr s chrs b e) 16 flg) with
               | ROk (idx, g) => if idx <? 0 then None else Some (Z.to_nat idx, flat g)
               | _ => None
               end
  end.
(* rset_find(dir_rsctx, s, 0, NULL, 0) of the model, as dir_context's `ctxfound` *)
Definition find_ctx (rc : option rset) (s : bytes) : Z :=
  match rc with
  | None => -1
  | Some rs => match fst (RsetDefs.rset_find_d 256 rs s 0 0) with ROk (idx, _) => idx | _ => -1 end
  end.

(* a set of the model in the memory M behind the pointer v (NULL: no set) *)
Definition set_in (M : mem) (fuel : nat) (v : val) (o : option rset) : Prop :=
  match o with
  | None => v = VInt 0
  | Some rs => exists rb bre bp bg bsg rests, v = VPtr rb 0 /\ TrCmp18Rx.rset_at M fuel rb bre bp bg bsg rs rests
  end.
(* what the set itself has to satisfy *)
Record set_ok (fuel : nat) (rs : rset) : Prop := {
  so_prov : exists pat, ReEmit.regcomp pat = ROk (Some (rs_prog rs));
  so_tabs : TrRsetFind.rset_tabs_ok (Z.of_nat (rs_n rs)) (Z.of_nat (rs_grpcnt rs)) (rs_grp rs) (rs_setgrpcnt rs);
  so_cflg : -2147483648 <= rs_cflg rs <= 2147483647;
  so_lor : forall flg, -2147483648 <= Z.lor (rs_cflg rs) (TrRsetFind.eflg_of flg) <= 2147483647;
  so_gc : Z.of_nat (rs_grpcnt rs) <= 1073741823;
  so_plen : Z.of_nat (length (ReEmit.code (rs_prog rs))) < 2147483647;
  so_f1 : (length (ReEmit.code (rs_prog rs)) < fuel)%nat;
  so_f2 : (128 < fuel)%nat;
  so_f3 : (rs_grpcnt rs < fuel)%nat;
  so_f4 : (rs_n rs < fuel)%nat;
  so_f5 : (TrCmp18Brk.cls_fuel <= fuel)%nat }.

Lemma nonul_nz (s : bytes) : nonul s -> ReProps6.nz s.
Proof. intro H. unfold ReProps6.nz. eapply Forall_impl; [|exact H]. intros a [Ha _]. lia. Qed.

(* the model answers (never OOB / NoFuel) on a NUL-free text, for a set whose program regcomp made *)
Lemma find_total fuel rs line n flg : set_ok fuel rs -> nonul line ->
  exists idx g c, RsetDefs.rset_find_d 256 rs line n flg = (ROk (idx, g), c).
Proof.
  intros SO Hnn. destruct (so_prov _ _ SO) as [pat Hp]. rewrite TrRsetFind.rset_find_d_answer.
  destruct (Nat.leb (rs_grpcnt rs) 2); [eexists _, _, _; reflexivity|].
  destruct (ReProps12.regexec_total pat (rs_prog rs) (rs_cflg rs) line (rs_grpcnt rs) (TrRsetFind.eflg_of flg) 256 Hp (nonul_nz _ Hnn)) as [x Hx].
  destruct (ReVM.regexec_d 256 (rs_prog rs) (rs_cflg rs) line (rs_grpcnt rs) (TrRsetFind.eflg_of flg)) as [r c]. cbn [fst] in Hx. subst r.
  cbv beta iota.
  destruct (TrRsetFind.rset_answer (rs_n rs) (rs_grp rs) (rs_setgrpcnt rs) x n) as [idx g]. exists idx, g, c. reflexivity.
Qed.

(* which alternative: the index is -1 or inside the set, and then the wrapper group of that alternative has matched *)
Lemma rset_which_pos subs : forall l i set,
  let r := RsetDefs.rset_which l subs i set in
  r = set \/ (i <= r < i + Z.of_nat (length l) /\ 0 <= nth (Z.to_nat (r - i)) l 0 /\
              0 <= fst (nth (Z.to_nat (nth (Z.to_nat (r - i)) l 0)) subs (-1, -1))).
Proof.
  induction l as [|g l IH]; intros i set; cbn [RsetDefs.rset_which]; [left; reflexivity|].
  cbv zeta in IH. cbn [length].
  destruct (IH (i + 1) (if (0 <=? g) && (0 <=? fst (nth (Z.to_nat g) subs (-1, -1))) then i else set)) as [E|[E1 [E2 E3]]].
  - rewrite E. destruct (Z.leb_spec 0 g) as [G|G]; cbn [andb]; [|left; reflexivity].
    destruct (Z.leb_spec 0 (fst (nth (Z.to_nat g) subs (-1, -1)))) as [G2|G2]; [|left; reflexivity].
    right. rewrite Z.sub_diag. cbn [Z.to_nat nth]. split; [lia|]. split; assumption.
  - right. split; [lia|].
    set (r := RsetDefs.rset_which l subs (i + 1) (if (0 <=? g) && (0 <=? fst (nth (Z.to_nat g) subs (-1, -1))) then i else set)) in *.
    replace (Z.to_nat (r - i)) with (S (Z.to_nat (r - (i + 1)))) by lia. cbn [nth]. split; assumption.
Qed.

Lemma nth_firstn_lt {A} (l : list A) d : forall n k, (k < n)%nat -> nth k (firstn n l) d = nth k l d.
Proof.
  induction l as [|x l IH]; intros n k H; [rewrite firstn_nil; reflexivity|].
  destruct n as [|n]; [lia|]. destruct k as [|k]; [reflexivity|]. cbn [firstn nth]. apply IH. lia.
Qed.

(* the shape of an answer: -1, or an index inside the set with n pairs, each -1/-1 or 0 <= so <= eo <= |line|, the first with so >= 0 *)
Lemma find_answer fuel rs line n flg idx g c : set_ok fuel rs ->
  RsetDefs.rset_find_d 256 rs line n flg = (ROk (idx, g), c) ->
  (idx = -1 \/ 0 <= idx < Z.of_nat (rs_n rs)) /\
  (0 <= idx -> length g = n /\
     Forall (fun se : Z * Z => se = (-1, -1) \/ (0 <= fst se <= snd se /\ snd se <= Z.of_nat (length line))) g /\
     ((0 < n)%nat -> 0 <= fst (nth 0 g (-1, -1)))).
Proof.
  intros SO H. destruct (so_prov _ _ SO) as [pat Hp]. rewrite TrRsetFind.rset_find_d_answer in H.
  destruct (Nat.leb (rs_grpcnt rs) 2); [injection H as <- <- _; split; [left; reflexivity|lia]|].
  destruct (ReVM.regexec_d 256 (rs_prog rs) (rs_cflg rs) line (rs_grpcnt rs) (TrRsetFind.eflg_of flg)) as [[osubs| |] c'] eqn:Hrx; try discriminate H.
  injection H as HR _. destruct osubs as [subs|]; cbn [TrRsetFind.rset_answer] in HR; [|injection HR as <- <-; split; [left; reflexivity|lia]].
  pose proof (ReProps8.regexec_bounds pat _ _ _ _ _ _ subs c' Hp Hrx) as Hb.
  unfold TrRsetFind.rset_pick in HR.
  set (st := RsetDefs.rset_which (firstn (rs_n rs) (rs_grp rs)) subs 0 (-1)) in *.
  destruct (so_tabs _ _ SO) as (Hn & Hlg & _). rewrite Nat2Z.id in Hlg.
  destruct (rset_which_pos subs (firstn (rs_n rs) (rs_grp rs)) 0 (-1)) as [E|[E1 [E2 E3]]]; fold st in E || fold st in E1, E2, E3.
  - rewrite E in HR. change (-1 <? 0) with true in HR. injection HR as <- <-. split; [left; reflexivity|lia].
  - rewrite firstn_length, Nat.min_l in E1 by exact Hlg. rewrite Z.sub_0_r in E2, E3.
    rewrite nth_firstn_lt in E2, E3 by lia.
    destruct (Z.ltb_spec st 0); [lia|]. injection HR as <- <-. split; [right; lia|]. intros _.
    split; [rewrite map_length, seq_length; reflexivity|]. split.
    + apply Forall_forall. intros se Hse. apply in_map_iff in Hse. destruct Hse as [i [<- _]].
      destruct (Nat.ltb i _); [|left; reflexivity].
      match goal with |- context [nth ?k subs _] => destruct (Nat.lt_ge_cases k (length subs)) as [L|L] end;
        [|left; apply nth_overflow; exact L].
      rewrite Forall_forall in Hb. apply Hb. apply nth_In. exact L.
    + intro Hpos. destruct n as [|n]; [lia|]. cbn [seq map nth]. rewrite Nat.add_0_r.
      replace (0 <? _ + 1)%nat with true by (symmetry; apply Nat.ltb_lt; lia). exact E3.
Qed.

(* the 32 cells of subs[] as dir_match reads them = the 16 pairs rset_find stores *)
Lemma subs_cells_flat (g : list (Z * Z)) : length g = 16%nat -> map VInt (subs_cells (flat g)) = tab_block g.
Proof.
  intro L. do 17 (destruct g as [|[? ?] g]; try discriminate L). reflexivity.
Qed.

Lemma flat_nth0 (g : list (Z * Z)) : (0 < length g)%nat -> nth 0 (flat g) (-1) = fst (nth 0 g (-1, -1)) /\ nth 1 (flat g) (-1) = snd (nth 0 g (-1, -1)).
Proof. destruct g as [|[a b] g]; cbn [length]; [lia|]. intros _. split; reflexivity. Qed.

Lemma flat_in (g : list (Z * Z)) z : In z (flat g) -> exists se, In se g /\ (z = fst se \/ z = snd se).
Proof.
  unfold flat. intro H. apply in_flat_map in H. destruct H as [se [Hs Hz]]. exists se. split; [exact Hs|].
  destruct Hz as [<-|[<-|[]]]; auto.
Qed.

(* ------------------------------------------------------------------ raw_ok of the model's matcher *)
Lemma find_raw_ok (M : mem) fuel rslr rsrl lr rl s chrs :
  set_in M fuel rslr lr -> set_in M fuel rsrl rl ->
  (forall rs, lr = Some rs -> set_ok fuel rs /\ (rs_n rs <= length dirmarks)%nat) ->
  (forall rs, rl = Some rs -> set_ok fuel rs /\ (rs_n rs <= length dirmarks)%nat) ->
  chrs_ok s chrs -> Z.of_nat (length s) <= 2147483647 ->
  (forall b e, length (substr s chrs b e) <= length s)%nat ->
  raw_ok rslr rsrl (find_raw lr rl s chrs).
Proof.
  intros Slr Srl Olr Orl Hcok Hls Hsub b e ctx flg. unfold find_raw, rs_of.
  assert (X : forall v o, set_in M fuel v o -> (forall rs, o = Some rs -> set_ok fuel rs /\ (rs_n rs <= length dirmarks)%nat) ->
            (is_null v = true -> o = None) /\
            forall rs, o = Some rs -> forall found subs,
              match fst (RsetDefs.rset_find_d 256 rs (substr s chrs b e) 16 flg) with
              | ROk (idx, g) => if idx <? 0 then None else Some (Z.to_nat idx, flat g)
              | _ => None
              end = Some (found, subs) ->
              (found < length dirmarks)%nat /\ Forall int_ok (subs_cells subs) /\ 0 <= nth 0 subs (-1) /\ 0 <= nth 1 subs (-1)).
  { intros v o Sv Ov. split.
    - destruct o as [rs|]; [|reflexivity]. destruct Sv as (rb & ? & ? & ? & ? & ? & -> & _). discriminate.
    - intros rs -> found subs H. destruct (Ov rs eq_refl) as [SO Hn].
      destruct (RsetDefs.rset_find_d 256 rs (substr s chrs b e) 16 flg) as [[[idx g]| |] c] eqn:Hm; cbn [fst] in H; try discriminate H.
      destruct (Z.ltb_spec idx 0) as [Hi|Hi]; [discriminate H|]. injection H as <- <-.
      destruct (find_answer fuel rs _ 16 flg idx g c SO Hm) as [Hidx Hg]. destruct (Hg Hi) as (Lg & Fg & H0). specialize (H0 ltac:(lia)).
      split; [lia|].
      assert (Hse0 : 0 <= fst (nth 0 g (-1, -1)) <= snd (nth 0 g (-1, -1)) /\ snd (nth 0 g (-1, -1)) <= Z.of_nat (length (substr s chrs b e))).
      { rewrite Forall_forall in Fg. destruct (Fg (nth 0 g (-1, -1)) ltac:(apply nth_In; lia)) as [E|E]; [rewrite E in H0; cbn in H0; lia|exact E]. }
      destruct (flat_nth0 g ltac:(lia)) as [F0 F1]. rewrite F0, F1.
      split; [|lia].
      apply Forall_forall. intros z Hz. unfold subs_cells in Hz. apply in_map_iff in Hz. destruct Hz as [k [<- _]].
      destruct (Nat.lt_ge_cases k (length (flat g))) as [L|L]; [|rewrite nth_overflow by exact L; unfold int_ok; lia].
      destruct (flat_in g _ (nth_In _ (-1) L)) as [se [Hse Hz]]. rewrite Forall_forall in Fg. specialize (Hsub b e).
      destruct (Fg se Hse) as [E|E]; unfold int_ok; [subst se; cbn [fst snd] in Hz; lia|lia]. }
  destruct (ctx <? 0).
  - destruct (X rsrl rl Srl Orl) as [X1 X2]. split; [intro Hn; rewrite (X1 Hn); reflexivity|].
    intros found subs H. destruct rl as [rs|]; [|discriminate H]. exact (X2 rs eq_refl found subs H).
  - destruct (X rslr lr Slr Olr) as [X1 X2]. split; [intro Hn; rewrite (X1 Hn); reflexivity|].
    intros found subs H. destruct lr as [rs|]; [|discriminate H]. exact (X2 rs eq_refl found subs H).
Qed.

(* ------------------------------------------------------------------ the oracle IS the translated rset_find *)
Definition find_depth (e : nat) : nat := S (S (S (S (S (S (S (S (S (S (256 + e)))))))))).
Definition ext_is_find (ext : nat -> list val -> mem -> res (val * mem)) (fuelR e : nat) : Prop :=
  forall args m, ext X_rset_find args m = callf cprog fuelR (find_depth e) F_rset_find args m.
(* the oracle that runs the translated rset_find and knows no other function *)
Definition ext_find (fuelR e : nat) : nat -> list val -> mem -> res (val * mem) :=
  fun f args m => if Nat.eqb f X_rset_find then callf cprog fuelR (find_depth e) F_rset_find args m else Err EShape.
Lemma ext_find_is fuelR e : ext_is_find (ext_find fuelR e) fuelR e.
Proof. intros args m. unfold ext_find. rewrite Nat.eqb_refl. reflexivity. Qed.

Lemma mem_len_of_frame (m m' : mem) : (forall b, (b < length m)%nat -> nth_error m' b <> None) -> (length m <= length m')%nat.
Proof.
  intro H. destruct (Nat.le_gt_cases (length m) (length m')) as [L|L]; [exact L|exfalso].
  apply (H (length m') L). apply nth_error_None. lia.
Qed.

Section Find.
  Variables (m0 : mem) (hi fuelR e g : nat) (ext : nat -> list val -> mem -> res (val * mem)).
  Hypothesis Hext : ext_is_find ext fuelR e.
  Hypothesis Hhi : (hi <= length m0)%nat.
  Hypothesis Hg : (hi <= g)%nat.
  Hypothesis Hglob : TrCmp18Brk.globals_at (firstn hi m0).

  Lemma low_len : length (firstn hi m0) = hi.
  Proof. rewrite firstn_length. lia. Qed.
  (* every memory of the run agrees with the first hi blocks of the memory at the call *)
  Lemma low_agrees m : mem_ext m0 m [g] -> agrees (firstn hi m0) m.
  Proof.
    intros [L F]. split; [rewrite low_len; lia|]. intros b Hb. rewrite low_len in Hb.
    rewrite nth_error_firstn_lt by exact Hb. apply F; [lia|]. intros [X|[]]. lia.
  Qed.
  Lemma low_agrees_upd m q blk : mem_ext m0 m [g] -> (hi <= q)%nat -> (q < length m)%nat -> agrees (firstn hi m0) (upd m q blk).
  Proof.
    intros E Hq Lq. destruct (low_agrees m E) as [L A]. split; [rewrite upd_length by exact Lq; exact L|].
    intros b Hb. rewrite mem_upd_other; [apply A; exact Hb|exact Lq|]. rewrite low_len in Hb. lia.
  Qed.

  (* THE MARKS: the translated rset_find answers dir_match's calls as the model's rset_find_d says *)
  Lemma find_oracle_on s chrs rslr rsrl lr rl :
    nonul s -> chrs_ok s chrs -> (length s + 2 <= fuelR)%nat -> Z.of_nat (length s) < 2147483647 -> (16 < fuelR)%nat ->
    set_in (firstn hi m0) fuelR rslr lr -> set_in (firstn hi m0) fuelR rsrl rl ->
    (forall rs, lr = Some rs -> set_ok fuelR rs) -> (forall rs, rl = Some rs -> set_ok fuelR rs) ->
    oracle_on m0 [g] ext s chrs rslr rsrl (find_raw lr rl s chrs).
  Proof.
    intros Hnn Hcok Hfs Hls Hf16 Slr Srl Olr Orl m b e' ctx strb gb gblk Hm Lstrb Lgb Hbe Hnull [rest P] Hgb Lgblk Ngs.
    set (str := substr s chrs b e') in *. set (flg := dm_flags s chrs b e') in *.
    unfold find_raw. fold str.
    assert (Side : exists rs, (if ctx <? 0 then rl else lr) = Some rs /\ set_in (firstn hi m0) fuelR (rs_of rslr rsrl ctx) (Some rs) /\ set_ok fuelR rs).
    { unfold rs_of in *. destruct (ctx <? 0).
      - destruct rl as [rs|]; [exists rs; auto|]. cbn [set_in] in Srl. subst rsrl. discriminate Hnull.
      - destruct lr as [rs|]; [exists rs; auto|]. cbn [set_in] in Slr. subst rslr. discriminate Hnull. }
    destruct Side as (rs & -> & (rb & bre & bp & bg & bsg & rests & Ev & Hat) & SO). rewrite Ev.
    destruct (substr_length s chrs b e' Hcok Hbe) as [Hsl [_ Hce]]. fold str in Hsl.
    pose proof (substr_nonul s chrs b e' Hnn) as Hsn. fold str in Hsn.
    assert (Lstrb' : (strb < length m)%nat) by (apply nth_error_Some; congruence).
    assert (Lgb' : (gb < length m)%nat) by (apply nth_error_Some; congruence).
    set (mt := upd m strb (cstr_block (zb str))).
    assert (Lmt : length mt = length m) by (apply upd_length; exact Lstrb').
    assert (Ag : agrees (firstn hi m0) mt) by (apply low_agrees_upd; [exact Hm|lia|exact Lstrb']).
    pose proof (rset_at_ext _ mt _ _ _ _ _ _ _ _ Ag Hat) as Hat'.
    pose proof (globals_ext _ mt Ag Hglob) as Hg'.
    assert (Hst : str_at mt strb str) by (unfold str_at, mt; apply mem_upd_same; exact Lstrb').
    assert (Hgbt : nth_error mt gb = Some gblk) by (unfold mt; rewrite mem_upd_other by auto; exact Hgb).
    destruct Hat as (Hrb0 & Hbg0 & Hbsg0 & _).
    assert (Lrb : (rb < hi)%nat) by (rewrite <- low_len; apply nth_error_Some; congruence).
    assert (Lbg : (bg < hi)%nat) by (rewrite <- low_len; apply nth_error_Some; congruence).
    assert (Lbsg : (bsg < hi)%nat) by (rewrite <- low_len; apply nth_error_Some; congruence).
    destruct (find_total fuelR rs str 16 flg SO Hsn) as (idx & gg & c & Hmod).
    destruct (find_answer fuelR rs str 16 flg idx gg c SO Hmod) as [Hidx Hgg].
    destruct (TrCmp18Rx.tr_rset_find_model mt fuelR rb bre bp bg bsg gb strb rs rests str 16 flg gblk e idx gg c Hat' (so_tabs _ _ SO) Hst Hg' Hgbt
                ltac:(lia) ltac:(lia) ltac:(lia) (nonul_lt256 _ Hsn) (so_cflg _ _ SO) (so_lor _ _ SO flg) (so_gc _ _ SO) ltac:(lia)
                ltac:(pose proof (so_gc _ _ SO); lia) ltac:(rewrite Lgblk; cbn; lia) ltac:(lia) (so_f5 _ _ SO) ltac:(lia) (so_plen _ _ SO)
                ltac:(destruct (so_prov _ _ SO) as [pat Hp]; exact (ReProps5.regcomp_prog_wf pat _ Hp)) (so_f1 _ _ SO) (so_f2 _ _ SO) (so_f3 _ _ SO)
                (so_f4 _ _ SO) ltac:(cbn; lia) Hmod) as (mt' & Hcall & Hgbv & _ & Hfr).
    (* from the block that holds exactly the string to the sbuf's buffer *)
    assert (Hne : cstr_block (zb str) <> []) by (unfold cstr_block; destruct (map VInt (zb str)); discriminate).
    pose proof (mem_sim_one mt strb (cstr_block (zb str)) rest Hst Hne) as S0.
    assert (Em : upd mt strb (cstr_block (zb str) ++ rest) = m).
    { unfold mt. rewrite upd_upd by exact Lstrb'. apply upd_self. exact P. }
    rewrite Em in S0.
    destruct (callf_sim cprog fuelR _ (find_depth e) F_rset_find _ mt m (VInt idx) mt' S0 Hcall) as (m' & Hcall' & S1).
    exists m'. rewrite Hext. rewrite Hmod. cbn [fst].
    assert (Lmm : (length mt <= length mt')%nat).
    { apply mem_len_of_frame. intros x Hx. destruct (Nat.eq_dec x gb) as [->|Hn]; [rewrite Hgbv; discriminate|].
      rewrite Hfr by assumption. apply nth_error_Some. exact Hx. }
    assert (Same : forall x, (x < length m)%nat -> x <> gb -> nth_error m' x = nth_error m x).
    { intros x Hx Hn. apply (mem_sim_same _ mt m mt' m' x S0 S1); [apply Hfr; [rewrite Lmt; exact Hx|exact Hn]|rewrite Lmt; exact Hx]. }
    assert (Hgb' : nth_error m' gb = nth_error mt' gb).
    { destruct S1 as (_ & S1 & _). rewrite (S1 gb _ Hgbv), Hgbv.
      replace (Nat.eqb gb strb) with false by (symmetry; apply Nat.eqb_neq; exact Ngs). unfold ext_blk. f_equal.
      destruct (if idx <? 0 then gblk else tab_block gg ++ skipn (2 * Z.to_nat 16) gblk); [reflexivity|apply app_nil_r]. }
    split; [|split].
    - rewrite Hcall'. f_equal. f_equal. f_equal. destruct (Z.ltb_spec idx 0); [lia|]. rewrite Z2Nat.id by lia. reflexivity.
    - split.
      + destruct S1 as (L1 & _). rewrite L1. rewrite <- Lmt. exact Lmm.
      + intros x Hx Hn. apply Same; [exact Hx|]. intros ->. apply Hn. left. reflexivity.
    - rewrite Hgb', Hgbv. destruct (Z.ltb_spec idx 0) as [Hi|Hi]; [reflexivity|].
      destruct (Hgg Hi) as (Lg & _). rewrite (subs_cells_flat gg Lg). f_equal.
      rewrite skipn_all2 by (rewrite Lgblk; cbn; lia). apply app_nil_r.
  Qed.

  (* THE CONTEXT: the translated rset_find answers dir_context's call rset_find(dir_rsctx, s, 0, NULL, 0) as the model says *)
  Lemma find_ctx_oracle_on sb s rsctx rc :
    nonul s -> (length s + 2 <= fuelR)%nat -> Z.of_nat (length s) < 2147483647 ->
    set_in (firstn hi m0) fuelR rsctx rc -> (forall rs, rc = Some rs -> set_ok fuelR rs) ->
    ctx_oracle_on m0 [g] ext rsctx sb s (find_ctx rc s).
  Proof.
    intros Hnn Hfs Hls Sc Oc. unfold ctx_oracle_on, find_ctx. destruct rc as [rs|].
    - destruct Sc as (rb & bre & bp & bg & bsg & rests & -> & Hat). pose proof (Oc rs eq_refl) as SO.
      destruct (find_total fuelR rs s 0 0 SO Hnn) as (idx & gg & c & Hmod). rewrite Hmod. cbn [fst].
      destruct (find_answer fuelR rs s 0 0 idx gg c SO Hmod) as [Hidx _].
      destruct (so_tabs _ _ SO) as (Hn & _).
      split; [unfold int_ok; lia|]. split; [discriminate|]. intros _ m Hm Hs.
      pose proof (low_agrees m Hm) as Ag.
      pose proof (rset_at_ext _ m _ _ _ _ _ _ _ _ Ag Hat) as Hat'.
      pose proof (globals_ext _ m Ag Hglob) as Hg'.
      destruct (TrCmp18Rx.tr_rset_find_model0 m fuelR rb bre bp bg bsg sb rs rests s (VInt 0) 0 e idx gg c Hat' (so_tabs _ _ SO) Hs Hg'
                  (nonul_lt256 _ Hnn) (so_cflg _ _ SO) (so_lor _ _ SO 0) (so_gc _ _ SO) ltac:(lia) (so_f5 _ _ SO) ltac:(lia)
                  (so_plen _ _ SO) ltac:(destruct (so_prov _ _ SO) as [pat Hp]; exact (ReProps5.regcomp_prog_wf pat _ Hp))
                  (so_f1 _ _ SO) (so_f2 _ _ SO) (so_f3 _ _ SO) (so_f4 _ _ SO) Hmod) as (m' & Hcall & Lm & Hfr).
      exists m'. rewrite Hext. split; [exact Hcall|]. split; [exact Lm|]. intros x Hx _. apply Hfr. exact Hx.
    - cbn [set_in] in Sc. subst rsctx. split; [unfold int_ok; lia|]. split; [reflexivity|]. discriminate.
  Qed.
End Find.

(* ------------------------------------------------------------------ the composed theorems *)
(* the three sets of dir_init in the first hi blocks of the memory, behind the pointers dir_rsctx / dir_rslr / dir_rsrl *)
Record sets_world (m : mem) (hi fuelR : nat) (rsctx rslr rsrl : val) (rc lr rl : option rset) : Prop := {
  sw_hi : (hi <= length m)%nat;
  sw_glob : TrCmp18Brk.globals_at (firstn hi m);
  sw_ctx : set_in (firstn hi m) fuelR rsctx rc;
  sw_lr : set_in (firstn hi m) fuelR rslr lr;
  sw_rl : set_in (firstn hi m) fuelR rsrl rl;
  sw_ctx_ok : forall rs, rc = Some rs -> set_ok fuelR rs;
  sw_lr_ok : forall rs, lr = Some rs -> set_ok fuelR rs /\ (rs_n rs <= length dirmarks)%nat;
  sw_rl_ok : forall rs, rl = Some rs -> set_ok fuelR rs /\ (rs_n rs <= length dirmarks)%nat;
  sw_fuel : (16 < fuelR)%nat }.

Lemma substr_le s chrs b e : (length (substr s chrs b e) <= length s)%nat.
Proof. unfold substr. rewrite firstn_length, skipn_length. lia. Qed.

(* dir_context with the translated rset_find under it = the model's dir_context with the model's rset_find_d on the context set *)
Theorem tr_dir_context_full ext fuelR e (m : mem) hi sb s xtd rsctx rslr rsrl rc lr rl d fuel :
  ext_is_find ext fuelR e -> ctx_world m sb s xtd rsctx -> nonul s -> sets_world m hi fuelR rsctx rslr rsrl rc lr rl ->
  (length s + 2 <= fuelR)%nat -> Z.of_nat (length s) < 2147483647 ->
  exists m', callx ext cprog fuel (S (S d)) F_dir_context [VPtr sb 0] m = Ok (VInt (dir_context s xtd (find_ctx rc s)), m') /\ mem_ext m m' [].
Proof.
  intros Hext CW Hnn SW Hfs Hls.
  apply (tr_dir_context_on m [length m] ext m sb s xtd rsctx (find_ctx rc s) d fuel CW); [|apply mem_ext_refl].
  apply (find_ctx_oracle_on m hi fuelR e (length m) ext Hext (sw_hi _ _ _ _ _ _ _ _ _ SW) (sw_hi _ _ _ _ _ _ _ _ _ SW) (sw_glob _ _ _ _ _ _ _ _ _ SW)
           sb s rsctx rc Hnn Hfs Hls (sw_ctx _ _ _ _ _ _ _ _ _ SW) (sw_ctx_ok _ _ _ _ _ _ _ _ _ SW)).
Qed.

(* dir_match with the translated rset_find under it = the model's dir_match with the model's rset_find_d on the set of the context's side *)
Theorem tr_dir_match_full ext fuelR e fuel d (m : mem) hi sb s cb chrs rsctx rslr rsrl rc lr rl b e' ctx prec prb pre pcb pce pdir :
  ext_is_find ext fuelR e -> dir_world m sb s cb chrs rslr rsrl -> (b <= e' < length chrs)%nat ->
  outs_ok m sb cb (dm_outs prec prb pre pcb pce pdir) -> sets_world m hi fuelR rsctx rslr rsrl rc lr rl ->
  (length s + 2 <= fuelR)%nat -> (length s < fuel)%nat ->
  let raw := find_raw lr rl s chrs in
  exists m',
    callx ext cprog fuel (S (S (S (S d)))) F_dir_match (dm_args cb b e' ctx prec prb pre pcb pce pdir) m
    = Ok (VInt (match dir_match s chrs raw b e' ctx with Some _ => 0 | None => 1 end), m') /\
    match dir_match s chrs raw b e' ctx with
    | Some res => mem_ext m m' (dm_outs prec prb pre pcb pce pdir) /\ res_cells m' prec prb pre pcb pce pdir res
    | None => mem_ext m m' []
    end.
Proof.
  intros Hext W Hbe Hout SW Hfs Hf raw. pose proof (dw_size _ _ _ _ _ _ _ W) as Hsize.
  apply (tr_dir_match_on m [length m] ext fuel d m sb s cb chrs rslr rsrl raw b e' ctx prec prb pre pcb pce pdir W Hbe Hout); [| |exact Hf|apply mem_ext_refl].
  - apply (find_oracle_on m hi fuelR e (length m) ext Hext (sw_hi _ _ _ _ _ _ _ _ _ SW) (sw_hi _ _ _ _ _ _ _ _ _ SW) (sw_glob _ _ _ _ _ _ _ _ _ SW)
             s chrs rslr rsrl lr rl (dw_nn _ _ _ _ _ _ _ W) (dw_cok _ _ _ _ _ _ _ W) Hfs ltac:(lia) (sw_fuel _ _ _ _ _ _ _ _ _ SW)
             (sw_lr _ _ _ _ _ _ _ _ _ SW) (sw_rl _ _ _ _ _ _ _ _ _ SW)
             (fun rs H => proj1 (sw_lr_ok _ _ _ _ _ _ _ _ _ SW rs H)) (fun rs H => proj1 (sw_rl_ok _ _ _ _ _ _ _ _ _ SW rs H))).
  - apply (find_raw_ok (firstn hi m) fuelR rslr rsrl lr rl s chrs (sw_lr _ _ _ _ _ _ _ _ _ SW) (sw_rl _ _ _ _ _ _ _ _ _ SW)
             (sw_lr_ok _ _ _ _ _ _ _ _ _ SW) (sw_rl_ok _ _ _ _ _ _ _ _ _ SW) (dw_cok _ _ _ _ _ _ _ W) ltac:(lia) (substr_le s chrs)).
Qed.

(* dir_reorder: the translated dir_reorder with the translated rset_find and regexec under it leaves in the order array what
   DirDefs.dir_reorder computes with the matcher functions instantiated by RsetDefs.rset_find_d 256 on the sets in memory *)
Theorem tr_dir_reorder_full ext fuelR e FUEL d (m : mem) hi sb s xtd rsctx rslr rsrl rc lr rl g ord ord' :
  ext_is_find ext fuelR e ->
  reorder_world m sb s xtd rsctx rslr rsrl -> sets_world m hi fuelR rsctx rslr rsrl rc lr rl -> (hi <= g)%nat ->
  int_arr_at m g (map Z.of_nat ord) -> ints_ok (map Z.of_nat ord) -> ~ In g (reorder_blocks sb) -> (uc_slen s <= length ord)%nat ->
  (length s + 2 <= fuelR)%nat ->
  let raw := find_raw lr rl s (uc_chop s) in
  cm_ok (dir_match s (uc_chop s) raw) (uc_slen s) ->
  (S (S (length s)) < FUEL)%nat ->
  dir_reorder s xtd (find_ctx rc s) raw ord = Some ord' ->
  exists m', callx ext cprog FUEL (S (S (S (S (S (S (S (uc_slen s) + d))))))) F_dir_reorder [VPtr sb 0; VPtr g 0] m = Ok (VUndef, m') /\
    mem_ext m m' [g] /\ int_arr_at m' g (map Z.of_nat ord').
Proof.
  intros Hext RW SW Hg Ho Hi Hgw Hno Hfs raw Hcm HF Hre.
  pose proof (rw_size _ _ _ _ _ _ _ RW) as Hsize. pose proof (rw_nn _ _ _ _ _ _ _ RW) as Hnn.
  destruct (uc_chop_ok s) as [Hcok _].
  apply (tr_dir_reorder_self ext FUEL d m sb s xtd rsctx rslr rsrl (find_ctx rc s) raw g ord ord' RW Ho Hi Hgw Hno); try assumption.
  - apply (find_ctx_oracle_on m hi fuelR e g ext Hext (sw_hi _ _ _ _ _ _ _ _ _ SW) Hg (sw_glob _ _ _ _ _ _ _ _ _ SW)
             sb s rsctx rc Hnn Hfs ltac:(lia) (sw_ctx _ _ _ _ _ _ _ _ _ SW) (sw_ctx_ok _ _ _ _ _ _ _ _ _ SW)).
  - apply (find_oracle_on m hi fuelR e g ext Hext (sw_hi _ _ _ _ _ _ _ _ _ SW) Hg (sw_glob _ _ _ _ _ _ _ _ _ SW)
             s (uc_chop s) rslr rsrl lr rl Hnn Hcok Hfs ltac:(lia) (sw_fuel _ _ _ _ _ _ _ _ _ SW)
             (sw_lr _ _ _ _ _ _ _ _ _ SW) (sw_rl _ _ _ _ _ _ _ _ _ SW)
             (fun rs H => proj1 (sw_lr_ok _ _ _ _ _ _ _ _ _ SW rs H)) (fun rs H => proj1 (sw_rl_ok _ _ _ _ _ _ _ _ _ SW rs H))).
  - apply (find_raw_ok (firstn hi m) fuelR rslr rsrl lr rl s (uc_chop s) (sw_lr _ _ _ _ _ _ _ _ _ SW) (sw_rl _ _ _ _ _ _ _ _ _ SW)
             (sw_lr_ok _ _ _ _ _ _ _ _ _ SW) (sw_rl_ok _ _ _ _ _ _ _ _ _ SW) Hcok ltac:(lia) (substr_le s (uc_chop s))).
Qed.
Print Assumptions tr_dir_context_full.
Print Assumptions tr_dir_match_full.
Print Assumptions tr_dir_reorder_full.
