(* ComposeSubst.v -- C14 composed with the regex model (C10/C11/C12): the matcher parameter of
   SubstDefs (ec_substitute's scan) is instantiated with the MODEL of rstr_make / rstr_find -- the
   literal fast path of rstr.c (RstrDefs) for a simple pattern, rset_make / rset_find (RsetDefs, ReVM)
   otherwise -- exactly as ec_substitute calls it: 16 groups, RE_NOTBOL on every search after the
   first.  The hypothesis wf_find of C14_utf8 (group offsets within the searched text and on character
   boundaries) is discharged from C11_exec_bounds + C11_char_boundaries (general engine) and through
   C12_fastpath_engine (fast path = engine on simple patterns).  No hypothesis about the matcher is left.
   New file of the composition round; SubstDefs / SubstProps / SubstUtf8 / Re*.v / Rstr*.v are not edited. *)
From Coq Require Import List NArith ZArith Bool Lia ZifyBool ZifyNat ZifyN.
From NV Require Import Bytes GenConsts UcDefs UcSpec UcProps UcSegProps.
From NV Require Import ReSyntax ReParse ReEmit ReVM RsetDefs ReProps9.
From NV Require RstrDefs RstrProps Properties_C11 Properties_C12.
From NV Require Import SubstDefs SubstProps SubstUtf8.
From NV Require SubstEngineDefs.
Import ListNotations.
Local Open Scope N_scope.

(* ---------------------------------------------------------------------------------------------- *)
(* the matcher of ec_substitute over the regex model: the definitions live in SubstEngineDefs.v (no proofs there, it is
   extracted for the correspondence run); the names below keep ComposeSubst.engine_find etc. as they were *)
Notation icflag := SubstEngineDefs.icflag.
Notation nbflag := SubstEngineDefs.nbflag.
Notation ngrps := SubstEngineDefs.ngrps.
Notation general_find := SubstEngineDefs.general_find.
Notation engine_find := SubstEngineDefs.engine_find.

(* ---------------------------------------------------------------------------------------------- *)
(* 1. rset_make / rset_find in terms of regcomp / regexec *)

Lemma rset_make_regcomp res flg rs : rset_make res flg = Ok (Some rs) ->
  regcomp (rset_pattern res) = Ok (Some (rs_prog rs)).
Proof.
  unfold rset_make, rset_pattern. destruct (rset_build res [40] 2) as [[[sb g] sg] gc].
  destruct (existsb _ (somes res)); [discriminate|].
  destruct (regcomp (sb ++ [41])) as [[p|]| |]; cbn [bind]; try discriminate.
  intro H. inversion H. reflexivity.
Qed.

Lemma rset_pattern_single p : rset_pattern [Some p] = 40 :: 40 :: p ++ [41; 41].
Proof. unfold rset_pattern. cbn. rewrite <- app_assoc. reflexivity. Qed.

(* every group pair rset_find hands back is a pair of regexec's answer or the unset pair *)
Lemma rset_find_groups d rs line n fl idx g c : rset_find_d d rs line n fl = (Ok (idx, g), c) -> (0 <= idx)%Z ->
  exists subs eflg, regexec_d d (rs_prog rs) (rs_cflg rs) line (rs_grpcnt rs) eflg = (Ok (Some subs), c) /\
    forall P : Z * Z -> Prop, P ((-1)%Z, (-1)%Z) -> Forall P subs -> Forall P g.
Proof.
  intros H Hi. destruct (rset_index d rs line n fl idx g c H Hi) as (subs & E & _ & _ & _ & Hg).
  exists subs. eexists. split; [exact E|]. intros P P0 Hs. subst g. apply Forall_forall. intros x Hx.
  apply in_map_iff in Hx. destruct Hx as (i & <- & _).
  destruct (Nat.ltb i _); [|exact P0].
  match goal with |- P (nth ?k subs _) => destruct (Nat.lt_ge_cases k (length subs)) as [L|L] end.
  - rewrite Forall_forall in Hs. apply Hs, nth_In, L.
  - rewrite nth_overflow by exact L. exact P0.
Qed.

(* ---------------------------------------------------------------------------------------------- *)
(* 2. C11_exec_bounds + C11_char_boundaries = the well-formedness of SubstUtf8 *)

Lemma off_of_le_length cs k : (off_of cs k <= length (chars cs))%nat.
Proof.
  unfold off_of. rewrite <- (firstn_skipn k cs) at 2. rewrite chars_app, app_length. lia.
Qed.

Lemma bounds_boundaries_wf cs (se : Z * Z) :
  (se = ((-1)%Z, (-1)%Z) \/ (0 <= fst se <= snd se /\ snd se <= Z.of_nat (length (chars cs)))%Z) ->
  (se = ((-1)%Z, (-1)%Z) \/
     exists k1 k2, (k1 <= length cs)%nat /\ (k2 <= length cs)%nat /\
                   fst se = Z.of_nat (off_of cs k1) /\ snd se = Z.of_nat (off_of cs k2)) ->
  wf_grp cs se.
Proof.
  intros [->|(Hb & _)] H2; [left; reflexivity|]. destruct H2 as [->|(k1 & k2 & H1 & H2 & E1 & E2)]; [left; reflexivity|].
  right. destruct se as [so eo]. cbn [fst snd] in *. destruct (Nat.le_gt_cases k1 k2) as [L|L].
  - exists k1, k2. repeat split; try assumption. congruence.
  - exists k2, k2. repeat split; try lia.
    pose proof (off_of_mono cs k2 k1 ltac:(lia)). f_equal; lia.
Qed.

(* the general engine: whatever rset_find reports for a valid UTF-8 pattern set on a valid UTF-8 line *)
Lemma rset_find_wf d pcs rs flg cs n fl idx g c :
  Forall scalar pcs -> rset_make [Some (chars pcs)] flg = Ok (Some rs) -> Forall scalar cs ->
  rset_find_d d rs (chars cs) n fl = (Ok (idx, g), c) -> (0 <= idx)%Z -> Forall (wf_grp cs) g.
Proof.
  intros Hp Hm Hc Hf Hi.
  destruct (rset_find_groups _ _ _ _ _ _ _ _ Hf Hi) as (subs & eflg & E & Hg).
  apply Hg; [left; reflexivity|].
  pose proof (rset_make_regcomp _ _ _ Hm) as Rc. rewrite rset_pattern_single in Rc.
  pose proof (Properties_C11.C11_exec_bounds _ _ _ _ _ _ _ _ _ Rc E) as B1.
  assert (Ep : 40 :: 40 :: chars pcs ++ [41; 41] = chars (40 :: 40 :: pcs ++ [41; 41])).
  { rewrite !chars_cons, chars_app. reflexivity. }
  assert (Hp' : Forall scalar (40 :: 40 :: pcs ++ [41; 41])).
  { assert (S40 : scalar 40) by (unfold scalar; lia). assert (S41 : scalar 41) by (unfold scalar; lia).
    constructor; [exact S40|]. constructor; [exact S40|]. apply Forall_app. split; [assumption|].
    constructor; [exact S41|]. constructor; [exact S41|constructor]. }
  pose proof (Properties_C11.C11_char_boundaries _ _ _ _ _ _ _ _ _ _ cs Hp' Ep Hc eq_refl Rc E) as B2.
  rewrite Forall_forall in *. intros se Hin. apply bounds_boundaries_wf; [apply B1, Hin | apply B2, Hin].
Qed.

(* ---------------------------------------------------------------------------------------------- *)
(* 3. the pieces of a valid UTF-8 pattern: stripping ASCII bytes at either end keeps validity *)

Lemma is_cont_ge b : UcDefs.is_cont b = true -> 128 <= b.
Proof.
  intro H. destruct (N.lt_ge_cases b 128) as [L|L]; [|exact L].
  destruct (cls_ascii b L) as (_ & C & _). congruence.
Qed.

Lemma valid_strip_l a s : a < 128 -> valid (a :: s) -> valid s.
Proof.
  intros La (pcs & Hp & E). destruct pcs as [|c pcs]; [discriminate|].
  inversion Hp as [|? ? Hc Hp']; subst. rewrite chars_cons in E.
  destruct (encode_decomp c Hc) as (l & t & El & _ & _ & _ & Ht & _). rewrite El in E. cbn [app] in E.
  inversion E; subst l. destruct (cls_ascii a La) as (Ba & _). rewrite (Ht Ba) in *. cbn [app] in *.
  exists pcs. split; [assumption|reflexivity].
Qed.

Lemma valid_strip_r a s : a < 128 -> valid (s ++ [a]) -> valid s.
Proof.
  intros La (pcs & Hp & E). destruct (exists_last (l := pcs)) as (pcs' & c & ->).
  { intros ->. cbn in E. destruct s; discriminate. }
  apply Forall_app in Hp. destruct Hp as [Hp' Hc]. inversion Hc as [|? ? Hc' _]; subst.
  rewrite chars_app in E. cbn [chars flat_map] in E. rewrite app_nil_r in E.
  destruct (encode_decomp c Hc') as (l & t & El & _ & Hct & _ & _ & _). rewrite El in E.
  destruct t as [|t0 t] using rev_ind.
  - apply app_inj_tail in E. destruct E as [E _]. exists pcs'. split; [assumption|exact E].
  - exfalso. clear IHt. change (l :: t ++ [t0]) with ((l :: t) ++ [t0]) in E. rewrite app_assoc in E.
    apply app_inj_tail in E. destruct E as [_ E]. subst t0.
    apply Forall_app in Hct. destruct Hct as [_ Hct]. inversion Hct as [|? ? Hca _]; subst.
    apply is_cont_ge in Hca. lia.
Qed.

Lemma valid_mid A B lit : Forall (fun b => b < 128) A -> Forall (fun b => b < 128) B ->
  valid (A ++ lit ++ B) -> valid lit.
Proof.
  intros HA HB. induction HA as [|a A Ha HA IH]; cbn [app].
  - induction B as [|b B IHB] using rev_ind; [rewrite app_nil_r; auto|].
    apply Forall_app in HB. destruct HB as [HB Hb]. inversion Hb; subst.
    rewrite app_assoc. intro V. apply valid_strip_r in V; [|assumption]. auto.
  - intro V. apply valid_strip_l in V; [|assumption]. auto.
Qed.

(* the literal of a simple pattern that is valid UTF-8 is valid UTF-8 *)
Lemma simple_literal_valid ic pat r : RstrDefs.rstr_simple ic pat = Some r -> valid pat -> valid (RstrDefs.r_str r).
Proof.
  intros Hs V. destruct (RstrProps.classifier ic pat r Hs) as [E _]. rewrite E in V. unfold RstrDefs.spat_string in V.
  cbn [RstrDefs.spat_of RstrDefs.p_lbeg RstrDefs.p_wbeg RstrDefs.p_lit RstrDefs.p_wend RstrDefs.p_lend] in V.
  rewrite app_assoc in V.
  eapply valid_mid; [| |exact V].
  - apply Forall_app. split; [destruct (RstrDefs.r_lbeg r)|destruct (RstrDefs.r_wbeg r)]; repeat constructor; lia.
  - apply Forall_app. split; [destruct (RstrDefs.r_wend r)|destruct (RstrDefs.r_lend r)]; repeat constructor; lia.
Qed.

(* ---------------------------------------------------------------------------------------------- *)
(* 4. the matcher of ec_substitute answers with well-formed groups on every newline-terminated valid line *)

Lemma newline_byte_scalar l : Forall scalar l -> In 10 (chars l) -> In 10 l.
Proof.
  induction 1 as [|c l Hc Hl IH]; [intros []|]. rewrite chars_cons. intro H. apply in_app_or in H. destruct H as [H|H].
  - left. destruct (encode_cases c Hc) as [[_ E]|(_ & d0 & ds & E & Hd & Hds)]; rewrite E in H.
    + destruct H as [H|[]]. exact H.
    + exfalso. destruct H as [H|H]; [lia|]. rewrite Forall_forall in Hds. specialize (Hds _ H). cbn in Hds. lia.
  - right. apply IH, H.
Qed.

Lemma chars_nl l0 : chars (l0 ++ [10]) = chars l0 ++ [10].
Proof. rewrite chars_app. reflexivity. Qed.

Lemma scalar_nl l0 : Forall scalar l0 -> Forall scalar (l0 ++ [10]).
Proof. intro H. apply Forall_app. split; [exact H|]. constructor; [unfold scalar; lia|constructor]. Qed.

Lemma fastpath_wf ic pcs r l0 nb so eo :
  Forall scalar pcs -> ~ In 10 pcs -> RstrDefs.rstr_simple ic (chars pcs) = Some r ->
  Forall scalar l0 -> ~ In 10 l0 ->
  RstrDefs.rstr_find r (chars (l0 ++ [10])) nb false = RstrDefs.Found so eo ->
  Forall (wf_grp (l0 ++ [10])) (RstrDefs.rstr_groups ngrps so eo).
Proof.
  intros Hp Np Hs Hl Nl Hf.
  destruct (simple_literal_valid ic (chars pcs) r Hs (valid_chars pcs Hp)) as (lcs & Hlcs & Elit).
  assert (N1 : ~ In 10 (chars l0)) by (intro K; apply Nl, newline_byte_scalar; assumption).
  assert (N2 : ~ In 10 (chars pcs)) by (intro K; apply Np, newline_byte_scalar; assumption).
  destruct (Properties_C12.C12_fastpath_engine ic (chars pcs) r l0 lcs nb false 1 ngrps Hs N1 N2 Hl Elit Hlcs
              ltac:(lia) ltac:(unfold ngrps; lia)) as (rs & Hm & Hr).
  rewrite chars_nl in Hf. rewrite Hf in Hr.
  eapply (rset_find_wf 1 pcs rs _ (l0 ++ [10]) ngrps _ 0%Z); [exact Hp | exact Hm | apply scalar_nl, Hl | | lia].
  rewrite chars_nl. exact Hr.
Qed.

Theorem engine_find_wf d ic pcs l0 nb offs :
  Forall scalar pcs -> ~ In 10 pcs -> Forall scalar l0 -> ~ In 10 l0 ->
  engine_find d ic (chars pcs) (chars (l0 ++ [10])) nb = Some offs -> Forall (wf_grp (l0 ++ [10])) offs.
Proof.
  intros Hp Np Hl Nl. unfold SubstEngineDefs.engine_find, SubstEngineDefs.general_find, RstrDefs.rstr_make.
  destruct (RstrDefs.rstr_simple ic (chars pcs)) as [r|] eqn:Hs.
  - destruct (RstrDefs.rstr_find r (chars (l0 ++ [10])) nb false) as [so eo| |] eqn:Hf; try discriminate.
    intro H. inversion H; subst offs. apply (fastpath_wf ic pcs r l0 nb so eo); assumption.
  - destruct (rset_make [Some (chars pcs)] (icflag ic)) as [[rs|]| |] eqn:Hm; try discriminate.
    destruct (rset_find_d d rs (chars (l0 ++ [10])) ngrps (nbflag nb)) as [[[idx g]| |] c] eqn:Hf; try discriminate.
    destruct (0 <=? idx)%Z eqn:Hi; [|discriminate]. intro H. inversion H; subst offs.
    eapply rset_find_wf; [exact Hp | exact Hm | apply scalar_nl, Hl | exact Hf | lia].
Qed.

(* the general engine alone needs neither the newline hypotheses nor the shape of the line *)
Theorem engine_find_general_wf d ic pcs cs nb offs :
  Forall scalar pcs -> Forall scalar cs -> RstrDefs.rstr_simple ic (chars pcs) = None ->
  engine_find d ic (chars pcs) (chars cs) nb = Some offs -> Forall (wf_grp cs) offs.
Proof.
  intros Hp Hl Hs. unfold SubstEngineDefs.engine_find, SubstEngineDefs.general_find, RstrDefs.rstr_make. rewrite Hs.
  destruct (rset_make [Some (chars pcs)] (icflag ic)) as [[rs|]| |] eqn:Hm; try discriminate.
  destruct (rset_find_d d rs (chars cs) ngrps (nbflag nb)) as [[[idx g]| |] c] eqn:Hf; try discriminate.
  destruct (0 <=? idx)%Z eqn:Hi; [|discriminate]. intro H. inversion H; subst offs.
  eapply rset_find_wf; [exact Hp | exact Hm | exact Hl | exact Hf | lia].
Qed.

(* ---------------------------------------------------------------------------------------------- *)
(* 5. the scan of ec_substitute over lines  body ++ "\n"  (body without newline): what is searched next is again such
   a line, or the scan stops *)

Lemma skipn_S_tl {A} (l : list A) b c l' : skipn b l = c :: l' -> skipn (S b) l = l'.
Proof. intro H. replace (S b) with (b + 1)%nat by lia. rewrite <- skipn_skipn, H. reflexivity. Qed.

Lemma one_match_suffix l rs offs o ln2 : Forall scalar l -> Forall scalar rs -> Forall (wf_grp l) offs ->
  one_match (chars rs) (chars l) offs = Some (o, ln2) ->
  valid o /\ exists j, ln2 = chars (skipn j l).
Proof.
  intros Hl Hrs Ho. unfold one_match.
  destruct (nth_wf l offs 0 Ho) as [->|(a & b & Hab & Hb & ->)]; [cbn; discriminate|].
  destruct (_ || _); [discriminate|].
  destruct (expand (chars rs) (chars l) offs) as [t|] eqn:Et; [|discriminate].
  assert (Ht : valid t) by (eapply (expand_valid (fun _ _ => None) false l offs Hl Ho (length rs) rs); eauto).
  rewrite !Nat2Z.id, firstn_off_of, skipn_off_of.
  assert (Hpre : valid (chars (firstn a l))) by (apply valid_chars, Forall_firstn', Hl).
  assert (Hl2 : Forall scalar (skipn b l)) by (apply Forall_skipn', Hl).
  destruct (Z.of_nat (off_of l b) <=? Z.of_nat (off_of l a))%Z.
  - unfold step_char. destruct (skipn b l) as [|c0 l'] eqn:El.
    + cbn. discriminate.
    + inversion Hl2 as [|? ? Hc0 Hl']; subst. rewrite chars_cons.
      destruct (uc_len_code_encode c0 (chars l') Hc0) as [Hlen _]. rewrite Hlen.
      pose proof (encode_nonempty c0 Hc0) as Hne.
      replace (Nat.max 1 (length (encode c0))) with (length (encode c0)) by lia.
      rewrite app_length.
      destruct (length (encode c0) + length (chars l') <? length (encode c0))%nat eqn:E; [lia|].
      rewrite firstn_app_exact, skipn_app_exact. intro H. inversion H; subst o ln2. split.
      * apply valid_app; [exact Hpre|]. apply valid_app; [exact Ht|]. now apply valid_encode.
      * exists (S b). rewrite (skipn_S_tl _ _ _ _ El). reflexivity.
  - intro H. inversion H; subst o ln2. split.
    + now apply valid_app.
    + exists b. reflexivity.
Qed.

(* a suffix of  body ++ "\n"  on which the scan does not stop is  body' ++ "\n"  *)
Lemma suffix_goes_on gflag l0 j : Forall scalar l0 -> ~ In 10 l0 ->
  stops gflag (chars (skipn j (l0 ++ [10]))) = false ->
  exists l1, skipn j (l0 ++ [10]) = l1 ++ [10] /\ Forall scalar l1 /\ ~ In 10 l1.
Proof.
  intros Hl Nl Hst. destruct (Nat.lt_ge_cases j (length l0)) as [L|L].
  - exists (skipn j l0). rewrite skipn_app. replace (j - length l0)%nat with 0%nat by lia. cbn [skipn].
    split; [reflexivity|]. split; [apply Forall_skipn', Hl|].
    intro K. apply Nl. rewrite <- (firstn_skipn j l0). apply in_or_app. right. exact K.
  - exfalso. assert (E : skipn j l0 = []) by (apply skipn_all2; lia). rewrite skipn_app, E in Hst. cbn [app] in Hst.
    destruct (j - length l0)%nat as [|[|m]]; vm_compute in Hst; discriminate.
Qed.

Section ScanNl.
  Variable find : bytes -> bool -> option (list grp).
  Variable gflag : bool.
  Variable rs : list N.
  Hypothesis Hrs : Forall scalar rs.
  Hypothesis find_wf : forall l0 nb offs, Forall scalar l0 -> ~ In 10 l0 ->
    find (chars (l0 ++ [10])) nb = Some offs -> Forall (wf_grp (l0 ++ [10])) offs.

  Lemma scan_valid_nl : forall fuel nb l0 out k, Forall scalar l0 -> ~ In 10 l0 ->
    scan find (chars rs) gflag fuel nb (chars (l0 ++ [10])) = Some (Some (out, k)) -> valid out.
  Proof.
    induction fuel as [|f IH]; intros nb l0 out k Hl Nl H; [discriminate|]. cbn [scan] in H.
    pose proof (scalar_nl l0 Hl) as Hl'.
    destruct (find (chars (l0 ++ [10])) nb) as [offs|] eqn:Ef.
    - pose proof (find_wf l0 nb offs Hl Nl Ef) as Hwf.
      destruct (one_match (chars rs) (chars (l0 ++ [10])) offs) as [[o ln2]|] eqn:Em; [|discriminate].
      destruct (one_match_suffix _ rs offs o ln2 Hl' Hrs Hwf Em) as (Hvo & j & ->).
      destruct (stops gflag (chars (skipn j (l0 ++ [10])))) eqn:Hst.
      + inversion H; subst. apply valid_app; [exact Hvo|]. apply valid_chars, Forall_skipn', Hl'.
      + destruct (suffix_goes_on gflag l0 j Hl Nl Hst) as (l1 & E1 & Hl1 & Nl1). rewrite E1 in H.
        destruct (scan find (chars rs) gflag f true (chars (l1 ++ [10]))) as [[[o2 k2]|]|] eqn:Es; try discriminate.
        inversion H; subst. apply valid_app; [exact Hvo|]. eapply IH; eassumption.
    - inversion H; subst. now apply valid_chars.
  Qed.

  Lemma subst_line_valid_nl l0 new : Forall scalar l0 -> ~ In 10 l0 ->
    subst_line find (chars rs) gflag (chars (l0 ++ [10])) = Changed new -> valid new.
  Proof.
    intros Hl Nl. unfold subst_line.
    destruct (scan find (chars rs) gflag (S (length (chars (l0 ++ [10])))) false (chars (l0 ++ [10]))) as [[[o [|k]]|]|] eqn:E; try discriminate.
    intro H. inversion H; subst. exact (scan_valid_nl _ _ l0 _ _ Hl Nl E).
  Qed.
End ScanNl.

(* ---------------------------------------------------------------------------------------------- *)
(* 6. the composed theorems *)

(* C14_utf8 for the modelled matcher: a valid pattern, a valid replacement and a valid line (one newline, at the end)
   give a valid rewritten line; every recursion limit d, ignore-case on or off, g or not *)
Theorem utf8_engine d ic gflag pcs rs cs new :
  Forall scalar pcs -> ~ In 10 pcs -> Forall scalar rs -> Forall scalar cs -> ~ In 10 cs ->
  subst_line (engine_find d ic (chars pcs)) (chars rs) gflag (chars (cs ++ [10])) = Changed new -> valid new.
Proof.
  intros Hp Np Hr Hc Nc. apply subst_line_valid_nl; try assumption.
  intros l0 nb offs Hl Nl. apply engine_find_wf; assumption.
Qed.

(* the same for a pattern that goes to the general engine (anything but [^][\<]literal[\>][$]): no hypothesis on newlines,
   any valid line.  wf_find of C14_utf8 holds as it stands. *)
Theorem wf_find_general d ic pcs : Forall scalar pcs -> RstrDefs.rstr_simple ic (chars pcs) = None ->
  wf_find (engine_find d ic (chars pcs)).
Proof. intros Hp Hs l nb offs Hl. apply engine_find_general_wf; assumption. Qed.

Theorem utf8_engine_general d ic gflag pcs rs cs new :
  Forall scalar pcs -> RstrDefs.rstr_simple ic (chars pcs) = None -> Forall scalar rs -> Forall scalar cs ->
  subst_line (engine_find d ic (chars pcs)) (chars rs) gflag (chars cs) = Changed new -> valid new.
Proof. intros Hp Hs Hr Hc. apply utf8_preserved; try assumption. apply wf_find_general; assumption. Qed.

(* C14_structure for the modelled matcher, with what the engine theorems add: in every segment of the chain the match
   offsets are the answers of the modelled rstr_find, and all sixteen group pairs handed to replace() are unset or
   whole-character spans inside the searched text *)
Theorem structure_engine d ic gflag pcs rep cs new :
  Forall scalar pcs -> ~ In 10 pcs -> Forall scalar cs -> ~ In 10 cs ->
  subst_line (engine_find d ic (chars pcs)) rep gflag (chars (cs ++ [10])) = Changed new ->
  (exists segs tail, segs <> [] /\ Chain (engine_find d ic (chars pcs)) rep gflag false (chars (cs ++ [10])) segs tail /\
     chars (cs ++ [10]) = flat_old segs ++ tail /\ new = flat_new segs ++ tail /\ (gflag = false -> length segs = 1%nat)) /\
  (forall l0 nb offs, Forall scalar l0 -> ~ In 10 l0 ->
     engine_find d ic (chars pcs) (chars (l0 ++ [10])) nb = Some offs -> Forall (wf_grp (l0 ++ [10])) offs).
Proof.
  intros Hp Np Hc Nc H. split; [exact (structure _ _ _ _ _ H)|].
  intros l0 nb offs Hl Nl. apply engine_find_wf; assumption.
Qed.

(* non-vacuity: s/a*b/[\0]/g on "xaab ab" through the general engine, s/é/e/ through the fast path *)
Example engine_nonvacuous :
  subst_line (engine_find 256 false (chars [97; 42; 98])) (chars [91; 92; 48; 93]) true (chars ([120; 97; 97; 98; 32; 97; 98] ++ [10]))
    = Changed (chars [120; 91; 97; 97; 98; 93; 32; 91; 97; 98; 93; 10]) /\
  subst_line (engine_find 256 false (chars [233])) (chars [101]) false (chars ([99; 97; 102; 233] ++ [10]))
    = Changed (chars [99; 97; 102; 101; 10]).
Proof. split; vm_compute; reflexivity. Qed.

Print Assumptions utf8_engine.
Print Assumptions utf8_engine_general.
Print Assumptions structure_engine.
