(* TrViOpPure.v -- C08: the helpers of the operators of /repo/vi.c that touch no buffer, on the translated C text (whitelist
   tools/c2clite.d/99zzzzz_viops.list): swap, linecount, charcount, join_spaces.  Byte-level models (vlinecount, charcount_b, join_spaces_b)
   with their ties to the character-level functions of the C08 model ViDefs.v (count_nl, join_spaces). *)
From Coq Require Import List ZArith NArith Bool Lia.
From NV Require Import Bytes UcDefs CLite CLiteProps GenCFuncs CLiteTac TrUc.
From NV Require TrMot.
From NV Require MotDefs ViDefs.
Import ListNotations.
Local Open Scope Z_scope.

Lemma ld1 (m : mem) b v : nth_error m b = Some ([v] : block) -> load m b 0 = Ok v.
Proof. intro H. unfold load. rewrite H. reflexivity. Qed.

(* ------------------------------------------------------------------ swap(int *a, int *b) *)
Theorem tr_swap m ba bb x y d fuel : cell_at m ba x -> cell_at m bb y -> ba <> bb -> int_ok x -> int_ok y ->
  callf cprog fuel (S d) F_vi_swap [VPtr ba 0; VPtr bb 0] m = Ok (VUndef, upd (upd m ba [VInt y]) bb [VInt x]).
Proof.
  intros Ha Hb Hne Hx Hy. enter F_vi_swap cf_vi_swap. xstep. rewrite (ld1 m ba _ Ha). xstep. rewrite (wrap_int_ok x Hx).
  rewrite (ld1 m bb _ Hb). xstep. rewrite !(wrap_int_ok y Hy), (store_cell m ba x y Ha). xstep. rewrite ?(wrap_int_ok x Hx).
  assert (Hb' : cell_at (upd m ba [VInt y]) bb y).
  { unfold cell_at in *. rewrite mem_upd_other; [exact Hb| |congruence]. apply nth_error_Some. congruence. }
  rewrite (store_cell _ bb y x Hb'). xstep. reflexivity.
Qed.

(* ------------------------------------------------------------------ linecount(s): for (n = 0; s; n++) if ((s = strchr(s, '\n'))) s++; *)
Fixpoint nlcount (s : bytes) : nat := match s with [] => O | c :: r => ((if (c =? 10)%N then 1 else 0) + nlcount r)%nat end.
(* NULL: 0; a string: the number of its newlines + 1 *)
Definition vlinecount (os : option bytes) : Z := match os with None => 0 | Some s => Z.of_nat (nlcount s) + 1 end.

Lemma nlcount_find t : match find_byte 10 t with
                       | Some k => nlcount t = S (nlcount (skipn (S k) t))
                       | None => nlcount t = O end.
Proof.
  induction t as [|c t IH]; [reflexivity|]. cbn [find_byte nlcount]. destruct (c =? 10)%N; [reflexivity|].
  destruct (find_byte 10 t) as [k|]; cbn [skipn]; [exact IH|exact IH].
Qed.
Lemma nlcount_le t : (nlcount t <= length t)%nat.
Proof. induction t as [|c t IH]; cbn [nlcount length]; [lia|]. destruct (c =? 10)%N; lia. Qed.

Definition lcv_loop : stmt := match fn_body cf_vi_linecount with SSeq (SSeq _ w) _ => w | _ => SSkip end.
Lemma lcv_loop_ok call m b s : str_at m b s -> nonul s -> Z.of_nat (length s) < 2147483647 ->
  forall k o n fuel', nlcount (skipn o s) = k -> (o <= length s)%nat -> 0 <= n -> n + Z.of_nat (length s - o) < 2147483647 -> (S k < fuel')%nat ->
  exec call fuel' lcv_loop (mkst [VPtr b (Z.of_nat o); VInt n] m)
  = ONormal (mkst [VInt 0; VInt (n + Z.of_nat k + 1)] m).
Proof.
  intros Hs Hn Hmax. induction k as [|k IH]; intros o n fuel' Hk Ho Hn0 Hfit Hf; (destruct fuel' as [|fuel']; [lia|]);
    unfold lcv_loop; cbn [fn_body cf_vi_linecount]; rewrite exec_for; xstep;
    change 10 with (Z.of_N 10); rewrite (builtin_strchr m b s o 10 Hs Hn Ho) by lia; change (Z.of_N 10) with 10; xstep;
    pose proof (nlcount_find (skipn o s)) as Hfind; destruct (find_byte 10 (skipn o s)) as [j|] eqn:E.
  - rewrite Hk in Hfind. discriminate.
  - xstep. rewrite chk_I32 by lia. xstep. destruct fuel' as [|fuel']; [lia|]. rewrite exec_for. xstep.
    rewrite Z.add_0_r. reflexivity.
  - destruct (find_byte_lt _ _ _ E) as [Hj _]. rewrite skipn_length in Hj. xstep. rewrite chk_I32 by lia. xstep.
    rewrite Hk in Hfind. apply eq_add_S in Hfind. rewrite skipn_skipn in Hfind.
    replace (Z.of_nat o + Z.of_nat j + 1) with (Z.of_nat (o + S j)) by lia.
    specialize (IH (o + S j)%nat (n + 1) fuel' (eq_sym Hfind) ltac:(lia) ltac:(lia) ltac:(lia) ltac:(lia)).
    unfold lcv_loop in IH; cbn [fn_body cf_vi_linecount] in IH. rewrite IH. replace (n + Z.of_nat (S k) + 1) with (n + 1 + Z.of_nat k + 1) by lia. reflexivity.
  - rewrite Hk in Hfind. discriminate.
Qed.
Theorem tr_linecount m b s d fuel : str_at m b s -> nonul s -> Z.of_nat (length s) < 2147483647 -> (nlcount s + 1 < fuel)%nat ->
  callf cprog fuel (S d) F_vi_linecount [VPtr b 0] m = Ok (VInt (vlinecount (Some s)), m).
Proof.
  intros Hs Hn Hmax Hf. enter F_vi_linecount cf_vi_linecount. xstep.
  pose proof (lcv_loop_ok (callf cprog fuel d) m b s Hs Hn Hmax _ O 0 fuel eq_refl ltac:(lia) ltac:(lia) ltac:(lia) ltac:(cbn [skipn]; lia)) as X.
  unfold lcv_loop in X; cbn [fn_body cf_vi_linecount] in X. change (Z.of_nat 0) with 0 in X. rewrite X. xstep. reflexivity.
Qed.
Theorem tr_linecount_null m d fuel : (0 < fuel)%nat -> callf cprog fuel (S d) F_vi_linecount [VInt 0] m = Ok (VInt (vlinecount None), m).
Proof. intro Hf. destruct fuel as [|fuel]; [lia|]. enter F_vi_linecount cf_vi_linecount. xstep. rewrite exec_for. xstep. reflexivity. Qed.

(* ------------------------------------------------------------------ charcount(text, post) *)
(* the position behind the last newline among the bytes t (which start at index i), nl when there is none *)
Fixpoint last_nl (t : bytes) (i nl : nat) : nat :=
  match t with [] => nl | c :: r => last_nl r (S i) (if (c =? 10)%N then S i else nl) end.
Definition charcount_b (text post : bytes) : Z :=
  if (length text <? length post)%nat then 0
  else Z.of_nat (uc_slen (skipn (last_nl (firstn (length text - length post) text) 0 0) text)) - Z.of_nat (uc_slen post).
Lemma last_nl_range t : forall i nl, (nl <= i)%nat -> (last_nl t i nl <= i + length t)%nat.
Proof.
  induction t as [|c t IH]; intros i nl H; cbn [last_nl length]; [lia|].
  destruct (c =? 10)%N; [specialize (IH (S i) (S i) ltac:(lia))|specialize (IH (S i) nl ltac:(lia))]; lia.
Qed.
Lemma sx_eq10 : forall c, (c < 256)%N -> (wrap I32 (wrap I8 (Z.of_N c)) =? 10) = (c =? 10)%N.
Proof. byte_fact. Qed.
Definition cc_loop : stmt := match fn_body cf_charcount with SSeq _ (SSeq _ (SSeq _ (SSeq _ (SSeq (SSeq _ w) _)))) => w | _ => SSkip end.
Lemma cc_loop_ok call m bt text vp tl pl : str_at m bt text -> nonul text -> Z.of_nat (length text) <= 2147483647 ->
  0 <= pl -> 0 <= tl - pl <= Z.of_nat (length text) ->
  forall k i nl fuel', (k = Z.to_nat (tl - pl) - i)%nat -> (Z.of_nat i <= tl - pl) -> (k < fuel')%nat ->
  exec call fuel' cc_loop (mkst [VPtr bt 0; vp; VInt tl; VInt pl; VPtr bt (Z.of_nat nl); VInt (Z.of_nat i)] m)
  = ONormal (mkst [VPtr bt 0; vp; VInt tl; VInt pl; VPtr bt (Z.of_nat (last_nl (firstn k (skipn i text)) i nl)); VInt (tl - pl)] m).
Proof.
  intros Hs Hn Hmax Hpl Hr. pose proof (nonul_lt256 text Hn) as H256.
  induction k as [|k IH]; intros i nl fuel' Hk Hi Hf; (destruct fuel' as [|fuel']; [lia|]);
    unfold cc_loop; cbn [fn_body cf_charcount]; rewrite exec_for; xstep; rewrite chk_I32 by lia; xstep.
  - destruct (Z.ltb_spec (Z.of_nat i) (tl - pl)); [lia|]. xstep. cbn [firstn last_nl]. replace (tl - pl) with (Z.of_nat i) by lia. reflexivity.
  - destruct (Z.ltb_spec (Z.of_nat i) (tl - pl)); [|lia]. xstep.
    rewrite (load_str m bt text _ i Hs) by lia. xstep. rewrite (sx_eq10 _ (nthb_lt256 text i H256)).
    rewrite (skipn_cons_nthb text i) by lia. cbn [firstn last_nl].
    specialize (IH (S i) (if (nthb text i =? 10)%N then S i else nl) fuel' ltac:(lia) ltac:(lia) ltac:(lia)).
    unfold cc_loop in IH; cbn [fn_body cf_charcount] in IH.
    destruct (nthb text i =? 10)%N; xstep; rewrite chk_I32 by lia; xstep.
    + replace (0 + 1 * Z.of_nat i + 1 * 1) with (Z.of_nat (S i)) by lia. replace (Z.of_nat i + 1) with (Z.of_nat (S i)) by lia. exact IH.
    + replace (Z.of_nat i + 1) with (Z.of_nat (S i)) by lia. exact IH.
Qed.
Theorem tr_charcount m bt bp text post d fuel : str_at m bt text -> str_at m bp post -> nonul text -> nonul post ->
  Z.of_nat (length text) <= 2147483647 -> Z.of_nat (length post) <= 2147483647 -> (length text < fuel)%nat -> (length post < fuel)%nat ->
  callf cprog fuel (S (S (S d))) F_charcount [VPtr bt 0; VPtr bp 0] m = Ok (VInt (charcount_b text post), m).
Proof.
  intros Ht Hp Hnt Hnp Hmt Hmp Hft Hfp. enter F_charcount cf_charcount. xstep.
  change 0 with (Z.of_nat 0). rewrite (builtin_strlen m bt text 0 Ht Hnt) by lia. xstep.
  rewrite (builtin_strlen m bp post 0 Hp Hnp) by lia. xstep. change (Z.of_nat 0) with 0. rewrite !Nat.sub_0_r.
  rewrite !wrap_I32_id by lia. unfold charcount_b.
  destruct (Z.ltb_spec (Z.of_nat (length text)) (Z.of_nat (length post))) as [L|L]; xstep.
  - destruct (Nat.ltb_spec (length text) (length post)); [reflexivity|lia].
  - destruct (Nat.ltb_spec (length text) (length post)); [lia|].
    pose proof (cc_loop_ok (callf cprog fuel (S (S d))) m bt text (VPtr bp 0) (Z.of_nat (length text)) (Z.of_nat (length post)) Ht Hnt Hmt
                  ltac:(lia) ltac:(lia) _ O O fuel eq_refl ltac:(lia) ltac:(lia)) as X.
    unfold cc_loop in X; cbn [fn_body cf_charcount] in X. change (Z.of_nat 0) with 0 in X. rewrite X. clear X. xstep.
    replace (Z.to_nat (Z.of_nat (length text) - Z.of_nat (length post)) - 0)%nat with (length text - length post)%nat by lia. cbn [skipn].
    set (nl := last_nl _ 0 0).
    assert (Hnl : (nl <= length text)%nat).
    { pose proof (last_nl_range (firstn (length text - length post) text) 0 0 ltac:(lia)) as H1. rewrite firstn_length in H1. unfold nl. lia. }
    rewrite (tr_uc_slen m bt text nl d fuel Ht Hnt Hnl Hft Hmt). xstep.
    change 0 with (Z.of_nat 0). rewrite (tr_uc_slen m bp post 0 d fuel Hp Hnp ltac:(lia) Hfp Hmp). xstep. cbn [skipn].
    assert (H1 : (uc_slen (skipn nl text) <= length text)%nat).
    { rewrite TrMot.uc_slen_chop by (apply Forall_skipn'; exact Hnt). pose proof (TrMot.chop_length_le (skipn nl text) ltac:(apply Forall_skipn'; exact Hnt)).
      rewrite skipn_length in *. lia. }
    assert (H2 : (uc_slen post <= length post)%nat).
    { rewrite TrMot.uc_slen_chop by exact Hnp. apply TrMot.chop_length_le. exact Hnp. }
    rewrite chk_I32 by lia. reflexivity.
Qed.

(* ------------------------------------------------------------------ join_spaces(prev, next) *)
Definition join_spaces_b (prev next : bytes) : Z :=
  if (nthb prev 0 =? 0)%N then 0
  else if (nthb prev (length prev - 1) =? 32)%N || (nthb next 0 =? 41)%N then 0
  else if (nthb prev (length prev - 1) =? 46)%N then 2 else 1.
Lemma sx_i8_nz : forall c, (c < 256)%N -> (wrap I8 (Z.of_N c) =? 0) = (c =? 0)%N.
Proof. byte_fact. Qed.
Lemma sx_eq32 : forall c, (c < 256)%N -> (wrap I32 (wrap I8 (Z.of_N c)) =? 32) = (c =? 32)%N.
Proof. byte_fact. Qed.
Lemma sx_eq41 : forall c, (c < 256)%N -> (wrap I32 (wrap I8 (Z.of_N c)) =? 41) = (c =? 41)%N.
Proof. byte_fact. Qed.
Lemma sx_eq46 : forall c, (c < 256)%N -> (wrap I32 (wrap I8 (Z.of_N c)) =? 46) = (c =? 46)%N.
Proof. byte_fact. Qed.
Theorem tr_join_spaces m bp bn prev next o d fuel : str_at m bp prev -> str_at m bn next -> nonul prev -> nonul next ->
  Z.of_nat (length prev) <= 2147483647 -> (o <= length next)%nat ->
  callf cprog fuel (S d) F_join_spaces [VPtr bp 0; VPtr bn (Z.of_nat o)] m = Ok (VInt (join_spaces_b prev (skipn o next)), m).
Proof.
  intros Hp Hx Hnp Hnn Hmp Ho. pose proof (nonul_lt256 prev Hnp) as Hp256. pose proof (nonul_lt256 next Hnn) as Hn256.
  enter F_join_spaces cf_join_spaces. xstep.
  change 0 with (Z.of_nat 0) at 1. rewrite (builtin_strlen m bp prev 0 Hp Hnp) by lia. xstep. rewrite Nat.sub_0_r, wrap_I32_id by lia.
  rewrite (load_str m bp prev _ O Hp) by lia. xstep. rewrite (sx_i8_nz _ (nthb_lt256 prev 0 Hp256)). unfold join_spaces_b.
  destruct (nthb prev 0 =? 0)%N eqn:E0; xstep; [reflexivity|].
  assert (Hl : (1 <= length prev)%nat) by (destruct prev; [discriminate E0|cbn; lia]).
  rewrite chk_I32 by lia. xstep. rewrite (load_str m bp prev _ (length prev - 1) Hp) by lia. xstep.
  rewrite (sx_eq32 _ (nthb_lt256 prev _ Hp256)).
  assert (Hnx : nthb (skipn o next) 0 = nthb next o) by (rewrite nthb_skipn; f_equal; lia).
  rewrite Hnx.
  destruct (nthb prev (length prev - 1) =? 32)%N; xstep; [reflexivity|].
  rewrite (load_str m bn next _ o Hx) by lia. xstep. rewrite (sx_eq41 _ (nthb_lt256 next o Hn256)).
  destruct (nthb next o =? 41)%N; xstep; [reflexivity|].
  rewrite chk_I32 by lia. xstep. rewrite (load_str m bp prev _ (length prev - 1) Hp) by lia. xstep.
  rewrite (sx_eq46 _ (nthb_lt256 prev _ Hp256)). destruct (nthb prev (length prev - 1) =? 46)%N; xstep; reflexivity.
Qed.

(* ---- the byte-level rule is the rule of the interpreter's join_spaces (ViDefs.v) on the characters *)
Lemma nthb_last (s : bytes) : nthb s (length s - 1) = last s 0%N.
Proof.
  induction s as [|c s IH]; [reflexivity|]. cbn [length]. destruct s as [|c' s']; [reflexivity|].
  replace (S (length (c' :: s')) - 1)%nat with (S (length (c' :: s') - 1)) by (cbn [length]; lia).
  change (nthb (c :: c' :: s') (S (length (c' :: s') - 1))) with (nthb (c' :: s') (length (c' :: s') - 1)). rewrite IH. reflexivity.
Qed.
Lemma last_app_ne (a b : bytes) : b <> [] -> last (a ++ b) 0%N = last b 0%N.
Proof.
  intro H. induction a as [|x a IH]; [reflexivity|]. cbn [app]. destruct (a ++ b) eqn:E; [destruct a; [cbn in E; congruence|discriminate E]|].
  cbn [last]. cbn [last] in IH. exact IH.
Qed.
Lemma flat_ne (l : list MotDefs.chr) : l <> [] -> Forall (fun c => c <> []) l -> ViDefs.flat l <> [].
Proof. intros H F. destruct l as [|c r]; [congruence|]. inversion F; subst. unfold ViDefs.flat. cbn [concat]. destruct c; [congruence|discriminate]. Qed.
Lemma flat_last (l : list MotDefs.chr) : l <> [] -> Forall (fun c => c <> []) l -> last (ViDefs.flat l) 0%N = ViDefs.last_byte l.
Proof.
  unfold ViDefs.last_byte, ViDefs.flat. induction l as [|c r IH]; intros H F; [congruence|]. inversion F as [|? ? Hc Hr]; subst. cbn [concat].
  destruct r as [|c' r']; [cbn [concat last]; rewrite app_nil_r; reflexivity|].
  rewrite last_app_ne by (apply (flat_ne (c' :: r')); [discriminate|exact Hr]). rewrite IH by (try discriminate; exact Hr). reflexivity.
Qed.
Theorem join_spaces_model (prev next : list MotDefs.chr) : Forall (fun c => c <> []) prev -> Forall (fun c => c <> []) next ->
  nonul (ViDefs.flat prev) -> join_spaces_b (ViDefs.flat prev) (ViDefs.flat next) = Z.of_nat (ViDefs.join_spaces prev next).
Proof.
  intros Fp Fn Hn. unfold join_spaces_b, ViDefs.join_spaces. destruct prev as [|c r].
  - reflexivity.
  - cbn [ViDefs.is_nil]. assert (Hne : ViDefs.flat (c :: r) <> []) by (apply flat_ne; [discriminate|exact Fp]).
    assert (H0 : (nthb (ViDefs.flat (c :: r)) 0 =? 0)%N = false).
    { destruct (ViDefs.flat (c :: r)) as [|x t] eqn:E; [congruence|]. inversion Hn as [|? ? [Hx _] _]; subst. apply N.eqb_neq. cbn. lia. }
    rewrite H0, nthb_last, (flat_last (c :: r)) by (try discriminate; exact Fp).
    assert (Hx : nthb (ViDefs.flat next) 0 = MotDefs.b0 (hd [] next)).
    { destruct next as [|[|x c'] t]; [reflexivity| |reflexivity]. inversion Fn; congruence. }
    rewrite Hx. destruct (_ || _); [reflexivity|]. destruct (_ =? 46)%N; reflexivity.
Qed.
