(* ExSpec.v -- the reference line editor of C06 in the property's own words.
   State: the lines (each with a ghost identity), the current line, marks that designate identities,
   registers.  A command with resolved range [b,e) and text t yields  firstn b lines ++ t ++ skipn e lines;
   what is printed and the new current line are given per command. *)
From Coq Require Import List NArith ZArith Bool.
From NV Require Import Bytes ExDefs.
Import ListNotations.
Local Open Scope Z_scope.

Definition splice {A} (b e : nat) (t l : list A) : list A := firstn b l ++ t ++ skipn e l.

(* "every line outside [b,e) keeps its bytes, its place in the order and its identity" *)
Definition frame (b e : Z) (l l' : list line) : Prop :=
  exists new, l' = splice (Z.to_nat b) (Z.to_nat e) new l.

(* a mark (row, ghost identity) designates the line with that identity *)
Definition mark_ok (ids : list nat) (m : Z * option nat) : Prop :=
  forall i, snd m = Some i -> 0 <= fst m /\ nth_error ids (Z.to_nat (fst m)) = Some i.
Definition marks_agree (l : lbuf) : Prop := Forall (mark_ok (map lid (lns l))) (marks l).

(* the reference semantics of the text-changing commands on (texts, current line), given the resolved
   range [b,e) (0-based, half open) and the text t; clampz keeps the current line inside the buffer *)
Definition clampz (n v : Z) : Z := Z.max 0 (Z.min (n - 1) v).
Definition ref_append (l : list bytes) (b e : Z) (t : list bytes) : list bytes * Z :=
  let pos := if b <? e then b + 1 else b in
  let l' := splice (Z.to_nat pos) (Z.to_nat pos) t l in
  (l', clampz (Z.of_nat (length l')) (pos + Z.of_nat (length t) - 1)).
Definition ref_insert (l : list bytes) (b e : Z) (t : list bytes) : list bytes * Z :=
  let l' := splice (Z.to_nat b) (Z.to_nat b) t l in
  (l', clampz (Z.of_nat (length l')) (b + Z.of_nat (length t) - 1)).
Definition ref_change (l : list bytes) (b e : Z) (t : list bytes) : list bytes * Z :=
  let l' := splice (Z.to_nat b) (Z.to_nat e) t l in
  (l', clampz (Z.of_nat (length l')) (b + Z.of_nat (length t) - 1)).
Definition ref_delete (l : list bytes) (b e : Z) : list bytes * Z :=
  let l' := splice (Z.to_nat b) (Z.to_nat e) [] l in
  (l', clampz (Z.of_nat (length l')) b).
Definition ref_put (l : list bytes) (b e : Z) (t : list bytes) : list bytes * Z :=
  let l' := splice (Z.to_nat e) (Z.to_nat e) t l in
  (l', clampz (Z.of_nat (length l')) (e + Z.of_nat (length t) - 1)).
(* read: like put, but on the empty buffer the text goes to the top whatever the address, and the current line is
   not clamped to the last line *)
Definition ref_read (l : list bytes) (b e : Z) (t : list bytes) : list bytes * Z :=
  let pos := if Z.of_nat (length l) =? 0 then 0 else e in
  (splice (Z.to_nat pos) (Z.to_nat pos) t l, Z.max 0 (e + Z.of_nat (length t) - 1)).
(* what yank and delete store: the addressed lines, each with its newline *)
Definition ref_range (l : list bytes) (b e : Z) : bytes :=
  join_lines (firstn (Z.to_nat (e - b)) (skipn (Z.to_nat b) l)).
Definition ref_print (l : list bytes) (b e : Z) : list bytes * Z :=
  (firstn (Z.to_nat (e - b)) (skipn (Z.to_nat b) l), Z.max b (e - 1)).

Definition texts (s : st) : list bytes := map ltxt (lns (lb s)).

(* ------------------------------------------------------------------------------------------ *)
(* The reference line editor on WHOLE SCRIPTS (C06_refines_spec).
   State [rst]: what the property talks about -- the texts, the current line, what was printed -- plus what
   the listed commands need to be defined at all: the registers, the rows the marks designate, the
   remembered search pattern, the pending input (command lines and text blocks) and the quit / writeany flags.
   No identities, no ln_glob bits, no undo history, no sequence numbers, no error flags.
   Concrete syntax: a command line is cut into (address, command word, argument, text block) by the pure
   functions ex_loc / ex_cmd / ex_idx / ex_arg / ex_txt of ExDefs.v (they look at bytes only); an address string
   is resolved by ex_region evaluated on the reference state ([ref_region]; its outcomes are characterised by
   C06_resolve_bounds).  Everything a command DOES is stated here with the functions above (ref_append ...).
   [None] = the script leaves the command set of C06: global (C15), substitute, undo (C04), write (C02), the
   commands ExDefs.v does not model, and the constructs it flags as outside its fragment. *)
Record rst := mkrst {
  r_txt : list bytes; r_cur : Z; r_out : list oitem; r_regs : list (N * bytes);
  r_marks : list Z; r_kwd : bytes; r_kwddir : Z; r_inp : list bytes; r_quit : bool; r_wa : bool }.

Definition abs (s : st) : rst :=
  mkrst (texts s) (xrow s) (out s) (regs s) (map fst (marks (lb s))) (kwd s) (kwddir s) (inp s) (xquit s) (xwa s).

(* the reference state as an ExDefs state (fresh identities 0, no history): only used to evaluate ex_region *)
Definition conc (r : rst) : st :=
  mkst (mklb (map (mkline 0 0%N) (r_txt r)) (map (fun z => (z, @None nat)) (r_marks r)) [] 0 0 0 0 0)
       (r_cur r) (r_regs r) (r_kwd r) (r_kwddir r) (r_out r) (r_inp r) (r_quit r) (r_wa r) 0 None 0%N.

Definition r_addr (r : rst) (c : Z) (k : bytes) (d : Z) : rst :=
  mkrst (r_txt r) c (r_out r) (r_regs r) (r_marks r) k d (r_inp r) (r_quit r) (r_wa r).
Definition r_cur_set (r : rst) (c : Z) : rst := r_addr r c (r_kwd r) (r_kwddir r).
Definition r_set (r : rst) (t : list bytes) (c : Z) (m : list Z) : rst :=
  mkrst t c (r_out r) (r_regs r) m (r_kwd r) (r_kwddir r) (r_inp r) (r_quit r) (r_wa r).
Definition r_emit (r : rst) (o : list oitem) : rst :=
  mkrst (r_txt r) (r_cur r) (o ++ r_out r) (r_regs r) (r_marks r) (r_kwd r) (r_kwddir r) (r_inp r) (r_quit r) (r_wa r).
Definition r_regs_set (r : rst) (g : list (N * bytes)) : rst :=
  mkrst (r_txt r) (r_cur r) (r_out r) g (r_marks r) (r_kwd r) (r_kwddir r) (r_inp r) (r_quit r) (r_wa r).
Definition r_inp_set (r : rst) (i : list bytes) : rst :=
  mkrst (r_txt r) (r_cur r) (r_out r) (r_regs r) (r_marks r) (r_kwd r) (r_kwddir r) i (r_quit r) (r_wa r).
Definition r_quit_set (r : rst) : rst :=
  mkrst (r_txt r) (r_cur r) (r_out r) (r_regs r) (r_marks r) (r_kwd r) (r_kwddir r) (r_inp r) true (r_wa r).
Definition r_len (r : rst) : Z := Z.of_nat (length (r_txt r)).

(* a mark while the lines [pos, pos+ndel) are replaced by nins lines: above the range it stays, below it moves
   with its line; inside the range the property leaves it open -- the editor unsets it when the lines are
   deleted for good (no text given) and otherwise keeps the row, clipped to the new lines *)
Definition ref_mark_shift (nul : bool) (pos ndel nins r : Z) : Z :=
  if r <? pos then r
  else if pos + ndel <=? r then r + nins - ndel
  else if nul then -1 else Z.min r (pos + nins - 1).

Definition opt_lines (t : option bytes) : list bytes := match t with Some x => split_lines x | None => [] end.

(* the marks after the lines [b,e) were replaced by the text t (None with b = e: no edit at all).
   Slots (markidx): 27 = '*, 28 = '[ (first changed line), 29 = '] (last changed line), 30 = '^ *)
Definition ref_marks_edit (t : option bytes) (b e : Z) (m : list Z) : list Z :=
  if (b =? e) && (match t with None => true | Some _ => false end) then m
  else
    let n := Z.of_nat (length (opt_lines t)) in
    let nul := match t with None => true | Some _ => false end in
    upd 29 (b + (if n =? 0 then 0 else n - 1))
      (upd 28 b (map (ref_mark_shift nul b (e - b) n) (upd 27 (nth 30 m (-1)) m))).

Section RefEd.
Variable rvalid : bytes -> bool.
Variable rfind : bytes -> bytes -> bool -> option (nat * nat).
Variable filter : bytes -> bytes -> option bytes.
Variable readfile : bytes -> option bytes.
Variable curpath : bytes.

Definition ref_region (loc : bytes) (r : rst) : bool * Z * Z * rst :=
  let '(bad, b, e, s1) := ex_region rvalid rfind loc (conc r) in (bad, b, e, r_addr r (xrow s1) (kwd s1) (kwddir s1)).

Definition nonzero (b e : Z) : bool := negb (b =? 0) || negb (e =? 0).

(* append / insert / change: address 0 (the (0,0) outcome) means "before the first line" *)
Definition ref_insert_cmd (loc cmd : bytes) (txt : option bytes) (r : rst) : rst * Z :=
  let '(bad, b, e, r1) := ref_region loc r in
  if bad && nonzero b e then (r1, 1)
  else
    let t := opt_lines txt in
    if (hd0 cmd =? 99)%N then
      let '(l', c') := ref_change (r_txt r1) b e t in (r_set r1 l' c' (ref_marks_edit txt b e (r_marks r1)), 0)
    else if (hd0 cmd =? 97)%N then
      let pos := if b <? e then b + 1 else b in
      let '(l', c') := ref_append (r_txt r1) b e t in (r_set r1 l' c' (ref_marks_edit txt pos pos (r_marks r1)), 0)
    else
      let '(l', c') := ref_insert (r_txt r1) b e t in (r_set r1 l' c' (ref_marks_edit txt b b (r_marks r1)), 0).

Definition ref_print_cmd (loc cmd : bytes) (r : rst) : rst * Z :=
  if (match cmd, loc with [], [] => true | _, _ => false end) && (r_len r <=? r_cur r) then (r, 1)
  else
    let '(bad, b, e, r1) := ref_region loc r in
    if bad || ex_zero loc b e then (r1, 1)
    else let '(l, c') := ref_print (r_txt r1) b e in (r_cur_set (r_emit r1 (rev (map OLine l))) c', 0).

(* the command without a name: one line forward (if there is one), then print what the address says *)
Definition ref_null_cmd (loc cmd : bytes) (r : rst) : rst * Z :=
  ref_print_cmd loc cmd (r_cur_set r (if r_cur r + 1 <? r_len r then r_cur r + 1 else r_cur r)).

Definition ref_delete_cmd (loc arg : bytes) (r : rst) : rst * Z :=
  let '(bad, b, e, r1) := ref_region loc r in
  if bad || ex_zero loc b e || (r_len r1 =? 0) then (r1, 1)
  else
    let '(l', c') := ref_delete (r_txt r1) b e in
    (r_set (r_regs_set r1 (reg_put (r_regs r1) (REG arg) (ref_range (r_txt r1) b e))) l' c'
           (ref_marks_edit None b e (r_marks r1)), 0).

Definition ref_yank_cmd (loc arg : bytes) (r : rst) : rst * Z :=
  let '(bad, b, e, r1) := ref_region loc r in
  if bad || ex_zero loc b e || (r_len r1 =? 0) then (r1, 1)
  else (r_regs_set r1 (reg_put (r_regs r1) (REG arg) (ref_range (r_txt r1) b e)), 0).

Definition ref_reg_get (r : rst) (c : N) : option bytes := reg_getraw (r_regs r) (if (c =? 34)%N then 0%N else c).

Definition ref_put_cmd (loc arg : bytes) (r : rst) : option (rst * Z) :=
  if reg_special (REG arg) then None else
  match ref_reg_get r (REG arg) with
  | None => Some (r, 1)
  | Some buf =>
    let '(bad, b, e, r1) := ref_region loc r in
    if bad && nonzero b e then Some (r1, 1)
    else let '(l', c') := ref_put (r_txt r1) b e (split_lines buf) in
         Some (r_set r1 l' c' (ref_marks_edit (Some buf) e e (r_marks r1)), 0)
  end.

Definition ref_lnum_cmd (loc : bytes) (r : rst) : rst * Z :=
  let '(bad, b, e, r1) := ref_region loc r in
  if bad || ex_zero loc b e then (r1, 1) else (r_emit r1 [ONum e], 0).

Definition ref_mark_cmd (loc arg : bytes) (r : rst) : rst * Z :=
  let '(bad, b, e, r1) := ref_region loc r in
  if bad || ex_zero loc b e then (r1, 1)
  else (r_set r1 (r_txt r1) (r_cur r1)
          (match markidx (hd0 arg) with Some k => upd k (e - 1) (r_marks r1) | None => r_marks r1 end), 0).

Definition ref_read_cmd (loc arg : bytes) (r : rst) : option (rst * Z) :=
  if negb (plain_arg arg) || (hd0 arg =? 33)%N then None else
  let path := match arg with [] => curpath | _ => arg end in
  let '(bad, b, e, r1) := ref_region loc r in
  if bad && nonzero b e then Some (r1, 1)
  else
    match readfile path with
    | None => Some (r_emit r1 [OMsg M_READFAIL], 1)
    | Some data =>
      let pos := if r_len r1 =? 0 then 0 else e in
      let '(l', c') := ref_read (r_txt r1) b e (split_lines data) in
      Some (r_emit (r_set r1 l' c' (ref_marks_edit (Some data) pos pos (r_marks r1))) [OMsg M_READ], 0)
    end.

(* the filter: the addressed lines are the input, the output replaces them, the current line NUMBER stays;
   without writeany the editor first asks whether the buffer is modified (C02): outside this reference *)
Definition ref_filter_cmd (loc arg : bytes) (r : rst) : option (rst * Z) :=
  if negb (r_wa r) then None
  else if negb (plain_arg arg) then None
  else match loc with
  | [] => None
  | _ =>
    let '(bad, b, e, r1) := ref_region loc r in
    if bad || ex_zero loc b e then Some (r1, 1)
    else match filter arg (ref_range (r_txt r1) b e) with
         | Some rep => Some (r_set r1 (splice (Z.to_nat b) (Z.to_nat e) (split_lines rep) (r_txt r1)) (r_cur r1)
                                   (ref_marks_edit (Some rep) b e (r_marks r1)), 0)
         | None => Some (r1, 0)
         end
  end.

Definition ref_simple (abbr loc cmd arg : bytes) (txt : option bytes) (r : rst) : option (rst * Z) :=
  if is abbr [97]%N || is abbr [105]%N || is abbr [99]%N then Some (ref_insert_cmd loc cmd txt r)
  else if is abbr [100]%N then Some (ref_delete_cmd loc arg r)
  else if is abbr [107]%N then Some (ref_mark_cmd loc arg r)
  else if is abbr [112]%N then Some (ref_print_cmd loc cmd r)
  else if is abbr [112; 117]%N then ref_put_cmd loc arg r
  else if is abbr [113; 33]%N then Some (r_quit_set r, 0)
  else if is abbr [114]%N then ref_read_cmd loc arg r
  else if is abbr [114; 115]%N then match txt with Some t => Some (r_regs_set r (reg_put (r_regs r) (REG arg) t), 0) | None => None end
  else if is abbr [115]%N then None                                  (* substitute *)
  else if is abbr [117]%N then None                                  (* undo *)
  else if is abbr [119]%N || is abbr [119; 33]%N then None           (* write *)
  else if is abbr [121]%N then Some (ref_yank_cmd loc arg r)
  else if is abbr [33]%N then ref_filter_cmd loc arg r
  else if is abbr [61]%N then Some (ref_lnum_cmd loc r)
  else if is abbr [101; 99]%N then Some (r_emit r [OEcho arg], 0)
  else if is abbr [] then Some (ref_null_cmd loc cmd r)
  else None.

(* the text block of a i c (from the input, up to the lone ".") and the text of rs *)
Definition ref_txt (src abbr : bytes) (r : rst) : bytes * option bytes * rst :=
  let c0 := hd0 abbr in
  let c1 := hd0 (tl abbr) in
  let is_rs := ((c0 =? 114) && (c1 =? 115))%N in
  match is_rs, src with
  | true, _ :: _ => let '(t, rest) := inline_block src [] in (rest, Some (t ++ [nl]), r)
  | _, _ =>
    if is_rs || ((c1 =? 0) && ((c0 =? 105) || (c0 =? 97) || (c0 =? 99)))%N then
      let '(t, i') := read_block (r_inp r) [] in (src, Some t, r_inp_set r i')
    else (src, None, r)
  end.

(* @r: the register is run as a command line with the current line at the first addressed line *)
Definition ref_at_cmd (exec : bytes -> rst -> option (rst * Z)) (loc arg : bytes) (r : rst) : option (rst * Z) :=
  if reg_special (REG arg) then None else
  match ref_reg_get r (REG arg) with
  | None => Some (r, 1)
  | Some buf =>
    let '(bad, b, e, r1) := ref_region loc r in
    if bad || ex_zero loc b e then Some (r1, 1) else exec buf (r_cur_set r1 b)
  end.

(* one command line: commands separated by "|"; the fuel bounds the number of commands and the nesting of @ *)
Fixpoint ref_exec (fuel : nat) (ret : Z) (ln : bytes) (r : rst) : option (rst * Z) :=
  match fuel with
  | O => None
  | S f =>
    match ln with
    | [] => Some (r, ret)
    | _ =>
      let '(ln1, loc) := ex_loc ln in
      let '(ln2, cmd) := ex_cmd ln1 in
      let idx := ex_idx cmd in
      let abbr := match idx with Some a => a | None => str [117;110;107;110;111;119;110]%N end in
      let '(ln3, arg) := ex_arg ln2 abbr in
      let '(ln4, txt, r1) := ref_txt ln3 abbr r in
      match (match idx with
             | None => if is_other cmd then None else Some (r_emit r1 [OMsg M_UNKNOWN], ret)
             | Some a =>
               if (hd0 a =? 103)%N || (hd0 a =? 118)%N then None                  (* global: C15 *)
               else if (hd0 a =? 64)%N then ref_at_cmd (ref_exec f 0) loc arg r1
               else ref_simple a loc cmd arg txt r1
             end) with
      | None => None
      | Some (r2, ret2) => ref_exec f ret2 ln4 r2
      end
    end
  end.

(* the script: command lines are taken from the input until q! or the end; each is remembered in register ":" *)
Fixpoint ref_main (n fuel : nat) (r : rst) : option rst :=
  match n with
  | O => None
  | S n' =>
    if r_quit r then Some r
    else match r_inp r with
         | [] => Some r
         | ln :: rest =>
           match ref_exec fuel 0 ln (r_inp_set r rest) with
           | None => None
           | Some (r1, _) => ref_main n' fuel (r_regs_set r1 (reg_put (r_regs r1) 58 ln))
           end
         end
  end.

End RefEd.

(* ------------------------------------------------------------------------------------------ *)
(* "after every command": ex_exec / ref_exec instrumented with the list of states after each command of the line
   (the commands a register run by @ executes are inside that command's step), ex_main / ref_main with the states after
   each command of each line.  ex_exec_tr is ex_exec with a trace, see ExRefine.exec_tr_last. *)
Section Traces.
Variable rvalid : bytes -> bool.
Variable rfind : bytes -> bytes -> bool -> option (nat * nat).
Variable filter : bytes -> bytes -> option bytes.
Variable readfile : bytes -> option bytes.
Variable curpath : bytes.

Fixpoint ex_exec_tr (fuel : nat) (ret : Z) (ln : bytes) (s : st) : list st :=
  match fuel with
  | O => [flag s F_OOF]
  | S f =>
    match ln with
    | [] => []
    | _ =>
      let '(ln1, loc) := ex_loc ln in
      let '(ln2, cmd) := ex_cmd ln1 in
      let idx := ex_idx cmd in
      let abbr := match idx with Some a => a | None => str [117;110;107;110;111;119;110]%N end in
      let '(ln3, arg) := ex_arg ln2 abbr in
      let '(ln4, txt, s1) := ex_txt ln3 abbr s in
      let '(s2, ret2) :=
        match idx with
        | None => (if is_other cmd then flag s1 F_UNSUP else emit s1 (OMsg M_UNKNOWN), ret)
        | Some a =>
          if (hd0 a =? 103)%N || (hd0 a =? 118)%N then ec_glob rvalid rfind (ex_exec rvalid rfind filter readfile curpath f 0) f loc cmd arg s1
          else if (hd0 a =? 64)%N then ec_at rvalid rfind (ex_exec rvalid rfind filter readfile curpath f 0) loc arg s1
          else ex_simple rvalid rfind filter readfile curpath a loc cmd arg txt s1
        end in
      s2 :: ex_exec_tr f ret2 ln4 s2
    end
  end.

Fixpoint ref_exec_tr (fuel : nat) (ret : Z) (ln : bytes) (r : rst) : option (list rst) :=
  match fuel with
  | O => None
  | S f =>
    match ln with
    | [] => Some []
    | _ =>
      let '(ln1, loc) := ex_loc ln in
      let '(ln2, cmd) := ex_cmd ln1 in
      let idx := ex_idx cmd in
      let abbr := match idx with Some a => a | None => str [117;110;107;110;111;119;110]%N end in
      let '(ln3, arg) := ex_arg ln2 abbr in
      let '(ln4, txt, r1) := ref_txt ln3 abbr r in
      match (match idx with
             | None => if is_other cmd then None else Some (r_emit r1 [OMsg M_UNKNOWN], ret)
             | Some a =>
               if (hd0 a =? 103)%N || (hd0 a =? 118)%N then None
               else if (hd0 a =? 64)%N then ref_at_cmd rvalid rfind (ref_exec rvalid rfind filter readfile curpath f 0) loc arg r1
               else ref_simple rvalid rfind filter readfile curpath a loc cmd arg txt r1
             end) with
      | None => None
      | Some (r2, ret2) => match ref_exec_tr f ret2 ln4 r2 with Some t => Some (r2 :: t) | None => None end
      end
    end
  end.

Fixpoint ex_main_tr (n fuel : nat) (s : st) : list st :=
  match n with
  | O => []
  | S n' =>
    if xquit s then []
    else match inp s with
         | [] => []
         | ln :: rest =>
           let s1 := fst (ex_command rvalid rfind filter readfile curpath fuel ln (set_inp s rest)) in
           ex_exec_tr fuel 0 ln (set_inp s rest) ++ ex_main_tr n' fuel (set_regs s1 (reg_put (regs s1) 58 ln))
         end
  end.

Fixpoint ref_main_tr (n fuel : nat) (r : rst) : option (list rst) :=
  match n with
  | O => None
  | S n' =>
    if r_quit r then Some []
    else match r_inp r with
         | [] => Some []
         | ln :: rest =>
           match ref_exec rvalid rfind filter readfile curpath fuel 0 ln (r_inp_set r rest), ref_exec_tr fuel 0 ln (r_inp_set r rest) with
           | Some (r1, _), Some t =>
             match ref_main_tr n' fuel (r_regs_set r1 (reg_put (r_regs r1) 58 ln)) with Some t' => Some (t ++ t') | None => None end
           | _, _ => None
           end
         end
  end.
End Traces.

(* ------------------------------------------------------------------------------------------ *)
(* ADDRESSES, independently of ex_region: an address string is cut into tokens (tok_addr: only the walking over the
   bytes -- digits, the delimiter-terminated pattern, the separators -- follows the C code) and the tokens are given a
   meaning on the reference state (spec_region).  ExAddr.region_spec: ref_region loc r = spec_region (tok_addr loc) r. *)
Inductive abase :=
| BCur                                   (* "." or nothing *)
| BLast                                  (* "$" *)
| BMark (c : N)                          (* 'c *)
| BPat (delim : N) (pat : option bytes)  (* /pat/ or ?pat?; an empty pattern reuses the remembered one AND its direction *)
| BNum (n : Z).                          (* 1-based line number *)
Record aterm := mkterm { t_base : abase; t_offs : list Z }.     (* base, then +n / -n offsets *)
Inductive addr :=
| APercent                                       (* "%" : the whole buffer *)
| AEmpty                                         (* no address: the current line *)
| ATerms (l : list (aterm * option bool)).       (* terms, each followed by ";" (Some true), "," (Some false) or the end *)

Fixpoint tok_offs (fuel : nat) (num : bytes) : list Z * bytes :=
  match fuel with
  | O => ([], num)
  | S f =>
    match num with
    | c :: rest => if ((c =? 45) || (c =? 43))%N then let '(l, r) := tok_offs f (skip_digits rest) in (atoi num :: l, r) else ([], num)
    | [] => ([], num)
    end
  end.

Definition tok_term (loc : bytes) : aterm * bytes :=
  let fin := fun (b : abase) (rest : bytes) => let '(l, r) := tok_offs (S (length rest)) rest in (mkterm b l, r) in
  match loc with
  | [] => fin BCur []
  | c :: rest =>
    if (c =? 46)%N then fin BCur rest
    else if (c =? 36)%N then fin BLast rest
    else if (c =? 39)%N then fin (BMark (hd0 rest)) (tl rest)
    else if ((c =? 47) || (c =? 63))%N then let '(kw, rest') := re_read loc in fin (BPat c kw) rest'
    else if isdigit c then fin (BNum (fst (digits loc 0))) (skip_digits loc)
    else fin BCur loc
  end.

Fixpoint tok_terms (fuel : nat) (loc : bytes) : list (aterm * option bool) :=
  match fuel with
  | O => []
  | S f =>
    match loc with
    | [] => []
    | _ =>
      let '(t, rest) := tok_term loc in
      match skip_to_sep rest with            (* anything between the term and the next separator is skipped *)
      | [] => [(t, None)]
      | c :: rest' => (t, Some (c =? 59)%N) :: tok_terms f rest'
      end
    end
  end.

Definition tok_addr (loc : bytes) : addr :=
  if bytes_eqb loc [37%N] then APercent
  else match loc with [] => AEmpty | _ => ATerms (tok_terms (S (length loc)) loc) end.

Fixpoint first_match (m : bytes -> bool) (l : list bytes) : option nat :=
  match l with
  | [] => None
  | x :: l' => if m x then Some O else option_map S (first_match m l')
  end.

Section AddrSem.
Variable rvalid : bytes -> bool.
Variable rfind : bytes -> bytes -> bool -> option (nat * nat).

Definition matches (pat x : bytes) : bool := match rfind pat x false with Some _ => true | None => false end.

(* a direction other than +1 / -1 is never stored by the editor; for completeness: step by dir until a match or the edge *)
Fixpoint gen_search (fuel : nat) (texts : list bytes) (pat : bytes) (row dir : Z) : option Z :=
  match fuel with
  | O => None
  | S f =>
    if (row <? 0) || (Z.of_nat (length texts) <=? row) then None
    else match nth_error texts (Z.to_nat row) with
         | Some x => if matches pat x then Some row else gen_search f texts pat (row + dir) dir
         | None => None
         end
  end.

(* the nearest matching line strictly after (dir = 1) / before (dir = -1) the current line; no wrap-around; a search that
   would start outside the buffer fails *)
Definition spec_search (texts : list bytes) (pat : bytes) (cur dir : Z) : option Z :=
  let start := cur + dir in
  if (start <? 0) || (Z.of_nat (length texts) <=? start) then None
  else if dir =? 1 then option_map (fun k => start + Z.of_nat k) (first_match (matches pat) (skipn (Z.to_nat start) texts))
  else if dir =? -1 then option_map (fun k => start - Z.of_nat k) (first_match (matches pat) (rev (firstn (S (Z.to_nat start)) texts)))
  else gen_search (S (length texts)) texts pat start dir.

Definition r_jump (r : rst) (c : N) : option Z :=
  match markidx c with
  | Some k => let row := nth k (r_marks r) (-1) in if row <? 0 then None else Some row
  | None => None
  end.

(* 0-based row of a base, None = it does not designate a line (unset mark, failed search) *)
Definition sem_base (b : abase) (r : rst) : option Z * rst :=
  match b with
  | BCur => (Some (r_cur r), r)
  | BLast => (Some (r_len r - 1), r)
  | BMark c => (r_jump r c, r)
  | BNum n => (Some (n - 1), r)
  | BPat d kw =>
    let r1 := match kw with Some (c :: p) => r_addr r (r_cur r) (c :: p) (if (d =? 47)%N then 1 else -1) | _ => r end in
    if r_kwddir r1 =? 0 then (None, r1)
    else if negb (rvalid (r_kwd r1)) then (None, r1)
    else (spec_search (r_txt r1) (r_kwd r1) (r_cur r1) (r_kwddir r1), r1)
  end.

Definition sem_term (t : aterm) (r : rst) : option Z * rst :=
  let '(o, r1) := sem_base (t_base t) r in
  (match o with Some n => Some (fold_left Z.add (t_offs t) n) | None => None end, r1).

(* a term gives the END of the range (exclusive: its row + 1) and, if it is the first one, the beginning too; a later term
   moves the end and makes the previous end (inclusive) the beginning; ";" makes the term's line the current line;
   a term that designates no line, or a line before "line 0", rejects the address *)
Fixpoint sem_terms (l : list (aterm * option bool)) (first : bool) (b e : Z) (r : rst) : bool * Z * Z * rst :=
  match l with
  | [] => (false, b, e, r)
  | (t, sep) :: l' =>
    let '(o, r1) := sem_term t r in
    let n := match o with Some n => n | None => -2 end in
    let e1 := n + 1 in
    let b1 := if first then e1 - 1 else e - 1 in
    if e1 <? 0 then (true, b1, e1, r1)
    else match sep with
         | None => (false, b1, e1, r1)
         | Some semi => sem_terms l' false b1 e1 (if semi then r_cur_set r1 (e1 - 1) else r1)
         end
  end.

Definition spec_region (a : addr) (r : rst) : bool * Z * Z * rst :=
  match a with
  | APercent => (false, 0, Z.max 0 (r_len r), r)
  | AEmpty => ((r_cur r <? 0) || (r_len r <? r_cur r), r_cur r, (if r_cur r =? r_len r then r_cur r else r_cur r + 1), r)
  | ATerms l =>
    let '(bad, b, e, r1) := sem_terms l true 0 0 r in
    if bad then (true, b, e, r1)
    else
      let b := if (b <? 0) && (e =? 0) then 0 else b in       (* address 0: before the first line *)
      if (b <? 0) || (r_len r1 <=? b) then (true, b, e, r1)
      else if (e <? b) || (r_len r1 <? e) then (true, b, e, r1)
      else (false, b, e, r1)
  end.
End AddrSem.
