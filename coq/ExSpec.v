(* ExSpec.v -- the reference line editor of C06 in the property's own words.
   State: the lines (each with a ghost identity), the current line, marks that designate identities,
   registers.  A command with resolved range [b,e) and text t yields  firstn b lines ++ t ++ skipn e lines;
   what is printed and the new current line are given per command. *)
From Coq Require Import List NArith ZArith Bool.
From NV Require Import Bytes ExDefs.
Import ListNotations.
Local Open Scope Z_scope.

Definition splice {A} (b e : nat) (t l : list A) : list A := firstn b l ++ t ++ skipn e l.

(* "every line outside [b,e) keeps its bytes, its place in the order and its identity" *)
Definition frame (b e : Z) (l l' : list line) : Prop :=
  exists new, l' = splice (Z.to_nat b) (Z.to_nat e) new l.

(* a mark (row, ghost identity) designates the line with that identity *)
Definition mark_ok (ids : list nat) (m : Z * option nat) : Prop :=
  forall i, snd m = Some i -> 0 <= fst m /\ nth_error ids (Z.to_nat (fst m)) = Some i.
Definition marks_agree (l : lbuf) : Prop := Forall (mark_ok (map lid (lns l))) (marks l).

(* the reference semantics of the text-changing commands on (texts, current line), given the resolved
   range [b,e) (0-based, half open) and the text t; clampz keeps the current line inside the buffer *)
Definition clampz (n v : Z) : Z := Z.max 0 (Z.min (n - 1) v).
Definition ref_append (l : list bytes) (b e : Z) (t : list bytes) : list bytes * Z :=
  let pos := if b <? e then b + 1 else b in
  let l' := splice (Z.to_nat pos) (Z.to_nat pos) t l in
  (l', clampz (Z.of_nat (length l')) (pos + Z.of_nat (length t) - 1)).
Definition ref_insert (l : list bytes) (b e : Z) (t : list bytes) : list bytes * Z :=
  let l' := splice (Z.to_nat b) (Z.to_nat b) t l in
  (l', clampz (Z.of_nat (length l')) (b + Z.of_nat (length t) - 1)).
Definition ref_change (l : list bytes) (b e : Z) (t : list bytes) : list bytes * Z :=
  let l' := splice (Z.to_nat b) (Z.to_nat e) t l in
  (l', clampz (Z.of_nat (length l')) (b + Z.of_nat (length t) - 1)).
Definition ref_delete (l : list bytes) (b e : Z) : list bytes * Z :=
  let l' := splice (Z.to_nat b) (Z.to_nat e) [] l in
  (l', clampz (Z.of_nat (length l')) b).
Definition ref_put (l : list bytes) (b e : Z) (t : list bytes) : list bytes * Z :=
  let l' := splice (Z.to_nat e) (Z.to_nat e) t l in
  (l', clampz (Z.of_nat (length l')) (e + Z.of_nat (length t) - 1)).
(* read: like put, but on the empty buffer the text goes to the top whatever the address, and the current line is
   not clamped to the last line *)
Definition ref_read (l : list bytes) (b e : Z) (t : list bytes) : list bytes * Z :=
  let pos := if Z.of_nat (length l) =? 0 then 0 else e in
  (splice (Z.to_nat pos) (Z.to_nat pos) t l, Z.max 0 (e + Z.of_nat (length t) - 1)).
(* what yank and delete store: the addressed lines, each with its newline *)
Definition ref_range (l : list bytes) (b e : Z) : bytes :=
  join_lines (firstn (Z.to_nat (e - b)) (skipn (Z.to_nat b) l)).
Definition ref_print (l : list bytes) (b e : Z) : list bytes * Z :=
  (firstn (Z.to_nat (e - b)) (skipn (Z.to_nat b) l), Z.max b (e - 1)).

Definition texts (s : st) : list bytes := map ltxt (lns (lb s)).
