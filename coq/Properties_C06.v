(* Properties_C06.v -- C06: ex line commands change exactly the addressed lines (reference line editor).
   Statements only; every proof is `exact <lemma>`; Print Assumptions under each.
   The model (ExDefs.v) mirrors ex.c / lbuf.c / reg.c; the regex engine, the shell filter, the file
   system and the file name are arbitrary (universally quantified) parameters of every theorem. *)
From Coq Require Import List NArith ZArith Bool.
From NV Require Import Bytes ExDefs ExSpec ExProps.
Import ListNotations.
Local Open Scope Z_scope.

(* ex_region succeeds only with 0 <= b <= e <= len and b < len, or with an empty range: (0,0) for address 0
   and for "%" on the empty buffer, (cur,cur) for an address-less command whose current line equals len *)
Theorem C06_resolve_bounds : forall rvalid rfind loc s b e s1,
  ex_region rvalid rfind loc s = (false, b, e, s1) ->
  0 <= b <= e /\ e <= slen s1 /\ (b < slen s1 \/ (b = e /\ (loc = [] \/ loc = [37%N]))).
Proof. exact region_bounds. Qed.
Print Assumptions C06_resolve_bounds.

(* every command of the list (a i c d k p pu r y ! =) whose address resolves to [b,e) yields
   firstn b lines ++ new ++ skipn e lines: every line outside [b,e) keeps bytes, order and identity.
   (xwa: the filter command is refused on a modified buffer otherwise -- also a frame.) *)
Theorem C06_frame : forall rvalid rfind filter readfile curpath a loc cmd arg txt s b e s1,
  In a frame_cmds -> xwa s = true ->
  ex_region rvalid rfind loc s = (false, b, e, s1) ->
  frame b e (lns (lb s)) (lns (lb (fst (ex_simple rvalid rfind filter readfile curpath a loc cmd arg txt s)))).
Proof. exact frame_simple. Qed.
Print Assumptions C06_frame.

(* a command whose address does not resolve is rejected (returns 1) and leaves lines, marks and the undo
   history -- the whole line buffer -- unchanged; (0,0) is what the text-adding commands a/i/c/pu/r accept as
   "before the first line" (also on the empty buffer) *)
Theorem C06_rejected_unchanged : forall rvalid rfind filter readfile curpath a loc cmd arg txt s b e s1,
  In a frame_cmds -> xwa s = true ->
  ex_region rvalid rfind loc s = (true, b, e, s1) ->
  (In a [[97]; [105]; [99]; [112; 117]; [114]]%N -> b <> 0 \/ e <> 0) ->
  lb (fst (ex_simple rvalid rfind filter readfile curpath a loc cmd arg txt s)) = lb s /\
  snd (ex_simple rvalid rfind filter readfile curpath a loc cmd arg txt s) = 1.
Proof. exact rejected_simple. Qed.
Print Assumptions C06_rejected_unchanged.

(* marks: every mark whose ghost identity is known designates a line with that identity -- after the
   initial load and after ANY script (any number of commands, including @, global, substitute, undo) *)
Theorem C06_marks_track : forall rvalid rfind filter readfile curpath data input wa n fuel,
  marks_agree (lb (ex_main rvalid rfind filter readfile curpath n fuel (init_st data input wa))).
Proof. exact marks_track_main. Qed.
Print Assumptions C06_marks_track.

Theorem C06_marks_track_step : forall rvalid rfind filter readfile curpath fuel ret ln s,
  marks_agree (lb s) -> marks_agree (lb (fst (ex_exec rvalid rfind filter readfile curpath fuel ret ln s))).
Proof. exact sagree_ex_exec. Qed.
Print Assumptions C06_marks_track_step.

(* ... and the ghost is kept by a splice exactly when the marked row lies outside the replaced range
   (lbuf_replace's three-way shift): lines added or removed elsewhere never make a mark forget its line *)
Theorem C06_marks_outside_kept : forall nul pos ndel nins r g, 0 <= nins -> (r < pos \/ pos + ndel <= r) ->
  snd (shift_mark nul pos ndel nins (r, g)) = g.
Proof. exact shift_mark_outside. Qed.
Print Assumptions C06_marks_outside_kept.

(* FULL STATEMENT AIMED AT (not proved): for every script, the run of ex_main equals, command by command, the run of
   the reference line editor of ExSpec.v (texts, current line, printed output, identity-marks, registers).
   Proved below: the per-command equalities, given the resolved range [b,e), for delete (text, current line, register),
   append/insert/change, print, put, read, yank (register), mark, = and the filter command.  s1 is the state after the address was
   resolved (it differs from s only in the remembered search keyword and, after `;`, the current line).
   Missing: `@`, and the lifting through ex_exec's parser to whole scripts (needs a
   parsed-command datatype and ex_exec = fold over it). *)
Theorem C06_refines_spec_partial : forall rvalid rfind,
  (forall loc arg s b e s1, ex_region rvalid rfind loc s = (false, b, e, s1) -> slen s <> 0 -> ex_zero loc b e = false ->
     let s' := fst (ec_delete rvalid rfind loc arg s) in (texts s', xrow s') = ref_delete (texts s) b e) /\
  (forall loc cmd txt s b e s1, ex_region rvalid rfind loc s = (false, b, e, s1) ->
     let s' := fst (ec_insert rvalid rfind loc cmd (Some txt) s) in
     (texts s', xrow s') =
       (if (hd0 cmd =? 99)%N then ref_change (texts s) (if (hd0 cmd =? 97)%N && (b <? e) then b + 1 else b) e (split_lines txt)
        else if (hd0 cmd =? 97)%N then ref_append (texts s) b e (split_lines txt)
        else ref_insert (texts s) b e (split_lines txt))) /\
  (forall loc cmd s b e s1, ex_region rvalid rfind loc s = (false, b, e, s1) -> (cmd <> [] \/ loc <> []) -> ex_zero loc b e = false ->
     let s' := fst (ec_print rvalid rfind loc cmd s) in
     texts s' = texts s /\ xrow s' = snd (ref_print (texts s) b e) /\
     out s' = rev (map OLine (fst (ref_print (texts s) b e))) ++ out s1) /\
  (forall loc arg s b e s1 buf, ex_region rvalid rfind loc s = (false, b, e, s1) ->
     reg_special (REG arg) = false -> reg_get s (REG arg) = Some buf ->
     let s' := fst (ec_put rvalid rfind loc arg s) in (texts s', xrow s') = ref_put (texts s) b e (split_lines buf)) /\
  (forall readfile curpath loc arg s b e s1 data, ex_region rvalid rfind loc s = (false, b, e, s1) ->
     negb (plain_arg arg) || (hd0 arg =? 33)%N = false ->
     readfile (match arg with [] => curpath | _ => arg end) = Some data ->
     let s' := fst (ec_read rvalid rfind readfile curpath loc arg s) in
     (texts s', xrow s') = ref_read (texts s) b e (split_lines data) /\ out s' = OMsg M_READ :: out s1) /\
  (forall loc arg s b e s1, ex_region rvalid rfind loc s = (false, b, e, s1) -> slen s <> 0 -> ex_zero loc b e = false ->
     let s' := fst (ec_yank rvalid rfind loc arg s) in
     texts s' = texts s /\ xrow s' = xrow s1 /\ regs s' = reg_put (regs s1) (REG arg) (ref_range (texts s) b e)) /\
  (forall loc arg s b e s1, ex_region rvalid rfind loc s = (false, b, e, s1) -> slen s <> 0 -> ex_zero loc b e = false ->
     regs (fst (ec_delete rvalid rfind loc arg s)) = reg_put (regs s1) (REG arg) (ref_range (texts s) b e)) /\
  (forall loc arg s b e s1 k, ex_region rvalid rfind loc s = (false, b, e, s1) -> ex_zero loc b e = false ->
     markidx (hd0 arg) = Some k -> (k < length (marks (lb s)))%nat ->
     let s' := fst (ec_mark rvalid rfind loc arg s) in
     texts s' = texts s /\ xrow s' = xrow s1 /\ nth k (marks (lb s')) (-1, None) = (e - 1, ghost_at (lns (lb s)) (e - 1))) /\
  (forall loc s b e s1, ex_region rvalid rfind loc s = (false, b, e, s1) -> ex_zero loc b e = false ->
     let s' := fst (ec_lnum rvalid rfind loc s) in
     texts s' = texts s /\ xrow s' = xrow s1 /\ out s' = ONum e :: out s1) /\
  (forall filter loc arg s b e s1 rep, xwa s = true -> plain_arg arg = true -> loc <> [] ->
     ex_region rvalid rfind loc s = (false, b, e, s1) -> ex_zero loc b e = false ->
     filter arg (ref_range (texts s) b e) = Some rep ->
     let s' := fst (ec_exec rvalid rfind filter loc arg s) in
     texts s' = splice (Z.to_nat b) (Z.to_nat e) (split_lines rep) (texts s) /\ xrow s' = xrow s1).
Proof. exact (fun rvalid rfind =>
  conj (delete_refines rvalid rfind) (conj (insert_refines rvalid rfind) (conj (print_refines rvalid rfind)
  (conj (put_refines rvalid rfind) (conj (read_refines rvalid rfind) (conj (yank_refines rvalid rfind)
  (conj (delete_regs rvalid rfind) (conj (mark_refines rvalid rfind) (conj (lnum_refines rvalid rfind) (filter_refines rvalid rfind)))))))))). Qed.
Print Assumptions C06_refines_spec_partial.

(* the hypotheses are satisfiable: on a three-line buffer "2,3" resolves to [1,3) *)
Example C06_nonvacuous :
  let s := init_st [97; 10; 98; 10; 99; 10]%N [] true in
  exists s1, ex_region (fun _ => true) (fun _ _ _ => None) [50; 44; 51]%N s = (false, 1, 3, s1) /\ marks_agree (lb s).
Proof. eexists. split; [vm_compute; reflexivity | apply sagree_init]. Qed.
